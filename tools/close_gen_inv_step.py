#!/usr/bin/env python3
import re
src=open('/verif/coq/Proofs/CloseProtoInv.v').read()
rec=src[src.index('Record Inv (s : state) : Prop := {')+len('Record Inv (s : state) : Prop := {'):]
rec=rec[:rec.index('\n}.')]
rec=re.sub(r'\(\*.*?\*\)','',rec,flags=re.S)
names=[]
for part in rec.split(';\n'):
    part=part.strip()
    if not part: continue
    names.append(re.match(r'(\w+)\s*:',part).group(1))
print('''(* C08: the invariant of the close-protocol model is inductive; consequences for reachable states.
   The per-clause preservation lemmas are in CloseProtoInvA..E.v. *)
From Coq Require Import Arith Bool List Lia.
Import ListNotations.
From Ice Require Import Model.PrioSpec Model.CloseProto Proofs.CloseProtoMeasure Proofs.CloseProtoMeasure2
     Proofs.CloseProtoFrames Proofs.CloseProtoInv
     Proofs.CloseProtoInvA Proofs.CloseProtoInvA2 Proofs.CloseProtoInvB Proofs.CloseProtoInvC Proofs.CloseProtoInvD
     Proofs.CloseProtoInvD2 Proofs.CloseProtoInvD3 Proofs.CloseProtoInvE.

Section S.
Variable NC : nat.
Variable wfree : nat -> bool.
Variable fix_reg : bool.
Notation step := (step NC wfree fix_reg).
Notation steps := (steps NC wfree fix_reg).
Notation reach := (reach NC wfree fix_reg).
Notation Inv := (Inv NC fix_reg).

Theorem inv_step s s' : Inv s -> step s s' -> Inv s'.
Proof.
  intros I H. constructor.''')
for n in names:
    print(f"  - exact (p_{n} NC wfree fix_reg s s' I H).")
print('''Qed.

Theorem inv_steps s s' : Inv s -> steps s s' -> Inv s'.
Proof.
  intros I H. induction H as [|s s1 s2 H1 IH H2]; [exact I|].
  eapply inv_step; [apply IH; exact I|exact H2].
Qed.

Theorem inv_reach g0 s : reach g0 s -> Inv s.
Proof. intros H. apply (inv_steps (init g0) s); [exact (inv_init NC wfree fix_reg g0) | exact H]. Qed.

End S.''')
