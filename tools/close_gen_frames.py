#!/usr/bin/env python3
# generates frame lemmas: projections through host_take / host_release / enqueue (mechanical)
import re, subprocess, sys
src = open('/verif/tools/close_gen_setters.py').read()
fields = re.findall(r'\("(\w+)","', src)
changed = {
 'host_release': {'lp','rp','gp','ndr'},
 'host_take': {'lp','lown','rp','rown','gp','gown','ndr','down','dclo'},
 'enqueue': {'nq','ndr'},
}
out=[]
names=[]
for f in fields:
    if f not in changed['host_release']:
        out.append(f"Lemma fr_{f}_release s h : {f} (host_release s h) = {f} s.\nProof. destruct h; reflexivity. Qed.")
        names.append(f"fr_{f}_release")
    if f not in changed['host_take']:
        out.append(f"Lemma fr_{f}_take s h o b : {f} (host_take s h o b) = {f} s.\nProof. destruct h; reflexivity. Qed.")
        names.append(f"fr_{f}_take")
    if f not in changed['enqueue']:
        out.append(f"Lemma fr_{f}_enqueue s : {f} (enqueue s) = {f} s.\nProof. unfold enqueue. destruct (hdone s) eqn:E; cbn; first [reflexivity | exact E]. Qed.")
        names.append(f"fr_{f}_enqueue")
print("\n".join(out))
print("#[export] Hint Rewrite " + " ".join(names) + " : frames.")
