#!/usr/bin/env python3
"""gen_setters.py Rec ctor field:type ... -> Coq record + setter definitions (set_<field> v r)."""
import sys
rec, ctor = sys.argv[1], sys.argv[2]
fields = [a.split(':', 1) for a in sys.argv[3:]]
print(f"Record {rec} := {ctor} {{")
print(";\n".join(f"  {f} : {t}" for f, t in fields))
print("}.")
for f, t in fields:
    body = "; ".join(f"{g} := " + ("v" if g == f else f"{g} r") for g, _ in fields)
    print(f"Definition set_{f} (v : {t}) (r : {rec}) : {rec} := {{| {body} |}}.")
