#!/usr/bin/env python3
# generates the per-clause preservation lemmas of one group of the invariant (mechanical)
import re, sys
src=open('/verif/coq/Proofs/CloseProtoInv.v').read()
rec=src[src.index('Record Inv (s : state) : Prop := {')+len('Record Inv (s : state) : Prop := {'):]
rec=rec[:rec.index('\n}.')]
# strip comments
rec=re.sub(r'\(\*.*?\*\)','',rec,flags=re.S)
clauses=[]
for part in rec.split(';\n'):
    part=part.strip()
    if not part: continue
    m=re.match(r'(\w+)\s*:\s*(.*)$', part, re.S)
    clauses.append((m.group(1), m.group(2).strip()))
group=sys.argv[1]   # a b c d e
deps={'a':'depsA','b':'depsB','c':'depsC','d':'depsD','e':'depsE'}[group]
out=[]
for name,stmt in clauses:
    if not name.startswith(group+'_'): continue
    st=re.sub(r"\bs\b","s'",stmt)
    out.append(f"Lemma p_{name} s s' (I : Inv s) (H : step s s') :\n  {st}.\nProof. Time pres H ltac:(exact ({name} _ _ _ I)) ltac:({deps} I). Qed.\n")
print("\n".join(out))
# also print an assembly list
print("(* clauses: "+" ".join(n for n,_ in clauses if n.startswith(group+'_'))+" *)")
