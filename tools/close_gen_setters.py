#!/usr/bin/env python3
# generates the state record of Model/CloseProto.v and one setter per field (mechanical)
fields = [
 ("done","bool","l.done closed"),
 ("tld","bool","l.taskLoopDone closed"),
 ("once","once_st","l.closeOnce"),
 ("oowner","nat","ghost: the closer inside the once function"),
 ("lp","lpc",""),
 ("lown","nat","ghost: the closer the application code of the running task is inside of"),
 ("ap","nat -> apc",""),
 ("akind","nat -> ckind",""),
 ("tdone","nat -> bool","task i's done channel closed"),
 ("cp","nat -> cpc",""),
 ("cgr","nat -> bool","closer k is GracefulClose"),
 ("chost","nat -> host",""),
 ("snap","nat -> nat -> bool","closer k's snapshot of startedCandidates"),
 ("rp","nat -> rpc",""),
 ("rown","nat -> nat","ghost: the caller candidate c's recvLoop is inside of"),
 ("ioab","nat -> bool","candidate c's closeOnce has run: closeCh closed, SetDeadline(now), conn.Close()"),
 ("reg","nat -> bool","candidate c is in startedCandidates / localCandidates"),
 ("late","nat -> bool","ghost: candidate c was started after l.done was closed"),
 ("bufclosed","bool",""),
 ("hdone","bool","notifier closed"),
 ("nq","nat","queued notifications"),
 ("ndr","dpc",""),
 ("down","nat","ghost: the caller / closer the callback is inside of"),
 ("dclo","bool","ghost: ... it is a closer"),
 ("closedq","bool","ghost: Closed was enqueued"),
 ("gp","gpc",""),
 ("gown","nat","ghost: the caller the gather goroutine is inside of"),
 ("gcancel","bool","the gathering context is cancelled"),
 ("gfuel","nat","socket operations the gather goroutine may still start"),
 ("oncloses","nat","ghost: number of times onClose was started"),
 ("ntasks","nat","ghost: number of tasks started"),
]
out=[]
out.append("Record state := mk {")
for i,(n,t,c) in enumerate(fields):
    sep = ";" if i < len(fields)-1 else ""
    cm = ("   (* %s *)" % c) if c else ""
    out.append("  %s : %s%s%s" % (n,t,sep,cm))
out.append("}.")
out.append("")
for n,t,c in fields:
    args = " ".join(("v" if m==n else "(%s s)"%m) for m,_,_ in fields)
    out.append("Definition set_%s (s : state) (v : %s) : state := mk %s." % (n,t,args))
print("\n".join(out))
