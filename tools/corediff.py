#!/usr/bin/env python3
"""compact view of DIFF lines of the core driver: op, and the token-level differences MODEL vs IMPL"""
import sys
for line in open(sys.argv[1] if len(sys.argv) > 1 else '/verif/work/core/verdict.txt'):
    if not line.startswith('DIFF '):
        if line.startswith(('ERROR', 'MONFAIL')): print(line.strip()[:600])
        continue
    head, _, rest = line.partition(' model=')
    model, _, impl_all = rest.partition(' impl=')
    t = model.split()
    try:
        i_op, i_m, i_i = t.index('OP'), t.index('MODEL'), t.index('IMPL')
    except ValueError:
        print(head, 'unparsable'); continue
    op, m, im = t[i_op+1:i_m], t[i_m+1:i_i], t[i_i+1:]
    print(head, 'step', t[1], 'OP', ' '.join(op))
    # align
    k = 0
    while k < min(len(m), len(im)) and m[k] == im[k]: k += 1
    lo = max(0, k - 12)
    print('   MODEL ...', ' '.join(m[lo:k]), '>>>', ' '.join(m[k:k+25]))
    print('   IMPL  ...', ' '.join(im[lo:k]), '>>>', ' '.join(im[k:k+25]))
