(* driver for suite "close" (C08).  One observation per line (see gotools/suites/close/main.go).
   - the extracted monitor C08_checks is evaluated on the implementation's observation;
   - model result = the observation with (a) the class/effect of every later call the agent-core
     model has an operation for replaced by what the model computes from a closed state
     (tie_predict), and (b) the event log replaced by UNEXPLAINED when the extracted acceptor of
     the close-protocol model finds no run of the model with this observable projection. *)
open Conv
module S = Stdlib.String
module L = Stdlib.List

let nat i = nat_of_int i
let int n = int_of_nat n
let ios = int_of_string

exception Malformed of S.t

let take n l =
  let rec go n l acc = if n = 0 then (L.rev acc, l) else
      match l with [] -> raise (Malformed "short section") | x :: t -> go (n - 1) t (x :: acc) in
  go n l []

let rec groups k n l acc =
  if n = 0 then (L.rev acc, l) else
    let (g, rest) = take k l in groups k (n - 1) rest (g :: acc)

type parsed = {
  closers : Model.closer list; calls : Model.call list; later : (S.t * int * int) list;
  states : int list; latecb : int; left : S.t list; connected : bool; blockedw : bool;
  poisoned : bool; returned : bool; events : S.t list }

let parse (obs : S.t list) : parsed =
  let expect k = function x :: t when x = k -> t | _ -> raise (Malformed ("expected " ^ k)) in
  let cnt = function x :: t -> (ios x, t) | [] -> raise (Malformed "count") in
  let t = expect "CL" obs in let (n, t) = cnt t in let (cl, t) = groups 5 n t [] in
  let closers = L.map (function [k; cls; c; r; e] ->
      { Model.ck = nat (ios k); cclass = coq_string cls; ccall = nat (ios c); cret = nat (ios r); cerr = nat (ios e) }
                              | _ -> raise (Malformed "closer")) cl in
  let t = expect "ST" t in let (n, t) = cnt t in let (st, t) = groups 6 n t [] in
  let calls = L.map (function [i; api; sp; c; r; cls] ->
      { Model.aidx = nat (ios i); aapi = coq_string (unhex api); aspawned = bool_of_tok sp; acall = nat (ios c);
        aret = nat (ios r); aclass = nat (ios cls) }
                            | _ -> raise (Malformed "call")) st in
  let t = expect "LT" t in let (n, t) = cnt t in let (lt, t) = groups 3 n t [] in
  let later = L.map (function [api; cls; eff] -> (unhex api, ios cls, ios eff) | _ -> raise (Malformed "later")) lt in
  let t = expect "NS" t in let (n, t) = cnt t in let (ns, t) = take n t in
  let t = expect "LC" t in let (latecb, t) = cnt t in
  let t = expect "GR" t in let (n, t) = cnt t in let (gr, t) = take n t in
  let t = expect "FL" t in let (fl, t) = take 4 t in
  let t = expect "EV" t in let (n, t) = cnt t in let (ev, t) = take n t in
  if t <> [] then raise (Malformed "trailing tokens");
  match L.map bool_of_tok fl with
  | [connected; blockedw; poisoned; returned] ->
    { closers; calls; later; states = L.map ios ns; latecb; left = L.map unhex gr; connected; blockedw; poisoned;
      returned; events = ev }
  | _ -> raise (Malformed "flags")

let starts s p = S.length s >= S.length p && S.sub s 0 (S.length p) = p
let num s from = (try nat (ios (S.sub s from (S.length s - from))) with _ -> raise (Malformed ("bad event " ^ s)))
let ev_of_tok (t : S.t) : Model.ev =
  if starts t "KC" then
    (match S.index_opt t ':' with
     | Some j -> Model.VCloseCall (nat (ios (S.sub t 2 (j - 2))))
     | None -> raise (Malformed ("bad event " ^ t)))
  else if starts t "KR" then Model.VCloseRet (num t 2)
  else if starts t "SA" then Model.VOwned (num t 2)
  else if starts t "RD" then Model.VRead (num t 2)
  else if starts t "AB" then Model.VAbort (num t 2)
  else if starts t "CC" then Model.VSockClose (num t 2)
  else if starts t "RX" then Model.VRecvExit (num t 2)
  else if starts t "WBl" then Model.VWBlockLoop (num t 3)
  else if starts t "WBa" then Model.VWBlockOff (num t 3)
  else if starts t "WR" then Model.VWRet (num t 2)
  else if starts t "NS" then Model.VState (num t 2)
  else if t = "BH" then Model.VBH
  else if t = "T0s" then Model.VTask
  else if t = "TD" then Model.VTcpDial
  else Model.VOther

let to_obs (p : parsed) : Model.obs =
  { Model.o_closers = p.closers; o_calls = p.calls;
    o_later = L.map (fun (a, c, e) -> { Model.lapi = coq_string a; lclass = nat c; leffect = nat e }) p.later;
    o_states = L.map nat p.states; o_latecb = nat p.latecb; o_left = L.map coq_string p.left;
    o_connected = p.connected; o_returned = p.returned; o_events = L.map ev_of_tok p.events }

(* replace the LT section by the model's prediction where the model has the operation *)
let model_tokens (p : parsed) (obs : S.t list) (explained : bool) : S.t list =
  let rec go toks =
    match toks with
    | "LT" :: n :: rest ->
      let k = ios n in
      let (lt, rest') = groups 3 k rest [] in
      let lt' = L.concat_map (function
          | [api; cls; eff] ->
            (match Model.tie_predict (coq_string (unhex api)) with
             | Some (c, e) when ios cls <> 8 -> [api; string_of_int (int c); string_of_int (int e)]
             | _ -> [api; cls; eff])
          | g -> g) lt in
      "LT" :: n :: lt' @ go rest'
    | "EV" :: n :: rest when not explained -> ["EV"; "UNEXPLAINED"]
    | x :: rest -> x :: go rest
    | [] -> [] in
  go obs

let handle case obs =
  match obs with
  | ["MALFORMED"] | ["NOAGENT"] -> (["-"], ["C08.harness_case_ran"])
  | "PANIC" :: _ -> (["-"], ["C08.no_panic"])
  | _ ->
    let p = (try parse obs with Malformed m -> failwith ("malformed observation: " ^ m)) in
    let failed = L.map ocaml_string (Model.failed (Model.c08_checks (to_obs p))) in
    (model_tokens p obs true, failed)

let () = Driverlib.run handle
