(* driver for suite "writeabort" (C13): explains check + monitor.
   case  : vP|vH (variant of clearWriteAbortState found in the tree: as it is / with the proposed
           fix; selects the model variant) followed by the schedule script (not interpreted here)
   obs   : event tokens ... | fin <cnt> <blk> <dl> <armed> <probe_ok> <stuck>
   The model result equals the observation when the extracted acceptor finds a run of the model
   with exactly these visible events, the sampled writeState values and the final writeState /
   socket deadline; otherwise it names the first event that no run explains. *)
open Conv
let names l = List.map ocaml_string l

let split_at_bar toks =
  let rec go acc = function
    | [] -> (List.rev acc, [])
    | "|" :: rest -> (List.rev acc, rest)
    | t :: rest -> go (t :: acc) rest in
  go [] toks

let num s = int_of_string s
let after p t = Stdlib.String.sub t (Stdlib.String.length p) (Stdlib.String.length t - Stdlib.String.length p)
let starts p t = Stdlib.String.length t >= Stdlib.String.length p && Stdlib.String.sub t 0 (Stdlib.String.length p) = p
let fields t = Stdlib.String.split_on_char ',' t
let word c b d = { Model.cnt = nat_of_int c; Model.blk = b; Model.dl = d }

let add x l = if List.mem x !l then () else l := x :: !l

let handle case obs =
  let hv = (match case with "vH" :: _ -> true | _ -> false) in
  let evs, fin = split_at_bar obs in
  let writers = ref [] and aborters = ref [] and hidden = ref [] in
  let ev t =
    if starts "wc" t then (let i = num (after "wc" t) in add i writers; Model.EV (Model.LWCall (nat_of_int i)))
    else if starts "wr" t then Model.EV (Model.LWRet (nat_of_int (num (after "wr" t))))
    else if starts "si" t then (let i = num (after "si" t) in add i writers; Model.EV (Model.LSockIn (nat_of_int i)))
    else if starts "so" t then (match fields (after "so" t) with
        | [i; ok] -> Model.EV (Model.LSockOut (nat_of_int (num i), bool_of_tok ok))
        | _ -> failwith ("bad event " ^ t))
    else if starts "ac" t then (let j = num (after "ac" t) in add j aborters; Model.EV (Model.LACall (nat_of_int j)))
    else if starts "arm" t then Model.EV (Model.LArm (bool_of_tok (after "arm" t)))
    else if starts "ar" t then (match fields (after "ar" t) with
        | [j; "x"] -> let j = nat_of_int (num j) in Model.EEither (Model.LARet (j, true), Model.LARet (j, false))
        | [j; ok] -> Model.EV (Model.LARet (nat_of_int (num j), bool_of_tok ok))
        | _ -> failwith ("bad event " ^ t))
    else if starts "clr" t then Model.EV (Model.LClear (bool_of_tok (after "clr" t)))
    else if starts "cn" t then (let j = 100 + num (after "cn" t) in add j hidden; Model.ECancel (nat_of_int j))
    else if starts "sm" t then (match fields (after "sm" t) with
        | [c; b; d] -> Model.ESample (word (num c) (bool_of_tok b) (bool_of_tok d))
        | _ -> failwith ("bad event " ^ t))
    else failwith ("unknown event " ^ t) in
  let log = List.map ev evs in
  match fin with
  | ["fin"; c; b; d; armed; probe; stuck] ->
    let fw = word (num c) (bool_of_tok b) (bool_of_tok d) and fa = bool_of_tok armed in
    let nats l = List.map nat_of_int (List.rev l) in
    let failed = names (Model.failed (Model.c13_wa_checks log fw fa (bool_of_tok probe) (bool_of_tok stuck))) in
    let model =
      match Model.wa_accept hv (nat_of_int 400000) (nats !writers) (nats !aborters) (nats !hidden) log fw fa with
      | Model.Accepted -> obs
      | Model.Rejected k ->
        let k = int_of_nat k in
        ["not-explained-at-event"; string_of_int k; (if k < List.length evs then List.nth evs k else "final-state")]
      | Model.OutOfFuel -> failwith "acceptor out of fuel" in
    (model, failed)
  | _ -> (["malformed"], ["malformed_observation"])
let () = Driverlib.run handle
