(* driver for suite "gatherspec" (C18).  Token grammar (space separated; groups separated by ";"):
   v6ok  xBYTES                                             => 0|1
   lif   NT LO IFF IPF {; NAME UP LO ADDRS}                 => [ERR] NAME* | ADDR@NAME*
   scan  PMIN PMAX UNAVAIL BUSY                             => e|p<port>|f ATTEMPTS
   gather V API CT NT PMIN PMAX LO MDNS MNAME IFF IPF TCPMUX URLS UNAVAIL BUSY SRV4 SRV6 REP4 REP6 RELAYED MUXPORT {; iface}
                                                            => RET STATE NILS ; P cand* ; L cand* ; S sock*
   cycle N {; OP}                                           => obs {; obs}
   stale N                                                  => STALE ERRS
   lists are comma separated, "-" is the empty list / absent value; bytes and names are x-hex;
   IFF is "-" or "a:<accepted names>", IPF is "-" or "d:<denied canonical addresses>";
   cand is type/nettype/(i<hex>|n<hex>)/port/(-|<hex>:<port>); sock is <hex>:<port>. *)
open Conv
let names l = List.map ocaml_string l
let split_on c s = Stdlib.String.split_on_char c s
let lst t = if t = "-" || t = "" then [] else split_on ',' t
let bytes_of_hex t = (* "x0a00" or "0a00" *)
  let t = if Stdlib.String.length t > 0 && t.[0] = 'x' then t else "x" ^ t in
  let s = unhex t in
  List.init (Stdlib.String.length s) (fun i -> z_of_int (Char.code s.[i]))
let hex_of_bytes (b : Model.z list) =
  let s = Stdlib.String.concat "" (List.map (fun z -> Printf.sprintf "%02x" (int_of_z z)) b) in s
let zs t = List.map z_of_string (lst t)
let addr_of_hex t : Model.addr =
  match Model.parse_ip (bytes_of_hex t) with Some a -> a | None -> failwith ("bad address " ^ t)
let opt_addr t = if t = "-" then None else Some (addr_of_hex t)
let name_of t = coq_string (unhex t)

let rec groups acc cur = function
  | [] -> List.rev (List.rev cur :: acc)
  | ";" :: rest -> groups (List.rev cur :: acc) [] rest
  | t :: rest -> groups acc (t :: cur) rest
let groups l = groups [] [] l

let iface_of = function
  | [name; up; lo; addrs] ->
    { Model.if_name = name_of name; if_up = bool_of_tok up; if_lo = bool_of_tok lo;
      if_addrs = List.map bytes_of_hex (lst addrs) }
  | _ -> failwith "bad interface group"

let strip_prefix p t =
  let n = Stdlib.String.length p in
  if Stdlib.String.length t >= n && Stdlib.String.sub t 0 n = p then Stdlib.String.sub t n (Stdlib.String.length t - n)
  else failwith ("bad filter token " ^ t)

let iff_of t = if t = "-" then None else
    let acc = List.map unhex (lst (strip_prefix "a:" t)) in
    Some (fun (s : Model.string) -> List.mem (ocaml_string s) acc)
let ipf_of t = if t = "-" then None else
    let deny = List.map addr_of_hex (lst (strip_prefix "d:" t)) in
    Some (fun (a : Model.addr) -> not (List.exists (fun d -> Model.addr_eqb a d) deny))

let mk_cfg ct nt pmin pmax lo mdns mname iff ipf tcpmux urls : Model.cfg =
  { Model.c_ctypes = zs ct; c_ntypes = zs nt; c_pmin = z_of_string pmin; c_pmax = z_of_string pmax;
    c_lo = bool_of_tok lo; c_mdns = bool_of_tok mdns; c_mdns_name = name_of mname;
    c_iff = iff_of iff; c_ipf = ipf_of ipf; c_tcpmux = bool_of_tok tcpmux; c_urls = zs urls }

let disp_tok = function
  | Model.DIP a -> "i" ^ hex_of_bytes a.Model.ab
  | Model.DName s -> "n" ^ (let h = hex (ocaml_string s) in Stdlib.String.sub h 1 (Stdlib.String.length h - 1))
let pspec_tok = function
  | Model.PAny -> "*" | Model.PRange (a, b) -> string_of_z a ^ ".." ^ string_of_z b | Model.PExact p -> string_of_z p
let desc_tok (d : Model.cdesc) =
  Printf.sprintf "%s/%s/%s/%s/%s%s" (string_of_z d.Model.d_type) (string_of_z d.Model.d_nt) (disp_tok d.Model.d_disp)
    (pspec_tok d.Model.d_port)
    (match d.Model.d_base with None -> "-" | Some (a, ps) -> hex_of_bytes a.Model.ab ^ ":" ^ pspec_tok ps)
    (if d.Model.d_pub then "" else "/hidden")

let cand_of t : Model.ocand =
  match split_on '/' t with
  | [ty; nt; disp; port; base] ->
    let d = if disp.[0] = 'i' then Model.DIP (addr_of_hex (Stdlib.String.sub disp 1 (Stdlib.String.length disp - 1)))
      else Model.DName (coq_string (unhex ("x" ^ Stdlib.String.sub disp 1 (Stdlib.String.length disp - 1)))) in
    let b = if base = "-" then None else
        (match split_on ':' base with
         | [a; p] -> Some (addr_of_hex a, z_of_string p)
         | _ -> failwith "bad base") in
    { Model.o_type = z_of_string ty; o_nt = z_of_string nt; o_disp = d; o_port = z_of_string port; o_base = b }
  | _ -> failwith ("bad candidate token " ^ t)
let sock_of t : Model.osock =
  match split_on ':' t with
  | [a; p] -> { Model.s_addr = addr_of_hex a; s_port = z_of_string p }
  | _ -> failwith "bad socket token"

let handle case obs =
  match case with
  | ["v6ok"; b] ->
    ([tok_of_bool (Model.supported_v6_partial (bytes_of_hex b))], [])
  | "lif" :: _ ->
    (match groups case with
     | ["lif"; nt; lo; iff; ipf] :: ifs ->
       let ifs = List.map iface_of ifs in
       let c = mk_cfg "-" nt "0" "0" lo "0" "x" iff ipf "0" "-" in
       let nts = zs nt in
       let nm = List.map (fun s -> hex (ocaml_string s)) (Model.local_ifaces c nts ifs) in
       let ad = List.map (fun (a, n) -> "x" ^ hex_of_bytes a.Model.ab ^ "@" ^ hex (ocaml_string n)) (Model.local_addrs c nts ifs) in
       (nm @ ["|"] @ ad, [])
     | _ -> failwith "bad lif case")
  | ["scan"; pmin; pmax; unavail; busy] ->
    let busy = List.map z_of_string (lst busy) in
    let look p = if bool_of_tok unavail then Model.VUnavail
      else if List.exists (fun b -> b = p) busy then Model.VBusy else Model.VOk in
    let start = match obs with
      | [_; att] -> (match lst att with a :: _ -> z_of_string a | [] -> Model.Z0)
      | _ -> Model.Z0 in
    let (tr, r) = Model.listen_in_range look (z_of_string pmin) (z_of_string pmax) start in
    let rt = match r with Model.LEphemeral -> "e" | Model.LPort p -> "p" ^ string_of_z p | Model.LFail -> "f" in
    let att = match tr with [] -> "-" | _ -> Stdlib.String.concat "," (List.map string_of_z tr) in
    (* monitor: a granted port lies in the configured range and was not busy *)
    let failed = match obs with
      | [res; _] when Stdlib.String.length res > 1 && res.[0] = 'p' ->
        let p = z_of_string (Stdlib.String.sub res 1 (Stdlib.String.length res - 1)) in
        let c = mk_cfg "-" "-" pmin pmax "0" "0" "x" "-" "-" "0" "-" in
        (if Model.in_cfg_range c p then [] else ["port_in_range"]) @ (if look p = Model.VOk then [] else ["port_was_free"])
      | _ -> [] in
    ([rt; att], failed)
  | "gather" :: _ ->
    (match groups case with
     | ["gather"; v; _api; ct; nt; pmin; pmax; lo; mdns; mname; iff; ipf; tcpmux; urls; unavail; busy;
        srv4; srv6; rep4; rep6; relayed; muxport] :: ifs ->
       let ifs = List.map iface_of ifs in
       let c = mk_cfg ct nt pmin pmax lo mdns mname iff ipf tcpmux urls in
       let unav = List.map addr_of_hex (lst unavail) and busy = List.map z_of_string (lst busy) in
       let srv4 = opt_addr srv4 and srv6 = opt_addr srv6 and rep4 = opt_addr rep4 and rep6 = opt_addr rep6 in
       let e = { Model.e_unavail = (fun a -> List.exists (fun u -> Model.addr_eqb a u) unav);
                 e_busy = (fun _ p -> List.exists (fun b -> b = p) busy);
                 e_server = (fun is6 -> if is6 then srv6 else srv4);
                 e_reply = (fun is6 -> if is6 then rep6 else rep4);
                 e_relayed = opt_addr relayed; e_tcpmux_port = z_of_string muxport } in
       let variant = { Model.v_eff = (v.[0] = '1'); v_famgate = (v.[1] = '1'); v_relaygate = (v.[2] = '1') } in
       let descs = Model.gather_model variant c ifs e in
       let render () =
         ["0"; "3"; "1"; ";"; "D"] @ List.sort compare (List.map desc_tok descs) in
       (match groups obs with
        | [[ret; st; nils]; "P" :: p; "L" :: l; "S" :: s] when ret <> "TIMEOUT" ->
          let p = List.map cand_of p and l = List.map cand_of l and s = List.map sock_of s in
          let ret = z_of_string ret and st = z_of_string st and nils = z_of_string nils in
          let corr = Model.corresponds descs p s && Model.corresponds descs l s
                     && Model.all_ok (Model.c18_finish_checks ret st nils p l) in
          let failed = names (Model.failed (Model.c18_gather_checks c ifs e p s))
                       @ names (Model.failed (Model.c18_finish_checks ret st nils p l)) in
          ((if corr then obs else render ()), failed)
        | _ -> (render (), ["malformed_observation"]))
     | _ -> failwith "bad gather case")
  | "gmapped" :: _ ->
    (match groups case with
     | ["gmapped"; sk; nt; pmin; pmax; lo; iff; ipf; _rules] :: ifs ->
       let ifs = List.map iface_of ifs in
       let c = mk_cfg "2" nt pmin pmax lo "0" "x" iff ipf "0" "-" in
       let e = { Model.e_unavail = (fun _ -> false); e_busy = (fun _ _ -> false);
                 e_server = (fun _ -> None); e_reply = (fun _ -> None); e_relayed = None; e_tcpmux_port = Model.Z0 } in
       (* the mapper's answer for the wildcard address of each family is part of the observation (its semantics is
          C19's model); "!" = not ok *)
       let res_of t = if t = "!" then None else Some (List.map addr_of_hex (lst t)) in
       (match groups obs with
        | [[ret; st; nils]; "P" :: p; "L" :: l; "S" :: s; ["R"; r4; r6]] when ret <> "TIMEOUT" ->
          let res is6 = if is6 then res_of r6 else res_of r4 in
          let descs = Model.mapped_model (bool_of_tok sk) c e res in
          let render () = ["0"; "3"; "1"; ";"; "D"] @ List.sort compare (List.map desc_tok descs) in
          let p = List.map cand_of p and l = List.map cand_of l and s = List.map sock_of s in
          let ret = z_of_string ret and st = z_of_string st and nils = z_of_string nils in
          let corr = Model.corresponds descs p s && Model.corresponds descs l s
                     && Model.all_ok (Model.c18_finish_checks ret st nils p l) in
          let failed = names (Model.failed (Model.c18_mapped_checks c ifs p s))
                       @ names (Model.failed (Model.c18_finish_checks ret st nils p l)) in
          ((if corr then obs else render ()), failed)
        | _ -> (["malformed"], ["malformed_observation"]))
     | _ -> failwith "bad gmapped case")
  | ["gudpmux"; fx; nt; lo; mdns; mname; addrs] ->
    let c = mk_cfg "1" nt "0" "0" lo mdns mname "-" "-" "0" "-" in
    let ap t = match split_on ':' t with
      | [a; p] -> (addr_of_hex a, z_of_string p) | _ -> failwith "bad mux address" in
    let descs = Model.udpmux_model (bool_of_tok fx) c (List.map ap (lst addrs)) in
    let render () = ["0"; "3"; "1"; ";"; "D"] @ List.sort compare (List.map desc_tok descs) in
    (match groups obs with
     | [[ret; st; nils]; "P" :: p; "L" :: l; "S" :: s] when ret <> "TIMEOUT" ->
       let p = List.map cand_of p and l = List.map cand_of l and s = List.map sock_of s in
       let ret = z_of_string ret and st = z_of_string st and nils = z_of_string nils in
       let corr = Model.corresponds descs p s && Model.corresponds descs l s && s = []
                  && Model.all_ok (Model.c18_finish_checks ret st nils p l) in
       let failed = names (Model.failed (Model.c18_udpmux_checks c p))
                    @ names (Model.failed (Model.c18_finish_checks ret st nils p l)) in
       ((if corr then obs else render ()), failed)
     | _ -> (["malformed"], ["malformed_observation"]))
  | "cycle" :: _ ->
    (match groups case with
     | ["cycle"; n] :: ops ->
       let n = z_of_string n in
       let ops = List.map (function [o] -> z_of_string o | _ -> failwith "bad op") ops in
       let og = groups obs in
       if List.length og <> List.length ops then (["?"], ["malformed_observation"]) else
       let parse g = try Some (List.map z_of_string g) with _ -> None in
       let script = List.map2 (fun o g -> (o, parse g)) ops og in
       if List.exists (fun (_, g) -> g = None) script then (["?"], ["malformed_observation"]) else
       let script = List.map (fun (o, g) -> (o, match g with Some x -> x | None -> [])) script in
       (* acceptor: walk the script; at the first operation no model state explains, print the
          model's alternatives for it *)
       let rec walk l i = function
         | [] -> None
         | (op, ob) :: rest ->
           let l' = Model.accept_op false n op ob l in
           if l' = [] then Some (i, Model.predict_op false n op l) else walk l' (i + 1) rest in
       let model = match walk Model.accept_init 0 script with
         | None -> obs
         | Some (i, alts) ->
           ["op#" ^ string_of_int i ^ "-allows"] @
           List.map (fun a -> Stdlib.String.concat "," (List.map string_of_z a)) alts in
       let failed = names (Model.failed (Model.c18_cycle_checks n script)) in
       (model, List.sort_uniq compare failed)
     | _ -> failwith "bad cycle case")
  | ["stale"; _n] ->
    (* the pinned addCandidate does not re-check its context on the loop: the model (rc = false)
       allows a stale publication whenever loop.Run's select takes the send branch, so every count
       is explained; the monitor demands that results are not mixed *)
    (match obs with
     | [stale; errs] -> (obs, (if stale = "0" then [] else ["results_not_mixed"]) @ (if errs = "0" then [] else ["harness_error"]))
     | _ -> (["?"], ["malformed_observation"]))
  | _ -> failwith "unknown case"
let () = Driverlib.run handle
