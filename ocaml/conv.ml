(* Conversions between OCaml values and the extracted Coq datatypes (kept as Coq
   inductives: no Extract Constant).  zarith is used only here, to read/print decimals. *)
module BZ = Z
open Model

let rec pos_of_bz (n : BZ.t) : positive =
  if BZ.equal n BZ.one then XH
  else if BZ.is_even n then XO (pos_of_bz (BZ.shift_right n 1))
  else XI (pos_of_bz (BZ.shift_right n 1))

let z_of_bz (n : BZ.t) : z =
  let s = BZ.sign n in
  if s = 0 then Z0 else if s > 0 then Zpos (pos_of_bz n) else Zneg (pos_of_bz (BZ.neg n))

let rec bz_of_pos = function
  | XH -> BZ.one
  | XO p -> BZ.shift_left (bz_of_pos p) 1
  | XI p -> BZ.succ (BZ.shift_left (bz_of_pos p) 1)

let bz_of_z = function Z0 -> BZ.zero | Zpos p -> bz_of_pos p | Zneg p -> BZ.neg (bz_of_pos p)
let n_of_bz (n : BZ.t) : n = if BZ.sign n = 0 then N0 else Npos (pos_of_bz n)
let bz_of_n = function N0 -> BZ.zero | Npos p -> bz_of_pos p

let z_of_string s = z_of_bz (BZ.of_string s)
let string_of_z v = BZ.to_string (bz_of_z v)
let n_of_string s = n_of_bz (BZ.of_string s)
let string_of_n v = BZ.to_string (bz_of_n v)
let z_of_int i = z_of_bz (BZ.of_int i)
let int_of_z v = BZ.to_int (bz_of_z v)
let n_of_int i = n_of_bz (BZ.of_int i)
let int_of_n v = BZ.to_int (bz_of_n v)

let rec nat_of_int i = if i <= 0 then O else S (nat_of_int (i - 1))
let rec int_of_nat = function O -> 0 | S k -> 1 + int_of_nat k

let ascii_of_char (c : char) : ascii =
  let b i = (Char.code c lsr i) land 1 = 1 in
  Ascii (b 0, b 1, b 2, b 3, b 4, b 5, b 6, b 7)

let char_of_ascii (Ascii (b0, b1, b2, b3, b4, b5, b6, b7)) : char =
  let v b i = if b then 1 lsl i else 0 in
  Char.chr (v b0 0 + v b1 1 + v b2 2 + v b3 3 + v b4 4 + v b5 5 + v b6 6 + v b7 7)

let coq_string (s : Stdlib.String.t) : Model.string =
  let r = ref EmptyString in
  for i = Stdlib.String.length s - 1 downto 0 do r := String (ascii_of_char s.[i], !r) done;
  !r

let ocaml_string (s : Model.string) : Stdlib.String.t =
  let b = Buffer.create 16 in
  let rec go = function EmptyString -> () | String (a, t) -> Buffer.add_char b (char_of_ascii a); go t in
  go s; Buffer.contents b

(* token encodings: strings/bytes are hex with a leading 'x' (so "" is "x") *)
let unhex (t : Stdlib.String.t) : Stdlib.String.t =
  if Stdlib.String.length t = 0 || t.[0] <> 'x' then failwith ("bad hex token " ^ t);
  let n = (Stdlib.String.length t - 1) / 2 in
  Stdlib.String.init n (fun i -> Char.chr (int_of_string ("0x" ^ Stdlib.String.sub t (1 + 2 * i) 2)))

let hex (s : Stdlib.String.t) : Stdlib.String.t =
  let b = Buffer.create (1 + 2 * Stdlib.String.length s) in
  Buffer.add_char b 'x';
  Stdlib.String.iter (fun c -> Buffer.add_string b (Printf.sprintf "%02x" (Char.code c))) s;
  Buffer.contents b

let bool_of_tok = function "1" | "true" -> true | "0" | "false" -> false | t -> failwith ("bad bool " ^ t)
let tok_of_bool b = if b then "1" else "0"
