(* driver for suite "notifier" (C11).
   nf cases: the observation is the stamped log of one scenario on a real handlerNotifier; model
   result = the log itself when the extracted acceptor (a candidate run checked by Model.run)
   reproduces it, UNEXPLAINED otherwise; the monitor C11_checks decides the property on the log.
   gather cases: a script of gather-cycle operations on a live agent; the model (GatherCycle.grun,
   recheck=true: the code re-checks the cycle context inside the addCandidate task; the observed outcome of a trapped add is passed as the select oracle) predicts the
   per-operation results and the candidate stream; the monitor C11_gather_checks decides. *)
open Conv
let names l = List.map ocaml_string l
let starts s p = Stdlib.String.length s >= Stdlib.String.length p && Stdlib.String.sub s 0 (Stdlib.String.length p) = p
let sub_from s i = Stdlib.String.sub s i (Stdlib.String.length s - i)
let nat_tok s = nat_of_int (int_of_string s)

let event_of_tok (t : Stdlib.String.t) : Model.event =
  let n = Stdlib.String.length t in
  if starts t "QC" then begin
    let i = Stdlib.String.index t 's' in
    Model.NEnqCall (nat_tok (Stdlib.String.sub t 2 (i - 2)), nat_tok (sub_from t (i + 1)))
  end
  else if starts t "QR" then Model.NEnqRet (nat_tok (sub_from t 2))
  else if starts t "HS" then Model.NHStart (nat_tok (sub_from t 2))
  else if starts t "HE" then Model.NHEnd (nat_tok (sub_from t 2))
  else if starts t "KC" then
    let g = (match t.[n - 1] with 'g' -> true | 'u' -> false | _ -> failwith ("bad token " ^ t)) in
    Model.NCloseCall (nat_tok (Stdlib.String.sub t 2 (n - 3)), g)
  else if starts t "KR" then Model.NCloseRet (nat_tok (sub_from t 2))
  else failwith ("bad token " ^ t)

let rec split_bar acc = function
  | [] -> (List.rev acc, [])
  | "|" :: rest -> (List.rev acc, rest)
  | t :: rest -> split_bar (t :: acc) rest

let gevent_of_tok t =
  if t = "n" then None
  else begin
    (* c<id>y<cyc>g<gen> *)
    let iy = Stdlib.String.index t 'y' and ig = Stdlib.String.index t 'g' in
    Some (int_of_string (Stdlib.String.sub t 1 (iy - 1)),
          int_of_string (Stdlib.String.sub t (iy + 1) (ig - iy - 1)),
          int_of_string (sub_from t (ig + 1)))
  end

let handle case obs =
  match case with
  | "nf" :: _ ->
    if obs = ["TIMEOUT"] then (["-"], ["terminates"])
    else if List.mem "PANIC" obs then (["-"], ["no_panic"]) else begin
      let evs = List.map event_of_tok obs in
      let failed = names (Model.failed (Model.c11_checks evs)) in
      let model = if Model.explains evs then obs else ["UNEXPLAINED"] in
      (model, failed)
    end
  | "gather" :: ops ->
    let res, stream = split_bar [] obs in
    if List.length res <> List.length ops then (["-"], ["malformed_observation"]) else begin
      let gops = List.map2 (fun o r ->
          if o = "G" then Model.GStart
          else if o = "R" then Model.GRestart
          else if o = "F" then Model.GFinish
          else if starts o "A" then Model.GAdd (nat_tok (sub_from o 1))
          else if starts o "T" then Model.GTrap (nat_tok (sub_from o 1), (r = "a1"))
          else failwith ("bad op " ^ o)) ops res in
      if not (Model.gwf Model.g_init gops) then failwith "script is not well-formed" else begin
        let ((sfin, mres), mevs) = Model.grun true Model.g_init gops in
        let res_tok = function
          | Model.RAdded b -> "a" ^ tok_of_bool b
          | Model.RApplied b -> "f" ^ tok_of_bool b
          | Model.RNone -> "-" in
        let ev_tok = function
          | Model.GCand (id, c, g) -> Printf.sprintf "c%dy%dg%d" (int_of_nat id) (int_of_nat c) (int_of_nat g)
          | Model.GNil _ -> "n" in
        let model = List.map res_tok mres @ ["|"] @ List.map ev_tok mevs in
        (* the observed stream as events: the nil carries no cycle; attribute each nil to the
           cycle that was current when the model emits its k-th nil is NOT assumed: a nil is
           attributed to the latest cycle whose Complete was observed applied before ... the
           harness cannot tell, so nils are attributed in order to the completed cycles *)
        let obs_res = List.map (fun r ->
            if r = "a1" then Model.RAdded true else if r = "a0" then Model.RAdded false
            else if r = "f1" then Model.RApplied true else if r = "f0" then Model.RApplied false
            else Model.RNone) res in
        let completed = Model.completed_cycles Model.g_init gops obs_res in
        (* the k-th observed nil belongs to the k-th cycle that emits one: completed cycles without
           repetition, in order; surplus nils are attributed to cycle 0 (never a real cycle) *)
        let rec uniq = function [] -> [] | x :: l -> x :: uniq (List.filter (fun y -> y <> x) l) in
        let queue = ref (uniq completed) in
        let oevs = List.map (fun t ->
            match gevent_of_tok t with
            | Some (id, c, g) -> Model.GCand (nat_of_int id, nat_of_int c, nat_of_int (if g < 0 then 1000000 else g))
            | None ->
              (match !queue with
               | c :: rest -> queue := rest; Model.GNil c
               | [] -> Model.GNil Model.O)) stream in
        let failed = names (Model.failed
            (Model.c11_gather_checks (Model.g_cycgen sfin) (Model.g_cyc sfin) (uniq completed) oevs)) in
        (model, failed)
      end
    end
  | _ -> failwith "unknown case"
let () = Driverlib.run handle
