(* driver for suite "rewrite" (C19): address rewrite rules.
   case kinds (tokens as produced by gotools/suites/rewrite/main.go):
     rw  R <ext> <local> <iface> <cidr> <type> <mode> <nets> ...  K <ty> <loc> <iface> ...  A <self> <iface> <orig> <rel> ...
     san <variant> R <7 rule tokens>
     leg <cfgty> <entry> ...
     fn  spec|dmode|flags ... *)
open Conv

let names l = List.map ocaml_string l
let split c s = if s = "" then [] else Stdlib.String.split_on_char c s
let drop1 s = Stdlib.String.sub s 1 (Stdlib.String.length s - 1)
(* case tokens may carry the harness' pool index: <index>~<abstract form>; only the latter is read *)
let strip t = match Stdlib.String.rindex_opt t '~' with
  | Some i -> Stdlib.String.sub t (i + 1) (Stdlib.String.length t - i - 1)
  | None -> t

(* ---- parsing ---- *)
let addr_of_tok t : Model.addr =
  match Stdlib.String.index_opt t '.' with
  | Some 1 when t.[0] = '4' -> (true, z_of_string (Stdlib.String.sub t 2 (Stdlib.String.length t - 2)))
  | Some 1 when t.[0] = '6' -> (false, z_of_string (Stdlib.String.sub t 2 (Stdlib.String.length t - 2)))
  | _ -> failwith ("bad addr token " ^ t)

let ipstr_of_tok = function
  | "e" -> Model.SEmpty | "s" -> Model.SSlash | "b" -> Model.SBad
  | t -> Model.SGood (addr_of_tok t)

let cidr_of_tok = function
  | "n" -> Model.CNone | "b" -> Model.CBad
  | t -> (match split '.' t with
          | [f; base; plen] -> Model.CGood (((f = "4"), z_of_string base), z_of_string plen)
          | _ -> failwith ("bad cidr token " ^ t))

let ext_of_tok t =
  if t = "" || t.[0] <> 'E' then failwith ("bad external list " ^ t);
  List.map (fun item ->
      match Stdlib.String.index_opt item ':' with
      | Some i -> (z_of_string (strip (Stdlib.String.sub item 0 i)),
                   ipstr_of_tok (Stdlib.String.sub item (i + 1) (Stdlib.String.length item - i - 1)))
      | None -> failwith ("bad external item " ^ item))
    (split ',' (drop1 t))

let nets_of_tok t =
  if t = "" || t.[0] <> 'N' then failwith ("bad networks " ^ t);
  List.map z_of_string (split ',' (drop1 t))

let rule_of_toks ext local iface cidr ty mode nets : Model.rule =
  { Model.r_external = ext_of_tok ext; r_local = ipstr_of_tok (strip local); r_iface = coq_string (unhex iface);
    r_cidr = cidr_of_tok (strip cidr); r_type = z_of_string ty; r_mode = z_of_string mode; r_networks = nets_of_tok (strip nets) }

(* ---- printing ---- *)
let tok_of_addr ((v4, n) : Model.addr) = (if v4 then "4." else "6.") ^ string_of_z n
let tok_of_ipstr = function
  | Model.SEmpty -> "e" | Model.SSlash -> "s" | Model.SBad -> "b" | Model.SGood a -> tok_of_addr a
let tok_of_cidr = function
  | Model.CNone -> "n" | Model.CBad -> "b"
  | Model.CGood ((v4, base), plen) -> (if v4 then "4." else "6.") ^ string_of_z base ^ "." ^ string_of_z plen
let tok_of_list l = if l = [] then "-" else Stdlib.String.concat "+" (List.map tok_of_addr l)
let tok_of_lres (((ips, matched), mode) : Model.lres) =
  tok_of_bool matched ^ ":" ^ string_of_z mode ^ ":" ^ tok_of_list ips
let tok_of_find = function None -> "x" | Some r -> tok_of_lres r
let tok_of_res ((l, ok) : Model.addr list * bool) = tok_of_bool ok ^ ":" ^ tok_of_list l
let toks_of_rule (r : Model.rule) =
  [ "R";
    "E" ^ Stdlib.String.concat "," (List.map (fun (_, s) -> "0:" ^ tok_of_ipstr s) r.Model.r_external);
    tok_of_ipstr r.Model.r_local; hex (ocaml_string r.Model.r_iface); tok_of_cidr r.Model.r_cidr;
    string_of_z r.Model.r_type; string_of_z r.Model.r_mode;
    "N" ^ Stdlib.String.concat "," (List.map string_of_z r.Model.r_networks) ]

(* ---- parsing observations ---- *)
let list_of_tok t = if t = "-" then [] else List.map addr_of_tok (split '+' t)
let lres_of_tok t : Model.lres option =
  if t = "x" then None else
  match split ':' t with
  | [m; mode; l] -> Some ((list_of_tok l, bool_of_tok m), z_of_string mode)
  | _ -> failwith ("bad lookup result " ^ t)
let res_of_tok t =
  match split ':' t with
  | [ok; l] -> (list_of_tok l, bool_of_tok ok)
  | _ -> failwith ("bad apply result " ^ t)

type op = K of Model.z * Model.ipstr * Model.string | A of Model.addr * Model.string * Model.addr * Model.ipstr

let rec parse_rules acc = function
  | "R" :: ext :: local :: iface :: cidr :: ty :: mode :: nets :: rest ->
    parse_rules (rule_of_toks ext local iface cidr ty mode nets :: acc) rest
  | rest -> (List.rev acc, rest)

let rec parse_ops acc = function
  | [] -> List.rev acc
  | "K" :: ty :: loc :: iface :: rest -> parse_ops (K (z_of_string ty, ipstr_of_tok (strip loc), coq_string (unhex iface)) :: acc) rest
  | "A" :: self :: iface :: orig :: rel :: rest ->
    parse_ops (A (addr_of_tok (strip self), coq_string (unhex iface), addr_of_tok (strip orig), ipstr_of_tok (strip rel)) :: acc) rest
  | t :: _ -> failwith ("bad op token " ^ t)

let z1 = z_of_int 1 and z2 = z_of_int 2 and z4 = z_of_int 4 and z0 = z_of_int 0
let unmatched : Model.lres = (([], false), z0)

let merge_failed acc l = List.fold_left (fun a n -> if List.mem n a then a else a @ [n]) acc l

let handle_rw rules ops obs =
  let c = Model.compile rules in
  (* model result *)
  let model =
    match c with
    | Model.CErr code -> ["err"; string_of_z code]
    | Model.COk [] -> ["nil"]
    | Model.COk m ->
      "ok" :: List.concat_map (function
          | K (ty, loc, iface) -> ["F"; tok_of_find (Model.find_external_ips m ty loc iface)]
          | A (self, iface, orig, rel) ->
            let b ty = tok_of_bool (Model.has_candidate_type m ty) in
            [ "A"; b z1 ^ b z2 ^ b z4 ^ tok_of_bool (Model.should_replace m z2);
              tok_of_find (Model.find_external_ips m z1 (Model.SGood self) iface);
              tok_of_res (Model.host_addresses m self iface);
              tok_of_find (Model.find_external_ips m z1 (Model.SGood self) Model.EmptyString);
              tok_of_res (Model.udpmux_addresses m self);
              tok_of_find (Model.find_external_ips m z2 (Model.SGood self) iface);
              tok_of_res (Model.resolve_srflx m (Model.SGood self) self iface);
              tok_of_find (Model.find_external_ips m z4 rel iface);
              tok_of_res (Model.resolve_relay m rel orig iface) ]) ops in
  (* monitors on the implementation's observation *)
  let failed =
    match obs with
    | "err" :: _ -> names (Model.failed (Model.c19_validation_checks rules true))
    | ["nil"] ->
      let f = names (Model.failed (Model.c19_validation_checks rules false)) in
      List.fold_left (fun acc -> function
          | K (ty, Model.SGood loc, iface) ->
            merge_failed acc (names (Model.failed (Model.c19_lookup_checks rules ty loc iface unmatched)))
          | _ -> acc) f ops
    | "ok" :: rest ->
      let f = ref (names (Model.failed (Model.c19_validation_checks rules false))) in
      let rec go ops rest =
        match ops, rest with
        | [], [] -> ()
        | K (ty, loc, iface) :: ops', "F" :: r :: rest' ->
          (match loc, lres_of_tok r with
           | Model.SGood a, Some o -> f := merge_failed !f (names (Model.failed (Model.c19_lookup_checks rules ty a iface o)))
           | Model.SGood _, None -> f := merge_failed !f ["lookup_documented_precedence"]  (* no answer for a valid key *)
           | _, _ -> ());  (* unparseable key: only the correspondence judges it *)
          go ops' rest'
        | A (self, _, orig, rel) :: ops', "A" :: flags :: fh :: h :: fu :: u :: fs :: s :: fr :: r :: rest' ->
          let fl i = flags.[i] = '1' in
          let get t = match lres_of_tok t with Some o -> o | None -> unmatched in
          let checks = Model.c19_apply_checks (fl 0) (fl 1) (fl 2) self orig (get fh) (get fu) (get fs) (get fr)
              (res_of_tok h) (res_of_tok u) (res_of_tok s) (res_of_tok r) in
          let checks = match rel with
            | Model.SGood _ -> checks
            | _ -> (* unparseable relay base address: only the other three functions are judged *)
              List.filter (fun (n, _) -> ocaml_string n <> "modes_relay") checks in
          f := merge_failed !f (names (Model.failed checks));
          go ops' rest'
        | _ -> f := merge_failed !f ["malformed_observation"] in
      go ops rest; !f
    | _ -> ["malformed_observation"] in
  (model, failed)

let lentry_of_tok t =
  let t = strip t in
  if t = "e" then Model.LEmpty else if t = "m" then Model.LTooMany
  else if t.[0] = 'o' then Model.LOne (ipstr_of_tok (drop1 t))
  else if t.[0] = 't' then
    (match split '|' (drop1 t) with
     | [a; b; c] -> Model.LTwo (ipstr_of_tok a, ipstr_of_tok b, ipstr_of_tok c)
     | _ -> failwith ("bad legacy entry " ^ t))
  else failwith ("bad legacy entry " ^ t)

let handle_case case obs =
  match case with
  | "rw" :: rest ->
    let rules, rest = parse_rules [] rest in
    handle_rw rules (parse_ops [] rest) obs
  | "san" :: variant :: rest ->
    (* variant: 1 = the option rejects a rule without External entries (pinned), 0 = repaired *)
    let rules, _ = parse_rules [] rest in
    let r = (match rules with [r] -> r | _ -> failwith "san expects one rule") in
    let model = match Model.sanitize_rules (bool_of_tok variant) [r] with
      | None -> ["err"; "1"]
      | Some l -> "ok" :: List.concat_map toks_of_rule l in
    let rejected = (match obs with "err" :: _ -> true | _ -> false) in
    (model, names (Model.failed (Model.c19_option_checks r rejected)))
  | "leg" :: ty :: entries ->
    let es = List.map lentry_of_tok entries in
    let model = match Model.legacy_config_rules es (z_of_string ty) with
      | None -> ["err"; "1"]
      | Some rules ->
        let cs = match Model.compile rules with
          | Model.CErr c -> "c:err" ^ string_of_z c | Model.COk [] -> "c:nil" | Model.COk _ -> "c:ok" in
        "ok" :: cs :: List.concat_map toks_of_rule rules in
    let rejected = (match obs with "err" :: _ -> true | _ -> false) in
    (model, names (Model.failed (Model.c19_legacy_checks es rejected)))
  | ["fn"; "spec"; a; b; c] ->
    ([string_of_z (Model.catchAllSpecificity (bool_of_tok a) (bool_of_tok b) (bool_of_tok c))], [])
  | ["fn"; "dmode"; ty] -> ([string_of_z (Model.defaultAddressRewriteMode (z_of_string ty))], [])
  | ["fn"; "flags"; v4; v6; a4; a6; l4] ->
    ([tok_of_bool (Model.hasMappings (bool_of_tok v4) (bool_of_tok v6));
      tok_of_bool (Model.isFamilyAllowed (bool_of_tok a4) (bool_of_tok a6) (bool_of_tok l4))], [])
  | _ -> failwith "unknown case"

(* failed check names in a canonical (sorted) order: they are part of a violation's signature *)
let handle case obs =
  let model, failed = handle_case case obs in
  (model, List.sort_uniq compare failed)

let () = Driverlib.run handle
