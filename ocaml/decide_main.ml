(* driver for suite "decide": the translated decision functions against the Go functions, value by value *)
open Conv
let b2s b = if b then "1" else "0"
let handle case obs =
  match case with
  | ["acc"; hv; v; hl; l] ->
    let hv = bool_of_tok hv and v = z_of_string v and hl = bool_of_tok hl and l = z_of_string l in
    let ok = Model.shouldAcceptNomination hv v hl l in
    (* the side effect of the Go function: an accepted value is remembered *)
    let hl', l' = if ok && hv then (true, v) else (hl, l) in
    ([b2s ok; b2s hl'; string_of_z (if hl' then l' else Model.Z0)], [])
  | ["sw"; hs; same; hv; lite; chk; sp; pp] ->
    let needs = Model.needsToCheckPriorityOnNominated (bool_of_tok lite) (bool_of_tok chk) in
    let r = Model.shouldSwitchSelectedPair (bool_of_tok hs) (bool_of_tok same) (bool_of_tok hv) needs (z_of_string sp) (z_of_string pp) in
    ([b2s r], [])
  | ["csd"; td; cur; d; tot] ->
    ([string_of_z (Model.connectionStateForDisconnection (z_of_string td) (z_of_string cur) (z_of_string d) (z_of_string tot))], [])
  | ["ict"; f; d; lite; expl] ->
    ([string_of_z (Model.initialCheckingTimeout (z_of_string f) (z_of_string d) (bool_of_tok lite) (bool_of_tok expl))], [])
  | ["chi"; m; c] -> ([b2s (Model.canHandleInbound (z_of_string m) (z_of_string c))], [])
  | ["ncp"; lite; chk] -> ([b2s (Model.needsToCheckPriorityOnNominated (bool_of_tok lite) (bool_of_tok chk))], [])
  | ["rs"; rnt; lnt; eq] -> ([b2s (Model.responseSymmetric (z_of_string rnt) (z_of_string lnt) (bool_of_tok eq))], [])
  | _ -> failwith "unknown case"
let () = Driverlib.run handle
