(* driver for suite "tcpmux" (C15).
   One line = one history:  cfg ft wbuf laddrok rt wdrop byid ; op ... ; op ...  =>  obs ; obs ; ... ; cleanup
   (wdrop, byid: which of two behaviours the implementation has, probed by the harness)
   The model (Model.step) is folded over the operations; after every operation the mux's own
   goroutines are run until everything blocks (Model.settle), as the harness waits for quiescence.
   The operations rmget / hcloseget / expireget do not wait between their two halves: the model is
   run with both schedules (closed conn's watcher goroutine before / after the GetConnByUfrag) and the
   one that explains the implementation's observations is kept.
   ReadFrom is nondeterministic across peers: the implementation's answer selects which blocked
   reader is served (Model.deliverable), the model then says what that reader delivers. *)
open Conv

let names l = List.map ocaml_string l

let rec split_semi acc cur = function
  | [] -> List.rev (List.rev cur :: acc)
  | ";" :: rest -> split_semi (List.rev cur :: acc) [] rest
  | t :: rest -> split_semi acc (t :: cur) rest

let cs t = coq_string (unhex t)
let nat t = nat_of_int (int_of_string t)

type sim = {
  mutable st : Model.state;
  cfg : Model.cfg;
  ft : bool;
  known : (int, unit) Hashtbl.t;       (* connections the harness created *)
  ffdone : (int, unit) Hashtbl.t;
  cliclosed : (int, unit) Hashtbl.t;
  handles : (int, unit) Hashtbl.t;
  parked : (int, unit) Hashtbl.t;      (* handleConn held between lookup and AddConn *)
  mutable close_called : bool;
}

let fuel s = nat_of_int (4 + int_of_nat s.st.Model.npc)
let hold s = Hashtbl.fold (fun k () acc -> nat_of_int k :: acc) s.parked []
let settle ?(watchers = true) s = s.st <- Model.settle s.cfg watchers (hold s) (fuel s) s.st
let step s o = let (st', out) = Model.step s.cfg s.st o in s.st <- st'; out

let view s cid =
  if not (Hashtbl.mem s.known cid) then "skip"
  else match step s (Model.OStat (nat_of_int cid)) with
    | Model.XClosed -> "closed" | Model.XOpen -> "open" | _ -> "skip"

let close_status s = if s.st.Model.creturned then "returned" else "blocked"

let get s h u is6 ip =
  match step s (Model.OGet (nat_of_int h, u, is6, ip)) with
  | Model.XOk -> Hashtbl.replace s.handles h (); "ok"
  | _ -> "err"

(* one operation; [race] says, for a racy compound operation, whether the watcher ran in between;
   [obs] is the implementation's observation (used only to resolve which reader a ReadFrom served) *)
let exec s (race : bool) (op : string list) (obs : string list) : string list =
  match op with
  | ["acc"; cid; raddr; is6; lip; aok; _chunk] ->
    let c = int_of_string cid in
    if Hashtbl.mem s.known c then ["refused"] else begin
      match step s (Model.OAccept (nat_of_int c, cs raddr, bool_of_tok is6, cs lip, bool_of_tok aok)) with
      | Model.XOk -> Hashtbl.replace s.known c (); settle s; ["ok"]
      | _ -> ["refused"]
    end
  | ["ff"; cid; len; binding; hasuser; user; bytes] ->
    let c = int_of_string cid in
    if not (Hashtbl.mem s.known c) || Hashtbl.mem s.ffdone c then ["skip"] else begin
      Hashtbl.replace s.ffdone c ();
      let m = { Model.fm_len = z_of_string len; fm_binding = bool_of_tok binding;
                fm_user = (if bool_of_tok hasuser then Some (cs user) else None); fm_bytes = cs bytes } in
      ignore (step s (Model.OFirst (nat_of_int c, m)));
      settle s; [view s c]
    end
  | ["ffpark"; cid; len; binding; hasuser; user; bytes] ->
    let c = int_of_string cid in
    if not (Hashtbl.mem s.known c) || Hashtbl.mem s.ffdone c then ["skip"] else begin
      Hashtbl.replace s.ffdone c ();
      let m = { Model.fm_len = z_of_string len; fm_binding = bool_of_tok binding;
                fm_user = (if bool_of_tok hasuser then Some (cs user) else None); fm_bytes = cs bytes } in
      ignore (step s (Model.OFirst (nat_of_int c, m)));
      (* the implementation says whether handleConn reached AddConn's log line (it does not when the
         first frame was refused); the model says whether there is an AddConn to hold *)
      let routed = Model.phase_routed s.st (nat_of_int c) in
      let said_parked = (match obs with "parked" :: _ -> true | _ -> false) in
      if routed && said_parked then Hashtbl.replace s.parked c ();
      settle s;
      [(if routed && said_parked then "parked" else "nopark"); view s c]
    end
  | ["release"; cid] ->
    let c = int_of_string cid in
    if not (Hashtbl.mem s.parked c) then ["skip"] else begin
      Hashtbl.remove s.parked c; settle s; [view s c]
    end
  | ["dl"; cid; _n] ->
    let c = int_of_string cid in
    if not (Hashtbl.mem s.known c) || Hashtbl.mem s.parked c then ["skip"] else begin
      if s.ft then begin
        ignore (step s (Model.ODeadline (nat_of_int c)));
        Hashtbl.replace s.ffdone c ()
      end;
      settle s; [view s c]
    end
  | ["send"; cid; _] | ["sendbig"; cid; _] ->
    let c = int_of_string cid in
    if not (Hashtbl.mem s.known c) || not (Hashtbl.mem s.ffdone c) || Hashtbl.mem s.cliclosed c
       || Hashtbl.mem s.parked c then ["skip"]
    else begin
      let payload = match op with
        | ["send"; _; b] -> cs b
        | ["sendbig"; _; n] -> coq_string (Stdlib.String.make (int_of_string n) 'a')
        | _ -> assert false in
      let r = match step s (Model.OSend (nat_of_int c, payload)) with
        | Model.XOk -> "ok" | Model.XClosed -> "closed" | _ -> "skip" in
      settle s; [r; view s c]
    end
  | ["cclose"; cid] ->
    let c = int_of_string cid in
    if not (Hashtbl.mem s.known c) || Hashtbl.mem s.cliclosed c || Hashtbl.mem s.parked c then ["skip"] else begin
      Hashtbl.replace s.cliclosed c (); Hashtbl.replace s.ffdone c ();
      ignore (step s (Model.OClientClose (nat_of_int c)));
      settle s; ["ok"; view s c]
    end
  | ["crecv"; cid] ->
    let c = int_of_string cid in
    if not (Hashtbl.mem s.known c) || Hashtbl.mem s.cliclosed c || Hashtbl.mem s.parked c then ["skip"] else begin
      match step s (Model.OClientRecv (nat_of_int c)) with
      | Model.XPkt (_, b) -> ["pkt"; hex (ocaml_string b)]
      | Model.XNone -> ["none"] | Model.XClosed -> ["closed"] | _ -> ["skip"]
    end
  | ["stat"; cid] -> [view s (int_of_string cid)]
  | ["get"; h; u; is6; ip] ->
    let r = get s (int_of_string h) (cs u) (bool_of_tok is6) (cs ip) in settle s; [r]
  | ["rm"; u] -> ignore (step s (Model.ORemove (cs u))); settle s; ["ok"]
  | ["rmget"; u; h; is6; ip] ->
    ignore (step s (Model.ORemove (cs u)));
    if race then settle s else settle ~watchers:false s;
    let r = get s (int_of_string h) (cs u) (bool_of_tok is6) (cs ip) in
    settle s; ["ok"; r]
  | ["wr"; h; raddr; b] ->
    let r = match step s (Model.OWrite (nat h, cs raddr, cs b)) with
      | Model.XN n -> ["n"; string_of_z n] | _ -> ["err"] in
    settle s; r
  | "wrstall" :: _ -> ["skip"]   (* a write parked in the socket: no visible step until the connection is closed *)
  | ["rd"; h] ->
    let hi = int_of_string h in
    if not (Hashtbl.mem s.handles hi) then ["skip"] else begin
      let cands = Model.deliverable s.st (nat_of_int hi) in
      let matches k = match obs, Model.hold_of s.st k with
        | ["pkt"; a; b], Some (Model.IData d) -> ocaml_string (Model.raddr_of s.st k) = unhex a && ocaml_string d = unhex b
        | ["errfrom"; a; k'], Some (Model.IErr e) -> ocaml_string (Model.raddr_of s.st k) = unhex a && int_of_nat e = int_of_string k'
        | _ -> false in
      let pick = match List.filter matches cands with
        | k :: _ -> k
        | [] -> (match cands with k :: _ -> k | [] -> nat_of_int 0) in
      let r = match step s (Model.ORead (nat_of_int hi, pick)) with
        | Model.XPkt (a, b) -> ["pkt"; hex (ocaml_string a); hex (ocaml_string b)]
        | Model.XErrFrom (a, k) -> ["errfrom"; hex (ocaml_string a); string_of_int (int_of_nat k)]
        | Model.XNone -> ["none"] | Model.XClosed -> ["closed"] | _ -> ["skip"] in
      settle s; r
    end
  | ["hclose"; h] ->
    let hi = int_of_string h in
    if not (Hashtbl.mem s.handles hi) then ["skip"] else begin
      ignore (step s (Model.OHClose (nat_of_int hi))); settle s; ["ok"]
    end
  | ["hcloseget"; h; h2; u; is6; ip] ->
    let hi = int_of_string h in
    if not (Hashtbl.mem s.handles hi) then ["skip"] else begin
      ignore (step s (Model.OHClose (nat_of_int hi)));
      if race then settle s else settle ~watchers:false s;
      let r = get s (int_of_string h2) (cs u) (bool_of_tok is6) (cs ip) in
      settle s; ["ok"; r]
    end
  | ["hcloseff"; h; cid; len; binding; hasuser; user; bytes] ->
    let hi = int_of_string h in
    let c = int_of_string cid in
    if not (Hashtbl.mem s.handles hi) || not (Hashtbl.mem s.known c) || Hashtbl.mem s.ffdone c then ["skip"] else begin
      Hashtbl.replace s.ffdone c ();
      ignore (step s (Model.OHClose (nat_of_int hi)));
      if race then settle s else settle ~watchers:false s;
      let m = { Model.fm_len = z_of_string len; fm_binding = bool_of_tok binding;
                fm_user = (if bool_of_tok hasuser then Some (cs user) else None); fm_bytes = cs bytes } in
      ignore (step s (Model.OFirst (nat_of_int c, m)));
      settle s; ["ok"; view s c]
    end
  | ["expire"; u; is6; ip] ->
    let r = match step s (Model.OExpire (cs u, bool_of_tok is6, cs ip)) with Model.XOk -> "1" | _ -> "0" in
    settle s; [r]
  | ["expireget"; u; is6; ip; h] ->
    let r = match step s (Model.OExpire (cs u, bool_of_tok is6, cs ip)) with Model.XOk -> "1" | _ -> "0" in
    if race then settle s else settle ~watchers:false s;
    let g = get s (int_of_string h) (cs u) (bool_of_tok is6) (cs ip) in
    settle s; [r; g]
  | ["muxclose"] ->
    if s.close_called then ["skip"] else begin
      s.close_called <- true;
      ignore (step s Model.OMuxClose); settle s; ["ok"; close_status s]
    end
  | ["closewait"] -> if not s.close_called then ["skip"] else begin settle s; [close_status s] end
  | ["census"] ->
    (match step s Model.OCensus with
     | Model.XCensus (a, h, w, r, wp) -> List.map (fun x -> string_of_int (int_of_nat x)) [a; h; w; r; wp]
     | _ -> ["?"])
  | [] -> ["skip"]
  | _ -> failwith ("unknown op " ^ Stdlib.String.concat " " op)

let is_racy = function ("rmget" | "hcloseget" | "expireget" | "hcloseff") :: _ -> true | _ -> false

let simulate cfgseg (ops : string list list) (obs : string list list) (races : bool list) : string list list =
  let ft, wbuf, laddr = match cfgseg with
    | "cfg" :: ft :: wbuf :: laddr :: _ -> bool_of_tok ft, bool_of_tok wbuf, bool_of_tok laddr
    | _ -> failwith "bad cfg segment" in
  let wdrop, byid = match cfgseg with
    | [_; _; _; _; _; w; b] -> bool_of_tok w, bool_of_tok b
    | _ -> failwith "bad cfg segment (cfg ft wbuf laddrok rt wdrop byid)" in
  let cfg = { Model.cf_first_timeout = ft; cf_alive = true; cf_wbuf = wbuf; cf_addr_ok = laddr;
              cf_wdrop = wdrop; cf_byid = byid } in
  let s = { st = Model.init; cfg; ft; known = Hashtbl.create 16; ffdone = Hashtbl.create 16;
            cliclosed = Hashtbl.create 16; handles = Hashtbl.create 16; parked = Hashtbl.create 4; close_called = false } in
  let races = ref races in
  let rec go ops obs = match ops with
    | [] -> []
    | op :: rest ->
      let o, orest = match obs with o :: r -> o, r | [] -> [], [] in
      let race = if is_racy op then (match !races with r :: t -> races := t; r | [] -> true) else true in
      let r = exec s race op o in
      r :: go rest orest in
  let res = go ops obs in
  res @ [["clean"]]

let flatten segs = Stdlib.String.concat " ; " (List.map (Stdlib.String.concat " ") segs)

let rec variants k = if k = 0 then [[]] else
    List.concat_map (fun v -> [false :: v; true :: v]) (variants (k - 1))

(* ---- the extracted monitor on the implementation's observations ---- *)
let out_of_view = function "open" -> Model.XOpen | "closed" -> Model.XClosed | _ -> Model.XSkip
let ob a b = { Model.o1 = a; o2 = b }
let none2 a = ob a Model.XSkip

let vop_of (op : string list) (o : string list) : (Model.vop * Model.vobs) option =
  let getres = function "ok" -> Model.XOk | _ -> Model.XErr in
  let status = function "returned" -> Model.XOk | "blocked" -> Model.XNone | _ -> Model.XSkip in
  if o = ["skip"] then None else
  match op, o with
  | ["acc"; cid; raddr; is6; lip; aok; _], [r] ->
    Some (Model.VAcc (nat cid, cs raddr, bool_of_tok is6, cs lip, bool_of_tok aok),
          none2 (if r = "ok" then Model.XOk else Model.XRefused))
  | ["ff"; cid; len; binding; hasuser; user; bytes], [v] ->
    let m = { Model.fm_len = z_of_string len; fm_binding = bool_of_tok binding;
              fm_user = (if bool_of_tok hasuser then Some (cs user) else None); fm_bytes = cs bytes } in
    Some (Model.VFirst (nat cid, m), none2 (out_of_view v))
  | ["ffpark"; cid; len; binding; hasuser; user; bytes], [pk; v] ->
    let m = { Model.fm_len = z_of_string len; fm_binding = bool_of_tok binding;
              fm_user = (if bool_of_tok hasuser then Some (cs user) else None); fm_bytes = cs bytes } in
    if pk = "parked" then Some (Model.VFirstPark (nat cid, m), none2 (out_of_view v))
    else Some (Model.VFirst (nat cid, m), none2 (out_of_view v))
  | ["release"; cid], [v] -> Some (Model.VRelease (nat cid), none2 (out_of_view v))
  | ["dl"; cid; _], [v] -> Some (Model.VDeadline (nat cid), none2 (out_of_view v))
  | ["send"; cid; b], [r; v] ->
    Some (Model.VSend (nat cid, cs b), ob (if r = "ok" then Model.XOk else Model.XClosed) (out_of_view v))
  | ["sendbig"; cid; n], [r; v] ->
    Some (Model.VSend (nat cid, coq_string (Stdlib.String.make (int_of_string n) 'a')),
          ob (if r = "ok" then Model.XOk else Model.XClosed) (out_of_view v))
  | ["cclose"; cid], [_; v] -> Some (Model.VCClose (nat cid), ob Model.XOk (out_of_view v))
  | ["crecv"; cid], ["pkt"; b] -> Some (Model.VCRecv (nat cid), none2 (Model.XPkt (Model.EmptyString, cs b)))
  | ["crecv"; cid], ["none"] -> Some (Model.VCRecv (nat cid), none2 Model.XNone)
  | ["crecv"; cid], ["closed"] -> Some (Model.VCRecv (nat cid), none2 Model.XClosed)
  | ["stat"; cid], [v] -> Some (Model.VStat (nat cid), none2 (out_of_view v))
  | ["get"; h; u; is6; ip], [r] -> Some (Model.VGet (nat h, cs u, bool_of_tok is6, cs ip), none2 (getres r))
  | ["rm"; u], _ -> Some (Model.VRemove (cs u), none2 Model.XOk)
  | ["rmget"; u; h; is6; ip], [_; r] -> Some (Model.VRmGet (cs u, nat h, bool_of_tok is6, cs ip), ob Model.XOk (getres r))
  | ["wr"; h; raddr; b], ["n"; n] -> Some (Model.VWrite (nat h, cs raddr, cs b), none2 (Model.XN (z_of_string n)))
  | ["wr"; h; raddr; b], ["err"] -> Some (Model.VWrite (nat h, cs raddr, cs b), none2 Model.XErr)
  | ["rd"; h], ["pkt"; a; b] -> Some (Model.VRead (nat h), none2 (Model.XPkt (cs a, cs b)))
  | ["rd"; h], ["errfrom"; a; k] -> Some (Model.VRead (nat h), none2 (Model.XErrFrom (cs a, nat k)))
  | ["rd"; h], ["none"] -> Some (Model.VRead (nat h), none2 Model.XNone)
  | ["rd"; h], ["closed"] -> Some (Model.VRead (nat h), none2 Model.XClosed)
  | ["hclose"; h], _ -> Some (Model.VHClose (nat h), none2 Model.XOk)
  | ["hcloseget"; h; h2; u; is6; ip], [_; r] ->
    Some (Model.VHCloseGet (nat h, nat h2, cs u, bool_of_tok is6, cs ip), ob Model.XOk (getres r))
  | ["expire"; u; is6; ip], [r] ->
    Some (Model.VExpire (cs u, bool_of_tok is6, cs ip), none2 (if r = "1" then Model.XOk else Model.XNone))
  | ["expireget"; u; is6; ip; h], [r; g] ->
    Some (Model.VExpireGet (cs u, bool_of_tok is6, cs ip, nat h),
          ob (if r = "1" then Model.XOk else Model.XNone) (getres g))
  | ["muxclose"], [_; st] -> Some (Model.VMuxClose, ob Model.XOk (status st))
  | ["closewait"], [st] -> Some (Model.VCloseWait, none2 (status st))
  | ["census"], [a; h; w; r; wp] -> Some (Model.VCensus, none2 (Model.XCensus (nat a, nat h, nat w, nat r, nat wp)))
  | _ -> raise Exit

let monitor cfgseg ops osegs =
  match osegs with
  | [("PANIC" :: _)] -> ["impl_panic"]
  | [("HANG" :: _)] -> ["impl_hang"]
  | _ ->
  let ft, wbuf, laddr = match cfgseg with
    | "cfg" :: ft :: wbuf :: laddr :: _ -> bool_of_tok ft, bool_of_tok wbuf, bool_of_tok laddr
    | _ -> failwith "bad cfg segment" in
  try
    let rec go ops obs = match ops, obs with
      | [], [fin] ->
        [ (Model.VCleanup, none2 (if List.mem (List.hd (Stdlib.String.split_on_char ',' (Stdlib.String.concat "" fin))) ["clean"]
                                    && fin = ["clean"] then Model.XOk else Model.XErr)) ]
      | ("hcloseff" :: h :: fftoks) :: r, o :: ro ->
        (* to the monitor: the handle is closed, then the first frame arrives (the outcome must not depend on
           whether the closed conn's cleanup has run) *)
        (match o with
         | ["skip"] -> go r ro
         | [_; v] ->
           let x1 = (Model.VHClose (nat h), none2 Model.XOk) in
           (match vop_of ("ff" :: fftoks) [v] with Some x2 -> x1 :: x2 :: go r ro | None -> x1 :: go r ro)
         | _ -> raise Exit)
      | op :: r, o :: ro -> (match vop_of op o with Some x -> x :: go r ro | None -> go r ro)
      | _ -> raise Exit in
    let tr = go ops osegs in
    let res = names (Model.failed (Model.c15_checks ft wbuf laddr tr)) in
    if res <> [] && Sys.getenv_opt "TCPMUX_DEBUG" <> None then begin
      (* first prefix of the trace on which a check fails *)
      let rec take n l = if n = 0 then [] else match l with [] -> [] | x :: r -> x :: take (n - 1) r in
      let n = List.length tr in
      let rec first i = if i > n then n else
          if Model.failed (Model.c15_checks ft wbuf laddr (take i tr)) <> [] then i else first (i + 1) in
      Printf.printf "DEBUG first failing prefix: %d visible ops (skips not counted)\n" (first 0)
    end;
    res
  with Exit -> ["malformed_observation"]

let handle case obs =
  let segs = split_semi [] [] case in
  let osegs = split_semi [] [] obs in
  match segs with
  | [] -> failwith "empty case"
  | cfgseg :: ops ->
    let k = List.length (List.filter is_racy ops) in
    let k = min k 4 in
    let vs = variants k in
    let results = List.map (fun v -> simulate cfgseg ops osegs v) vs in
    let chosen = match List.filter (fun r -> r = osegs) results with
      | r :: _ -> r
      | [] -> List.hd results in
    let model_toks = Stdlib.String.split_on_char ' ' (flatten chosen) in
    let failed = monitor cfgseg ops osegs in
    (model_toks, failed)

let () = Driverlib.run handle
