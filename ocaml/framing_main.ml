(* driver for suite "framing" (C14).  Glue only: token parsing/printing, payload patterns, cyclic
   chunking of a byte string, and the choice of the implementation variant (see Model/Framing.v,
   [variant]): the model is evaluated for the pinned behaviour first and then for the behaviours
   after the proposed fixes; the first one that reproduces the implementation's observation is
   reported, the pinned one when none does (then the line is a DIFF).  The monitors never depend
   on the variant. *)
open Conv
module S = Stdlib.String
module L = Stdlib.List

let names l = L.map ocaml_string l

(* fast local conversions (tables), same encodings as Conv.hex/unhex/ascii_of_char *)
let ascii_tab : Model.ascii array = Array.init 256 (fun i -> ascii_of_char (Char.chr i))
let bytes_of_ocaml (s : S.t) : Model.ascii list =
  let r = ref [] in
  for i = S.length s - 1 downto 0 do r := Array.unsafe_get ascii_tab (Char.code (S.unsafe_get s i)) :: !r done;
  !r

let code_of_ascii (Model.Ascii (b0, b1, b2, b3, b4, b5, b6, b7)) : int =
  let v b i = if b then 1 lsl i else 0 in
  v b0 0 + v b1 1 + v b2 2 + v b3 3 + v b4 4 + v b5 5 + v b6 6 + v b7 7

let ocaml_of_bytes (l : Model.ascii list) : S.t =
  let b = Buffer.create 64 in
  L.iter (fun a -> Buffer.add_char b (Char.unsafe_chr (code_of_ascii a))) l;
  Buffer.contents b

let hexdigits = "0123456789abcdef"
let hex (s : S.t) : S.t =
  let n = S.length s in
  let b = Bytes.create (1 + 2 * n) in
  Bytes.unsafe_set b 0 'x';
  for i = 0 to n - 1 do
    let c = Char.code (S.unsafe_get s i) in
    Bytes.unsafe_set b (1 + 2 * i) (S.unsafe_get hexdigits (c lsr 4));
    Bytes.unsafe_set b (2 + 2 * i) (S.unsafe_get hexdigits (c land 15))
  done;
  Bytes.unsafe_to_string b

let hexval c =
  match c with
  | '0' .. '9' -> Char.code c - 48
  | 'a' .. 'f' -> Char.code c - 87
  | 'A' .. 'F' -> Char.code c - 55
  | _ -> failwith "bad hex digit"
let unhex (t : S.t) : S.t =
  if S.length t = 0 || t.[0] <> 'x' || S.length t land 1 = 0 then failwith ("bad hex token " ^ (if S.length t > 40 then S.sub t 0 40 else t));
  let n = (S.length t - 1) / 2 in
  S.init n (fun i -> Char.unsafe_chr ((hexval t.[1 + 2 * i] lsl 4) lor hexval t.[2 + 2 * i]))

(* payload tokens: x<hex>  or  p<seed>.<len> (bytes 1..255 by a fixed pattern) *)
let pattern seed len = S.init len (fun i -> Char.chr (1 + ((seed + i * 7 + (i lsr 8) * 13) mod 255)))
let piece_of_tok (t : S.t) : S.t =
  if S.length t > 0 && t.[0] = 'p' then
    match S.split_on_char '.' (S.sub t 1 (S.length t - 1)) with
    | [a; b] -> pattern (int_of_string a) (int_of_string b)
    | _ -> failwith ("bad payload " ^ t)
  else unhex t
(* a bytes token is a '+'-joined list of pieces *)
let payload_of_tok (t : S.t) : S.t = S.concat "" (L.map piece_of_tok (S.split_on_char '+' t))

(* partition tokens: c<item>,<item>...  item = n | nxk ; sizes are applied cyclically *)
let sizes_of_tok (t : S.t) : int array =
  if S.length t < 2 || t.[0] <> 'c' then failwith ("bad partition " ^ t);
  let items = S.split_on_char ',' (S.sub t 1 (S.length t - 1)) in
  let out = ref [] in
  L.iter (fun it ->
      match S.split_on_char 'x' it with
      | [n] -> out := int_of_string n :: !out
      | [n; k] -> for _ = 1 to int_of_string k do out := int_of_string n :: !out done
      | _ -> failwith ("bad partition item " ^ it)) items;
  let a = Array.of_list (L.rev !out) in
  Array.iter (fun n -> if n < 1 then failwith "partition size < 1") a;
  a

let chunk_cyclic (sizes : int array) (s : S.t) : S.t list =
  let n = S.length s and k = Array.length sizes in
  let rec go pos i acc =
    if pos >= n then L.rev acc
    else
      let sz = min sizes.(i mod k) (n - pos) in
      go (pos + sz) (i + 1) (S.sub s pos sz :: acc) in
  go 0 0 []

let mk_stream body part tl e : Model.stream =
  { Model.chunks = L.map bytes_of_ocaml (chunk_cyclic (sizes_of_tok part) body);
    tail = bytes_of_ocaml tl; ferr = z_of_int e; reqs = [] }

let err_tok = function None -> "e-" | Some z -> "e" ^ string_of_z z
let opt_err_of_tok t =
  if t = "e-" then None else Some (z_of_string (S.sub t 1 (S.length t - 1)))

let after t k = S.sub t k (S.length t - k)
let starts t p = S.length t >= S.length p && S.sub t 0 (S.length p) = p

(* ---- variants ---- *)
let mtu_i = int_of_nat Model.mtu
let mkv rej wp rfl ac : Model.variant =
  { Model.v_reject_oversize = rej; v_wproc_buf = nat_of_int wp; v_readfrom_len = rfl; v_act_close = ac }
let variant_hits : (S.t, int) Hashtbl.t = Hashtbl.create 7
let choose (cands : (S.t * Model.variant) list) (f : Model.variant -> S.t list) (obs : S.t list) : S.t list =
  let rec go = function
    | [] -> f (snd (L.hd cands))
    | (nm, v) :: rest ->
      let r = f v in
      if r = obs then begin
        Hashtbl.replace variant_hits nm (1 + (try Hashtbl.find variant_hits nm with Not_found -> 0)); r
      end else go rest in
  go cands

(* ---- printing of model results ---- *)
let rf_tok = function
  | Model.RFOk (n, d) -> Printf.sprintf "k%d:%s" (int_of_nat n) (hex (ocaml_of_bytes d))
  | Model.RFErr e -> "e" ^ string_of_z e
  | Model.RFTrunc (d, e) -> Printf.sprintf "t%s:%s" (hex (ocaml_of_bytes d)) (string_of_z e)

let rf_of_tok t =
  match t.[0] with
  | 'k' ->
    (match S.split_on_char ':' (after t 1) with
     | [n; h] -> Model.RFOk (nat_of_int (int_of_string n), bytes_of_ocaml (unhex h))
     | _ -> failwith ("bad rf token " ^ t))
  | 'e' -> Model.RFErr (z_of_string (after t 1))
  | 't' ->
    (match S.split_on_char ':' (after t 1) with
     | [h; e] -> Model.RFTrunc (bytes_of_ocaml (unhex h), z_of_string e)
     | _ -> failwith ("bad rf token " ^ t))
  | _ -> failwith ("bad rf token " ^ t)

let pres_tok = function
  | Model.POk d -> "k" ^ hex (ocaml_of_bytes d)
  | Model.PShort n -> "s" ^ string_of_int (int_of_nat n)
  | Model.PErr e -> "e" ^ string_of_z e
  | Model.PStuck -> "STUCK"

let wres_toks rs = L.map (fun (n, e) -> Printf.sprintf "n%d:%s" (int_of_nat n) (err_tok e)) rs
let wres_of_tok t =
  match S.split_on_char ':' t with
  | [n; e] when starts n "n" -> (nat_of_int (int_of_string (after n 1)), opt_err_of_tok e)
  | _ -> failwith ("bad write result " ^ t)

let rec split_bar acc = function
  | [] -> (L.rev acc, [])
  | "|" :: rest -> (L.rev acc, rest)
  | t :: rest -> split_bar (t :: acc) rest

let has_tok t l = L.mem t l
let strip_flags l = L.filter (fun t -> t <> "HANG" && t <> "P") l

let handle case obs =
  match case with
  | ["rd"; cap; _blen; body; part; tl; e] ->
    let cap = int_of_string cap and body = payload_of_tok body and tl = payload_of_tok tl
    and e = int_of_string e in
    let s = mk_stream body part tl e in
    let total = S.length body + S.length tl in
    let (pf, s') = Model.read_all (Model.read_fuel s) (nat_of_int cap) s in
    let (pkts, fin) = pf in
    let consumed = total - int_of_nat (Model.stream_len s') in
    let model = L.map (fun d -> "k" ^ hex (ocaml_of_bytes d)) pkts
                @ [pres_tok fin; Printf.sprintf "c%d" consumed;
                   Printf.sprintf "r%d" (L.length s'.Model.reqs)]
                (* the largest request is judged by the monitor only (reads_bounded): computing it from the
                   model's unary request log costs (number of reads x packet length) *)
                @ L.filter (fun t -> starts t "m") obs in
    (* observation *)
    let failed =
      try
        let panic = has_tok "P" obs in
        let stat p = match L.filter (fun t -> starts t p && not (starts t "k") && t <> "P") obs with
          | [t] -> int_of_string (after t 1) | _ -> failwith "stat" in
        let opk = L.filter (fun t -> starts t "k") obs in
        let ofin = match L.filter (fun t -> starts t "s" || (starts t "e")) obs with
          | [t] when t.[0] = 's' -> Model.PShort (nat_of_int (int_of_string (after t 1)))
          | [t] -> Model.PErr (z_of_string (after t 1))
          | [] -> Model.PStuck
          | _ -> failwith "final" in
        names (Model.failed (Model.c14_read_checks (nat_of_int cap) (bytes_of_ocaml body) (bytes_of_ocaml tl)
                               (z_of_int e) panic
                               (L.map (fun t -> bytes_of_ocaml (unhex (after t 1))) opk) ofin
                               (nat_of_int (stat "c")) (nat_of_int (stat "r")) (nat_of_int (stat "m"))))
      with _ -> ["malformed_observation"] in
    (model, failed)

  | ["wr"; payload; werr] ->
    let p = payload_of_tok payload in
    let pb = bytes_of_ocaml p in
    let werr = if werr = "-" then None else Some (z_of_string werr) in
    let f v =
      let ((ws, n), e) = Model.write_streaming_packet v werr pb in
      [Printf.sprintf "n%d" (int_of_nat n); err_tok e] @ L.map (fun w -> "w" ^ hex (ocaml_of_bytes w)) ws in
    let model = choose [("current", Model.current); ("reject_oversize", mkv true mtu_i false false)] f obs in
    let failed =
      try
        let panic = has_tok "P" obs in
        let obs' = strip_flags obs in
        let n, err, ws = match obs' with
          | n :: e :: ws when starts n "n" -> (int_of_string (after n 1), opt_err_of_tok e, ws)
          | [] when panic -> (0, None, [])
          | _ -> failwith "wr obs" in
        names (Model.failed (Model.c14_write_checks pb werr panic (nat_of_int n) err
                               (L.map (fun t -> bytes_of_ocaml (unhex (after t 1))) ws)))
      with _ -> ["malformed_observation"] in
    (model, failed)

  | ["pcr"; _rbuf; blen; bcap; body; part; tl; e] ->
    let blen = int_of_string blen and bcap = int_of_string bcap in
    let body = payload_of_tok body and tl = payload_of_tok tl and e = int_of_string e in
    let f v =
      let (rfs, _) = Model.pc_read_all v (nat_of_int blen) (nat_of_int bcap) (mk_stream body part tl e) in
      L.map rf_tok rfs @ [if Model.pc_conn_closed_after_error then "cl1" else "cl0"] in
    let model = choose [("current", Model.current); ("readfrom_len", mkv false mtu_i true false)] f obs in
    let failed =
      try
        let hang = has_tok "HANG" obs || has_tok "P" obs in
        let obs' = strip_flags obs in
        let closed = has_tok "cl1" obs' in
        let rfs = L.map rf_of_tok (L.filter (fun t -> not (starts t "cl")) obs') in
        names (Model.failed (Model.c14_pc_read_checks (nat_of_int blen) (nat_of_int bcap)
                               (bytes_of_ocaml body) (bytes_of_ocaml tl) (z_of_int e) hang rfs closed))
      with _ -> ["malformed_observation"] in
    (model, failed)

  | "pcw" :: wbuf :: payloads ->
    let wbuf = int_of_string wbuf in
    let ps = L.map (fun t -> bytes_of_ocaml (payload_of_tok t)) payloads in
    let f v =
      let (ws, rs) = Model.pc_write_all v (nat_of_int (min wbuf 1)) ps in
      wres_toks rs @ ["|"] @ L.map (fun w -> "w" ^ hex (ocaml_of_bytes w)) ws in
    let model = choose [("current", Model.current);
                        ("reject_oversize", mkv true mtu_i false false);
                        ("wproc_buf_mtu+2", mkv false (mtu_i + 2) false false);
                        ("reject_oversize,wproc_buf_mtu+2", mkv true (mtu_i + 2) false false);
                        ("wproc_buf_65535", mkv false 65535 false false);
                        ("reject_oversize,wproc_buf_65535", mkv true 65535 false false)] f obs in
    let failed =
      try
        let hang = has_tok "HANG" obs || has_tok "P" obs in
        let (rs, ws) = split_bar [] (strip_flags obs) in
        names (Model.failed (Model.c14_pc_write_checks (nat_of_int (min wbuf 1)) ps hang (L.map wres_of_tok rs)
                               (L.map (fun t -> bytes_of_ocaml (unhex (after t 1))) ws)))
      with _ -> ["malformed_observation"] in
    (model, failed)

  | "pipe" :: wbuf :: _rbuf :: bcap :: part :: payloads ->
    let wbuf = int_of_string wbuf and bcap = int_of_string bcap in
    let ps = L.map (fun t -> bytes_of_ocaml (payload_of_tok t)) payloads in
    let f v =
      let (ws, rs) = Model.pc_write_all v (nat_of_int (min wbuf 1)) ps in
      let flat = S.concat "" (L.map ocaml_of_bytes ws) in
      let (rfs, _) = Model.pc_read_all v (nat_of_int bcap) (nat_of_int bcap) (mk_stream flat part "" 0) in
      wres_toks rs @ ["|"] @ L.map rf_tok rfs in
    let model = choose [("current", Model.current);
                        ("reject_oversize", mkv true mtu_i false false);
                        ("wproc_buf_mtu+2", mkv false (mtu_i + 2) false false);
                        ("reject_oversize,wproc_buf_mtu+2", mkv true (mtu_i + 2) false false);
                        ("wproc_buf_65535", mkv false 65535 false false);
                        ("reject_oversize,wproc_buf_65535", mkv true 65535 false false)] f obs in
    let failed =
      try
        let hang = has_tok "HANG" obs || has_tok "P" obs in
        let (rs, rfs) = split_bar [] (strip_flags obs) in
        names (Model.failed (Model.c14_pipe_checks (nat_of_int bcap) ps hang (L.map wres_of_tok rs) (L.map rf_of_tok rfs)))
      with _ -> ["malformed_observation"] in
    (model, failed)

  | ["actr"; blen; body; part] ->
    let blen = int_of_string blen and body = payload_of_tok body in
    let f (v : Model.variant) =
      let ((rfs, _), _) = Model.act_read_all (nat_of_int blen) (mk_stream body part "" 0) in
      L.map rf_tok rfs @ [if Model.act_reports_end v then "end1" else "end0"] in
    let model = choose [("current", Model.current); ("act_close", mkv false mtu_i false true)] f obs in
    let failed =
      try
        let hang = has_tok "HANG" obs || has_tok "P" obs in
        let obs' = strip_flags obs in
        let ended = has_tok "end1" obs' in
        let rfs = L.map rf_of_tok (L.filter (fun t -> not (starts t "end")) obs') in
        names (Model.failed (Model.c14_act_read_checks (nat_of_int blen) (bytes_of_ocaml body) Model.Z0 hang rfs ended))
      with _ -> ["malformed_observation"] in
    (model, failed)

  | "actw" :: payloads ->
    let ps = L.map (fun t -> bytes_of_ocaml (payload_of_tok t)) payloads in
    let f v =
      let ((rs, ws), closed) = Model.act_write_all v ps in
      wres_toks rs @ ["|"; hex (S.concat "" (L.map ocaml_of_bytes ws)); if closed then "cl1" else "cl0"] in
    let model = choose [("current", Model.current); ("reject_oversize", mkv true mtu_i false false)] f obs in
    let failed =
      try
        let hang = has_tok "HANG" obs || has_tok "P" obs in
        let (rs, rest) = split_bar [] (strip_flags obs) in
        let rx, closed = match rest with
          | [h; c] -> (bytes_of_ocaml (unhex h), c = "cl1")
          | _ -> failwith "actw obs" in
        names (Model.failed (Model.c14_act_write_checks ps hang (L.map wres_of_tok rs) rx closed))
      with _ -> ["malformed_observation"] in
    (model, failed)

  | _ -> failwith "unknown case"

let () =
  (* the model works on cons cells per byte: a large minor heap keeps a case's data out of the major heap *)
  Gc.set { (Gc.get ()) with Gc.minor_heap_size = 32 * 1024 * 1024; space_overhead = 400 };
  Driverlib.run handle;
  Hashtbl.iter (fun k n -> Printf.printf "NOTE variant=%s reproduced=%d\n" k n) variant_hits
