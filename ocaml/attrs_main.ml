(* driver for suite "attrs" (C16): ICE STUN attribute codecs *)
open Conv
let names l = List.map ocaml_string l
let bytes_of_hex t = List.map (fun c -> z_of_int (Char.code c)) (List.of_seq (Stdlib.String.to_seq (unhex t)))
let hex_of_bytes l = hex (Stdlib.String.of_seq (List.to_seq (List.map (fun z -> Char.chr (int_of_z z)) l)))

let rec take_attrs n toks acc =
  if n = 0 then (List.rev acc, toks)
  else match toks with
    | t :: v :: rest -> take_attrs (n - 1) rest ((z_of_string t, bytes_of_hex v) :: acc)
    | _ -> failwith "short attribute list"

let parse_kind = function
  | "prio" :: r -> (Model.K_prio, r) | "controlling" :: r -> (Model.K_controlling, r)
  | "controlled" :: r -> (Model.K_controlled, r) | "control" :: r -> (Model.K_control, r)
  | "usec" :: r -> (Model.K_usec, r) | "nom" :: t :: r -> (Model.K_nom (z_of_string t), r)
  | "dtls" :: r -> (Model.K_dtls, r) | "ack" :: r -> (Model.K_ack, r)
  | _ -> failwith "bad kind"

let err_name = function Model.A_not_found -> "notfound" | Model.A_size -> "size"
let err_of_name = function "notfound" -> Model.A_not_found | "size" -> Model.A_size | s -> failwith ("error class " ^ s)

let msg_toks m = string_of_int (List.length m) :: List.concat_map (fun (t, v) -> [string_of_z t; hex_of_bytes v]) m

let obs_toks = function
  | Model.AO_panic -> ["PANIC"]
  | Model.AO_enc_err e -> ["EERR"; err_name e]
  | Model.AO_dec (m, r) ->
    ("M" :: msg_toks m) @
    (match r with
     | Model.AOk l -> "OK" :: string_of_int (List.length l) :: List.map string_of_z l
     | Model.AErr e -> ["ERR"; err_name e])

let parse_obs = function
  | ["PANIC"] -> Model.AO_panic
  | ["EERR"; e] -> Model.AO_enc_err (err_of_name e)
  | "M" :: n :: rest ->
    let m, rest = take_attrs (int_of_string n) rest [] in
    (match rest with
     | "OK" :: _ :: vals -> Model.AO_dec (m, Model.AOk (List.map z_of_string vals))
     | ["ERR"; e] -> Model.AO_dec (m, Model.AErr (err_of_name e))
     | _ -> failwith "bad result")
  | _ -> failwith "bad observation"

let handle case obs =
  match case with
  | "a" :: rest ->
    let k, rest = parse_kind rest in
    (match rest with
     | n :: rest ->
       let pre, rest = take_attrs (int_of_string n) rest [] in
       let enc = match rest with
         | ["D"] -> None
         | "E" :: args ->
           (match k, args with
            | Model.K_dtls, [d] -> Some (bytes_of_hex d)
            | Model.K_ack, _ :: vals -> Some (List.map z_of_string vals)
            | _, vals -> Some (List.map z_of_string vals))
         | _ -> failwith "bad case tail" in
       let model = Model.attr_observe k pre enc in
       let failed = match (try Some (parse_obs obs) with _ -> None) with
         | Some o -> names (Model.failed (Model.c16_attr_checks k pre enc o))
         | None -> ["malformed_observation"] in
       (obs_toks model, failed)
     | [] -> failwith "bad case")
  | _ -> failwith "unknown case"
let () = Driverlib.run handle
