(* driver for the agent-core suites: one history per line.
   case : CFG ... ; op ; op ; ...        impl: outs | snapshot ; outs | snapshot ; ...
   The extracted model is folded over the ops; its canonical observation tokens are compared with
   the implementation's per operation, and the extracted monitors are evaluated on the
   implementation's parsed observations. *)
open Conv
open Model

let z = z_of_string
let zs = string_of_z
let bt = tok_of_bool

(* ---- token stream ---- *)
type stream = { mutable toks : Stdlib.String.t list }
let next st = match st.toks with [] -> failwith "unexpected end of tokens" | t :: r -> st.toks <- r; t
let peek st = match st.toks with [] -> "" | t :: _ -> t
let expect st t = let x = next st in if x <> t then failwith ("expected " ^ t ^ " got " ^ x)

let p_addr st = let v6 = bool_of_tok (next st) in let ip = z (next st) in let port = z (next st) in
  { a_v6 = v6; a_ip = ip; a_port = port }
let p_opt st f = if peek st = "-" then (ignore (next st); None) else Some (f st)
let p_z st = z (next st)
let p_bool st = bool_of_tok (next st)

let p_cand st =
  let h = p_z st in let typ = p_z st in let net = p_z st in let a = p_addr st in
  let tcp = p_z st in let prio = p_z st in let comp = p_z st in
  let rel = p_opt st (fun st -> let a = p_z st in let p = p_z st in (a, p)) in
  { c_h = h; c_typ = typ; c_net = net; c_addr = a; c_tcp = tcp; c_prio = prio; c_comp = comp; c_rel = rel }

let p_msg st =
  let cls = p_z st in let meth = p_z st in let tx = p_z st in
  let user = p_opt st (fun st -> let a = p_z st in let b = p_z st in (a, b)) in
  let key = p_opt st p_z in
  let use = p_bool st in
  let ctl = p_opt st (fun st -> let c = p_bool st in let tb = p_z st in (c, tb)) in
  let prio = p_opt st p_z in let nom = p_opt st p_z in let err = p_opt st p_z in
  let xor = p_opt st p_addr in
  { m_class = cls; m_method = meth; m_tx = tx; m_user = user; m_key = key; m_use = use; m_ctl = ctl;
    m_prio = prio; m_nom = nom; m_err = err; m_xor = xor }

let p_payload st = let id = p_z st in let len = p_z st in let s = p_bool st in
  { pl_id = id; pl_len = len; pl_stun = s }

let p_op st =
  match next st with
  | "AL" -> AddLocal (p_cand st)
  | "AR" -> AddRemote (p_cand st)
  | "ST" -> let c = p_bool st in let a = p_z st in let b = p_z st in Start (c, a, b)
  | "SC" -> let a = p_z st in let b = p_z st in SetRemoteCreds (a, b)
  | "AV" -> Advance (p_z st)
  | "TK" -> Tick
  | "IS" -> let lh = p_z st in let a = p_addr st in let m = p_msg st in InStun (lh, a, m)
  | "ID" -> let lh = p_z st in let a = p_addr st in let p = p_payload st in InData (lh, a, p)
  | "WR" -> Write (p_payload st)
  | "WP" -> let id = p_z st in WriteToPair (id, p_payload st)
  | "RD" -> Read
  | "RS" -> let a = p_z st in let b = p_z st in Restart (a, b)
  | "RN" -> let a = p_cand st in let b = p_cand st in let v = p_z st in Renominate (a, b, v)
  | "CL" -> Close
  | t -> failwith ("unknown op " ^ t)

let rec p_list n f st = if n <= 0 then [] else let x = f st in x :: p_list (n - 1) f st

let p_cfg st =
  expect st "CFG";
  let lite = p_bool st in let tb = p_z st in let maxreq = p_z st in let disc = p_z st in
  let discx = p_bool st in let failed = p_z st in let ka = p_z st in
  let wh = p_z st in let ws = p_z st in let wp = p_z st in let wr = p_z st in
  let nb = int_of_string (next st) in let blocked = p_list nb p_z st in
  let renom = p_bool st in let chk = p_bool st in let eps = p_z st in
  let lu = p_z st in let lp = p_z st in
  ({ cf_lite = lite; cf_tiebreaker = tb; cf_max_req = maxreq; cf_disc_timeout = disc; cf_disc_explicit = discx;
     cf_failed_timeout = failed; cf_keepalive = ka; cf_wait_host = wh; cf_wait_srflx = ws; cf_wait_prflx = wp;
     cf_wait_relay = wr; cf_blocked_ips = blocked; cf_renomination = renom; cf_check_prio = chk; cf_eps = eps }, lu, lp)

(* ---- printing (model side) and parsing (implementation side) of observations ---- *)
let s_addr a = [bt a.a_v6; zs a.a_ip; zs a.a_port]
let s_opt f = function None -> ["-"] | Some x -> f x
let s_msg m =
  [zs m.m_class; zs m.m_method; zs m.m_tx]
  @ s_opt (fun (a, b) -> [zs a; zs b]) m.m_user
  @ s_opt (fun k -> [zs k]) m.m_key
  @ [bt m.m_use]
  @ s_opt (fun (c, tb) -> [bt c; zs tb]) m.m_ctl
  @ s_opt (fun p -> [zs p]) m.m_prio @ s_opt (fun p -> [zs p]) m.m_nom @ s_opt (fun p -> [zs p]) m.m_err
  @ s_opt s_addr m.m_xor
let s_payload p = [zs p.pl_id; zs p.pl_len; bt p.pl_stun]

let ret_name = function
  | ROk -> "ok" | RErrClosed -> "closed" | RErrMultipleStart -> "multiple_start" | RErrEmptyCreds -> "empty_creds"
  | RErrStunPayload -> "stun_payload" | RErrNoPairs -> "no_pairs" | RErrPairNotFound -> "pair_not_found"
  | RErrPairNotSucceeded -> "pair_not_succeeded" | RErrNotControlling -> "not_controlling"
  | RErrRenominationOff -> "renomination_off" | RDuplicate -> "duplicate" | RWouldBlock -> "would_block"
  | RIgnored -> "ignored"
let ret_of = function
  | "ok" -> ROk | "closed" -> RErrClosed | "multiple_start" -> RErrMultipleStart | "empty_creds" -> RErrEmptyCreds
  | "stun_payload" -> RErrStunPayload | "no_pairs" -> RErrNoPairs | "pair_not_found" -> RErrPairNotFound
  | "pair_not_succeeded" -> RErrPairNotSucceeded | "not_controlling" -> RErrNotControlling
  | "renomination_off" -> RErrRenominationOff | "duplicate" -> RDuplicate | "would_block" -> RWouldBlock
  | "ignored" -> RIgnored | t -> failwith ("unknown return code " ^ t)

let s_out = function
  | OSend (lh, dst, m) -> ["S"; zs lh] @ s_addr dst @ s_msg m
  | OData (lh, dst, p) -> ["D"; zs lh] @ s_addr dst @ s_payload p
  | OState st -> ["ST"; zs st]
  | OSelected id -> ["SEL"; zs id]
  | OCand h -> ["CA"; zs h]
  | OClosedCand h -> ["CC"; zs h]
  | ODeliver p -> ["DL"] @ s_payload p
  | ORet r -> ["R"; ret_name r]

let p_out st =
  match next st with
  | "S" -> let lh = p_z st in let a = p_addr st in let m = p_msg st in OSend (lh, a, m)
  | "D" -> let lh = p_z st in let a = p_addr st in let p = p_payload st in OData (lh, a, p)
  | "ST" -> OState (p_z st)
  | "SEL" -> OSelected (p_z st)
  | "CA" -> OCand (p_z st)
  | "CC" -> OClosedCand (p_z st)
  | "DL" -> ODeliver (p_payload st)
  | "R" -> ORet (ret_of (next st))
  | t -> failwith ("unknown out " ^ t)

let s_rel = s_opt (fun (a, p) -> [zs a; zs p])
let s_rsnap r = [zs r.rs_typ; zs r.rs_net] @ s_addr r.rs_addr @ [zs r.rs_tcp] @ s_rel r.rs_rel @ [zs r.rs_prio] @ s_opt (fun a -> [zs a]) r.rs_age
let s_snap (sn : snap) =
  [zs sn.sn_conn; bt sn.sn_ctl] @ s_opt (fun i -> [zs i]) sn.sn_selected @ s_opt (fun i -> [zs i]) sn.sn_nominated
  @ s_opt (fun i -> [zs i]) sn.sn_last_nom @ [zs sn.sn_next_pair; zs sn.sn_lufrag; zs sn.sn_rufrag; zs sn.sn_lpwd; zs sn.sn_rpwd; bt sn.sn_closed]
  @ ["P"; string_of_int (List.length sn.sn_pending)]
  @ List.concat_map (fun q -> [zs q.qs_tx] @ s_addr q.qs_dst @ [zs q.qs_net; bt q.qs_use] @ s_opt (fun v -> [zs v]) q.qs_nom @ [zs q.qs_age]) sn.sn_pending
  @ ["L"; string_of_int (List.length sn.sn_locals)]
  @ List.map string_of_int (List.sort compare (List.map int_of_z sn.sn_locals))
  @ ["R"; string_of_int (List.length sn.sn_remotes)]
  @ List.concat_map (fun s -> Driverlib.split_ws s)
      (List.sort compare (List.map (fun r -> Stdlib.String.concat " " (s_rsnap r)) sn.sn_remotes))
  @ ["C"; string_of_int (List.length sn.sn_pairs)]
  @ List.concat_map (fun p ->
        [zs p.ps_id; zs p.ps_lh; zs p.ps_rtyp; zs p.ps_rnet] @ s_addr p.ps_raddr @ [zs p.ps_rtcp] @ s_rel p.ps_rrel
        @ [zs p.ps_state; bt p.ps_nominated; bt p.ps_nom_on_succ; zs p.ps_reqcount; zs p.ps_prio; bt p.ps_ctl;
           zs p.ps_req_sent; zs p.ps_req_recv; zs p.ps_resp_sent; zs p.ps_resp_recv;
           zs p.ps_pkts_sent; zs p.ps_bytes_sent; zs p.ps_pkts_recv; zs p.ps_bytes_recv]) sn.sn_pairs
  @ ["B"; zs sn.sn_bytes_sent; zs sn.sn_bytes_recv]
  @ ["X"; bt sn.sn_index_ok; bt sn.sn_selected_listed]

let p_snap st : snap =
  let conn = p_z st in let ctl = p_bool st in
  let sel = p_opt st p_z in let nom = p_opt st p_z in let ln = p_opt st p_z in
  let np = p_z st in let lu = p_z st in let ru = p_z st in let lpw = p_z st in let rpw = p_z st in let cl = p_bool st in
  expect st "P"; let n = int_of_string (next st) in
  let pend = p_list n (fun st ->
      let tx = p_z st in let d = p_addr st in let net = p_z st in let use = p_bool st in
      let nm = p_opt st p_z in let age = p_z st in
      { qs_tx = tx; qs_dst = d; qs_net = net; qs_use = use; qs_nom = nm; qs_age = age }) st in
  expect st "L"; let n = int_of_string (next st) in let locals = p_list n p_z st in
  expect st "R"; let n = int_of_string (next st) in
  let rems = p_list n (fun st ->
      let typ = p_z st in let net = p_z st in let a = p_addr st in let tcp = p_z st in
      let rel = p_opt st (fun st -> let a = p_z st in let p = p_z st in (a, p)) in let prio = p_z st in
      let age = p_opt st p_z in
      { rs_typ = typ; rs_net = net; rs_addr = a; rs_tcp = tcp; rs_rel = rel; rs_prio = prio; rs_age = age }) st in
  expect st "C"; let n = int_of_string (next st) in
  let pairs = p_list n (fun st ->
      let id = p_z st in let lh = p_z st in let rt = p_z st in let rn = p_z st in let ra = p_addr st in
      let rtcp = p_z st in let rrel = p_opt st (fun st -> let a = p_z st in let p = p_z st in (a, p)) in
      let state = p_z st in let nomd = p_bool st in let nos = p_bool st in let rc = p_z st in let prio = p_z st in
      let c = p_bool st in let a1 = p_z st in let a2 = p_z st in let a3 = p_z st in let a4 = p_z st in
      let b1 = p_z st in let b2 = p_z st in let b3 = p_z st in let b4 = p_z st in
      { ps_id = id; ps_lh = lh; ps_rtyp = rt; ps_rnet = rn; ps_raddr = ra; ps_rtcp = rtcp; ps_rrel = rrel; ps_state = state; ps_nominated = nomd;
        ps_nom_on_succ = nos; ps_reqcount = rc; ps_prio = prio; ps_ctl = c; ps_req_sent = a1; ps_req_recv = a2;
        ps_resp_sent = a3; ps_resp_recv = a4; ps_pkts_sent = b1; ps_bytes_sent = b2; ps_pkts_recv = b3; ps_bytes_recv = b4 }) st in
  expect st "B"; let bs = p_z st in let br = p_z st in
  expect st "X"; let x1 = p_bool st in let x2 = p_bool st in
  { sn_conn = conn; sn_ctl = ctl; sn_selected = sel; sn_nominated = nom; sn_last_nom = ln; sn_next_pair = np;
    sn_lufrag = lu; sn_rufrag = ru; sn_lpwd = lpw; sn_rpwd = rpw; sn_closed = cl; sn_pending = pend; sn_locals = locals; sn_remotes = rems; sn_pairs = pairs;
    sn_bytes_sent = bs; sn_bytes_recv = br; sn_index_ok = x1; sn_selected_listed = x2 }

(* split a token list at ";" *)
let split_on sep toks =
  let rec go cur acc = function
    | [] -> List.rev (if cur = [] then acc else List.rev cur :: acc)
    | t :: r when t = sep -> go [] (List.rev cur :: acc) r
    | t :: r -> go (t :: cur) acc r in
  go [] [] toks

let parse_impl_step toks : out list * snap =
  let st = { toks } in
  let outs = ref [] in
  while peek st <> "|" do
    let o = p_out st in outs := o :: !outs; expect st ","
  done;
  expect st "|";
  let sn = p_snap st in
  (List.rev !outs, sn)

let print_step (outs, sn) =
  List.concat_map (fun o -> s_out o @ [","]) outs @ ["|"] @ s_snap sn

let monitors : (Stdlib.String.t * (config -> z -> z -> ((op * out list) * snap) list -> (Model.string * bool) list)) list =
  [("core", fun cfg lu lp tr -> monitor cfg lu lp tr)]

(* ---- pair summary (suite "pair") ---- *)
let handle_pair case obs =
  let st = { toks = case } in
  expect st "PS";
  let na = int_of_string (next st) in let nb = int_of_string (next st) in
  let p_ep st = let h = p_z st in let a = p_addr st in { ep_h = h; ep_pub = a } in
  let ea = p_list na p_ep st in let eb = p_list nb p_ep st in
  let links = p_list na (fun st -> p_list nb (fun st -> let r = p_bool st in let b = p_bool st in (r, b)) st) st in
  let renom = p_bool st in let restarted = p_bool st in let same = p_bool st in
  let tba = p_z st in let tbb = p_z st in let lossy = p_z st in let nren = p_z st in
  let lastnom = if p_bool st then (let side = p_bool st in let lh = p_z st in let a = p_addr st in Some ((side, lh), a)) else None in
  let su = { su_a = ea; su_b = eb; su_links = links; su_renom = renom; su_restarted = restarted; su_same_role = same;
             su_tb_a = tba; su_tb_b = tbb; su_lossy = lossy; su_nrenom = nren; su_last_nom = lastnom } in
  let so = { toks = obs } in
  let p_final st = let conn = p_z st in let ctl = p_bool st in
    let sel = if p_bool st then (let h = p_z st in let a = p_addr st in Some (h, a)) else None in
    { sf_conn = conn; sf_ctl = ctl; sf_sel = sel } in
  let fa = p_final so in let fb = p_final so in
  let eca = p_bool so in let esa = p_bool so in let ecb = p_bool so in let esb = p_bool so in
  let failed = List.filter_map (fun (n, ok) -> if ok then None else Some (ocaml_string n))
      (c01_checks su fa fb eca esa ecb esb) in
  (obs, failed)

let handle_core case obs =
  match split_on ";" case with
  | [] -> failwith "empty case"
  | cfgt :: opts ->
    let (cfg, lu, lp) = p_cfg { toks = cfgt } in
    let ops = List.map (fun t -> p_op { toks = t }) opts in
    let impl_steps = split_on ";" obs in
    if List.length impl_steps <> List.length ops then failwith "op/observation count mismatch";
    (* model run *)
    let s = ref (init lu lp) in
    let model_toks = ref [] and first_diff = ref (-1) in
    List.iteri (fun i (o, it) ->
        let (s', outs) = step cfg !s o in
        s := s';
        let mt = print_step (canon_outs outs, snap_of_state s') in
        if mt <> it && !first_diff < 0 then first_diff := i;
        model_toks := (mt @ [";"]) :: !model_toks) (List.combine ops impl_steps);
    ignore model_toks;
    (* monitors on the implementation's observations *)
    let impl_trace = List.map2 (fun o it -> let (outs, sn) = parse_impl_step it in ((o, outs), sn)) ops impl_steps in
    let failed = List.sort_uniq compare (List.concat_map (fun (_, mon) ->
        List.filter_map (fun (n, ok) -> if ok then None else Some (ocaml_string n)) (mon cfg lu lp impl_trace)) monitors) in
    (* locate each failing check: the shortest prefix of the history on which it fails *)
    List.iter (fun name ->
        let n = List.length impl_trace in
        let rec take k l = if k = 0 then [] else match l with [] -> [] | x :: t -> x :: take (k - 1) t in
        let fails k = List.exists (fun (nm, ok) -> (not ok) && ocaml_string nm = name) (monitor cfg lu lp (take k impl_trace)) in
        let rec first k = if k > n then n else if fails k then k else first (k + 1) in
        let k = first 1 in
        Printf.printf "MONWHERE %s step=%d op=%s\n" name (k - 1) (Stdlib.String.concat " " (List.nth opts (k - 1)))) failed;
    ((if !first_diff >= 0 then
        let i = !first_diff in
        let (s0, _) = List.fold_left (fun (s, k) o -> if k < i then (fst (step cfg s o), k + 1) else (s, k + 1)) (init lu lp, 0) ops in
        let (s1, outs) = step cfg s0 (List.nth ops i) in
        ["DIFFSTEP"; string_of_int i; "OP"] @ List.nth opts i @ ["MODEL"] @ print_step (canon_outs outs, snap_of_state s1)
        @ ["IMPL"] @ List.nth impl_steps i
      else obs), failed)

(* ---- a two-agent run as a schedule of the system model (Model/TwoAgents.v) ---- *)
let handle_sys case obs =
  match split_on ";" (List.tl case) with
  | cfga_t :: cfgb_t :: topo_t :: opts ->
    let (cfga, lua, lpa) = p_cfg { toks = cfga_t } in
    let (cfgb, lub, lpb) = p_cfg { toks = cfgb_t } in
    let st = { toks = topo_t } in
    let na = int_of_string (next st) in let nb = int_of_string (next st) in
    let p_ep st = let h = p_z st in let a = p_addr st in { ep_h = h; ep_pub = a } in
    let ea = p_list na p_ep st in let eb = p_list nb p_ep st in
    let links = p_list na (fun st -> p_list nb (fun st -> let r = p_bool st in let b = p_bool st in (r, b)) st) st in
    let topo = { t_a = ea; t_b = eb; t_links = links } in
    let strip t = (* "... # n m": STUN and application datagrams in flight after the operation *)
      let rec go acc = function
        | ["#"; n; m] -> (List.rev acc, int_of_string n, int_of_string m)
        | ["#"; n] -> (List.rev acc, int_of_string n, -1)
        | x :: r -> go (x :: acc) r
        | [] -> (List.rev acc, -1, -1) in
      go [] t in
    let p_sysop t = match t with
      | "A" :: r -> DSys (SApi (true, p_op { toks = r }))
      | "B" :: r -> DSys (SApi (false, p_op { toks = r }))
      | ["DV"; i] -> DSys (SDeliver (nat_of_int (int_of_string i)))
      | ["DR"; i] -> DSys (SDrop (nat_of_int (int_of_string i)))
      | ["DU"; i] -> DSys (SDup (nat_of_int (int_of_string i)))
      | ["XV"; i] -> DDeliver (nat_of_int (int_of_string i))
      | ["XR"; i] -> DDrop (nat_of_int (int_of_string i))
      | ["XU"; i] -> DDup (nat_of_int (int_of_string i))
      | _ -> failwith "bad system op" in
    let rec len = function [] -> 0 | _ :: t -> 1 + len t in
    let first_bad = ref (-1) in
    let k = ref 0 in
    let d = List.fold_left (fun d t ->
        let (ot, n, m) = strip t in
        let d' = dsys_step cfga cfgb topo d (p_sysop ot) in
        if !first_bad < 0 && ((n >= 0 && len d'.d_sys.sy_net <> n) || (m >= 0 && len d'.d_net <> m)) then first_bad := !k;
        incr k; d') (dsys_init lua lpa lub lpb) opts in
    let sy = d.d_sys in
    if !first_bad >= 0 then
      (["NETLEN_DIFFERS_AT_OP"; string_of_int !first_bad] @ List.nth opts !first_bad, [])
    else
    (s_snap (snap_of_state sy.sy_a) @ ["|"] @ s_snap (snap_of_state sy.sy_b) @ ["|"; string_of_int (len sy.sy_net); string_of_int (len d.d_net)], [])
  | _ -> failwith "bad system case"

let handle case obs = match case with
  | "PS" :: _ -> handle_pair case obs
  | "SY" :: _ -> handle_sys case obs
  | _ -> handle_core case obs
let () = Driverlib.run handle
