(* Shared loop of the per-suite model drivers.
   stdin : one observation per line   "<case tokens> => <implementation result tokens>"
           (a first token "@tag" classifies the input; it is echoed in failure lines)
   stdout: one line per failing observation and a final SUMMARY line.
     DIFF    <lineno> tag=<tag> model=<tokens> impl=<tokens>      model and implementation disagree
     MONFAIL <lineno> tag=<tag> failed=<names>                    the extracted monitor rejects the impl's observation
   The handler returns (model result tokens, names of failed monitor components). *)
let split_ws s = List.filter (fun t -> t <> "") (Stdlib.String.split_on_char ' ' s)

let rec split_arrow acc = function
  | [] -> (List.rev acc, [])
  | "=>" :: rest -> (List.rev acc, rest)
  | t :: rest -> split_arrow (t :: acc) rest

let run (handle : Stdlib.String.t list -> Stdlib.String.t list -> Stdlib.String.t list * Stdlib.String.t list) =
  let total = ref 0 and diffs = ref 0 and monf = ref 0 and errs = ref 0 in
  (try
     while true do
       let line = input_line stdin in
       if line <> "" && line.[0] <> '#' then begin
         incr total;
         let toks = split_ws line in
         let tag, toks = match toks with
           | t :: rest when Stdlib.String.length t > 0 && t.[0] = '@' -> (t, rest)
           | _ -> ("@", toks) in
         let case, obs = split_arrow [] toks in
         match (try Ok (handle case obs) with e -> Error (Printexc.to_string e)) with
         | Error e -> incr errs; Printf.printf "ERROR %d tag=%s %s\n" !total tag e
         | Ok (model, failed) ->
           if failed <> [] then begin
             incr monf;
             Printf.printf "MONFAIL %d tag=%s failed=%s\n" !total tag (Stdlib.String.concat "," failed)
           end;
           if model <> obs then begin
             incr diffs;
             let clip s = if Stdlib.String.length s > 6000 then Stdlib.String.sub s 0 6000 ^ "..." else s in
             Printf.printf "DIFF %d tag=%s model=%s impl=%s\n" !total tag
               (clip (Stdlib.String.concat " " model)) (clip (Stdlib.String.concat " " obs))
           end
       end
     done
   with End_of_file -> ());
  Printf.printf "SUMMARY total=%d diff=%d monfail=%d error=%d\n" !total !diffs !monf !errs
