(* driver for suite "prio" (C17) *)
open Conv
let names l = List.map ocaml_string l
let handle case obs =
  match case with
  | ("cand" | "candx") :: ty :: nt :: tcp :: proto :: ha :: off :: comp :: _ ->
    let ty = z_of_string ty and nt = z_of_string nt and tcp = z_of_string tcp
    and proto = coq_string (unhex proto) and ha = bool_of_tok ha
    and off = z_of_string off and comp = z_of_string comp in
    let tp = Model.typePreference ty nt ha off in
    let lp = Model.localPreference ty nt tcp (Model.relayProtocolPreference proto) in
    let pr = Model.candidate_priority ty nt tcp proto ha off comp in
    let failed = match obs with
      | [otp; olp; opr] ->
        names (Model.failed (Model.c17_cand_checks ty nt tcp proto ha off comp
                               (z_of_string otp) (z_of_string olp) (z_of_string opr)))
      | _ -> ["malformed_observation"] in
    ([string_of_z tp; string_of_z lp; string_of_z pr], failed)
  | ["pair"; ctl; l; r] ->
    let ctl = bool_of_tok ctl and l = z_of_string l and r = z_of_string r in
    let p = Model.pairPriority false Model.Z0 ctl l r in
    let failed = match obs with
      | [op] -> names (Model.failed (Model.c17_pair_checks ctl l r (z_of_string op)))
      | _ -> ["malformed_observation"] in
    ([string_of_z p], failed)
  | ["mirror"; l; r] ->
    (* impl result: priority seen by the controlling side for (l,r) and by the controlled side for (r,l) *)
    let l = z_of_string l and r = z_of_string r in
    let pa = Model.pairPriority false Model.Z0 true l r in
    let pb = Model.pairPriority false Model.Z0 false r l in
    let failed = match obs with
      | [a; b] -> if a = b then [] else ["pair_mirror"]
      | _ -> ["malformed_observation"] in
    ([string_of_z pa; string_of_z pb], failed)
  | ["found"; ty; addr; nt] ->
    let f = Model.foundation Model.EmptyString (z_of_string ty) (coq_string (unhex addr)) (z_of_string nt) in
    ([hex (ocaml_string f)], [])
  | _ -> failwith "unknown case"
let () = Driverlib.run handle
