(* driver for suite "cand" (C16): candidate text codec and equality.
   The case line carries, after the token T, what netip.ParseAddr (not modelled) makes of each
   address token; the model's [parse_addr] parameter is a lookup in that table and raises when
   asked about a token the harness did not describe (reported as ERROR, never guessed). *)
open Conv
let names l = List.map ocaml_string l
let cs s = coq_string (unhex s)
let hx s = hex (ocaml_string s)

let err_name = function
  | Model.E_foundation -> "foundation" | Model.E_too_short -> "too_short" | Model.E_component -> "component"
  | Model.E_priority -> "priority" | Model.E_port -> "port" | Model.E_typ -> "typ" | Model.E_reladdr -> "reladdr"
  | Model.E_extension -> "extension" | Model.E_tcptype -> "tcptype" | Model.E_addr -> "addr" | Model.E_nettype -> "nettype"
let err_of_name = function
  | "foundation" -> Model.E_foundation | "too_short" -> Model.E_too_short | "component" -> Model.E_component
  | "priority" -> Model.E_priority | "port" -> Model.E_port | "typ" -> Model.E_typ | "reladdr" -> Model.E_reladdr
  | "extension" -> Model.E_extension | "tcptype" -> Model.E_tcptype | "addr" -> Model.E_addr | "nettype" -> Model.E_nettype
  | s -> failwith ("unknown error class " ^ s)

let rec take_pairs n toks acc =
  if n = 0 then (List.rev acc, toks)
  else match toks with
    | k :: v :: rest -> take_pairs (n - 1) rest ((cs k, cs v) :: acc)
    | _ -> failwith "short extension list"

(* <src> *)
let parse_src toks =
  match toks with
  | "U" :: raw :: rest -> (Model.SrcText (cs raw), rest)
  | "C" :: ty :: nw :: ad :: port :: comp :: prio :: found :: tcp :: ra :: rp :: proto :: n :: rest ->
    let adds, rest = take_pairs (int_of_string n) rest [] in
    (Model.SrcCtor ({ Model.g_type = z_of_string ty; g_network = cs nw; g_address = cs ad; g_port = z_of_string port;
                      g_comp = z_of_string comp; g_prio = z_of_string prio; g_found = cs found; g_tcp = z_of_string tcp;
                      g_reladdr = cs ra; g_relport = z_of_string rp; g_relayproto = cs proto }, adds), rest)
  | _ -> failwith "bad source"

(* T <n> (tok ok is4 key)* *)
let parse_table toks =
  match toks with
  | "T" :: n :: rest ->
    let tbl = Hashtbl.create 16 in
    let rec go n toks =
      if n = 0 then (if toks <> [] then failwith "trailing tokens after table")
      else match toks with
        | t :: ok :: is4 :: key :: rest ->
          Hashtbl.replace tbl (unhex t)
            (if bool_of_tok ok then Some { Model.ip_is4 = bool_of_tok is4; ip_key = cs key } else None);
          go (n - 1) rest
        | _ -> failwith "short table" in
    go (int_of_string n) rest;
    (fun (s : Model.string) ->
       match Hashtbl.find_opt tbl (ocaml_string s) with
       | Some r -> r
       | None -> failwith ("address token not described by the harness: " ^ hex (ocaml_string s)))
  | _ -> failwith "missing table"

let getters_toks (g : Model.getters) =
  [hx g.Model.o_found; string_of_z g.Model.o_comp; string_of_z g.Model.o_net; string_of_z g.Model.o_prio;
   hx g.Model.o_addr; string_of_z g.Model.o_port; string_of_z g.Model.o_type]
  @ (match g.Model.o_rel with None -> ["0"; "x"; "0"] | Some (a, p) -> ["1"; hx a; string_of_z p])
  @ [string_of_z g.Model.o_tcp; string_of_int (List.length g.Model.o_exts)]
  @ List.concat_map (fun (k, v) -> [hx k; hx v]) g.Model.o_exts

let parse_getters toks =
  match toks with
  | f :: comp :: nt :: prio :: ad :: port :: ty :: hasrel :: ra :: rp :: tcp :: n :: rest ->
    let exts, rest = take_pairs (int_of_string n) rest [] in
    ({ Model.o_found = cs f; o_comp = z_of_string comp; o_net = z_of_string nt; o_prio = z_of_string prio;
       o_addr = cs ad; o_port = z_of_string port; o_type = z_of_string ty;
       o_rel = (if hasrel = "1" then Some (cs ra, z_of_string rp) else None);
       o_tcp = z_of_string tcp; o_exts = exts }, rest)
  | _ -> failwith "short getters"

let obs_toks = function
  | Model.RT_panic -> ["PANIC"]
  | Model.RT_err e -> ["ERR"; err_name e]
  | Model.RT_rerr (g, m, e) -> ("RERR" :: getters_toks g) @ [hx m; err_name e]
  | Model.RT_ok (g, m, g', f, m') ->
    ("OK" :: getters_toks g) @ [hx m] @ getters_toks g' @ List.map tok_of_bool f @ [hx m']

let parse_obs toks =
  match toks with
  | ["PANIC"] -> Model.RT_panic
  | ["ERR"; e] -> Model.RT_err (err_of_name e)
  | "RERR" :: rest ->
    let g, rest = parse_getters rest in
    (match rest with [m; e] -> Model.RT_rerr (g, cs m, err_of_name e) | _ -> failwith "bad RERR")
  | "OK" :: rest ->
    let g, rest = parse_getters rest in
    (match rest with
     | m :: rest ->
       let g', rest = parse_getters rest in
       (match rest with
        | [f0; f1; f2; f3; f4; f5; f6; f7; m'] ->
          Model.RT_ok (g, cs m, g', List.map bool_of_tok [f0; f1; f2; f3; f4; f5; f6; f7], cs m')
        | _ -> failwith "bad OK tail")
     | [] -> failwith "bad OK")
  | _ -> failwith "bad observation"

let handle case obs =
  match case with
  | "rt" :: rest ->
    let src, rest = parse_src rest in
    let pa = parse_table rest in
    let model = Model.rt_observe pa Model.crc32 src in
    let failed = match (try Some (parse_obs obs) with _ -> None) with
      | Some o -> names (Model.failed (Model.c16_rt_checks src o))
      | None -> ["malformed_observation"] in
    (obs_toks model, failed)
  | "pair" :: rest ->
    let a, rest = parse_src rest in
    let b, rest = parse_src rest in
    let pa = parse_table rest in
    let model = Model.pair_observe pa a b in
    let toks = match model with None -> ["NONE"] | Some f -> "P" :: List.map tok_of_bool f in
    let failed = match obs with
      | ["PANIC"] -> ["no_panic"]
      | ["NONE"] -> names (Model.failed (Model.c16_pair_checks None))
      | ["P"; a; b; c; d] -> names (Model.failed (Model.c16_pair_checks (Some (List.map bool_of_tok [a; b; c; d]))))
      | _ -> ["malformed_observation"] in
    (toks, failed)
  | _ -> failwith "unknown case"
let () = Driverlib.run handle
