(* driver for suite "gatherledger" (C09).
   case:  led V SITE DUP ; A pre acq steps a1 a2 ; ... ; T op ...
   obs:   P<phase> n<cands> open:calls ... ; P<phase> ...
   The case is turned into the model's script (Model.sev list): explicit generations for the
   attempts (the cycle's generation = number of Restarts before it started), a checkpoint where the
   harness takes one.  When a Close precedes the end of a server-reflexive attempt that is not
   blocked in its read, whether the loop-done watcher closes the socket is a race in the code
   (select over two ready channels): both model outcomes are accepted. *)
open Conv
let names l = List.map ocaml_string l

let rec groups acc cur = function
  | [] -> List.rev (List.rev cur :: acc)
  | ";" :: rest -> groups (List.rev cur :: acc) [] rest
  | t :: rest -> groups acc (t :: cur) rest
let groups l = groups [] [] l

let kind_of = function 0 -> Model.KHost | 1 -> Model.KTcpMux | 2 -> Model.KSrflx | _ -> Model.KRelay

type st = { mutable gen : int; mutable closed : bool; mutable restarted : bool; mutable key : int }

(* returns the script and the phases of its checkpoints; [watch] = insert EWatch after a Close
   that hits a srflx attempt past its read *)
let script_of site dup atts tail watch =
  let s = { gen = 0; closed = false; restarted = false; key = 1 } in
  let out = ref [] and phases = ref [] in
  let emit e = out := e :: !out in
  let rec act held c =
    match (if s.closed then 0 else c) with
    | 4 -> act held 1; act held 2
    | 1 -> s.gen <- s.gen + 1; s.restarted <- true; emit (Model.SEv Model.ERestart)
    | 2 -> if not s.closed then begin
        s.closed <- true; emit (Model.SEv Model.EClose);
        if watch && held && site = 2 then emit (Model.SEv Model.EWatch) end
    | 3 -> emit (Model.SEv Model.EFailed)
    | _ -> () in
  let attempt cycgen (pre, acq, steps, a1, a2) =
    let key = if dup then 0 else (s.key <- s.key + 1; s.key) in
    emit (Model.SAttemptGen (kind_of site, nat_of_int cycgen, nat_of_int key));
    act false pre;
    emit (Model.SEv (Model.EAcquire (acq = 1)));
    if acq = 1 then begin
      let ok = ref true in
      (match site with
       | 2 ->
         (match steps with
          | "1" -> act false a1; emit (Model.SEv (Model.EStep true))
          | "0" -> act false a1; emit (Model.SEv (Model.EStep false)); ok := false
          | _ -> (* "2": Close at the write; the watcher closes the socket and the read fails, or (the
                    loop's onClose cancels the gather context at the same time) the watcher
                    returns and the read times out *)
            act false a1; if watch then emit (Model.SEv Model.EWatch);
            emit (Model.SEv (Model.EStep false)); ok := false)
       | 3 ->
         act false a1;
         (* factory, Listen, Allocate, then (a2 fires when the agent asks the allocation for its address) the
            relayed address is accepted or refused; older 3-stage scripts get the accepting 4th stage *)
         let steps = if Stdlib.String.length steps = 3 && steps = "111" then "1111" else steps in
         Stdlib.String.iteri (fun i ch ->
             if !ok then begin
               if i = 3 then act true a2;
               (* '3' at the last stage: accepted like '1' (closing the allocation will report an error later,
                  which changes nothing about what must be released) *)
               let good = (ch = '1' || (i = 3 && ch = '3')) in
               emit (Model.SEv (Model.EStep good));
               if not good then ok := false end) steps
       | _ -> act false a1);
      if !ok then begin
        if site = 2 then act true a2;
        emit (Model.SEv Model.EAdd) end
    end in
  let cyc = s.gen in
  List.iter (attempt cyc) atts;
  if s.closed then emit (Model.SEv Model.ECloseDone);
  emit Model.SCheckpoint;
  phases := (if s.closed then 3 else if s.restarted then 2 else 1) :: !phases;
  List.iter (fun op ->
      if not s.closed then
        match op with
        | "R" -> s.gen <- s.gen + 1; emit (Model.SEv Model.ERestart); emit Model.SCheckpoint; phases := 2 :: !phases
        | "F" -> emit (Model.SEv Model.EFailed); emit Model.SCheckpoint; phases := 2 :: !phases
        | "G" ->
          let cyc = s.gen in
          List.iter (fun _ ->
              attempt cyc (0, 1, (match site with 2 -> "1" | 3 -> "1111" | _ -> "-"), 0, 0)) atts;
          emit Model.SCheckpoint; phases := 1 :: !phases
        | "C" -> s.closed <- true; emit (Model.SEv Model.EClose); emit (Model.SEv Model.ECloseDone);
          emit Model.SCheckpoint; phases := 3 :: !phases
        | _ -> failwith "bad tail op") tail;
  (List.rev !out, List.rev !phases)

let render phases cps =
  let one (ph, (rs, nc)) =
    ["P" ^ string_of_int ph; "n" ^ string_of_z nc]
    @ List.map (fun (o, c) -> string_of_z o ^ ":" ^ string_of_z c) rs in
  let rec join = function [] -> [] | [x] -> x | x :: t -> x @ [";"] @ join t in
  join (List.map one (List.combine phases cps))

let parse_obs obs =
  List.map (fun g ->
      match g with
      | ph :: nc :: rs when Stdlib.String.length ph = 2 && ph.[0] = 'P' && nc.[0] = 'n' ->
        let phase = int_of_string (Stdlib.String.sub ph 1 1) in
        let nc = z_of_string (Stdlib.String.sub nc 1 (Stdlib.String.length nc - 1)) in
        let rs = List.map (fun t -> match Stdlib.String.split_on_char ':' t with
            | [o; c] -> (z_of_string o, z_of_string c) | _ -> failwith "bad resource token") rs in
        (z_of_int phase, (rs, nc))
      | _ -> failwith "bad checkpoint") (groups obs)

let handle case obs =
  match groups case with
  | ["led"; v; site; dup] :: rest ->
    let site = int_of_string site and dup = (dup = "1") in
    let atts = List.filter_map (function
        | ["A"; pre; acq; steps; a1; a2] ->
          Some (int_of_string pre, int_of_string acq, steps, int_of_string a1, int_of_string a2)
        | _ -> None) rest in
    let tail = List.concat (List.filter_map (function "T" :: ops -> Some ops | _ -> None) rest) in
    let variant = { Model.v_srflx_close = (v.[0] = '1'); v_recheck = (v.[1] = '1') } in
    let model watch =
      let (sc, phases) = script_of site dup atts tail watch in
      match Model.run_script variant Model.led_init sc [] with
      | Some cps -> render phases cps
      | None -> ["MODEL-STUCK"] in
    (* concurrent attempts (two server-reflexive gatherers): tallies compared as multisets *)
    let canon toks =
      if site = 2 && List.length atts > 1 then
        List.concat (List.map (fun g -> match g with
            | ph :: nc :: rs -> (ph :: nc :: List.sort compare rs) @ [";"]
            | g -> g @ [";"]) (groups toks))
      else toks in
    (* Close: abortStartedCandidateIO (on the caller's goroutine) and the loop's onClose
       (removeUfragFromMux) run concurrently, so a TCP-mux connection that was still open gets one
       or two Close calls: at a phase-3 checkpoint "0:2" of a resource that was open at the previous
       checkpoint is read as "0:1" on both sides *)
    let canon toks =
      if site <> 1 then canon toks else
        let gs = groups toks in
        let rec go prev = function
          | [] -> []
          | g :: rest ->
            let g' = match g with
              | "P3" :: nc :: rs ->
                let prs = match prev with Some (_ :: _ :: prs) -> prs | _ -> [] in
                "P3" :: nc :: List.mapi (fun i r ->
                    let was_open = (i >= List.length prs) || (List.nth prs i = "1:0") in
                    if r = "0:2" && was_open then "0:1" else r) rs
              | g -> g in
            (g' @ [";"]) :: go (Some g) rest in
        List.concat (go None gs) in
    let m1 = model false in
    let m2 = model true in
    let co = canon obs in
    let model_toks = if canon m1 = co || canon m2 = co then obs else m1 in
    let per_cand = z_of_int (if site = 3 then 3 else 1) in
    let failed =
      (try names (Model.failed (Model.c09_checks per_cand (parse_obs obs)))
       with _ -> ["malformed_observation"]) in
    (model_toks, List.sort_uniq compare failed)
  | _ -> failwith "unknown case"
let () = Driverlib.run handle
