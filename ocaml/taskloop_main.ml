(* driver for suite "taskloop" (C10): the observation is the stamped event log of one scenario
   on the real taskloop.Loop.  Model result = the log itself when the extracted acceptor finds a
   model run with this observable projection, UNEXPLAINED otherwise; the extracted monitor
   C10_checks decides the property on the log. *)
open Conv
let names l = List.map ocaml_string l
let num s from = nat_of_int (int_of_string (Stdlib.String.sub s from (Stdlib.String.length s - from)))
let starts s p = Stdlib.String.length s >= Stdlib.String.length p && Stdlib.String.sub s 0 (Stdlib.String.length p) = p
let event_of_tok (t : Stdlib.String.t) : Model.event =
  let n = Stdlib.String.length t in
  if t = "OS" then Model.EOnCloseStart
  else if t = "OE" then Model.EOnCloseEnd
  else if starts t "KC" then
    let pre = (match t.[n - 1] with 'p' -> true | 'n' -> false | _ -> failwith ("bad token " ^ t)) in
    Model.ECloseCall (nat_of_int (int_of_string (Stdlib.String.sub t 2 (n - 3))), pre)
  else if starts t "KR" then Model.ECloseRet (num t 2)
  else if starts t "PS" then Model.EPreStart (num t 2)
  else if starts t "PE" then Model.EPreEnd (num t 2)
  else if starts t "Ro" then Model.ERet (num t 2, Model.ROk)
  else if starts t "Rx" then Model.ERet (num t 2, Model.RCtx)
  else if starts t "Rc" then Model.ERet (num t 2, Model.RClosed)
  else if starts t "C" then Model.ECall (num t 1)
  else if starts t "X" then Model.ECancel (num t 1)
  else if starts t "S" then Model.EStart (num t 1)
  else if starts t "E" then Model.EEnd (num t 1)
  else failwith ("bad token " ^ t)

let rec uniq = function [] -> [] | x :: l -> x :: uniq (List.filter (fun y -> y <> x) l)

let handle case obs =
  match case with
  | "tl" :: _ ->
    if obs = ["TIMEOUT"] then (["-"], ["terminates"])
    else if List.mem "PANIC" obs then (["-"], ["no_panic"]) else begin
      let evs = List.map event_of_tok obs in
      let sids = uniq (List.concat_map (function Model.ECall i -> [i] | Model.ECancel i -> [i] | _ -> []) evs) in
      let cids = uniq (List.concat_map (function Model.ECloseCall (k, _) -> [k] | _ -> []) evs) in
      let failed = names (Model.failed (Model.c10_checks evs)) in
      let model = if Model.explains sids cids evs then obs else ["UNEXPLAINED"] in
      (model, failed)
    end
  | ["api"; name] ->
    let name = unhex name in
    (match Model.api_lookup (coq_string "Agent") (coq_string name) with
     | None -> failwith ("method not in the generated table: " ^ name)
     | Some r ->
       (match obs with
        | ["TIMEOUT"] -> (["-"], ["terminates"])
        | [ret; chg] ->
          let failed = names (Model.failed (Model.c10_api_checks r (bool_of_tok ret) (bool_of_tok chg))) in
          ([tok_of_bool (Model.api_predict_returns r); chg], failed)
        | _ -> (["-"], ["malformed_observation"])))
  | ["apienv"] -> (["OK"], [])
  | _ -> failwith "unknown case"
let () = Driverlib.run handle
