(* driver for suite "taskloop" (C10): the observation is the stamped event log of one scenario
   on the real taskloop.Loop.  Model result = the log itself when the extracted acceptor finds a
   model run with this observable projection, UNEXPLAINED otherwise; the extracted monitor
   C10_checks decides the property on the log. *)
open Conv
let names l = List.map ocaml_string l
let num s from = nat_of_int (int_of_string (Stdlib.String.sub s from (Stdlib.String.length s - from)))
let starts s p = Stdlib.String.length s >= Stdlib.String.length p && Stdlib.String.sub s 0 (Stdlib.String.length p) = p
let event_of_tok (t : Stdlib.String.t) : Model.event =
  let n = Stdlib.String.length t in
  if t = "OS" then Model.EOnCloseStart
  else if t = "OE" then Model.EOnCloseEnd
  else if starts t "KC" then
    let pre = (match t.[n - 1] with 'p' -> true | 'n' -> false | _ -> failwith ("bad token " ^ t)) in
    Model.ECloseCall (nat_of_int (int_of_string (Stdlib.String.sub t 2 (n - 3))), pre)
  else if starts t "KR" then Model.ECloseRet (num t 2)
  else if starts t "PS" then Model.EPreStart (num t 2)
  else if starts t "PE" then Model.EPreEnd (num t 2)
  else if starts t "Ro" then Model.ERet (num t 2, Model.ROk)
  else if starts t "Rx" then Model.ERet (num t 2, Model.RCtx)
  else if starts t "Rc" then Model.ERet (num t 2, Model.RClosed)
  else if starts t "C" then Model.ECall (num t 1)
  else if starts t "X" then Model.ECancel (num t 1)
  else if starts t "S" then Model.EStart (num t 1)
  else if starts t "E" then Model.EEnd (num t 1)
  else failwith ("bad token " ^ t)

let rec uniq = function [] -> [] | x :: l -> x :: uniq (List.filter (fun y -> y <> x) l)

let handle case obs =
  match case with
  | "tl" :: _ ->
    if obs = ["TIMEOUT"] then (["-"], ["terminates"])
    else if List.mem "PANIC" obs then (["-"], ["no_panic"]) else begin
      let evs = List.map event_of_tok obs in
      let sids = uniq (List.concat_map (function Model.ECall i -> [i] | Model.ECancel i -> [i] | _ -> []) evs) in
      let cids = uniq (List.concat_map (function Model.ECloseCall (k, _) -> [k] | _ -> []) evs) in
      let failed = names (Model.failed (Model.c10_checks evs)) in
      let model = if Model.explains sids cids evs then obs else ["UNEXPLAINED"] in
      (model, failed)
    end
  | ["api"; name] ->
    let name = unhex name in
    (match Model.api_lookup (coq_string "Agent") (coq_string name) with
     | None -> failwith ("method not in the generated table: " ^ name)
     | Some r ->
       (match obs with
        | ["TIMEOUT"] -> (["-"], ["terminates"])
        | [ret; chg] ->
          let failed = names (Model.failed (Model.c10_api_checks r (bool_of_tok ret) (bool_of_tok chg))) in
          ([tok_of_bool (Model.api_predict_returns r); chg], failed)
        | _ -> (["-"], ["malformed_observation"])))
  | ["api2"; _mode; o1; o2] ->
    let op_of t =
      let c () = nat_of_int (int_of_string (Stdlib.String.sub t 2 (Stdlib.String.length t - 2))) in
      match Stdlib.String.sub t 0 2 with
      | "SD" | "DI" -> Model.AStart (true, c ())
      | "SA" | "AC" -> Model.AStart (false, c ())
      | "RS" -> Model.ARestart (c ())
      | "SR" -> Model.ASetRemote (c ())
      | "AR" -> Model.AAddRemote
      | "CL" | "GC" -> Model.AClose
      | "GR" -> Model.AGetRemote
      | "GL" -> Model.AGetLocal
      | _ -> failwith ("bad op " ^ t) in
    let res_of t =
      if t = "ok" then Model.AOk else if t = "multi" then Model.AMulti else if t = "closed" then Model.AClosed
      else if Stdlib.String.length t > 1 && t.[0] = 'c' then
        Model.ACred (nat_of_int (int_of_string (Stdlib.String.sub t 1 (Stdlib.String.length t - 1))))
      else Model.AOther in
    let tok_of = function
      | Model.AOk -> "ok" | Model.AMulti -> "multi" | Model.AClosed -> "closed"
      | Model.ACred c -> "c" ^ string_of_int (int_of_nat c) | Model.AOther -> "err" in
    let a1 = op_of o1 and a2 = op_of o2 in
    (match obs with
     | ["TIMEOUT"] -> (["-"], ["terminates"])
     | [r1; r2; rc; lc; cs] ->
       if r1 = "PANIC" || r2 = "PANIC" then (["-"], ["no_panic"]) else begin
         let failed = names (Model.failed (Model.c10_api2_checks a1 a2 (res_of r1) (res_of r2)
                                             (nat_of_int (int_of_string rc)) (nat_of_int (int_of_string lc))
                                             (nat_of_int (int_of_string cs)))) in
         (* the outcome depends on which call is served first: the model side echoes the observation
            when some serial order explains it, and shows the first serial outcome otherwise *)
         if failed = [] then (obs, [])
         else begin
           let ((x1, x2), _) = Model.api2_outcomes a1 a2 in
           ([tok_of x1; tok_of x2; "?"; "?"; "?"], failed)
         end
       end
     | _ -> (["-"], ["malformed_observation"]))
  | ["apienv"] -> (["OK"], [])
  | _ -> failwith "unknown case"
let () = Driverlib.run handle
