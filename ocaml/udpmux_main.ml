(* driver for suite "udpmux" (C12): folds the extracted step function over one history per line,
   prints result + snapshot per operation in the harness's format, and evaluates the extracted
   monitor C12_checks on the IMPLEMENTATION's observations. *)
open Conv
module S = Stdlib.String
module L = Stdlib.List

let split_on c s = S.split_on_char c s
let nat i = nat_of_int i
let int n = int_of_nat n

(* ---- addresses ---- *)
let addr_of_tok t : Model.addr =
  match split_on '-' t with
  | [i6; ip; z; p] -> { Model.a_is6 = bool_of_tok i6; a_ip = n_of_string ip; a_zone = n_of_string z; a_port = n_of_string p }
  | _ -> failwith ("bad addr token " ^ t)
let tok_of_addr (a : Model.addr) =
  Printf.sprintf "%s-%s-%s-%s" (tok_of_bool a.Model.a_is6) (string_of_n a.Model.a_ip) (string_of_n a.Model.a_zone) (string_of_n a.Model.a_port)

(* ---- ops ---- *)
let op_of_toks (t : S.t list) : Model.op =
  match t with
  | ["G"; u; is6; ok] -> Model.OGetConn (coq_string (unhex u), bool_of_tok is6, bool_of_tok ok)
  | ["W"; h; _via; "A"; a; len] -> Model.OWrite (nat (int_of_string h), Model.WAddr (addr_of_tok a), n_of_string len)
  | ["W"; h; _via; "P"; len] -> Model.OWrite (nat (int_of_string h), Model.WBadPort, n_of_string len)
  | ["W"; h; _via; "I"; len] -> Model.OWrite (nat (int_of_string h), Model.WBadIP, n_of_string len)
  | ["W"; h; _via; "N"; len] -> Model.OWrite (nat (int_of_string h), Model.WNotUDP, n_of_string len)
  | ["I"; a; k; un; b] ->
    let kind = match k with
      | "R" -> Model.KRaw | "U" -> Model.KStunUser (coq_string (unhex un))
      | "N" -> Model.KStunNoUser | "B" -> Model.KStunBad | _ -> failwith "bad payload kind" in
    Model.OInbound (addr_of_tok a, kind, coq_string (unhex b))
  | ["E"; k] -> Model.OInErr (k <> "0")
  | ["X"; u] -> Model.ORemove (coq_string (unhex u))
  | ["C"; h] -> Model.OCloseH (nat (int_of_string h))
  | ["M"] -> Model.OCloseMux
  | ["R"; h; bl; _via] -> Model.ORead (nat (int_of_string h), n_of_string bl)
  | _ -> failwith ("bad op: " ^ S.concat " " t)

(* ---- results ---- *)
let tok_of_res (r : Model.res) =
  match r with
  | Model.RNone -> "-"
  | Model.RHandle (h, c) -> Printf.sprintf "H%dc%d" (int h) (int c)
  | Model.RErrInvalidAddress -> "EINVADDR"
  | Model.RErrClosedPipe -> "ECLOSED"
  | Model.RErrPort -> "EPORT"
  | Model.RErrInvalidIP -> "EIP"
  | Model.RErrCast -> "ECAST"
  | Model.RWrote n -> "N" ^ string_of_n n
  | Model.RWriteErr -> "WERR"
  | Model.RData (b, a) -> "D" ^ hex (ocaml_string b) ^ "@" ^ tok_of_addr a
  | Model.RTimeout -> "TIMEOUT"
  | Model.REOF -> "EOF"
  | Model.RShort -> "SHORT"
  | Model.RBadHandle -> "BADH"

(* None = a token the model's alphabet does not have (panic, unknown error, sync timeout) *)
let res_of_tok (t : S.t) : Model.res option =
  let n = S.length t in
  match t with
  | "-" -> Some Model.RNone
  | "EINVADDR" -> Some Model.RErrInvalidAddress
  | "ECLOSED" -> Some Model.RErrClosedPipe
  | "EPORT" -> Some Model.RErrPort
  | "EIP" -> Some Model.RErrInvalidIP
  | "ECAST" -> Some Model.RErrCast
  | "WERR" -> Some Model.RWriteErr
  | "TIMEOUT" -> Some Model.RTimeout
  | "EOF" -> Some Model.REOF
  | "SHORT" -> Some Model.RShort
  | "BADH" -> Some Model.RBadHandle
  | _ when S.contains t '!' -> None
  | _ when n > 1 && t.[0] = 'H' && S.contains t 'c' ->
    (match split_on 'c' (S.sub t 1 (n - 1)) with
     | [h; c] -> (try Some (Model.RHandle (nat (int_of_string h), nat (int_of_string c))) with _ -> None)
     | _ -> None)
  | _ when n > 1 && t.[0] = 'N' && t <> "NOUNDERLYING" && t <> "NOADDRPORT" ->
    (try Some (Model.RWrote (n_of_string (S.sub t 1 (n - 1)))) with _ -> None)
  | _ when n > 1 && t.[0] = 'D' ->
    (match split_on '@' (S.sub t 1 (n - 1)) with
     | [b; a] -> (try Some (Model.RData (coq_string (unhex b), addr_of_tok a)) with _ -> None)
     | _ -> None)
  | _ -> None

(* ---- snapshots ---- *)
let tok_of_snap (s : Model.snap) =
  let ent f l = S.concat "," (L.sort compare (L.map f l)) in
  let u (k, c) = hex (ocaml_string k) ^ "=" ^ string_of_int (int c) in
  let a (k, c) = tok_of_addr k ^ "=" ^ string_of_int (int c) in
  let c (cs : Model.csnap) =
    tok_of_bool cs.Model.cs_closed ^ "_" ^ string_of_int (int cs.Model.cs_qlen) ^ "_"
    ^ S.concat "+" (L.map tok_of_addr cs.Model.cs_addrs) in
  "S" ^ tok_of_bool s.Model.sn_mclosed ^ "/4:" ^ ent u s.Model.sn_m4 ^ "/6:" ^ ent u s.Model.sn_m6
  ^ "/A:" ^ ent a s.Model.sn_amap ^ "/C:" ^ S.concat "," (L.map c s.Model.sn_conns)

let nonempty l = L.filter (fun x -> x <> "") l

let snap_of_tok (t : S.t) : Model.snap =
  match split_on '/' t with
  | [s0; s4; s6; sa; sc] when S.length s0 = 2 && s0.[0] = 'S' ->
    let body p s = if S.length s >= 2 && S.sub s 0 2 = p then S.sub s 2 (S.length s - 2) else failwith "bad snapshot" in
    let kv f e = match split_on '=' e with
      | [k; c] -> (f k, nat (int_of_string c))   (* "?" (unknown connection) fails here: reported as ERROR *)
      | _ -> failwith "bad snapshot entry" in
    let conn e = match split_on '_' e with
      | [cl; q; ads] -> { Model.cs_closed = bool_of_tok cl; cs_qlen = nat (int_of_string q);
                          cs_addrs = L.map addr_of_tok (nonempty (split_on '+' ads)) }
      | _ -> failwith "bad snapshot conn" in
    { Model.sn_mclosed = (s0.[1] = '1');
      sn_m4 = L.map (kv (fun k -> coq_string (unhex k))) (nonempty (split_on ',' (body "4:" s4)));
      sn_m6 = L.map (kv (fun k -> coq_string (unhex k))) (nonempty (split_on ',' (body "6:" s6)));
      sn_amap = L.map (kv addr_of_tok) (nonempty (split_on ',' (body "A:" sa)));
      sn_conns = (let b = body "C:" sc in if b = "" then [] else L.map conn (split_on ',' b)) }
  | _ -> failwith ("bad snapshot token " ^ t)

(* ---- grouping by ";" ---- *)
let groups (toks : S.t list) : S.t list list =
  let rec go cur acc = function
    | [] -> L.rev (if cur = [] then acc else L.rev cur :: acc)
    | ";" :: r -> go [] (if cur = [] then acc else L.rev cur :: acc) r
    | t :: r -> go (t :: cur) acc r in
  go [] [] toks

let names l = L.map ocaml_string l

let handle case obs =
  match case with
  | "cfg" :: unspec :: rc :: _flavour :: _local6 :: rest ->
    let cf = { Model.unspec = bool_of_tok unspec; remove_closes = bool_of_tok rc } in
    let ops = L.map op_of_toks (groups rest) in
    (* the model's run *)
    let _, out =
      L.fold_left (fun (s, acc) o ->
          let s', r = Model.step cf s o in
          (s', (tok_of_res r ^ " " ^ tok_of_snap (Model.snap_of s')) :: acc))
        (Model.init, []) ops in
    let model = S.split_on_char ' ' (S.concat " ; " (L.rev out)) in
    let model = if ops = [] then [] else model in
    (* the monitor on the implementation's observations *)
    let og = groups obs in
    let failed =
      if L.length og <> L.length ops then ["malformed_observation"]
      else begin
        let anomalies = ref [] in
        let l = L.map2 (fun o g ->
            match g with
            | [r; sn] ->
              let res = match res_of_tok r with
                | Some x -> x
                | None -> anomalies := "implementation_anomaly" :: !anomalies; Model.RNone in
              ((o, res), snap_of_tok sn)
            | _ -> failwith "bad observation group") ops og in
        let f = names (Model.failed (Model.c12_checks l)) in
        L.sort_uniq compare (f @ !anomalies)
      end in
    (model, failed)
  | ["race"; _trials; _writes; _spin] ->
    (* concurrent WriteTo x RemoveConnByUfrag on the implementation; no sequential model run:
       the expected observation is "no stale binding" *)
    let failed = match obs with
      | [stale] -> names (Model.failed (Model.c12_race_checks (n_of_string stale)))
      | _ -> ["malformed_observation"] in
    (["0"], failed)
  | _ -> failwith "unknown case"

let () = Driverlib.run handle
