(* driver for suite "sharedconn" (C13)
   case : <mode> ap<0|1> pt<seed>,<level> <op> ...     op = new | close:h | pclose:h,.. | pclosew:h,..:w,.. | write:h | dl:h:d | rstart:h | rpoll:h | deliver
   obs  : one token per operation (numbers separated by commas)
   The extracted sequential model is folded over the operations; tokens are compared after the
   projection described below; the extracted monitor judges the raw observation. *)
open Conv
let names l = List.map ocaml_string l
let ints s =
  List.filter_map (fun f -> if f = "" || f = "-" then None else Some (int_of_string f)) (Stdlib.String.split_on_char ',' s)
let nats s = List.map nat_of_int (ints s)
let big = nat_of_int 1000

let op_of mode t =
  match Stdlib.String.split_on_char ':' t with
  | ["new"] -> Model.ONew
  | ["close"; h] -> (match nats h with x :: _ -> Model.OClose x | [] -> Model.OClose big)
  | ["pclose"; hs] -> Model.OPClose (nats hs)
  | ["pclosew"; hs; ws] -> Model.OPCloseW (nats hs, if mode = "tcp" then [] else nats ws)
  | ["write"; h] -> if mode = "tcp" then Model.ORPoll big else (match nats h with x :: _ -> Model.OWrite x | [] -> Model.OWrite big)
  | ["dl"; h; d] -> (match nats h, nats d with x :: _, y :: _ -> Model.ODeadline (x, y) | _ -> Model.ODeadline (big, big))
  | ["rstart"; h] -> (match nats h with x :: _ -> Model.ORStart x | [] -> Model.ORStart big)
  | ["rpoll"; h] -> (match nats h with x :: _ -> Model.ORPoll x | [] -> Model.ORPoll big)
  | ["deliver"] -> if mode = "wrap" then Model.ODeliver else Model.ORPoll big
  | _ -> failwith ("unknown op " ^ t)

(* projection used for the comparison only: udp/tcp observe the closed FLAG of the underlying
   (not the number of Close calls); a read that fails on a closed handle may report either
   io.ErrClosedPipe or io.EOF when the underlying is closed at the same moment *)
let project mode op (l : int list) =
  let flag c = if mode = "wrap" then c else min c 1 in
  match op, l with
  | Model.ONew, [i; c] -> [i; flag c]
  | (Model.OClose _ | Model.OPClose _), [e; c] -> [e; flag c]
  | Model.OPCloseW _, [e; c; f] -> [e; flag c; f]
  | Model.ORPoll _, [3] -> [2]
  | Model.ORPoll _, [7] -> [7]
  | _, l -> l

let handle case obs =
  match case with
  | mode :: _ap :: _pt :: optoks ->
    let ops = List.map (op_of mode) optoks in
    let impl = List.map (fun t -> if t = "err" then [99] else ints t) obs in
    let model = List.map (fun l -> List.map (fun z -> int_of_z z) l) (Model.sc_run Model.finit ops) in
    let failed = names (Model.failed (Model.c13_sc_checks ops (List.map (fun l -> List.map z_of_int l) impl))) in
    let tok l = Stdlib.String.concat "," (List.map string_of_int l) in
    let rec cmp ops model impl obs =
      match ops, model, impl, obs with
      | o :: ops', m :: model', i :: impl', t :: obs' ->
        (if project mode o m = project mode o i || (m = [7] && (match i with [1; _] | [2] | [3] -> true | _ -> false)) then t else tok m) :: cmp ops' model' impl' obs'
      | _, m :: model', _, _ -> tok m :: cmp [] model' [] []
      | _, [], _, _ -> [] in
    (cmp ops model impl obs, failed)
  | _ -> (["malformed"], ["malformed_observation"])
let () = Driverlib.run handle
