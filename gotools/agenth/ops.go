package agenth

import (
	"bytes"
	"errors"
	"fmt"
	"math/big"
	"net"
	"runtime"
	"sort"
	"time"

	ice "github.com/pion/ice/v4"
)

// Op is one harness operation.
type Op struct {
	Kind    string // AL AR ST SC AV TK IS ID WR WP RD RS RN CL
	Cand    Cand
	Ctl     bool
	A, B    int // credential tokens / handles
	D       time.Duration
	LH      int
	Src     Addr
	Msg     Msg
	Payload Payload
	PairID  uint64
	V       uint32
}

// Grid is the granularity of virtual time and of every configured threshold.
const Grid = 100 * time.Millisecond

func retCode(err error) string {
	switch {
	case err == nil:
		return "ok"
	case errors.Is(err, ice.ErrMultipleStart):
		return "multiple_start"
	case errors.Is(err, ice.ErrRemoteUfragEmpty), errors.Is(err, ice.ErrRemotePwdEmpty):
		return "empty_creds"
	case errors.Is(err, ice.ErrNoCandidatePairs):
		return "no_pairs"
	case errors.Is(err, ice.ErrCandidatePairNotFound):
		return "pair_not_found"
	case errors.Is(err, ice.ErrCandidatePairNotSucceeded):
		return "pair_not_succeeded"
	case errors.Is(err, ice.ErrOnlyControllingAgentCanRenominate):
		return "not_controlling"
	case errors.Is(err, ice.ErrRenominationNotEnabled):
		return "renomination_off"
	case err.Error() == "the agent is closed":
		return "closed"
	case err.Error() == "failed to write STUN message to ICE connection":
		return "stun_payload"
	}
	return "err:" + fmt.Sprintf("%q", err.Error())
}

func (s *Sim) waitIdle() {
	deadline := time.Now().Add(5 * time.Second)
	for !ice.VerifNotifiersIdle(s.A) {
		if time.Now().After(deadline) {
			return
		}
		runtime.Gosched()
		time.Sleep(20 * time.Microsecond)
	}
}

// Do performs one operation on the real agent and returns (case tokens, observation tokens).
func (s *Sim) Do(o Op) (caseT []string, obsT []string) {
	var rets []string
	var delivered []Payload
	s.mu.Lock()
	s.wires, s.states, s.selected, s.cands = nil, nil, nil, nil
	s.dupClosed = nil
	s.mu.Unlock()
	before := map[int]int{}
	for k, v := range s.closedConns {
		before[k] = v
	}
	// Keep the virtual clock exact although real time passes: the gap since the previous operation ended
	// is cancelled for every stored timestamp, and the previous operation's own duration for those that
	// already existed when it began.  What remains per timestamp is at most the duration of the operation
	// that set it plus that of the one reading it (tracked in MaxOp).
	if !s.lastEnd.IsZero() {
		now := time.Now()
		if gap := now.Sub(s.lastEnd); gap > 0 {
			_ = ice.VerifAdvanceBefore(s.A, -gap, time.Time{})
		}
		if d := s.lastEnd.Sub(s.lastStart); d > 0 {
			// those timestamps were just moved by gap: compare against the moved start of the previous operation
			_ = ice.VerifAdvanceBefore(s.A, -d, s.lastStart.Add(now.Sub(s.lastEnd)))
		}
	}
	opStart := time.Now()
	defer func() {
		s.lastStart, s.lastEnd = opStart, time.Now()
		if d := s.lastEnd.Sub(opStart); d > s.MaxOp && o.Kind != "CL" && !s.closedNow() {
			s.MaxOp = d
			s.SlowOp = o.Kind
		}
	}()
	switch o.Kind {
	case "AL":
		c, err := MakeCandidate(o.Cand)
		if err != nil {
			panic(err)
		}
		fc := &fakeConn{sim: s, lh: o.Cand.H, closed: make(chan struct{}),
			local: &net.UDPAddr{IP: o.Cand.Addr.NetIP().AsSlice(), Port: o.Cand.Addr.Port}}
		err = ice.VerifAddLocal(s.A, c, fc)
		s.mu.Lock()
		dup := s.closedConns[o.Cand.H] > before[o.Cand.H]
		s.mu.Unlock()
		if err == nil && !dup {
			s.locals[o.Cand.H] = c
			s.localH[c.ID()] = o.Cand.H
			s.conns[o.Cand.H] = fc
		}
		if err != nil {
			rets = append(rets, retCode(err))
		} else if dup {
			rets = append(rets, "duplicate")
		} else {
			rets = append(rets, "ok")
		}
		caseT = append([]string{"AL"}, CandToks(o.Cand.H, c)...)
	case "AR":
		c, err := MakeCandidate(o.Cand)
		if err != nil {
			panic(err)
		}
		acc, err := ice.VerifAddRemote(s.A, c)
		if err != nil {
			rets = append(rets, retCode(err))
		} else if acc {
			rets = append(rets, "ok")
			s.remotes[o.Cand.H] = c
		} else {
			rets = append(rets, "ignored")
		}
		caseT = append([]string{"AR"}, CandToks(o.Cand.H, c)...)
	case "ST":
		var err error
		var conn *ice.Conn
		if o.Ctl {
			conn, err = s.A.StartDial(Ufrag(o.A), Pwd(o.B))
		} else {
			conn, err = s.A.StartAccept(Ufrag(o.A), Pwd(o.B))
		}
		_ = conn
		if err == nil {
			// the timer goroutine hands its closure to the harness and ends; wait for that
			deadline := time.Now().Add(5 * time.Second)
			for !ice.VerifTickReady(s.A) && time.Now().Before(deadline) {
				time.Sleep(50 * time.Microsecond)
			}
		}
		s.pwds[o.B], s.ufrags[o.A] = true, true
		rets = append(rets, retCode(err))
		caseT = []string{"ST", b2s(o.Ctl), fmt.Sprint(o.A), fmt.Sprint(o.B)}
	case "SC":
		err := s.A.SetRemoteCredentials(Ufrag(o.A), Pwd(o.B))
		s.pwds[o.B], s.ufrags[o.A] = true, true
		rets = append(rets, retCode(err))
		caseT = []string{"SC", fmt.Sprint(o.A), fmt.Sprint(o.B)}
	case "AV":
		_ = ice.VerifAdvance(s.A, o.D)
		caseT = []string{"AV", fmt.Sprint(int64(o.D))}
	case "TK":
		ice.VerifTick(s.A)
		caseT = []string{"TK"}
	case "IS":
		if l, ok := s.locals[o.LH]; ok {
			ice.VerifInbound(l, s.Build(o.Msg), o.Src.AddrPort())
		} else if l, ok := s.retired[o.LH]; ok && !s.closed {
			// a datagram read from a socket the agent has released meanwhile: its task was already queued
			ice.VerifInboundInFlight(s.A, l, s.Build(o.Msg), o.Src.AddrPort())
		}
		caseT = append(append([]string{"IS", fmt.Sprint(o.LH)}, o.Src.Toks()...), o.Msg.Toks()...)
	case "ID":
		if l, ok := s.locals[o.LH]; ok {
			b := o.Payload.Bytes()
			s.payloads[string(b)] = o.Payload
			ice.VerifInbound(l, b, o.Src.AddrPort())
		}
		caseT = append(append([]string{"ID", fmt.Sprint(o.LH)}, o.Src.Toks()...), o.Payload.Toks()...)
	case "WR":
		b := o.Payload.Bytes()
		s.payloads[string(b)] = o.Payload
		conn := s.conn()
		n, err := conn.Write(b)
		if err == nil && n != len(b) && !(o.Payload.ID == RefusedPayloadID && n == 0) {
			rets = append(rets, fmt.Sprintf("short_write_%d", n))
		} else {
			rets = append(rets, retCode(err))
		}
		caseT = append([]string{"WR"}, o.Payload.Toks()...)
	case "WP":
		b := o.Payload.Bytes()
		s.payloads[string(b)] = o.Payload
		conn := s.conn()
		n, err := conn.WriteToPair(o.PairID, b)
		if err == nil && n != len(b) && !(o.Payload.ID == RefusedPayloadID && n == 0) {
			rets = append(rets, fmt.Sprintf("short_write_%d", n))
		} else {
			rets = append(rets, retCode(err))
		}
		caseT = append([]string{"WP", fmt.Sprint(o.PairID)}, o.Payload.Toks()...)
	case "RD":
		conn := s.conn()
		buf := make([]byte, 70000)
		// never block: with data queued the read returns it at once (a generous deadline, so that a loaded machine
		// cannot turn it into a timeout); with nothing queued it times out immediately
		if ice.VerifBufferedPackets(s.A) > 0 {
			_ = conn.SetReadDeadline(time.Now().Add(5 * time.Second))
		} else {
			_ = conn.SetReadDeadline(time.Now().Add(150 * time.Microsecond))
		}
		n, err := conn.Read(buf)
		_ = conn.SetReadDeadline(time.Time{})
		switch {
		case err == nil:
			if p, ok := s.payloads[string(buf[:n])]; ok {
				delivered = append(delivered, p)
			} else {
				delivered = append(delivered, Payload{ID: -1, Len: n, Stun: false})
			}
		case retCode(err) == "closed":
			rets = append(rets, "closed")
		default:
			var ne net.Error
			if errors.As(err, &ne) && ne.Timeout() {
				rets = append(rets, "would_block")
			} else {
				rets = append(rets, retCode(err))
			}
		}
		caseT = []string{"RD"}
	case "RS":
		err := s.A.Restart(Ufrag(o.A), Pwd(o.B))
		if err == nil {
			for h, c := range s.locals {
				s.retire(h, c)
				delete(s.locals, h)
			}
			for h := range s.remotes {
				delete(s.remotes, h)
			}
		}
		s.pwds[o.B], s.ufrags[o.A] = true, true
		rets = append(rets, retCode(err))
		caseT = []string{"RS", fmt.Sprint(o.A), fmt.Sprint(o.B)}
	case "RN":
		l, lok := s.locals[o.A]
		r, rok := s.remotes[o.B]
		s.nomValue = o.V
		var err error
		if !lok || !rok {
			// unknown handles: a pair that cannot exist
			l, _ = MakeCandidate(Cand{H: 0, Typ: 1, Net: 1, Addr: V4(203, 0, 113, 250, 9), Comp: 1})
			r = l
		}
		err = s.A.RenominateCandidate(l, r)
		rets = append(rets, retCode(err))
		caseT = append(append(append([]string{"RN"}, CandToks(o.A, l)...), CandToks(o.B, r)...), fmt.Sprint(o.V))
	case "CL":
		s.closed = true
		err := s.A.Close()
		rets = append(rets, retCode(err))
		caseT = []string{"CL"}
	default:
		panic("unknown op " + o.Kind)
	}
	s.waitIdle()
	if o.Kind == "CL" {
		time.Sleep(200 * time.Microsecond)
	}
	obsT = s.observe(o, rets, delivered, before)
	return caseT, obsT
}

func (s *Sim) conn() *ice.Conn {
	if s.Conn == nil {
		s.Conn = ice.VerifConn(s.A)
	}
	return s.Conn
}

func (s *Sim) observe(o Op, rets []string, delivered []Payload, before map[int]int) []string {
	s.mu.Lock()
	wires := append([]wire(nil), s.wires...)
	states := append([]ice.ConnectionState(nil), s.states...)
	selected := append([][2]ice.Candidate(nil), s.selected...)
	cands := append([]ice.Candidate(nil), s.cands...)
	var newlyClosed []int
	for h, n := range s.closedConns {
		if n > before[h] {
			newlyClosed = append(newlyClosed, h)
		}
	}
	s.mu.Unlock()
	sort.Ints(newlyClosed)
	snap := ice.VerifSnap(s.A)
	// local candidates the agent released (Failed, Restart, Close) are dead: forget their handles
	liveIDs := map[string]bool{}
	for _, c := range snap.Locals {
		liveIDs[c.ID()] = true
	}
	for h, c := range s.locals {
		if !liveIDs[c.ID()] {
			s.retire(h, c)
			delete(s.locals, h)
		}
	}
	var t []string
	for _, w := range wires {
		if m, err := s.Decode(w.raw); err == nil && len(w.raw) >= 20 && isStun(w.raw) {
			t = append(t, "S", fmt.Sprint(w.lh))
			t = append(t, AddrOf(w.dst).Toks()...)
			t = append(t, m.Toks()...)
		} else {
			p, ok := s.payloads[string(w.raw)]
			if !ok {
				p = Payload{ID: -1, Len: len(w.raw)}
			}
			t = append(t, "D", fmt.Sprint(w.lh))
			t = append(t, AddrOf(w.dst).Toks()...)
			t = append(t, p.Toks()...)
		}
		t = append(t, ",")
	}
	for _, st := range states {
		t = append(t, "ST", fmt.Sprint(int(st)), ",")
	}
	for _, sp := range selected {
		// identify the pair by its id in the snapshot (same candidate objects)
		// (the notification carries the two candidates only: when two listed pairs share them -- known finding
		// C06 two_prflx_superseded -- the currently selected one is meant, else the oldest)
		id := "-1"
		for _, p := range snap.Pairs {
			if p.Local == sp[0] && p.Remote == sp[1] && (id == "-1" || (snap.HasSelected && p.ID == snap.SelectedID)) {
				id = fmt.Sprint(p.ID)
			}
		}
		t = append(t, "SEL", id, ",")
	}
	for _, c := range cands {
		if c == nil {
			t = append(t, "CA", "-1", ",")
		} else if h, ok := s.localH[c.ID()]; ok {
			t = append(t, "CA", fmt.Sprint(h), ",")
		} else {
			t = append(t, "CA", "-2", ",")
		}
	}
	if o.Kind == "AL" {
		for _, h := range newlyClosed {
			if h == o.Cand.H {
				t = append(t, "CC", fmt.Sprint(h), ",")
			}
		}
	}
	for _, p := range delivered {
		t = append(t, "DL")
		t = append(t, p.Toks()...)
		t = append(t, ",")
	}
	for _, r := range rets {
		t = append(t, "R", r, ",")
	}
	t = append(t, "|")
	t = append(t, s.snapToks(snap)...)
	return t
}

func (s *Sim) retire(h int, c ice.Candidate) {
	if s.retired == nil {
		s.retired = map[int]ice.Candidate{}
	}
	s.retired[h] = c
}

func isStun(b []byte) bool {
	return len(b) >= 20 && b[0]&0xC0 == 0 && bytes.Equal(b[4:8], []byte{0x21, 0x12, 0xA4, 0x42})
}

func ageUnits(d time.Duration) string { return fmt.Sprint(int64(d / Grid)) }

func (s *Sim) snapToks(snap ice.VerifSnapshot) []string {
	t := []string{fmt.Sprint(int(snap.ConnectionState)), b2s(snap.Controlling)}
	t = append(t, opt(snap.HasSelected, fmt.Sprint(snap.SelectedID))...)
	t = append(t, opt(snap.HasNominated, fmt.Sprint(snap.NominatedID))...)
	t = append(t, opt(snap.HasLastNomination, fmt.Sprint(snap.LastNomination))...)
	t = append(t, fmt.Sprint(snap.NextPairID), fmt.Sprint(userTok(snap.LocalUfrag)), fmt.Sprint(userTok(snap.RemoteUfrag)),
		fmt.Sprint(pwdTok(snap.LocalPwd)), fmt.Sprint(pwdTok(snap.RemotePwd)), b2s(snap.Closed))
	t = append(t, "P", fmt.Sprint(len(snap.Pending)))
	for _, q := range snap.Pending {
		n, ok := s.txNum[q.TransactionID]
		if !ok {
			n = -1
		}
		t = append(t, fmt.Sprint(n))
		t = append(t, AddrOf(q.Destination).Toks()...)
		t = append(t, fmt.Sprint(int(q.NetworkType)), b2s(q.UseCandidate))
		t = append(t, opt(q.HasNomination, fmt.Sprint(q.Nomination))...)
		if snap.Closed {
			t = append(t, "0") // ages are meaningless once the agent is closed (Close itself takes real time)
		} else {
			t = append(t, ageUnits(q.Age))
		}
	}
	// locals by handle (sorted)
	var lh []int
	for _, c := range snap.Locals {
		if h, ok := s.localH[c.ID()]; ok {
			lh = append(lh, h)
		} else {
			lh = append(lh, -1)
		}
	}
	sort.Ints(lh)
	t = append(t, "L", fmt.Sprint(len(lh)))
	for _, h := range lh {
		t = append(t, fmt.Sprint(h))
	}
	// remotes: content, sorted
	var rs []string
	for _, c := range snap.Remotes {
		ap := candAddrPort(c)
		age := "-"
		if d, ok := ice.VerifLastReceivedAge(c); ok {
			age = ageUnits(d)
		}
		tk := []string{fmt.Sprint(int(c.Type())), fmt.Sprint(int(c.NetworkType()))}
		tk = append(tk, AddrOf(ap).Toks()...)
		tk = append(tk, fmt.Sprint(int(c.TCPType())))
		tk = append(tk, relToks(c)...)
		tk = append(tk, fmt.Sprint(c.Priority()), age)
		rs = append(rs, joinToks(tk))
	}
	sort.Strings(rs)
	t = append(t, "R", fmt.Sprint(len(rs)))
	for _, r := range rs {
		t = append(t, splitToks(r)...)
	}
	t = append(t, "C", fmt.Sprint(len(snap.Pairs)))
	for _, p := range snap.Pairs {
		h, ok := s.localH[p.Local.ID()]
		if !ok {
			h = -1
		}
		t = append(t, fmt.Sprint(p.ID), fmt.Sprint(h), fmt.Sprint(int(p.Remote.Type())), fmt.Sprint(int(p.Remote.NetworkType())))
		t = append(t, AddrOf(candAddrPort(p.Remote)).Toks()...)
		t = append(t, fmt.Sprint(int(p.Remote.TCPType())))
		t = append(t, relToks(p.Remote)...)
		t = append(t, fmt.Sprint(int(p.State)), b2s(p.Nominated), b2s(p.NominateOnBindingSuccess), fmt.Sprint(p.BindingRequestCount),
			fmt.Sprint(p.Priority), b2s(p.Controlling), fmt.Sprint(p.ReqSent), fmt.Sprint(p.ReqRecv), fmt.Sprint(p.RespSent),
			fmt.Sprint(p.RespRecv), fmt.Sprint(p.PacketsSent), fmt.Sprint(p.BytesSent), fmt.Sprint(p.PacketsRecv), fmt.Sprint(p.BytesRecv))
	}
	conn := s.conn()
	t = append(t, "B", fmt.Sprint(conn.BytesSent()), fmt.Sprint(conn.BytesReceived()))
	t = append(t, "X", b2s(snap.PairsByIDConsistent), b2s(!snap.HasSelected || snap.SelectedInChecklist))
	return t
}

func joinToks(t []string) string {
	out := ""
	for i, x := range t {
		if i > 0 {
			out += " "
		}
		out += x
	}
	return out
}

func splitToks(s string) []string {
	var out []string
	cur := ""
	for _, r := range s {
		if r == ' ' {
			out = append(out, cur)
			cur = ""
		} else {
			cur += string(r)
		}
	}
	return append(out, cur)
}

// Close releases the agent.
func (s *Sim) Close() {
	_ = s.A.Close()
	ice.VerifForget(s.A)
}

// ---- replay: parse a case line back into a configuration and operations -------------------

type tokStream struct {
	t []string
	i int
}

func (s *tokStream) next() string {
	if s.i >= len(s.t) {
		panic("replay: unexpected end of tokens")
	}
	s.i++
	return s.t[s.i-1]
}
func (s *tokStream) peek() string {
	if s.i >= len(s.t) {
		return ""
	}
	return s.t[s.i]
}
func (s *tokStream) int() int {
	var v int
	if _, err := fmt.Sscan(s.next(), &v); err != nil {
		panic(err)
	}
	return v
}
func (s *tokStream) u64() uint64 {
	var v uint64
	if _, err := fmt.Sscan(s.next(), &v); err != nil {
		panic(err)
	}
	return v
}
func (s *tokStream) big() *big.Int {
	v, ok := new(big.Int).SetString(s.next(), 10)
	if !ok {
		panic("replay: bad number")
	}
	return v
}
func (s *tokStream) bool() bool { return s.next() == "1" }
func (s *tokStream) addr() Addr {
	v6 := s.bool()
	ip := s.big()
	return Addr{v6, ip, s.int()}
}
func (s *tokStream) cand() Cand {
	c := Cand{H: s.int(), Typ: s.int(), Net: s.int()}
	c.Addr = s.addr()
	c.TCP = s.int()
	c.Prio = uint32(s.u64())
	c.Comp = s.int()
	if s.peek() == "-" {
		s.next()
	} else {
		c.HasRel = true
		c.RelIP = s.big()
		c.RelPort = s.int()
	}
	return c
}
func (s *tokStream) msg() Msg {
	m := Msg{Class: s.int(), Method: s.int(), Tx: s.int()}
	if s.peek() == "-" {
		s.next()
	} else {
		m.HasUser, m.UserA, m.UserB = true, s.int(), s.int()
	}
	if s.peek() == "-" {
		s.next()
	} else {
		m.HasKey, m.Key = true, s.int()
	}
	m.Use = s.bool()
	if s.peek() == "-" {
		s.next()
	} else {
		m.HasCtl, m.Ctl, m.TB = true, s.bool(), s.u64()
	}
	if s.peek() == "-" {
		s.next()
	} else {
		m.HasPrio, m.Prio = true, uint32(s.u64())
	}
	if s.peek() == "-" {
		s.next()
	} else {
		m.HasNom, m.Nom = true, uint32(s.u64())
	}
	if s.peek() == "-" {
		s.next()
	} else {
		m.HasErr, m.Err = true, s.int()
	}
	if s.peek() == "-" {
		s.next()
	} else {
		m.HasXor, m.Xor = true, s.addr()
	}
	return m
}
func (s *tokStream) payload() Payload { return Payload{ID: s.int(), Len: s.int(), Stun: s.bool()} }

// ParseCase turns the tokens of a case line (CFG ... ; op ; op ...) into a Config and Ops.
// The configuration is reconstructed from the effective values recorded in the line.
func ParseCase(toks []string) (Config, []Op) {
	s := &tokStream{t: toks}
	if s.next() != "CFG" {
		panic("replay: case must start with CFG")
	}
	var cfg Config
	cfg.Lite = s.bool()
	cfg.TieBreaker = s.u64()
	cfg.MaxReq = s.int()
	disc := time.Duration(s.u64())
	discExplicit := s.bool()
	cfg.Failed = time.Duration(s.u64())
	cfg.Keepalive = time.Duration(s.u64())
	cfg.WaitHost, cfg.WaitSrflx = time.Duration(s.u64()), time.Duration(s.u64())
	cfg.WaitPrflx, cfg.WaitRelay = time.Duration(s.u64()), time.Duration(s.u64())
	if discExplicit {
		cfg.Disc = disc
	} else {
		cfg.Disc = -1
	}
	nb := s.int()
	for i := 0; i < nb; i++ {
		cfg.BlockedIPs = append(cfg.BlockedIPs, s.big())
	}
	cfg.Renomination, cfg.CheckPrio = s.bool(), s.bool()
	s.next() // eps
	cfg.LUfrag, cfg.LPwd = s.int(), s.int()
	cfg.TCPPrioOffset = -1
	var ops []Op
	for s.peek() != "" {
		if s.next() != ";" {
			panic("replay: expected ;")
		}
		switch k := s.next(); k {
		case "AL", "AR":
			ops = append(ops, Op{Kind: k, Cand: s.cand()})
		case "ST":
			ops = append(ops, Op{Kind: k, Ctl: s.bool(), A: s.int(), B: s.int()})
		case "SC", "RS":
			ops = append(ops, Op{Kind: k, A: s.int(), B: s.int()})
		case "AV":
			ops = append(ops, Op{Kind: k, D: time.Duration(s.u64())})
		case "TK", "RD", "CL":
			ops = append(ops, Op{Kind: k})
		case "IS":
			ops = append(ops, Op{Kind: k, LH: s.int(), Src: s.addr(), Msg: s.msg()})
		case "ID":
			ops = append(ops, Op{Kind: k, LH: s.int(), Src: s.addr(), Payload: s.payload()})
		case "WR":
			ops = append(ops, Op{Kind: k, Payload: s.payload()})
		case "WP":
			ops = append(ops, Op{Kind: k, PairID: s.u64(), Payload: s.payload()})
		case "RN":
			l, r := s.cand(), s.cand()
			ops = append(ops, Op{Kind: k, A: l.H, B: r.H, V: uint32(s.u64())})
		default:
			panic("replay: unknown op " + k)
		}
	}
	return cfg, ops
}

func (s *Sim) closedNow() bool { return s.closed }
