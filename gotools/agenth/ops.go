package agenth

import (
	"bytes"
	"errors"
	"fmt"
	"net"
	"runtime"
	"sort"
	"time"

	ice "github.com/pion/ice/v4"
)

// Op is one harness operation.
type Op struct {
	Kind    string // AL AR ST SC AV TK IS ID WR WP RD RS RN CL
	Cand    Cand
	Ctl     bool
	A, B    int // credential tokens / handles
	D       time.Duration
	LH      int
	Src     Addr
	Msg     Msg
	Payload Payload
	PairID  uint64
	V       uint32
}

// Grid is the granularity of virtual time and of every configured threshold.
const Grid = 100 * time.Millisecond

func retCode(err error) string {
	switch {
	case err == nil:
		return "ok"
	case errors.Is(err, ice.ErrMultipleStart):
		return "multiple_start"
	case errors.Is(err, ice.ErrRemoteUfragEmpty), errors.Is(err, ice.ErrRemotePwdEmpty):
		return "empty_creds"
	case errors.Is(err, ice.ErrNoCandidatePairs):
		return "no_pairs"
	case errors.Is(err, ice.ErrCandidatePairNotFound):
		return "pair_not_found"
	case errors.Is(err, ice.ErrCandidatePairNotSucceeded):
		return "pair_not_succeeded"
	case errors.Is(err, ice.ErrOnlyControllingAgentCanRenominate):
		return "not_controlling"
	case errors.Is(err, ice.ErrRenominationNotEnabled):
		return "renomination_off"
	case err.Error() == "the agent is closed":
		return "closed"
	case err.Error() == "failed to write STUN message to ICE connection":
		return "stun_payload"
	}
	return "err:" + fmt.Sprintf("%q", err.Error())
}

func (s *Sim) waitIdle() {
	deadline := time.Now().Add(5 * time.Second)
	for !ice.VerifNotifiersIdle(s.A) {
		if time.Now().After(deadline) {
			return
		}
		runtime.Gosched()
		time.Sleep(20 * time.Microsecond)
	}
}

// Do performs one operation on the real agent and returns (case tokens, observation tokens).
func (s *Sim) Do(o Op) (caseT []string, obsT []string) {
	var rets []string
	var delivered []Payload
	s.mu.Lock()
	s.wires, s.states, s.selected, s.cands = nil, nil, nil, nil
	s.dupClosed = nil
	s.mu.Unlock()
	before := map[int]int{}
	for k, v := range s.closedConns {
		before[k] = v
	}
	switch o.Kind {
	case "AL":
		c, err := MakeCandidate(o.Cand)
		if err != nil {
			panic(err)
		}
		fc := &fakeConn{sim: s, lh: o.Cand.H, closed: make(chan struct{}),
			local: &net.UDPAddr{IP: o.Cand.Addr.NetIP().AsSlice(), Port: o.Cand.Addr.Port}}
		err = ice.VerifAddLocal(s.A, c, fc)
		s.mu.Lock()
		dup := s.closedConns[o.Cand.H] > before[o.Cand.H]
		s.mu.Unlock()
		if err == nil && !dup {
			s.locals[o.Cand.H] = c
			s.localH[c.ID()] = o.Cand.H
			s.conns[o.Cand.H] = fc
		}
		if err != nil {
			rets = append(rets, retCode(err))
		} else if dup {
			rets = append(rets, "duplicate")
		} else {
			rets = append(rets, "ok")
		}
		caseT = append([]string{"AL"}, CandToks(o.Cand.H, c)...)
	case "AR":
		c, err := MakeCandidate(o.Cand)
		if err != nil {
			panic(err)
		}
		acc, err := ice.VerifAddRemote(s.A, c)
		if err != nil {
			rets = append(rets, retCode(err))
		} else if acc {
			rets = append(rets, "ok")
			s.remotes[o.Cand.H] = c
		} else {
			rets = append(rets, "ignored")
		}
		caseT = append([]string{"AR"}, CandToks(o.Cand.H, c)...)
	case "ST":
		var err error
		var conn *ice.Conn
		if o.Ctl {
			conn, err = s.A.StartDial(Ufrag(o.A), Pwd(o.B))
		} else {
			conn, err = s.A.StartAccept(Ufrag(o.A), Pwd(o.B))
		}
		_ = conn
		if err == nil {
			// the timer goroutine hands its closure to the harness and ends; wait for that
			deadline := time.Now().Add(5 * time.Second)
			for !ice.VerifTickReady(s.A) && time.Now().Before(deadline) {
				time.Sleep(50 * time.Microsecond)
			}
		}
		s.pwds[o.B], s.ufrags[o.A] = true, true
		rets = append(rets, retCode(err))
		caseT = []string{"ST", b2s(o.Ctl), fmt.Sprint(o.A), fmt.Sprint(o.B)}
	case "SC":
		err := s.A.SetRemoteCredentials(Ufrag(o.A), Pwd(o.B))
		s.pwds[o.B], s.ufrags[o.A] = true, true
		rets = append(rets, retCode(err))
		caseT = []string{"SC", fmt.Sprint(o.A), fmt.Sprint(o.B)}
	case "AV":
		_ = ice.VerifAdvance(s.A, o.D)
		caseT = []string{"AV", fmt.Sprint(int64(o.D))}
	case "TK":
		ice.VerifTick(s.A)
		caseT = []string{"TK"}
	case "IS":
		if l, ok := s.locals[o.LH]; ok {
			ice.VerifInbound(l, s.Build(o.Msg), o.Src.AddrPort())
		}
		caseT = append(append([]string{"IS", fmt.Sprint(o.LH)}, o.Src.Toks()...), o.Msg.Toks()...)
	case "ID":
		if l, ok := s.locals[o.LH]; ok {
			b := o.Payload.Bytes()
			s.payloads[string(b)] = o.Payload
			ice.VerifInbound(l, b, o.Src.AddrPort())
		}
		caseT = append(append([]string{"ID", fmt.Sprint(o.LH)}, o.Src.Toks()...), o.Payload.Toks()...)
	case "WR":
		b := o.Payload.Bytes()
		s.payloads[string(b)] = o.Payload
		conn := s.conn()
		n, err := conn.Write(b)
		if err == nil && n != len(b) {
			rets = append(rets, fmt.Sprintf("short_write_%d", n))
		} else {
			rets = append(rets, retCode(err))
		}
		caseT = append([]string{"WR"}, o.Payload.Toks()...)
	case "WP":
		b := o.Payload.Bytes()
		s.payloads[string(b)] = o.Payload
		conn := s.conn()
		n, err := conn.WriteToPair(o.PairID, b)
		if err == nil && n != len(b) {
			rets = append(rets, fmt.Sprintf("short_write_%d", n))
		} else {
			rets = append(rets, retCode(err))
		}
		caseT = append([]string{"WP", fmt.Sprint(o.PairID)}, o.Payload.Toks()...)
	case "RD":
		conn := s.conn()
		buf := make([]byte, 70000)
		_ = conn.SetReadDeadline(time.Now().Add(2 * time.Millisecond)) // never block for long: queued data or a timeout
		n, err := conn.Read(buf)
		_ = conn.SetReadDeadline(time.Time{})
		switch {
		case err == nil:
			if p, ok := s.payloads[string(buf[:n])]; ok {
				delivered = append(delivered, p)
			} else {
				delivered = append(delivered, Payload{ID: -1, Len: n, Stun: false})
			}
		case retCode(err) == "closed":
			rets = append(rets, "closed")
		default:
			var ne net.Error
			if errors.As(err, &ne) && ne.Timeout() {
				rets = append(rets, "would_block")
			} else {
				rets = append(rets, retCode(err))
			}
		}
		caseT = []string{"RD"}
	case "RS":
		err := s.A.Restart(Ufrag(o.A), Pwd(o.B))
		if err == nil {
			for h := range s.locals {
				delete(s.locals, h)
			}
			for h := range s.remotes {
				delete(s.remotes, h)
			}
		}
		s.pwds[o.B], s.ufrags[o.A] = true, true
		rets = append(rets, retCode(err))
		caseT = []string{"RS", fmt.Sprint(o.A), fmt.Sprint(o.B)}
	case "RN":
		l, lok := s.locals[o.A]
		r, rok := s.remotes[o.B]
		s.nomValue = o.V
		var err error
		if !lok || !rok {
			// unknown handles: a pair that cannot exist
			l, _ = MakeCandidate(Cand{H: 0, Typ: 1, Net: 1, Addr: V4(203, 0, 113, 250, 9), Comp: 1})
			r = l
		}
		err = s.A.RenominateCandidate(l, r)
		rets = append(rets, retCode(err))
		caseT = append(append(append([]string{"RN"}, CandToks(o.A, l)...), CandToks(o.B, r)...), fmt.Sprint(o.V))
	case "CL":
		err := s.A.Close()
		rets = append(rets, retCode(err))
		caseT = []string{"CL"}
	default:
		panic("unknown op " + o.Kind)
	}
	s.waitIdle()
	if o.Kind == "CL" {
		time.Sleep(200 * time.Microsecond)
	}
	obsT = s.observe(o, rets, delivered, before)
	return caseT, obsT
}

func (s *Sim) conn() *ice.Conn {
	if s.Conn == nil {
		s.Conn = ice.VerifConn(s.A)
	}
	return s.Conn
}

func (s *Sim) observe(o Op, rets []string, delivered []Payload, before map[int]int) []string {
	s.mu.Lock()
	wires := append([]wire(nil), s.wires...)
	states := append([]ice.ConnectionState(nil), s.states...)
	selected := append([][2]ice.Candidate(nil), s.selected...)
	cands := append([]ice.Candidate(nil), s.cands...)
	var newlyClosed []int
	for h, n := range s.closedConns {
		if n > before[h] {
			newlyClosed = append(newlyClosed, h)
		}
	}
	s.mu.Unlock()
	sort.Ints(newlyClosed)
	snap := ice.VerifSnap(s.A)
	// local candidates the agent released (Failed, Restart, Close) are dead: forget their handles
	liveIDs := map[string]bool{}
	for _, c := range snap.Locals {
		liveIDs[c.ID()] = true
	}
	for h, c := range s.locals {
		if !liveIDs[c.ID()] {
			delete(s.locals, h)
		}
	}
	var t []string
	for _, w := range wires {
		if m, err := s.Decode(w.raw); err == nil && len(w.raw) >= 20 && isStun(w.raw) {
			t = append(t, "S", fmt.Sprint(w.lh))
			t = append(t, AddrOf(w.dst).Toks()...)
			t = append(t, m.Toks()...)
		} else {
			p, ok := s.payloads[string(w.raw)]
			if !ok {
				p = Payload{ID: -1, Len: len(w.raw)}
			}
			t = append(t, "D", fmt.Sprint(w.lh))
			t = append(t, AddrOf(w.dst).Toks()...)
			t = append(t, p.Toks()...)
		}
		t = append(t, ",")
	}
	for _, st := range states {
		t = append(t, "ST", fmt.Sprint(int(st)), ",")
	}
	for _, sp := range selected {
		// identify the pair by its id in the snapshot (same candidate objects)
		id := "-1"
		for _, p := range snap.Pairs {
			if p.Local == sp[0] && p.Remote == sp[1] {
				id = fmt.Sprint(p.ID)
			}
		}
		t = append(t, "SEL", id, ",")
	}
	for _, c := range cands {
		if c == nil {
			t = append(t, "CA", "-1", ",")
		} else if h, ok := s.localH[c.ID()]; ok {
			t = append(t, "CA", fmt.Sprint(h), ",")
		} else {
			t = append(t, "CA", "-2", ",")
		}
	}
	if o.Kind == "AL" {
		for _, h := range newlyClosed {
			if h == o.Cand.H {
				t = append(t, "CC", fmt.Sprint(h), ",")
			}
		}
	}
	for _, p := range delivered {
		t = append(t, "DL")
		t = append(t, p.Toks()...)
		t = append(t, ",")
	}
	for _, r := range rets {
		t = append(t, "R", r, ",")
	}
	t = append(t, "|")
	t = append(t, s.snapToks(snap)...)
	return t
}

func isStun(b []byte) bool {
	return len(b) >= 20 && b[0]&0xC0 == 0 && bytes.Equal(b[4:8], []byte{0x21, 0x12, 0xA4, 0x42})
}

func ageUnits(d time.Duration) string { return fmt.Sprint(int64(d / Grid)) }

func (s *Sim) snapToks(snap ice.VerifSnapshot) []string {
	t := []string{fmt.Sprint(int(snap.ConnectionState)), b2s(snap.Controlling)}
	t = append(t, opt(snap.HasSelected, fmt.Sprint(snap.SelectedID))...)
	t = append(t, opt(snap.HasNominated, fmt.Sprint(snap.NominatedID))...)
	t = append(t, opt(snap.HasLastNomination, fmt.Sprint(snap.LastNomination))...)
	t = append(t, fmt.Sprint(snap.NextPairID), fmt.Sprint(userTok(snap.LocalUfrag)), fmt.Sprint(userTok(snap.RemoteUfrag)))
	t = append(t, "P", fmt.Sprint(len(snap.Pending)))
	for _, q := range snap.Pending {
		n, ok := s.txNum[q.TransactionID]
		if !ok {
			n = -1
		}
		t = append(t, fmt.Sprint(n))
		t = append(t, AddrOf(q.Destination).Toks()...)
		t = append(t, fmt.Sprint(int(q.NetworkType)), b2s(q.UseCandidate))
		t = append(t, opt(q.HasNomination, fmt.Sprint(q.Nomination))...)
		if snap.Closed {
			t = append(t, "0") // ages are meaningless once the agent is closed (Close itself takes real time)
		} else {
			t = append(t, ageUnits(q.Age))
		}
	}
	// locals by handle (sorted)
	var lh []int
	for _, c := range snap.Locals {
		if h, ok := s.localH[c.ID()]; ok {
			lh = append(lh, h)
		} else {
			lh = append(lh, -1)
		}
	}
	sort.Ints(lh)
	t = append(t, "L", fmt.Sprint(len(lh)))
	for _, h := range lh {
		t = append(t, fmt.Sprint(h))
	}
	// remotes: content, sorted
	var rs []string
	for _, c := range snap.Remotes {
		ap := candAddrPort(c)
		age := "-"
		if d, ok := ice.VerifLastReceivedAge(c); ok {
			age = ageUnits(d)
		}
		tk := []string{fmt.Sprint(int(c.Type())), fmt.Sprint(int(c.NetworkType()))}
		tk = append(tk, AddrOf(ap).Toks()...)
		tk = append(tk, fmt.Sprint(int(c.TCPType())), fmt.Sprint(c.Priority()), age)
		rs = append(rs, joinToks(tk))
	}
	sort.Strings(rs)
	t = append(t, "R", fmt.Sprint(len(rs)))
	for _, r := range rs {
		t = append(t, splitToks(r)...)
	}
	t = append(t, "C", fmt.Sprint(len(snap.Pairs)))
	for _, p := range snap.Pairs {
		h, ok := s.localH[p.Local.ID()]
		if !ok {
			h = -1
		}
		t = append(t, fmt.Sprint(p.ID), fmt.Sprint(h), fmt.Sprint(int(p.Remote.Type())), fmt.Sprint(int(p.Remote.NetworkType())))
		t = append(t, AddrOf(candAddrPort(p.Remote)).Toks()...)
		t = append(t, fmt.Sprint(int(p.State)), b2s(p.Nominated), b2s(p.NominateOnBindingSuccess), fmt.Sprint(p.BindingRequestCount),
			fmt.Sprint(p.Priority), b2s(p.Controlling), fmt.Sprint(p.ReqSent), fmt.Sprint(p.ReqRecv), fmt.Sprint(p.RespSent),
			fmt.Sprint(p.RespRecv), fmt.Sprint(p.PacketsSent), fmt.Sprint(p.BytesSent), fmt.Sprint(p.PacketsRecv), fmt.Sprint(p.BytesRecv))
	}
	conn := s.conn()
	t = append(t, "B", fmt.Sprint(conn.BytesSent()), fmt.Sprint(conn.BytesReceived()))
	t = append(t, "X", b2s(snap.PairsByIDConsistent), b2s(!snap.HasSelected || snap.SelectedInChecklist))
	return t
}

func joinToks(t []string) string {
	out := ""
	for i, x := range t {
		if i > 0 {
			out += " "
		}
		out += x
	}
	return out
}

func splitToks(s string) []string {
	var out []string
	cur := ""
	for _, r := range s {
		if r == ' ' {
			out = append(out, cur)
			cur = ""
		} else {
			cur += string(r)
		}
	}
	return append(out, cur)
}

// Close releases the agent.
func (s *Sim) Close() {
	_ = s.A.Close()
	ice.VerifForget(s.A)
}
