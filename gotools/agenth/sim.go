// Package agenth drives a real pion/ice Agent deterministically for the agent-core suites:
// local candidates over harness-owned fake sockets, inbound datagrams delivered synchronously
// through handleInboundPacket, ticks issued through the real per-tick closure (hook H1), virtual
// time by shifting the agent's stored timestamps (VerifAdvance).  Every operation yields
// canonical observation tokens (what was written to the sockets, callbacks, API results) and a
// snapshot of the loop-owned state, in the token language shared with ocaml/core_main.ml.
package agenth

import (
	"crypto/sha1" //nolint:gosec
	"encoding/binary"
	"errors"
	"fmt"
	"math/big"
	"net"
	"net/netip"
	"os"
	"sort"
	"strings"
	"sync"
	"time"

	ice "github.com/pion/ice/v4"
	"github.com/pion/logging"
	"github.com/pion/stun/v3"
)

// Addr is a canonical transport address.
type Addr struct {
	V6   bool
	IP   *big.Int
	Port int
}

func (a Addr) Toks() []string {
	v := "0"
	if a.V6 {
		v = "1"
	}
	return []string{v, a.IP.String(), fmt.Sprint(a.Port)}
}

func (a Addr) NetIP() netip.Addr {
	if a.V6 {
		var b [16]byte
		a.IP.FillBytes(b[:])
		return netip.AddrFrom16(b)
	}
	var b [4]byte
	a.IP.FillBytes(b[:])
	return netip.AddrFrom4(b)
}

func (a Addr) AddrPort() netip.AddrPort { return netip.AddrPortFrom(a.NetIP(), uint16(a.Port)) }

func AddrOf(ap netip.AddrPort) Addr {
	ip := ap.Addr().Unmap()
	if ip.Is4() {
		b := ip.As4()
		return Addr{false, new(big.Int).SetBytes(b[:]), int(ap.Port())}
	}
	b := ip.As16()
	return Addr{true, new(big.Int).SetBytes(b[:]), int(ap.Port())}
}

func V4(a, b, c, d byte, port int) Addr {
	return Addr{false, new(big.Int).SetBytes([]byte{a, b, c, d}), port}
}

func V6(last uint16, port int) Addr {
	b := make([]byte, 16)
	b[0], b[1] = 0x20, 0x01
	b[2], b[3] = 0x0d, 0xb8
	binary.BigEndian.PutUint16(b[14:], last)
	return Addr{true, new(big.Int).SetBytes(b), port}
}

// Cand describes a candidate to create.
type Cand struct {
	H       int
	Typ     int // ice.CandidateType
	Net     int // ice.NetworkType
	Addr    Addr
	TCP     int
	Prio    uint32 // 0: let the candidate compute it
	Comp    int
	HasRel  bool
	RelIP   *big.Int // 0 means ""
	RelPort int
}

// Msg is the symbolic STUN message of the model.
type Msg struct {
	Class, Method int
	Tx            int
	HasUser       bool
	UserA, UserB  int
	HasKey        bool
	Key           int
	Use           bool
	HasCtl        bool
	Ctl           bool
	TB            uint64
	HasPrio       bool
	Prio          uint32
	HasNom        bool
	Nom           uint32
	HasErr        bool
	Err           int
	HasXor        bool
	Xor           Addr
}

func opt(has bool, v ...string) []string {
	if !has {
		return []string{"-"}
	}
	return v
}

func b2s(b bool) string {
	if b {
		return "1"
	}
	return "0"
}

func (m Msg) Toks() []string {
	t := []string{fmt.Sprint(m.Class), fmt.Sprint(m.Method), fmt.Sprint(m.Tx)}
	t = append(t, opt(m.HasUser, fmt.Sprint(m.UserA), fmt.Sprint(m.UserB))...)
	t = append(t, opt(m.HasKey, fmt.Sprint(m.Key))...)
	t = append(t, b2s(m.Use))
	t = append(t, opt(m.HasCtl, b2s(m.Ctl), fmt.Sprint(m.TB))...)
	t = append(t, opt(m.HasPrio, fmt.Sprint(m.Prio))...)
	t = append(t, opt(m.HasNom, fmt.Sprint(m.Nom))...)
	t = append(t, opt(m.HasErr, fmt.Sprint(m.Err))...)
	t = append(t, opt(m.HasXor, m.Xor.Toks()...)...)
	return t
}

// Payload is an application datagram token.
type Payload struct {
	ID, Len int
	Stun    bool
}

// RefusedPayloadID marks payloads the fake sockets refuse to send (model: refused_payload_id).
const RefusedPayloadID = -7

func (p Payload) Toks() []string { return []string{fmt.Sprint(p.ID), fmt.Sprint(p.Len), b2s(p.Stun)} }

// Bytes renders the payload deterministically.
func (p Payload) Bytes() []byte {
	n := p.Len
	if p.Stun && n < 20 {
		n = 20
	}
	b := make([]byte, n)
	seed := sha1.Sum([]byte(fmt.Sprintf("payload-%d-%d-%v", p.ID, p.Len, p.Stun))) //nolint:gosec
	for i := range b {
		b[i] = seed[i%len(seed)] ^ byte(i*7)
	}
	if n > 0 {
		// never STUN-shaped; the first byte is a function of the payload ID so that even one-byte payloads of
		// different IDs (IDs within one history are small) have different contents: the harness recognises a
		// delivered payload by its content
		b[0] = 0x80 | byte(p.ID&0x3f)
	}
	if p.Stun {
		// STUN-shaped (stun.IsMessage accepts) but undecodable: the length field lies
		b[0], b[1] = 0x00, 0x01
		binary.BigEndian.PutUint16(b[2:], uint16(n+400))
		binary.BigEndian.PutUint32(b[4:], 0x2112A442)
	}
	return b
}

// Ufrag / Pwd render credential tokens (0 is the empty string).
func Ufrag(t int) string {
	if t == 0 {
		return ""
	}
	return fmt.Sprintf("ufrag%04d", t)
}

func Pwd(t int) string {
	if t == 0 {
		return ""
	}
	return fmt.Sprintf("password-%013d", t)
}

// ---- fake socket ------------------------------------------------------------------

type wire struct {
	lh  int
	dst netip.AddrPort
	raw []byte
}

type fakeConn struct {
	sim    *Sim
	lh     int
	local  net.Addr
	once   sync.Once
	closed chan struct{}
}

func (f *fakeConn) ReadFrom(_ []byte) (int, net.Addr, error) {
	<-f.closed
	return 0, nil, net.ErrClosed
}

func (f *fakeConn) WriteTo(p []byte, addr net.Addr) (int, error) {
	select {
	case <-f.closed:
		return 0, net.ErrClosed
	default:
	}
	// a payload marked as refused: the socket reports a send fault for it (nothing goes out)
	if pl, ok := f.sim.payloads[string(p)]; ok && pl.ID == RefusedPayloadID {
		return 0, errors.New("fake: send refused")
	}
	var ap netip.AddrPort
	switch a := addr.(type) {
	case *net.UDPAddr:
		ap = a.AddrPort()
	case *net.TCPAddr:
		ap = a.AddrPort()
	default:
		return 0, errors.New("fake: unknown address type")
	}
	f.sim.mu.Lock()
	f.sim.wires = append(f.sim.wires, wire{f.lh, ap, append([]byte(nil), p...)})
	f.sim.mu.Unlock()
	return len(p), nil
}

func (f *fakeConn) Close() error {
	f.once.Do(func() {
		close(f.closed)
		f.sim.mu.Lock()
		f.sim.closedConns[f.lh]++
		f.sim.mu.Unlock()
	})
	return nil
}
func (f *fakeConn) LocalAddr() net.Addr                { return f.local }
func (f *fakeConn) SetDeadline(_ time.Time) error      { return nil }
func (f *fakeConn) SetReadDeadline(_ time.Time) error  { return nil }
func (f *fakeConn) SetWriteDeadline(_ time.Time) error { return nil }

// ---- simulator ----------------------------------------------------------------------

// Config of a simulated agent (zero values: library defaults).
type Config struct {
	Lite          bool
	TieBreaker    uint64
	MaxReq        int           // <0: default
	Disc          time.Duration // <0: default
	Failed        time.Duration // <0: default
	Keepalive     time.Duration // <0: default
	WaitHost      time.Duration // <0: default
	WaitSrflx     time.Duration
	WaitPrflx     time.Duration
	WaitRelay     time.Duration
	BlockedIPs    []*big.Int
	Renomination  bool
	CheckPrio     bool
	LUfrag, LPwd  int
	TCPPrioOffset int // <0: default
}

// Sim wraps one real agent.
type Sim struct {
	A           *ice.Agent
	Conn        *ice.Conn
	mu          sync.Mutex
	wires       []wire
	states      []ice.ConnectionState
	selected    [][2]ice.Candidate
	cands       []ice.Candidate
	closedConns map[int]int
	locals      map[int]ice.Candidate
	retired     map[int]ice.Candidate // local candidates the agent has released (their sockets are closed)
	localH      map[string]int
	remotes     map[int]ice.Candidate
	conns       map[int]*fakeConn
	txNum       map[[12]byte]int
	txID        map[int][12]byte
	nextTx      int
	payloads    map[string]Payload
	pwds        map[int]bool
	ufrags      map[int]bool
	nomValue    uint32
	Eff         ice.VerifConfigSnapshot
	cfg         Config
	bytesSent   uint64
	bytesRecv   uint64
	dupClosed   []int
	lastStart   time.Time     // real time at which the previous operation began / ended
	lastEnd     time.Time
	SlowOp      string
	closed      bool
	MaxOp       time.Duration // longest single operation (bounds the uncompensated jitter)
}

type quietLogger struct{}

func (quietLogger) NewLogger(string) logging.LeveledLogger {
	l := logging.NewDefaultLeveledLoggerForScope("ice", logging.LogLevelDisabled, os.Stderr)
	return l
}

// NewSim creates the agent.
func NewSim(cfg Config) (*Sim, error) {
	s := &Sim{closedConns: map[int]int{}, locals: map[int]ice.Candidate{}, localH: map[string]int{},
		remotes: map[int]ice.Candidate{}, conns: map[int]*fakeConn{}, txNum: map[[12]byte]int{}, txID: map[int][12]byte{},
		payloads: map[string]Payload{}, pwds: map[int]bool{0: true}, ufrags: map[int]bool{0: true}, cfg: cfg}
	opts := []ice.AgentOption{
		ice.WithMulticastDNSMode(ice.MulticastDNSModeDisabled),
		ice.WithLoggerFactory(quietLogger{}),
		ice.WithDisableActiveTCP(),
		ice.WithNetworkTypes([]ice.NetworkType{ice.NetworkTypeUDP4, ice.NetworkTypeUDP6, ice.NetworkTypeTCP4, ice.NetworkTypeTCP6}),
		ice.WithLocalCredentials(Ufrag(cfg.LUfrag), Pwd(cfg.LPwd)),
	}
	s.pwds[cfg.LPwd], s.ufrags[cfg.LUfrag] = true, true
	if cfg.Lite {
		opts = append(opts, ice.WithICELite(true), ice.WithCandidateTypes([]ice.CandidateType{ice.CandidateTypeHost}))
	}
	if cfg.MaxReq >= 0 {
		opts = append(opts, ice.WithMaxBindingRequests(uint16(cfg.MaxReq)))
	}
	if cfg.Disc >= 0 {
		opts = append(opts, ice.WithDisconnectedTimeout(cfg.Disc))
	}
	if cfg.Failed >= 0 {
		opts = append(opts, ice.WithFailedTimeout(cfg.Failed))
	}
	if cfg.Keepalive >= 0 {
		opts = append(opts, ice.WithKeepaliveInterval(cfg.Keepalive))
	}
	if cfg.WaitHost >= 0 {
		opts = append(opts, ice.WithHostAcceptanceMinWait(cfg.WaitHost), ice.WithSrflxAcceptanceMinWait(cfg.WaitSrflx),
			ice.WithPrflxAcceptanceMinWait(cfg.WaitPrflx), ice.WithRelayAcceptanceMinWait(cfg.WaitRelay))
	}
	if len(cfg.BlockedIPs) > 0 {
		blocked := cfg.BlockedIPs
		opts = append(opts, ice.WithRemoteIPFilter(func(ip net.IP) bool {
			if v4 := ip.To4(); v4 != nil {
				ip = v4
			}
			n := new(big.Int).SetBytes(ip)
			for _, b := range blocked {
				if b.Cmp(n) == 0 {
					return false
				}
			}
			return true
		}))
	}
	if cfg.Renomination {
		opts = append(opts, ice.WithRenomination(func() uint32 { return s.nomValue }))
	}
	if cfg.CheckPrio {
		opts = append(opts, ice.WithEnableUseCandidateCheckPriority())
	}
	if cfg.TCPPrioOffset >= 0 {
		opts = append(opts, ice.WithTCPPriorityOffset(uint16(cfg.TCPPrioOffset)))
	}
	a, err := ice.NewAgentWithOptions(opts...)
	if err != nil {
		return nil, err
	}
	s.A = a
	if err := ice.VerifSetTieBreaker(a, cfg.TieBreaker); err != nil {
		return nil, err
	}
	_ = a.OnConnectionStateChange(func(st ice.ConnectionState) {
		s.mu.Lock()
		s.states = append(s.states, st)
		s.mu.Unlock()
	})
	_ = a.OnSelectedCandidatePairChange(func(l, r ice.Candidate) {
		s.mu.Lock()
		s.selected = append(s.selected, [2]ice.Candidate{l, r})
		s.mu.Unlock()
	})
	_ = a.OnCandidate(func(c ice.Candidate) {
		s.mu.Lock()
		s.cands = append(s.cands, c)
		s.mu.Unlock()
	})
	s.Eff = ice.VerifConfig(a)
	return s, nil
}

// CfgToks renders the effective configuration (read back from the agent) for the model.
func (s *Sim) CfgToks() []string {
	e := s.Eff
	t := []string{"CFG", b2s(e.Lite), fmt.Sprint(e.TieBreaker), fmt.Sprint(e.MaxBindingRequests),
		fmt.Sprint(int64(e.DisconnectedTimeout)), b2s(e.DisconnectedTimeoutExplicit), fmt.Sprint(int64(e.FailedTimeout)),
		fmt.Sprint(int64(e.KeepaliveInterval)), fmt.Sprint(int64(e.HostWait)), fmt.Sprint(int64(e.SrflxWait)),
		fmt.Sprint(int64(e.PrflxWait)), fmt.Sprint(int64(e.RelayWait)), fmt.Sprint(len(s.cfg.BlockedIPs))}
	for _, b := range s.cfg.BlockedIPs {
		t = append(t, b.String())
	}
	t = append(t, b2s(e.Renomination), b2s(e.CheckPriority), "1", fmt.Sprint(s.cfg.LUfrag), fmt.Sprint(s.cfg.LPwd))
	return t
}

func netName(nt int) string {
	switch ice.NetworkType(nt) {
	case ice.NetworkTypeUDP4, ice.NetworkTypeUDP6:
		return "udp"
	default:
		return "tcp"
	}
}

func relStr(c Cand) (string, int) {
	if !c.HasRel || c.RelIP == nil || c.RelIP.Sign() == 0 {
		return "", c.RelPort
	}
	return Addr{false, c.RelIP, 0}.NetIP().String(), c.RelPort
}

// MakeCandidate builds a real candidate through the public constructors.
func MakeCandidate(c Cand) (ice.Candidate, error) {
	ip := c.Addr.NetIP().String()
	relA, relP := relStr(c)
	switch ice.CandidateType(c.Typ) {
	case ice.CandidateTypeHost:
		return ice.NewCandidateHost(&ice.CandidateHostConfig{Network: netName(c.Net), Address: ip, Port: c.Addr.Port,
			Component: uint16(c.Comp), Priority: c.Prio, TCPType: ice.TCPType(c.TCP)})
	case ice.CandidateTypeServerReflexive:
		return ice.NewCandidateServerReflexive(&ice.CandidateServerReflexiveConfig{Network: netName(c.Net), Address: ip,
			Port: c.Addr.Port, Component: uint16(c.Comp), Priority: c.Prio, RelAddr: relA, RelPort: relP})
	case ice.CandidateTypePeerReflexive:
		return ice.NewCandidatePeerReflexive(&ice.CandidatePeerReflexiveConfig{Network: netName(c.Net), Address: ip,
			Port: c.Addr.Port, Component: uint16(c.Comp), Priority: c.Prio, RelAddr: relA, RelPort: relP})
	case ice.CandidateTypeRelay:
		return ice.NewCandidateRelay(&ice.CandidateRelayConfig{Network: netName(c.Net), Address: ip, Port: c.Addr.Port,
			Component: uint16(c.Comp), Priority: c.Prio, RelAddr: relA, RelPort: relP})
	}
	return nil, fmt.Errorf("bad candidate type %d", c.Typ)
}

// CandToks renders a candidate (as materialised) for the model: h typ net addr tcp prio comp rel.
func CandToks(h int, c ice.Candidate) []string {
	ap := candAddrPort(c)
	t := []string{fmt.Sprint(h), fmt.Sprint(int(c.Type())), fmt.Sprint(int(c.NetworkType()))}
	t = append(t, AddrOf(ap).Toks()...)
	t = append(t, fmt.Sprint(int(c.TCPType())), fmt.Sprint(c.Priority()), fmt.Sprint(c.Component()))
	return append(t, relToks(c)...)
}

func relToks(c ice.Candidate) []string {
	if ra := c.RelatedAddress(); ra != nil {
		ipn := "0"
		if ra.Address != "" {
			if p, err := netip.ParseAddr(ra.Address); err == nil {
				ipn = AddrOf(netip.AddrPortFrom(p, 0)).IP.String()
			}
		}
		return []string{ipn, fmt.Sprint(ra.Port)}
	}
	return []string{"-"}
}

func candAddrPort(c ice.Candidate) netip.AddrPort {
	ip, err := netip.ParseAddr(c.Address())
	if err != nil {
		return netip.AddrPort{}
	}
	return netip.AddrPortFrom(ip, uint16(c.Port()))
}

// ---- STUN encode / decode ---------------------------------------------------------------

func (s *Sim) txFor(num int) [12]byte {
	if id, ok := s.txID[num]; ok {
		return id
	}
	var id [12]byte
	h := sha1.Sum([]byte(fmt.Sprintf("tx-%d", num))) //nolint:gosec
	copy(id[:], h[:12])
	s.txID[num] = id
	s.txNum[id] = num
	return id
}

// Build renders a symbolic message to bytes with pion/stun.
func (s *Sim) Build(m Msg) []byte {
	var class stun.MessageClass
	switch m.Class {
	case 0:
		class = stun.ClassRequest
	case 1:
		class = stun.ClassIndication
	case 2:
		class = stun.ClassSuccessResponse
	default:
		class = stun.ClassErrorResponse
	}
	msg := new(stun.Message)
	msg.Type = stun.NewType(stun.Method(m.Method), class)
	msg.TransactionID = s.txFor(m.Tx)
	msg.WriteHeader()
	if m.HasUser {
		_ = stun.NewUsername(Ufrag(m.UserA) + ":" + Ufrag(m.UserB)).AddTo(msg)
	}
	if m.Use {
		_ = ice.UseCandidate().AddTo(msg)
	}
	if m.HasCtl {
		if m.Ctl {
			_ = ice.AttrControlling(m.TB).AddTo(msg)
		} else {
			_ = ice.AttrControlled(m.TB).AddTo(msg)
		}
	}
	if m.HasPrio {
		_ = ice.PriorityAttr(m.Prio).AddTo(msg)
	}
	if m.HasNom {
		_ = ice.Nomination(m.Nom).AddTo(msg)
	}
	if m.HasErr {
		_ = stun.ErrorCodeAttribute{Code: stun.ErrorCode(m.Err), Reason: []byte("x")}.AddTo(msg)
	}
	if m.HasXor {
		_ = (&stun.XORMappedAddress{IP: m.Xor.NetIP().AsSlice(), Port: m.Xor.Port}).AddTo(msg)
	}
	if m.HasKey {
		_ = stun.NewShortTermIntegrity(Pwd(m.Key)).AddTo(msg)
		s.pwds[m.Key] = true
	}
	_ = stun.Fingerprint.AddTo(msg)
	return msg.Raw
}

func userTok(u string) int {
	if u == "" {
		return 0
	}
	var n int
	if _, err := fmt.Sscanf(u, "ufrag%04d", &n); err != nil {
		return -1
	}
	return n
}

func pwdTok(p string) int {
	if p == "" {
		return 0
	}
	var n int
	if _, err := fmt.Sscanf(p, "password-%013d", &n); err != nil {
		return -1
	}
	return n
}

// Decode parses bytes the agent wrote into the symbolic form.
func (s *Sim) Decode(raw []byte) (Msg, error) {
	msg := &stun.Message{Raw: append([]byte(nil), raw...)}
	if err := msg.Decode(); err != nil {
		return Msg{}, err
	}
	var m Msg
	switch msg.Type.Class {
	case stun.ClassRequest:
		m.Class = 0
	case stun.ClassIndication:
		m.Class = 1
	case stun.ClassSuccessResponse:
		m.Class = 2
	default:
		m.Class = 3
	}
	m.Method = int(msg.Type.Method)
	if n, ok := s.txNum[msg.TransactionID]; ok {
		m.Tx = n
	} else {
		s.nextTx++
		s.txNum[msg.TransactionID] = s.nextTx
		s.txID[s.nextTx] = msg.TransactionID
		m.Tx = s.nextTx
	}
	var u stun.Username
	if err := u.GetFrom(msg); err == nil {
		parts := strings.SplitN(string(u), ":", 2)
		m.HasUser = true
		m.UserA = userTok(parts[0])
		if len(parts) == 2 {
			m.UserB = userTok(parts[1])
		} else {
			m.UserB = -1
		}
	}
	if msg.Contains(stun.AttrMessageIntegrity) {
		m.HasKey, m.Key = true, -1
		var keys []int
		for k := range s.pwds {
			keys = append(keys, k)
		}
		sort.Ints(keys)
		for _, k := range keys {
			if stun.MessageIntegrity([]byte(Pwd(k))).Check(msg) == nil {
				m.Key = k
				break
			}
		}
	}
	m.Use = msg.Contains(stun.AttrUseCandidate)
	var ctl ice.AttrControl
	if err := ctl.GetFrom(msg); err == nil {
		m.HasCtl, m.Ctl, m.TB = true, ctl.Role == ice.Controlling, ctl.Tiebreaker
	}
	var pr ice.PriorityAttr
	if err := pr.GetFrom(msg); err == nil {
		m.HasPrio, m.Prio = true, uint32(pr)
	}
	var nom ice.NominationAttribute
	if err := nom.GetFrom(msg); err == nil {
		m.HasNom, m.Nom = true, nom.Value
	}
	var ec stun.ErrorCodeAttribute
	if err := ec.GetFrom(msg); err == nil {
		m.HasErr, m.Err = true, int(ec.Code)
	}
	var xa stun.XORMappedAddress
	if err := xa.GetFrom(msg); err == nil {
		if ip, ok := netip.AddrFromSlice(xa.IP); ok {
			m.HasXor, m.Xor = true, AddrOf(netip.AddrPortFrom(ip, uint16(xa.Port)))
		}
	}
	return m, nil
}
