package agenth

import (
	"fmt"
	"math/rand"
	"net/netip"
	"time"

	ice "github.com/pion/ice/v4"
)

// Two real agents wired through a harness-owned network (suite "pair", C01 / C05 / C20).
// Every operation on an agent is the same Op the core suite uses, so each agent's half of the run is
// a core history (judged by the core model and monitors); the pair-level facts go into a summary.

// Endpoint is one local candidate of a side: its socket address (base) and the address the
// other side sees packets from it come from / sends to in order to reach it (public).
type Endpoint struct {
	H      int
	Base   Addr
	Public Addr
	Typ    int // candidate type signalled to the peer (1 host, 2 srflx)
}

// Topology of a two-agent run.
type Topology struct {
	A, B []Endpoint
	// Reach[i][j]: datagrams from A's endpoint i to B's endpoint j are delivered; Back[j][i] the reverse.
	Reach [][]bool
	Back  [][]bool
}

func (t Topology) Bidirectional() bool {
	for i := range t.A {
		for j := range t.B {
			if t.Reach[i][j] && t.Back[j][i] {
				return true
			}
		}
	}
	return false
}

type flight struct {
	to      int // 0 = A, 1 = B
	lh      int
	src     Addr
	raw     []byte
	fromEP  int
	toEP    int
	request bool
}

// Pair is the two-agent simulation.
type Pair struct {
	R      *rand.Rand
	S      [2]*Sim
	Topo   Topology
	Case   [2][]string
	Obs    [2][]string
	net    []flight
	EverConnected [2]bool
	EverSelected  [2]bool
	Restarted     bool
	nops   [2]int
	nextPeerTx [2]int
	Stats  map[string]int
	MaxNom uint32
	RenomLost bool            // a renomination request or the response to one was dropped
	renomTx   map[[12]byte]bool
	// Victim: the first VictimLeft Binding requests sent by side Victim[0] from its endpoint Victim[1] to the
	// peer's endpoint Victim[2] are lost (well inside the retry budget): that pair becomes valid on the peer's
	// side long before it does on this side.
	Victim     *[3]int
	VictimLeft int
}

func (p *Pair) eps(side int) []Endpoint {
	if side == 0 {
		return p.Topo.A
	}
	return p.Topo.B
}

// do runs an op on one side and records it in that side's core history.
func (p *Pair) do(side int, o Op) []string {
	ct, ot := p.S[side].Do(o)
	if p.nops[side] == 0 {
		p.Case[side] = append([]string{}, p.S[side].CfgToks()...)
	} else {
		p.Obs[side] = append(p.Obs[side], ";")
	}
	p.Case[side] = append(p.Case[side], ";")
	p.Case[side] = append(p.Case[side], ct...)
	p.Obs[side] = append(p.Obs[side], ot...)
	p.nops[side]++
	p.collect(side)
	snap := ice.VerifSnap(p.S[side].A)
	if snap.ConnectionState == ice.ConnectionStateConnected {
		p.EverConnected[side] = true
	}
	if snap.HasSelected {
		p.EverSelected[side] = true
	}
	return ot
}

// collect moves what the agent wrote to its sockets into the network (subject to reachability).
func (p *Pair) collect(side int) {
	s := p.S[side]
	s.mu.Lock()
	wires := append([]wire(nil), s.wires...)
	s.mu.Unlock()
	other := 1 - side
	for _, w := range wires {
		fromEP := -1
		for i, e := range p.eps(side) {
			if e.H == w.lh {
				fromEP = i
			}
		}
		if fromEP < 0 {
			continue
		}
		dst := AddrOf(w.dst)
		toEP := -1
		for j, e := range p.eps(other) {
			if e.Public.IP.Cmp(dst.IP) == 0 && e.Public.Port == dst.Port && e.Public.V6 == dst.V6 {
				toEP = j
			}
		}
		if toEP < 0 {
			p.Stats["sent_to_nowhere"]++
			continue
		}
		ok := false
		if side == 0 {
			ok = p.Topo.Reach[fromEP][toEP]
		} else {
			ok = p.Topo.Back[fromEP][toEP]
		}
		if !ok {
			p.Stats["dropped_unreachable"]++
			continue
		}
		if p.Victim != nil && p.VictimLeft > 0 && side == p.Victim[0] && fromEP == p.Victim[1] && toEP == p.Victim[2] && isStun(w.raw) {
			if m, err := s.Decode(w.raw); err == nil && m.Class == 0 {
				p.VictimLeft--
				p.Stats["dropped_victim_request"]++
				continue
			}
		}
		if isStun(w.raw) {
			if m, err := s.Decode(w.raw); err == nil && m.Class == 0 && m.HasNom {
				if p.renomTx == nil {
					p.renomTx = map[[12]byte]bool{}
				}
				var id [12]byte
				copy(id[:], w.raw[8:20])
				p.renomTx[id] = true
			}
		}
		p.net = append(p.net, flight{to: other, lh: p.eps(other)[toEP].H, src: p.eps(side)[fromEP].Public,
			raw: w.raw, fromEP: fromEP, toEP: toEP, request: isStun(w.raw)})
	}
}

// deliver hands in-flight datagram i to its destination agent.
func (p *Pair) deliver(i int, keep bool) {
	f := p.net[i]
	if !keep {
		p.net = append(p.net[:i], p.net[i+1:]...)
	}
	s := p.S[f.to]
	if _, live := s.locals[f.lh]; !live {
		p.Stats["delivered_to_dead_socket"]++
		return
	}
	if isStun(f.raw) {
		// express the peer's datagram in the receiving side's token language
		var id [12]byte
		copy(id[:], f.raw[8:20])
		if _, known := s.txNum[id]; !known {
			p.nextPeerTx[f.to]++
			n := 2000000 + p.nextPeerTx[f.to]
			s.txNum[id] = n
			s.txID[n] = id
		}
		m, err := s.Decode(f.raw)
		if err != nil {
			return
		}
		p.do(f.to, Op{Kind: "IS", LH: f.lh, Src: f.src, Msg: m})
		return
	}
	pl, ok := p.S[1-f.to].payloads[string(f.raw)]
	if !ok {
		return
	}
	p.do(f.to, Op{Kind: "ID", LH: f.lh, Src: f.src, Payload: pl})
}

func (p *Pair) deliverAll() {
	for guard := 0; len(p.net) > 0 && guard < 400; guard++ {
		p.deliver(p.R.Intn(len(p.net)), false)
	}
}

// signal gives side `to` the other side's candidates (in random order, possibly with duplicates).
func (p *Pair) signal(to int, base int) {
	from := 1 - to
	eps := append([]Endpoint(nil), p.eps(from)...)
	p.R.Shuffle(len(eps), func(i, j int) { eps[i], eps[j] = eps[j], eps[i] })
	for k, e := range eps {
		c := Cand{H: base + k, Typ: e.Typ, Net: 1, Addr: e.Public, Comp: 1}
		if e.Typ == 2 {
			c.HasRel, c.RelIP, c.RelPort = true, e.Base.IP, e.Base.Port
		}
		p.do(to, Op{Kind: "AR", Cand: c})
	}
}

func (p *Pair) addLocals(side int) {
	for _, e := range p.eps(side) {
		p.do(side, Op{Kind: "AL", Cand: Cand{H: e.H, Typ: 1, Net: 1, Addr: e.Base, Comp: 1}})
	}
}

// RandomTopology draws 1..3 endpoints per side, host or NATed, and a reachability matrix.
func RandomTopology(r *rand.Rand) Topology {
	var t Topology
	na, nb := 1+r.Intn(3), 1+r.Intn(3)
	for i := 0; i < na; i++ {
		e := Endpoint{H: i + 1, Base: V4(10, 1, 0, byte(i+1), 5000+i), Typ: 1}
		e.Public = e.Base
		if r.Intn(3) == 0 {
			e.Public, e.Typ = V4(198, 51, 100, byte(i+1), 15000+i), 2
		}
		t.A = append(t.A, e)
	}
	for j := 0; j < nb; j++ {
		e := Endpoint{H: j + 1, Base: V4(10, 2, 0, byte(j+1), 6000+j), Typ: 1}
		e.Public = e.Base
		if r.Intn(3) == 0 {
			e.Public, e.Typ = V4(203, 0, 113, byte(j+1), 16000+j), 2
		}
		t.B = append(t.B, e)
	}
	mode := r.Intn(10)
	t.Reach = make([][]bool, na)
	t.Back = make([][]bool, nb)
	for j := range t.Back {
		t.Back[j] = make([]bool, na)
	}
	for i := 0; i < na; i++ {
		t.Reach[i] = make([]bool, nb)
		for j := 0; j < nb; j++ {
			switch {
			case mode < 4: // fully connected
				t.Reach[i][j], t.Back[j][i] = true, true
			case mode < 8: // random, possibly one-way links
				t.Reach[i][j], t.Back[j][i] = r.Intn(3) != 0, r.Intn(3) != 0
			case mode == 8: // one-way only: nothing bidirectional
				if r.Intn(2) == 0 {
					t.Reach[i][j] = true
				} else {
					t.Back[j][i] = true
				}
			default: // no connectivity at all
			}
		}
	}
	return t
}

func (t Topology) Toks() []string {
	tk := []string{fmt.Sprint(len(t.A)), fmt.Sprint(len(t.B))}
	for _, e := range t.A {
		tk = append(tk, fmt.Sprint(e.H))
		tk = append(tk, e.Public.Toks()...)
	}
	for _, e := range t.B {
		tk = append(tk, fmt.Sprint(e.H))
		tk = append(tk, e.Public.Toks()...)
	}
	for i := range t.A {
		for j := range t.B {
			tk = append(tk, b2s(t.Reach[i][j]), b2s(t.Back[j][i]))
		}
	}
	return tk
}

// selTok renders a side's final selection: conn, selected?(local handle, remote address).
func selToks(s *Sim) []string {
	snap := ice.VerifSnap(s.A)
	t := []string{fmt.Sprint(int(snap.ConnectionState)), b2s(snap.Controlling)}
	if snap.HasSelected {
		for _, p := range snap.Pairs {
			if p.ID == snap.SelectedID {
				h, ok := s.localH[p.Local.ID()]
				if !ok {
					h = -1
				}
				t = append(t, "1", fmt.Sprint(h))
				ip, _ := netip.ParseAddr(p.Remote.Address())
				t = append(t, AddrOf(netip.AddrPortFrom(ip, uint16(p.Remote.Port()))).Toks()...)
				return t
			}
		}
	}
	return append(t, "0")
}

// ---- exported driver API for the suite ---------------------------------------------------------

func NewPair(r *rand.Rand, a, b *Sim, topo Topology) *Pair {
	return &Pair{R: r, S: [2]*Sim{a, b}, Topo: topo, Stats: map[string]int{}}
}

func (p *Pair) Do(side int, o Op) []string { return p.do(side, o) }
func (p *Pair) AddLocals(side int)        { p.addLocals(side) }
func (p *Pair) Signal(to, base int)       { p.signal(to, base) }
func (p *Pair) DeliverAll()               { p.deliverAll() }
func (p *Pair) InFlight() int             { return len(p.net) }

// SetVictim arms the selective loss (see Pair.Victim).
func (p *Pair) SetVictim(side, fromEP, toEP, n int) { p.Victim = &[3]int{side, fromEP, toEP}; p.VictimLeft = n }
func (p *Pair) SelToks(side int) []string { return selToks(p.S[side]) }

func (p *Pair) MaxOp() time.Duration {
	if p.S[0].MaxOp > p.S[1].MaxOp {
		return p.S[0].MaxOp
	}
	return p.S[1].MaxOp
}

func (p *Pair) BothConnected() bool {
	for side := 0; side < 2; side++ {
		if ice.VerifSnap(p.S[side].A).ConnectionState != ice.ConnectionStateConnected {
			return false
		}
	}
	return true
}

// Lossy treats every in-flight datagram once: deliver, drop, duplicate or delay.
func (p *Pair) Lossy() {
	n := len(p.net)
	var later []flight
	pending := append([]flight(nil), p.net[:n]...)
	p.net = p.net[n:]
	p.R.Shuffle(len(pending), func(i, j int) { pending[i], pending[j] = pending[j], pending[i] })
	for _, f := range pending {
		switch x := p.R.Intn(10); {
		case x < 5:
			p.net = append(p.net, f)
			p.deliver(len(p.net)-1, false)
		case x < 8:
			p.Stats["dropped"]++
			p.noteLoss(f)
		case x < 9:
			p.net = append(p.net, f)
			p.deliver(len(p.net)-1, true)
			p.deliver(len(p.net)-1, false)
			p.Stats["duplicated"]++
		default:
			later = append(later, f)
		}
	}
	p.net = append(p.net, later...)
}

// Renominate lets the controlling side renominate a random validated pair with the next value.
func (p *Pair) Renominate() (int, int, Addr, bool) {
	for side := 0; side < 2; side++ {
		s := p.S[side]
		snap := ice.VerifSnap(s.A)
		if !snap.Controlling {
			continue
		}
		var cands []ice.VerifPairSnap
		for _, pr := range snap.Pairs {
			if pr.State == ice.CandidatePairStateSucceeded {
				cands = append(cands, pr)
			}
		}
		if len(cands) == 0 {
			return 0, 0, Addr{}, false
		}
		pr := cands[p.R.Intn(len(cands))]
		if p.Victim != nil && side != p.Victim[0] && p.R.Intn(4) != 0 {
			// prefer the pair whose reverse checks were lost
			want := p.eps(side)[p.Victim[2]]
			peer := p.eps(1 - side)[p.Victim[1]].Public
			for _, c := range cands {
				if h, ok := s.localH[c.Local.ID()]; ok && h == want.H && c.Remote.Port() == peer.Port {
					if ip, err := netip.ParseAddr(c.Remote.Address()); err == nil && AddrOf(netip.AddrPortFrom(ip, uint16(c.Remote.Port()))).IP.Cmp(peer.IP) == 0 {
						pr = c
					}
				}
			}
		}
		lh, ok := s.localH[pr.Local.ID()]
		if !ok {
			return 0, 0, Addr{}, false
		}
		rh := -1
		for h, rc := range s.remotes {
			if rc.Equal(pr.Remote) {
				rh = h
			}
		}
		if rh < 0 {
			return 0, 0, Addr{}, false
		}
		p.MaxNom++
		p.do(side, Op{Kind: "RN", A: lh, B: rh, V: p.MaxNom})
		ip, _ := netip.ParseAddr(pr.Remote.Address())
		return side, lh, AddrOf(netip.AddrPortFrom(ip, uint16(pr.Remote.Port()))), true
	}
	return 0, 0, Addr{}, false
}

// RestartBoth restarts both agents with new credentials and re-signals everything.
func (p *Pair) RestartBoth(credA, credB int) {
	p.Restarted = true
	p.net = nil
	p.do(0, Op{Kind: "RS", A: credA, B: credA})
	p.do(1, Op{Kind: "RS", A: credB, B: credB})
	// new sockets: new handles
	for side := 0; side < 2; side++ {
		eps := p.eps(side)
		for i := range eps {
			eps[i].H += 10
		}
	}
	p.addLocals(0)
	p.addLocals(1)
	p.do(0, Op{Kind: "SC", A: credB, B: credB})
	p.do(1, Op{Kind: "SC", A: credA, B: credA})
	p.signal(0, 301)
	p.signal(1, 301)
}

// noteLoss records whether a dropped datagram belonged to a renomination (sent once, never retransmitted).
func (p *Pair) noteLoss(f flight) {
	if !isStun(f.raw) || len(f.raw) < 20 {
		return
	}
	var id [12]byte
	copy(id[:], f.raw[8:20])
	if p.renomTx[id] {
		p.RenomLost = true
	}
}
