package agenth

import (
	"fmt"
	"math/rand"
	"net/netip"
	"time"

	ice "github.com/pion/ice/v4"
)

// Two real agents wired through a harness-owned network (suite "pair", C01 / C05 / C20).
// Every operation on an agent is the same Op the core suite uses, so each agent's half of the run is
// a core history (judged by the core model and monitors); the pair-level facts go into a summary.

// Endpoint is one local candidate of a side: its socket address (base) and the address the
// other side sees packets from it come from / sends to in order to reach it (public).
type Endpoint struct {
	H      int
	Base   Addr
	Public Addr
	Typ    int // candidate type signalled to the peer (1 host, 2 srflx)
}

// Topology of a two-agent run.
type Topology struct {
	A, B []Endpoint
	// Reach[i][j]: datagrams from A's endpoint i to B's endpoint j are delivered; Back[j][i] the reverse.
	Reach [][]bool
	Back  [][]bool
}

func (t Topology) Bidirectional() bool {
	for i := range t.A {
		for j := range t.B {
			if t.Reach[i][j] && t.Back[j][i] {
				return true
			}
		}
	}
	return false
}

type flight struct {
	to      int // 0 = A, 1 = B
	lh      int
	src     Addr
	raw     []byte
	fromEP  int
	toEP    int
	request bool
	id      int
}

// Pair is the two-agent simulation.
type Pair struct {
	R      *rand.Rand
	S      [2]*Sim
	Topo   Topology
	Case   [2][]string
	Obs    [2][]string
	net    []flight
	dnet   []flight // application datagrams in flight (the model's d_net), separate from the STUN ones
	EverConnected [2]bool
	EverSelected  [2]bool
	Restarted     bool
	nops   [2]int
	nextPeerTx [2]int
	Stats  map[string]int
	MaxNom uint32
	RenomLost bool            // a renomination request or the response to one was dropped
	renomTx   map[[12]byte]bool
	// Victim: the first VictimLeft Binding requests sent by side Victim[0] from its endpoint Victim[1] to the
	// peer's endpoint Victim[2] are lost (well inside the retry budget): that pair becomes valid on the peer's
	// side long before it does on this side.
	Victim     *[3]int
	VictimLeft int
	// Sys is the run as a schedule of the two-agent system model (coq/Model/TwoAgents.v): API operations
	// ("A"/"B" + the operation's case tokens), DV i (deliver in-flight datagram i), DR i (drop), DU i
	// (duplicate: a copy is appended).  In-flight datagrams are kept in the same order as the model's list.
	sysOps     [][]string
	sysLens    []int
	sysDLens   []int
	SysDNet    int
	sysClosed  map[int]bool
	curSys     int
	sysFrozen  bool
	SysFinal   [2][]string // each side's last snapshot tokens when the log was frozen / at the end
	nextFlight int
	SysNet     int
	SysTopo    []string // the topology as it was while the log ran
	lastDup    int
}

func (p *Pair) eps(side int) []Endpoint {
	if side == 0 {
		return p.Topo.A
	}
	return p.Topo.B
}

// do runs an op on one side and records it in that side's core history.
func (p *Pair) sys(t ...string) int {
	if p.sysFrozen {
		return -1
	}
	p.sysOps = append(p.sysOps, t)
	p.sysLens = append(p.sysLens, len(p.net))
	p.sysDLens = append(p.sysDLens, len(p.dnet))
	return len(p.sysOps) - 1
}

// sysDone records the number of in-flight datagrams once system operation k has completed.
func (p *Pair) sysDone(k int) {
	if k >= 0 && k < len(p.sysLens) && !p.sysFrozen && !p.sysClosed[k] {
		p.sysLens[k] = len(p.net)
		p.sysDLens[k] = len(p.dnet)
		if p.sysClosed == nil {
			p.sysClosed = map[int]bool{}
		}
		p.sysClosed[k] = true
	}
}

// SysToks renders the schedule: operations separated by ";", each followed by "#" and the number of
// datagrams in flight after it (checked against the model's list by the driver).
func (p *Pair) SysToks() []string {
	var t []string
	for k, o := range p.sysOps {
		if k > 0 {
			t = append(t, ";")
		}
		t = append(t, o...)
		t = append(t, "#", fmt.Sprint(p.sysLens[k]), fmt.Sprint(p.sysDLens[k]))
	}
	return t
}

// lastSnap returns the snapshot tokens of side's most recent observation.
func (p *Pair) lastSnap(side int) []string {
	o := p.Obs[side]
	for i := len(o) - 1; i >= 0; i-- {
		if o[i] == "|" {
			return append([]string(nil), o[i+1:]...)
		}
	}
	return nil
}

// FreezeSys ends the system-level log (the per-agent histories continue).
func (p *Pair) FreezeSys() {
	if !p.sysFrozen {
		p.SysTopo = p.Topo.Toks()
		p.SysFinal[0], p.SysFinal[1] = p.lastSnap(0), p.lastSnap(1)
		p.SysNet = len(p.net)
		p.SysDNet = len(p.dnet)
		p.sysFrozen = true
	}
}

func (p *Pair) do(side int, o Op) []string {
	ct, ot := p.S[side].Do(o)
	sysK := -1
	if o.Kind != "IS" && o.Kind != "ID" {
		sysK = p.sys(append([]string{[]string{"A", "B"}[side]}, ct...)...)
	}
	if sysK >= 0 {
		p.curSys = sysK
	}
	defer func() { p.sysDone(sysK) }()
	if p.nops[side] == 0 {
		p.Case[side] = append([]string{}, p.S[side].CfgToks()...)
	} else {
		p.Obs[side] = append(p.Obs[side], ";")
	}
	p.Case[side] = append(p.Case[side], ";")
	p.Case[side] = append(p.Case[side], ct...)
	p.Obs[side] = append(p.Obs[side], ot...)
	p.nops[side]++
	p.collect(side)
	snap := ice.VerifSnap(p.S[side].A)
	if snap.ConnectionState == ice.ConnectionStateConnected {
		p.EverConnected[side] = true
	}
	if snap.HasSelected {
		p.EverSelected[side] = true
	}
	return ot
}

// collect moves what the agent wrote to its sockets into the network (subject to reachability).
func (p *Pair) collect(side int) {
	s := p.S[side]
	s.mu.Lock()
	wires := append([]wire(nil), s.wires...)
	s.mu.Unlock()
	other := 1 - side
	var victims []int
	for _, w := range wires {
		fromEP := -1
		for i, e := range p.eps(side) {
			if e.H == w.lh {
				fromEP = i
			}
		}
		if fromEP < 0 {
			continue
		}
		dst := AddrOf(w.dst)
		toEP := -1
		for j, e := range p.eps(other) {
			if e.Public.IP.Cmp(dst.IP) == 0 && e.Public.Port == dst.Port && e.Public.V6 == dst.V6 {
				toEP = j
			}
		}
		if toEP < 0 {
			p.Stats["sent_to_nowhere"]++
			continue
		}
		ok := false
		if side == 0 {
			ok = p.Topo.Reach[fromEP][toEP]
		} else {
			ok = p.Topo.Back[fromEP][toEP]
		}
		if !ok {
			p.Stats["dropped_unreachable"]++
			continue
		}
		if !isStun(w.raw) {
			// an application datagram: routed like a STUN one, kept in its own in-flight list
			p.nextFlight++
			p.dnet = append(p.dnet, flight{to: other, lh: p.eps(other)[toEP].H, src: p.eps(side)[fromEP].Public,
				raw: w.raw, fromEP: fromEP, toEP: toEP, id: p.nextFlight})
			p.Stats["data_routed"]++
			continue
		}
		victim := false
		if p.Victim != nil && p.VictimLeft > 0 && side == p.Victim[0] && fromEP == p.Victim[1] && toEP == p.Victim[2] {
			if m, err := s.Decode(w.raw); err == nil && m.Class == 0 {
				p.VictimLeft--
				p.Stats["dropped_victim_request"]++
				victim = true
			}
		}
		if isStun(w.raw) {
			if m, err := s.Decode(w.raw); err == nil && m.Class == 0 && m.HasNom {
				if p.renomTx == nil {
					p.renomTx = map[[12]byte]bool{}
				}
				var id [12]byte
				copy(id[:], w.raw[8:20])
				p.renomTx[id] = true
			}
		}
		p.nextFlight++
		p.net = append(p.net, flight{to: other, lh: p.eps(other)[toEP].H, src: p.eps(side)[fromEP].Public,
			raw: w.raw, fromEP: fromEP, toEP: toEP, request: isStun(w.raw), id: p.nextFlight})
		if victim {
			victims = append(victims, p.nextFlight)
		}
	}
	if len(victims) > 0 {
		p.sysDone(p.curSys) // the operation that wrote them is complete; the losses are events of their own
	}
	for _, id := range victims {
		p.drop(p.indexOf(id))
	}
}

// DataInFlight is the number of application datagrams in flight.
func (p *Pair) DataInFlight() int { return len(p.dnet) }

// DropData loses application datagram i; DeliverData hands it to its destination agent (keep: a copy stays in flight,
// appended at the end as in the model's DDup).
func (p *Pair) DropData(i int) {
	p.dnet = append(p.dnet[:i], p.dnet[i+1:]...)
	p.sys("XR", fmt.Sprint(i))
}

func (p *Pair) DeliverData(i int, keep bool) {
	f := p.dnet[i]
	if keep {
		p.nextFlight++
		c := f
		c.id = p.nextFlight
		p.dnet = append(p.dnet, c)
		p.sys("XU", fmt.Sprint(i))
	}
	p.dnet = append(p.dnet[:i], p.dnet[i+1:]...)
	k := p.sys("XV", fmt.Sprint(i))
	p.curSys = k
	defer func() { p.sysDone(k) }()
	s := p.S[f.to]
	if _, live := s.locals[f.lh]; !live {
		p.Stats["data_delivered_to_dead_socket"]++
		return
	}
	pl, ok := p.S[1-f.to].payloads[string(f.raw)]
	if !ok {
		return
	}
	p.do(f.to, Op{Kind: "ID", LH: f.lh, Src: f.src, Payload: pl})
}

func (p *Pair) indexOf(id int) int {
	for i, f := range p.net {
		if f.id == id {
			return i
		}
	}
	return -1
}

// drop loses in-flight datagram i.
func (p *Pair) drop(i int) {
	if i < 0 {
		return
	}
	p.noteLoss(p.net[i])
	p.net = append(p.net[:i], p.net[i+1:]...)
	p.sys("DR", fmt.Sprint(i))
}

// deliver hands in-flight datagram i to its destination agent.
func (p *Pair) deliver(i int, keep bool) {
	f := p.net[i]
	if keep { // the copy that stays in flight goes to the end (as in the model's SDup)
		p.nextFlight++
		c := f
		c.id = p.nextFlight
		p.lastDup = c.id
		p.net = append(p.net, c)
		p.sys("DU", fmt.Sprint(i))
	}
	p.net = append(p.net[:i], p.net[i+1:]...)
	dvK := p.sys("DV", fmt.Sprint(i))
	p.curSys = dvK
	defer func() { p.sysDone(dvK) }()
	s := p.S[f.to]
	if _, live := s.locals[f.lh]; !live {
		p.Stats["delivered_to_dead_socket"]++
		return
	}
	if isStun(f.raw) {
		// express the peer's datagram in the receiving side's token language
		var id [12]byte
		copy(id[:], f.raw[8:20])
		if _, known := s.txNum[id]; !known {
			p.nextPeerTx[f.to]++
			n := 2000000 + p.nextPeerTx[f.to]
			s.txNum[id] = n
			s.txID[n] = id
		}
		m, err := s.Decode(f.raw)
		if err != nil {
			return
		}
		p.do(f.to, Op{Kind: "IS", LH: f.lh, Src: f.src, Msg: m})
		return
	}
	pl, ok := p.S[1-f.to].payloads[string(f.raw)]
	if !ok {
		return
	}
	p.do(f.to, Op{Kind: "ID", LH: f.lh, Src: f.src, Payload: pl})
}

func (p *Pair) deliverAll() {
	for guard := 0; len(p.net) > 0 && guard < 400; guard++ {
		p.deliver(p.R.Intn(len(p.net)), false)
	}
}

// signal gives side `to` the other side's candidates (in random order, possibly with duplicates).
func (p *Pair) signal(to int, base int) {
	from := 1 - to
	eps := append([]Endpoint(nil), p.eps(from)...)
	p.R.Shuffle(len(eps), func(i, j int) { eps[i], eps[j] = eps[j], eps[i] })
	for k, e := range eps {
		c := Cand{H: base + k, Typ: e.Typ, Net: 1, Addr: e.Public, Comp: 1}
		if e.Typ == 2 {
			c.HasRel, c.RelIP, c.RelPort = true, e.Base.IP, e.Base.Port
		}
		p.do(to, Op{Kind: "AR", Cand: c})
	}
}

func (p *Pair) addLocals(side int) {
	for _, e := range p.eps(side) {
		p.do(side, Op{Kind: "AL", Cand: Cand{H: e.H, Typ: 1, Net: 1, Addr: e.Base, Comp: 1}})
	}
}

// RandomTopology draws 1..3 endpoints per side, host or NATed, and a reachability matrix.
func RandomTopology(r *rand.Rand) Topology {
	var t Topology
	na, nb := 1+r.Intn(3), 1+r.Intn(3)
	for i := 0; i < na; i++ {
		e := Endpoint{H: i + 1, Base: V4(10, 1, 0, byte(i+1), 5000+i), Typ: 1}
		e.Public = e.Base
		if r.Intn(3) == 0 {
			e.Public, e.Typ = V4(198, 51, 100, byte(i+1), 15000+i), 2
		}
		t.A = append(t.A, e)
	}
	for j := 0; j < nb; j++ {
		e := Endpoint{H: j + 1, Base: V4(10, 2, 0, byte(j+1), 6000+j), Typ: 1}
		e.Public = e.Base
		if r.Intn(3) == 0 {
			e.Public, e.Typ = V4(203, 0, 113, byte(j+1), 16000+j), 2
		}
		t.B = append(t.B, e)
	}
	mode := r.Intn(10)
	t.Reach = make([][]bool, na)
	t.Back = make([][]bool, nb)
	for j := range t.Back {
		t.Back[j] = make([]bool, na)
	}
	for i := 0; i < na; i++ {
		t.Reach[i] = make([]bool, nb)
		for j := 0; j < nb; j++ {
			switch {
			case mode < 4: // fully connected
				t.Reach[i][j], t.Back[j][i] = true, true
			case mode < 8: // random, possibly one-way links
				t.Reach[i][j], t.Back[j][i] = r.Intn(3) != 0, r.Intn(3) != 0
			case mode == 8: // one-way only: nothing bidirectional
				if r.Intn(2) == 0 {
					t.Reach[i][j] = true
				} else {
					t.Back[j][i] = true
				}
			default: // no connectivity at all
			}
		}
	}
	return t
}

func (t Topology) Toks() []string {
	tk := []string{fmt.Sprint(len(t.A)), fmt.Sprint(len(t.B))}
	for _, e := range t.A {
		tk = append(tk, fmt.Sprint(e.H))
		tk = append(tk, e.Public.Toks()...)
	}
	for _, e := range t.B {
		tk = append(tk, fmt.Sprint(e.H))
		tk = append(tk, e.Public.Toks()...)
	}
	for i := range t.A {
		for j := range t.B {
			tk = append(tk, b2s(t.Reach[i][j]), b2s(t.Back[j][i]))
		}
	}
	return tk
}

// selTok renders a side's final selection: conn, selected?(local handle, remote address).
func selToks(s *Sim) []string {
	snap := ice.VerifSnap(s.A)
	t := []string{fmt.Sprint(int(snap.ConnectionState)), b2s(snap.Controlling)}
	if snap.HasSelected {
		for _, p := range snap.Pairs {
			if p.ID == snap.SelectedID {
				h, ok := s.localH[p.Local.ID()]
				if !ok {
					h = -1
				}
				t = append(t, "1", fmt.Sprint(h))
				ip, _ := netip.ParseAddr(p.Remote.Address())
				t = append(t, AddrOf(netip.AddrPortFrom(ip, uint16(p.Remote.Port()))).Toks()...)
				return t
			}
		}
	}
	return append(t, "0")
}

// ---- exported driver API for the suite ---------------------------------------------------------

func NewPair(r *rand.Rand, a, b *Sim, topo Topology) *Pair {
	return &Pair{R: r, S: [2]*Sim{a, b}, Topo: topo, Stats: map[string]int{}}
}

func (p *Pair) Do(side int, o Op) []string { return p.do(side, o) }
func (p *Pair) AddLocals(side int)        { p.addLocals(side) }
func (p *Pair) Signal(to, base int)       { p.signal(to, base) }
func (p *Pair) DeliverAll()               { p.deliverAll() }
func (p *Pair) InFlight() int             { return len(p.net) }

// SetVictim arms the selective loss (see Pair.Victim).
func (p *Pair) SetVictim(side, fromEP, toEP, n int) { p.Victim = &[3]int{side, fromEP, toEP}; p.VictimLeft = n }
func (p *Pair) SelToks(side int) []string { return selToks(p.S[side]) }

func (p *Pair) MaxOp() time.Duration {
	if p.S[0].MaxOp > p.S[1].MaxOp {
		return p.S[0].MaxOp
	}
	return p.S[1].MaxOp
}

func (p *Pair) BothConnected() bool {
	for side := 0; side < 2; side++ {
		if ice.VerifSnap(p.S[side].A).ConnectionState != ice.ConnectionStateConnected {
			return false
		}
	}
	return true
}

// Lossy treats every in-flight datagram once: deliver, drop, duplicate or delay.
func (p *Pair) Lossy() {
	var ids []int
	for _, f := range p.net {
		ids = append(ids, f.id)
	}
	p.R.Shuffle(len(ids), func(i, j int) { ids[i], ids[j] = ids[j], ids[i] })
	for _, id := range ids {
		i := p.indexOf(id)
		if i < 0 {
			continue
		}
		switch x := p.R.Intn(10); {
		case x < 5:
			p.deliver(i, false)
		case x < 8:
			p.Stats["dropped"]++
			p.drop(i)
		case x < 9:
			p.deliver(i, true)
			if j := p.indexOf(p.copyOf(id)); j >= 0 {
				p.deliver(j, false)
			}
			p.Stats["duplicated"]++
		default: // stays in flight
		}
	}
}

// copyOf returns the id of the most recent in-flight copy with the same bytes as flight id had (the duplicate just made).
func (p *Pair) copyOf(id int) int {
	best := -1
	for _, f := range p.net {
		if f.id > id && f.id > best && f.id == p.lastDup {
			best = f.id
		}
	}
	return best
}

// Renominate lets the controlling side renominate a random validated pair with the next value.
func (p *Pair) Renominate() (int, int, Addr, bool) {
	for side := 0; side < 2; side++ {
		s := p.S[side]
		snap := ice.VerifSnap(s.A)
		if !snap.Controlling {
			continue
		}
		var cands []ice.VerifPairSnap
		for _, pr := range snap.Pairs {
			if pr.State == ice.CandidatePairStateSucceeded {
				cands = append(cands, pr)
			}
		}
		if len(cands) == 0 {
			return 0, 0, Addr{}, false
		}
		pr := cands[p.R.Intn(len(cands))]
		if p.Victim != nil && side != p.Victim[0] && p.R.Intn(4) != 0 {
			// prefer the pair whose reverse checks were lost
			want := p.eps(side)[p.Victim[2]]
			peer := p.eps(1 - side)[p.Victim[1]].Public
			for _, c := range cands {
				if h, ok := s.localH[c.Local.ID()]; ok && h == want.H && c.Remote.Port() == peer.Port {
					if ip, err := netip.ParseAddr(c.Remote.Address()); err == nil && AddrOf(netip.AddrPortFrom(ip, uint16(c.Remote.Port()))).IP.Cmp(peer.IP) == 0 {
						pr = c
						p.VictimLeft = 0 // from now on the other side's checks on this pair get through
					}
				}
			}
		}
		// once a renomination is under way the selective loss ends, whichever pair was chosen: the monitors judge
		// runs in which every check is eventually delivered within the retry budget
		p.VictimLeft = 0
		lh, ok := s.localH[pr.Local.ID()]
		if !ok {
			return 0, 0, Addr{}, false
		}
		rh := -1
		for h, rc := range s.remotes {
			if rc.Equal(pr.Remote) {
				rh = h
			}
		}
		if rh < 0 {
			return 0, 0, Addr{}, false
		}
		p.MaxNom++
		p.do(side, Op{Kind: "RN", A: lh, B: rh, V: p.MaxNom})
		ip, _ := netip.ParseAddr(pr.Remote.Address())
		return side, lh, AddrOf(netip.AddrPortFrom(ip, uint16(pr.Remote.Port()))), true
	}
	return 0, 0, Addr{}, false
}

// RestartBoth restarts both agents with new credentials and re-signals everything.
func (p *Pair) RestartBoth(credA, credB int) {
	p.FreezeSys() // new sockets get new handles: outside the fixed topology of the system model
	p.Restarted = true
	p.net = nil
	p.dnet = nil
	p.do(0, Op{Kind: "RS", A: credA, B: credA})
	p.do(1, Op{Kind: "RS", A: credB, B: credB})
	// new sockets: new handles
	for side := 0; side < 2; side++ {
		eps := p.eps(side)
		for i := range eps {
			eps[i].H += 10
		}
	}
	p.addLocals(0)
	p.addLocals(1)
	p.do(0, Op{Kind: "SC", A: credB, B: credB})
	p.do(1, Op{Kind: "SC", A: credA, B: credA})
	p.signal(0, 301)
	p.signal(1, 301)
}

// noteLoss records whether a dropped datagram belonged to a renomination (sent once, never retransmitted).
func (p *Pair) noteLoss(f flight) {
	if !isStun(f.raw) || len(f.raw) < 20 {
		return
	}
	var id [12]byte
	copy(id[:], f.raw[8:20])
	if p.renomTx[id] {
		p.RenomLost = true
	}
}
