package agenth

import "time"

// Scripted prefixes: a history may start with a scenario that steers the agent into a state that
// uniform random generation reaches only rarely (a selected pair followed by long silence, a
// restart with unchanged peer credentials and an answer to a request of the ended generation, a
// restart while Disconnected, candidates of two transports on one remote address, a deferred
// nomination, a superseded peer-reflexive candidate, ...).  Each step is drawn when it is due, from
// the generator's current view of the agent; the random generator continues after the script.

type step func(g *Gen) (Op, string, bool)

// Scenarios lists the available scripts (index 0 = none).
var Scenarios = []string{"", "connect", "silence", "restart_same_creds", "restart_disconnected", "fail_restart",
	"late_response", "two_transports", "multi_pair", "prflx_supersede", "zero_failed_timeout", "foreign_indication", "neighbour_port", "stale_deferred", "supersede_renom", "deferred_then_plain"}

func (g *Gen) sAL(i int) step {
	return func(g *Gen) (Op, string, bool) {
		c := localPool[i]
		c.H = g.nextLH
		g.nextLH++
		return Op{Kind: "AL", Cand: c}, "add_local", true
	}
}

func (g *Gen) sAR(i int) step {
	return func(g *Gen) (Op, string, bool) {
		c := remotePool[i]
		c.H = g.nextRH
		g.nextRH++
		return Op{Kind: "AR", Cand: c}, "add_remote", true
	}
}

func sStart(ctl bool) step {
	return func(g *Gen) (Op, string, bool) {
		g.RU, g.RP = g.newCred(), g.newCred()
		return Op{Kind: "ST", Ctl: ctl, A: g.RU, B: g.RP}, "start", true
	}
}

func sTick(g *Gen) (Op, string, bool) { return Op{Kind: "TK"}, "tick", true }

func sAdvance(d time.Duration) step {
	return func(g *Gen) (Op, string, bool) {
		if g.nAdv >= MaxAdvances || d <= 0 {
			return Op{}, "", false
		}
		g.nAdv++
		return Op{Kind: "AV", D: d + Skew}, "advance", true
	}
}

// answer the oldest (or newest) outstanding request of the agent correctly
func sAnswer(newest bool) step {
	return func(g *Gen) (Op, string, bool) {
		if len(g.outReq) == 0 {
			return Op{}, "", false
		}
		req := g.outReq[0]
		if newest {
			req = g.outReq[len(g.outReq)-1]
		}
		m := Msg{Class: 2, Method: 1, HasKey: true, Key: g.RP, Tx: req.tx}
		for _, l := range g.locals {
			if l.H == req.lh {
				m.HasXor, m.Xor = true, l.Addr
			}
		}
		g.remove(req.tx)
		return Op{Kind: "IS", LH: req.lh, Src: req.dst, Msg: m}, "resp_ok", true
	}
}

// answer the outstanding request towards remote candidate number ri (in order of addition)
func sAnswerTo(ri int) step {
	return func(g *Gen) (Op, string, bool) {
		if ri >= len(g.remotes) {
			return Op{}, "", false
		}
		a := g.remotes[ri].Addr
		for i := len(g.outReq) - 1; i >= 0; i-- {
			req := g.outReq[i]
			if req.dst.IP.Cmp(a.IP) == 0 && req.dst.Port == a.Port {
				m := Msg{Class: 2, Method: 1, HasKey: true, Key: g.RP, Tx: req.tx}
				for _, l := range g.locals {
					if l.H == req.lh {
						m.HasXor, m.Xor = true, l.Addr
					}
				}
				g.remove(req.tx)
				return Op{Kind: "IS", LH: req.lh, Src: req.dst, Msg: m}, "resp_ok", true
			}
		}
		return Op{}, "", false
	}
}

// a well-formed check from remote candidate ri to local li; use: USE-CANDIDATE; nom: 0 none, >0 bump by nom
func sPeerReq(li, ri int, use bool, nom int) step {
	return func(g *Gen) (Op, string, bool) {
		if li >= len(g.locals) || ri >= len(g.remotes) {
			return Op{}, "", false
		}
		g.nextPeerTx++
		m := Msg{Class: 0, Method: 1, Tx: g.nextPeerTx, HasUser: true, UserA: g.LU, UserB: g.RU, HasKey: true, Key: g.LP,
			HasCtl: true, Ctl: !g.Ctl, TB: g.R.Uint64(), HasPrio: true, Prio: uint32(1 + g.R.Intn(1<<30))}
		tag := "req_known"
		if use && !g.Ctl {
			m.Use = true
			tag += "_use"
			if nom > 0 && g.S.cfg.Renomination {
				g.peerNom += uint32(nom)
				m.HasNom, m.Nom = true, g.peerNom
				tag += "_nom"
			}
		}
		return Op{Kind: "IS", LH: g.locals[li].H, Src: g.remotes[ri].Addr, Msg: m}, tag, true
	}
}

func sPeerReqFrom(li int, src Addr, use bool) step {
	return func(g *Gen) (Op, string, bool) {
		if li >= len(g.locals) {
			return Op{}, "", false
		}
		g.nextPeerTx++
		m := Msg{Class: 0, Method: 1, Tx: g.nextPeerTx, HasUser: true, UserA: g.LU, UserB: g.RU, HasKey: true, Key: g.LP,
			HasCtl: true, Ctl: !g.Ctl, TB: g.R.Uint64(), HasPrio: true, Prio: uint32(1 + g.R.Intn(1<<30)), Use: use && !g.Ctl}
		return Op{Kind: "IS", LH: g.locals[li].H, Src: src, Msg: m}, "req_unknown", true
	}
}

// a well-formed nominating check arriving on a socket the agent may have released (in flight when it failed)
func sPeerReqOldSocket(idx int, src Addr) step {
	return func(g *Gen) (Op, string, bool) {
		if idx >= len(g.everLocals) {
			return Op{}, "", false
		}
		g.nextPeerTx++
		m := Msg{Class: 0, Method: 1, Tx: g.nextPeerTx, HasUser: true, UserA: g.LU, UserB: g.RU, HasKey: true, Key: g.LP,
			HasCtl: true, Ctl: !g.Ctl, TB: g.R.Uint64(), HasPrio: true, Prio: uint32(1 + g.R.Intn(1<<30)), Use: !g.Ctl}
		return Op{Kind: "IS", LH: g.everLocals[idx].H, Src: src, Msg: m}, "req_on_released_socket", true
	}
}

// a renomination (next value) from an address that is not a known remote candidate
func sPeerRenomFrom(li int, src Addr) step {
	return func(g *Gen) (Op, string, bool) {
		if li >= len(g.locals) || g.Ctl {
			return Op{}, "", false
		}
		g.nextPeerTx++
		m := Msg{Class: 0, Method: 1, Tx: g.nextPeerTx, HasUser: true, UserA: g.LU, UserB: g.RU, HasKey: true, Key: g.LP,
			HasCtl: true, Ctl: true, TB: g.R.Uint64(), HasPrio: true, Prio: uint32(1 + g.R.Intn(1<<20)), Use: true}
		if g.S.cfg.Renomination {
			g.peerNom++
			m.HasNom, m.Nom = true, g.peerNom
		}
		return Op{Kind: "IS", LH: g.locals[li].H, Src: src, Msg: m}, "req_unknown_use_nom", true
	}
}

func sData(li, ri int) step {
	return func(g *Gen) (Op, string, bool) {
		if li >= len(g.locals) || ri >= len(g.remotes) {
			return Op{}, "", false
		}
		return Op{Kind: "ID", LH: g.locals[li].H, Src: g.remotes[ri].Addr, Payload: g.payload()}, "data_scripted", true
	}
}

// data from the known remote's IP but another port (first a neighbouring one: same 256-port block)
func sDataNeighbour(li, ri, delta int) step {
	return func(g *Gen) (Op, string, bool) {
		if li >= len(g.locals) || ri >= len(g.remotes) {
			return Op{}, "", false
		}
		a := g.remotes[ri].Addr
		a.Port += delta
		g.Mutated++
		return Op{Kind: "ID", LH: g.locals[li].H, Src: a, Payload: g.payload()}, "data_neighbour_port", true
	}
}

func sWrite(g *Gen) (Op, string, bool) { return Op{Kind: "WR", Payload: g.payload()}, "write", true }
func sRead(g *Gen) (Op, string, bool)  { return Op{Kind: "RD"}, "read", true }

func sRestart(g *Gen) (Op, string, bool) {
	g.OldLU, g.OldLP, g.OldRU, g.OldRP = g.LU, g.LP, g.RU, g.RP
	g.oldReq = append([]outstanding(nil), g.outReq...)
	return Op{Kind: "RS", A: g.newCred(), B: g.newCred()}, "restart", true
}

// the peer keeps its credentials across the restart
func sSameRemoteCreds(g *Gen) (Op, string, bool) {
	return Op{Kind: "SC", A: g.OldRU, B: g.OldRP}, "set_remote_creds_unchanged", true
}

// an authentic answer (the peer's password is unchanged) to a request of the generation ended by Restart,
// arriving on the re-added local candidate from the address the request was sent to
func sOldGenerationAnswer(g *Gen) (Op, string, bool) {
	if len(g.oldReq) == 0 || len(g.locals) == 0 {
		return Op{}, "", false
	}
	req := g.oldReq[len(g.oldReq)-1]
	g.oldReq = g.oldReq[:len(g.oldReq)-1]
	m := Msg{Class: 2, Method: 1, HasKey: true, Key: g.RP, Tx: req.tx, HasXor: true, Xor: g.locals[0].Addr}
	g.Mutated++
	return Op{Kind: "IS", LH: g.locals[0].H, Src: req.dst, Msg: m}, "resp_ended_generation_tx", true
}

func sForeignIndication(li, ri int) step {
	return func(g *Gen) (Op, string, bool) {
		if li >= len(g.locals) || ri >= len(g.remotes) {
			return Op{}, "", false
		}
		g.nextPeerTx++
		g.Mutated++
		method := []int{3, 6, 7, 8, 9}[g.pick(5)] // Allocate, Send, Data, CreatePermission, ChannelBind
		return Op{Kind: "IS", LH: g.locals[li].H, Src: g.remotes[ri].Addr, Msg: Msg{Class: 1, Method: method, Tx: g.nextPeerTx}}, "non_binding_indication", true
	}
}

func sWriteToPair(g *Gen) (Op, string, bool) {
	ids := g.pairIDs()
	if len(ids) == 0 {
		return Op{}, "", false
	}
	return Op{Kind: "WP", PairID: ids[g.pick(len(ids))], Payload: g.payload()}, "write_to_pair", true
}

func rep(n int, s ...step) []step {
	var out []step
	for i := 0; i < n; i++ {
		out = append(out, s...)
	}
	return out
}

// Plan installs the script of scenario name.  ctl is the role the agent is started in.
func (g *Gen) Plan(name string, ctl bool) {
	connect := func(li, ri int) []step {
		s := []step{g.sAL(li), g.sAR(ri), sStart(ctl), sTick, sAnswer(true)}
		s = append(s, sPeerReq(0, 0, true, 1), sTick, sAnswer(true), sTick, sAnswer(true), sPeerReq(0, 0, true, 0))
		return s
	}
	disc := g.S.cfg.Disc
	if disc < 0 {
		disc = 50 * Grid
	}
	failed := g.S.cfg.Failed
	if failed < 0 {
		failed = 250 * Grid
	}
	switch name {
	case "connect":
		g.script = connect(g.pick(2), g.pick(2))
	case "silence", "zero_failed_timeout":
		g.script = connect(0, 0)
		g.script = append(g.script, sAdvance(disc), sTick, sTick, sAdvance(Grid), sTick, sAdvance(failed), sTick, sTick, sAdvance(disc+failed), sTick, sTick,
			// (possibly) Failed by now: a late trickled candidate, a check that was in flight, then a tick
			g.sAR(1), sPeerReqOldSocket(0, unknownSrc[0]), sPeerReqOldSocket(0, remotePool[0].Addr), sTick)
	case "restart_same_creds":
		g.script = []step{g.sAL(0), g.sAR(0), sStart(ctl), sTick, sTick, sRestart, g.sAL(0), sSameRemoteCreds, g.sAR(0),
			sOldGenerationAnswer, sOldGenerationAnswer, sTick, sAnswer(true)}
	case "restart_disconnected":
		g.script = connect(0, 0)
		g.script = append(g.script, sAdvance(disc), sTick, sTick, sRestart, sTick, sAdvance(Grid), sTick, sAdvance(300*Grid), sTick, sTick)
	case "fail_restart":
		g.script = []step{g.sAL(0), sStart(ctl), sTick, sAdvance(300 * Grid), sTick, sTick, g.sAR(0), sPeerReqOldSocket(0, unknownSrc[1]), sRestart, sTick, sAdvance(Grid), sTick, sAdvance(10 * Grid), sTick}
	case "late_response":
		g.script = []step{g.sAL(0), g.sAR(0), sStart(ctl), sTick, sAdvance(40 * Grid), sAnswer(true), sTick, sAdvance(50 * Grid), sAnswer(false)}
	case "two_transports":
		// a TCP pair gets selected; datagrams then arrive on the UDP candidate from the TCP remote's address
		g.script = []step{g.sAL(6), g.sAL(0), g.sAR(8), sStart(ctl), sTick, sAnswer(true), sPeerReq(0, 0, true, 1), sTick, sAnswer(true),
			sPeerReq(0, 0, true, 0), sData(1, 0), sData(0, 0), sRead, sRead, sForeignIndication(1, 0)}
	case "multi_pair":
		// two remotes; the first pair validated and nominated, then nominations on the second before it is valid
		g.script = []step{g.sAL(0), g.sAR(0), g.sAR(1), sStart(ctl), sTick, sTick, sAnswerTo(0), sPeerReq(0, 0, true, 1),
			sPeerReq(0, 1, true, 1), sPeerReq(0, 0, true, 1), sPeerReq(0, 1, true, 1), sTick, sAnswerTo(1), sAnswerTo(1), sTick, sAnswerTo(1)}
	case "stale_deferred":
		// a renomination deferred on a pair that is not valid yet, overtaken by a newer one on a valid pair;
		// when the first pair becomes valid its stale value must not move the selection
		g.script = []step{g.sAL(0), g.sAR(0), g.sAR(1), sStart(ctl), sTick, sTick, sAnswerTo(0), sPeerReq(0, 0, true, 1),
			sPeerReq(0, 1, true, 1), sPeerReq(0, 0, true, 1), sTick, sAnswerTo(1), sAnswerTo(1), sTick, sAnswerTo(1)}
	case "deferred_then_plain":
		// a renomination deferred on a pair that is not valid yet, then a (reordered) plain USE-CANDIDATE on the same
		// pair: the deferred value must survive, so the pair is selected -- whatever its priority -- once it is valid
		// (the second remote is server-reflexive: its pair has the lower priority)
		g.script = []step{g.sAL(0), g.sAR(0), g.sAR(2), sStart(false), sTick, sTick, sAnswerTo(0), sPeerReq(0, 0, true, 1),
			sPeerReq(0, 1, true, 1), sPeerReq(0, 1, true, 0), sTick, sAnswerTo(1), sAnswerTo(1), sTick, sAnswerTo(1)}
	case "supersede_renom":
		// a renomination deferred on a peer-reflexive pair survives the arrival of the signalled candidate
		g.script = []step{g.sAL(0), g.sAR(0), sStart(false), sTick, sAnswerTo(0), sPeerReq(0, 0, true, 1),
			sPeerRenomFrom(0, unknownSrc[1]), g.sAR(12), sAnswer(true), sAnswer(true), sTick, sAnswer(true)}
	case "prflx_supersede":
		g.script = []step{g.sAL(0), sStart(ctl), sPeerReqFrom(0, unknownSrc[1], true), g.sAR(12), sAnswer(true), sWriteToPair, sTick, sAnswer(true), sWriteToPair}
	case "neighbour_port":
		// the validated-source cache must not admit other ports of the peer's address
		g.script = connect(0, 0)
		g.script = append(g.script, sData(0, 0), sRead, sDataNeighbour(0, 0, 1), sRead, sData(0, 0), sDataNeighbour(0, 0, 255), sDataNeighbour(0, 0, 256), sRead, sRead, sRead)
	case "foreign_indication":
		g.script = connect(0, 0)
		g.script = append(g.script, sAdvance(5*Grid), sForeignIndication(0, 0), sTick, sAdvance(disc-5*Grid), sTick, sTick)
	}
}
