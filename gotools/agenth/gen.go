package agenth

import (
	"math/big"
	"math/rand"
	"sort"
	"time"

	ice "github.com/pion/ice/v4"
)

// Gen generates one history against a live Sim (state-aware: it answers the agent's own requests).
type Gen struct {
	R       *rand.Rand
	S       *Sim
	Ctl     bool
	Started bool
	Closed  bool
	LU, LP  int // current local credential tokens
	RU, RP  int // what the agent was told about the remote side (0: none)
	OldLU, OldLP, OldRU, OldRP int
	nextCred int
	locals   []Cand // live local candidates
	remotes  []Cand // remote candidates handed to the agent (live generation)
	nextLH, nextRH int
	outReq   []outstanding // requests emitted by the agent (live generation first)
	answered []outstanding
	nextPeerTx, nextUnknownTx int
	nextPayload int
	queued   int
	Stats    map[string]int
	Mutated  int // number of deliberately invalid injections
	ReachedSelected bool
	peerNom  uint32
	nAdv     int
	OffFamily int
	script   []step
	everLocals []Cand // every local candidate ever accepted (live or released)
	oldReq   []outstanding // requests of the generation ended by the last Restart
	Scenario string
}

type outstanding struct {
	tx  int
	lh  int
	dst Addr
	use bool
}

var localPool = []Cand{
	{Typ: 1, Net: 1, Addr: V4(10, 0, 0, 1, 5000), Comp: 1},
	{Typ: 1, Net: 1, Addr: V4(10, 0, 0, 2, 5001), Comp: 1},
	{Typ: 2, Net: 1, Addr: V4(198, 51, 100, 7, 5002), Comp: 1, HasRel: true, RelIP: big.NewInt(0x0a000001), RelPort: 5000},
	{Typ: 1, Net: 2, Addr: V6(1, 5003), Comp: 1},
	{Typ: 4, Net: 1, Addr: V4(198, 51, 100, 9, 5004), Comp: 1, HasRel: true, RelIP: big.NewInt(0x0a000001), RelPort: 5000},
	{Typ: 1, Net: 1, Addr: V4(10, 0, 0, 1, 5000), Comp: 1}, // duplicate of the first
	{Typ: 1, Net: 3, Addr: V4(10, 0, 0, 1, 5005), Comp: 1, TCP: 2}, // tcp passive
}

var remotePool = []Cand{
	{Typ: 1, Net: 1, Addr: V4(192, 168, 1, 1, 6000), Comp: 1},
	{Typ: 1, Net: 1, Addr: V4(192, 168, 1, 2, 6001), Comp: 1},
	{Typ: 2, Net: 1, Addr: V4(203, 0, 113, 5, 6002), Comp: 1, HasRel: true, RelIP: big.NewInt(0xc0a80101), RelPort: 6000},
	{Typ: 4, Net: 1, Addr: V4(203, 0, 113, 9, 6003), Comp: 1, HasRel: true, RelIP: big.NewInt(0xc0a80101), RelPort: 6000},
	{Typ: 1, Net: 2, Addr: V6(2, 6004), Comp: 1},
	{Typ: 3, Net: 1, Addr: V4(203, 0, 113, 77, 6005), Comp: 1, HasRel: true, RelIP: big.NewInt(0), RelPort: 0},
	{Typ: 1, Net: 1, Addr: V4(192, 168, 1, 1, 6000), Comp: 1},                 // duplicate
	{Typ: 1, Net: 3, Addr: V4(192, 168, 1, 3, 6006), Comp: 1, TCP: 1},         // tcp active: ignored
	{Typ: 1, Net: 3, Addr: V4(192, 168, 1, 3, 6007), Comp: 1, TCP: 2},         // tcp passive
	{Typ: 1, Net: 1, Addr: V4(192, 168, 66, 6, 6008), Comp: 1},                // the blockable address
	{Typ: 1, Net: 1, Addr: V4(192, 168, 1, 1, 6000), Comp: 1, Prio: 12345678}, // same address, other priority
	// a signalled peer-reflexive candidate with a related address, on an address the agent may also discover itself
	{Typ: 3, Net: 1, Addr: V4(203, 0, 113, 78, 6010), Comp: 1, HasRel: true, RelIP: big.NewInt(0x0a090909), RelPort: 1},
	// ... and a signalled host / srflx candidate on the same transport address (supersedes both)
	{Typ: 1, Net: 1, Addr: V4(203, 0, 113, 78, 6010), Comp: 1},
	{Typ: 2, Net: 1, Addr: V4(203, 0, 113, 77, 6005), Comp: 1, HasRel: true, RelIP: big.NewInt(0xc0a80101), RelPort: 6000},
}

// unknown sources (peer-reflexive discoveries), one of them blockable
var unknownSrc = []Addr{V4(203, 0, 113, 77, 6005), V4(203, 0, 113, 78, 6010), V4(192, 168, 66, 6, 6011), V6(9, 6012)}

var advances = []time.Duration{Grid, Grid, 5 * Grid, 10 * Grid, 20 * Grid, 40 * Grid, 50 * Grid, 100 * Grid, 300 * Grid}

// Skew is added to every advance: a duration the agent measures is then (a multiple of Grid) + c*Skew
// with 1 <= c <= MaxAdvances, or 0; every threshold is a multiple of Grid.  Real time only ever adds to a
// measured duration, so a comparison can flip only when the added real time exceeds
// Grid - MaxAdvances*Skew = MaxJitter.  The added real time is at most the duration of the operation that
// stored the timestamp plus that of the operation reading it (see Sim.Do), hence the bound on MaxOp.
const (
	Skew        = 3 * time.Millisecond
	MaxAdvances = 30
	MaxJitter   = Grid - MaxAdvances*Skew
	MaxOpTime   = MaxJitter/2 - time.Millisecond
)

// RandomConfig draws an agent configuration (all durations on the Grid).
func RandomConfig(r *rand.Rand) Config {
	c := Config{MaxReq: -1, Disc: -1, Failed: -1, Keepalive: -1, WaitHost: -1, TCPPrioOffset: -1, LUfrag: 1, LPwd: 1}
	c.Lite = r.Intn(8) == 0
	switch r.Intn(6) {
	case 0:
		c.TieBreaker = 0
	case 1:
		c.TieBreaker = ^uint64(0)
	case 2:
		c.TieBreaker = 1 << 63
	default:
		c.TieBreaker = r.Uint64()
	}
	if r.Intn(2) == 0 {
		c.MaxReq = []int{0, 1, 2, 3}[r.Intn(4)]
	}
	if r.Intn(2) == 0 {
		c.Disc = []time.Duration{0, 10 * Grid, 20 * Grid}[r.Intn(3)]
	}
	if r.Intn(2) == 0 {
		c.Failed = []time.Duration{0, 10 * Grid, 30 * Grid}[r.Intn(3)]
	}
	if r.Intn(3) == 0 {
		c.Keepalive = 0
	}
	switch r.Intn(4) {
	case 0:
		c.WaitHost, c.WaitSrflx, c.WaitPrflx, c.WaitRelay = 0, 0, 0, 0
	case 1:
		c.WaitHost, c.WaitSrflx, c.WaitPrflx, c.WaitRelay = 0, 5*Grid, 10*Grid, 20*Grid
	}
	if r.Intn(4) == 0 {
		c.BlockedIPs = []*big.Int{V4(192, 168, 66, 6, 0).IP}
	}
	c.Renomination = r.Intn(3) == 0
	c.CheckPrio = r.Intn(4) == 0
	return c
}

func NewGen(r *rand.Rand, s *Sim) *Gen {
	return &Gen{R: r, S: s, LU: s.cfg.LUfrag, LP: s.cfg.LPwd, nextCred: 2, nextLH: 1, nextRH: 101,
		nextPeerTx: 2000000, nextUnknownTx: 1000000, nextPayload: 1, Stats: map[string]int{}, Ctl: false}
}

func (g *Gen) pick(n int) int { return g.R.Intn(n) }

func (g *Gen) payload() Payload {
	g.nextPayload++
	sizes := []int{1, 2, 20, 100, 500, 1200, 1200, 8000, 0}
	p := Payload{ID: g.nextPayload, Len: sizes[g.pick(len(sizes))], Stun: g.pick(12) == 0}
	if p.Len == 0 && !p.Stun {
		p.ID = 0 // empty datagrams are indistinguishable
	} else if !p.Stun && g.pick(12) == 0 {
		p.ID = RefusedPayloadID // the socket will report a send fault for this one
	}
	return p
}

// peerRequest builds a well-formed connectivity check from the peer.
func (g *Gen) peerRequest() Msg {
	g.nextPeerTx++
	m := Msg{Class: 0, Method: 1, Tx: g.nextPeerTx, HasUser: true, UserA: g.LU, UserB: g.RU, HasKey: true, Key: g.LP,
		HasCtl: true, Ctl: !g.Ctl, TB: g.R.Uint64(), HasPrio: true, Prio: uint32(1 + g.R.Intn(1<<30))}
	if g.pick(10) == 0 {
		m.HasPrio = false
	}
	if g.pick(15) == 0 {
		m.Prio = 0
	}
	if !g.Ctl { // the peer is controlling: it may nominate
		if g.pick(3) == 0 {
			m.Use = true
		}
		if g.S.cfg.Renomination && g.pick(3) == 0 {
			m.Use = true
			m.HasNom = true
			switch g.pick(4) {
			case 0: // stale or equal value (sometimes far below: more than 2^23 under the last one)
				if g.peerNom > 0x800000 && g.pick(2) == 0 {
					m.Nom = g.peerNom - 0x800000 - uint32(g.pick(100))
				} else if g.peerNom > 0 {
					m.Nom = g.peerNom - uint32(g.pick(2))
				} else {
					m.Nom = 1
				}
			default:
				// mostly the next few values; sometimes a jump of more than 2^23 (all values stay below 2^24)
				if g.pick(5) == 0 && g.peerNom+0x900000 < 1<<24 {
					g.peerNom += 0x900000
				} else {
					g.peerNom += uint32(1 + g.pick(3))
				}
				m.Nom = g.peerNom
			}
		}
	}
	return m
}

// mutate makes a message unauthentic / mismatched in one of several ways. Returns the tag.
func (g *Gen) mutateRequest(m *Msg) string {
	g.Mutated++
	switch g.pick(8) {
	case 0:
		m.HasKey = false
		return "req_no_integrity"
	case 1:
		m.Key = g.RP // signed with the wrong password
		if m.Key == g.LP {
			m.Key = 9999
		}
		return "req_wrong_key"
	case 2:
		m.HasUser = false
		return "req_no_username"
	case 3:
		m.UserA, m.UserB = m.UserB, m.UserA
		if m.UserA == m.UserB {
			m.UserA = 7777
		}
		return "req_swapped_username"
	case 4:
		m.UserB = 8888
		return "req_wrong_remote_ufrag"
	case 5:
		if g.OldLU != 0 {
			m.UserA, m.UserB, m.Key = g.OldLU, g.OldRU, g.OldLP
			return "req_stale_generation"
		}
		m.UserA = 6666
		return "req_wrong_local_ufrag"
	case 6:
		m.Key = 9999
		return "req_unknown_key"
	default:
		m.UserA = 6666
		return "req_wrong_local_ufrag"
	}
}

func (g *Gen) liveReq() (outstanding, bool) {
	if len(g.outReq) == 0 {
		return outstanding{}, false
	}
	// prefer recent ones
	i := len(g.outReq) - 1 - g.pick(minInt(len(g.outReq), 4))
	return g.outReq[i], true
}

func minInt(a, b int) int {
	if a < b {
		return a
	}
	return b
}

func (g *Gen) remove(tx int) {
	for i, o := range g.outReq {
		if o.tx == tx {
			g.answered = append(g.answered, o)
			g.outReq = append(g.outReq[:i], g.outReq[i+1:]...)
			return
		}
	}
}

// Next draws the next operation.
func (g *Gen) Next() (Op, string) {
	for len(g.script) > 0 && !g.Closed {
		st := g.script[0]
		g.script = g.script[1:]
		if op, tag, ok := st(g); ok {
			return op, tag
		}
	}
	r := g.pick(100)
	switch {
	case g.Closed:
		// a few API calls after Close
		switch g.pick(8) {
		case 0:
			return Op{Kind: "WR", Payload: g.payload()}, "after_close"
		case 1:
			return Op{Kind: "RD"}, "after_close"
		case 2:
			return Op{Kind: "RS", A: g.newCred(), B: g.newCred()}, "after_close"
		case 3:
			return Op{Kind: "SC", A: 5, B: 5}, "after_close"
		case 4:
			return Op{Kind: "CL"}, "after_close"
		case 5:
			return Op{Kind: "AR", Cand: g.remoteCand()}, "after_close"
		case 6:
			if g.pick(2) == 0 {
				return Op{Kind: "RN", A: 1, B: 101, V: 7}, "after_close"
			}
			return Op{Kind: "ST", Ctl: true, A: 5, B: 5}, "after_close"
		default:
			return Op{Kind: "TK"}, "after_close"
		}
	case len(g.locals) == 0 && r < 60:
		return Op{Kind: "AL", Cand: g.localCand()}, "add_local"
	case len(g.remotes) == 0 && r < 50:
		return Op{Kind: "AR", Cand: g.remoteCand()}, "add_remote"
	case !g.Started && r < 45:
		g.RU, g.RP = g.newCred(), g.newCred()
		ctl := g.pick(2) == 0
		if g.pick(25) == 0 {
			return Op{Kind: "ST", Ctl: ctl, A: 0, B: g.RP}, "start_empty"
		}
		return Op{Kind: "ST", Ctl: ctl, A: g.RU, B: g.RP}, "start"
	}
	if !g.Started && r >= 40 && r < 83 {
		// sockets are not read before the agent is started: no inbound traffic yet
		if r < 60 {
			return Op{Kind: "AL", Cand: g.localCand()}, "add_local"
		}
		return Op{Kind: "AR", Cand: g.remoteCand()}, "add_remote"
	}
	switch {
	case r < 6:
		return Op{Kind: "AL", Cand: g.localCand()}, "add_local"
	case r < 14:
		return Op{Kind: "AR", Cand: g.remoteCand()}, "add_remote"
	case r < 30:
		return Op{Kind: "TK"}, "tick"
	case r < 40:
		if g.nAdv >= MaxAdvances {
			return Op{Kind: "TK"}, "tick"
		}
		g.nAdv++
		return Op{Kind: "AV", D: advances[g.pick(len(advances))] + Skew}, "advance"
	case r < 58:
		return g.response()
	case r < 74:
		return g.request()
	case r < 77:
		return g.otherStun()
	case r < 83:
		return g.data()
	case r < 87:
		return Op{Kind: "WR", Payload: g.payload()}, "write"
	case r < 89:
		ids := g.pairIDs()
		id := uint64(4242)
		if len(ids) > 0 && g.pick(4) != 0 {
			id = ids[g.pick(len(ids))]
		}
		return Op{Kind: "WP", PairID: id, Payload: g.payload()}, "write_to_pair"
	case r < 92:
		return Op{Kind: "RD"}, "read"
	case r < 93:
		return Op{Kind: "SC", A: g.RU, B: g.RP}, "set_remote_creds"
	case r < 95:
		g.OldLU, g.OldLP, g.OldRU, g.OldRP = g.LU, g.LP, g.RU, g.RP
		return Op{Kind: "RS", A: g.newCred(), B: g.newCred()}, "restart"
	case r < 98:
		if len(g.locals) > 0 && len(g.remotes) > 0 {
			v := uint32(0)
			if g.pick(5) != 0 {
				g.peerNom += uint32(1 + g.pick(3))
				v = g.peerNom
			}
			return Op{Kind: "RN", A: g.locals[g.pick(len(g.locals))].H, B: g.remotes[g.pick(len(g.remotes))].H, V: v}, "renominate"
		}
		return Op{Kind: "TK"}, "tick"
	case r < 99:
		return Op{Kind: "CL"}, "close"
	default:
		if g.nAdv >= MaxAdvances {
			return Op{Kind: "TK"}, "tick"
		}
		g.nAdv++
		return Op{Kind: "AV", D: 300*Grid + Skew}, "advance"
	}
}

func (g *Gen) newCred() int { g.nextCred++; return g.nextCred }

func (g *Gen) localCand() Cand {
	c := localPool[g.pick(len(localPool))]
	c.H = g.nextLH
	g.nextLH++
	return c
}

func (g *Gen) remoteCand() Cand {
	c := remotePool[g.pick(len(remotePool))]
	c.H = g.nextRH
	g.nextRH++
	return c
}

func (g *Gen) pairIDs() []uint64 {
	snap := ice.VerifSnap(g.S.A)
	var ids []uint64
	for _, p := range snap.Pairs {
		ids = append(ids, p.ID)
	}
	return ids
}

func (g *Gen) anyLocal() (Cand, bool) {
	if len(g.locals) == 0 {
		return Cand{}, false
	}
	return g.locals[g.pick(len(g.locals))], true
}

func (g *Gen) srcAddr() (Addr, string) {
	if len(g.remotes) > 0 && g.pick(4) != 0 {
		return g.remotes[g.pick(len(g.remotes))].Addr, "known"
	}
	return unknownSrc[g.pick(len(unknownSrc))], "unknown"
}

// srcFor draws a source for a datagram arriving on local candidate l: of l's own address family
// (a socket only receives from its family), except for a small off-family stream that exercises
// the model/implementation correspondence only (the monitors do not judge such histories).
func (g *Gen) srcFor(l Cand) (Addr, string) {
	want6 := l.Net == 2 || l.Net == 4
	for i := 0; i < 12; i++ {
		a, k := g.srcAddr()
		if a.V6 == want6 {
			return a, k
		}
	}
	if g.pick(3) == 0 {
		g.OffFamily++
		return g.srcAddr()
	}
	if want6 {
		return V6(9, 6012), "unknown"
	}
	return unknownSrc[g.pick(3)], "unknown"
}

func (g *Gen) response() (Op, string) {
	l, ok := g.anyLocal()
	if !ok {
		return Op{Kind: "TK"}, "tick"
	}
	req, have := g.liveReq()
	m := Msg{Class: 2, Method: 1, HasKey: true, Key: g.RP}
	tag := "resp_ok"
	if !have || g.pick(8) == 0 {
		if len(g.answered) > 0 && g.pick(2) == 0 {
			a := g.answered[g.pick(len(g.answered))]
			m.Tx = a.tx
			g.Mutated++
			return Op{Kind: "IS", LH: a.lh, Src: a.dst, Msg: m}, "resp_duplicate"
		}
		g.nextUnknownTx++
		m.Tx = g.nextUnknownTx
		src, _ := g.srcAddr()
		g.Mutated++
		return Op{Kind: "IS", LH: l.H, Src: src, Msg: m}, "resp_unknown_tx"
	}
	m.Tx = req.tx
	op := Op{Kind: "IS", LH: req.lh, Src: req.dst, Msg: m}
	m.HasXor, m.Xor = true, l.Addr
	op.Msg = m
	switch g.pick(14) {
	case 0:
		op.Msg.HasKey = false
		tag = "resp_no_integrity"
		g.Mutated++
	case 1:
		op.Msg.Key = g.LP
		if g.LP == g.RP {
			op.Msg.Key = 9999
		}
		tag = "resp_wrong_key"
		g.Mutated++
	case 2:
		op.Src, _ = g.srcAddr()
		tag = "resp_other_source"
		g.Mutated++
		if op.Src.IP.Cmp(req.dst.IP) == 0 && op.Src.Port == req.dst.Port {
			tag = "resp_ok"
			g.Mutated--
			g.remove(req.tx)
		}
	case 3:
		// arrives on another local candidate
		op.LH = l.H
		if l.H != req.lh {
			tag = "resp_other_local"
			g.Mutated++
		} else {
			g.remove(req.tx)
		}
	case 4:
		op.Msg.Class = 3
		op.Msg.HasErr, op.Msg.Err = true, []int{400, 487, 401}[g.pick(3)]
		tag = "resp_error_class"
		g.Mutated++
	case 5:
		if g.OldRP != 0 {
			op.Msg.Key = g.OldRP
			tag = "resp_stale_generation"
			g.Mutated++
		} else {
			g.remove(req.tx)
		}
	default:
		g.remove(req.tx)
	}
	return op, tag
}

func (g *Gen) request() (Op, string) {
	l, ok := g.anyLocal()
	if !ok {
		return Op{Kind: "TK"}, "tick"
	}
	src, kind := g.srcFor(l)
	m := g.peerRequest()
	tag := "req_" + kind
	if m.Use {
		tag += "_use"
	}
	if m.HasNom {
		tag += "_nom"
	}
	switch g.pick(10) {
	case 0:
		tag = g.mutateRequest(&m)
	case 1:
		// role conflict with boundary tie-breakers
		m.Ctl = g.Ctl
		own := g.S.cfg.TieBreaker
		switch g.pick(5) {
		case 0:
			m.TB = own
		case 1:
			m.TB = own + 1
		case 2:
			m.TB = own - 1
		case 3:
			m.TB = 0
		default:
			m.TB = ^uint64(0)
		}
		tag = "req_role_conflict"
	case 2:
		m.HasCtl = false
		tag += "_noctl"
	}
	return Op{Kind: "IS", LH: l.H, Src: src, Msg: m}, tag
}

func (g *Gen) otherStun() (Op, string) {
	l, ok := g.anyLocal()
	if !ok {
		return Op{Kind: "TK"}, "tick"
	}
	src, _ := g.srcFor(l)
	g.nextPeerTx++
	switch g.pick(3) {
	case 0:
		if g.pick(3) == 0 {
			g.Mutated++
			return Op{Kind: "IS", LH: l.H, Src: src, Msg: Msg{Class: 1, Method: []int{3, 6, 7}[g.pick(3)], Tx: g.nextPeerTx}}, "non_binding_indication"
		}
		return Op{Kind: "IS", LH: l.H, Src: src, Msg: Msg{Class: 1, Method: 1, Tx: g.nextPeerTx}}, "indication"
	case 1:
		m := g.peerRequest()
		m.Method = 3 // Allocate
		return Op{Kind: "IS", LH: l.H, Src: src, Msg: m}, "non_binding_method"
	default:
		m := Msg{Class: 3, Method: 1, Tx: g.nextPeerTx, HasKey: true, Key: g.RP, HasErr: true, Err: 487}
		if req, have := g.liveReq(); have {
			m.Tx = req.tx
			return Op{Kind: "IS", LH: req.lh, Src: req.dst, Msg: m}, "error_response"
		}
		return Op{Kind: "IS", LH: l.H, Src: src, Msg: m}, "error_response"
	}
}

func (g *Gen) data() (Op, string) {
	l, ok := g.anyLocal()
	if !ok {
		return Op{Kind: "TK"}, "tick"
	}
	src, kind := g.srcFor(l)
	return Op{Kind: "ID", LH: l.H, Src: src, Payload: g.payload()}, "data_" + kind
}

// After updates the generator's view from what the agent did.
func (g *Gen) After(o Op, obs []string) {
	g.S.mu.Lock()
	wires := append([]wire(nil), g.S.wires...)
	g.S.mu.Unlock()
	for _, w := range wires {
		if !isStun(w.raw) {
			continue
		}
		if m, err := g.S.Decode(w.raw); err == nil && m.Class == 0 {
			g.outReq = append(g.outReq, outstanding{tx: m.Tx, lh: w.lh, dst: AddrOf(w.dst), use: m.Use})
		}
	}
	if len(g.outReq) > 12 {
		g.outReq = g.outReq[len(g.outReq)-12:]
	}
	ret := ""
	for i, t := range obs {
		if t == "R" && i+1 < len(obs) && (i == 0 || obs[i-1] == ",") {
			ret = obs[i+1]
			break
		}
		if t == "|" {
			break
		}
	}
	snap := ice.VerifSnap(g.S.A)
	g.Ctl = snap.Controlling
	if snap.HasSelected {
		g.ReachedSelected = true
	}
	switch o.Kind {
	case "AL":
		if ret == "ok" {
			g.locals = append(g.locals, o.Cand)
			g.everLocals = append(g.everLocals, o.Cand)
		}
	case "AR":
		if ret == "ok" {
			g.remotes = append(g.remotes, o.Cand)
		}
	case "ST":
		if ret == "ok" {
			g.Started = true
		}
	case "RS":
		if ret == "ok" {
			g.LU, g.LP, g.RU, g.RP = o.A, o.B, 0, 0
			g.locals, g.remotes, g.outReq, g.answered = nil, nil, nil, nil
		}
	case "SC":
		if ret == "ok" {
			g.RU, g.RP = o.A, o.B
		}
	case "CL":
		g.Closed = true
		g.locals, g.remotes = nil, nil
	}
	// Failed releases all candidates
	if snap.ConnectionState == ice.ConnectionStateFailed && len(snap.Locals) == 0 {
		g.locals, g.remotes = nil, nil
	}
	// keep only locals that are still there
	live := map[int]bool{}
	for _, c := range snap.Locals {
		if h, ok := g.S.localH[c.ID()]; ok {
			live[h] = true
		}
	}
	var keep []Cand
	for _, c := range g.locals {
		if live[c.H] {
			keep = append(keep, c)
		}
	}
	g.locals = keep
	sort.SliceStable(g.locals, func(i, j int) bool { return g.locals[i].H < g.locals[j].H })
}
