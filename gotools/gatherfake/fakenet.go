// Package gatherfake is the harness-owned fake network used by suites gatherspec (C18) and
// gatherledger (C09): a transport.Net that serves generated interface tables, decides every
// listen request from a script, and keeps a ledger of every socket it hands out (open / close
// calls).  Datagrams written by the agent are handed to a harness callback (the fake STUN
// server), which may answer at once, later, or never.  Nothing touches the OS.
package gatherfake

import (
	"errors"
	"fmt"
	"io"
	"net"
	"os"
	"sync"
	"syscall"
	"time"

	"github.com/pion/transport/v4"
)

// ListenVerdict is the scripted outcome of one listen attempt.
type ListenVerdict int

const (
	ListenOK      ListenVerdict = iota // grant the requested port (or an ephemeral one)
	ListenBusy                         // EADDRINUSE: the range scan moves on
	ListenUnavail                      // EADDRNOTAVAIL: the range scan gives up
)

var ErrNotSupported = errors.New("gatherfake: not supported")

type packet struct {
	data []byte
	from net.Addr
}

// Sock is one fake UDP socket.
type Sock struct {
	net        *Net
	ID         int
	Network    string
	Laddr      *net.UDPAddr
	Kind       string // free-form label set by the harness through Net.Label (e.g. "mdns")
	mu         sync.Mutex
	closed     bool
	CloseCalls int
	closedCh   chan struct{}
	inbox      chan packet
	rdl        time.Time
	wake       chan struct{}
	Writes     int
}

// Net is the fake transport.Net.
type Net struct {
	mu        sync.Mutex
	Ifaces    []*transport.Interface
	IfErr     error
	Socks     []*Sock
	ephemeral int
	// Listen decides a listen attempt (nil: always OK). Called with n.mu NOT held.
	Listen func(network string, ip net.IP, port int) ListenVerdict
	// OnInterfaces runs inside Interfaces() (may block: a gate).
	OnInterfaces func()
	// OnWrite is called for every datagram written through a fake socket (may inject replies
	// with s.Deliver, may block).
	OnWrite func(s *Sock, b []byte, to net.Addr)
	// OnOpen is called after a socket was created.
	OnOpen func(s *Sock)
	// OnClose is called on the first Close of a socket.
	OnClose        func(s *Sock)
	InterfaceCalls int
	// OnLocalAddr is called inside every LocalAddr() of a fake socket (a trap point between the
	// gatherers' steps).
	OnLocalAddr func(s *Sock)
	// Resolve overrides ResolveUDPAddr (nil: IP literals only).
	Resolve func(network, address string) (*net.UDPAddr, error)
}

func New() *Net { return &Net{ephemeral: 49152} }

func errno(e syscall.Errno, op string) error {
	return &net.OpError{Op: op, Net: "udp", Err: os.NewSyscallError("bind", e)}
}

// ---- transport.Net -------------------------------------------------------------------

func (n *Net) Interfaces() ([]*transport.Interface, error) {
	n.mu.Lock()
	n.InterfaceCalls++
	f := n.OnInterfaces
	n.mu.Unlock()
	if f != nil {
		f()
	}
	n.mu.Lock()
	defer n.mu.Unlock()
	if n.IfErr != nil {
		return nil, n.IfErr
	}

	return n.Ifaces, nil
}

func (n *Net) InterfaceByIndex(index int) (*transport.Interface, error) {
	for _, i := range n.Ifaces {
		if i.Index == index {
			return i, nil
		}
	}

	return nil, transport.ErrInterfaceNotFound
}

func (n *Net) InterfaceByName(name string) (*transport.Interface, error) {
	for _, i := range n.Ifaces {
		if i.Name == name {
			return i, nil
		}
	}

	return nil, transport.ErrInterfaceNotFound
}

func (n *Net) ListenPacket(network string, address string) (net.PacketConn, error) {
	a, err := n.ResolveUDPAddr(network, address)
	if err != nil {
		return nil, err
	}
	c, err := n.ListenUDP(network, a)
	if err != nil {
		return nil, err
	}

	return c, nil
}

func (n *Net) ListenUDP(network string, locAddr *net.UDPAddr) (transport.UDPConn, error) {
	if locAddr == nil {
		locAddr = &net.UDPAddr{}
	}
	verdict := ListenOK
	if n.Listen != nil {
		verdict = n.Listen(network, locAddr.IP, locAddr.Port)
	}
	switch verdict {
	case ListenBusy:
		return nil, errno(syscall.EADDRINUSE, "listen")
	case ListenUnavail:
		return nil, errno(syscall.EADDRNOTAVAIL, "listen")
	}
	n.mu.Lock()
	ip := locAddr.IP
	if len(ip) == 0 {
		if network == "udp6" {
			ip = net.IPv6unspecified
		} else {
			ip = net.IPv4zero.To4()
		}
	}
	port := locAddr.Port
	if port == 0 {
		n.ephemeral++
		if n.ephemeral > 65000 {
			n.ephemeral = 49153
		}
		port = n.ephemeral
	}
	s := &Sock{
		net: n, ID: len(n.Socks), Network: network,
		Laddr:    &net.UDPAddr{IP: append(net.IP{}, ip...), Port: port, Zone: locAddr.Zone},
		closedCh: make(chan struct{}), inbox: make(chan packet, 64), wake: make(chan struct{}, 1),
	}
	n.Socks = append(n.Socks, s)
	f := n.OnOpen
	n.mu.Unlock()
	if f != nil {
		f(s)
	}

	return s, nil
}

func (n *Net) ListenTCP(string, *net.TCPAddr) (transport.TCPListener, error) {
	return nil, ErrNotSupported
}
func (n *Net) Dial(string, string) (net.Conn, error) { return nil, ErrNotSupported }
func (n *Net) DialUDP(string, *net.UDPAddr, *net.UDPAddr) (transport.UDPConn, error) {
	return nil, ErrNotSupported
}
func (n *Net) DialTCP(string, *net.TCPAddr, *net.TCPAddr) (transport.TCPConn, error) {
	return nil, ErrNotSupported
}
func (n *Net) ResolveIPAddr(network, address string) (*net.IPAddr, error) {
	return net.ResolveIPAddr(network, address) // literals only in the suites
}
func (n *Net) ResolveUDPAddr(network, address string) (*net.UDPAddr, error) {
	if n.Resolve != nil {
		return n.Resolve(network, address)
	}

	return net.ResolveUDPAddr(network, address) // IP literals only: no DNS
}
func (n *Net) ResolveTCPAddr(network, address string) (*net.TCPAddr, error) {
	return net.ResolveTCPAddr(network, address)
}
func (n *Net) CreateDialer(*net.Dialer) transport.Dialer                   { return nil }
func (n *Net) CreateListenConfig(*net.ListenConfig) transport.ListenConfig { return nil }

// Snapshot returns the sockets opened so far.
func (n *Net) Snapshot() []*Sock {
	n.mu.Lock()
	defer n.mu.Unlock()

	return append([]*Sock{}, n.Socks...)
}

// OpenCount returns the number of sockets currently open.
func (n *Net) OpenCount() int {
	c := 0
	for _, s := range n.Snapshot() {
		if !s.IsClosed() {
			c++
		}
	}

	return c
}

// ---- Sock: transport.UDPConn ---------------------------------------------------------

func (s *Sock) IsClosed() bool {
	s.mu.Lock()
	defer s.mu.Unlock()

	return s.closed
}

// Calls returns the number of Close calls made on the socket.
func (s *Sock) Calls() int {
	s.mu.Lock()
	defer s.mu.Unlock()

	return s.CloseCalls
}

func (s *Sock) Close() error {
	s.mu.Lock()
	s.CloseCalls++
	if s.closed {
		s.mu.Unlock()

		return net.ErrClosed
	}
	s.closed = true
	close(s.closedCh)
	s.mu.Unlock()
	if f := s.net.OnClose; f != nil {
		f(s)
	}

	return nil
}

func (s *Sock) LocalAddr() net.Addr {
	if f := s.net.OnLocalAddr; f != nil {
		f(s)
	}

	return s.Laddr
}
func (s *Sock) RemoteAddr() net.Addr { return nil }

func (s *Sock) SetDeadline(t time.Time) error { return s.SetReadDeadline(t) }
func (s *Sock) SetReadDeadline(t time.Time) error {
	s.mu.Lock()
	if s.closed {
		s.mu.Unlock()

		return net.ErrClosed
	}
	s.rdl = t
	s.mu.Unlock()
	select {
	case s.wake <- struct{}{}:
	default:
	}

	return nil
}
func (s *Sock) SetWriteDeadline(time.Time) error { return nil }
func (s *Sock) SetReadBuffer(int) error          { return nil }
func (s *Sock) SetWriteBuffer(int) error         { return nil }

type timeoutErr struct{}

func (timeoutErr) Error() string   { return "i/o timeout" }
func (timeoutErr) Timeout() bool   { return true }
func (timeoutErr) Temporary() bool { return true }
func (timeoutErr) Is(t error) bool { return t == os.ErrDeadlineExceeded }

func (s *Sock) ReadFrom(p []byte) (int, net.Addr, error) {
	for {
		s.mu.Lock()
		dl := s.rdl
		closed := s.closed
		s.mu.Unlock()
		if closed {
			return 0, nil, net.ErrClosed
		}
		var timer <-chan time.Time
		var t *time.Timer
		if !dl.IsZero() {
			d := time.Until(dl)
			if d <= 0 {
				return 0, nil, &net.OpError{Op: "read", Net: "udp", Err: timeoutErr{}}
			}
			t = time.NewTimer(d)
			timer = t.C
		}
		select {
		case pk := <-s.inbox:
			stop(t)
			n := copy(p, pk.data)

			return n, pk.from, nil
		case <-s.closedCh:
			stop(t)

			return 0, nil, net.ErrClosed
		case <-timer:
		case <-s.wake:
			stop(t)
		}
	}
}

func stop(t *time.Timer) {
	if t != nil {
		t.Stop()
	}
}

func (s *Sock) Read(b []byte) (int, error) {
	n, _, err := s.ReadFrom(b)

	return n, err
}

func (s *Sock) ReadFromUDP(b []byte) (int, *net.UDPAddr, error) {
	n, a, err := s.ReadFrom(b)
	ua, _ := a.(*net.UDPAddr)

	return n, ua, err
}

func (s *Sock) ReadMsgUDP(b, _ []byte) (int, int, int, *net.UDPAddr, error) {
	n, a, err := s.ReadFromUDP(b)

	return n, 0, 0, a, err
}

func (s *Sock) Write([]byte) (int, error) { return 0, io.ErrClosedPipe }

func (s *Sock) WriteTo(p []byte, addr net.Addr) (int, error) {
	s.mu.Lock()
	if s.closed {
		s.mu.Unlock()

		return 0, net.ErrClosed
	}
	s.Writes++
	s.mu.Unlock()
	if f := s.net.OnWrite; f != nil {
		f(s, append([]byte{}, p...), addr)
	}

	return len(p), nil
}

func (s *Sock) WriteToUDP(b []byte, addr *net.UDPAddr) (int, error) { return s.WriteTo(b, addr) }
func (s *Sock) WriteMsgUDP(b, _ []byte, addr *net.UDPAddr) (int, int, error) {
	n, err := s.WriteTo(b, addr)

	return n, 0, err
}

// Deliver queues a datagram for the socket's reader (dropped when the queue is full or the
// socket closed).
func (s *Sock) Deliver(b []byte, from net.Addr) bool {
	if s.IsClosed() {
		return false
	}
	select {
	case s.inbox <- packet{append([]byte{}, b...), from}:
		return true
	default:
		return false
	}
}

func (s *Sock) String() string {
	return fmt.Sprintf("sock#%d %s %s", s.ID, s.Network, s.Laddr)
}

// MakeInterface builds one interface-table row.
func MakeInterface(index int, name string, up, loopback bool, addrs []net.Addr) *transport.Interface {
	var fl net.Flags
	if up {
		fl |= net.FlagUp
	}
	if loopback {
		fl |= net.FlagLoopback
	}
	ifc := transport.NewInterface(net.Interface{Index: index, MTU: 1500, Name: name, Flags: fl})
	for _, a := range addrs {
		ifc.AddAddress(a)
	}

	return ifc
}
