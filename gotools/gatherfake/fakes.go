package gatherfake

import (
	"errors"
	"net"
	"sync"
	"time"

	"github.com/pion/stun/v3"
)

// ---- a borrowed connection (TCP mux conn, UDP mux conn, relay allocation) ----------------

// Borrowed is a PacketConn handed out by a fake mux or TURN client; it only counts.
type Borrowed struct {
	Kind       string
	Key        string
	Addr       net.Addr
	mu         sync.Mutex
	closed     bool
	CloseCalls int
	closedCh   chan struct{}
	OnClosed   func(*Borrowed)
	// CloseErr is what the first Close reports (the connection is closed all the same): a fault.
	CloseErr error
	// OnLocalAddr is called inside LocalAddr() (a trap point).
	OnLocalAddr func(*Borrowed)
}

func NewBorrowed(kind, key string, addr net.Addr) *Borrowed {
	return &Borrowed{Kind: kind, Key: key, Addr: addr, closedCh: make(chan struct{})}
}

func (b *Borrowed) ReadFrom([]byte) (int, net.Addr, error) {
	<-b.closedCh

	return 0, nil, net.ErrClosed
}
func (b *Borrowed) WriteTo(p []byte, _ net.Addr) (int, error) {
	if b.IsClosed() {
		return 0, net.ErrClosed
	}

	return len(p), nil
}
func (b *Borrowed) Close() error {
	b.mu.Lock()
	b.CloseCalls++
	if b.closed {
		b.mu.Unlock()

		return nil
	}
	b.closed = true
	close(b.closedCh)
	f := b.OnClosed
	err := b.CloseErr
	b.mu.Unlock()
	if f != nil {
		f(b)
	}

	return err
}
func (b *Borrowed) IsClosed() bool {
	b.mu.Lock()
	defer b.mu.Unlock()

	return b.closed
}
func (b *Borrowed) Calls() int {
	b.mu.Lock()
	defer b.mu.Unlock()

	return b.CloseCalls
}
func (b *Borrowed) LocalAddr() net.Addr {
	if f := b.OnLocalAddr; f != nil {
		f(b)
	}

	return b.Addr
}
func (b *Borrowed) SetDeadline(time.Time) error      { return nil }
func (b *Borrowed) SetReadDeadline(time.Time) error  { return nil }
func (b *Borrowed) SetWriteDeadline(time.Time) error { return nil }

// ---- fake TCP mux (ice.TCPMux) -------------------------------------------------------------

// TCPMux hands out one Borrowed conn per (ufrag, address); RemoveConnByUfrag closes them,
// as TCPMuxDefault does.
type TCPMux struct {
	mu    sync.Mutex
	Port  int
	Conns []*Borrowed
	byKey map[string]*Borrowed
	Fail  func(ufrag string, ip net.IP) bool
	// Removed lists the ufrags passed to RemoveConnByUfrag.
	Removed []string
	// OnNew is called for every connection the mux creates.
	OnNew func(*Borrowed)
	live  map[*Borrowed]bool
}

func NewTCPMux(port int) *TCPMux {
	return &TCPMux{Port: port, byKey: map[string]*Borrowed{}, live: map[*Borrowed]bool{}}
}

var ErrMuxRefused = errors.New("gatherfake: mux refused")

func (m *TCPMux) GetConnByUfrag(ufrag string, _ bool, local net.IP) (net.PacketConn, error) {
	if m.Fail != nil && m.Fail(ufrag, local) {
		return nil, ErrMuxRefused
	}
	m.mu.Lock()
	defer m.mu.Unlock()
	key := ufrag + "|" + local.String()
	if c, ok := m.byKey[key]; ok && !c.IsClosed() {
		return c, nil
	}
	c := NewBorrowed("tcpmux", ufrag, &net.TCPAddr{IP: append(net.IP{}, local...), Port: m.Port})
	// like tcpPacketConn, a closed connection takes itself out of the mux
	c.OnClosed = func(b *Borrowed) {
		m.mu.Lock()
		delete(m.live, b)
		m.mu.Unlock()
	}
	m.byKey[key] = c
	m.live[c] = true
	m.Conns = append(m.Conns, c)
	if m.OnNew != nil {
		m.OnNew(c)
	}

	return c, nil
}

func (m *TCPMux) RemoveConnByUfrag(ufrag string) {
	m.mu.Lock()
	m.Removed = append(m.Removed, ufrag)
	var cs []*Borrowed
	for _, c := range m.Conns {
		if c.Key == ufrag && m.live[c] {
			cs = append(cs, c)
		}
	}
	m.mu.Unlock()
	for _, c := range cs {
		_ = c.Close()
	}
}
func (m *TCPMux) Close() error { return nil }

func (m *TCPMux) Snapshot() []*Borrowed {
	m.mu.Lock()
	defer m.mu.Unlock()

	return append([]*Borrowed{}, m.Conns...)
}

// ---- fake UDP mux (ice.UDPMux) -------------------------------------------------------------

// UDPMux hands out one Borrowed conn per (ufrag, listen address) like UDPMuxDefault does per
// ufrag; RemoveConnByUfrag closes them.
type UDPMux struct {
	mu      sync.Mutex
	Addrs   []net.Addr
	Conns   []*Borrowed
	byKey   map[string]*Borrowed
	Fail    func(ufrag string, addr net.Addr) bool
	Removed []string
}

func NewUDPMux(addrs []net.Addr) *UDPMux { return &UDPMux{Addrs: addrs, byKey: map[string]*Borrowed{}} }

func (m *UDPMux) GetListenAddresses() []net.Addr { return m.Addrs }
func (m *UDPMux) GetConn(ufrag string, addr net.Addr) (net.PacketConn, error) {
	if m.Fail != nil && m.Fail(ufrag, addr) {
		return nil, ErrMuxRefused
	}
	m.mu.Lock()
	defer m.mu.Unlock()
	key := ufrag + "|" + addr.String()
	if c, ok := m.byKey[key]; ok && !c.IsClosed() {
		return c, nil
	}
	c := NewBorrowed("udpmux", ufrag, addr)
	m.byKey[key] = c
	m.Conns = append(m.Conns, c)

	return c, nil
}
func (m *UDPMux) RemoveConnByUfrag(ufrag string) {
	m.mu.Lock()
	m.Removed = append(m.Removed, ufrag)
	var cs []*Borrowed
	for _, c := range m.Conns {
		if c.Key == ufrag {
			cs = append(cs, c)
		}
	}
	m.mu.Unlock()
	for _, c := range cs {
		_ = c.Close()
	}
}
func (m *UDPMux) Close() error { return nil }
func (m *UDPMux) Snapshot() []*Borrowed {
	m.mu.Lock()
	defer m.mu.Unlock()

	return append([]*Borrowed{}, m.Conns...)
}

// ---- fake TURN client ------------------------------------------------------------------------

// TURNClient is what the agent's TURN client factory returns in the suites.
type TURNClient struct {
	mu         sync.Mutex
	ID         int
	Conn       net.PacketConn // the local conn the agent handed to the client
	ListenErr  error
	AllocErr   error
	Relayed    *net.UDPAddr
	Alloc      *Borrowed
	CloseCalls int
	// BeforeAllocate runs inside Allocate (may block: a gate).
	BeforeAllocate func()
	// OnAlloc is called with the allocation's connection when Allocate succeeds.
	OnAlloc func(*Borrowed)
}

func (c *TURNClient) Listen() error { return c.ListenErr }
func (c *TURNClient) Allocate() (net.PacketConn, error) {
	if c.BeforeAllocate != nil {
		c.BeforeAllocate()
	}
	if c.AllocErr != nil {
		return nil, c.AllocErr
	}
	c.mu.Lock()
	c.Alloc = NewBorrowed("relay", "", c.Relayed)
	b := c.Alloc
	c.mu.Unlock()
	if c.OnAlloc != nil {
		c.OnAlloc(b)
	}

	return b, nil
}
func (c *TURNClient) Close() {
	c.mu.Lock()
	c.CloseCalls++
	c.mu.Unlock()
}
func (c *TURNClient) Calls() int {
	c.mu.Lock()
	defer c.mu.Unlock()

	return c.CloseCalls
}
func (c *TURNClient) Allocation() *Borrowed {
	c.mu.Lock()
	defer c.mu.Unlock()

	return c.Alloc
}

// ---- fake STUN server ------------------------------------------------------------------------

// BindingReply builds the Binding success response to the request in raw (nil if raw is not a
// Binding request).
func BindingReply(raw []byte, mapped *net.UDPAddr) []byte {
	m := &stun.Message{Raw: append([]byte{}, raw...)}
	if err := m.Decode(); err != nil || m.Type != stun.BindingRequest {
		return nil
	}
	res, err := stun.Build(m, stun.BindingSuccess, &stun.XORMappedAddress{IP: mapped.IP, Port: mapped.Port}, stun.Fingerprint)
	if err != nil {
		return nil
	}

	return res.Raw
}
