module verif/gotools

go 1.24.0

require (
	github.com/pion/ice/v4 v4.0.0
	github.com/pion/logging v0.2.4
	github.com/pion/stun/v3 v3.1.7
	github.com/pion/transport/v4 v4.1.0
	github.com/pion/turn/v5 v5.0.13
	golang.org/x/tools v0.29.0
)

require (
	github.com/google/uuid v1.6.0 // indirect
	github.com/pion/dtls/v3 v3.1.5 // indirect
	github.com/pion/mdns/v2 v2.1.0 // indirect
	github.com/pion/randutil v0.1.0 // indirect
	github.com/wlynxg/anet v0.0.5 // indirect
	golang.org/x/crypto v0.48.0 // indirect
	golang.org/x/mod v0.22.0 // indirect
	golang.org/x/net v0.49.0 // indirect
	golang.org/x/sync v0.10.0 // indirect
	golang.org/x/sys v0.41.0 // indirect
	golang.org/x/time v0.14.0 // indirect
)

replace github.com/pion/ice/v4 => /repo
