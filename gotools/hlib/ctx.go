// harness: runs generated cases against the pion/ice implementation built from
// /repo's working tree (with -tags verif) and writes one observation per line,
//   [@tag] <case tokens> => <implementation result tokens>
// for the extracted Coq model / monitors (build/<suite>/driver) to judge.
// Every random choice derives from one PRNG seeded by -seed.
package hlib

import (
	"bufio"
	"encoding/hex"
	"encoding/json"
	"flag"
	"fmt"
	"math/rand"
	"os"
	"strings"
)

// Ctx is handed to a suite.
type Ctx struct {
	Seed     int64
	Tier     string // quick | thorough | search
	Rng      *rand.Rand
	out      *bufio.Writer
	Evals    int
	distinct map[string]struct{}
	Dist     map[string]int // input distribution counters
	Samples  []string
	Rule     string
	Replay   string // when non-empty: path of a replay file; the suite re-runs the cases in it
}

// Emit writes one observation. nontrivial says whether the case counts as non-trivial by the suite's rule.
func (c *Ctx) Emit(tag string, caseToks []string, obs []string, nontrivial bool) {
	line := strings.Join(caseToks, " ")
	if tag != "" {
		fmt.Fprintf(c.out, "@%s ", tag)
	}
	fmt.Fprintf(c.out, "%s => %s\n", line, strings.Join(obs, " "))
	c.Evals++
	if nontrivial {
		c.distinct[line] = struct{}{}
	}
	if len(c.Samples) < 5 || (c.Evals%9973 == 0 && len(c.Samples) < 12) {
		c.Samples = append(c.Samples, line+" => "+strings.Join(obs, " "))
	}
}

// Count increments an input-distribution counter.
func (c *Ctx) Count(key string) { c.Dist[key]++ }

// Hex encodes a string token.
func Hex(s string) string { return "x" + hex.EncodeToString([]byte(s)) }

// Unhex decodes a string token.
func Unhex(t string) string {
	b, err := hex.DecodeString(strings.TrimPrefix(t, "x"))
	if err != nil {
		panic(err)
	}
	return string(b)
}

func B(b bool) string {
	if b {
		return "1"
	}
	return "0"
}

// ReplayLines returns the case lines (left of "=>") of a replay/obs file.
func (c *Ctx) ReplayLines() [][]string {
	data, err := os.ReadFile(c.Replay)
	if err != nil {
		panic(err)
	}
	var out [][]string
	for _, l := range strings.Split(string(data), "\n") {
		l = strings.TrimSpace(l)
		if l == "" || strings.HasPrefix(l, "#") {
			continue
		}
		if i := strings.Index(l, "=>"); i >= 0 {
			l = l[:i]
		}
		toks := strings.Fields(l)
		if len(toks) > 0 && strings.HasPrefix(toks[0], "@") {
			toks = toks[1:]
		}
		if len(toks) > 0 {
			out = append(out, toks)
		}
	}
	return out
}

// Main is the entry point of a suite binary.
func Main(name string, f func(*Ctx) error) {
	seed := flag.Int64("seed", 1, "PRNG seed")
	tier := flag.String("tier", "quick", "quick|thorough")
	outp := flag.String("out", "", "observation file")
	stats := flag.String("stats", "", "stats json file")
	replay := flag.String("replay", "", "replay file: re-run exactly these cases")
	flag.Parse()
	of, err := os.Create(*outp)
	if err != nil {
		fmt.Fprintln(os.Stderr, err)
		os.Exit(2)
	}
	ctx := &Ctx{Seed: *seed, Tier: *tier, Rng: rand.New(rand.NewSource(*seed)), out: bufio.NewWriterSize(of, 1<<20),
		distinct: map[string]struct{}{}, Dist: map[string]int{}, Replay: *replay}
	if err := f(ctx); err != nil {
		ctx.out.Flush()
		fmt.Fprintln(os.Stderr, "suite error:", err)
		os.Exit(3)
	}
	ctx.out.Flush()
	of.Close()
	if *stats != "" {
		js, _ := json.MarshalIndent(map[string]interface{}{
			"suite": name, "seed": *seed, "tier": *tier, "evaluations": ctx.Evals,
			"distinct_nontrivial": len(ctx.distinct), "rule": ctx.Rule, "distribution": ctx.Dist, "samples": ctx.Samples,
		}, "", " ")
		os.WriteFile(*stats, js, 0o644)
	}
}
