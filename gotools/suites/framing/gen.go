package main

import (
	"fmt"
	"math/rand"
	"strconv"
	"strings"

	. "verif/gotools/hlib"
)

// generators: every choice comes from ctx.Rng

type gen struct {
	c *Ctx
	r *rand.Rand
}

func (g *gen) pick(xs ...int) int { return xs[g.r.Intn(len(xs))] }

// frameTok: the RFC 4571 frame of a pattern payload of length n as a bytes token (header + pattern)
func (g *gen) frameTok(n int) string {
	h := fmt.Sprintf("x%04x", n&0xffff)
	if n == 0 {
		return h
	}
	return h + "+" + g.payloadTok(n)
}

func (g *gen) payloadTok(n int) string {
	if n == 0 {
		return "x"
	}
	return fmt.Sprintf("p%d.%d", g.r.Intn(255), n)
}

// packet lengths: mostly small, boundary values, near the MTU, and (when big is set) up to 65535
func (g *gen) pktLen(big bool) int {
	switch x := g.r.Intn(100); {
	case x < 35:
		return g.r.Intn(41)
	case x < 55:
		return 41 + g.r.Intn(1460)
	case x < 80:
		return g.pick(0, 1, 2, 3, 254, 255, 256, 257, 511, 512, 513, 1199, 1200, 1460)
	case x < 92 || !big:
		return g.pick(8189, 8190, 8191, 8192)
	default:
		return g.pick(8193, 8194, 9000, 16384, 32767, 32768, 65533, 65534, 65535)
	}
}

func sizesTok(sizes []int) string {
	var sb strings.Builder
	sb.WriteString("c")
	for i := 0; i < len(sizes); {
		j := i
		for j < len(sizes) && sizes[j] == sizes[i] {
			j++
		}
		if i > 0 {
			sb.WriteString(",")
		}
		if j-i > 1 {
			fmt.Fprintf(&sb, "%dx%d", sizes[i], j-i)
		} else {
			sb.WriteString(strconv.Itoa(sizes[i]))
		}
		i = j
	}
	return sb.String()
}

// partition of a stream made of the given frame sizes (header included)
func (g *gen) part(frameSizes []int) string {
	total := 0
	for _, f := range frameSizes {
		total += f
	}
	if total == 0 {
		total = 1
	}
	for {
		switch g.r.Intn(12) {
		case 0: // one byte per read
			if total <= 140000 {
				return "c1"
			}
		case 1:
			return "c" + strconv.Itoa(g.pick(2, 3, 5, 7))
		case 2: // everything coalesced into one read
			return "c" + strconv.Itoa(total)
		case 3: // exactly one frame per read (the trivial segmentation)
			if len(frameSizes) > 0 && len(frameSizes) <= 64 {
				return sizesTok(frameSizes)
			}
		case 4: // split inside every header: first byte of the header ends a chunk
			if len(frameSizes) > 0 && len(frameSizes) <= 64 {
				s := []int{1}
				for i, f := range frameSizes {
					if i == len(frameSizes)-1 {
						s = append(s, f)
					} else {
						s = append(s, f) // body of frame i + first header byte of frame i+1
					}
				}
				return sizesTok(s)
			}
		case 5: // frames coalesced in pairs
			if len(frameSizes) > 1 && len(frameSizes) <= 64 {
				var s []int
				for i := 0; i < len(frameSizes); i += 2 {
					if i+1 < len(frameSizes) {
						s = append(s, frameSizes[i]+frameSizes[i+1])
					} else {
						s = append(s, frameSizes[i])
					}
				}
				return sizesTok(s)
			}
		case 6: // MSS-like
			return "c" + strconv.Itoa(g.pick(536, 1200, 1448, 1460, 8192, 65535))
		case 7: // drifting boundary: chunk = frame size + 1 or + 3
			if len(frameSizes) > 0 {
				return "c" + strconv.Itoa(frameSizes[0]+g.pick(1, 3))
			}
		default: // random cycle
			n := 1 + g.r.Intn(16)
			s := make([]int, n)
			for i := range s {
				switch g.r.Intn(6) {
				case 0:
					s[i] = 1
				case 1:
					s[i] = 2
				case 2:
					s[i] = 1 + g.r.Intn(20)
				case 3:
					s[i] = 1 + g.r.Intn(2000)
				case 4:
					s[i] = g.pick(1460, 8192, 8194)
				default:
					s[i] = 1 + g.r.Intn(total)
				}
			}
			return sizesTok(s)
		}
	}
}

func (g *gen) ferr() int {
	switch g.r.Intn(10) {
	case 0, 1:
		return 10 + g.r.Intn(5) // a scripted conn error (reset, timeout, ...)
	case 2:
		return 8
	default:
		return 0 // EOF
	}
}

func (g *gen) capFor(lens []int) int {
	mx := 0
	for _, l := range lens {
		if l > mx {
			mx = l
		}
	}
	switch g.r.Intn(10) {
	case 0:
		return g.pick(0, 1, 2, 511, 512, 513, 8191, 8192, 8193, 65535)
	case 1:
		if mx > 0 {
			return mx - 1
		}
		return 0
	case 2:
		return mx
	case 3:
		return mx + 1
	case 4:
		return g.r.Intn(65536)
	case 5:
		return 512 // TCPMuxDefault.handleConn
	default:
		return mtu // the reader loops
	}
}

func (g *gen) blenFor(capacity int) int {
	switch g.r.Intn(4) {
	case 0:
		return 0
	case 1:
		return g.r.Intn(capacity + 1)
	default:
		return capacity
	}
}

func (g *gen) emit(toks ...string) error { return runCase(g.c, toks) }

// rd/pcr: valid frame sequences x partitions
func (g *gen) validStream(maxFrames int, big bool) (body string, lens, sizes []int) {
	n := g.r.Intn(maxFrames + 1)
	var pieces []string
	for i := 0; i < n; i++ {
		l := g.pktLen(big)
		lens = append(lens, l)
		sizes = append(sizes, 2+l)
		pieces = append(pieces, g.frameTok(l))
	}
	if n == 0 {
		return "x", nil, nil
	}
	return strings.Join(pieces, "+"), lens, sizes
}

// uniform: k frames of the same length
func (g *gen) uniformStream(k, l int) (string, []int, []int) {
	var pieces []string
	var lens, sizes []int
	for i := 0; i < k; i++ {
		pieces = append(pieces, g.frameTok(l))
		lens = append(lens, l)
		sizes = append(sizes, 2+l)
	}
	return strings.Join(pieces, "+"), lens, sizes
}

func runFraming(c *Ctx) error {
	c.Rule = "rd/pcr: frame sequences (lengths 0..65535: small, boundary values, MTU-1..MTU+1, 65534/65535) x read partitions (1-byte reads, split headers, coalesced frames, random cycles) x buffer capacities 0..65535 x final error; truncation at every offset of small streams; random garbage and hostile length fields; data delivered together with the error. wr/pcw/pipe: packet lengths around 0,1,2,255,256,8190..8193,65533..65536,70000 with and without write buffering. actr/actw: activeTCPConn over loopback TCP. Non-trivial = the segmentation is not one-frame-per-read (a frame is split or frames are coalesced) or the stream/packet is invalid (truncated, garbage, larger than the buffer, longer than 65535) or several packets are in flight. Distinct = distinct case token lines."
	if c.Replay != "" {
		for _, t := range c.ReplayLines() {
			if err := runCase(c, t); err != nil {
				return err
			}
		}
		return nil
	}
	g := &gen{c: c, r: c.Rng}
	scale := 1
	if c.Tier != "quick" {
		scale = 14
	}

	// --- G0: fixed boundary cases (always run)
	for _, l := range []int{0, 1, 2, 255, 256, 8191, 8192, 8193, 65534, 65535} {
		body, _, sizes := g.uniformStream(1, l)
		for _, capacity := range []int{0, 1, l - 1, l, l + 1, 512, mtu, 65535} {
			if capacity < 0 || capacity > 65535 {
				continue
			}
			for _, p := range []string{"c" + strconv.Itoa(2+l), "c1", "c3", "c1,1," + strconv.Itoa(l+2), "c8192"} {
				if p == "c1" && l > 8193 && capacity != 65535 {
					continue
				}
				if err := g.emit("rd", strconv.Itoa(capacity), strconv.Itoa(capacity), body, p, "x", "0"); err != nil {
					return err
				}
			}
		}
		_ = sizes
	}
	for _, l := range []int{0, 1, 2, 255, 256, 8190, 8191, 8192, 8193, 65533, 65534, 65535, 65536, 65537, 70000, 131071, 131072} {
		if err := g.emit("wr", g.payloadTok(l), "-"); err != nil {
			return err
		}
		if err := g.emit("wr", g.payloadTok(l), "12"); err != nil {
			return err
		}
		for _, wbuf := range []int{0, 4 << 20} {
			if err := g.emit("pcw", strconv.Itoa(wbuf), g.payloadTok(l), g.payloadTok(5)); err != nil {
				return err
			}
			if l <= mtu || l > 65535 || wbuf == 0 {
				if err := g.emit("pipe", strconv.Itoa(wbuf), "4", "65535", g.pickPartTotal(2+l+7), g.payloadTok(3), g.payloadTok(l), g.payloadTok(2)); err != nil {
					return err
				}
			}
		}
	}

	// --- G1: rd, valid frame sequences x partitions x capacities
	for i := 0; i < 1400*scale; i++ {
		body, lens, sizes := g.validStream(8, i%9 == 0)
		capacity := g.capFor(lens)
		if err := g.emit("rd", strconv.Itoa(capacity), strconv.Itoa(g.blenFor(capacity)), body, g.part(sizes), "x", strconv.Itoa(g.ferr())); err != nil {
			return err
		}
	}
	// uniform sequences with drifting chunk boundaries (every header offset is hit)
	for i := 0; i < 150*scale; i++ {
		l := g.pick(0, 1, 2, 3, 5, 17, 255, 256)
		k := 3 + g.r.Intn(12)
		body, _, _ := g.uniformStream(k, l)
		p := "c" + strconv.Itoa(2+l+g.pick(-1, 1, 2, 3))
		if 2+l-1 < 1 && strings.HasSuffix(p, "c1") {
			p = "c1"
		}
		if err := g.emit("rd", strconv.Itoa(mtu), strconv.Itoa(mtu), body, p, "x", "0"); err != nil {
			return err
		}
	}

	// --- G1b: the last bytes of the stream are delivered together with the error (n > 0 and err != nil
	// in one Read: allowed by io.Reader, not done by net.TCPConn)
	for i := 0; i < 150*scale; i++ {
		body, _, sizes := g.validStream(5, false)
		raw := bytesOfTok(body)
		if len(raw) == 0 || len(raw) > 20000 {
			continue
		}
		k := 1 + g.r.Intn(len(raw))
		if i%3 == 0 {
			k = 1 + g.r.Intn(3)
			if k > len(raw) {
				k = len(raw)
			}
		}
		cut := len(raw) - k
		capacity := g.pick(mtu, mtu, 512, 65535)
		if err := g.emit("rd", strconv.Itoa(capacity), strconv.Itoa(capacity), hx(raw[:cut]), g.part(sizes), hx(raw[cut:]), strconv.Itoa(g.ferr())); err != nil {
			return err
		}
		if i%4 == 0 {
			if err := g.emit("pcr", strconv.Itoa(g.pick(0, 1, 8)), strconv.Itoa(mtu), strconv.Itoa(mtu), hx(raw[:cut]), g.part(sizes), hx(raw[cut:]), g.pickS("0", "11")); err != nil {
				return err
			}
		}
	}

	// --- G2: truncation at every offset of small streams
	for rep := 0; rep < 3*scale; rep++ {
		var pieces []string
		total := 0
		for i := 0; i < 3; i++ {
			l := g.r.Intn(5)
			pieces = append(pieces, fmt.Sprintf("x%04x%s", l, strings.Repeat(fmt.Sprintf("%02x", 0x41+g.r.Intn(20)), l)))
			total += 2 + l
		}
		full := strings.ReplaceAll(strings.Join(pieces, ""), "x", "")
		for cut := 0; cut <= total; cut++ {
			body := "x" + full[:2*cut]
			for _, p := range []string{"c" + strconv.Itoa(total+1), "c1", "c2", "c3"} {
				for _, e := range []string{"0", "11"} {
					if err := g.emit("rd", strconv.Itoa(g.pick(mtu, 512, 4, 3)), "0", body, p, "x", e); err != nil {
						return err
					}
				}
				if err := g.emit("pcr", strconv.Itoa(g.pick(0, 1, 8)), strconv.Itoa(mtu), strconv.Itoa(mtu), body, p, "x", "0"); err != nil {
					return err
				}
			}
			// the same prefix, its last k bytes delivered together with the error
			if cut > 0 {
				k := 1 + g.r.Intn(cut)
				if err := g.emit("rd", strconv.Itoa(mtu), strconv.Itoa(mtu), "x"+full[:2*(cut-k)], "c"+strconv.Itoa(g.pick(1, 2, 64)), "x"+full[2*(cut-k):2*cut], g.pickS("0", "12")); err != nil {
					return err
				}
			}
		}
	}

	// --- G3: garbage and hostile length fields
	for i := 0; i < 500*scale; i++ {
		n := g.r.Intn(64)
		b := make([]byte, n)
		g.r.Read(b)
		switch g.r.Intn(6) {
		case 0: // all zero: a run of empty packets
			for j := range b {
				b[j] = 0
			}
		case 1: // maximal length field, a few bytes follow
			if n >= 2 {
				b[0], b[1] = 0xff, 0xff
			}
		case 2: // length just above / at / below what follows
			if n >= 2 {
				l := n - 2 + g.pick(-1, 0, 1)
				if l < 0 {
					l = 0
				}
				b[0], b[1] = byte(l>>8), byte(l)
			}
		}
		capacity := g.pick(0, 1, 2, 16, 64, 512, mtu, 65535, g.r.Intn(65536))
		if err := g.emit("rd", strconv.Itoa(capacity), strconv.Itoa(g.blenFor(capacity)), hx(b), g.part(nil), "x", strconv.Itoa(g.ferr())); err != nil {
			return err
		}
	}
	// header announcing cap+1 / cap / cap-1 with a full body present
	for i := 0; i < 60*scale; i++ {
		capacity := g.pick(0, 1, 2, 255, 256, 511, 512, mtu-1, mtu, 65534)
		l := capacity + g.pick(-1, 0, 1)
		if l < 0 {
			l = 0
		}
		body := g.frameTok(l) + "+" + g.frameTok(1)
		if err := g.emit("rd", strconv.Itoa(capacity), strconv.Itoa(capacity), body, g.part([]int{2 + l, 3}), "x", "0"); err != nil {
			return err
		}
	}

	// --- G4: big frames
	for i := 0; i < 40*scale; i++ {
		l := g.pick(8191, 8192, 8193, 65534, 65535)
		k := 1 + g.r.Intn(2)
		body, lens, sizes := g.uniformStream(k, l)
		capacity := g.pick(l-1, l, 65535, mtu, l)
		_ = lens
		if err := g.emit("rd", strconv.Itoa(capacity), strconv.Itoa(capacity), body, g.part(sizes), "x", "0"); err != nil {
			return err
		}
	}

	// --- G5: wr, random lengths
	for i := 0; i < 120*scale; i++ {
		l := g.pktLen(i%4 == 0)
		if i%15 == 0 {
			l = 65536 + g.r.Intn(70000)
		}
		if err := g.emit("wr", g.payloadTok(l), g.pickS("-", "-", "-", "12", "0")); err != nil {
			return err
		}
	}

	// --- G6: pcr, tcpPacketConn.ReadFrom over streams
	for i := 0; i < 700*scale; i++ {
		rbuf := g.pick(0, 1, 8)
		switch g.r.Intn(5) {
		case 0: // caller's buffer smaller than some packets: frames <= MTU only, no scripted ShortBuffer
			body, lens, sizes := g.validStream(6, false)
			b := 0
			if len(lens) > 0 {
				b = lens[g.r.Intn(len(lens))] + g.pick(-1, 0, 1)
			}
			if b < 0 {
				b = 0
			}
			if err := g.emit("pcr", strconv.Itoa(rbuf), strconv.Itoa(b), strconv.Itoa(b), body, g.part(sizes), "x", g.pickS("0", "0", "11")); err != nil {
				return err
			}
		case 1: // len(b) < cap(b): a slice of a larger buffer
			body, lens, sizes := g.validStream(4, false)
			b := 0
			if len(lens) > 0 {
				b = lens[g.r.Intn(len(lens))] + g.pick(-1, 0, 1, -5)
			}
			if b < 0 {
				b = 0
			}
			if b > mtu {
				b = mtu
			}
			if err := g.emit("pcr", strconv.Itoa(rbuf), strconv.Itoa(b), strconv.Itoa(g.pick(mtu, 65535)), body, g.part(sizes), "x", g.pickS("0", "0", "11")); err != nil {
				return err
			}
		case 2: // oversize frame somewhere: terminal ShortBuffer
			body, _, sizes := g.validStream(4, false)
			l := g.pick(8193, 8194, 9000, 65535)
			if body == "x" {
				body = g.frameTok(l)
			} else {
				body += "+" + g.frameTok(l)
			}
			sizes = append(sizes, 2+l)
			if err := g.emit("pcr", strconv.Itoa(rbuf), strconv.Itoa(mtu), strconv.Itoa(mtu), body+"+"+g.frameTok(3), g.part(sizes), "x", "0"); err != nil {
				return err
			}
		default:
			body, _, sizes := g.validStream(8, false)
			b := g.pick(mtu, mtu, 65535)
			if err := g.emit("pcr", strconv.Itoa(rbuf), strconv.Itoa(b), strconv.Itoa(b), body, g.part(sizes), "x", strconv.Itoa(g.ferr())); err != nil {
				return err
			}
		}
	}

	// --- G7: pcw
	for i := 0; i < 250*scale; i++ {
		wbuf := g.pick(0, 4<<20)
		n := 1 + g.r.Intn(5)
		toks := []string{"pcw", strconv.Itoa(wbuf)}
		for j := 0; j < n; j++ {
			l := g.pktLen(i%5 == 0)
			if i%25 == 0 && j == 1 {
				l = g.pick(65536, 65537, 70000, 100000)
			}
			toks = append(toks, g.payloadTok(l))
		}
		if err := g.emit(toks...); err != nil {
			return err
		}
	}

	// --- G8: pipe (write/read composition)
	for i := 0; i < 450*scale; i++ {
		wbuf := g.pick(0, 0, 4<<20)
		n := g.r.Intn(7)
		var ps []string
		var sizes []int
		small := i%6 == 0 // small reader buffer: packets <= MTU only
		for j := 0; j < n; j++ {
			l := g.pktLen(false)
			switch {
			case i%10 == 3 && j == n/2:
				l = g.pick(8193, 9000, 65535) // larger than the reader's MTU buffer
			case i%40 == 7 && j == n/2 && !small:
				l = g.pick(65536, 70000) // longer than the length field
			case i%3 == 0:
				l = g.r.Intn(1500)
				if l > mtu-2 {
					l = mtu - 2
				}
			}
			if small && l > mtu {
				l = mtu
			}
			ps = append(ps, g.payloadTok(l))
			sizes = append(sizes, 2+l)
		}
		bcap := g.pick(mtu, mtu, 65535)
		if small && n > 0 {
			bcap = g.r.Intn(sizes[g.r.Intn(n)])
		}
		toks := append([]string{"pipe", strconv.Itoa(wbuf), strconv.Itoa(g.pick(0, 1, 8)), strconv.Itoa(bcap), g.part(sizes)}, ps...)
		if err := g.emit(toks...); err != nil {
			return err
		}
	}

	// --- G9: activeTCPConn over loopback TCP (few cases: each bad stream costs the harness's end patience)
	nact := 5
	if c.Tier != "quick" {
		nact = 40
	}
	for i := 0; i < nact; i++ {
		// valid streams, peer closes at a frame boundary
		body, lens, sizes := g.validStream(5, false)
		b := mtu
		if i%3 == 2 && len(lens) > 0 {
			b = lens[g.r.Intn(len(lens))] + g.pick(-1, 0)
			if b < 0 {
				b = 0
			}
		}
		if err := g.emit("actr", strconv.Itoa(b), body, g.part(sizes)); err != nil {
			return err
		}
		// bad streams: truncated frame, frame above the MTU, garbage
		body, _, sizes = g.validStream(3, false)
		var bad string
		switch i % 3 {
		case 0:
			l := 2 + g.r.Intn(600)
			bad = fmt.Sprintf("x%04x+%s", l, g.payloadTok(g.r.Intn(l)))
		case 1:
			bad = g.frameTok(g.pick(8193, 9000, 65535)) + "+" + g.frameTok(3)
		default:
			bad = "xffff" + fmt.Sprintf("%02x", g.r.Intn(256))
		}
		if body == "x" {
			body = bad
		} else {
			body += "+" + bad
		}
		if err := g.emit("actr", strconv.Itoa(mtu), body, g.part(sizes)); err != nil {
			return err
		}
		// writes
		n := 1 + g.r.Intn(5)
		toks := []string{"actw"}
		for j := 0; j < n; j++ {
			l := g.pktLen(false)
			switch {
			case i%5 == 1 && j == n-1:
				l = g.pick(8193, 9000, 65535)
			case i%5 == 3 && j == 0:
				l = g.pick(65536, 70000)
			}
			toks = append(toks, g.payloadTok(l))
		}
		if err := g.emit(toks...); err != nil {
			return err
		}
	}
	return nil
}

func (g *gen) pickS(xs ...string) string { return xs[g.r.Intn(len(xs))] }

func (g *gen) pickPartTotal(total int) string {
	return g.pickS("c1460", "c"+strconv.Itoa(total), "c7,1,8192", "c3")
}
