package main

// suite "framing" (C14): ICE-TCP framing (RFC 4571) on the real pion/ice code over a harness-owned
// fake net.Conn that serves scripted chunks and records what is written.
//
// case lines (tokens; bytes tokens are '+'-joined pieces, x<hex> or p<seed>.<len>; partitions are
// c<size>[x<repeat>],... applied cyclically):
//   rd   <cap> <blen> <body> <part> <tail> <err>      readStreamingPacket until its first error
//   wr   <payload> <werr|->                           one writeStreamingPacket
//   pcr  <rbuf> <blen> <bcap> <body> <part> <tail> <err>   tcpPacketConn.ReadFrom until the terminal error
//   pcw  <wbuf> <payload>...                          tcpPacketConn.WriteTo, what reaches the TCP conn
//   pipe <wbuf> <rbuf> <bcap> <part> <payload>...     WriteTo on one tcpPacketConn, bytes re-chunked, ReadFrom on another
//   actr <blen> <body> <part>                         activeTCPConn.ReadFrom over loopback TCP (peer writes the chunks, then half-closes)
//   actw <payload>...                                 activeTCPConn.WriteTo over loopback TCP (what the peer receives)
//
// Zero-length reads (0, nil) are outside the io.Reader contract of a net.Conn and are never served.

import (
	"context"
	"encoding/hex"
	"errors"
	"fmt"
	"io"
	"net"
	"net/netip"
	"strconv"
	"strings"
	"sync"
	"time"

	ice "github.com/pion/ice/v4"

	. "verif/gotools/hlib"
)

func main() { Main("framing", runFraming) }

const mtu = ice.VerifFramingReceiveMTU

// ---------------------------------------------------------------- tokens

func pattern(seed, n int) []byte {
	b := make([]byte, n)
	for i := range b {
		b[i] = byte(1 + ((seed + i*7 + (i>>8)*13) % 255))
	}
	return b
}

func bytesOfTok(t string) []byte {
	var out []byte
	for _, p := range strings.Split(t, "+") {
		if strings.HasPrefix(p, "p") {
			ab := strings.Split(p[1:], ".")
			out = append(out, pattern(atoi(ab[0]), atoi(ab[1]))...)
		} else {
			b, err := hex.DecodeString(strings.TrimPrefix(p, "x"))
			if err != nil {
				panic("bad bytes token " + p)
			}
			out = append(out, b...)
		}
	}
	return out
}

func hx(b []byte) string { return "x" + hex.EncodeToString(b) }

func sizesOfTok(t string) []int {
	var out []int
	for _, it := range strings.Split(strings.TrimPrefix(t, "c"), ",") {
		nk := strings.Split(it, "x")
		n, k := atoi(nk[0]), 1
		if len(nk) == 2 {
			k = atoi(nk[1])
		}
		if n < 1 {
			panic("partition size < 1")
		}
		for i := 0; i < k; i++ {
			out = append(out, n)
		}
	}
	return out
}

func chunkCyclic(sizes []int, b []byte) [][]byte {
	var out [][]byte
	for pos, i := 0, 0; pos < len(b); i++ {
		sz := sizes[i%len(sizes)]
		if sz > len(b)-pos {
			sz = len(b) - pos
		}
		out = append(out, b[pos:pos+sz])
		pos += sz
	}
	return out
}

func atoi(s string) int {
	v, err := strconv.Atoi(s)
	if err != nil {
		panic(err)
	}
	return v
}

// ---------------------------------------------------------------- errors

type scriptErr struct{ code int }

func (e scriptErr) Error() string { return fmt.Sprintf("scripted error %d", e.code) }

func errOfCode(c int) error {
	switch c {
	case 0:
		return io.EOF
	case 1:
		return io.ErrShortBuffer
	case 8:
		return io.ErrClosedPipe
	default:
		return scriptErr{c}
	}
}

func codeOf(err error) string {
	var se scriptErr
	switch {
	case err == nil:
		return "-"
	case errors.As(err, &se):
		return strconv.Itoa(se.code)
	case errors.Is(err, io.EOF):
		return "0"
	case errors.Is(err, io.ErrShortBuffer):
		return "1"
	case errors.Is(err, io.ErrClosedPipe):
		return "8"
	default:
		return "9"
	}
}

// ---------------------------------------------------------------- the fake net.Conn

type scriptConn struct {
	mu       sync.Mutex
	chunks   [][]byte
	tail     []byte
	err      error // nil: block until closed once the script is exhausted
	consumed int
	reads    int
	maxreq   int
	writes   [][]byte
	werr     error
	closed   bool
	closedCh chan struct{}
	remote   net.Addr
}

var connSeq int

func newScriptConn(chunks [][]byte, tail []byte, err error) *scriptConn {
	connSeq++
	return &scriptConn{chunks: chunks, tail: tail, err: err, closedCh: make(chan struct{}),
		remote: &net.TCPAddr{IP: net.IPv4(10, 0, 0, 2), Port: 1000 + connSeq%60000}}
}

func (c *scriptConn) Read(p []byte) (int, error) {
	c.mu.Lock()
	if c.closed {
		c.mu.Unlock()
		return 0, net.ErrClosed
	}
	c.reads++
	if len(p) > c.maxreq {
		c.maxreq = len(p)
	}
	if len(c.chunks) > 0 {
		h := c.chunks[0]
		n := copy(p, h)
		if n < len(h) {
			c.chunks[0] = h[n:]
		} else {
			c.chunks = c.chunks[1:]
		}
		c.consumed += n
		c.mu.Unlock()
		return n, nil
	}
	if len(c.tail) > len(p) {
		n := copy(p, c.tail)
		c.tail = c.tail[n:]
		c.consumed += n
		c.mu.Unlock()
		return n, nil
	}
	if c.err != nil {
		n := copy(p, c.tail) // the rest of the tail is handed out together with the error
		c.tail = nil
		c.consumed += n
		err := c.err
		c.mu.Unlock()
		return n, err
	}
	c.mu.Unlock()
	<-c.closedCh
	return 0, net.ErrClosed
}

func (c *scriptConn) Write(p []byte) (int, error) {
	c.mu.Lock()
	defer c.mu.Unlock()
	c.writes = append(c.writes, append([]byte(nil), p...))
	if c.werr != nil {
		return 0, c.werr
	}
	return len(p), nil
}

func (c *scriptConn) Close() error {
	c.mu.Lock()
	defer c.mu.Unlock()
	if !c.closed {
		c.closed = true
		close(c.closedCh)
	}
	return nil
}

func (c *scriptConn) isClosed() bool {
	c.mu.Lock()
	defer c.mu.Unlock()
	return c.closed
}

func (c *scriptConn) snapshotWrites() [][]byte {
	c.mu.Lock()
	defer c.mu.Unlock()
	return append([][]byte(nil), c.writes...)
}

func (c *scriptConn) LocalAddr() net.Addr              { return &net.TCPAddr{IP: net.IPv4(10, 0, 0, 1), Port: 7} }
func (c *scriptConn) RemoteAddr() net.Addr             { return c.remote }
func (c *scriptConn) SetDeadline(time.Time) error      { return nil }
func (c *scriptConn) SetReadDeadline(time.Time) error  { return nil }
func (c *scriptConn) SetWriteDeadline(time.Time) error { return nil }

// patience: how long a call of the implementation may take before it is reported as HANG.  Every HANG
// is a monitor failure; after a few of them (a broken implementation) the patience drops so that the
// run still ends in reasonable time.
var hangs int

func patience() time.Duration {
	if hangs >= 3 {
		return 300 * time.Millisecond
	}
	return 15 * time.Second
}

// guarded runs f; a panic yields "P", no return within patience yields "HANG"
func guarded(f func()) string {
	done := make(chan string, 1)
	go func() {
		defer func() {
			if r := recover(); r != nil {
				done <- "P"
			}
		}()
		f()
		done <- ""
	}()
	select {
	case s := <-done:
		return s
	case <-time.After(patience()):
		hangs++
		return "HANG"
	}
}

// ---------------------------------------------------------------- case runners

func runRd(capacity, blen int, body []byte, sizes []int, tail []byte, ecode int) []string {
	conn := newScriptConn(chunkCyclic(sizes, body), tail, errOfCode(ecode))
	var obs []string
	flag := guarded(func() {
		for {
			buf := make([]byte, blen, capacity)
			n, err := ice.VerifFramingRead(conn, buf)
			switch {
			case err == nil:
				obs = append(obs, "k"+hx(buf[:n]))
				continue
			case n == 0:
				obs = append(obs, "e"+codeOf(err))
			case errors.Is(err, io.ErrShortBuffer):
				obs = append(obs, "s"+strconv.Itoa(n))
			default:
				obs = append(obs, fmt.Sprintf("bad:n%d:e%s", n, codeOf(err)))
			}
			return
		}
	})
	if flag != "" {
		obs = append(obs, "P")
	}
	conn.mu.Lock()
	obs = append(obs, fmt.Sprintf("c%d", conn.consumed), fmt.Sprintf("r%d", conn.reads), fmt.Sprintf("m%d", conn.maxreq))
	conn.mu.Unlock()
	return obs
}

func runWr(payload []byte, werr string) []string {
	conn := newScriptConn(nil, nil, nil)
	if werr != "-" {
		conn.werr = errOfCode(atoi(werr))
	}
	var obs []string
	flag := guarded(func() {
		n, err := ice.VerifFramingWrite(conn, payload)
		obs = append(obs, "n"+strconv.Itoa(n), "e"+codeOf(err))
	})
	for _, w := range conn.snapshotWrites() {
		obs = append(obs, "w"+hx(w))
	}
	if flag != "" {
		obs = append(obs, "P")
	}
	return obs
}

var localAddr = &net.TCPAddr{IP: net.IPv4(10, 0, 0, 1), Port: 7}

// readFromAll: ReadFrom until the terminal error. A ShortBuffer error with a buffer below the MTU comes
// from ReadFrom itself (packet larger than b) and is not terminal; the generators never produce a
// terminal ShortBuffer (frame > MTU, or the conn failing with io.ErrShortBuffer) together with such a buffer.
func readFromAll(pc net.PacketConn, blen, bcap int) (obs []string, hang bool) {
	for {
		b := make([]byte, blen, bcap)
		var n int
		var err error
		flag := guarded(func() { n, _, err = pc.ReadFrom(b) })
		if flag != "" {
			return append(obs, flag), true
		}
		if err == nil {
			if n > cap(b) {
				return append(obs, "P"), true
			}
			obs = append(obs, fmt.Sprintf("k%d:%s", n, hx(b[:n])))
			continue
		}
		if n != 0 {
			obs = append(obs, fmt.Sprintf("bad:n%d:e%s", n, codeOf(err)))
		} else {
			obs = append(obs, "e"+codeOf(err))
		}
		if errors.Is(err, io.ErrShortBuffer) && blen < mtu {
			continue
		}
		return obs, false
	}
}

func runPcr(rbuf, blen, bcap int, body []byte, sizes []int, tail []byte, ecode int) []string {
	pc := ice.VerifFramingNewPacketConn(rbuf, 0, localAddr)
	conn := newScriptConn(chunkCyclic(sizes, body), tail, errOfCode(ecode))
	if err := pc.AddConn(conn, nil); err != nil {
		return []string{"addconn:" + codeOf(err)}
	}
	obs, hang := readFromAll(pc.PacketConn(), blen, bcap)
	if conn.isClosed() {
		obs = append(obs, "cl1")
	} else {
		obs = append(obs, "cl0")
	}
	if !hang {
		guarded(func() { _ = pc.PacketConn().Close() })
	}
	return obs
}

var flushMarker = []byte("\xf0\x9f\x8f\x81verif-flush-marker")

// writeAll: WriteTo every payload on a tcpPacketConn over a recording conn; returns the per-packet
// results, the buffers that reached the conn, and a flag (HANG/P).
func writeAll(wbuf int, payloads [][]byte) (res []string, writes [][]byte, flag string) {
	pc := ice.VerifFramingNewPacketConn(4, wbuf, localAddr)
	conn := newScriptConn(nil, nil, nil)
	if err := pc.AddConn(conn, nil); err != nil {
		return []string{"addconn:" + codeOf(err)}, nil, ""
	}
	flag = guarded(func() {
		for _, p := range payloads {
			n, err := pc.PacketConn().WriteTo(p, conn.RemoteAddr())
			res = append(res, fmt.Sprintf("n%d:e%s", n, codeOf(err)))
		}
	})
	if flag == "" && wbuf > 0 {
		// writes are asynchronous (bufferedConn.writeProcess, FIFO): push a marker through and wait for it
		if _, err := pc.PacketConn().WriteTo(flushMarker, conn.RemoteAddr()); err != nil {
			flag = "HANG"
		}
		deadline := time.Now().Add(patience())
		for flag == "" {
			ws := conn.snapshotWrites()
			if len(ws) > 0 && strings.HasSuffix(string(ws[len(ws)-1]), string(flushMarker)) {
				break
			}
			if time.Now().After(deadline) {
				flag = "HANG"
				hangs++
			}
			time.Sleep(200 * time.Microsecond)
		}
	}
	writes = conn.snapshotWrites()
	if wbuf > 0 && flag == "" {
		writes = writes[:len(writes)-1]
	}
	if flag == "" {
		guarded(func() { _ = pc.PacketConn().Close() })
	}
	return res, writes, flag
}

func runPcw(wbuf int, payloads [][]byte) []string {
	res, writes, flag := writeAll(wbuf, payloads)
	obs := append(res, "|")
	for _, w := range writes {
		obs = append(obs, "w"+hx(w))
	}
	if flag != "" {
		obs = append(obs, flag)
	}
	return obs
}

func runPipe(wbuf, rbuf, bcap int, sizes []int, payloads [][]byte) []string {
	res, writes, flag := writeAll(wbuf, payloads)
	obs := append(res, "|")
	if flag != "" {
		return append(obs, flag)
	}
	var flat []byte
	for _, w := range writes {
		flat = append(flat, w...)
	}
	pc := ice.VerifFramingNewPacketConn(rbuf, 0, localAddr)
	conn := newScriptConn(chunkCyclic(sizes, flat), nil, io.EOF)
	if err := pc.AddConn(conn, nil); err != nil {
		return append(obs, "addconn:"+codeOf(err))
	}
	robs, hang := readFromAll(pc.PacketConn(), bcap, bcap)
	obs = append(obs, robs...)
	if !hang {
		guarded(func() { _ = pc.PacketConn().Close() })
	}
	return obs
}

// ---- activeTCPConn over loopback TCP

// how long the harness waits for an error/closure after the stream ended before reporting "end0"
const endPatience = 700 * time.Millisecond

func runActr(blen int, body []byte, sizes []int) []string {
	// how many packets to wait for (drives the reading only; the monitor judges what was received)
	expect, _ := frameWalk(body, mtu)
	l, err := net.Listen("tcp", "127.0.0.1:0")
	if err != nil {
		panic(err)
	}
	defer l.Close()
	ctx, cancel := context.WithCancel(context.Background())
	defer cancel()
	ac := ice.VerifFramingNewActiveConn(ctx, "127.0.0.1:0", netip.MustParseAddrPort(l.Addr().String()))
	defer ac.Close()
	_ = l.(*net.TCPListener).SetDeadline(time.Now().Add(patience()))
	srv, err := l.Accept()
	if err != nil {
		return []string{"HANG"}
	}
	defer srv.Close()
	peerClosed := make(chan struct{})
	go func() {
		for _, c := range chunkCyclic(sizes, body) {
			if _, err := srv.Write(c); err != nil {
				break
			}
		}
		// half-close: the client's reader sees EOF after the body; then watch for the client closing
		_ = srv.(*net.TCPConn).CloseWrite()
		one := make([]byte, 1)
		for {
			if _, err := srv.Read(one); err != nil {
				close(peerClosed)
				return
			}
		}
	}()
	type rr struct {
		n   int
		err error
		b   []byte
	}
	results := make(chan rr, 1)
	readOne := func() {
		go func() {
			b := make([]byte, blen)
			n, _, err := ac.ReadFrom(b)
			results <- rr{n, err, b}
		}()
	}
	var obs []string
	for i := 0; i < expect; i++ {
		readOne()
		select {
		case r := <-results:
			switch {
			case r.err == nil:
				obs = append(obs, fmt.Sprintf("k%d:%s", r.n, hx(r.b[:r.n])))
			case errors.Is(r.err, io.ErrShortBuffer):
				obs = append(obs, fmt.Sprintf("t%s:1", hx(r.b[:r.n])))
			default:
				return append(obs, "e"+codeOf(r.err), "end1")
			}
		case <-time.After(patience()):
			hangs++
			return append(obs, "HANG")
		}
	}
	// the stream is over (EOF after the last complete frame, or a bad frame): does the conn report it?
	readOne()
	select {
	case r := <-results:
		if r.err != nil {
			return append(obs, "end1")
		}
		return append(obs, fmt.Sprintf("k%d:%s", r.n, hx(r.b[:r.n])), "end1")
	case <-peerClosed:
		return append(obs, "end1")
	case <-time.After(endPatience):
	}
	// nothing yet: before concluding that the conn stays silent, make sure the machine is not just slow
	// (a loopback round trip that takes long means heavy load: then wait much longer)
	if loopbackRoundTrip() > 20*time.Millisecond {
		select {
		case r := <-results:
			if r.err != nil {
				return append(obs, "end1")
			}
			return append(obs, fmt.Sprintf("k%d:%s", r.n, hx(r.b[:r.n])), "end1")
		case <-peerClosed:
			return append(obs, "end1")
		case <-time.After(10 * endPatience):
		}
	}
	return append(obs, "end0")
}

// loopbackRoundTrip measures one byte echoed over a fresh loopback TCP connection between two goroutines
func loopbackRoundTrip() time.Duration {
	l, err := net.Listen("tcp", "127.0.0.1:0")
	if err != nil {
		return time.Second
	}
	defer l.Close()
	go func() {
		c, err := l.Accept()
		if err != nil {
			return
		}
		defer c.Close()
		b := make([]byte, 1)
		if _, err := c.Read(b); err == nil {
			_, _ = c.Write(b)
		}
	}()
	t0 := time.Now()
	c, err := net.Dial("tcp", l.Addr().String())
	if err != nil {
		return time.Second
	}
	defer c.Close()
	_ = c.SetDeadline(time.Now().Add(5 * time.Second))
	if _, err := c.Write([]byte{1}); err != nil {
		return time.Second
	}
	if _, err := c.Read(make([]byte, 1)); err != nil {
		return time.Second
	}
	return time.Since(t0)
}

func runActw(payloads [][]byte) []string {
	l, err := net.Listen("tcp", "127.0.0.1:0")
	if err != nil {
		panic(err)
	}
	defer l.Close()
	ctx, cancel := context.WithCancel(context.Background())
	defer cancel()
	ac := ice.VerifFramingNewActiveConn(ctx, "127.0.0.1:0", netip.MustParseAddrPort(l.Addr().String()))
	defer ac.Close()
	_ = l.(*net.TCPListener).SetDeadline(time.Now().Add(patience()))
	srv, err := l.Accept()
	if err != nil {
		return []string{"HANG"}
	}
	defer srv.Close()
	var obs []string
	want := 0
	allFit := true
	for _, p := range payloads {
		n, err := ac.WriteTo(p, nil)
		obs = append(obs, fmt.Sprintf("n%d:e%s", n, codeOf(err)))
		if err == nil {
			want += 2 + len(p)
			if len(p) > mtu {
				allFit = false
			}
		}
	}
	obs = append(obs, "|")
	// read what arrives: until `want` bytes, or closure, or (when a packet cannot pass) patience
	var rx []byte
	closed := false
	buf := make([]byte, 65536)
	limit := patience()
	if !allFit {
		limit = endPatience
	}
	deadline := time.Now().Add(limit)
	for len(rx) < want {
		_ = srv.SetReadDeadline(deadline)
		n, err := srv.Read(buf)
		rx = append(rx, buf[:n]...)
		if err != nil {
			var ne net.Error
			if !(errors.As(err, &ne) && ne.Timeout()) {
				closed = true
			}
			break
		}
	}
	obs = append(obs, hx(rx))
	if closed {
		obs = append(obs, "cl1")
	} else {
		obs = append(obs, "cl0")
	}
	return obs
}

// ---------------------------------------------------------------- running a case from its tokens

// frameWalk: statistics only (decides nothing): how many complete frames the byte string holds and
// whether it ends exactly at a frame boundary
func frameWalk(b []byte, capacity int) (frames int, clean bool) {
	for {
		if len(b) == 0 {
			return frames, true
		}
		if len(b) < 2 {
			return frames, false
		}
		l := int(b[0])<<8 | int(b[1])
		if l > capacity || len(b)-2 < l {
			return frames, false
		}
		b = b[2+l:]
		frames++
	}
}

func lenClass(n int) string {
	switch {
	case n == 0:
		return "0"
	case n <= 2:
		return "1-2"
	case n <= 255:
		return "3-255"
	case n <= 8190:
		return "256-8190"
	case n <= 8192:
		return "8191-8192"
	case n <= 65535:
		return "8193-65535"
	default:
		return ">65535"
	}
}

func payloadTags(ps [][]byte) (string, bool) {
	over, nearMTU, big := false, false, false
	for _, p := range ps {
		switch {
		case len(p) > 65535:
			over = true
		case len(p) > mtu:
			big = true
		case len(p) > mtu-2:
			nearMTU = true
		}
	}
	t := ""
	if over {
		t += ",oversize"
	}
	if big {
		t += ",>mtu"
	}
	if nearMTU {
		t += ",mtu-1..mtu"
	}
	return t, over || big || nearMTU
}

func runCase(c *Ctx, t []string) error {
	switch t[0] {
	case "rd":
		capacity, blen, body, sizes, tail, e := atoi(t[1]), atoi(t[2]), bytesOfTok(t[3]), sizesOfTok(t[4]), bytesOfTok(t[5]), atoi(t[6])
		obs := runRd(capacity, blen, body, sizes, tail, e)
		frames, clean := frameWalk(append(append([]byte(nil), body...), tail...), capacity)
		nchunks := len(chunkCyclic(sizes, body))
		tag := "rd"
		switch {
		case len(tail) > 0:
			tag += ",data+err"
		case clean:
			tag += ",valid"
		default:
			tag += ",invalid"
		}
		if blen < capacity {
			tag += ",len<cap"
		}
		c.Count(tag)
		c.Count(fmt.Sprintf("rd:frames=%s", bucket(frames)))
		c.Count(fmt.Sprintf("rd:chunks/frames=%s", ratio(nchunks, frames)))
		c.Emit(tag, t, obs, !clean || nchunks != frames)
	case "wr":
		p := bytesOfTok(t[1])
		obs := runWr(p, t[2])
		tag := "wr"
		if len(p) > 65535 {
			tag += ",len>65535"
		} else {
			tag += ",len<=65535"
		}
		if t[2] != "-" {
			tag += ",connerr"
		}
		c.Count(tag)
		c.Count("wr:len=" + lenClass(len(p)))
		c.Emit(tag, t, obs, len(p) > 255)
	case "pcr":
		rbuf, blen, bcap := atoi(t[1]), atoi(t[2]), atoi(t[3])
		body, sizes, tail, e := bytesOfTok(t[4]), sizesOfTok(t[5]), bytesOfTok(t[6]), atoi(t[7])
		obs := runPcr(rbuf, blen, bcap, body, sizes, tail, e)
		frames, clean := frameWalk(append(append([]byte(nil), body...), tail...), mtu)
		nchunks := len(chunkCyclic(sizes, body))
		tag := "pcr"
		switch {
		case len(tail) > 0:
			tag += ",data+err"
		case clean:
			tag += ",valid"
		default:
			tag += ",invalid"
		}
		if blen < bcap {
			tag += ",len<cap"
		}
		if blen < mtu {
			tag += ",smallbuf"
		}
		c.Count(tag)
		c.Emit(tag, t, obs, !clean || nchunks != frames)
	case "pcw":
		wbuf := atoi(t[1])
		var ps [][]byte
		for _, x := range t[2:] {
			ps = append(ps, bytesOfTok(x))
		}
		obs := runPcw(wbuf, ps)
		tag := "pcw,unbuf"
		if wbuf > 0 {
			tag = "pcw,buf"
		}
		pt, nt := payloadTags(ps)
		c.Count(tag + pt)
		for _, p := range ps {
			c.Count("pcw:len=" + lenClass(len(p)))
		}
		c.Emit(tag+pt, t, obs, nt || len(ps) > 1)
	case "pipe":
		wbuf, rbuf, bcap, sizes := atoi(t[1]), atoi(t[2]), atoi(t[3]), sizesOfTok(t[4])
		var ps [][]byte
		total := 0
		for _, x := range t[5:] {
			ps = append(ps, bytesOfTok(x))
			total += 2 + len(ps[len(ps)-1])
		}
		obs := runPipe(wbuf, rbuf, bcap, sizes, ps)
		tag := "pipe,unbuf"
		if wbuf > 0 {
			tag = "pipe,buf"
		}
		pt, _ := payloadTags(ps)
		if bcap < mtu {
			tag += ",smallbuf"
		}
		c.Count(tag + pt)
		c.Count(fmt.Sprintf("pipe:packets=%s", bucket(len(ps))))
		c.Emit(tag+pt, t, obs, len(chunkCyclic(sizes, make([]byte, total))) != len(ps))
	case "actr":
		blen, body, sizes := atoi(t[1]), bytesOfTok(t[2]), sizesOfTok(t[3])
		obs := runActr(blen, body, sizes)
		_, clean := frameWalk(body, mtu)
		tag := "actr,valid"
		if !clean {
			tag = "actr,invalid"
		}
		c.Count(tag)
		c.Emit(tag, t, obs, true)
	case "actw":
		var ps [][]byte
		for _, x := range t[1:] {
			ps = append(ps, bytesOfTok(x))
		}
		obs := runActw(ps)
		pt, _ := payloadTags(ps)
		c.Count("actw" + pt)
		c.Emit("actw"+pt, t, obs, true)
	default:
		return fmt.Errorf("framing: unknown case %v", t)
	}
	return nil
}

func bucket(n int) string {
	switch {
	case n == 0:
		return "0"
	case n == 1:
		return "1"
	case n <= 4:
		return "2-4"
	case n <= 16:
		return "5-16"
	default:
		return ">16"
	}
}

func ratio(chunks, frames int) string {
	switch {
	case frames == 0:
		return "noframe"
	case chunks == frames:
		return "=1"
	case chunks < frames:
		return "<1(coalesced)"
	case chunks <= 3*frames:
		return "1-3"
	default:
		return ">3(fragmented)"
	}
}
