package main

import (
	"bufio"
	"bytes"
	"errors"
	"fmt"
	"io"
	"net"
	"net/netip"
	"os"
	"os/exec"
	"sort"
	"strconv"
	"strings"
	"time"

	ice "github.com/pion/ice/v4"
	"github.com/pion/stun/v3"

	. "verif/gotools/hlib"
)

// suite "tcpmux" (C15): whole histories of the real TCPMuxDefault over a harness-owned listener and
// in-memory TCP connections.  One case = one history on one line:
//
//	cfg <ft> <wbuf> <laddrok> <rt> ; op ... ; op ...  =>  obs ; obs ; ...
//
// After every operation the harness waits until every pion/ice goroutine is parked (runtime.Stack),
// so the observation of an operation is taken at quiescence; the operations rmget / hcloseget /
// expireget deliberately do NOT wait between their two halves.
func main() {
	if os.Getenv("TCPMUX_WORKER") == "1" {
		workerMain()
		return
	}
	Main("tcpmux", runTCPMux)
}

type hist struct {
	ft, wbuf, laddrOK bool
	stalled           []chan struct{} // writers parked in a stalled connection's Write
	rt                int
	mux               *ice.TCPMuxDefault
	lis               *fakeListener
	conns             map[int]*fconn
	ffDone            map[int]bool
	handles           map[int]net.PacketConn
	keys              map[string][3]string // every (ufrag,is6,ip) seen, for the final cleanup
	afterID           map[int]bool
	closeCh           chan struct{}
	closeCalled       bool
	claimed           map[string]bool
	unsettled         bool
	hung              bool
	logger            *parkLogger
	parked            map[int]*parkPoint
}

func atoi(s string) int {
	v, err := strconv.Atoi(s)
	if err != nil {
		panic(fmt.Sprintf("bad int token %q", s))
	}
	return v
}

func splitOps(toks []string) [][]string {
	var out [][]string
	var cur []string
	for _, t := range toks {
		if t == ";" {
			out = append(out, cur)
			cur = nil
		} else {
			cur = append(cur, t)
		}
	}
	out = append(out, cur)
	return out
}

func newHist(cfg []string) *hist {
	if len(cfg) != 7 || cfg[0] != "cfg" {
		panic(fmt.Sprintf("bad cfg segment %v", cfg))
	}
	h := &hist{ft: cfg[1] == "1", wbuf: cfg[2] == "1", laddrOK: cfg[3] == "1", rt: atoi(cfg[4]),
		conns: map[int]*fconn{}, ffDone: map[int]bool{}, handles: map[int]net.PacketConn{}, keys: map[string][3]string{}, claimed: map[string]bool{}, parked: map[int]*parkPoint{}}
	h.afterID = iceGoroutines()
	h.lis = newFakeListener(h.laddrOK)
	h.lis.failClose = h.rt == 3
	h.logger = newParkLogger()
	p := ice.TCPMuxParams{Listener: h.lis, Logger: h.logger, ReadBufferSize: 0,
		FirstStunBindTimeout: time.Hour, AliveDurationForConnFromStun: time.Hour}
	if !h.ft {
		p.FirstStunBindTimeout = -1
	}
	if h.wbuf {
		p.WriteBufferSize = 1 << 20
	}
	switch h.rt {
	case 1: // real, short first-frame timeout
		p.FirstStunBindTimeout = 60 * time.Millisecond
	case 2: // real, short alive duration
		p.AliveDurationForConnFromStun = 150 * time.Millisecond
	}
	h.mux = ice.NewTCPMuxDefault(p)
	return h
}

// guard runs a call into the mux that is supposed to return promptly; a call that does not return
// within the bound is reported (observation HANG) instead of hanging the harness.
func (h *hist) guard(f func()) bool {
	done := make(chan struct{})
	go func() {
		defer close(done)
		f()
	}()
	select {
	case <-done:
		return true
	case <-time.After(15 * time.Second):
		h.hung = true
		return false
	}
}

func (h *hist) wait() census {
	bound := 10 * time.Second
	if h.unsettled || h.hung {
		bound = 50 * time.Millisecond // already known not to quiesce: do not wait again and again
	}
	c, ok := settle(h.afterID, bound)
	if !ok {
		h.unsettled = true
		return c
	}
	// confirmation: a settled census can be observed an instant before a goroutine that was just made runnable
	// shows up as such (seen under heavy load); the observable state must be the same in two settled looks
	prev := h.fingerprint(c)
	for i := 0; i < 40; i++ {
		time.Sleep(100 * time.Microsecond)
		c2, ok2 := settle(h.afterID, bound)
		if !ok2 {
			h.unsettled = true
			return c2
		}
		cur := h.fingerprint(c2)
		c = c2
		if cur == prev {
			break
		}
		prev = cur
	}
	return c
}

// fingerprint: what the operations report about the connections, plus the census.
func (h *hist) fingerprint(c census) string {
	ids := make([]int, 0, len(h.conns))
	for id := range h.conns {
		ids = append(ids, id)
	}
	sort.Ints(ids)
	var b strings.Builder
	fmt.Fprintf(&b, "%d %d %d %d %d %d %d|", c.acc, c.hc, c.w, c.r, c.wp, c.tm, c.other)
	for _, id := range ids {
		fc := h.conns[id]
		fc.mu.Lock()
		fmt.Fprintf(&b, "%d:%v:%v:%d:%d;", id, fc.srvClosed, fc.cliClosed, len(fc.out), len(fc.in))
		fc.mu.Unlock()
	}
	return b.String()
}

func (h *hist) view(cid int) string {
	c, ok := h.conns[cid]
	if !ok {
		return "skip"
	}
	if c.serverClosed() {
		return "closed"
	}
	return "open"
}

func frame(n int, payload []byte) []byte {
	b := make([]byte, 2+len(payload))
	b[0], b[1] = byte(n>>8), byte(n)
	copy(b[2:], payload)
	return b
}

func (h *hist) noteKey(u string, is6 bool, ip string) {
	h.keys[u+"|"+B(is6)+"|"+ip] = [3]string{u, B(is6), ip}
}

func (h *hist) get(hid int, u string, is6 bool, ip string) string {
	h.noteKey(u, is6, ip)
	h.claimed[u+"|"+B(is6)+"|"+ip] = true
	pc, err := h.mux.GetConnByUfrag(u, is6, net.ParseIP(ip))
	if err != nil {
		return "err"
	}
	h.handles[hid] = pc
	return "ok"
}

func (h *hist) expire(u string, is6 bool, ip string) string {
	if h.rt == 2 {
		// real alive timer: wait (bounded) until the packet conn registered there is closed
		var ch <-chan struct{}
		if !h.guard(func() { _, ch = ice.VerifTCPMuxExpireProbe(h.mux, u, is6, net.ParseIP(ip)) }) {
			return "HANG"
		}
		if ch == nil {
			return "0"
		}
		bound := 10 * time.Second
		if _, claimed := h.claimed[u+"|"+B(is6)+"|"+ip]; claimed {
			bound = 400 * time.Millisecond // more than the alive duration: nothing may happen
		}
		select {
		case <-ch:
			return "1"
		case <-time.After(bound):
			return "0"
		}
	}
	var armed bool
	var ch <-chan struct{}
	if !h.guard(func() { armed, ch = ice.VerifTCPMuxExpire(h.mux, u, is6, net.ParseIP(ip)) }) {
		return "HANG"
	}
	if !armed {
		return "0"
	}
	select {
	case <-ch:
	case <-time.After(10 * time.Second):
		return "stuck"
	}
	return "1"
}

func errKind(err error) string {
	switch {
	case errors.Is(err, io.EOF):
		return "0"
	case errors.Is(err, io.ErrShortBuffer):
		return "1"
	default:
		return "9"
	}
}

func (h *hist) read(hid int) []string {
	pc, ok := h.handles[hid]
	if !ok {
		return []string{"skip"}
	}
	buf := make([]byte, 9000)
	// at quiescence a reader that has something for recvChan is parked in a select; when no reader
	// of this mux is, nothing can be delivered and a short wait suffices
	cs := h.wait()
	for attempt := 0; ; attempt++ {
		// a parked sender is taken at once; the deadline only matters when nothing is there.  Retries
		// guard against this goroutine being descheduled between arming the deadline and the select.
		d := time.Duration(2<<attempt) * time.Millisecond
		if cs.rsend == 0 {
			// nothing can be delivered: only "closed" or "none" are possible, and "closed" is immediate;
			// still retry, because a select entered after the deadline picks either ready case
			d = time.Duration(500<<attempt) * time.Microsecond
		}
		_ = pc.SetReadDeadline(time.Now().Add(d))
		n, addr, err := pc.ReadFrom(buf)
		switch {
		case err == nil:
			return []string{"pkt", Hex(addr.String()), Hex(string(buf[:n]))}
		case errors.Is(err, os.ErrDeadlineExceeded):
			if attempt < 2 {
				continue
			}
			return []string{"none"}
		case errors.Is(err, io.ErrClosedPipe) && addr == nil:
			return []string{"closed"}
		default:
			a := ""
			if addr != nil {
				a = addr.String()
			}
			return []string{"errfrom", Hex(a), errKind(err)}
		}
	}
}

// closeStatus: has the pending TCPMuxDefault.Close returned?  At quiescence a goroutine that is still
// inside Close is parked in wg.Wait (census class other); if there is none, Close has returned and
// the harness goroutine that called it is about to signal closeCh.
func (h *hist) closeStatus() string {
	cs := h.wait()
	if cs.other == 0 {
		select {
		case <-h.closeCh:
			return "returned"
		case <-time.After(10 * time.Second):
			return "blocked"
		}
	}
	select {
	case <-h.closeCh:
		return "returned"
	default:
		return "blocked"
	}
}

// exec runs one operation on the implementation and returns its observation tokens.
func (h *hist) exec(c *Ctx, t []string) (obs []string) {
	defer func() {
		if r := recover(); r != nil {
			obs = []string{"PANIC", Hex(fmt.Sprint(r))}
		}
	}()
	switch t[0] {
	case "acc": // acc cid xRADDR is6 xLIP aok chunk
		cid := atoi(t[1])
		ap, err := netip.ParseAddrPort(Unhex(t[2]))
		if err != nil {
			panic(err)
		}
		var remote net.Addr = net.TCPAddrFromAddrPort(ap)
		var local net.Addr = &net.TCPAddr{IP: net.ParseIP(Unhex(t[4])), Port: 4443}
		if t[5] != "1" {
			local = strAddr(Unhex(t[4]) + ":4443")
		}
		fc := newFconn(local, remote, atoi(t[6]), h.rt == 1)
		if _, dup := h.conns[cid]; dup {
			return []string{"refused"}
		}
		if !h.lis.push(fc) {
			return []string{"refused"}
		}
		h.conns[cid] = fc
		h.wait()
		return []string{"ok"}
	case "ff": // ff cid len binding hasuser xUSER xBYTES
		cid := atoi(t[1])
		fc, ok := h.conns[cid]
		if !ok || h.ffDone[cid] {
			return []string{"skip"}
		}
		h.ffDone[cid] = true
		fc.cliWrite(frame(atoi(t[2]), []byte(Unhex(t[6]))))
		h.wait()
		return []string{h.view(cid)}
	case "ffpark": // ffpark cid len binding hasuser xUSER xBYTES : as ff, but handleConn is parked at AddConn's
		// first log line (before t.mu.Lock) until "release cid"
		cid := atoi(t[1])
		fc, ok := h.conns[cid]
		if !ok || h.ffDone[cid] {
			return []string{"skip"}
		}
		h.ffDone[cid] = true
		pp := h.logger.arm(fc.remote.String())
		fc.cliWrite(frame(atoi(t[2]), []byte(Unhex(t[6]))))
		deadline := time.Now().Add(10 * time.Second)
		for {
			select {
			case <-pp.entered:
				h.parked[cid] = pp
				h.wait()
				return []string{"parked", h.view(cid)}
			case <-time.After(200 * time.Microsecond):
			}
			if cs := takeCensus(h.afterID); (cs.busy == 0 && cs.tm == 0) || time.Now().After(deadline) {
				select {
				case <-pp.entered:
					continue
				default:
				}
				// handleConn finished without reaching AddConn (or AddConn no longer logs that line)
				h.logger.disarm(fc.remote.String())
				h.wait()
				return []string{"nopark", h.view(cid)}
			}
		}
	case "release": // release cid
		cid := atoi(t[1])
		pp, ok := h.parked[cid]
		if !ok {
			return []string{"skip"}
		}
		delete(h.parked, cid)
		close(pp.release)
		h.wait()
		return []string{h.view(cid)}
	case "dl": // dl cid nbytes : an incomplete frame, then the read deadline (if armed) passes
		cid := atoi(t[1])
		fc, ok := h.conns[cid]
		if !ok || h.parked[cid] != nil {
			return []string{"skip"}
		}
		if !h.ft {
			// no read deadline is configured (negative FirstStunBindTimeout): nothing can pass
			h.wait()
			return []string{h.view(cid)}
		}
		if n := atoi(t[2]); n > 0 && !h.ffDone[cid] {
			// n bytes of a frame announcing 100 bytes: never complete (n <= 50)
			fc.cliWrite(frame(100, make([]byte, n))[:n])
		}
		if h.rt == 1 {
			dl := time.Now().Add(10 * time.Second)
			for !fc.serverClosed() && time.Now().Before(dl) {
				time.Sleep(2 * time.Millisecond)
			}
		} else {
			fc.fireDeadline()
		}
		h.ffDone[cid] = true
		h.wait()
		return []string{h.view(cid)}
	case "send", "sendbig": // send cid xB | sendbig cid n
		cid := atoi(t[1])
		fc, ok := h.conns[cid]
		if !ok || !h.ffDone[cid] || fc.clientClosed() || h.parked[cid] != nil {
			return []string{"skip"}
		}
		var payload []byte
		if t[0] == "send" {
			payload = []byte(Unhex(t[2]))
		} else {
			payload = []byte(strings.Repeat("a", atoi(t[2])))
		}
		res := "ok"
		if !fc.cliWrite(frame(len(payload), payload)) {
			res = "closed"
		}
		h.wait()
		return []string{res, h.view(cid)}
	case "cclose":
		cid := atoi(t[1])
		fc, ok := h.conns[cid]
		if !ok || fc.clientClosed() || h.parked[cid] != nil {
			return []string{"skip"}
		}
		already := fc.serverClosed()
		fc.cliClose()
		h.ffDone[cid] = true
		h.wait()
		if already {
			return []string{"ok", h.view(cid)}
		}
		return []string{"ok", h.view(cid)}
	case "crecv":
		cid := atoi(t[1])
		fc, ok := h.conns[cid]
		if !ok || fc.clientClosed() || h.parked[cid] != nil {
			return []string{"skip"}
		}
		f, st := fc.cliReadFrame()
		switch st {
		case 0:
			return []string{"pkt", Hex(string(f))}
		case 1:
			return []string{"none"}
		default:
			return []string{"closed"}
		}
	case "stat":
		return []string{h.view(atoi(t[1]))}
	case "get": // get h xU is6 xIP
		var r string
		if !h.guard(func() { r = h.get(atoi(t[1]), Unhex(t[2]), t[3] == "1", Unhex(t[4])) }) {
			return []string{"HANG"}
		}
		h.wait()
		return []string{r}
	case "rm":
		if !h.guard(func() { h.mux.RemoveConnByUfrag(Unhex(t[1])) }) {
			return []string{"HANG"}
		}
		h.wait()
		return []string{"ok"}
	case "rmget": // rmget xU h is6 xIP : RemoveConnByUfrag immediately followed by GetConnByUfrag
		var r string
		if !h.guard(func() {
			h.mux.RemoveConnByUfrag(Unhex(t[1]))
			r = h.get(atoi(t[2]), Unhex(t[1]), t[3] == "1", Unhex(t[4]))
		}) {
			return []string{"HANG"}
		}
		h.wait()
		return []string{"ok", r}
	case "wr": // wr h xRADDR xB
		pc, ok := h.handles[atoi(t[1])]
		if !ok {
			return []string{"err"}
		}
		ap, err := netip.ParseAddrPort(Unhex(t[2]))
		if err != nil {
			panic(err)
		}
		var n int
		if !h.guard(func() { n, err = pc.WriteTo([]byte(Unhex(t[3])), net.TCPAddrFromAddrPort(ap)) }) {
			return []string{"HANG"}
		}
		h.wait()
		if err != nil {
			return []string{"err"}
		}
		return []string{"n", strconv.Itoa(n)}
	case "wrstall": // wrstall h cid xRADDR : the client of cid stops reading; a WriteTo towards it parks in the socket write
		pc, ok := h.handles[atoi(t[1])]
		fc := h.conns[atoi(t[2])]
		if !ok || fc == nil || h.wbuf {
			return []string{"skip"}
		}
		ap, err := netip.ParseAddrPort(Unhex(t[3]))
		if err != nil {
			panic(err)
		}
		fc.mu.Lock()
		fc.stall = true
		fc.mu.Unlock()
		done := make(chan struct{})
		h.stalled = append(h.stalled, done)
		go func() {
			defer close(done)
			defer func() { _ = recover() }()
			_, _ = pc.WriteTo([]byte("stalled"), net.TCPAddrFromAddrPort(ap))
		}()
		for i := 0; i < 4000; i++ {
			fc.mu.Lock()
			parked := fc.parkedW > 0
			fc.mu.Unlock()
			select {
			case <-done:
				parked = true
			default:
			}
			if parked {
				break
			}
			time.Sleep(50 * time.Microsecond)
		}
		return []string{"skip"}
	case "rd":
		r := h.read(atoi(t[1]))
		h.wait()
		return r
	case "hclose":
		pc, ok := h.handles[atoi(t[1])]
		if !ok {
			return []string{"skip"}
		}
		if !h.guard(func() { _ = pc.Close() }) {
			return []string{"HANG"}
		}
		h.wait()
		return []string{"ok"}
	case "hcloseget": // hcloseget h h2 xU is6 xIP : wrapper Close immediately followed by GetConnByUfrag
		pc, ok := h.handles[atoi(t[1])]
		if !ok {
			return []string{"skip"}
		}
		var r string
		if !h.guard(func() {
			_ = pc.Close()
			r = h.get(atoi(t[2]), Unhex(t[3]), t[4] == "1", Unhex(t[5]))
		}) {
			return []string{"HANG"}
		}
		h.wait()
		return []string{"ok", r}
	case "hcloseff": // hcloseff h cid len binding hasuser xUSER xBYTES : the client's first frame is dispatched after
		// the last handle of its ufrag's packet conn was closed and BEFORE that conn's cleanup goroutine has run
		// (both queue on the mux lock, handleConn first)
		pc, ok := h.handles[atoi(t[1])]
		cid := atoi(t[2])
		fc, ok2 := h.conns[cid]
		if !ok || !ok2 || h.ffDone[cid] {
			return []string{"skip"}
		}
		h.ffDone[cid] = true
		release := ice.VerifTCPMuxHold(h.mux)
		fc.cliWrite(frame(atoi(t[3]), []byte(Unhex(t[7]))))
		time.Sleep(3 * time.Millisecond) // handleConn has read the frame and waits for the lock
		done := make(chan struct{})
		go func() { defer close(done); _ = pc.Close() }()
		time.Sleep(3 * time.Millisecond) // the closed conn's watcher waits for the lock behind it
		release()
		select {
		case <-done:
		case <-time.After(10 * time.Second):
			return []string{"HANG"}
		}
		h.wait()
		return []string{"ok", h.view(cid)}
	case "expire": // expire xU is6 xIP
		h.noteKey(Unhex(t[1]), t[2] == "1", Unhex(t[3]))
		r := h.expire(Unhex(t[1]), t[2] == "1", Unhex(t[3]))
		h.wait()
		return []string{r}
	case "expireget": // expireget xU is6 xIP h : the timer fires, GetConnByUfrag right after the conn closed
		r := h.expire(Unhex(t[1]), t[2] == "1", Unhex(t[3]))
		g := h.get(atoi(t[4]), Unhex(t[1]), t[2] == "1", Unhex(t[3]))
		h.wait()
		return []string{r, g}
	case "muxclose":
		if h.closeCalled {
			return []string{"skip"}
		}
		h.closeCalled = true
		h.closeCh = make(chan struct{})
		go func() {
			defer close(h.closeCh)
			defer func() { _ = recover() }()
			_ = h.mux.Close()
		}()
		// the atomic part of Close is over once the listener is closed
		dl := time.Now().Add(10 * time.Second)
		for !h.lis.isClosed() && time.Now().Before(dl) {
			time.Sleep(50 * time.Microsecond)
		}
		return []string{"ok", h.closeStatus()}
	case "closewait":
		if !h.closeCalled {
			return []string{"skip"}
		}
		return []string{h.closeStatus()}
	case "census":
		cs := h.wait()
		// goroutines calling into the mux on behalf of the harness (Close) are not the mux's own
		return []string{strconv.Itoa(cs.acc), strconv.Itoa(cs.hc), strconv.Itoa(cs.w), strconv.Itoa(cs.r), strconv.Itoa(cs.wp)}
	}
	panic(fmt.Sprintf("tcpmux: unknown op %v", t))
}

// cleanup tears the history's mux down whatever state the operations left it in.
func (h *hist) cleanup() string {
	for cid, pp := range h.parked {
		close(pp.release)
		delete(h.parked, cid)
	}
	for _, fc := range h.conns {
		fc.cliClose()
		fc.fireDeadline()
	}
	if !h.closeCalled {
		h.closeCalled = true
		h.closeCh = make(chan struct{})
		go func() {
			defer close(h.closeCh)
			defer func() { _ = recover() }()
			_ = h.mux.Close()
		}()
	}
	deadline := time.Now().Add(10 * time.Second)
	if h.unsettled || h.hung {
		deadline = time.Now().Add(2 * time.Second)
	}
	for {
		for _, k := range h.keys {
			k := k
			go func() { ice.VerifTCPMuxExpire(h.mux, k[0], k[1] == "1", net.ParseIP(k[2])) }()
		}
		for _, pc := range h.handles {
			pc := pc
			go func() { _ = pc.Close() }()
		}
		cs := takeCensus(h.afterID)
		stuck := 0
		for _, d := range h.stalled {
			select {
			case <-d:
			default:
				stuck++
			}
		}
		if cs.acc+cs.hc+cs.w+cs.r+cs.wp+cs.tm+cs.other == 0 && stuck == 0 {
			return "clean"
		}
		if time.Now().After(deadline) {
			return "leak"
		}
		time.Sleep(2 * time.Millisecond)
	}
}

// probeWdrop finds out, on the implementation, whether a buffered write whose frame (payload + 2-byte
// header) exceeds receiveMTU is dropped by bufferedConn.writeProcess (true for the pinned code).
// It is a fact about the implementation, handed to the model with every case (cfg token 5).
func probeWdrop() string {
	h := newHist([]string{"cfg", "1", "1", "1", "0", "1", "0"})
	defer h.cleanup()
	h.wait()
	raddr := "192.0.2.77:7000"
	ap, _ := netip.ParseAddrPort(raddr)
	fc := newFconn(&net.TCPAddr{IP: net.ParseIP("10.0.0.1"), Port: 4443}, net.TCPAddrFromAddrPort(ap), 1<<20, false)
	pc, err := h.mux.GetConnByUfrag("probe", false, net.ParseIP("10.0.0.1"))
	if err != nil || !h.lis.push(fc) {
		return "1"
	}
	h.handles[0] = pc
	h.conns[0] = fc
	m, err := stun.Build(stun.BindingRequest, stun.NewTransactionIDSetter([stun.TransactionIDSize]byte{1}), stun.NewUsername("probe:x"))
	if err != nil {
		return "1"
	}
	fc.cliWrite(frame(len(m.Raw), m.Raw))
	h.wait()
	if _, err := pc.WriteTo(make([]byte, 8192), net.TCPAddrFromAddrPort(ap)); err != nil {
		return "1"
	}
	h.wait()
	// the writer goroutine may not have run yet on a loaded machine: give a frame that is not dropped time to arrive
	// (a wrong answer here would make the model predict drops for the whole process)
	deadline := time.Now().Add(5 * time.Second)
	for time.Now().Before(deadline) {
		if f, st := fc.cliReadFrame(); st == 0 {
			if len(f) == 8192 {
				return "0"
			}
			return "1"
		}
		time.Sleep(time.Millisecond)
	}
	return "1"
}

// probeByID finds out whether the implementation still removes packet conns by key (pinned code: a
// GetConnByUfrag right after RemoveConnByUfrag / after the last handle's Close ends up with a closed
// conn) or by identity with getConn ignoring closed conns (the repair).  "0" = pinned, "1" = repaired.
func probeByID() string {
	for i := 0; i < 6; i++ {
		h := newHist([]string{"cfg", "1", "0", "1", "0", "1", "0"})
		h.wait()
		ip := net.ParseIP("10.0.0.1")
		p1, err := h.mux.GetConnByUfrag("probe", false, ip)
		if err != nil {
			h.cleanup()
			return "0"
		}
		h.handles[0] = p1
		if i%2 == 0 {
			h.mux.RemoveConnByUfrag("probe")
		} else {
			_ = p1.Close()
		}
		p2, err := h.mux.GetConnByUfrag("probe", false, ip)
		if err != nil {
			h.cleanup()
			return "0"
		}
		h.handles[1] = p2
		h.wait()
		_ = p2.SetReadDeadline(time.Now().Add(2 * time.Millisecond))
		_, _, err = p2.ReadFrom(make([]byte, 16))
		closed := errors.Is(err, io.ErrClosedPipe)
		h.cleanup()
		if closed {
			return "0"
		}
	}
	return "1"
}

var wdrop, byid string

// probes are facts about the implementation, found out once per process
func probes() (string, string) {
	if wdrop == "" {
		wdrop = probeWdrop()
	}
	if byid == "" {
		byid = probeByID()
	}
	return wdrop, byid
}

func withProbes(toks []string, wd, bi string) []string {
	if len(toks) >= 6 && toks[0] == "cfg" {
		// the two probe tokens are facts about the implementation, not inputs: (re)write them, also
		// in cases recorded before they existed
		end := 5
		for end < len(toks) && toks[end] != ";" {
			end++
		}
		toks = append(toks[:5:5], append([]string{wd, bi}, toks[end:]...)...)
	}
	return toks
}

// runHistory executes one case line on the implementation (in the worker process).
func runHistory(toks []string) ([]string, []string) {
	wd, bi := probes()
	toks = withProbes(toks, wd, bi)
	segs := splitOps(toks)
	h := newHist(segs[0])
	h.wait()
	var obs []string
	for i, op := range segs[1:] {
		if i > 0 {
			obs = append(obs, ";")
		}
		if len(op) == 0 {
			obs = append(obs, "skip")
			continue
		}
		// a first frame with a ufrag registers a key that the cleanup must expire
		if (op[0] == "ff" || op[0] == "ffpark") && len(op) >= 6 {
			u := Unhex(op[5])
			if j := strings.IndexByte(u, ':'); j >= 0 {
				u = u[:j]
			}
			if fc, ok := h.conns[atoi(op[1])]; ok {
				if la, ok2 := fc.local.(*net.TCPAddr); ok2 {
					if ra, ok3 := fc.remote.(*net.TCPAddr); ok3 {
						h.noteKey(u, ra.IP.To4() == nil, la.IP.String())
					}
				}
			}
		}
		t0 := time.Now()
		obs = append(obs, h.exec(nil, op)...)
		if os.Getenv("TCPMUX_PROF") != "" {
			prof[op[0]] += time.Since(t0)
			profN[op[0]]++
		}
	}
	res := h.cleanup()
	if h.unsettled {
		res += ",unsettled"
	}
	if h.hung {
		res += ",hung"
	}
	obs = append(obs, ";", res)
	return toks, obs
}

// ---------------------------------------------------------------------------------------------

func buildStun(c *Ctx, method stun.Method, class stun.MessageClass, user string, hasUser bool, pad int) []byte {
	var id [stun.TransactionIDSize]byte
	for i := range id {
		id[i] = byte(c.Rng.Intn(256))
	}
	setters := []stun.Setter{stun.NewType(method, class), stun.NewTransactionIDSetter(id)}
	if hasUser {
		setters = append(setters, stun.NewUsername(user))
	}
	if pad > 0 {
		setters = append(setters, stun.NewSoftware(strings.Repeat("s", pad)))
	}
	m, err := stun.Build(setters...)
	if err != nil {
		panic(err)
	}
	return append([]byte(nil), m.Raw...)
}

// describe computes the deframed first-message record of raw bytes with pion/stun, independently
// of the mux: (Decode ok && Method == Binding, has USERNAME, USERNAME).
func describe(raw []byte) (bool, bool, string) {
	m := &stun.Message{Raw: append([]byte(nil), raw...)}
	if err := m.Decode(); err != nil {
		return false, false, ""
	}
	if m.Type.Method != stun.MethodBinding {
		return false, false, ""
	}
	u, err := m.Get(stun.AttrUsername)
	if err != nil {
		return true, false, ""
	}
	return true, true, string(u)
}

var prof = map[string]time.Duration{}
var profN = map[string]int{}

// ---------------------------------------------------------------------------------------------
// The histories run in a WORKER process (this binary with TCPMUX_WORKER=1): a panic inside one of
// the mux's own goroutines cannot be recovered in-process and would take the harness down; the
// supervisor turns the death of the worker into the observation PANIC of the history it was running
// and starts a fresh worker for the next one.

func workerMain() {
	in := bufio.NewReaderSize(os.Stdin, 1<<20)
	out := bufio.NewWriterSize(os.Stdout, 1<<20)
	wd, bi := probes()
	fmt.Fprintf(out, "PROBE %s %s\n", wd, bi)
	out.Flush()
	for {
		line, err := in.ReadString('\n')
		if line = strings.TrimSpace(line); line != "" {
			toks, obs := runHistory(strings.Fields(line))
			fmt.Fprintf(out, "%s => %s\n", strings.Join(toks, " "), strings.Join(obs, " "))
			out.Flush()
		}
		if err != nil {
			return
		}
	}
}

type worker struct {
	cmd    *exec.Cmd
	stdin  io.WriteCloser
	stdout *bufio.Reader
	stderr *bytes.Buffer
	wd, bi string
}

func startWorker() (*worker, error) {
	exe, err := os.Executable()
	if err != nil {
		return nil, err
	}
	w := &worker{cmd: exec.Command(exe), stderr: &bytes.Buffer{}}
	w.cmd.Env = append(os.Environ(), "TCPMUX_WORKER=1")
	w.cmd.Stderr = w.stderr
	if w.stdin, err = w.cmd.StdinPipe(); err != nil {
		return nil, err
	}
	so, err := w.cmd.StdoutPipe()
	if err != nil {
		return nil, err
	}
	w.stdout = bufio.NewReaderSize(so, 1<<20)
	if err = w.cmd.Start(); err != nil {
		return nil, err
	}
	line, err := w.readLine(120 * time.Second)
	f := strings.Fields(line)
	if err != nil || len(f) != 3 || f[0] != "PROBE" {
		w.kill()
		return nil, fmt.Errorf("worker did not start: %v %q %s", err, line, w.stderr.String())
	}
	w.wd, w.bi = f[1], f[2]
	return w, nil
}

func (w *worker) readLine(bound time.Duration) (string, error) {
	type res struct {
		s   string
		err error
	}
	ch := make(chan res, 1)
	go func() {
		s, err := w.stdout.ReadString('\n')
		ch <- res{s, err}
	}()
	select {
	case r := <-ch:
		return strings.TrimSpace(r.s), r.err
	case <-time.After(bound):
		return "", fmt.Errorf("timeout")
	}
}

func (w *worker) kill() {
	_ = w.stdin.Close()
	_ = w.cmd.Process.Kill()
	_ = w.cmd.Wait()
}

// crashLine is the first line of what a dying worker wrote to stderr (panic: ... / fatal error: ...).
func (w *worker) crashLine() string {
	for _, l := range strings.Split(w.stderr.String(), "\n") {
		if strings.HasPrefix(l, "panic:") || strings.HasPrefix(l, "fatal error:") {
			return l
		}
	}
	if l := strings.SplitN(w.stderr.String(), "\n", 2)[0]; l != "" {
		return l
	}
	return "worker died"
}

type supervisor struct {
	c      *Ctx
	w      *worker
	wd, bi string
	stuck  int
}

// run executes one history in the worker and emits its observation.
func (sv *supervisor) run(tag string, toks []string, nontrivial bool) error {
	if sv.w == nil {
		w, err := startWorker()
		if err != nil {
			return err
		}
		sv.w = w
		if sv.wd == "" {
			sv.wd, sv.bi = w.wd, w.bi
			sv.c.Count("impl:buffered-write-drops-frames-over-receiveMTU=" + sv.wd)
			sv.c.Count("impl:packet-conn-removal-by-identity=" + sv.bi)
		}
	}
	toks = withProbes(toks, sv.wd, sv.bi)
	_, err := fmt.Fprintln(sv.w.stdin, strings.Join(toks, " "))
	var line string
	if err == nil {
		line, err = sv.w.readLine(600 * time.Second)
	}
	if err != nil {
		// the implementation brought the worker down (or hung it beyond every watchdog)
		kind := "PANIC"
		if err.Error() == "timeout" {
			kind = "HANG"
		}
		sv.w.kill()
		msg := sv.w.crashLine()
		sv.w = nil
		sv.stuck++
		sv.c.Count("worker-lost:" + kind)
		sv.c.Emit(tag, toks, []string{kind, Hex(msg)}, nontrivial)
		return nil
	}
	i := strings.Index(line, " => ")
	if i < 0 {
		return fmt.Errorf("worker answered %q", line)
	}
	obs := strings.Fields(line[i+4:])
	if len(obs) == 0 || obs[len(obs)-1] != "clean" {
		sv.stuck++
	}
	sv.c.Emit(tag, strings.Fields(line[:i]), obs, nontrivial)
	return nil
}

func runTCPMux(c *Ctx) error {
	c.Rule = "one case = one history (8-45 operations) on a fresh TCPMuxDefault over a fake listener (in a quarter of the histories without real timers the listener reports an error from Close); non-trivial = the history attached at least one connection by ufrag AND contains at least one of: a rejected first frame, a removal/expiry/handle close, or MuxClose with a connection still open. Distinct = distinct case lines."
	sv := &supervisor{c: c}
	defer func() {
		if sv.w != nil {
			sv.w.kill()
		}
	}()
	if c.Replay != "" {
		for _, t := range c.ReplayLines() {
			if err := sv.run(replayTag(t), t, true); err != nil {
				return err
			}
		}
		return nil
	}
	n := 500
	if c.Tier != "quick" {
		n = 9000
	}
	for i := 0; i < n; i++ {
		g := newGen(c)
		toks, tag, nt := g.history(i)
		if err := sv.run(tag, toks, nt); err != nil {
			return err
		}
		// histories whose mux could not be torn down, that hung or crashed: stop after a few of them
		// (each costs tens of seconds, and the verdict is already decided)
		if sv.stuck >= 6 {
			c.Count("run-cut-short-after-stuck-histories")
			break
		}
	}
	return nil
}
