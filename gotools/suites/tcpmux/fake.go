package main

import (
	"bytes"
	"errors"
	"io"
	"net"
	"os"
	"runtime"
	"strings"
	"sync"
	"time"
)

// ---------------------------------------------------------------------------------------------
// harness-owned listener and TCP connections (in memory; partial reads and deadlines controlled
// by the harness, never by the wall clock unless realtime is set)
// ---------------------------------------------------------------------------------------------

type strAddr string

func (a strAddr) Network() string { return "fake" }
func (a strAddr) String() string  { return string(a) }

type fakeListener struct {
	ch     chan net.Conn
	closed chan struct{}
	once   sync.Once
	addr   net.Addr
	// Close closes and then reports an error (fault injection)
	failClose bool
}

func newFakeListener(addrOK bool) *fakeListener {
	l := &fakeListener{ch: make(chan net.Conn), closed: make(chan struct{})}
	if addrOK {
		l.addr = &net.TCPAddr{IP: net.IPv4(10, 9, 9, 9), Port: 4443}
	} else {
		l.addr = strAddr("not-a-tcp-addr")
	}
	return l
}

func (l *fakeListener) Accept() (net.Conn, error) {
	select {
	case <-l.closed:
		return nil, net.ErrClosed
	default:
	}
	select {
	case c := <-l.ch:
		return c, nil
	case <-l.closed:
		return nil, net.ErrClosed
	}
}

func (l *fakeListener) Close() error {
	l.once.Do(func() { close(l.closed) })
	if l.failClose {
		return errors.New("fake listener: close failed")
	}
	return nil
}

func (l *fakeListener) Addr() net.Addr { return l.addr }

func (l *fakeListener) isClosed() bool {
	select {
	case <-l.closed:
		return true
	default:
		return false
	}
}

// push hands a connection to the accept loop; false when the listener is closed (connection refused).
func (l *fakeListener) push(c net.Conn) bool {
	select {
	case <-l.closed:
		return false
	default:
	}
	select {
	case l.ch <- c:
		return true
	case <-l.closed:
		return false
	case <-time.After(10 * time.Second):
		return false
	}
}

// fconn is the server end of an in-memory TCP connection; the client side is driven through cli* methods.
type fconn struct {
	mu   sync.Mutex
	cond *sync.Cond

	local, remote net.Addr

	in        []byte // client -> server bytes not yet read
	out       []byte // server -> client bytes not yet consumed by the client
	srvClosed bool
	cliClosed bool

	dlArmed  bool // SetReadDeadline with a non-zero time is in force
	dlFired  bool
	chunk    int // a Read returns at most chunk bytes (>= 1)
	realtime bool
	dlTimer  *time.Timer
	dlSets   int

	// the client has stopped reading and the kernel buffers are full: a Write parks until the connection is closed
	stall   bool
	parkedW int
}

func newFconn(local, remote net.Addr, chunk int, realtime bool) *fconn {
	c := &fconn{local: local, remote: remote, chunk: chunk, realtime: realtime}
	if c.chunk < 1 {
		c.chunk = 1
	}
	c.cond = sync.NewCond(&c.mu)
	return c
}

func (c *fconn) Read(b []byte) (int, error) {
	c.mu.Lock()
	defer c.mu.Unlock()
	for {
		if c.srvClosed {
			return 0, net.ErrClosed
		}
		if c.dlArmed && c.dlFired {
			return 0, os.ErrDeadlineExceeded
		}
		if len(c.in) > 0 {
			n := len(b)
			if n > c.chunk {
				n = c.chunk
			}
			if n > len(c.in) {
				n = len(c.in)
			}
			copy(b, c.in[:n])
			c.in = c.in[n:]
			return n, nil
		}
		if c.cliClosed {
			return 0, io.EOF
		}
		c.cond.Wait()
	}
}

func (c *fconn) Write(b []byte) (int, error) {
	c.mu.Lock()
	defer c.mu.Unlock()
	if c.srvClosed {
		return 0, net.ErrClosed
	}
	if c.cliClosed {
		return 0, io.ErrClosedPipe
	}
	if c.stall {
		c.parkedW++
		for !c.srvClosed && !c.cliClosed {
			c.cond.Wait()
		}
		c.parkedW--
		return 0, net.ErrClosed
	}
	c.out = append(c.out, b...)
	return len(b), nil
}

func (c *fconn) Close() error {
	c.mu.Lock()
	defer c.mu.Unlock()
	if c.srvClosed {
		return net.ErrClosed
	}
	c.srvClosed = true
	if c.dlTimer != nil {
		c.dlTimer.Stop()
	}
	c.cond.Broadcast()
	return nil
}

func (c *fconn) LocalAddr() net.Addr  { return c.local }
func (c *fconn) RemoteAddr() net.Addr { return c.remote }

func (c *fconn) SetDeadline(t time.Time) error { return c.SetReadDeadline(t) }

func (c *fconn) SetReadDeadline(t time.Time) error {
	c.mu.Lock()
	defer c.mu.Unlock()
	if c.srvClosed {
		return net.ErrClosed
	}
	c.dlSets++
	if c.dlTimer != nil {
		c.dlTimer.Stop()
		c.dlTimer = nil
	}
	c.dlFired = false
	c.dlArmed = !t.IsZero()
	if c.dlArmed && c.realtime {
		c.dlTimer = time.AfterFunc(time.Until(t), func() {
			c.mu.Lock()
			if c.dlArmed {
				c.dlFired = true
				c.cond.Broadcast()
			}
			c.mu.Unlock()
		})
	}
	return nil
}

func (c *fconn) SetWriteDeadline(time.Time) error {
	c.mu.Lock()
	defer c.mu.Unlock()
	if c.srvClosed {
		return net.ErrClosed
	}
	return nil
}

// --- client side / harness side ---

func (c *fconn) cliWrite(b []byte) bool {
	c.mu.Lock()
	defer c.mu.Unlock()
	if c.srvClosed || c.cliClosed {
		return false
	}
	c.in = append(c.in, b...)
	c.cond.Broadcast()
	return true
}

func (c *fconn) cliClose() {
	c.mu.Lock()
	c.cliClosed = true
	c.cond.Broadcast()
	c.mu.Unlock()
}

// fireDeadline lets the armed read deadline (if any) pass.
func (c *fconn) fireDeadline() {
	c.mu.Lock()
	if c.dlArmed {
		c.dlFired = true
		c.cond.Broadcast()
	}
	c.mu.Unlock()
}

func (c *fconn) serverClosed() bool {
	c.mu.Lock()
	defer c.mu.Unlock()
	return c.srvClosed
}

func (c *fconn) clientClosed() bool {
	c.mu.Lock()
	defer c.mu.Unlock()
	return c.cliClosed
}

// cliReadFrame takes one complete RFC 4571 frame the server wrote, if there is one.
// state: 0 = a frame, 1 = nothing (yet), 2 = the server closed and nothing is left.
func (c *fconn) cliReadFrame() ([]byte, int) {
	c.mu.Lock()
	defer c.mu.Unlock()
	if len(c.out) >= 2 {
		n := int(c.out[0])<<8 | int(c.out[1])
		if len(c.out) >= 2+n {
			f := append([]byte(nil), c.out[2:2+n]...)
			c.out = c.out[2+n:]
			return f, 0
		}
	}
	if c.srvClosed {
		return nil, 2
	}
	return nil, 1
}

// ---------------------------------------------------------------------------------------------
// goroutine census (runtime.Stack), restricted to goroutines with pion/ice frames not alive
// before the history started
// ---------------------------------------------------------------------------------------------

type census struct {
	acc, hc, w, r, wp, tm, other int
	busy                         int // ice goroutines that are not parked
	rsend                        int // reader goroutines parked in a select (blocked handing a packet to recvChan)
}

const icePkg = "github.com/pion/ice/v4."

var stackBuf = make([]byte, 1<<20)

// iceGoroutines returns the ids of the goroutines that currently have pion/ice frames (left over
// from an earlier history whose teardown failed); a history's census ignores exactly those.
// (Goroutine ids are handed out from per-P caches, so "created later" cannot be told from the id.)
func iceGoroutines() map[int]bool {
	out := map[int]bool{}
	for {
		n := runtime.Stack(stackBuf, true)
		if n < len(stackBuf) {
			for _, blk := range bytes.Split(stackBuf[:n], []byte("\n\n")) {
				if strings.Contains(string(blk), icePkg) {
					id, _ := parseHeader(string(firstLine(blk)))
					out[id] = true
				}
			}
			return out
		}
		stackBuf = make([]byte, 2*len(stackBuf))
	}
}

func firstLine(b []byte) []byte {
	if i := bytes.IndexByte(b, '\n'); i >= 0 {
		return b[:i]
	}
	return b
}

func parseHeader(h string) (int, string) {
	// goroutine 12 [chan receive, 2 minutes]:
	if !strings.HasPrefix(h, "goroutine ") {
		return 0, ""
	}
	rest := h[len("goroutine "):]
	id := 0
	i := 0
	for i < len(rest) && rest[i] >= '0' && rest[i] <= '9' {
		id = id*10 + int(rest[i]-'0')
		i++
	}
	st := ""
	if a := strings.IndexByte(rest, '['); a >= 0 {
		if b := strings.IndexByte(rest[a:], ']'); b >= 0 {
			st = rest[a+1 : a+b]
		}
	}
	if k := strings.IndexByte(st, ','); k >= 0 {
		st = st[:k]
	}
	return id, st
}

func parked(state string) bool {
	switch state {
	case "chan receive", "chan send", "select", "sync.Cond.Wait", "sync.WaitGroup.Wait", "semacquire",
		"chan receive (nil chan)", "chan send (nil chan)", "select (no cases)", "IO wait":
		return true
	}
	return false
}

func takeCensus(skip map[int]bool) census {
	for {
		n := runtime.Stack(stackBuf, true)
		if n < len(stackBuf) {
			return parseCensus(stackBuf[:n], skip)
		}
		stackBuf = make([]byte, 2*len(stackBuf))
	}
}

func parseCensus(dump []byte, skip map[int]bool) census {
	var c census
	for _, blk := range bytes.Split(dump, []byte("\n\n")) {
		s := string(blk)
		if k := strings.Index(s, "created by "); k >= 0 {
			s = s[:k]
		}
		id, st := parseHeader(string(firstLine(blk)))
		if skip[id] || !strings.Contains(s, icePkg) {
			continue
		}
		switch {
		case strings.Contains(s, "(*TCPMuxDefault).handleConn"), strings.Contains(s, "(*TCPMuxDefault).start.func1"):
			c.hc++
		case strings.Contains(s, "(*TCPMuxDefault).start"):
			c.acc++
		case strings.Contains(s, "(*TCPMuxDefault).createConn.func1"):
			c.w++
		case strings.Contains(s, "(*tcpPacketConn).AddConn.func1"):
			c.r++
			if st != "sync.Cond.Wait" {
				c.rsend++
			}
		case strings.Contains(s, "(*bufferedConn).writeProcess"):
			c.wp++
		case strings.Contains(s, "newTCPPacketConn.func1"):
			c.tm++
		default:
			c.other++
		}
		if !parked(st) {
			c.busy++
		}
	}
	return c
}

// settle waits until every pion/ice goroutine (created after afterID) is parked. It returns the
// census at that point and false when the bound was hit.
func settle(skip map[int]bool, bound time.Duration) (census, bool) {
	deadline := time.Now().Add(bound)
	sleep := 20 * time.Microsecond
	for {
		runtime.Gosched()
		c := takeCensus(skip)
		if c.busy == 0 && c.tm == 0 {
			return c, true
		}
		if time.Now().After(deadline) {
			return c, false
		}
		time.Sleep(sleep)
		if sleep < 2*time.Millisecond {
			sleep *= 2
		}
	}
}

// ---------------------------------------------------------------------------------------------
// harness-owned logger: silent, except that it can PARK the goroutine that logs AddConn's first
// line ("Added connection: ... remote <addr> ..."), which tcpPacketConn.AddConn emits before it
// takes t.mu.  This holds handleConn between its lookup and AddConn without touching the code.
// ---------------------------------------------------------------------------------------------

type parkPoint struct {
	entered chan struct{}
	release chan struct{}
}

type parkLogger struct {
	mu    sync.Mutex
	armed map[string]*parkPoint // remote address -> park point (one shot)
}

func newParkLogger() *parkLogger { return &parkLogger{armed: map[string]*parkPoint{}} }

func (l *parkLogger) arm(raddr string) *parkPoint {
	pp := &parkPoint{entered: make(chan struct{}), release: make(chan struct{})}
	l.mu.Lock()
	l.armed[raddr] = pp
	l.mu.Unlock()
	return pp
}

func (l *parkLogger) disarm(raddr string) {
	l.mu.Lock()
	delete(l.armed, raddr)
	l.mu.Unlock()
}

func (l *parkLogger) Trace(string)          {}
func (l *parkLogger) Tracef(string, ...any) {}
func (l *parkLogger) Debug(string)          {}
func (l *parkLogger) Debugf(string, ...any) {}
func (l *parkLogger) Info(string)           {}
func (l *parkLogger) Warn(string)           {}
func (l *parkLogger) Warnf(string, ...any)  {}
func (l *parkLogger) Error(string)          {}
func (l *parkLogger) Errorf(string, ...any) {}

func (l *parkLogger) Infof(format string, args ...any) {
	if !strings.HasPrefix(format, "Added connection") || len(args) < 2 {
		return
	}
	a, ok := args[1].(net.Addr)
	if !ok {
		return
	}
	l.mu.Lock()
	pp := l.armed[a.String()]
	delete(l.armed, a.String())
	l.mu.Unlock()
	if pp != nil {
		close(pp.entered)
		<-pp.release
	}
}
