package main

import (
	"fmt"
	"strconv"
	"strings"

	"github.com/pion/stun/v3"

	. "verif/gotools/hlib"
)

// history generator: a light ledger of what it created so that most operations are meaningful
// (mostly valid), plus deliberately stray ones.  Every choice comes from ctx.Rng.

type gconn struct {
	id      int
	raddr   string
	is6     bool
	lip     string
	st      int // 0 pending, 1 first frame ok, 2 dead (rejected / closed by client)
	ufrag   string
	cliDone bool
}

type ghandle struct {
	id     int
	u      string
	is6    bool
	ip     string
	closed bool
}

type gen struct {
	c         *Ctx
	ops       [][]string
	conns     []*gconn
	handles   []*ghandle
	nextCid   int
	nextH     int
	port      int
	muxClosed bool
	attached  bool
	rejected  bool
	removal   bool
	closeOpen bool
	ufrags    []string
}

var ufragPool = []string{"u1", "u2", "u3", "abcd", "", "u1x"}
var ip4Pool = []string{"10.0.0.1", "10.0.0.2"}
var ip6Pool = []string{"fd00::1", "fd00::2"}

func newGen(c *Ctx) *gen { return &gen{c: c, port: 5000} }

func (g *gen) rnd(n int) int   { return g.c.Rng.Intn(n) }
func (g *gen) p(pct int) bool  { return g.c.Rng.Intn(100) < pct }
func (g *gen) add(t ...string) { g.ops = append(g.ops, t) }

func (g *gen) pickUfrag() string {
	if len(g.ufrags) > 0 && g.p(75) {
		return g.ufrags[g.rnd(len(g.ufrags))]
	}
	return ufragPool[g.rnd(len(ufragPool))]
}

func (g *gen) pickIP(is6 bool) string {
	// the first address of each family is used most, so that keys collide often
	pool := ip4Pool
	if is6 {
		pool = ip6Pool
	}
	if g.p(80) {
		return pool[0]
	}
	return pool[1]
}

func (g *gen) newRaddr(is6 bool) string {
	// mostly fresh addresses; sometimes the address of an earlier connection (duplicate handling)
	if len(g.conns) > 0 && g.p(6) {
		o := g.conns[g.rnd(len(g.conns))]
		if o.is6 == is6 {
			return o.raddr
		}
	}
	g.port++
	if is6 {
		return fmt.Sprintf("[2001:db8::%x]:%d", 1+g.rnd(3), g.port)
	}
	return fmt.Sprintf("192.0.2.%d:%d", 1+g.rnd(3), g.port)
}

func (g *gen) opAcc() *gconn {
	is6 := g.p(25)
	cn := &gconn{id: g.nextCid, raddr: g.newRaddr(is6), is6: is6, lip: g.pickIP(is6)}
	g.nextCid++
	aok := "1"
	if g.p(2) {
		aok = "0"
	}
	chunk := []int{1, 2, 3, 7, 64, 1 << 20}[g.rnd(6)]
	g.add("acc", strconv.Itoa(cn.id), Hex(cn.raddr), B(is6), Hex(cn.lip), aok, strconv.Itoa(chunk))
	if !g.muxClosed {
		g.conns = append(g.conns, cn)
		if aok == "0" {
			cn.st = 0
		}
		g.c.Count("op:acc")
		return cn
	}
	g.c.Count("op:acc-after-close")
	return nil
}

func (g *gen) username(u string) string {
	switch g.rnd(10) {
	case 0:
		return u // no colon: the whole USERNAME is the ufrag
	case 1:
		return u + ":r:x"
	default:
		return u + ":r" + strconv.Itoa(g.rnd(100))
	}
}

// first frame of connection cn, class chosen here
func (g *gen) opFF(cn *gconn) {
	var raw []byte
	var flen int
	class := ""
	r := g.rnd(100)
	switch {
	case r < 62:
		u := g.pickUfrag()
		if strings.Contains(u, ":") {
			u = "u1"
		}
		cls := []stun.MessageClass{stun.ClassRequest, stun.ClassRequest, stun.ClassRequest, stun.ClassIndication, stun.ClassSuccessResponse}[g.rnd(5)]
		pad := 0
		class = "ok"
		switch g.rnd(12) {
		case 0: // exactly 512 bytes: the largest first frame that fits
			base := len(buildStun(g.c, stun.MethodBinding, cls, g.username(u), true, 0))
			_ = base
			class = "ok512"
		case 1:
			class = "over516"
		}
		user := g.username(u)
		raw = buildStun(g.c, stun.MethodBinding, cls, user, true, 0)
		if class == "ok512" || class == "over516" {
			want := 512
			if class == "over516" {
				want = 516
			}
			pad = want - len(raw) - 4
			raw = buildStun(g.c, stun.MethodBinding, cls, user, true, pad)
			if len(raw) != want {
				panic(fmt.Sprintf("padding failed: %d", len(raw)))
			}
		}
		flen = len(raw)
	case r < 70:
		class = "oversized"
		flen = []int{513, 600, 8192, 65535}[g.rnd(4)]
		raw = make([]byte, 20+g.rnd(20))
		for i := range raw {
			raw[i] = byte(g.rnd(256))
		}
	case r < 80:
		class = "garbage"
		raw = make([]byte, []int{0, 1, 19, 20, 21, 40, 60}[g.rnd(7)])
		for i := range raw {
			raw[i] = byte(g.rnd(256))
		}
		if g.p(30) {
			for i := range raw {
				raw[i] = 0
			}
		}
		flen = len(raw)
	case r < 90:
		class = "nonbinding"
		m := []stun.Method{stun.MethodAllocate, stun.MethodRefresh, stun.MethodSend, stun.MethodChannelBind}[g.rnd(4)]
		raw = buildStun(g.c, m, stun.ClassRequest, g.username(g.pickUfrag()), true, 0)
		flen = len(raw)
	default:
		class = "nouser"
		raw = buildStun(g.c, stun.MethodBinding, stun.ClassRequest, "", false, g.rnd(3)*4)
		flen = len(raw)
	}
	binding, hasUser, user := describe(raw)
	g.add("ff", strconv.Itoa(cn.id), strconv.Itoa(flen), B(binding), B(hasUser), Hex(user), Hex(string(raw)))
	g.c.Count("ff:" + class)
	if flen <= 512 && binding && hasUser {
		u := user
		if j := strings.IndexByte(u, ':'); j >= 0 {
			u = u[:j]
		}
		cn.st, cn.ufrag = 1, u
		g.attached = true
		if g.muxClosed {
			g.c.Count("ff:ok-after-muxclose")
		}
		known := false
		for _, h := range g.handles {
			if h.u == u && h.is6 == cn.is6 && h.ip == cn.lip {
				known = true
			}
		}
		if known {
			g.c.Count("ff:ok-known-ufrag")
		} else {
			g.c.Count("ff:ok-unknown-ufrag")
		}
		found := false
		for _, x := range g.ufrags {
			found = found || x == u
		}
		if !found {
			g.ufrags = append(g.ufrags, u)
		}
	} else {
		cn.st = 2
		g.rejected = true
	}
}

func (g *gen) pending() []*gconn {
	var out []*gconn
	for _, cn := range g.conns {
		if cn.st == 0 {
			out = append(out, cn)
		}
	}
	return out
}

func (g *gen) okConns() []*gconn {
	var out []*gconn
	for _, cn := range g.conns {
		if cn.st == 1 {
			out = append(out, cn)
		}
	}
	return out
}

func (g *gen) openHandles() []*ghandle {
	var out []*ghandle
	for _, h := range g.handles {
		if !h.closed {
			out = append(out, h)
		}
	}
	return out
}

func (g *gen) payload() string {
	n := []int{0, 1, 5, 20, 100, 1200}[g.rnd(6)]
	if g.p(3) {
		n = 8192
	}
	b := make([]byte, n)
	for i := range b {
		b[i] = byte(g.rnd(256))
	}
	return string(b)
}

func (g *gen) opGet() *ghandle {
	u := g.pickUfrag()
	is6 := g.p(25)
	ip := g.pickIP(is6)
	// prefer the key of a connection that came in under an unknown ufrag (claiming a provisional conn)
	if oc := g.okConns(); len(oc) > 0 && g.p(45) {
		cn := oc[g.rnd(len(oc))]
		u, is6, ip = cn.ufrag, cn.is6, cn.lip
	}
	h := &ghandle{id: g.nextH, u: u, is6: is6, ip: ip}
	g.nextH++
	g.add("get", strconv.Itoa(h.id), Hex(u), B(is6), Hex(ip))
	g.c.Count("op:get")
	if !g.muxClosed {
		g.handles = append(g.handles, h)
		found := false
		for _, x := range g.ufrags {
			found = found || x == u
		}
		if !found {
			g.ufrags = append(g.ufrags, u)
		}
	}
	return h
}

func (g *gen) randomOp() {
	pend, oks, hs := g.pending(), g.okConns(), g.openHandles()
	r := g.rnd(100)
	switch {
	case r < 13:
		g.opAcc()
	case r < 27:
		if len(pend) > 0 {
			g.opFF(pend[g.rnd(len(pend))])
		} else if cn := g.opAcc(); cn != nil {
			g.opFF(cn)
		}
	case r < 30:
		if len(pend) > 0 {
			cn := pend[g.rnd(len(pend))]
			g.add("dl", strconv.Itoa(cn.id), strconv.Itoa([]int{0, 0, 1, 2, 3, 50}[g.rnd(6)]))
			cn.st = 2
			g.rejected = true
			g.c.Count("ff:late(slow-loris)")
		} else if len(g.conns) > 0 {
			// a deadline passing on a connection that is no longer waiting for its first frame
			cn := g.conns[g.rnd(len(g.conns))]
			g.add("dl", strconv.Itoa(cn.id), "0")
			g.c.Count("op:dl-stray")
		}
	case r < 44:
		if len(oks) > 0 {
			cn := oks[g.rnd(len(oks))]
			if g.p(3) {
				g.add("sendbig", strconv.Itoa(cn.id), strconv.Itoa([]int{8193, 9000, 65535}[g.rnd(3)]))
				g.c.Count("op:sendbig")
			} else {
				g.add("send", strconv.Itoa(cn.id), Hex(g.payload()))
				g.c.Count("op:send")
			}
		}
	case r < 48:
		if len(g.conns) > 0 {
			cn := g.conns[g.rnd(len(g.conns))]
			g.add("cclose", strconv.Itoa(cn.id))
			if cn.st == 0 {
				g.c.Count("ff:early-close")
				g.rejected = true
			} else {
				g.c.Count("op:cclose")
			}
			cn.st = 2
		}
	case r < 53:
		if len(oks) > 0 {
			g.add("crecv", strconv.Itoa(oks[g.rnd(len(oks))].id))
			g.c.Count("op:crecv")
		}
	case r < 57:
		if len(g.conns) > 0 {
			g.add("stat", strconv.Itoa(g.conns[g.rnd(len(g.conns))].id))
		}
	case r < 66:
		g.opGet()
	case r < 69:
		g.add("rm", Hex(g.pickUfrag()))
		g.removal = true
		g.c.Count("op:rm")
	case r < 77:
		if len(hs) > 0 {
			h := hs[g.rnd(len(hs))]
			raddr := ""
			var same []*gconn
			for _, cn := range oks {
				if cn.ufrag == h.u && cn.is6 == h.is6 && cn.lip == h.ip {
					same = append(same, cn)
				}
			}
			switch {
			case len(same) > 0 && g.p(85):
				raddr = same[g.rnd(len(same))].raddr
			case len(g.conns) > 0 && g.p(70):
				raddr = g.conns[g.rnd(len(g.conns))].raddr
			default:
				raddr = "198.51.100.7:9"
			}
			g.add("wr", strconv.Itoa(h.id), Hex(raddr), Hex(g.payload()))
			g.c.Count("op:wr")
		}
	case r < 91:
		if len(g.handles) > 0 {
			h := g.handles[g.rnd(len(g.handles))]
			g.add("rd", strconv.Itoa(h.id))
			g.c.Count("op:rd")
		}
	case r < 93:
		if len(hs) > 0 {
			h := hs[g.rnd(len(hs))]
			h.closed = true
			g.add("hclose", strconv.Itoa(h.id))
			g.removal = true
			g.c.Count("op:hclose")
		}
	case r < 96:
		if len(oks) > 0 {
			cn := oks[g.rnd(len(oks))]
			g.add("expire", Hex(cn.ufrag), B(cn.is6), Hex(cn.lip))
			g.removal = true
			g.c.Count("op:expire")
		}
	case r < 97:
		g.add("census")
	default:
		if !g.muxClosed && g.p(40) {
			g.opMuxClose()
		}
	}
}

func (g *gen) opMuxClose() {
	g.add("muxclose")
	g.muxClosed = true
	if len(g.okConns()) > 0 || len(g.pending()) > 0 {
		g.closeOpen = true
		g.c.Count("op:muxclose-with-open-conns")
	} else {
		g.c.Count("op:muxclose-idle")
	}
}

// drain: read every handle a few times so that delivery is observed
func (g *gen) drainReads(k int) {
	for _, h := range g.handles {
		for i := 0; i < k; i++ {
			g.add("rd", strconv.Itoa(h.id))
		}
	}
}

func (g *gen) tail() {
	g.add("census")
	if !g.muxClosed && g.p(75) {
		// sometimes a client has stopped reading and a write towards it is parked in the socket when Close arrives
		// (histories without write buffering only: filtered in flat)
		if oks, hs := g.okConns(), g.openHandles(); len(oks) > 0 && len(hs) > 0 && g.p(30) {
			cn := oks[g.rnd(len(oks))]
			for _, h := range hs {
				if h.u == cn.ufrag && h.is6 == cn.is6 && h.ip == cn.lip {
					g.add("wrstall", strconv.Itoa(h.id), strconv.Itoa(cn.id), Hex(cn.raddr))
					g.c.Count("op:wrstall-then-muxclose")
					break
				}
			}
		}
		g.opMuxClose()
	}
	if g.muxClosed {
		for _, cn := range g.pending() {
			if g.p(50) {
				g.add("dl", strconv.Itoa(cn.id), "0")
			} else {
				g.opFF(cn)
			}
			if cn.st == 0 {
				cn.st = 2
			}
		}
		for _, cn := range g.okConns() {
			g.add("expire", Hex(cn.ufrag), B(cn.is6), Hex(cn.lip))
		}
		g.add("closewait")
		g.add("census")
	}
	for _, cn := range g.conns {
		g.add("stat", strconv.Itoa(cn.id))
	}
	for _, h := range g.handles {
		g.add("rd", strconv.Itoa(h.id))
	}
}

func (g *gen) flat(cfg []string) []string {
	out := append([]string(nil), cfg...)
	for _, o := range g.ops {
		if len(o) > 0 && o[0] == "wrstall" && cfg[2] == "1" {
			continue // with write buffering WriteTo never parks in the socket
		}
		out = append(out, ";")
		out = append(out, o...)
	}
	return out
}

// lisErr: in a quarter of the histories without real timers the listener reports an error from Close
// (a wrapping listener, or one its owner closed before): TCPMuxDefault.Close must tear everything down all the same
func (g *gen) lisErr(cfg []string) []string {
	if cfg[4] == "0" && g.p(25) {
		cfg[4] = "3"
		g.c.Count("hist:listener-close-error")
	}
	return cfg
}

func replayTag(toks []string) string {
	rt := "0"
	if len(toks) >= 5 {
		rt = toks[4]
	}
	tag := "hist"
	for _, t := range toks {
		switch t {
		case "rmget":
			return "race-rm-get"
		case "hcloseget":
			return "race-hclose-get"
		case "expireget":
			return "race-expire-get"
		case "ffpark":
			return "race-attach-close"
		}
	}
	if len(toks) >= 3 && toks[2] == "1" {
		// write buffering on and a WriteTo whose frame exceeds receiveMTU
		for i, t := range toks {
			if t == "wr" && i+3 < len(toks) && (len(toks[i+3])-1)/2+2 > 8192 {
				tag = "hist,wbuf-large-write"
			}
		}
	}
	switch rt {
	case "1":
		tag = "rt-slowloris"
	case "2":
		tag = "rt-expiry"
	}
	return tag
}

// history i of the run
func (g *gen) history(i int) ([]string, string, bool) {
	cfg := []string{"cfg", "1", "0", "1", "0", "1", "0"}
	kind := g.rnd(100)
	switch {
	case kind < 3: // real first-frame timeout, a slow-loris client
		cfg[4] = "1"
		n := 1 + g.rnd(3)
		for k := 0; k < n; k++ {
			g.opAcc()
		}
		for _, cn := range g.conns {
			g.add("dl", strconv.Itoa(cn.id), strconv.Itoa([]int{0, 1, 2, 30}[g.rnd(4)]))
			g.add("stat", strconv.Itoa(cn.id))
			cn.st = 2
		}
		g.add("census")
		g.add("muxclose")
		g.add("census")
		g.c.Count("hist:rt-slowloris")
		toks := g.flat(g.lisErr(cfg))
		return toks, replayTag(toks), false
	case kind < 6: // real alive timer (no step of this script races with the timer)
		cfg[4] = "2"
		claimFirst := g.p(40)
		u := ufragPool[g.rnd(3)]
		is6 := g.p(25)
		ip := g.pickIP(is6)
		if claimFirst {
			// the agent's conn exists before the client connects: never provisional, must not expire
			g.add("get", "0", Hex(u), B(is6), Hex(ip))
		}
		raddr := g.newRaddrForce(is6)
		raw := buildStun(g.c, stun.MethodBinding, stun.ClassRequest, u+":r", true, 0)
		g.add("acc", "0", Hex(raddr), B(is6), Hex(ip), "1", "64")
		g.add("ff", "0", strconv.Itoa(len(raw)), "1", "1", Hex(u+":r"), Hex(string(raw)))
		g.add("expire", Hex(u), B(is6), Hex(ip))
		g.add("stat", "0")
		if claimFirst {
			g.add("rd", "0")
		}
		g.add("census")
		g.c.Count("hist:rt-expiry")
		toks := g.flat(g.lisErr(cfg))
		return toks, replayTag(toks), false
	case kind < 14: // the two halves of a race window back to back
		if g.p(30) {
			cfg[2] = "1"
		}
		u := ufragPool[g.rnd(3)]
		is6 := g.p(25)
		ip := g.pickIP(is6)
		which := g.rnd(3)
		if which == 2 {
			// provisional conn first
			cn := &gconn{id: 40, is6: is6, lip: ip}
			g.add("acc", "40", Hex(g.newRaddrForce(is6)), B(is6), Hex(ip), "1", "64")
			raw := buildStun(g.c, stun.MethodBinding, stun.ClassRequest, u+":r", true, 0)
			g.add("ff", strconv.Itoa(cn.id), strconv.Itoa(len(raw)), "1", "1", Hex(u+":r"), Hex(string(raw)))
			g.add("expireget", Hex(u), B(is6), Hex(ip), "7")
			g.add("rd", "7")
			g.add("stat", strconv.Itoa(cn.id))
			g.c.Count("hist:race-expire-get")
		} else {
			g.add("get", "0", Hex(u), B(is6), Hex(ip))
			if which == 0 {
				g.add("rmget", Hex(u), "7", B(is6), Hex(ip))
				g.c.Count("hist:race-rm-get")
			} else {
				g.add("hcloseget", "0", "7", Hex(u), B(is6), Hex(ip))
				g.c.Count("hist:race-hclose-get")
			}
			g.add("rd", "7")
		}
		// a client for the same ufrag afterwards: is it routed to the handle just obtained?
		raddr := g.newRaddrForce(is6)
		raw := buildStun(g.c, stun.MethodBinding, stun.ClassRequest, u+":r", true, 0)
		g.add("acc", "50", Hex(raddr), B(is6), Hex(ip), "1", "64")
		g.add("ff", "50", strconv.Itoa(len(raw)), "1", "1", Hex(u+":r"), Hex(string(raw)))
		g.add("rd", "7")
		g.add("wr", "7", Hex(raddr), Hex("reply"))
		g.add("crecv", "50")
		g.add("stat", "50")
		g.add("census")
		toks := g.flat(g.lisErr(cfg))
		return toks, replayTag(toks), true
	case kind < 18: // a client's first frame between the close of its ufrag's packet conn and that conn's cleanup
		if g.p(30) {
			cfg[2] = "1"
		}
		u := ufragPool[g.rnd(3)]
		is6 := g.p(25)
		ip := g.pickIP(is6)
		g.add("get", "0", Hex(u), B(is6), Hex(ip))
		other := g.p(40)
		if other {
			ra := g.newRaddrForce(is6)
			raw := buildStun(g.c, stun.MethodBinding, stun.ClassRequest, u+":o", true, 0)
			g.add("acc", "1", Hex(ra), B(is6), Hex(ip), "1", "64")
			g.add("ff", "1", strconv.Itoa(len(raw)), "1", "1", Hex(u+":o"), Hex(string(raw)))
		}
		raddr := g.newRaddrForce(is6)
		raw := buildStun(g.c, stun.MethodBinding, stun.ClassRequest, u+":w", true, 0)
		g.add("acc", "0", Hex(raddr), B(is6), Hex(ip), "1", "64")
		g.add("hcloseff", "0", "0", strconv.Itoa(len(raw)), "1", "1", Hex(u+":w"), Hex(string(raw)))
		g.add("stat", "0")
		// the agent comes back for the ufrag: the parked client's first message is waiting there
		g.add("get", "7", Hex(u), B(is6), Hex(ip))
		g.add("rd", "7")
		g.add("wr", "7", Hex(raddr), Hex("reply"))
		g.add("crecv", "0")
		g.add("stat", "0")
		if other {
			g.add("stat", "1")
		}
		g.add("census")
		g.c.Count("hist:first-frame-in-close-window")
		toks := g.flat(g.lisErr(cfg))
		return toks, replayTag(toks), true
	case kind < 26: // several clients of one ufrag on one packet conn: per-peer order, replies per peer
		if g.p(30) {
			cfg[2] = "1"
		}
		u := ufragPool[g.rnd(4)]
		is6 := g.p(25)
		ip := g.pickIP(is6)
		first := g.p(50)
		if first {
			g.add("get", "0", Hex(u), B(is6), Hex(ip))
		}
		n := 2 + g.rnd(3)
		var cs []*gconn
		for k := 0; k < n; k++ {
			cn := &gconn{id: k, raddr: g.newRaddrForce(is6), is6: is6, lip: ip, ufrag: u, st: 1}
			cs = append(cs, cn)
			g.conns = append(g.conns, cn)
			g.add("acc", strconv.Itoa(k), Hex(cn.raddr), B(is6), Hex(ip), "1", strconv.Itoa([]int{1, 3, 64, 1 << 20}[g.rnd(4)]))
			raw := buildStun(g.c, stun.MethodBinding, stun.ClassRequest, u+":r"+strconv.Itoa(k), true, 0)
			g.add("ff", strconv.Itoa(k), strconv.Itoa(len(raw)), "1", "1", Hex(u+":r"+strconv.Itoa(k)), Hex(string(raw)))
		}
		if !first {
			g.add("get", "0", Hex(u), B(is6), Hex(ip))
		}
		g.handles = append(g.handles, &ghandle{id: 0, u: u, is6: is6, ip: ip})
		g.attached = true
		m := 6 + g.rnd(14)
		for k := 0; k < m; k++ {
			cn := cs[g.rnd(len(cs))]
			switch g.rnd(6) {
			case 0, 1:
				g.add("send", strconv.Itoa(cn.id), Hex(g.payload()))
			case 2:
				g.add("wr", "0", Hex(cn.raddr), Hex(g.payload()))
				g.c.Count("op:wr")
			case 3:
				g.add("crecv", strconv.Itoa(cn.id))
			default:
				g.add("rd", "0")
			}
		}
		for _, cn := range cs {
			g.add("wr", "0", Hex(cn.raddr), Hex("to-"+strconv.Itoa(cn.id)))
		}
		for _, cn := range cs {
			g.add("crecv", strconv.Itoa(cn.id))
			g.add("crecv", strconv.Itoa(cn.id))
			g.add("crecv", strconv.Itoa(cn.id))
		}
		for k := 0; k < m+n; k++ {
			g.add("rd", "0")
		}
		if g.p(50) {
			g.add("rm", Hex(u))
			g.removal = true
		}
		g.tail()
		g.c.Count("hist:fan-in")
		toks := g.flat(g.lisErr(cfg))
		return toks, replayTag(toks), g.removal || g.closeOpen
	case kind < 33: // AddConn overlapping the end of its packet conn: handleConn parked between lookup and AddConn
		if g.p(25) {
			cfg[2] = "1"
		}
		u := ufragPool[g.rnd(4)]
		is6 := g.p(25)
		ip := g.pickIP(is6)
		known := g.p(60)
		if known {
			g.add("get", "0", Hex(u), B(is6), Hex(ip))
			g.handles = append(g.handles, &ghandle{id: 0, u: u, is6: is6, ip: ip})
		}
		// sometimes another client of the same ufrag is already attached
		other := g.p(40)
		if other {
			ra := g.newRaddrForce(is6)
			raw := buildStun(g.c, stun.MethodBinding, stun.ClassRequest, u+":o", true, 0)
			g.add("acc", "1", Hex(ra), B(is6), Hex(ip), "1", "64")
			g.add("ff", "1", strconv.Itoa(len(raw)), "1", "1", Hex(u+":o"), Hex(string(raw)))
		}
		raddr := g.newRaddrForce(is6)
		raw := buildStun(g.c, stun.MethodBinding, stun.ClassRequest, u+":p", true, 0)
		g.add("acc", "0", Hex(raddr), B(is6), Hex(ip), "1", strconv.Itoa([]int{1, 3, 64, 1 << 20}[g.rnd(4)]))
		g.add("ffpark", "0", strconv.Itoa(len(raw)), "1", "1", Hex(u+":p"), Hex(string(raw)))
		if g.p(30) {
			g.add("census")
		}
		// what happens to the packet conn while AddConn is held
		opts := []int{0, 3, 4, 5}
		if known {
			opts = append(opts, 1, 1)
		}
		if !known && !other {
			opts = append(opts, 2, 2)
		}
		what := opts[g.rnd(len(opts))]
		closedMux := false
		switch {
		case what == 0:
			g.add("rm", Hex(u))
			g.c.Count("attach-race:remove")
		case what == 1 && known:
			g.add("hclose", "0")
			g.c.Count("attach-race:last-handle-close")
		case what == 2 && !known && !other:
			g.add("expire", Hex(u), B(is6), Hex(ip))
			g.c.Count("attach-race:expiry")
		case what == 3:
			g.add("muxclose")
			closedMux = true
			g.c.Count("attach-race:muxclose")
		case what == 4:
			// Remove, and the agent comes back for the same ufrag before AddConn runs: the connection
			// was routed to the OLD packet conn
			g.add("rm", Hex(u))
			g.add("get", "5", Hex(u), B(is6), Hex(ip))
			g.c.Count("attach-race:remove-then-get")
		default:
			g.c.Count("attach-race:nothing(control)")
		}
		if g.p(50) {
			g.add("stat", "0")
		}
		if known && g.p(50) {
			g.add("rd", "0")
		}
		g.add("release", "0")
		g.add("stat", "0")
		if known {
			g.add("rd", "0")
			g.add("wr", "0", Hex(raddr), Hex("after"))
			g.add("crecv", "0")
		}
		if what == 4 {
			g.add("rd", "5")
		}
		g.add("send", "0", Hex("x"))
		g.add("census")
		if closedMux {
			g.add("closewait")
			g.add("census")
		} else if g.p(60) {
			g.add("muxclose")
			g.add("expire", Hex(u), B(is6), Hex(ip))
			g.add("closewait")
			g.add("census")
		}
		g.add("stat", "0")
		if other {
			g.add("stat", "1")
		}
		if known {
			g.add("rd", "0")
		}
		g.c.Count("hist:race-attach-close")
		toks := g.flat(g.lisErr(cfg))
		return toks, replayTag(toks), what <= 4
	}
	// general history
	if g.p(20) {
		cfg[2] = "1"
	}
	if g.p(6) {
		cfg[1] = "0" // negative FirstStunBindTimeout: no read deadline
	}
	if g.p(3) {
		cfg[3] = "0" // the listener's Addr is not a *net.TCPAddr
	}
	// a typical opening: an agent's GetConnByUfrag, a client
	if g.p(70) {
		g.opGet()
	}
	n := 8 + g.rnd(30)
	for k := 0; k < n; k++ {
		g.randomOp()
		if k%6 == 5 && g.p(50) {
			g.drainReads(1)
		}
	}
	g.drainReads(2)
	g.tail()
	g.c.Count("hist:general")
	if cfg[2] == "1" {
		g.c.Count("cfg:write-buffer")
	}
	if cfg[1] == "0" {
		g.c.Count("cfg:no-first-timeout")
	}
	if cfg[3] == "0" {
		g.c.Count("cfg:listener-addr-not-tcp")
	}
	toks := g.flat(g.lisErr(cfg))
	nt := g.attached && (g.rejected || g.removal || g.closeOpen)
	return toks, replayTag(toks), nt
}

func (g *gen) newRaddrForce(is6 bool) string {
	g.port++
	if is6 {
		return fmt.Sprintf("[2001:db8::9]:%d", g.port)
	}
	return fmt.Sprintf("192.0.2.9:%d", g.port)
}
