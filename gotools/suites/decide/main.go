package main

// suite "decide": the small decision functions of the agent that the agent-core model takes from the translator
// (gentrans), each compared with its translation on boundary values and random points.  The agent-level suites
// exercise these functions only with the values their histories happen to produce; here the whole interesting
// part of each domain is swept, whether the definition in coq/Gen was generated or is the committed fallback.

import (
	"fmt"
	"net/netip"
	"strconv"
	"time"

	ice "github.com/pion/ice/v4"
	"github.com/pion/stun/v3"

	. "verif/gotools/hlib"
)

func main() { Main("decide", run) }

func atoi(s string) int64 {
	v, err := strconv.ParseInt(s, 10, 64)
	if err != nil {
		panic(err)
	}
	return v
}

func b(v bool) string { return B(v) }

func run(c *Ctx) error {
	c.Rule = "acc: shouldAcceptNomination over {absent, 0, 1, 2, 5, 2^23-1, 2^23, 2^23+5, 0x900000, 2^24-1, 2^24, 2^31, 2^32-1, random} x the same for the remembered value; sw: shouldSwitchSelectedPair over all flag combinations x priority pairs around equality and at the 64-bit boundaries; csd: connectionStateForDisconnection over timeouts {0, 1, 5s, 25s} x states 1..7 x silences around every threshold; ict: initialCheckingTimeout over {0, 1, 5s, 25s}^2 x flags; chi: canHandleInbound over methods 0..12 x classes 0..3; ncp, rs: all combinations. Non-trivial = every case."
	if c.Replay != "" {
		for _, t := range c.ReplayLines() {
			if err := one(c, t); err != nil {
				return err
			}
		}
		return nil
	}
	vals := []uint32{0, 1, 2, 5, 1<<23 - 1, 1 << 23, 1<<23 + 5, 0x900000, 1<<24 - 1, 1 << 24, 1 << 31, 1<<32 - 1}
	for i := 0; i < 6; i++ {
		vals = append(vals, c.Rng.Uint32(), c.Rng.Uint32()&0xffffff)
	}
	for _, hv := range []bool{false, true} {
		for _, v := range vals {
			for _, hl := range []bool{false, true} {
				for _, l := range vals {
					if (!hv && v != 0) || (!hl && l != 0) {
						continue
					}
					if err := one(c, []string{"acc", b(hv), fmt.Sprint(v), b(hl), fmt.Sprint(l)}); err != nil {
						return err
					}
				}
			}
		}
	}
	prios := []uint64{0, 1, 2, 1 << 32, 1<<32 + 1, 9151314438521880576, 9151314438521880577, 1<<63 - 1, 1 << 63, 1<<64 - 1}
	for i := 0; i < 4; i++ {
		prios = append(prios, c.Rng.Uint64())
	}
	for m := 0; m < 32; m++ {
		hs, same, hv, lite, chk := m&1 != 0, m&2 != 0, m&4 != 0, m&8 != 0, m&16 != 0
		if same && !hs {
			continue
		}
		for _, sp := range prios {
			for _, pp := range prios {
				if same && sp != pp {
					continue
				}
				if err := one(c, []string{"sw", b(hs), b(same), b(hv), b(lite), b(chk), fmt.Sprint(sp), fmt.Sprint(pp)}); err != nil {
					return err
				}
			}
		}
	}
	durs := []int64{0, 1, int64(5 * time.Second), int64(25 * time.Second)}
	for _, td := range durs {
		for _, tot := range []int64{0, 1, int64(5 * time.Second), int64(30 * time.Second)} {
			var silences []int64
			for _, x := range []int64{0, td, tot} {
				silences = append(silences, x-1, x, x+1)
			}
			silences = append(silences, int64(time.Hour), 1<<62)
			for st := 1; st <= 7; st++ {
				for _, d := range silences {
					if d < 0 {
						continue
					}
					if err := one(c, []string{"csd", fmt.Sprint(td), strconv.Itoa(st), fmt.Sprint(d), fmt.Sprint(tot)}); err != nil {
						return err
					}
				}
			}
		}
	}
	for _, f := range durs {
		for _, d := range durs {
			for m := 0; m < 4; m++ {
				if err := one(c, []string{"ict", fmt.Sprint(f), fmt.Sprint(d), b(m&1 != 0), b(m&2 != 0)}); err != nil {
					return err
				}
			}
		}
	}
	for m := 0; m <= 12; m++ {
		for cl := 0; cl <= 3; cl++ {
			if err := one(c, []string{"chi", strconv.Itoa(m), strconv.Itoa(cl)}); err != nil {
				return err
			}
		}
	}
	for m := 0; m < 4; m++ {
		if err := one(c, []string{"ncp", b(m&1 != 0), b(m&2 != 0)}); err != nil {
			return err
		}
	}
	for rnt := 1; rnt <= 4; rnt++ {
		for lnt := 1; lnt <= 4; lnt++ {
			for _, eq := range []bool{false, true} {
				if err := one(c, []string{"rs", strconv.Itoa(rnt), strconv.Itoa(lnt), b(eq)}); err != nil {
					return err
				}
			}
		}
	}
	return nil
}

func one(c *Ctx, t []string) error {
	switch t[0] {
	case "acc":
		ok, hl, l := ice.VerifShouldAcceptNomination(t[1] == "1", uint32(atoi(t[2])), t[3] == "1", uint32(atoi(t[4])))
		c.Count("acc")
		c.Emit("acc", t, []string{b(ok), b(hl), fmt.Sprint(l)}, true)
	case "sw":
		sp, _ := strconv.ParseUint(t[6], 10, 64)
		pp, _ := strconv.ParseUint(t[7], 10, 64)
		r := ice.VerifShouldSwitchSelectedPair(t[1] == "1", t[2] == "1", t[3] == "1", t[4] == "1", t[5] == "1", sp, pp)
		c.Count("sw")
		c.Emit("sw", t, []string{b(r)}, true)
	case "csd":
		r := ice.VerifConnectionStateForDisconnection(time.Duration(atoi(t[1])), ice.ConnectionState(atoi(t[2])), time.Duration(atoi(t[3])), time.Duration(atoi(t[4])))
		c.Count("csd")
		c.Emit("csd", t, []string{strconv.Itoa(int(r))}, true)
	case "ict":
		r := ice.VerifInitialCheckingTimeout(time.Duration(atoi(t[1])), time.Duration(atoi(t[2])), t[3] == "1", t[4] == "1")
		c.Count("ict")
		c.Emit("ict", t, []string{fmt.Sprint(int64(r))}, true)
	case "chi":
		r := ice.VerifCanHandleInbound(stun.Method(atoi(t[1])), stun.MessageClass(atoi(t[2])))
		c.Count("chi")
		c.Emit("chi", t, []string{b(r)}, true)
	case "ncp":
		c.Count("ncp")
		c.Emit("ncp", t, []string{b(ice.VerifNeedsToCheckPriorityOnNominated(t[1] == "1", t[2] == "1"))}, true)
	case "rs":
		dst := netip.MustParseAddrPort("192.0.2.1:4000")
		src := dst
		if t[3] != "1" {
			src = netip.MustParseAddrPort("192.0.2.1:4001")
		}
		r := ice.VerifResponseSymmetric(ice.NetworkType(atoi(t[1])), ice.NetworkType(atoi(t[2])), dst, src)
		c.Count("rs")
		c.Emit("rs", t, []string{b(r)}, true)
	default:
		return fmt.Errorf("decide: unknown case %v", t)
	}
	return nil
}
