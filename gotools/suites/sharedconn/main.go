package main

// suite "sharedconn" (C13): reference-counted handles on one underlying mux connection.
//
// A case is a history of handle operations (new / close / concurrent closes, optionally while
// siblings write / write / start a blocking read / poll it / deliver a datagram) run on the real
// sharedPacketConn / sharedAddrPortConn code:
//   wrap : handles from newSharedPacketConn on a real udpMuxedConn whose Close calls are COUNTED
//          (hook VerifSharedUnderlying),
//   udp  : handles from UDPMuxDefault.GetConn (same ufrag), closed flag of the udpMuxedConn,
//   tcp  : handles from TCPMuxDefault.GetConnByUfrag, closed flag of the tcpPacketConn.
// One observation token per operation. The extracted sequential model must produce the same
// tokens; the extracted monitor states C13 on them.

import (
	"errors"
	"fmt"
	"io"
	"math/rand"
	"net"
	"net/netip"
	"os"
	"runtime"
	"strconv"
	"strings"
	"sync"
	"time"

	ice "github.com/pion/ice/v4"
	"github.com/pion/logging"

	. "verif/gotools/hlib"
)

func main() { Main("sharedconn", run) }

// a passive socket under the UDP mux: writes succeed, reads block until Close
type quietSock struct {
	closed chan struct{}
	once   sync.Once
	rng    *rand.Rand
	mu     sync.Mutex
	level  int
}

func (s *quietSock) perturb() {
	if s.level == 0 {
		return
	}
	s.mu.Lock()
	r, d := s.rng.Intn(100), s.rng.Intn(30)
	s.mu.Unlock()
	switch {
	case r < 25*s.level:
		runtime.Gosched()
	case r < 33*s.level:
		time.Sleep(time.Duration(d) * time.Microsecond)
	}
}
func (s *quietSock) ReadFrom([]byte) (int, net.Addr, error) {
	<-s.closed
	return 0, nil, net.ErrClosed
}
func (s *quietSock) WriteTo(b []byte, _ net.Addr) (int, error) { s.perturb(); return len(b), nil }
func (s *quietSock) Close() error                              { s.once.Do(func() { close(s.closed) }); return nil }
func (s *quietSock) LocalAddr() net.Addr                       { return &net.UDPAddr{IP: net.IPv4(127, 0, 0, 1), Port: 7100} }
func (s *quietSock) SetDeadline(time.Time) error               { return nil }
func (s *quietSock) SetReadDeadline(time.Time) error           { return nil }
func (s *quietSock) SetWriteDeadline(time.Time) error          { return nil }

type quietSockAP struct{ *quietSock }

func (s quietSockAP) ReadFromAddrPort([]byte) (int, netip.AddrPort, error) {
	<-s.closed
	return 0, netip.AddrPort{}, net.ErrClosed
}
func (s quietSockAP) WriteToAddrPort(b []byte, _ netip.AddrPort) (int, error) {
	s.perturb()
	return len(b), nil
}

// a listener that never accepts
type quietListener struct {
	closed chan struct{}
	once   sync.Once
}

func (l *quietListener) Accept() (net.Conn, error) { <-l.closed; return nil, net.ErrClosed }
func (l *quietListener) Close() error              { l.once.Do(func() { close(l.closed) }); return nil }
func (l *quietListener) Addr() net.Addr            { return &net.TCPAddr{IP: net.IPv4(127, 0, 0, 1), Port: 7200} }

type readSlot struct {
	busy bool
	done chan int // result class
}

type world struct {
	mode    string
	ap      bool
	sock    *quietSock
	mux     *ice.UDPMuxDefault
	tmux    *ice.TCPMuxDefault
	under   *ice.VerifSharedUnderlying
	handles []net.PacketConn
	closed  []bool // shadow: Close was called (only used to choose waiting times and the no-op rules)
	reads   []*readSlot
	blocked int // shadow: reads expected to be blocked
	queued  int
	expect  []int // shadow: 0 none, 1 blocked, 2 has result
	dl      []int // shadow: read deadline of the handle: 0 none, 1 far in the future, 2 in the past
	delivs  int   // datagrams delivered so far (they are numbered)
	uclosed bool  // shadow: every handle was closed at some point (the underlying is closed)
}

// "promptly": a generous watchdog, so that load cannot turn a slow wake-up into an observation
const watchdog = 2500 * time.Millisecond

var remote = &net.UDPAddr{IP: net.IPv4(192, 0, 2, 9), Port: 4100}
var remoteAP = netip.MustParseAddrPort("192.0.2.9:4100")

func newWorld(mode string, ap bool, seed int64, level int) *world {
	w := &world{mode: mode, ap: ap}
	lf := logging.NewDefaultLoggerFactory()
	lf.DefaultLogLevel = logging.LogLevelDisabled
	w.sock = &quietSock{closed: make(chan struct{}), rng: rand.New(rand.NewSource(seed)), level: level}
	var conn net.PacketConn = w.sock
	if ap {
		conn = quietSockAP{w.sock}
	}
	switch mode {
	case "tcp":
		w.tmux = ice.NewTCPMuxDefault(ice.TCPMuxParams{Listener: &quietListener{closed: make(chan struct{})}, Logger: lf.NewLogger("ice"), ReadBufferSize: 8})
	default:
		w.mux = ice.NewUDPMuxDefault(ice.UDPMuxParams{UDPConn: conn, Logger: lf.NewLogger("ice")})
		if mode == "wrap" {
			w.under = ice.VerifNewSharedUnderlying(w.mux, "wrapped")
			w.under.OnClose = w.sock.perturb
		}
	}
	return w
}

func (w *world) teardown() {
	for _, h := range w.handles {
		_ = h.Close()
	}
	if w.mux != nil {
		_ = w.mux.Close()
	}
	if w.tmux != nil {
		_ = w.tmux.Close()
	}
}

// closes: number of Close calls on the underlying (wrap) or its closed flag (udp, tcp)
func (w *world) closes() int {
	switch w.mode {
	case "wrap":
		return w.under.Closes()
	default:
		if len(w.handles) == 0 {
			return 0
		}
		_, closed, _ := ice.VerifSharedRefs(w.handles[0])
		if closed {
			return 1
		}
		return 0
	}
}

func (w *world) newHandle() (net.PacketConn, error) {
	switch w.mode {
	case "wrap":
		return w.under.NewHandle(w.ap), nil
	case "udp":
		return w.mux.GetConn("shared", w.sock.LocalAddr())
	default:
		return w.tmux.GetConnByUfrag("shared", false, net.IPv4(127, 0, 0, 1))
	}
}

func errClass(err error) int {
	switch {
	case err == nil:
		return 0
	case errors.Is(err, io.ErrClosedPipe):
		return 1
	default:
		return 2
	}
}

func (w *world) writeOn(h int) int {
	var err error
	func() {
		defer func() {
			if p := recover(); p != nil {
				err = fmt.Errorf("PANIC %v", p)
			}
		}()
		if apw, ok := w.handles[h].(ice.AddrPortReaderWriter); ok && h%2 == 1 {
			_, err = apw.WriteToAddrPort([]byte("c13"), remoteAP)
		} else {
			_, err = w.handles[h].WriteTo([]byte("c13"), remote)
		}
	}()
	return errClass(err)
}

func ints(t string) []int {
	var out []int
	for _, f := range strings.Split(t, ",") {
		if f == "" || f == "-" {
			continue
		}
		v, err := strconv.Atoi(f)
		if err != nil {
			panic("bad number " + f)
		}
		out = append(out, v)
	}
	return out
}

func (w *world) doClose(hs []int) (int, int) {
	var wg sync.WaitGroup
	errs := make([]error, len(hs))
	for k, h := range hs {
		if h < 0 || h >= len(w.handles) {
			continue
		}
		wg.Add(1)
		go func(k, h int) {
			defer wg.Done()
			w.sock.perturb()
			errs[k] = w.handles[h].Close()
		}(k, h)
	}
	wg.Wait()
	e := 0
	for _, err := range errs {
		if err != nil {
			e = 1
		}
	}
	for _, h := range hs {
		if h >= 0 && h < len(w.handles) && !w.closed[h] {
			w.closed[h] = true
			if w.expect[h] == 1 {
				w.expect[h] = 2
				w.blocked--
				// the pending read of the closed handle has to come back promptly (watchdog); waiting here also
				// keeps the count of parked readers exact for the operations that follow
				for t0 := time.Now(); time.Since(t0) < watchdog && len(w.reads[h].done) == 0; {
					time.Sleep(20 * time.Microsecond)
				}
			}
		}
	}
	all := len(w.closed) > 0
	for _, c := range w.closed {
		all = all && c
	}
	if all {
		w.uclosed = true
	}
	return e, w.closes()
}

// one operation, returns the observation token
func (w *world) op(t string) string {
	f := strings.SplitN(t, ":", 3)
	switch f[0] {
	case "new":
		pc, err := w.newHandle()
		if err != nil {
			return "err"
		}
		w.handles = append(w.handles, pc)
		w.closed = append(w.closed, false)
		w.reads = append(w.reads, &readSlot{})
		w.expect = append(w.expect, 0)
		w.dl = append(w.dl, 0)
		return fmt.Sprintf("%d,%d", len(w.handles)-1, w.closes())
	case "close":
		e, c := w.doClose(ints(f[1])[:1])
		return fmt.Sprintf("%d,%d", e, c)
	case "pclose":
		e, c := w.doClose(ints(f[1]))
		return fmt.Sprintf("%d,%d", e, c)
	case "pclosew":
		hs, ws := ints(f[1]), ints(f[2])
		inHs := map[int]bool{}
		for _, h := range hs {
			inHs[h] = true
		}
		var wg sync.WaitGroup
		var mu sync.Mutex
		fails := 0
		for _, x := range ws {
			if x < 0 || x >= len(w.handles) || inHs[x] || w.mode == "tcp" {
				continue
			}
			wg.Add(1)
			go func(x int) {
				defer wg.Done()
				for k := 0; k < 3; k++ {
					w.sock.perturb()
				}
				if w.writeOn(x) != 0 {
					mu.Lock()
					fails++
					mu.Unlock()
				}
			}(x)
		}
		e, _ := w.doClose(hs)
		wg.Wait()
		return fmt.Sprintf("%d,%d,%d", e, w.closes(), fails)
	case "write":
		h := ints(f[1])[0]
		if h < 0 || h >= len(w.handles) || w.mode == "tcp" {
			return "9"
		}
		return fmt.Sprint(w.writeOn(h))
	case "dl":
		// SetReadDeadline: none / far in the future / in the past (no fine-grained timing anywhere)
		h, d := ints(f[1])[0], ints(f[2])[0]
		if h < 0 || h >= len(w.handles) || w.expect[h] != 0 {
			return "9" // no such handle; or a read is in progress on it (which deadline it sees would be a race)
		}
		var t time.Time
		switch d {
		case 1:
			t = time.Now().Add(10 * time.Minute)
		case 2:
			t = time.Now().Add(-time.Minute)
		}
		err := w.handles[h].SetReadDeadline(t)
		if err == nil {
			w.dl[h] = d
		}
		return fmt.Sprint(errClass(err))
	case "rstart":
		h := ints(f[1])[0]
		if h < 0 || h >= len(w.handles) || w.expect[h] != 0 {
			return "9"
		}
		slot := w.reads[h]
		slot.done = make(chan int, 1)
		pc := w.handles[h]
		go func() {
			buf := make([]byte, 64)
			var err error
			n := 0
			func() {
				defer func() {
					if p := recover(); p != nil {
						err = fmt.Errorf("PANIC %v", p)
					}
				}()
				if apr, ok := pc.(ice.AddrPortReaderWriter); ok && h%2 == 1 {
					n, _, err = apr.ReadFromAddrPort(buf)
				} else {
					n, _, err = pc.ReadFrom(buf)
				}
			}()
			switch {
			case err == nil:
				seq := 0
				if n >= 2 {
					seq = int(buf[0])<<8 | int(buf[1])
				}
				slot.done <- 1000 + seq // data: datagram number seq
			case errors.Is(err, io.ErrClosedPipe):
				slot.done <- 2
			case errors.Is(err, io.EOF):
				slot.done <- 3
			case errors.Is(err, os.ErrDeadlineExceeded):
				slot.done <- 5
			default:
				slot.done <- 4
			}
		}()
		// wait until the reader is parked in the underlying (or has returned), so that the order of
		// reads and deliveries in the history is the order the connection sees
		switch {
		case w.closed[h] || w.uclosed:
			w.expect[h] = 2 // fails at once (a handle requested after the last close reads io.EOF)
		case w.queued > 0:
			w.queued--
			w.expect[h] = 2
		case w.dl[h] == 2:
			w.expect[h] = 2 // deadline in the past: returns a timeout at once
		default:
			w.expect[h] = 1
		}
		// Let the read get where the history says it is before the history goes on: an immediate result
		// has arrived (watchdog), a blocking read is parked in the underlying.
		if w.expect[h] == 2 {
			for t0 := time.Now(); time.Since(t0) < watchdog && len(slot.done) == 0; {
				time.Sleep(20 * time.Microsecond)
			}
		} else if _, ok := ice.VerifSharedReadWaiting(pc); ok {
			want := w.blocked + 1
			for t0 := time.Now(); time.Since(t0) < time.Second; {
				if n, _ := ice.VerifSharedReadWaiting(pc); n >= want || len(slot.done) == 1 {
					break
				}
				time.Sleep(20 * time.Microsecond)
			}
		} else {
			time.Sleep(300 * time.Microsecond)
		}
		if w.expect[h] == 1 {
			w.blocked++
		}
		return "0"
	case "rpoll":
		h := ints(f[1])[0]
		if h < 0 || h >= len(w.handles) || w.expect[h] == 0 {
			return "9"
		}
		wait := 2 * time.Millisecond
		if w.expect[h] == 2 {
			wait = watchdog
		}
		select {
		case r := <-w.reads[h].done:
			if w.expect[h] == 1 {
				w.blocked--
			}
			w.expect[h] = 0
			if r >= 1000 {
				return fmt.Sprintf("1,%d", r-1000)
			}
			return fmt.Sprint(r)
		case <-time.After(wait):
			return "0"
		}
	case "deliver":
		if w.mode != "wrap" || w.blocked >= 2 {
			return "9" // only the wrapped underlying exposes delivery; with two blocked readers the receiver is not determined
		}
		allClosed := len(w.closed) > 0
		for _, c := range w.closed {
			allClosed = allClosed && c
		}
		if allClosed {
			return "0"
		}
		w.delivs++
		_ = w.under.Deliver([]byte{byte(w.delivs >> 8), byte(w.delivs), 'c', '1', '3'}, remoteAP)
		delivered := false
		for h := range w.expect {
			if w.expect[h] == 1 {
				w.expect[h] = 2
				w.blocked--
				delivered = true
				// let the parked reader take the datagram before the history goes on
				for t0 := time.Now(); time.Since(t0) < time.Second && len(w.reads[h].done) == 0; {
					time.Sleep(20 * time.Microsecond)
				}
				break
			}
		}
		if !delivered {
			w.queued++
		}
		return "0"
	}
	return "9"
}

func runCase(toks []string) []string {
	// toks[0] = mode, toks[1] = ap0|ap1, toks[2] = pt<seed>,<level>, then operations
	pt := strings.Split(strings.TrimPrefix(toks[2], "pt"), ",")
	seed, _ := strconv.Atoi(pt[0])
	level, _ := strconv.Atoi(pt[1])
	w := newWorld(toks[0], toks[1] == "ap1", int64(seed), level)
	var obs []string
	for _, t := range toks[3:] {
		obs = append(obs, w.op(t))
	}
	w.teardown()
	return obs
}

func join(xs []int) string {
	if len(xs) == 0 {
		return "-"
	}
	var s []string
	for _, x := range xs {
		s = append(s, strconv.Itoa(x))
	}
	return strings.Join(s, ",")
}

// generator: mostly-valid histories (the shadow keeps at least one handle open when requesting
// another one), plus a malformed stream (operations on closed / unknown handles, double closes,
// a handle requested after the last close).
func gen(rng *rand.Rand, thorough bool) (toks []string, tag string) {
	mode := []string{"wrap", "wrap", "wrap", "udp", "tcp"}[rng.Intn(5)]
	malformed := rng.Intn(100) < 18
	toks = []string{mode, fmt.Sprintf("ap%d", rng.Intn(2)), fmt.Sprintf("pt%d,%d", rng.Intn(1<<30), rng.Intn(4))}
	tag = mode
	if malformed {
		tag += ",malformed"
	}
	n := 6 + rng.Intn(18)
	if thorough {
		n = 8 + rng.Intn(40)
	}
	var closed []bool
	var rstate []int // 0 none 1 started
	open := func() []int {
		var o []int
		for h, c := range closed {
			if !c {
				o = append(o, h)
			}
		}
		return o
	}
	anyH := func() int {
		if malformed && rng.Intn(4) == 0 {
			return len(closed) + rng.Intn(2)
		}
		if len(closed) == 0 {
			return 0
		}
		return rng.Intn(len(closed))
	}
	toks = append(toks, "new")
	closed, rstate = append(closed, false), append(rstate, 0)
	resurrected := false
	deadlines := false
	for k := 0; k < n; k++ {
		o := open()
		r := rng.Intn(100)
		switch {
		case r < 18:
			if len(o) == 0 && !(malformed && mode == "wrap" && rng.Intn(3) == 0) {
				continue
			}
			if len(o) == 0 {
				resurrected = true
			}
			if len(closed) >= 8 {
				continue
			}
			toks = append(toks, "new")
			closed, rstate = append(closed, false), append(rstate, 0)
		case r < 30:
			h := anyH()
			if !malformed && len(o) > 0 {
				h = o[rng.Intn(len(o))]
			}
			toks = append(toks, fmt.Sprintf("close:%d", h))
			if h < len(closed) {
				closed[h] = true
			}
		case r < 42:
			if len(o) == 0 {
				continue
			}
			var hs []int
			for _, h := range o {
				if rng.Intn(2) == 0 {
					hs = append(hs, h)
				}
			}
			if malformed && len(closed) > 0 {
				hs = append(hs, rng.Intn(len(closed)))
			}
			if len(hs) == 0 {
				hs = o[:1]
			}
			if mode != "tcp" && rng.Intn(2) == 0 {
				var ws []int
				for h := range closed {
					if rng.Intn(2) == 0 {
						ws = append(ws, h)
					}
				}
				toks = append(toks, fmt.Sprintf("pclosew:%s:%s", join(hs), join(ws)))
			} else {
				toks = append(toks, fmt.Sprintf("pclose:%s", join(hs)))
			}
			for _, h := range hs {
				closed[h] = true
			}
		case r < 60:
			if mode == "tcp" {
				continue
			}
			toks = append(toks, fmt.Sprintf("write:%d", anyH()))
		case r < 70:
			// a read deadline: none, far in the future (a pending read must still die with its handle) or in the past
			toks = append(toks, fmt.Sprintf("dl:%d:%d", anyH(), []int{0, 1, 1, 1, 2}[rng.Intn(5)]))
			deadlines = true
		case r < 82:
			h := anyH()
			toks = append(toks, fmt.Sprintf("rstart:%d", h))
			if h < len(rstate) {
				rstate[h] = 1
			}
		case r < 94:
			h := anyH()
			toks = append(toks, fmt.Sprintf("rpoll:%d", h))
		default:
			toks = append(toks, "deliver")
		}
	}
	// finish: poll every read, close everything, poll again
	for h := range closed {
		if rng.Intn(2) == 0 {
			toks = append(toks, fmt.Sprintf("rpoll:%d", h))
		}
	}
	if rng.Intn(4) != 0 {
		o := open()
		if len(o) > 0 {
			toks = append(toks, fmt.Sprintf("pclose:%s", join(o)))
		}
		for h := range closed {
			toks = append(toks, fmt.Sprintf("rpoll:%d", h))
		}
	}
	if resurrected {
		tag += ",new-after-last-close"
	}
	if deadlines {
		tag += ",deadline"
	}
	return toks, tag
}

// genDeadline: short histories around a pending read that carries a read deadline when its handle
// (or a sibling) is closed.
func genDeadline(rng *rand.Rand) (toks []string, tag string) {
	mode := []string{"wrap", "wrap", "udp", "tcp"}[rng.Intn(4)]
	toks = []string{mode, fmt.Sprintf("ap%d", rng.Intn(2)), fmt.Sprintf("pt%d,%d", rng.Intn(1<<30), rng.Intn(4))}
	a, b := 0, 1
	if rng.Intn(2) == 0 {
		a, b = 1, 0
	}
	A, B := fmt.Sprint(a), fmt.Sprint(b)
	switch rng.Intn(4) {
	case 0: // the closed handle's pending read has a far deadline; the sibling's pending read gets the next datagram
		toks = append(toks, "new", "new", "dl:"+A+":1", "rstart:"+A, "rstart:"+B, "close:"+A, "rpoll:"+A, "deliver", "rpoll:"+B, "rpoll:"+A)
	case 1: // as 0, the closed handle's read is collected only after the delivery
		toks = append(toks, "new", "new", "dl:"+A+":1", "rstart:"+A, "close:"+A, "deliver", "rstart:"+B, "rpoll:"+B, "rpoll:"+A)
	case 2: // a deadline in the past times the read out and touches nobody else
		toks = append(toks, "new", "new", "dl:"+A+":2", "rstart:"+B, "rstart:"+A, "rpoll:"+A, "rpoll:"+B, "write:"+B, "deliver", "rpoll:"+B, "dl:"+A+":0", "rstart:"+A, "rpoll:"+A)
	default: // the sibling with the far deadline stays usable when the other handle closes
		toks = append(toks, "new", "new", "dl:"+B+":1", "rstart:"+B, "rstart:"+A, "close:"+A, "rpoll:"+A, "rpoll:"+B, "deliver", "rpoll:"+B, "close:"+B, "rpoll:"+B)
	}
	return toks, mode + ",deadline"
}

func run(c *Ctx) error {
	c.Rule = "a case is a history of 7-50 handle operations on one underlying connection (modes wrap 60% / udp 20% / tcp 20%; AddrPort handles 50%; seeded Gosched/us-sleep perturbation in the socket and in the underlying's Close): new, close, concurrent closes (with or without concurrent sibling writes), write, SetReadDeadline (none / +10 min / -1 min), blocking read start / poll, delivery of numbered datagrams; 40 (thorough 200) short histories around a pending read that carries a deadline when its handle or a sibling closes; 18% malformed histories (unknown or closed handles, double close, a handle requested after the last close). Non-trivial = the history closes at least one handle while another is still open and later closes the last one."
	if c.Replay != "" {
		for _, t := range c.ReplayLines() {
			emitCase(c, t, "replay")
		}
		return nil
	}
	n := 1500
	if c.Tier != "quick" {
		n = 12000
	}
	nd := 40
	if c.Tier != "quick" {
		nd = 200
	}
	for k := 0; k < nd; k++ {
		toks, tag := genDeadline(c.Rng)
		emitCase(c, toks, tag)
	}
	for k := 0; k < n; k++ {
		toks, tag := gen(c.Rng, c.Tier != "quick")
		emitCase(c, toks, tag)
	}
	return nil
}

func emitCase(c *Ctx, toks []string, tag string) {
	if tag == "replay" {
		tag = toks[0]
		for _, t := range toks {
			if strings.HasPrefix(t, "dl:") {
				tag = toks[0] + ",deadline"
				break
			}
		}
	}
	obs := runCase(toks)
	// non-trivial: some close left a sibling open, and the underlying got closed in the end
	partial, final := false, false
	for i, t := range toks[3:] {
		if strings.HasPrefix(t, "close") || strings.HasPrefix(t, "pclose") {
			f := strings.Split(obs[i], ",")
			if len(f) >= 2 && f[1] == "0" {
				partial = true
			}
			if len(f) >= 2 && f[1] == "1" {
				final = true
			}
		}
	}
	c.Count(tag)
	c.Count(fmt.Sprintf("ops:%d0s", len(toks)/10))
	c.Emit(tag, toks, obs, partial && final)
}
