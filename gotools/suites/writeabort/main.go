package main

// suite "writeabort" (C13): the write-abort protocol of UDPMuxDefault (writeState word) under a
// harness-owned fake shared socket.
//
// A case is a SCRIPT: the controller starts writers / aborters / context cancels on a real
// UDPMuxDefault whose UDPConn is the fake, and steers the schedule only through the fake
// (WriteTo holds, SetWriteDeadline holds / failures, seeded Gosched / microsecond sleeps) and
// GOMAXPROCS.  Everything the fake and the API boundary see is logged in one total order; at
// quiescence the harness reads writeState, the fake's deadline, and performs a probe write.
// The extracted acceptor must explain the log by a run of the Coq model; the extracted monitor
// states C13 on the log.

import (
	"context"
	"errors"
	"fmt"
	"math/rand"
	"net"
	"net/netip"
	"os"
	"runtime"
	"strconv"
	"strings"
	"sync"
	"time"

	ice "github.com/pion/ice/v4"
	"github.com/pion/logging"

	. "verif/gotools/hlib"
)

func main() { Main("writeabort", run) }

var errFake = errors.New("fake: SetWriteDeadline failed")

// ---- the fake shared socket ----------------------------------------------------------------

type callPlan struct {
	fail           bool
	before, after  chan struct{} // nil: no hold
	atBefore, atAf chan struct{} // closed when the call reached the hold
}

type wcfg struct {
	gate     int // 0 pass, 1 hold until released or the deadline is armed, 2 hold until released
	rel      chan struct{}
	nest     int // aborter id run from inside the socket write (same goroutine), 0: none
	in       chan struct{}
	nestDone chan struct{}
}

type fakeSock struct {
	mu       sync.Mutex
	log      []string
	logging  bool
	armed    bool
	armedCh  chan struct{}
	armCalls int
	clrCalls int
	armPlan  map[int]*callPlan
	clrPlan  map[int]*callPlan
	writers  map[int]*wcfg
	rng      *rand.Rand
	level    int
	drain    chan struct{}
	closed   chan struct{}
	closeOne sync.Once
	nested   func(j int, done chan struct{})
}

func (s *fakeSock) ev(format string, a ...any) {
	if s.logging {
		s.log = append(s.log, fmt.Sprintf(format, a...))
	}
}

// seeded schedule perturbation inside the fake
func (s *fakeSock) perturb() {
	if s.level == 0 {
		return
	}
	s.mu.Lock()
	r := s.rng.Intn(100)
	d := s.rng.Intn(40)
	s.mu.Unlock()
	switch {
	case r < 20*s.level:
		runtime.Gosched()
	case r < 28*s.level:
		time.Sleep(time.Duration(d) * time.Microsecond)
	}
}

func (s *fakeSock) ReadFrom([]byte) (int, net.Addr, error) {
	<-s.closed
	return 0, nil, net.ErrClosed
}
func (s *fakeSock) Close() error                    { s.closeOne.Do(func() { close(s.closed) }); return nil }
func (s *fakeSock) LocalAddr() net.Addr             { return &net.UDPAddr{IP: net.IPv4(127, 0, 0, 1), Port: 7000} }
func (s *fakeSock) SetDeadline(time.Time) error     { return nil }
func (s *fakeSock) SetReadDeadline(time.Time) error { return nil }

func (s *fakeSock) hold(gate, at chan struct{}) {
	if gate == nil {
		return
	}
	if at != nil {
		close(at)
	}
	select {
	case <-gate:
	case <-s.drain:
	}
}

func (s *fakeSock) SetWriteDeadline(t time.Time) error {
	zero := t.IsZero()
	s.perturb()
	s.mu.Lock()
	var plan *callPlan
	if zero {
		s.clrCalls++
		plan = s.clrPlan[s.clrCalls]
	} else {
		s.armCalls++
		plan = s.armPlan[s.armCalls]
	}
	s.mu.Unlock()
	if plan == nil {
		plan = &callPlan{}
	}
	s.hold(plan.before, plan.atBefore)
	s.mu.Lock()
	name := "arm"
	if zero {
		name = "clr"
	}
	if plan.fail {
		s.ev("%s0", name)
		s.mu.Unlock()
		return errFake
	}
	s.armed = !zero
	if s.armed {
		close(s.armedCh)
		s.armedCh = make(chan struct{})
	}
	s.ev("%s1", name)
	s.mu.Unlock()
	s.hold(plan.after, plan.atAf)
	s.perturb()
	return nil
}

func (s *fakeSock) write(b []byte) (int, error) {
	id := 0
	if len(b) > 0 {
		id = int(b[0])
	}
	s.perturb()
	s.mu.Lock()
	s.ev("si%d", id)
	w := s.writers[id]
	s.mu.Unlock()
	if w != nil {
		if w.in != nil {
			close(w.in)
		}
		if w.nest != 0 && s.nested != nil {
			s.nested(w.nest, w.nestDone)
		}
		switch w.gate {
		case 1:
			for {
				s.mu.Lock()
				armed, ch := s.armed, s.armedCh
				s.mu.Unlock()
				if armed {
					break
				}
				released := false
				select {
				case <-w.rel:
					released = true
				case <-s.drain:
					released = true
				case <-ch:
				}
				if released {
					break
				}
			}
		case 2:
			select {
			case <-w.rel:
			case <-s.drain:
			}
		}
	}
	s.perturb()
	s.mu.Lock()
	ok := !s.armed
	s.ev("so%d,%s", id, B(ok))
	s.mu.Unlock()
	if !ok {
		return 0, os.ErrDeadlineExceeded
	}
	return len(b), nil
}

func (s *fakeSock) WriteTo(b []byte, _ net.Addr) (int, error) { return s.write(b) }

// fakeSockAP additionally offers netip.AddrPort I/O, so that the mux hands out sharedAddrPortConn
// handles and writes go through writeToUDPAddrPort.
type fakeSockAP struct{ *fakeSock }

func (s fakeSockAP) ReadFromAddrPort([]byte) (int, netip.AddrPort, error) {
	<-s.closed
	return 0, netip.AddrPort{}, net.ErrClosed
}
func (s fakeSockAP) WriteToAddrPort(b []byte, _ netip.AddrPort) (int, error) { return s.write(b) }

// ---- one case ------------------------------------------------------------------------------

type thread struct {
	done   chan struct{}
	nested bool // runs inside a writer's socket write, if that write gets there at all
}

type runner struct {
	sock     *fakeSock
	mux      *ice.UDPMuxDefault
	handles  []net.PacketConn
	writers  map[int]*thread
	aborters map[int]*thread
	cancels  map[int]context.CancelFunc
	ap       bool
}

var remote = &net.UDPAddr{IP: net.IPv4(192, 0, 2, 1), Port: 4000}
var remoteAP = netip.MustParseAddrPort("192.0.2.1:4000")

func atoi(s string) int {
	v, err := strconv.Atoi(s)
	if err != nil {
		panic(fmt.Sprintf("bad number %q", s))
	}
	return v
}

func waitCh(ch chan struct{}, d time.Duration) bool {
	if ch == nil {
		return false
	}
	select {
	case <-ch:
		return true
	case <-time.After(d):
		return false
	}
}

func (r *runner) logEv(format string, a ...any) {
	r.sock.mu.Lock()
	r.sock.ev(format, a...)
	r.sock.mu.Unlock()
}

func (r *runner) abort(j int, kind string, h int) {
	r.logEv("ac%d", j)
	var err error
	func() {
		defer func() {
			if p := recover(); p != nil {
				err = fmt.Errorf("PANIC %v", p)
			}
		}()
		if kind == "i" {
			err = ice.VerifAbortIO(r.handles[h])
		} else {
			err, _ = ice.VerifAbortWrite(r.handles[h])
		}
	}()
	if kind == "i" {
		// abortIO also reports SetDeadline / Close errors of the handle: abortWrite's own result is not visible
		r.logEv("ar%d,x", j)
	} else {
		r.logEv("ar%d,%s", j, B(err == nil))
	}
}

// pinCtx: a cancellable context whose cancellation lands right after the after-th observation of Err()
// (that observation still sees "not cancelled"): places a cancel between two consecutive checks of
// writeToContext / startWriteContext, a window no wall-clock schedule hits reliably.
type pinCtx struct {
	context.Context
	mu     sync.Mutex
	seen   int
	after  int
	cancel func()
}

func (c *pinCtx) Err() error {
	err := c.Context.Err()
	c.mu.Lock()
	c.seen++
	fire := c.seen == c.after
	c.mu.Unlock()
	if fire {
		c.cancel()
	}
	return err
}

func (r *runner) write(i int, mode string, h int, ctx context.Context) {
	r.logEv("wc%d", i)
	func() {
		defer func() { _ = recover() }()
		buf := []byte{byte(i), 'c', '1', '3'}
		switch {
		case mode == "c" || strings.HasPrefix(mode, "k"):
			_, _ = ice.VerifMuxWriteToContext(r.mux, ctx, buf, remote)
		case mode == "a" && r.ap:
			if apw, ok := r.handles[h].(ice.AddrPortReaderWriter); ok {
				_, _ = apw.WriteToAddrPort(buf, remoteAP)
			} else {
				_, _ = r.handles[h].WriteTo(buf, remote)
			}
		default:
			_, _ = r.handles[h].WriteTo(buf, remote)
		}
	}()
	r.logEv("wr%d", i)
}

var muxStackBuf = make([]byte, 1<<16)

// muxGoroutines counts the context-watcher goroutines of writeToContext that are still alive.
func muxGoroutines() int {
	for {
		n := runtime.Stack(muxStackBuf, true)
		if n < len(muxStackBuf) {
			cnt := 0
			for _, blk := range strings.Split(string(muxStackBuf[:n]), "\n\n") {
				if k := strings.Index(blk, "created by "); k >= 0 {
					blk = blk[:k]
				}
				// only the watcher goroutines writeToContext starts for cancellable contexts (the read worker lives as long as the mux)
				if strings.Contains(blk, "(*UDPMuxDefault).writeToContext.func") && !strings.Contains(strings.SplitN(blk, "\n", 2)[0], "[running]") {
					cnt++
				}
			}
			return cnt
		}
		muxStackBuf = make([]byte, 2*len(muxStackBuf))
	}
}

func decodeWord(v uint64) (cnt uint64, blk, dl bool) {
	b, d, m := ice.VerifMuxWriteStateBits()
	return v & m, v&b != 0, v&d != 0
}

// runScript executes one script on a fresh mux and returns the observation tokens.
func runScript(script []string) (obs []string, info map[string]bool) {
	info = map[string]bool{}
	prevProcs := runtime.GOMAXPROCS(0)
	defer runtime.GOMAXPROCS(prevProcs)

	sock := &fakeSock{logging: true, armedCh: make(chan struct{}), armPlan: map[int]*callPlan{}, clrPlan: map[int]*callPlan{},
		writers: map[int]*wcfg{}, drain: make(chan struct{}), closed: make(chan struct{}), rng: rand.New(rand.NewSource(1))}
	r := &runner{sock: sock, writers: map[int]*thread{}, aborters: map[int]*thread{}, cancels: map[int]context.CancelFunc{}}
	nHandles := 2
	var conn net.PacketConn = sock
	ops := script
	for len(ops) > 0 {
		t := ops[0]
		switch {
		case t == "ap1":
			r.ap = true
			conn = fakeSockAP{sock}
		case t == "ap0":
		case strings.HasPrefix(t, "pt"):
			f := strings.Split(t[2:], ",")
			sock.rng = rand.New(rand.NewSource(int64(atoi(f[0]))))
			sock.level = atoi(f[1])
		case strings.HasPrefix(t, "H"):
			nHandles = atoi(t[1:])
		default:
			goto start
		}
		ops = ops[1:]
	}
start:
	lf := logging.NewDefaultLoggerFactory()
	lf.DefaultLogLevel = logging.LogLevelDisabled
	r.mux = ice.NewUDPMuxDefault(ice.UDPMuxParams{UDPConn: conn, Logger: lf.NewLogger("ice")})
	for h := 0; h < nHandles; h++ {
		pc, err := r.mux.GetConn(fmt.Sprintf("ufrag%d", h/2), sock.LocalAddr())
		if err != nil {
			panic(err)
		}
		r.handles = append(r.handles, pc)
	}
	time.Sleep(200 * time.Microsecond)
	baseline := runtime.NumGoroutine()
	sock.nested = func(j int, done chan struct{}) { r.abort(j, "w", 0); close(done) }

	short := 300 * time.Millisecond
	for _, t := range ops {
		switch {
		case strings.HasPrefix(t, "PA") || strings.HasPrefix(t, "PC"):
			f := strings.Split(t[2:], ",")
			p := &callPlan{fail: f[1] == "1"}
			if f[2] == "1" {
				p.before, p.atBefore = make(chan struct{}), make(chan struct{})
			}
			if f[3] == "1" {
				p.after, p.atAf = make(chan struct{}), make(chan struct{})
			}
			sock.mu.Lock()
			if t[1] == 'A' {
				sock.armPlan[atoi(f[0])] = p
				if p.fail {
					info["armfail"] = true
				}
			} else {
				sock.clrPlan[atoi(f[0])] = p
				if p.fail {
					info["clearfail"] = true
				}
			}
			sock.mu.Unlock()
		case strings.HasPrefix(t, "GA") || strings.HasPrefix(t, "GC") || strings.HasPrefix(t, "XA") || strings.HasPrefix(t, "XC"):
			f := strings.Split(t[2:], ",")
			sock.mu.Lock()
			plans := sock.armPlan
			if t[1] == 'C' {
				plans = sock.clrPlan
			}
			p := plans[atoi(f[0])]
			sock.mu.Unlock()
			if p == nil {
				continue
			}
			gate, at := p.before, p.atBefore
			if f[1] == "a" {
				gate, at = p.after, p.atAf
			}
			if t[0] == 'G' {
				if gate != nil {
					func() {
						defer func() { _ = recover() }() // double open
						close(gate)
					}()
				}
			} else {
				waitCh(at, short)
			}
		case strings.HasPrefix(t, "W"):
			f := strings.Split(t[1:], ",")
			i, mode, gate, nest, h, pre := atoi(f[0]), f[1], atoi(f[2]), atoi(f[3]), atoi(f[4])%nHandles, atoi(f[5])
			if r.writers[i] != nil || i <= 0 || i > 90 {
				continue
			}
			w := &wcfg{gate: gate, rel: make(chan struct{}), nest: nest, in: make(chan struct{})}
			th := &thread{done: make(chan struct{})}
			r.writers[i] = th
			if nest != 0 {
				if r.aborters[nest] != nil {
					w.nest = 0
				} else {
					r.aborters[nest] = &thread{done: make(chan struct{}), nested: true}
					w.nestDone = r.aborters[nest].done
				}
			}
			sock.mu.Lock()
			sock.writers[i] = w
			sock.mu.Unlock()
			var preTh *thread
			if pre != 0 && r.aborters[pre] == nil {
				preTh = &thread{done: make(chan struct{})}
				r.aborters[pre] = preTh
			}
			var ctx context.Context
			if mode == "c" {
				var cancel context.CancelFunc
				ctx, cancel = context.WithCancel(context.Background())
				r.cancels[i] = cancel
			}
			if strings.HasPrefix(mode, "k") {
				// the cancel is pinned after the k-th Err() observation; the log gets the cancel event at that point
				base, cancel := context.WithCancel(context.Background())
				wi := i
				ctx = &pinCtx{Context: base, after: atoi(mode[1:]), cancel: func() { r.logEv("cn%d", wi); cancel() }}
			}
			go func() {
				if preTh != nil {
					r.abort(pre, "w", h)
					close(preTh.done)
				}
				r.write(i, mode, h, ctx)
				close(th.done)
			}()
		case strings.HasPrefix(t, "R"):
			sock.mu.Lock()
			w := sock.writers[atoi(t[1:])]
			sock.mu.Unlock()
			if w != nil {
				func() {
					defer func() { _ = recover() }()
					close(w.rel)
				}()
			}
		case strings.HasPrefix(t, "A"):
			f := strings.Split(t[1:], ",")
			j, kind, h := atoi(f[0]), f[1], atoi(f[2])%nHandles
			if r.aborters[j] != nil || j <= 0 || j > 90 {
				continue
			}
			th := &thread{done: make(chan struct{})}
			r.aborters[j] = th
			go func() { r.abort(j, kind, h); close(th.done) }()
		case strings.HasPrefix(t, "C"):
			i := atoi(t[1:])
			if c := r.cancels[i]; c != nil {
				r.logEv("cn%d", i)
				c()
			}
		case strings.HasPrefix(t, "X"):
			sock.mu.Lock()
			w := sock.writers[atoi(t[1:])]
			sock.mu.Unlock()
			if w != nil {
				waitCh(w.in, short)
			}
		case strings.HasPrefix(t, "J"):
			if th := r.writers[atoi(t[1:])]; th != nil {
				waitCh(th.done, short)
			}
		case strings.HasPrefix(t, "K"):
			if th := r.aborters[atoi(t[1:])]; th != nil {
				waitCh(th.done, short)
			}
		case strings.HasPrefix(t, "Z"):
			time.Sleep(time.Duration(atoi(t[1:])) * 50 * time.Microsecond)
		case strings.HasPrefix(t, "M"):
			runtime.GOMAXPROCS(atoi(t[1:]))
		case t == "S":
			sock.mu.Lock()
			c, b, d := decodeWord(ice.VerifMuxWriteState(r.mux))
			sock.ev("sm%d,%s,%s", c, B(b), B(d))
			sock.mu.Unlock()
		}
	}
	// drain: open every hold, cancel nothing further, wait for everybody
	close(sock.drain)
	stuck := false
	for _, th := range r.writers {
		if !waitCh(th.done, 3*time.Second) {
			stuck = true
		}
	}
	for _, th := range r.aborters {
		if !th.nested && !waitCh(th.done, 3*time.Second) {
			stuck = true
		}
	}
	runtime.GOMAXPROCS(prevProcs)
	// watcher goroutines of context writes are done when the goroutine count is back at the baseline
	// (the process-wide count alone can drop to the baseline because an unrelated runtime goroutine exited:
	// the goroutines inside UDPMuxDefault code are counted from their stacks as well)
	for k := 0; k < 4000 && (runtime.NumGoroutine() > baseline || muxGoroutines() > 0); k++ {
		time.Sleep(250 * time.Microsecond)
	}
	if runtime.NumGoroutine() > baseline || muxGoroutines() > 0 {
		stuck = true
	}
	sock.mu.Lock()
	sock.logging = false
	log := append([]string{}, sock.log...)
	armed := sock.armed
	sock.mu.Unlock()
	cnt, blk, dl := decodeWord(ice.VerifMuxWriteState(r.mux))
	// probe write by another user of the mux (a fresh handle of another ufrag)
	probeOK := false
	if !stuck {
		res := make(chan error, 1)
		go func() {
			pc, err := r.mux.GetConn("probe", sock.LocalAddr())
			if err != nil {
				res <- err
				return
			}
			_, err = pc.WriteTo([]byte{0, 'p'}, remote)
			_ = pc.Close()
			res <- err
		}()
		select {
		case err := <-res:
			probeOK = err == nil
		case <-time.After(2 * time.Second):
			stuck = true
		}
	}
	for _, c := range r.cancels {
		c()
	}
	if !stuck {
		for _, h := range r.handles {
			_ = h.Close()
		}
		_ = r.mux.Close()
	}
	obs = append(obs, log...)
	obs = append(obs, "|", "fin", fmt.Sprint(cnt), B(blk), B(dl), B(armed), B(probeOK), B(stuck))
	return obs, info
}

// ---- generators ------------------------------------------------------------------------------

func genRand(rng *rand.Rand, thorough bool) (script []string, fam string) {
	ap := rng.Intn(2)
	script = append(script, fmt.Sprintf("ap%d", ap), fmt.Sprintf("pt%d,%d", rng.Intn(1<<30), rng.Intn(4)), fmt.Sprintf("H%d", 2+2*rng.Intn(2)))
	script = append(script, fmt.Sprintf("M%d", []int{1, 2, 4, 4}[rng.Intn(4)]))
	maxW := 3
	if thorough {
		maxW = 4
	}
	nW := 1 + rng.Intn(maxW)
	nA := rng.Intn(3)
	// failures of the arming call, decided per call occurrence
	for k := 1; k <= 4; k++ {
		if rng.Intn(100) < 22 {
			script = append(script, fmt.Sprintf("PA%d,1,0,0", k))
		}
	}
	if rng.Intn(100) < 6 {
		script = append(script, fmt.Sprintf("PC%d,1,0,0", 1+rng.Intn(2)))
	}
	type pend struct{ tok string }
	var todo []string
	held := []int{}
	ctxw := []int{}
	for i := 1; i <= nW; i++ {
		mode := []string{"p", "p", "a", "c", "c"}[rng.Intn(5)]
		if rng.Intn(100) < 12 {
			mode = []string{"k1", "k1", "k2", "k3"}[rng.Intn(4)]
		}
		gate := []int{0, 1, 1, 1, 2}[rng.Intn(5)]
		nest := 0
		if rng.Intn(100) < 15 {
			nest = 20 + i
		}
		todo = append(todo, fmt.Sprintf("W%d,%s,%d,%d,%d,0", i, mode, gate, nest, rng.Intn(4)))
		if gate != 0 {
			held = append(held, i)
		}
		if mode == "c" {
			ctxw = append(ctxw, i)
		}
	}
	for j := 1; j <= nA; j++ {
		kind := "w"
		if rng.Intn(100) < 20 {
			kind = "i"
		}
		todo = append(todo, fmt.Sprintf("A%d,%s,%d", j, kind, rng.Intn(4)))
	}
	for _, i := range ctxw {
		if rng.Intn(100) < 75 {
			todo = append(todo, fmt.Sprintf("C%d", i))
		}
	}
	for _, i := range held {
		if rng.Intn(100) < 70 {
			todo = append(todo, fmt.Sprintf("R%d", i))
		}
	}
	// random order, except that a writer's cancel / release come after its start
	started := map[string]bool{}
	for len(todo) > 0 {
		k := rng.Intn(len(todo))
		t := todo[k]
		if t[0] == 'C' || t[0] == 'R' {
			if !started[t[1:]] {
				continue
			}
		}
		if t[0] == 'W' {
			started[strings.Split(t[1:], ",")[0]] = true
		}
		script = append(script, t)
		todo = append(todo[:k], todo[k+1:]...)
		if rng.Intn(100) < 60 {
			script = append(script, fmt.Sprintf("Z%d", 1+rng.Intn(6)))
		}
	}
	return script, "rand"
}

// genStale: the schedule family around the waiter of clearWriteDeadlineAfterAbort.  An abort
// whose SetWriteDeadline(now) fails releases the blocked bit while the last writer of that abort
// may still be waiting for the deadline bit; variants continue with one or two further aborts.
func genStale(rng *rand.Rand) (script []string, fam string) {
	variant := rng.Intn(4) // 0: late Store(0) after a later arming; 1: Store(0) between CAS and arming; 2: count sample; 3: control (no failure)
	fail := 1
	if variant == 3 {
		fail = 0
	}
	ap := rng.Intn(2)
	mode := []string{"p", "a"}[rng.Intn(2)]
	script = []string{fmt.Sprintf("ap%d", ap), "pt1,0", "H4", "M1"}
	script = append(script, fmt.Sprintf("PA1,%d,1,0", fail))
	switch variant {
	case 0, 3:
		script = append(script, "PC1,0,0,1")
	case 1:
		script = append(script, "PC1,0,0,1", "PA3,0,1,0")
	}
	if rng.Intn(2) == 0 {
		script = append(script, "W9,p,0,0,3,0", "J9") // a bystander before
	}
	script = append(script,
		fmt.Sprintf("W1,%s,2,0,0,0", mode), "X1",
		// one goroutine: abort 1 (owns blocked, sits in SetWriteDeadline(now)), afterwards writer 2 whose
		// socket write runs abort 12
		fmt.Sprintf("W2,%s,2,12,2,1", mode), "XA1,b",
		"R1", "Z6", // writer 1 leaves the socket: last writer, waits in clearWriteDeadlineAfterAbort
		"GA1,b", // the arming call returns (fails in variants 0..2)
	)
	switch variant {
	case 0, 3:
		script = append(script, "XC1,a", "R2", "J2",
			fmt.Sprintf("W3,%s,2,13,1,0", mode), "X3", "K13", // third abort arms the deadline
			"GC1,a", "J1", // the waiter of the first abort stores 0
			"R3", "J3")
	case 1:
		script = append(script, "XC1,a", "R2", "J2",
			fmt.Sprintf("W3,%s,2,13,1,0", mode), "X3", "XA3,b", // third abort owns blocked, not armed yet
			"GC1,a", "J1", "GA3,b", "K13", "R3", "J3")
	case 2:
		script = append(script, "X2", "K12", "J1", "S", "R2", "J2")
	}
	if rng.Intn(2) == 0 {
		script = append(script, "W8,p,0,0,2,0", "J8") // a bystander after
	}
	return script, "stale"
}

// variant of clearWriteAbortState in the tree under test, determined by a forced schedule: the
// last writer waits in clearWriteDeadlineAfterAbort while the abort's SetWriteDeadline(now) fails.
// The code as it is releases the blocked bit (no clearing call follows); the code with
// findings/proposed/C13-stale-deadline-clearer.diff hands the abort over to the waiting writer,
// which then calls SetWriteDeadline(time.Time{}).  Token vP / vH, first token of every case.
var variantTok = "vP"

func probeVariant() string {
	obs, _ := runScript([]string{"ap0", "pt1,0", "H2", "M1", "PA1,1,1,0", "W1,p,2,0,0,0", "X1", "A1,w,0", "XA1,b", "R1", "Z6", "GA1,b", "K1", "J1"})
	sawFail := false
	for _, e := range obs {
		if e == "arm0" {
			sawFail = true
		}
		if sawFail && strings.HasPrefix(e, "clr") {
			return "vH"
		}
		if e == "|" {
			break
		}
	}
	return "vP"
}

func run(c *Ctx) error {
	variantTok = probeVariant()
	c.Count("variant:" + variantTok)
	c.Rule = "a case is a schedule script on a fresh UDPMuxDefault over the fake socket. rand: 1-4 writers (handle WriteTo / WriteToAddrPort / writeToContext, socket write passing, blocking until deadline, or blocking until released), 0-2 aborters (abortWrite through the handle or candidateBase.abortIO), context cancels (incl. cancels pinned right after the k-th ctx.Err() observation of a writer, k = 1..3: between admission and the re-check), arming failures decided per SetWriteDeadline(now) occurrence (22%), clearing failures (6%), seeded Gosched/us-sleep perturbation inside the fake, GOMAXPROCS 1/2/4. stale: gate-forced schedules around the waiter of clearWriteDeadlineAfterAbort (3 writers, 3-4 aborts, first arming fails; control variant without failure). Non-trivial = at least one abort armed or tried to arm the deadline while a writer was in flight (arm event in the log)."
	if c.Replay != "" {
		for _, t := range c.ReplayLines() {
			emit(c, t, "replay")
		}
		return nil
	}
	nRand, nStale := 260, 24
	if c.Tier != "quick" {
		nRand, nStale = 3000, 150
	}
	for k := 0; k < nStale; k++ {
		s, fam := genStale(c.Rng)
		emit(c, s, fam)
	}
	for k := 0; k < nRand; k++ {
		s, fam := genRand(c.Rng, c.Tier != "quick")
		emit(c, s, fam)
	}
	return nil
}

func emit(c *Ctx, script []string, fam string) {
	if len(script) > 0 && (script[0] == "vP" || script[0] == "vH") {
		script = script[1:] // a replayed case: the variant is determined afresh
	}
	obs, info := runScript(script)
	script = append([]string{variantTok}, script...)
	if fam == "replay" {
		fam = "rand"
		for _, t := range script {
			if strings.HasPrefix(t, "XC") || strings.HasPrefix(t, "GC") {
				fam = "stale"
			}
		}
	}
	tag := fam
	if info["armfail"] {
		tag += ",armfail"
	}
	if info["clearfail"] {
		tag += ",clearfail"
	}
	arms := 0
	for _, e := range obs {
		if strings.HasPrefix(e, "arm") {
			arms++
		}
	}
	c.Count(tag)
	c.Count(fmt.Sprintf("arm-events:%d", min(arms, 3)))
	c.Emit(tag, script, obs, arms > 0)
}
