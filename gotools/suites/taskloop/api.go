package main

import (
	"fmt"
	"net"
	"sync"
	"time"

	ice "github.com/pion/ice/v4"

	. "verif/gotools/hlib"
)

// "api" cases of suite taskloop (C10, public API part): on a live Agent a harness-owned task
// occupies the task loop (it snapshots the loop-owned state, parks, and snapshots again when
// released).  While it is parked one public method is called from another goroutine.
// Observation: did the call return while the loop was occupied, and did the loop-owned state
// change under the feet of the running task.  A method that reads or writes loop-owned state
// must wait for the loop; a method that returns while the task runs must not have changed it.

type parkedConn struct {
	once   sync.Once
	closed chan struct{}
	addr   net.Addr
}

func newParkedConn(port int) *parkedConn {
	return &parkedConn{closed: make(chan struct{}), addr: &net.UDPAddr{IP: net.IPv4(10, 0, 0, 1), Port: port}}
}
func (p *parkedConn) ReadFrom([]byte) (int, net.Addr, error) {
	<-p.closed
	return 0, nil, net.ErrClosed
}
func (p *parkedConn) WriteTo(b []byte, _ net.Addr) (int, error) { return len(b), nil }
func (p *parkedConn) Close() error                              { p.once.Do(func() { close(p.closed) }); return nil }
func (p *parkedConn) LocalAddr() net.Addr                       { return p.addr }
func (p *parkedConn) SetDeadline(time.Time) error               { return nil }
func (p *parkedConn) SetReadDeadline(time.Time) error           { return nil }
func (p *parkedConn) SetWriteDeadline(time.Time) error          { return nil }

type apiEnv struct {
	a             *ice.Agent
	local, remote ice.Candidate
}

func newAPIEnv() (*apiEnv, error) {
	a, err := ice.NewAgentWithOptions(
		ice.WithRenomination(func() uint32 { return 7 }),
		ice.WithMulticastDNSMode(ice.MulticastDNSModeDisabled),
		ice.WithNetworkTypes([]ice.NetworkType{ice.NetworkTypeUDP4}),
	)
	if err != nil {
		return nil, err
	}
	ice.VerifTLSetControlling(a, true)
	local, err := ice.NewCandidateHost(&ice.CandidateHostConfig{Network: "udp", Address: "10.0.0.1", Port: 4000, Component: 1})
	if err != nil {
		return nil, err
	}
	if err := ice.VerifTLAddLocal(a, local, newParkedConn(4000)); err != nil {
		return nil, err
	}
	remote, err := ice.NewCandidateHost(&ice.CandidateHostConfig{Network: "udp", Address: "10.0.0.2", Port: 5000, Component: 1})
	if err != nil {
		return nil, err
	}
	if err := a.AddRemoteCandidate(remote); err != nil {
		return nil, err
	}
	if err := a.SetRemoteCredentials("remoteufrag", "remotepasswordremotepassword"); err != nil {
		return nil, err
	}
	// AddRemoteCandidate is asynchronous: wait until the pair exists
	deadline := time.Now().Add(5 * time.Second)
	for {
		var st ice.VerifTLState
		if err := ice.VerifTLRun(a, func() { st = ice.VerifTLSnapshot(a) }); err != nil {
			return nil, err
		}
		if st.Checklist >= 1 {
			break
		}
		if time.Now().After(deadline) {
			return nil, fmt.Errorf("api env: pair was not created")
		}
		time.Sleep(time.Millisecond)
	}
	return &apiEnv{a: a, local: local, remote: remote}, nil
}

type apiCall struct {
	name string
	f    func(e *apiEnv)
}

var apiCalls = []apiCall{
	{"GetLocalCandidates", func(e *apiEnv) { _, _ = e.a.GetLocalCandidates() }},
	{"GetRemoteCandidates", func(e *apiEnv) { _, _ = e.a.GetRemoteCandidates() }},
	{"GetGatheringState", func(e *apiEnv) { _, _ = e.a.GetGatheringState() }},
	{"GetLocalUserCredentials", func(e *apiEnv) { _, _, _ = e.a.GetLocalUserCredentials() }},
	{"GetRemoteUserCredentials", func(e *apiEnv) { _, _, _ = e.a.GetRemoteUserCredentials() }},
	{"SetRemoteCredentials", func(e *apiEnv) { _ = e.a.SetRemoteCredentials("otherufrag", "otherpasswordotherpassword12") }},
	{"GetCandidatePairsStats", func(e *apiEnv) { _ = e.a.GetCandidatePairsStats() }},
	{"GetSelectedCandidatePairStats", func(e *apiEnv) { _, _ = e.a.GetSelectedCandidatePairStats() }},
	{"GetLocalCandidatesStats", func(e *apiEnv) { _ = e.a.GetLocalCandidatesStats() }},
	{"GetRemoteCandidatesStats", func(e *apiEnv) { _ = e.a.GetRemoteCandidatesStats() }},
	{"UpdateOptions", func(e *apiEnv) { _ = e.a.UpdateOptions() }},
	{"GetSelectedCandidatePair", func(e *apiEnv) { _, _ = e.a.GetSelectedCandidatePair() }},
	{"OnCandidate", func(e *apiEnv) { _ = e.a.OnCandidate(func(ice.Candidate) {}) }},
	{"OnConnectionStateChange", func(e *apiEnv) { _ = e.a.OnConnectionStateChange(func(ice.ConnectionState) {}) }},
	{"OnSelectedCandidatePairChange", func(e *apiEnv) { _ = e.a.OnSelectedCandidatePairChange(func(ice.Candidate, ice.Candidate) {}) }},
	{"RenominateCandidate", func(e *apiEnv) { _ = e.a.RenominateCandidate(e.local, e.remote) }},
	{"Restart", func(e *apiEnv) { _ = e.a.Restart("", "") }}, // last: it drops the candidates
}

// apiCase runs one call against a parked loop.  wait is how long the call is given to return
// while the loop is occupied (a call that goes through the loop cannot return before release).
func apiCase(c *Ctx, e *apiEnv, call apiCall, wait time.Duration) error {
	entered, release, taskDone := make(chan struct{}), make(chan struct{}), make(chan struct{})
	var before, after ice.VerifTLState
	var runErr error
	go func() {
		runErr = ice.VerifTLRun(e.a, func() {
			before = ice.VerifTLSnapshot(e.a)
			close(entered)
			<-release
			after = ice.VerifTLSnapshot(e.a)
		})
		close(taskDone)
	}()
	select {
	case <-entered:
	case <-time.After(10 * time.Second):
		return fmt.Errorf("api: the loop did not accept the parking task")
	}
	returned := make(chan struct{})
	go func() {
		defer func() { _ = recover(); close(returned) }()
		call.f(e)
	}()
	whileHeld := false
	select {
	case <-returned:
		whileHeld = true
	case <-time.After(wait):
	}
	close(release)
	<-taskDone
	select {
	case <-returned:
	case <-time.After(10 * time.Second):
		c.Emit("api,"+call.name, []string{"api", Hex(call.name)}, []string{"TIMEOUT"}, true)
		return nil
	}
	if runErr != nil {
		return runErr
	}
	changed := before != after
	c.Count("api:" + call.name)
	c.Emit("api,"+call.name, []string{"api", Hex(call.name)}, []string{B(whileHeld), B(changed)}, true)
	return nil
}

func runAPI(c *Ctx, only string, rounds int) error {
	for r := 0; r < rounds; r++ {
		e, err := newAPIEnv()
		if err != nil {
			return err
		}
		for _, call := range apiCalls {
			if only != "" && call.name != only {
				continue
			}
			if err := apiCase(c, e, call, 150*time.Millisecond); err != nil {
				_ = e.a.Close()
				return err
			}
		}
		_ = e.a.Close()
	}
	return nil
}
