package main

import (
	"context"
	"errors"
	"fmt"
	"strconv"
	"strings"
	"time"

	ice "github.com/pion/ice/v4"

	. "verif/gotools/hlib"
)

// "api2" cases of suite taskloop (C10, public API part): PAIRS of public Agent methods called
// from two goroutines so that the calls overlap, on a fresh live agent.
//
//	held: a harness task occupies the loop; call 1 is issued and given time to park (on the loop,
//	      or on whatever lock it takes first); then call 2 is issued and given time; then the
//	      loop is released.  Both calls overlap for certain.
//	free: the loop is free; both goroutines are released by one barrier.
//
// Observation: the two results and the final state (remote / local credentials, connection
// state).  The extracted monitor (Model/ApiSeq.v) accepts iff SOME serial order of the two
// calls produces exactly these results (and this final state).
//
// ops:  SD<c> StartDial  SA<c> StartAccept  DI<c> Dial  AC<c> Accept (Dial/Accept with an already
// cancelled context: they return right after the start)   RS<c> Restart   SR<c> SetRemoteCredentials
// AR AddRemoteCandidate   CL Close   GC GracefulClose   GR GetRemoteUserCredentials
// GL GetLocalUserCredentials        <c> = credentials number 1..9

func credU(c int) string { return fmt.Sprintf("ufrag%dufrag%d", c, c) }
func credP(c int) string { return fmt.Sprintf("password%dpassword%dpassword%d", c, c, c) }

// credID maps a (ufrag, pwd) pair back: 0 = none or not one of ours (the agent's initial local
// credentials), 99 = torn (ufrag of one pair, password of another)
func credID(u, p string) int {
	iu, ip := 0, 0
	for c := 1; c <= 9; c++ {
		if u == credU(c) {
			iu = c
		}
		if p == credP(c) {
			ip = c
		}
	}
	if iu != ip {
		return 99
	}
	return iu
}

func errTok(err error) string {
	switch {
	case err == nil:
		return "ok"
	case errors.Is(err, ice.ErrMultipleStart):
		return "multi"
	case errors.Is(err, ice.ErrClosed):
		return "closed"
	case errors.Is(err, ice.ErrCanceledByCaller):
		return "ok" // Dial/Accept with a cancelled context: the start itself succeeded
	default:
		return "err"
	}
}

func api2Call(a *ice.Agent, op string) string {
	c := 0
	if len(op) > 2 {
		c, _ = strconv.Atoi(op[2:])
	}
	cancelled, cancel := context.WithCancel(context.Background())
	cancel()
	switch op[:2] {
	case "SD":
		_, err := a.StartDial(credU(c), credP(c))
		return errTok(err)
	case "SA":
		_, err := a.StartAccept(credU(c), credP(c))
		return errTok(err)
	case "DI":
		_, err := a.Dial(cancelled, credU(c), credP(c))
		return errTok(err)
	case "AC":
		_, err := a.Accept(cancelled, credU(c), credP(c))
		return errTok(err)
	case "RS":
		return errTok(a.Restart(credU(c), credP(c)))
	case "SR":
		return errTok(a.SetRemoteCredentials(credU(c), credP(c)))
	case "AR":
		cand, err := ice.NewCandidateHost(&ice.CandidateHostConfig{Network: "udp", Address: "10.0.0.2", Port: 5000, Component: 1})
		if err != nil {
			return "err"
		}
		return errTok(a.AddRemoteCandidate(cand))
	case "CL":
		return errTok(a.Close())
	case "GC":
		return errTok(a.GracefulClose())
	case "GR":
		u, p, err := a.GetRemoteUserCredentials()
		if err != nil {
			return errTok(err)
		}
		return "c" + strconv.Itoa(credID(u, p))
	case "GL":
		u, p, err := a.GetLocalUserCredentials()
		if err != nil {
			return errTok(err)
		}
		return "c" + strconv.Itoa(credID(u, p))
	}
	return "err"
}

func api2Case(c *Ctx, mode, op1, op2 string) error {
	a, err := ice.NewAgentWithOptions(
		ice.WithMulticastDNSMode(ice.MulticastDNSModeDisabled),
		ice.WithNetworkTypes([]ice.NetworkType{ice.NetworkTypeUDP4}),
	)
	if err != nil {
		return err
	}
	defer func() { _ = a.Close() }()
	r1, r2 := "", ""
	d1, d2 := make(chan struct{}), make(chan struct{})
	run := func(op string, res *string, done chan struct{}) {
		defer close(done)
		defer func() {
			if r := recover(); r != nil {
				*res = "PANIC"
			}
		}()
		*res = api2Call(a, op)
	}
	settle := func(done chan struct{}) {
		// give the call time to reach its parking point (or to return)
		select {
		case <-done:
		case <-time.After(3 * time.Millisecond):
		}
	}
	if mode == "held" {
		entered, release, taskDone := make(chan struct{}), make(chan struct{}), make(chan struct{})
		go func() {
			_ = ice.VerifTLRun(a, func() {
				close(entered)
				<-release
			})
			close(taskDone)
		}()
		select {
		case <-entered:
		case <-time.After(10 * time.Second):
			return fmt.Errorf("api2: the loop did not accept the parking task")
		}
		go run(op1, &r1, d1)
		settle(d1)
		go run(op2, &r2, d2)
		settle(d2)
		close(release)
		<-taskDone
	} else {
		start := make(chan struct{})
		go func() { <-start; run(op1, &r1, d1) }()
		go func() { <-start; run(op2, &r2, d2) }()
		close(start)
	}
	for _, d := range []chan struct{}{d1, d2} {
		select {
		case <-d:
		case <-time.After(10 * time.Second):
			c.Emit("api2,"+pairTag(op1, op2), []string{"api2", mode, op1, op2}, []string{"TIMEOUT"}, true)
			return nil
		}
	}
	// final state: through the loop while it runs; directly once Close has returned (the loop
	// goroutine has exited, nothing else touches the state)
	var st ice.VerifTLState
	if err := ice.VerifTLRun(a, func() { st = ice.VerifTLSnapshot(a) }); err != nil {
		st = ice.VerifTLSnapshot(a)
	}
	obs := []string{r1, r2,
		strconv.Itoa(credID(st.RemoteUfrag, st.RemotePwd)), strconv.Itoa(credID(st.LocalUfrag, st.LocalPwd)),
		strconv.Itoa(st.ConnectionState)}
	c.Count("api2:" + mode + ":" + pairTag(op1, op2))
	c.Emit("api2,"+pairTag(op1, op2), []string{"api2", mode, op1, op2}, obs, true)
	return nil
}

// pairTag names the class of a pair by the method families, e.g. "start*start", "start*restart"
func pairTag(op1, op2 string) string {
	fam := func(op string) string {
		switch op[:2] {
		case "SD", "SA", "DI", "AC":
			return "start"
		case "RS":
			return "restart"
		case "SR":
			return "setremote"
		case "AR":
			return "addremote"
		case "CL", "GC":
			return "close"
		case "GR":
			return "getremote"
		case "GL":
			return "getlocal"
		}
		return "other"
	}
	a, b := fam(op1), fam(op2)
	if strings.Compare(a, b) > 0 {
		a, b = b, a
	}
	return a + "*" + b
}

var api2Pairs = [][2]string{
	// the start family against itself: exactly one of two concurrent starts may succeed
	{"SD1", "SA2"}, {"SA1", "SD2"}, {"SD1", "SD2"}, {"SA1", "SA2"},
	{"DI1", "AC2"}, {"AC1", "DI2"}, {"SD1", "DI2"}, {"SA1", "AC2"}, {"DI1", "SA2"}, {"AC1", "SD2"},
	// start against the other mutators
	{"SD1", "RS2"}, {"RS1", "SD2"}, {"SA1", "RS2"}, {"RS1", "DI2"},
	{"SD1", "SR2"}, {"SR1", "SA2"},
	// mutators against each other
	{"RS1", "RS2"}, {"SR1", "SR2"}, {"RS1", "SR2"}, {"SR1", "RS2"},
	{"AR", "RS1"}, {"RS1", "AR"}, {"AR", "SD1"},
	// getters see whole states
	{"GR", "SR1"}, {"SR1", "GR"}, {"GL", "RS1"}, {"RS1", "GL"}, {"GR", "SD1"}, {"GR", "RS1"},
	// Close against everything
	{"CL", "SD1"}, {"SD1", "CL"}, {"CL", "SA1"}, {"DI1", "CL"}, {"GC", "SD1"}, {"SA1", "GC"},
	{"CL", "RS1"}, {"RS1", "CL"}, {"CL", "SR1"}, {"SR1", "CL"}, {"CL", "AR"}, {"AR", "CL"},
	{"CL", "GR"}, {"GL", "CL"}, {"CL", "CL"}, {"CL", "GC"}, {"GC", "CL"}, {"GC", "RS1"},
}

func runAPI2(c *Ctx, rounds int) error {
	for r := 0; r < rounds; r++ {
		for _, p := range api2Pairs {
			for _, mode := range []string{"held", "free"} {
				if err := api2Case(c, mode, p[0], p[1]); err != nil {
					return err
				}
			}
		}
	}
	return nil
}
