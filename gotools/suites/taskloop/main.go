package main

import (
	"context"
	"errors"
	"fmt"
	"math/rand"
	"runtime"
	"strconv"
	"strings"
	"sync"
	"sync/atomic"
	"time"

	ice "github.com/pion/ice/v4"

	. "verif/gotools/hlib"
)

// suite "taskloop" (C10): hammers the real internal/taskloop.Loop (reached through
// verif_export_taskloop.go) with concurrent submitters, context cancellations and closers
// under seeded perturbation, and logs sound event stamps:
//
//	C<i>        stamp taken by submitter i right before l.Run(ctx_i, task_i)
//	Ro<i> Rx<i> Rc<i>   stamp right after Run returned nil / a context error / ErrClosed
//	X<i>        stamp right before cancel_i()
//	S<i> E<i>   first / last action of the body of task i
//	KC<k>p KC<k>n   stamp right before CloseWithPreStop (p: with a preStop function)
//	PS<k> PE<k> first / last action of closer k's preStop
//	KR<k>       stamp right after CloseWithPreStop returned
//	OS OE       first / last action of onClose
//
// All stamps come from one atomic counter, so the log is a total order that extends the
// real-time order of the stamped actions.  The extracted acceptor (explains) must find a run
// of the Coq model with exactly this observable projection; the extracted monitor decides
// C10 on the log itself.
func main() { Main("taskloop", runTaskloop) }

type evlog struct {
	n    int64
	toks []string
}

func (l *evlog) add(tok string) {
	i := atomic.AddInt64(&l.n, 1) - 1
	if int(i) < len(l.toks) {
		l.toks[i] = tok
	}
}

type pert struct {
	r     *rand.Rand
	level int // 0: none, 1: yields, 2: yields + short sleeps, 3: + long sleeps
}

func (p *pert) hit() {
	if p.level == 0 {
		return
	}
	switch p.r.Intn(8) {
	case 0, 1:
	case 2:
		runtime.Gosched()
	case 3:
		for k := p.r.Intn(4); k >= 0; k-- {
			runtime.Gosched()
		}
	case 4:
		// spin a little without yielding
		t := time.Now()
		d := time.Duration(1+p.r.Intn(20)) * time.Microsecond
		for time.Since(t) < d {
		}
	case 5, 6:
		if p.level >= 2 {
			time.Sleep(time.Duration(1+p.r.Intn(60)) * time.Microsecond)
		} else {
			runtime.Gosched()
		}
	case 7:
		if p.level >= 3 {
			time.Sleep(time.Duration(100+p.r.Intn(300)) * time.Microsecond)
		}
	}
}

type subPlan struct {
	ctxKind int // 0 background, 1 cancelled concurrently, 2 cancelled before the call, 3 the loop itself is the context
	delay   int // perturbation hits before the call
	cdelay  int // perturbation hits before the cancel
	body    int // perturbation hits inside the task body
}

type closePlan struct {
	delay int
	pre   bool
	work  int
}

type scenario struct {
	seed    int64
	level   int
	subs    []subPlan
	closers []closePlan
	onClose int
}

func genScenario(seed int64, tier string) *scenario {
	r := rand.New(rand.NewSource(seed))
	sc := &scenario{seed: seed, level: r.Intn(4)}
	maxSub := 8
	if tier != "quick" {
		maxSub = 14
	}
	nSub := 1 + r.Intn(maxSub)
	// context mix of the scenario: mostly background / all kinds / mostly the loop itself (as the agent does)
	mix := r.Intn(3)
	for i := 0; i < nSub; i++ {
		var k int
		switch mix {
		case 0:
			k = []int{0, 0, 0, 1, 2, 3}[r.Intn(6)]
		case 1:
			k = r.Intn(4)
		default:
			k = []int{3, 3, 3, 0, 1}[r.Intn(5)]
		}
		sc.subs = append(sc.subs, subPlan{ctxKind: k, delay: r.Intn(6), cdelay: r.Intn(8), body: r.Intn(5)})
	}
	nCl := []int{0, 1, 1, 1, 2, 2, 3, 4}[r.Intn(8)]
	for k := 0; k < nCl; k++ {
		sc.closers = append(sc.closers, closePlan{delay: r.Intn(10), pre: r.Intn(2) == 0, work: r.Intn(4)})
	}
	sc.onClose = r.Intn(4)
	return sc
}

func (sc *scenario) tag() string {
	var canc, pre, loopctx bool
	for _, s := range sc.subs {
		if s.ctxKind == 1 || s.ctxKind == 2 {
			canc = true
		}
		if s.ctxKind == 3 {
			loopctx = true
		}
	}
	for _, c := range sc.closers {
		if c.pre {
			pre = true
		}
	}
	t := fmt.Sprintf("closers%d", len(sc.closers))
	if canc {
		t += ",cancel"
	}
	if loopctx {
		t += ",loopctx"
	}
	if pre {
		t += ",prestop"
	}
	return t
}

// run executes the scenario on a fresh real loop and returns the stamped log.
func (sc *scenario) run() (toks []string, timedOut bool) {
	nS, nC := len(sc.subs), len(sc.closers)
	lg := &evlog{toks: make([]string, 8*nS+8*(nC+1)+8)}
	mk := func(id int64) *pert { return &pert{r: rand.New(rand.NewSource(sc.seed*7919 + id)), level: sc.level} }
	pOn := mk(1000)
	loop := ice.VerifNewLoop(func() {
		lg.add("OS")
		for k := 0; k < sc.onClose; k++ {
			pOn.hit()
		}
		lg.add("OE")
	})
	// a panic raised by the implementation in a harness-owned call is logged as an observation
	guard := func() {
		if r := recover(); r != nil {
			lg.add("PANIC")
		}
	}
	var wg sync.WaitGroup
	start := make(chan struct{})
	for i := range sc.subs {
		i := i
		pl := sc.subs[i]
		var ctx context.Context = context.Background()
		var cancel context.CancelFunc
		switch pl.ctxKind {
		case 1, 2:
			ctx, cancel = context.WithCancel(context.Background())
		case 3:
			ctx = loop
		}
		pc, pb, px := mk(int64(3*i)), mk(int64(3*i+1)), mk(int64(3*i+2))
		body := func(context.Context) {
			lg.add("S" + strconv.Itoa(i))
			for k := 0; k < pl.body; k++ {
				pb.hit()
			}
			lg.add("E" + strconv.Itoa(i))
		}
		if pl.ctxKind == 2 {
			lg.add("X" + strconv.Itoa(i))
			cancel()
		}
		if pl.ctxKind == 1 {
			wg.Add(1)
			go func() {
				defer wg.Done()
				<-start
				for k := 0; k < pl.cdelay; k++ {
					px.hit()
				}
				lg.add("X" + strconv.Itoa(i))
				cancel()
			}()
		}
		wg.Add(1)
		go func() {
			defer wg.Done()
			defer guard()
			<-start
			for k := 0; k < pl.delay; k++ {
				pc.hit()
			}
			lg.add("C" + strconv.Itoa(i))
			err := loop.Run(ctx, body)
			switch {
			case err == nil:
				lg.add("Ro" + strconv.Itoa(i))
			case errors.Is(err, ice.VerifErrLoopClosed):
				lg.add("Rc" + strconv.Itoa(i))
			case errors.Is(err, context.Canceled):
				lg.add("Rx" + strconv.Itoa(i))
			default:
				lg.add("R?" + strconv.Itoa(i))
			}
		}()
	}
	closer := func(k int, pl closePlan) {
		pk, pp := mk(int64(2000+2*k)), mk(int64(2001+2*k))
		for j := 0; j < pl.delay; j++ {
			pk.hit()
		}
		if pl.pre {
			lg.add("KC" + strconv.Itoa(k) + "p")
			loop.CloseWithPreStop(func() {
				lg.add("PS" + strconv.Itoa(k))
				for j := 0; j < pl.work; j++ {
					pp.hit()
				}
				lg.add("PE" + strconv.Itoa(k))
			})
		} else {
			lg.add("KC" + strconv.Itoa(k) + "n")
			if pl.work%2 == 0 {
				loop.Close()
			} else {
				loop.CloseWithPreStop(nil)
			}
		}
		lg.add("KR" + strconv.Itoa(k))
	}
	for k := range sc.closers {
		k := k
		wg.Add(1)
		go func() {
			defer wg.Done()
			defer guard()
			<-start
			closer(k, sc.closers[k])
		}()
	}
	close(start)
	finished := make(chan struct{})
	go func() {
		defer close(finished)
		defer guard()
		wg.Wait()
		// quiescence: every Run and every racing Close has returned; the final Close makes the
		// log complete ("never ran" is decided) also for scenarios without a racing closer
		closer(nC, closePlan{pre: false})
	}()
	select {
	case <-finished:
	case <-time.After(20 * time.Second):
		return nil, true
	}
	n := int(atomic.LoadInt64(&lg.n))
	if n > len(lg.toks) {
		n = len(lg.toks)
	}
	return lg.toks[:n], false
}

func runTaskloop(c *Ctx) error {
	c.Rule = "one case = one scenario (1..8 submitters, thorough 1..14; contexts: background / cancelled concurrently / cancelled before the call / the loop itself; 0..4 racing closers with or without preStop, plus a final Close at quiescence; perturbation level 0..3 inside task bodies, preStop, onClose and before calls), everything derived from the scenario seed. Non-trivial = the race materialised: at least one Run returned an error (ErrClosed or context) in the observed log. Distinct = distinct scenario seeds among those. api cases: one public Agent method called while a harness task occupies the loop of a live agent (17 methods). api2 cases: a pair of public methods (start family, Restart, SetRemoteCredentials, AddRemoteCandidate, getters, Close/GracefulClose; 47 pairs) called from two goroutines on a fresh agent, overlapping for certain (first call parked on the occupied loop, then the second, then release) and with the loop free."
	emit := func(seed int64) {
		sc := genScenario(seed, c.Tier)
		toks, to := sc.run()
		caseToks := []string{"tl", strconv.FormatInt(seed, 10), strconv.Itoa(len(sc.subs)), strconv.Itoa(len(sc.closers))}
		c.Count("scenario:" + sc.tag())
		c.Count(fmt.Sprintf("perturbation-level:%d", sc.level))
		if to {
			c.Count("outcome:TIMEOUT")
			c.Emit(sc.tag(), caseToks, []string{"TIMEOUT"}, true)
			return
		}
		var nErr, nOk, nCtx int
		doneSeen, lateStart, ctxRan := false, false, false
		cancelled := map[string]bool{}
		for _, t := range toks {
			// l.done is known to be closed once a preStop started or a Run returned ErrClosed;
			// a task that starts afterwards was accepted by the send branch of a select whose
			// <-l.done branch was ready too
			if strings.HasPrefix(t, "PS") || strings.HasPrefix(t, "Rc") {
				doneSeen = true
			}
			if strings.HasPrefix(t, "X") {
				cancelled[t[1:]] = true
			}
			if strings.HasPrefix(t, "S") {
				if doneSeen {
					lateStart = true
				}
				if cancelled[t[1:]] {
					ctxRan = true
				}
			}
			switch {
			case strings.HasPrefix(t, "Ro"):
				nOk++
			case strings.HasPrefix(t, "Rc"):
				nErr++
			case strings.HasPrefix(t, "Rx"):
				nErr++
				nCtx++
			}
		}
		switch {
		case nErr == 0:
			c.Count("outcome:all-ok")
		case nOk == 0:
			c.Count("outcome:all-error")
		default:
			c.Count("outcome:mixed")
		}
		if nCtx > 0 {
			c.Count("outcome:has-context-error")
		}
		if lateStart {
			c.Count("outcome:task-started-after-done-was-closed")
		}
		if ctxRan {
			c.Count("outcome:task-started-after-its-context-was-cancelled")
		}
		c.Count(fmt.Sprintf("log-length:%d0s", len(toks)/10))
		c.Emit(sc.tag(), caseToks, toks, nErr > 0)
	}
	if c.Replay != "" {
		// a log depends on the schedule: re-run every recorded scenario many times
		for _, t := range c.ReplayLines() {
			if len(t) == 4 && t[0] == "api2" {
				for k := 0; k < 5; k++ {
					if err := api2Case(c, t[1], t[2], t[3]); err != nil {
						return err
					}
				}
				continue
			}
			if len(t) == 2 && t[0] == "api" {
				if err := runAPI(c, Unhex(t[1]), 3); err != nil {
					return err
				}
				continue
			}
			if len(t) < 2 || t[0] != "tl" {
				return fmt.Errorf("taskloop: unknown case %v", t)
			}
			seed, err := strconv.ParseInt(t[1], 10, 64)
			if err != nil {
				return err
			}
			for k := 0; k < 200; k++ {
				emit(seed)
			}
		}
		return nil
	}
	n, rounds := 12000, 2
	if c.Tier != "quick" {
		n, rounds = 300000, 6
	}

	for k := 0; k < n; k++ {
		emit(c.Rng.Int63n(1 << 40))
	}
	if err := runAPI(c, "", rounds); err != nil {
		// the live-agent environment could not be set up or driven: reported as a
		// correspondence difference (the model side answers OK), never as a verdict by itself
		c.Count("api:environment-failure")
		c.Emit("apienv", []string{"apienv"}, []string{"ENVFAIL", Hex(err.Error())}, false)
	}
	if err := runAPI2(c, rounds); err != nil {
		c.Count("api:environment-failure")
		c.Emit("apienv", []string{"apienv"}, []string{"ENVFAIL", Hex(err.Error())}, false)
	}
	return nil
}
