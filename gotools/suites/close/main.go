package main

// suite "close" (C08): Close always terminates, unblocks everyone, and is final.
//
// One case = one session script run on a real pion/ice Agent A (the subject) connected to a real
// peer agent B over the harness-owned network of fake.go.  The script is a sequence of API
// operations; at some position of it 1..3 closers (Close / GracefulClose) are started, from API
// goroutines or from inside a callback (OnConnectionStateChange, OnCandidate,
// OnSelectedCandidatePairChange: notifier goroutines; BindingRequestHandler: the loop goroutine),
// synchronously or in a goroutine of their own.  Operations after that position race with the
// closers or run after a closer returned.  Faults: a candidate socket stops accepting writes (a
// WriteTo blocks until the socket is aborted, in one of three fault modes), reads block, Close of
// the socket returns an error.
//
// Case tokens
//
//	cl1 <ctl> <ncand> <fast> <renom> m0 e0 m1 e1 m2 e2 ; step ; step ...
//
// steps (see (*run).step).  Observation tokens: sections
//
//	CL n {k class call ret err}*      closers (ret 0: never returned within the watchdog bound)
//	ST n {idx api spawned call ret class}*   script calls (class 8: never returned)
//	LT n {api class effect}*          the battery of later calls after a closer returned
//	NS n v*                           connection-state notifications delivered, in order
//	LC n                              callbacks entered after a GracefulClose (from an API goroutine) returned
//	GR n name*                        goroutines started by the agent still alive at the census
//	FL flags                          connected everAbort poisoned battery
//	EV n tok*                         the event log (see fake.go and below)
//
// Stamps are positions in the event log: every logged action appends its token under the log's
// mutex inside the action itself (call tokens before the call, return tokens after it), so the log
// is a total order extending the real-time order of the logged actions.
//
// The watchdog bound is generous (the machine is shared): only "never returned within the bound"
// counts, never a duration.

import (
	"context"
	"errors"
	"fmt"
	"io"
	"math/rand"
	"net"
	"os"
	"runtime/pprof"
	"sort"
	"strconv"
	"strings"
	"sync"
	"sync/atomic"
	"time"

	ice "github.com/pion/ice/v4"
	"github.com/pion/logging"
	"github.com/pion/stun/v3"

	. "verif/gotools/hlib"
)

func main() { Main("close", runClose) }

const (
	clsNil = iota
	clsClosed
	clsCanceled
	clsMultiStart
	clsValidation
	clsOther
	clsEmpty    // a value-returning call returned its zero / empty value
	clsNonEmpty // a value-returning call returned agent state
	clsHang
)

func classify(err error) int {
	switch {
	case err == nil:
		return clsNil
	case errors.Is(err, ice.ErrClosed):
		return clsClosed
	case errors.Is(err, ice.ErrCanceledByCaller):
		return clsCanceled
	case errors.Is(err, ice.ErrMultipleStart):
		return clsMultiStart
	case errors.Is(err, ice.ErrRemoteUfragEmpty), errors.Is(err, ice.ErrRemotePwdEmpty),
		errors.Is(err, ice.ErrLocalUfragInsufficientBits), errors.Is(err, ice.ErrLocalPwdInsufficientBits):
		return clsValidation
	default:
		return clsOther
	}
}

type quietLogger struct{}

func (quietLogger) NewLogger(string) logging.LeveledLogger {
	return logging.NewDefaultLeveledLoggerForScope("ice", logging.LogLevelDisabled, os.Stderr)
}

type closerRec struct {
	k     int
	class string
	call  int
	ret   int32
	err   int
	done  chan struct{}
}

type callRec struct {
	idx     int
	api     string
	spawned bool
	call    int
	ret     int32
	class   int32
	done    chan struct{}
}

type arm struct {
	kind  int // 0 Close, 1 GracefulClose
	mode  int // 0 synchronously inside the callback, 1 in a goroutine of its own
	val   int // -1: any invocation
	fired atomic.Bool
}

type run struct {
	id                         string
	toks                       []string
	ev                         *evlog
	w                          *world
	A, B                       *ice.Agent
	conn                       atomic.Pointer[ice.Conn]
	netA                       *fnet
	netB                       *fnet
	mu                         sync.Mutex
	socks                      []*fconn // sockets of A's candidates, by candidate index
	closers                    []*closerRec
	calls                      []*callRec
	states                     []int
	armed                      [4]atomic.Pointer[arm]
	reent                      [4]atomic.Int32
	cbAfter                    atomic.Int32 // callbacks entered after gracefulRet was set
	gracefulRet                atomic.Bool
	bound                      time.Duration
	ctx                        context.Context
	cancel                     context.CancelFunc
	stop                       chan struct{}
	ctl                        bool
	ncand                      int
	fast                       bool
	renom                      bool
	modes                      [3]int
	cerr                       [3]bool
	connected                  atomic.Bool
	poisoned                   bool
	rng                        *rand.Rand
	lastRemote                 ice.Candidate
	lastLocal                  ice.Candidate
	bUfrag, bPwd, aUfrag, aPwd string
	wg                         sync.WaitGroup
	gathering                  bool
	srflx                      bool
	relay                      int
	noTick                     atomic.Bool
	hammerStop                 atomic.Bool
	blockNew                   atomic.Bool
	gate0                      chan struct{}
	closeTimedOut              bool
}

func itoa(i int) string { return strconv.Itoa(i) }

// asB runs f with the peer's label so that goroutines started by the peer agent are not
// attributed to the subject.
func (r *run) asB(f func()) {
	pprof.Do(context.Background(), pprof.Labels("case", r.id+"B"), func(context.Context) { f() })
}

func (r *run) newAgent(side int, fn *fnet) (*ice.Agent, error) {
	opts := []ice.AgentOption{
		ice.WithMulticastDNSMode(ice.MulticastDNSModeDisabled),
		ice.WithLoggerFactory(quietLogger{}),
		ice.WithNetworkTypes([]ice.NetworkType{ice.NetworkTypeUDP4}),
		ice.WithCandidateTypes([]ice.CandidateType{ice.CandidateTypeHost}),
		ice.WithNet(fn),
		ice.WithHostAcceptanceMinWait(0),
		ice.WithSrflxAcceptanceMinWait(0),
		ice.WithPrflxAcceptanceMinWait(0),
		ice.WithRelayAcceptanceMinWait(0),
		ice.WithKeepaliveInterval(5 * time.Millisecond),
		ice.WithCheckInterval(2 * time.Millisecond),
		ice.WithIncludeLoopback(),
	}
	if r.fast && side == 0 {
		opts = append(opts, ice.WithDisconnectedTimeout(60*time.Millisecond), ice.WithFailedTimeout(60*time.Millisecond))
	} else {
		opts = append(opts, ice.WithDisconnectedTimeout(30*time.Second), ice.WithFailedTimeout(30*time.Second))
	}
	if side == 0 && r.srflx {
		// server-reflexive gathering towards a STUN server that never answers; the exchange's own
		// timeout is far beyond the watchdog bound, so only Close can end it
		uri, uerr := stun.ParseURI("stun:10.0.0.9:3478")
		if uerr == nil {
			opts = append(opts,
				ice.WithCandidateTypes([]ice.CandidateType{ice.CandidateTypeHost, ice.CandidateTypeServerReflexive}),
				ice.WithUrls([]*stun.URI{uri}), ice.WithSTUNGatherTimeout(10*time.Minute))
		}
	}
	if side == 0 && r.relay >= 2 {
		// relay gathering over a control connection whose set-up never completes
		spec := map[int]string{2: "turns:10.0.0.9:5349?transport=tcp", 3: "turn:10.0.0.9:3478?transport=tcp", 4: "turns:10.0.0.9:5349?transport=udp"}[r.relay]
		uri, uerr := stun.ParseURI(spec)
		if uerr == nil {
			uri.Username, uri.Password = "user", "pass"
			fn.tcpDialBlocks = r.relay == 3
			opts = append(opts,
				ice.WithCandidateTypes([]ice.CandidateType{ice.CandidateTypeHost, ice.CandidateTypeRelay}),
				ice.WithUrls([]*stun.URI{uri}),
				ice.WithTURNTransportProtocols([]ice.NetworkType{ice.NetworkTypeUDP4, ice.NetworkTypeTCP4}))
		}
	}
	if side == 0 {
		opts = append(opts, ice.WithBindingRequestHandler(func(_ *stun.Message, _, _ ice.Candidate, _ *ice.CandidatePair) bool {
			r.ev.add("BH")
			r.fire(3, 0)
			r.ev.add("BHe")

			return false
		}))
		if r.renom {
			opts = append(opts, ice.WithRenomination(func() uint32 { return 7 }))
		}
	}

	return ice.NewAgentWithOptions(opts...)
}

// ---- callbacks ------------------------------------------------------------------------------

func (r *run) fire(cb, val int) {
	if r.gracefulRet.Load() && cb != 3 {
		r.cbAfter.Add(1)
	}
	if g := r.reent[cb].Load(); g > 0 && cb != 3 {
		// re-enter the API from inside the callback (returns at the latest when the loop closes)
		r.getter(int(g-1), r.A)
	}
	a := r.armed[cb].Load()
	if a == nil || (a.val >= 0 && a.val != val) || !a.fired.CompareAndSwap(false, true) {
		return
	}
	class := []string{"cb", "cbg"}[a.kind]
	if cb == 3 {
		class = []string{"bh", "bhg"}[a.kind]
	}
	if a.mode == 1 {
		class += "go"
		c := r.newCloser(class)
		go r.doClose(c, a.kind == 1)

		return
	}
	c := r.newCloser(class)
	r.doClose(c, a.kind == 1)
}

func (r *run) newCloser(class string) *closerRec {
	r.mu.Lock()
	c := &closerRec{k: len(r.closers), class: class, done: make(chan struct{})}
	r.closers = append(r.closers, c)
	r.mu.Unlock()

	return c
}

func (r *run) doClose(c *closerRec, graceful bool) {
	c.call = r.ev.add("KC" + itoa(c.k) + ":" + c.class)
	var err error
	if graceful {
		err = r.A.GracefulClose()
	} else {
		err = r.A.Close()
	}
	c.err = classify(err)
	if graceful && (c.class == "apig" || c.class == "cbggo" || c.class == "bhggo") {
		r.gracefulRet.Store(true)
	}
	atomic.StoreInt32(&c.ret, int32(r.ev.add("KR"+itoa(c.k))))
	close(c.done)
}

func (r *run) installHandlers() {
	_ = r.A.OnConnectionStateChange(func(st ice.ConnectionState) {
		r.ev.add("NS" + itoa(int(st)))
		r.mu.Lock()
		r.states = append(r.states, int(st))
		r.mu.Unlock()
		if st == ice.ConnectionStateConnected {
			r.connected.Store(true)
		}
		r.fire(0, int(st))
		r.ev.add("NE")
	})
	_ = r.A.OnCandidate(func(c ice.Candidate) {
		r.ev.add("NC")
		v := 1
		if c == nil {
			v = 0
		}
		r.fire(1, v)
		r.ev.add("NCe")
	})
	_ = r.A.OnSelectedCandidatePairChange(func(_, _ ice.Candidate) {
		r.ev.add("NP")
		r.fire(2, 0)
		r.ev.add("NPe")
	})
	r.asB(func() {
		_ = r.B.OnCandidate(func(ice.Candidate) {})
		_ = r.B.OnConnectionStateChange(func(ice.ConnectionState) {})
	})
}

// ---- calls ------------------------------------------------------------------------------------

// call runs fn under the watchdog.  A spawned call is left running (a blocked caller).
func (r *run) call(api string, spawned bool, fn func() int) *callRec {
	r.mu.Lock()
	c := &callRec{idx: len(r.calls), api: api, spawned: spawned, done: make(chan struct{})}
	c.class = clsHang
	r.calls = append(r.calls, c)
	r.mu.Unlock()
	c.call = r.ev.add("AC" + itoa(c.idx) + ":" + api)
	go func() {
		cl := fn()
		atomic.StoreInt32(&c.class, int32(cl))
		atomic.StoreInt32(&c.ret, int32(r.ev.add("AR"+itoa(c.idx)+":"+itoa(cl))))
		close(c.done)
	}()
	if !spawned {
		select {
		case <-c.done:
		case <-time.After(r.bound):
		}
	}

	return c
}

func (r *run) getter(k int, a *ice.Agent) int {
	switch k {
	case 0:
		v, err := a.GetLocalCandidates()
		_ = v

		return classify(err)
	case 1:
		_, err := a.GetRemoteCandidates()

		return classify(err)
	case 2:
		_, err := a.GetGatheringState()

		return classify(err)
	case 3:
		_, _, err := a.GetLocalUserCredentials()

		return classify(err)
	case 4:
		_, _, err := a.GetRemoteUserCredentials()

		return classify(err)
	case 5:
		p, err := a.GetSelectedCandidatePair()
		if err != nil {
			return classify(err)
		}
		if p != nil {
			return clsNonEmpty
		}

		return clsEmpty
	case 6:
		if len(a.GetCandidatePairsStats()) > 0 {
			return clsNonEmpty
		}

		return clsEmpty
	case 7:
		if _, ok := a.GetSelectedCandidatePairStats(); ok {
			return clsNonEmpty
		}

		return clsEmpty
	case 8:
		if len(a.GetLocalCandidatesStats()) > 0 {
			return clsNonEmpty
		}

		return clsEmpty
	case 9:
		if len(a.GetRemoteCandidatesStats()) > 0 {
			return clsNonEmpty
		}

		return clsEmpty
	default:
		if len(ice.VerifConn(a).GetCandidatePairsInfo()) > 0 {
			return clsNonEmpty
		}

		return clsEmpty
	}
}

var getterNames = []string{"GetLocalCandidates", "GetRemoteCandidates", "GetGatheringState", "GetLocalUserCredentials",
	"GetRemoteUserCredentials", "GetSelectedCandidatePair", "GetCandidatePairsStats", "GetSelectedCandidatePairStats",
	"GetLocalCandidatesStats", "GetRemoteCandidatesStats", "GetCandidatePairsInfo"}

func (r *run) theConn() *ice.Conn {
	if c := r.conn.Load(); c != nil {
		return c
	}

	return ice.VerifConn(r.A)
}

func copyCand(c ice.Candidate) ice.Candidate {
	cp, err := ice.UnmarshalCandidate(c.Marshal())
	if err != nil {
		return nil
	}

	return cp
}

func (r *run) ticker(a *ice.Agent) {
	defer r.wg.Done()
	for {
		select {
		case <-r.stop:
			return
		case <-time.After(time.Millisecond):
		}
		if a == r.A && r.noTick.Load() {
			continue
		}
		if ice.VerifTickReady(a) {
			ice.VerifTick(a)
		}
	}
}

func (r *run) addLocals(a *ice.Agent, side int, fn *fnet, n int) {
	for j := 0; j < n; j++ {
		mode, ce := 0, false
		if side == 0 {
			mode, ce = r.modes[j], r.cerr[j]
		}
		c := r.w.newConn(side, fn.ip, 0, mode, ce)
		cand, err := ice.NewCandidateHost(&ice.CandidateHostConfig{Network: "udp", Address: fn.ip.String(), Port: c.laddr.Port, Component: 1})
		if err != nil {
			continue
		}
		if side == 0 {
			jj := j
			r.call("AddLocal", false, func() int {
				err := ice.VerifCloseAddLocal(a, cand, c)
				if err != nil {
					_ = c.Close()
				} else {
					r.ev.add("SA" + c.name())
					r.mu.Lock()
					r.socks = append(r.socks, c)
					r.lastLocal = cand
					r.mu.Unlock()
				}
				_ = jj

				return classify(err)
			})
		} else {
			r.asB(func() {
				if err := ice.VerifCloseAddLocal(a, cand, c); err != nil {
					_ = c.Close()
				}
			})
		}
	}
}

func (r *run) waitFor(d time.Duration, cond func() bool) bool {
	deadline := time.Now().Add(d)
	for !cond() {
		if time.Now().After(deadline) {
			return false
		}
		time.Sleep(500 * time.Microsecond)
	}

	return true
}

func (r *run) anyCloserStarted() bool {
	r.mu.Lock()
	defer r.mu.Unlock()

	return len(r.closers) > 0
}

func (r *run) someCloserReturned() bool {
	r.mu.Lock()
	defer r.mu.Unlock()
	for _, c := range r.closers {
		if atomic.LoadInt32(&c.ret) != 0 {
			return true
		}
	}

	return false
}

// step interprets one script step.
func (r *run) step(t []string) {
	arg := func(i int) int {
		if i < len(t) {
			n, _ := strconv.Atoi(t[i])

			return n
		}

		return 0
	}
	a := r.A
	switch t[0] {
	case "AL": // inject the local candidates over harness sockets (the gatherers' publication step)
		r.addLocals(a, 0, r.netA, r.ncand)
		r.addLocals(r.B, 1, r.netB, 1)
	case "GA": // GatherCandidates over the fake net; arg 1: wait for completion, 2: slow Interfaces()
		w := arg(1)
		var gate chan struct{}
		if w == 2 {
			gate = make(chan struct{})
			r.netA.mu.Lock()
			r.netA.gate = gate
			r.netA.mu.Unlock()
			go func() {
				select {
				case <-time.After(time.Duration(1+r.rng.Intn(4)) * time.Millisecond):
				case <-r.stop:
				}
				close(gate)
			}()
		}
		r.netA.mu.Lock()
		r.netA.modes, r.netA.closeErr = r.modes[:], r.cerr[:]
		r.netA.mu.Unlock()
		r.gathering = true
		r.call("GatherCandidates", false, func() int { return classify(a.GatherCandidates()) })
		r.asB(func() { _ = r.B.GatherCandidates() })
		if w == 1 {
			r.waitFor(2*time.Second, func() bool {
				st, err := a.GetGatheringState()

				return err != nil || st == ice.GatheringStateComplete
			})
			r.waitFor(2*time.Second, func() bool {
				st, err := r.B.GetGatheringState()

				return err != nil || st == ice.GatheringStateComplete
			})
		}
		r.netA.mu.Lock()
		r.socks = append(r.socks[:0:0], r.netA.listened...)
		r.netA.mu.Unlock()
	case "XR": // signalling: credentials and candidates both ways (once gathering, if any, is complete)
		if r.gathering {
			r.waitFor(time.Second, func() bool {
				st, err := a.GetGatheringState()
				st2, err2 := r.B.GetGatheringState()

				return (err != nil || st == ice.GatheringStateComplete) && (err2 != nil || st2 == ice.GatheringStateComplete)
			})
			r.netA.mu.Lock()
			r.socks = append(r.socks[:0:0], r.netA.listened...)
			r.netA.mu.Unlock()
		}
		r.aUfrag, r.aPwd, _ = a.GetLocalUserCredentials()
		r.bUfrag, r.bPwd, _ = r.B.GetLocalUserCredentials()
		la, _ := a.GetLocalCandidates()
		lb, _ := r.B.GetLocalCandidates()
		for _, c := range lb {
			if cp := copyCand(c); cp != nil {
				r.lastRemote = cp
				r.call("AddRemoteCandidate", false, func() int { return classify(a.AddRemoteCandidate(cp)) })
			}
		}
		if len(la) > 0 {
			r.lastLocal = la[0]
		}
		r.asB(func() {
			for _, c := range la {
				if cp := copyCand(c); cp != nil {
					_ = r.B.AddRemoteCandidate(cp)
				}
			}
		})
	case "CN": // start connecting: Dial / Accept in goroutines (blocked in AwaitConnect)
		if r.bUfrag == "" {
			r.aUfrag, r.aPwd, _ = a.GetLocalUserCredentials()
			r.bUfrag, r.bPwd, _ = r.B.GetLocalUserCredentials()
		}
		if r.bUfrag == "" {
			r.bUfrag, r.bPwd = "peerufrag", "peerpasswordpeerpassword"
		}
		r.asB(func() {
			go func() {
				if r.ctl {
					_, _ = r.B.Accept(r.ctx, r.aUfrag, r.aPwd)
				} else {
					_, _ = r.B.Dial(r.ctx, r.aUfrag, r.aPwd)
				}
			}()
		})
		api := "Accept"
		if r.ctl {
			api = "Dial"
		}
		r.call(api, true, func() int {
			var c *ice.Conn
			var err error
			if r.ctl {
				c, err = a.Dial(r.ctx, r.bUfrag, r.bPwd)
			} else {
				c, err = a.Accept(r.ctx, r.bUfrag, r.bPwd)
			}
			if c != nil {
				r.conn.Store(c)
			}

			return classify(err)
		})
	case "WC": // wait until connected
		r.waitFor(time.Second, func() bool { return r.connected.Load() || r.someCloserReturned() })
	case "AW":
		r.call("AwaitConnect", true, func() int { return classify(a.AwaitConnect(r.ctx)) })
	case "RD": // a reader: loops until Read fails
		r.call("Read", true, func() int {
			buf := make([]byte, 1500)
			for {
				if _, err := r.theConn().Read(buf); err != nil {
					if errors.Is(err, io.EOF) || errors.Is(err, io.ErrClosedPipe) {
						return clsOther
					}

					return classify(err)
				}
			}
		})
	case "WR": // a writer: loops until Write fails; a Write that reports 0 bytes and no error once a closer
		// is running was released by the close (class nil: the error was swallowed)
		r.call("Write", true, func() int {
			p := make([]byte, 40+r.rng.Intn(200))
			p[0] = 0x80
			for {
				n, err := r.theConn().Write(p)
				if err != nil && !errors.Is(err, ice.ErrNoCandidatePairs) {
					return classify(err)
				}
				if err == nil && n == 0 && r.anyCloserStarted() {
					return clsNil
				}
				select {
				case <-r.stop:
					return clsOther
				case <-time.After(200 * time.Microsecond):
				}
			}
		})
	case "IB": // inbound traffic: the peer sends application data
		r.asB(func() {
			go func() {
				p := make([]byte, 100)
				p[0] = 0x80
				cb := ice.VerifConn(r.B)
				for {
					select {
					case <-r.stop:
						return
					case <-time.After(100 * time.Microsecond):
					}
					_, _ = cb.Write(p)
				}
			}()
		})
	case "BW": // a candidate socket stops accepting writes; wait until some write is parked
		r.mu.Lock()
		var c *fconn
		j := arg(1)
		if j == 9 {
			if l, _ := ice.VerifCloseSelectedPair(a); l != nil {
				for _, sc := range r.socks {
					if sc.laddr.Port == l.Port() {
						c = sc
					}
				}
			}
			j = 0
		}
		if c == nil && j < len(r.socks) {
			c = r.socks[j]
		}
		r.mu.Unlock()
		if c != nil {
			c.blockW.Store(true)
			select {
			case <-c.blocked:
			case <-time.After(100 * time.Millisecond):
			}
		}
	case "PS": // the peer falls silent
		r.w.silent[1].Store(true)
	case "SL":
		time.Sleep(time.Duration(arg(1)) * time.Millisecond)
	case "RS":
		r.call("Restart", false, func() int { return classify(a.Restart("", "")) })
	case "RR": // Restart racing with whatever comes next
		r.call("Restart", true, func() int { return classify(a.Restart("", "")) })
	case "GT":
		k := arg(1) % len(getterNames)
		r.call(getterNames[k], false, func() int { return r.getter(k, a) })
	case "GQ": // a getter issued from another goroutine (queues behind a stuck task)
		k := arg(1) % len(getterNames)
		r.call(getterNames[k], true, func() int { return r.getter(k, a) })
	case "SC":
		r.call("SetRemoteCredentials", false, func() int { return classify(a.SetRemoteCredentials("someufrag", "somepasswordsomepassword")) })
	case "UO":
		r.call("UpdateOptions", false, func() int { return classify(a.UpdateOptions(ice.WithUrls(nil))) })
	case "RN":
		l, rm := ice.VerifCloseSelectedPair(a)
		if l != nil {
			r.call("RenominateCandidate", false, func() int { return classify(a.RenominateCandidate(l, rm)) })
		}
	case "HA": // from now on callback cb re-enters the API (getter k) on every invocation
		r.reent[arg(1)%3].Store(int32(arg(2)%len(getterNames)) + 1)
	case "HK": // arm a closer inside callback cb: kind (0 Close, 1 GracefulClose), mode (0 sync, 1 go), value
		r.armed[arg(1)%4].Store(&arm{kind: arg(2), mode: arg(3), val: arg(4)})
	case "CA": // n closers from API goroutines; graceful flags follow
		n := arg(1)
		for i := 0; i < n; i++ {
			class := "api"
			g := arg(2+i) == 1
			if g {
				class = "apig"
			}
			c := r.newCloser(class)
			go r.doClose(c, g)
		}
	case "HM": // hammer the loop: nt goroutines tick, na goroutines publish candidates (addCandidate), for a moment;
		// then every socket of the subject stops accepting writes (the closers follow in the script)
		nt, na := arg(1), arg(2)
		for i := 0; i < nt; i++ {
			r.call("Tick", true, func() int {
				for !r.hammerStop.Load() {
					if ice.VerifTickReady(a) {
						ice.VerifTick(a)
					}
					if _, err := a.GetGatheringState(); err != nil {
						return classify(err)
					}
				}

				return clsNil
			})
		}
		for i := 0; i < na; i++ {
			r.call("AddLocal", true, func() int {
				for n := 0; n < 60 && !r.hammerStop.Load(); n++ {
					c := r.w.newConn(0, r.netA.ip, 0, 0, false)
					if r.blockNew.Load() {
						c.blockW.Store(true)
					}
					r.mu.Lock()
					r.socks = append(r.socks, c)
					r.mu.Unlock()
					cand, err := ice.NewCandidateHost(&ice.CandidateHostConfig{Network: "udp", Address: r.netA.ip.String(), Port: c.laddr.Port, Component: 1})
					if err != nil {
						return clsOther
					}
					if err := ice.VerifCloseAddLocal(a, cand, c); err != nil {
						_ = c.Close()

						return classify(err)
					}
					r.ev.add("SA" + c.name())
				}

				return clsNil
			})
		}
		time.Sleep(time.Duration(200+r.rng.Intn(800)) * time.Microsecond)
		r.blockNew.Store(true)
		r.mu.Lock()
		for _, c := range r.socks {
			c.blockW.Store(true)
		}
		r.mu.Unlock()
	case "TX": // stop the automatic ticks of the subject (the script issues ticks itself from now on)
		r.noTick.Store(true)
		time.Sleep(3 * time.Millisecond)
	case "T0": // a task occupies the loop until G0 (any API task in progress when Close is called)
		r.gate0 = make(chan struct{})
		g := r.gate0
		in := make(chan struct{})
		r.call("Task", true, func() int {
			return classify(ice.VerifCloseRun(a, func() {
				r.ev.add("T0s")
				close(in)
				select {
				case <-g:
				case <-r.stop:
				}
				r.ev.add("T0e")
			}))
		})
		select {
		case <-in:
		case <-time.After(time.Second):
		}
	case "QL": // a gatherer publishes a candidate (addCandidate) whose socket does not accept writes
		c := r.w.newConn(0, r.netA.ip, 0, arg(1)%3, false)
		c.blockW.Store(true)
		cand, err := ice.NewCandidateHost(&ice.CandidateHostConfig{Network: "udp", Address: r.netA.ip.String(), Port: c.laddr.Port, Component: 1})
		if err == nil {
			r.call("AddLocal", true, func() int {
				err := ice.VerifCloseAddLocal(a, cand, c)
				if err != nil {
					_ = c.Close()
				} else {
					r.ev.add("SA" + c.name())
					r.mu.Lock()
					r.socks = append(r.socks, c)
					r.mu.Unlock()
				}

				return classify(err)
			})
			time.Sleep(3 * time.Millisecond)
		}
	case "QT": // one tick of connectivityChecks, issued from a goroutine of its own
		r.call("Tick", true, func() int {
			if ice.VerifTickReady(a) {
				ice.VerifTick(a)
			}

			return clsNil
		})
		time.Sleep(2 * time.Millisecond)
	case "G0": // once a closer has aborted the started candidates' I/O, the task of T0 ends
		r.waitFor(time.Second, func() bool {
			for _, e := range r.ev.snapshot() {
				if strings.HasPrefix(e, "AB") {
					return true
				}
			}

			return false
		})
		time.Sleep(time.Millisecond)
		if r.gate0 != nil {
			close(r.gate0)
			r.gate0 = nil
		}
	case "CW": // wait until a closer returned; if no armed callback fired, fall back to an API Close
		if !r.waitFor(300*time.Millisecond, r.anyCloserStarted) {
			c := r.newCloser("fb")
			go r.doClose(c, false)
		}
		r.waitClosers()
	}
}

func (r *run) waitClosers() {
	if r.closeTimedOut {
		return
	}
	r.mu.Lock()
	cs := append([]*closerRec(nil), r.closers...)
	r.mu.Unlock()
	deadline := time.After(r.bound)
	for _, c := range cs {
		select {
		case <-c.done:
		case <-deadline:
			r.closeTimedOut = true

			return
		}
	}
}

// ---- the battery of later calls ----------------------------------------------------------------

type later struct {
	api    string
	class  int
	effect int
}

type digest struct {
	d       ice.VerifCloseDigest
	writes  int32
	nstates int
	evCalls int
}

func (r *run) digest() digest {
	r.mu.Lock()
	n := len(r.states)
	r.mu.Unlock()

	return digest{d: ice.VerifCloseSnapshot(r.A), writes: r.w.lateWrites.Load(), nstates: n}
}

func (r *run) battery() []later {
	a := r.A
	conn := r.theConn()
	shortCtx := func() (context.Context, context.CancelFunc) {
		return context.WithTimeout(context.Background(), r.bound)
	}
	newRemote, _ := ice.NewCandidateHost(&ice.CandidateHostConfig{Network: "udp", Address: "10.0.0.77", Port: 7777, Component: 1})
	pl := []byte{0x80, 1, 2, 3, 4, 5, 6, 7}
	type item struct {
		api string
		fn  func() int
	}
	items := []item{
		{"GatherCandidates", func() int { return classify(a.GatherCandidates()) }},
		{"AddRemoteCandidate", func() int { return classify(a.AddRemoteCandidate(newRemote)) }},
		{"SetRemoteCredentials", func() int { return classify(a.SetRemoteCredentials("someufrag", "somepasswordsomepassword")) }},
		{"SetRemoteCredentialsEmpty", func() int { return classify(a.SetRemoteCredentials("", "")) }},
		{"UpdateOptions", func() int { return classify(a.UpdateOptions(ice.WithUrls(nil))) }},
		{"Restart", func() int { return classify(a.Restart("", "")) }},
		{"RestartShortCreds", func() int { return classify(a.Restart("x", "y")) }},
		{"Dial", func() int {
			ctx, cancel := shortCtx()
			defer cancel()
			_, err := a.Dial(ctx, "someufrag", "somepasswordsomepassword")

			return classify(err)
		}},
		{"Accept", func() int {
			ctx, cancel := shortCtx()
			defer cancel()
			_, err := a.Accept(ctx, "someufrag", "somepasswordsomepassword")

			return classify(err)
		}},
		{"StartDial", func() int { _, err := a.StartDial("someufrag", "somepasswordsomepassword"); return classify(err) }},
		{"StartAccept", func() int { _, err := a.StartAccept("someufrag", "somepasswordsomepassword"); return classify(err) }},
		{"AwaitConnect", func() int {
			// the select of AwaitConnect picks any ready branch: sample it a few times
			res := clsClosed
			for i := 0; i < 8; i++ {
				ctx, cancel := shortCtx()
				c := classify(a.AwaitConnect(ctx))
				cancel()
				if c != clsClosed {
					res = c
				}
			}

			return res
		}},
		{"Read", func() int { _, err := conn.Read(make([]byte, 1500)); return classify(err) }},
		{"Write", func() int { _, err := conn.Write(pl); return classify(err) }},
		{"WriteToPair", func() int {
			id, _ := ice.VerifCloseSelectedPairID(a)
			_, err := conn.WriteToPair(id, pl)

			return classify(err)
		}},
		{"ConnClose", func() int { return classify(conn.Close()) }},
		{"OnConnectionStateChange", func() int { return classify(a.OnConnectionStateChange(func(ice.ConnectionState) {})) }},
	}
	for k := range getterNames {
		kk := k
		items = append(items, item{getterNames[k], func() int { return r.getter(kk, a) }})
	}
	if l, rm := ice.VerifCloseSelectedPair(a); l != nil && r.ctl && r.renom {
		items = append(items, item{"RenominateCandidate", func() int { return classify(a.RenominateCandidate(l, rm)) }})
	}
	items = append(items,
		item{"Tick", func() int {
			if ice.VerifTickReady(a) {
				ice.VerifTick(a)
			}

			return clsNil
		}},
		item{"Inbound", func() int {
			r.mu.Lock()
			socks := append([]*fconn(nil), r.socks...)
			r.mu.Unlock()
			for _, c := range socks {
				select {
				case c.inbox <- pkt{pl, &net.UDPAddr{IP: net.IPv4(10, 0, 0, 2), Port: 9}}:
				default:
				}
			}

			return clsNil
		}},
		item{"Close", func() int { return classify(a.Close()) }},
		item{"GracefulClose", func() int { return classify(a.GracefulClose()) }},
		item{"Close", func() int { return classify(a.Close()) }},
	)
	var out []later
	for _, it := range items {
		before := r.digest()
		c := r.call("L:"+it.api, false, it.fn)
		cl := int(atomic.LoadInt32(&c.class))
		eff := 0
		if cl != clsHang {
			// an asynchronous effect (AddRemoteCandidate's goroutine) gets a moment to show
			if it.api == "AddRemoteCandidate" || it.api == "Inbound" || it.api == "Tick" {
				time.Sleep(2 * time.Millisecond)
			}
			after := r.digest()
			if before != after {
				eff = 1
			}
		}
		out = append(out, later{it.api, cl, eff})
		if cl == clsHang {
			break
		}
	}

	return out
}

// ---- one case ------------------------------------------------------------------------------------

func splitSteps(toks []string) [][]string {
	var out [][]string
	var cur []string
	for _, t := range toks {
		if t == ";" {
			if len(cur) > 0 {
				out = append(out, cur)
			}
			cur = nil
		} else {
			cur = append(cur, t)
		}
	}
	if len(cur) > 0 {
		out = append(out, cur)
	}

	return out
}

func runCase(id string, toks []string, bound time.Duration) (obs []string, flags map[string]bool) {
	flags = map[string]bool{}
	r := &run{id: id, toks: toks, ev: &evlog{max: 6000}, bound: bound, stop: make(chan struct{})}
	r.w = newWorld(r.ev)
	steps := splitSteps(toks)
	if len(steps) == 0 || len(steps[0]) < 11 || steps[0][0] != "cl1" {
		return []string{"MALFORMED"}, flags
	}
	h := steps[0]
	geti := func(i int) int { n, _ := strconv.Atoi(h[i]); return n }
	r.ctl, r.ncand, r.fast, r.renom = geti(1) == 1, geti(2), geti(3) == 1, geti(4) == 1
	if r.ncand < 1 || r.ncand > 3 {
		r.ncand = 1
	}
	for j := 0; j < 3; j++ {
		r.modes[j], r.cerr[j] = geti(5+2*j)%3, geti(6+2*j) == 1
	}
	if len(h) > 11 {
		r.srflx = geti(11) == 1
		r.poisoned = r.poisoned || geti(11) == 3 // a connect that never completes: Close cannot return (known)
		r.relay = geti(11)                       // 2 turns/tcp silent TLS server, 3 turn/tcp connect never completes, 4 turns/udp silent DTLS server
	}
	if r.srflx {
		// the srflx gatherer relies on Close of its socket to abort the STUN exchange and on read
		// deadlines being accepted: kernel-like sockets only
		r.modes = [3]int{0, 0, 0}
	}
	seed := int64(0)
	for _, t := range toks {
		for _, ch := range t {
			seed = seed*131 + int64(ch)
		}
	}
	r.rng = rand.New(rand.NewSource(seed))
	r.ctx, r.cancel = context.WithCancel(context.Background())
	r.netA = newFnet(r.w, 0, net.IPv4(10, 0, 0, 1).To4())
	r.netB = newFnet(r.w, 1, net.IPv4(10, 0, 0, 2).To4())
	for _, s := range steps[1:] {
		if s[0] == "HK" && len(s) >= 4 {
			cb, _ := strconv.Atoi(s[1])
			kind, _ := strconv.Atoi(s[2])
			mode, _ := strconv.Atoi(s[3])
			if mode == 0 && (cb%4 == 3 || kind == 1) {
				r.poisoned = true
			}
		}
	}
	var err error
	if r.A, err = r.newAgent(0, r.netA); err != nil {
		return []string{"NOAGENT"}, flags
	}
	r.asB(func() { r.B, err = r.newAgent(1, r.netB) })
	if err != nil {
		_ = r.A.Close()

		return []string{"NOAGENT"}, flags
	}
	r.installHandlers()
	r.wg.Add(2)
	go r.ticker(r.A)
	r.asB(func() { go r.ticker(r.B) })

	for _, s := range steps[1:] {
		// a step may call the subject's API directly (signalling, polling): if the agent is wedged
		// the step is abandoned and the script ends here
		sd := make(chan struct{})
		st := s
		go func() {
			defer close(sd)
			r.step(st)
		}()
		select {
		case <-sd:
			continue
		case <-time.After(3*r.bound + 5*time.Second):
			r.ev.add("ZZabandoned")
		}

		break
	}
	// every case closes
	if !r.anyCloserStarted() {
		c := r.newCloser("fb")
		go r.doClose(c, false)
	}
	r.waitClosers()
	returned := r.someCloserReturned()
	var lat []later
	if returned {
		// notifications drain (a non-graceful Close does not wait for them)
		idleBound := r.bound
		if r.poisoned {
			idleBound = 300 * time.Millisecond
		}
		r.waitFor(idleBound, func() bool { return ice.VerifNotifiersIdle(r.A) })
		r.w.lateMark.Store(true)
		lat = r.battery()
		r.waitFor(idleBound, func() bool { return ice.VerifNotifiersIdle(r.A) })
	}
	// blocked callers get the rest of the bound
	r.mu.Lock()
	calls := append([]*callRec(nil), r.calls...)
	closers := append([]*closerRec(nil), r.closers...)
	r.mu.Unlock()
	if returned {
		deadline := time.After(r.bound)
	waitCalls:
		for _, c := range calls {
			select {
			case <-c.done:
			case <-deadline:
				break waitCalls
			}
		}
	}
	// goroutine census: poll until nothing started by the agent is left, up to the bound
	var left []gor
	cdl := time.Now().Add(r.bound)
	if r.poisoned || !returned {
		cdl = time.Now().Add(200 * time.Millisecond)
	}
	for {
		left = census(id)
		if len(left) == 0 || time.Now().After(cdl) {
			break
		}
		time.Sleep(5 * time.Millisecond)
	}

	// ---- observation
	obs = append(obs, "CL", itoa(len(closers)))
	for _, c := range closers {
		obs = append(obs, itoa(c.k), c.class, itoa(c.call), itoa(int(atomic.LoadInt32(&c.ret))), itoa(c.err))
	}
	obs = append(obs, "ST", itoa(len(calls)))
	for _, c := range calls {
		obs = append(obs, itoa(c.idx), Hex(c.api), B(c.spawned), itoa(c.call), itoa(int(atomic.LoadInt32(&c.ret))), itoa(int(atomic.LoadInt32(&c.class))))
	}
	obs = append(obs, "LT", itoa(len(lat)))
	for _, l := range lat {
		obs = append(obs, Hex(l.api), itoa(l.class), itoa(l.effect))
	}
	r.mu.Lock()
	obs = append(obs, "NS", itoa(len(r.states)))
	for _, s := range r.states {
		obs = append(obs, itoa(s))
	}
	r.mu.Unlock()
	obs = append(obs, "LC", itoa(int(r.cbAfter.Load())))
	obs = append(obs, "GR", itoa(len(left)))
	for _, g := range left {
		obs = append(obs, Hex(g.root+"@"+g.top))
	}
	everAbort := false
	evs := r.ev.snapshot()
	for _, e := range evs {
		if strings.HasPrefix(e, "WB") {
			everAbort = true
		}
	}
	obs = append(obs, "FL", B(r.connected.Load()), B(everAbort), B(r.poisoned), B(returned))
	obs = append(obs, "EV", itoa(len(evs)))
	for _, e := range evs {
		obs = append(obs, strings.ReplaceAll(e, " ", "_"))
	}
	flags["connected"], flags["blockedwrite"], flags["poisoned"], flags["returned"] = r.connected.Load(), everAbort, r.poisoned, returned
	// a watchdog expiry outside the scenarios that are built to deadlock: the case is run a second time
	// before it is reported (the machine is shared; a verdict must not depend on one scheduling hiccup)
	if !r.poisoned {
		hang := !returned
		for _, c := range closers {
			if atomic.LoadInt32(&c.ret) == 0 {
				hang = true
			}
		}
		for _, c := range calls {
			if atomic.LoadInt32(&c.class) == clsHang {
				hang = true
			}
		}
		flags["hang"] = hang
	}

	// ---- cleanup: release everything that is still parked
	r.hammerStop.Store(true)
	close(r.stop)
	r.cancel()
	ice.VerifForget(r.A)
	ice.VerifForget(r.B)
	done := make(chan struct{})
	r.asB(func() {
		go func() {
			_ = r.B.Close()
			close(done)
		}()
	})
	select {
	case <-done:
	case <-time.After(bound):
	}
	if !returned {
		// a wedged subject: nothing more to do for it; its goroutines stay parked
		close(r.w.caseDone)

		return obs, flags
	}
	close(r.w.caseDone)

	return obs, flags
}

// ---- generator -------------------------------------------------------------------------------------

type genr struct {
	r *rand.Rand
}

func (g *genr) pick(n int) int { return g.r.Intn(n) }

// gen produces one script.  The session prefix is a canonical ICE session (with random extras);
// the closers are inserted at a uniformly chosen position of it.
func (g *genr) gen(tier string) (toks []string, tag string) {
	if g.pick(16) == 0 {
		// a candidate is published (addCandidate queued behind a running task) after the closer took its
		// snapshot of the started candidates; a tick queued behind it then writes on its socket
		toks = []string{"cl1", "1", "1", "0", "0", "0", "0", "0", "0", "0", "0"}
		for _, s := range [][]string{{"AL"}, {"XR"}, {"PS"}, {"CN"}, {"SL", "3"}, {"TX"}, {"T0"}, {"QL", itoa(g.pick(3))}, {"QT"},
			{"CA", "1", itoa(g.pick(2))}, {"G0"}, {"CW"}} {
			toks = append(toks, ";")
			toks = append(toks, s...)
		}

		return toks, "lateregister"
	}
	if g.pick(16) == 0 {
		// Close while the server-reflexive gatherer is inside a STUN exchange with a silent server
		kind := 1 + g.pick(4) // 1 srflx (STUN read), 2 turns/tcp (TLS handshake), 3 turn/tcp (connect), 4 turns/udp (DTLS handshake)
		toks = []string{"cl1", itoa(g.pick(2)), "1", "0", "0", "0", "0", "0", "0", "0", "0", itoa(kind)}
		n := 1 + g.pick(2)
		ca := []string{"CA", itoa(n)}
		for i := 0; i < n; i++ {
			ca = append(ca, itoa(g.pick(2)))
		}
		sc := [][]string{{"GA", "0"}, {"SL", itoa(1 + g.pick(5))}}
		if g.pick(2) == 0 {
			sc = append(sc, []string{"GQ", itoa(g.pick(len(getterNames)))})
		}
		sc = append(sc, ca, []string{"CW"})
		for _, s := range sc {
			toks = append(toks, ";")
			toks = append(toks, s...)
		}

		return toks, []string{"", "srflxgather", "relaygather_tls", "relaygather_tcpdial", "relaygather_dtls"}[kind]
	}
	ctl := g.pick(2)
	ncand := 1 + g.pick(3)
	fast := 0
	renom := 0
	if ctl == 1 && g.pick(2) == 0 {
		renom = 1
	}
	hdr := []string{"cl1", itoa(ctl), itoa(ncand), "", itoa(renom)}
	for j := 0; j < 3; j++ {
		mode := 0
		switch g.pick(6) {
		case 0:
			mode = 1
		case 1:
			mode = 2
		}
		ce := 0
		if g.pick(4) == 0 {
			ce = 1
		}
		hdr = append(hdr, itoa(mode), itoa(ce))
	}
	// the session
	var sess [][]string
	add := func(s ...string) { sess = append(sess, s) }
	extras := func() {
		for g.pick(3) == 0 {
			switch g.pick(6) {
			case 0:
				add("GT", itoa(g.pick(len(getterNames))))
			case 1:
				add("SC")
			case 2:
				add("UO")
			case 3:
				add("HA", itoa(g.pick(3)), itoa(g.pick(len(getterNames))))
			case 4:
				add("SL", itoa(1+g.pick(3)))
			case 5:
				add("GQ", itoa(g.pick(len(getterNames))))
			}
		}
	}
	via := g.pick(3) // 0 inject, 1 gather and wait, 2 gather slowly (in flight)
	extras()
	switch via {
	case 0:
		add("AL")
	case 1:
		add("GA", "1")
	default:
		add("GA", "2")
	}
	extras()
	add("XR")
	if g.pick(3) == 0 {
		add("AW")
	}
	add("CN")
	extras()
	add("WC")
	if g.pick(2) == 0 {
		add("RD")
	}
	if g.pick(2) == 0 {
		add("WR")
	}
	if g.pick(2) == 0 {
		add("IB")
	}
	extras()
	switch g.pick(5) {
	case 0:
		add("RS")
		if g.pick(2) == 0 {
			add("GA", itoa(1+g.pick(2)))
			add("XR")
			add("WC")
		}
	case 1:
		fast = 1
		add("PS")
		add("SL", itoa(20+g.pick(150)))
	case 2:
		if renom == 1 {
			add("RN")
		}
	}
	extras()
	hdr[3] = itoa(fast)
	// the close point: anywhere, with a bias towards the established session
	pos := g.pick(len(sess) + 1)
	if g.pick(2) == 0 {
		for k, st := range sess {
			if st[0] == "WC" {
				pos = k + 1 + g.pick(len(sess)-k)

				break
			}
		}
	}
	var script [][]string
	script = append(script, sess[:pos]...)
	// faults right before the close: a socket stops accepting writes
	tag = "plain"
	if g.pick(3) == 0 {
		tgt := g.pick(ncand)
		if g.pick(2) == 0 {
			tgt = 9 // the socket of the selected pair
		}
		script = append(script, []string{"BW", itoa(tgt)})
		tag = "blockedwrite"
		if g.pick(2) == 0 {
			script = append(script, []string{"GQ", itoa(g.pick(len(getterNames)))})
		}
	}
	// the closers
	origin := g.pick(10)
	switch {
	case origin < 6: // API goroutines
		n := 1 + g.pick(3)
		ca := []string{"CA", itoa(n)}
		for i := 0; i < n; i++ {
			ca = append(ca, itoa(g.pick(2)))
		}
		script = append(script, ca)
		tag += "_api" + itoa(n)
	case origin < 9: // from inside a notifier callback
		cb := g.pick(3)
		kind := g.pick(2)
		mode := g.pick(2)
		if kind == 1 && mode == 0 && g.pick(4) != 0 {
			mode = 1 // GracefulClose synchronously inside a callback is documented as unsafe: keep it rare
		}
		val := -1
		if cb == 0 && g.pick(2) == 0 {
			val = []int{2, 3, 7}[g.pick(3)] // Checking, Connected, Closed
		}
		script = append(script, []string{"HK", itoa(cb), itoa(kind), itoa(mode), itoa(val)})
		tag += "_cb" + itoa(cb) + []string{"c", "g"}[kind] + []string{"sync", "go"}[mode]
		if g.pick(2) == 0 {
			script = append(script, []string{"CA", "1", itoa(g.pick(2))})
			tag += "_api1"
		}
	default: // from inside the binding request handler (the loop goroutine)
		kind := g.pick(2)
		mode := g.pick(2)
		if mode == 0 && g.pick(3) != 0 {
			mode = 1
		}
		script = append(script, []string{"HK", "3", itoa(kind), itoa(mode), "-1"})
		tag += "_bh" + []string{"c", "g"}[kind] + []string{"sync", "go"}[mode]
	}
	// racing steps, then the rest of the session after a closer returned
	rest := sess[pos:]
	nrace := 0
	if len(rest) > 0 {
		nrace = g.pick(3)
		if nrace > len(rest) {
			nrace = len(rest)
		}
	}
	if g.pick(4) == 0 {
		script = append(script, []string{"RR"})
	}
	script = append(script, rest[:nrace]...)
	script = append(script, []string{"CW"})
	script = append(script, rest[nrace:]...)
	toks = append(toks, hdr...)
	for _, s := range script {
		toks = append(toks, ";")
		toks = append(toks, s...)
	}

	return toks, tag
}

// schedLatency estimates how late the scheduler currently is: the overshoot of a 1 ms sleep and the
// cost of a goroutine hand-off.  On an idle machine both are far below a millisecond.
func schedLatency() time.Duration {
	var worst time.Duration
	for i := 0; i < 3; i++ {
		t0 := time.Now()
		time.Sleep(time.Millisecond)
		if d := time.Since(t0) - time.Millisecond; d > worst {
			worst = d
		}
	}
	ch, done := make(chan struct{}), make(chan struct{})
	t0 := time.Now()
	go func() {
		for i := 0; i < 20; i++ {
			<-ch
		}
		close(done)
	}()
	for i := 0; i < 20; i++ {
		ch <- struct{}{}
	}
	<-done
	if d := time.Since(t0) / 20; d > worst {
		worst = d
	}

	return worst
}

// loadedBound scales the watchdog bound with the observed scheduling latency (the machine is shared:
// a verdict must not depend on how busy it is); it also waits a little for a saturated machine to calm.
func loadedBound(base time.Duration) (time.Duration, bool) {
	lat := schedLatency()
	for i := 0; i < 10 && lat > 50*time.Millisecond; i++ {
		time.Sleep(500 * time.Millisecond)
		lat = schedLatency()
	}
	if lat < 5*time.Millisecond {
		return base, false
	}
	f := int64(lat / (5 * time.Millisecond))
	if f > 12 {
		f = 12
	}
	if f < 2 {
		f = 2
	}

	return base * time.Duration(f), true
}

func runClose(ctx *Ctx) error {
	ctx.Rule = "a case counts when a closer was started while the subject agent had at least one started candidate or a blocked caller"
	bound := 5 * time.Second
	type job struct {
		idx  int
		toks []string
		tag  string
	}
	var jobs []job
	if ctx.Replay != "" {
		for i, l := range ctx.ReplayLines() {
			jobs = append(jobs, job{i, l, "replay"})
		}
	} else {
		n := 240
		if ctx.Tier != "quick" {
			n = 1500
		}
		g := &genr{r: ctx.Rng}
		for i := 0; i < n; i++ {
			toks, tag := g.gen(ctx.Tier)
			jobs = append(jobs, job{i, toks, tag})
		}
	}
	if from, err := strconv.Atoi(os.Getenv("CLOSE_FROM")); err == nil && from > 0 && from < len(jobs) {
		jobs = jobs[from:] // debugging aid: skip the first cases of the generated list
	}
	type result struct {
		obs   []string
		flags map[string]bool
	}
	results := make([]result, len(jobs))
	workers := 8
	if ctx.Tier != "quick" {
		workers = 12
	}
	var wg sync.WaitGroup
	next := int32(-1)
	var hung, loadedCases int32
	started := time.Now()
	budget := 150 * time.Second
	if ctx.Tier != "quick" {
		budget = 900 * time.Second
	}
	if ctx.Replay != "" {
		budget = time.Hour
	}
	for w := 0; w < workers; w++ {
		wg.Add(1)
		go func() {
			defer wg.Done()
			for {
				i := int(atomic.AddInt32(&next, 1))
				if i >= len(jobs) {
					return
				}
				j := jobs[i]
				id := fmt.Sprintf("c%d", j.idx)
				func() {
					defer func() {
						if p := recover(); p != nil {
							results[i] = result{[]string{"PANIC", Hex(fmt.Sprint(p))}, map[string]bool{}}
						}
					}()
					t0 := time.Now()
					pprof.Do(context.Background(), pprof.Labels("case", id), func(context.Context) {
						// when hangs are systemic (a broken close path) the full bound per call would
						// make the run take hours: the verdict is already in, so shorten it
						b, loaded := loadedBound(bound)
						if loaded {
							atomic.AddInt32(&loadedCases, 1)
						}
						if atomic.LoadInt32(&hung) >= 12 {
							b = 1500 * time.Millisecond
						}
						if time.Since(started) > budget {
							return // out of time: the remaining cases are not run
						}
						obs, fl := runCase(id, j.toks, b)
						if !fl["returned"] && !fl["poisoned"] {
							atomic.AddInt32(&hung, 1)
						}
						results[i] = result{obs, fl}
					})
					if d := time.Since(t0); d > time.Second && os.Getenv("CLOSE_DEBUG") != "" {
						fmt.Fprintf(os.Stderr, "slow case %s %v tag=%s %s\n", id, d.Round(time.Millisecond), j.tag, strings.Join(j.toks, " "))
					}
				}()
			}
		}()
	}
	wg.Wait()
	// second chance for watchdog expiries, one case at a time (a quiet moment)
	retried := 0
	for i, j := range jobs {
		if results[i].flags["hang"] && retried < 16 && time.Since(started) < budget+3*time.Minute {
			retried++
			if os.Getenv("CLOSE_DEBUG") != "" {
				fmt.Fprintf(os.Stderr, "retry %s tag=%s %s\n", fmt.Sprintf("c%d", j.idx), j.tag, strings.Join(j.toks, " "))
			}
			ctx.Count("retried_after_watchdog")
			id := fmt.Sprintf("r%d", j.idx)
			func() {
				defer func() {
					if p := recover(); p != nil {
						results[i] = result{[]string{"PANIC", Hex(fmt.Sprint(p))}, map[string]bool{}}
					}
				}()
				pprof.Do(context.Background(), pprof.Labels("case", id), func(context.Context) {
					b, _ := loadedBound(bound)
					obs, fl := runCase(id, j.toks, b)
					results[i] = result{obs, fl}
				})
			}()
		}
	}
	if n := atomic.LoadInt32(&loadedCases); n > 0 {
		ctx.Dist["cases_run_with_scaled_watchdog"] = int(n)
	}
	for i, j := range jobs {
		res := results[i]
		if res.obs == nil {
			ctx.Count("not_run_out_of_time")

			continue
		}
		ctx.Count("tag:" + j.tag)
		keys := make([]string, 0, len(res.flags))
		for k, v := range res.flags {
			if v {
				keys = append(keys, k)
			}
		}
		sort.Strings(keys)
		for _, k := range keys {
			ctx.Count("reached:" + k)
		}
		ctx.Emit(j.tag, j.toks, res.obs, res.flags["returned"] || res.flags["poisoned"])
	}

	return nil
}
