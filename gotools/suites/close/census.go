package main

// Goroutine census.  Every case runs inside pprof.Do with the label case=<id>; goroutines inherit
// the labels of the goroutine that starts them, so every goroutine started (transitively) by the
// case's agents carries the label.  A goroutine "started by the agent" is one whose entry function
// (the outermost frame) lies in a pion package; goroutines whose entry function is the harness's
// (package main: API callers, tickers, readers) are the application's, even when they are parked
// inside the library.

import (
	"bytes"
	"runtime/pprof"
	"sort"
	"strings"
)

type gor struct {
	count int
	root  string
	top   string
}

// census returns the goroutines labelled case=<id> whose entry function is in a pion package.
func census(id string) []gor {
	var buf bytes.Buffer
	if err := pprof.Lookup("goroutine").WriteTo(&buf, 1); err != nil {
		return nil
	}
	want := `"case":"` + id + `"`
	var out []gor
	for _, block := range strings.Split(buf.String(), "\n\n") {
		lines := strings.Split(block, "\n")
		if len(lines) < 2 {
			continue
		}
		labelled := false
		var frames []string
		count := 1
		for i, l := range lines {
			if i == 0 || (len(l) > 0 && l[0] != '#') {
				// "N @ pc pc ..." header (the very first block also has the "goroutine profile:" line)
				f := strings.Fields(l)
				if len(f) >= 2 && f[1] == "@" {
					n := 0
					for _, ch := range f[0] {
						if ch < '0' || ch > '9' {
							n = -1

							break
						}
						n = n*10 + int(ch-'0')
					}
					if n > 0 {
						count = n
					}
				}

				continue
			}
			if strings.HasPrefix(l, "# labels:") {
				if strings.Contains(l, want) {
					labelled = true
				}

				continue
			}
			if strings.HasPrefix(l, "#\t") {
				f := strings.Split(l, "\t")
				if len(f) >= 3 {
					fn := f[2]
					if k := strings.LastIndex(fn, "+0x"); k > 0 {
						fn = fn[:k]
					}
					frames = append(frames, fn)
				}
			}
		}
		if !labelled || len(frames) == 0 {
			continue
		}
		root := frames[len(frames)-1]
		if !strings.Contains(root, "github.com/pion/") {
			continue
		}
		out = append(out, gor{count: count, root: shortFn(root), top: shortFn(frames[0])})
	}
	sort.Slice(out, func(i, j int) bool { return out[i].root < out[j].root })

	return out
}

func shortFn(fn string) string {
	fn = strings.TrimPrefix(fn, "github.com/pion/")

	return fn
}
