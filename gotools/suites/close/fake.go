package main

// Harness-owned network of suite "close" (C08).  Nothing touches the OS.
//
// A world holds the sockets of both agents of one case (subject A, peer B), keyed by address; a
// datagram written to an address is queued at the socket bound to it.  Every socket can be made
// to behave like a socket whose peer stopped reading: WriteTo blocks until the socket is aborted.
// What "aborted" means is the fault mode of the socket:
//
//	mode 0   SetDeadline(past) and Close both release blocked I/O (a kernel socket)
//	mode 1   only Close releases; SetDeadline is unsupported (returns an error, no effect)
//	mode 2   only a deadline releases I/O that is already blocked; Close marks the socket closed
//	         (later calls fail) and reports its error, but does not wake blocked calls
//
// closeErr: Close returns an error (it still closes).  ReadFrom always blocks until a datagram
// arrives or the socket is aborted ("read blocks").
//
// Sockets log sound event stamps into the case's event log (under the log's mutex, inside the
// action they name):
//
//	AB<c>   first abort of A's socket c (SetDeadline(past) or Close, whichever comes first)
//	CC<c>   first Close of A's socket c
//	WBl<c> / WBa<c>   a WriteTo on c starts blocking, on the loop goroutine / on another goroutine
//	WR<c>   a blocked WriteTo on c returned
//	RX<c>   a ReadFrom on c returned an error (recvLoop is about to exit)
//	SC<c>   socket c was created (ListenUDP or handed to addCandidate by the script)
//	RD<c>   the first ReadFrom on c (the candidate's recvLoop runs)
//	SA<c>   the agent owns socket c (it listened on it, or addCandidate accepted it)

import (
	"errors"
	"fmt"
	"io"
	"net"
	"os"
	"runtime"
	"strings"
	"sync"
	"sync/atomic"
	"time"

	"github.com/pion/transport/v4"
)

type evlog struct {
	mu   sync.Mutex
	toks []string
	max  int
}

func (l *evlog) add(tok string) int {
	l.mu.Lock()
	defer l.mu.Unlock()
	if len(l.toks) < l.max {
		l.toks = append(l.toks, tok)
	}

	return len(l.toks)
}

// stamp returns the current position in the log (a logical time).
func (l *evlog) stamp() int {
	l.mu.Lock()
	defer l.mu.Unlock()

	return len(l.toks)
}

func (l *evlog) snapshot() []string {
	l.mu.Lock()
	defer l.mu.Unlock()

	return append([]string(nil), l.toks...)
}

type pkt struct {
	data []byte
	from net.Addr
}

type world struct {
	mu       sync.Mutex
	conns    map[string]*fconn
	nextPort int
	ev       *evlog
	caseDone chan struct{}  // closed when the case is over: releases everything that is still parked
	silent   [2]atomic.Bool // datagrams written by side i are dropped
	// writes attempted on A's sockets after the marker was set (later calls must have no effect)
	lateMark   atomic.Bool
	lateWrites atomic.Int32
	nconn      [2]int
}

func newWorld(ev *evlog) *world {
	return &world{conns: map[string]*fconn{}, nextPort: 40000, ev: ev, caseDone: make(chan struct{})}
}

type fconn struct {
	w        *world
	side     int
	id       int // index among the side's sockets
	laddr    *net.UDPAddr
	raddr    *net.UDPAddr // set for a connected socket (DialUDP)
	mu       sync.Mutex
	closed   bool
	closedCh chan struct{}
	dlSet    bool
	dlCh     chan struct{}
	aborted  bool
	mode     int
	closeErr bool
	blockW   atomic.Bool
	inbox    chan pkt
	blocked  chan struct{} // closed when the first write blocks
	blkOnce  sync.Once
	rdOnce   sync.Once
	nblocked atomic.Int32
	closes   int
}

func (w *world) newConn(side int, ip net.IP, port int, mode int, closeErr bool) *fconn {
	w.mu.Lock()
	defer w.mu.Unlock()
	if port == 0 {
		w.nextPort++
		port = w.nextPort
	}
	c := &fconn{
		w: w, side: side, id: w.nconn[side], laddr: &net.UDPAddr{IP: append(net.IP{}, ip...), Port: port},
		closedCh: make(chan struct{}), dlCh: make(chan struct{}), mode: mode, closeErr: closeErr,
		inbox: make(chan pkt, 512), blocked: make(chan struct{}),
	}
	w.nconn[side]++
	w.conns[c.laddr.String()] = c
	if side == 0 {
		w.ev.add("SC" + c.name())
	}

	return c
}

func (c *fconn) name() string { return fmt.Sprint(c.id) }

func (c *fconn) log(tok string) {
	if c.side == 0 {
		c.w.ev.add(tok)
	}
}

// release channels of the socket according to its fault mode
func (c *fconn) relClose() <-chan struct{} {
	if c.mode == 2 {
		return nil
	}

	return c.closedCh
}

func (c *fconn) relDeadline() <-chan struct{} {
	if c.mode == 1 {
		return nil
	}
	c.mu.Lock()
	defer c.mu.Unlock()

	return c.dlCh
}

type timeoutErr struct{}

func (timeoutErr) Error() string   { return "i/o timeout" }
func (timeoutErr) Timeout() bool   { return true }
func (timeoutErr) Temporary() bool { return true }
func (timeoutErr) Is(t error) bool { return t == os.ErrDeadlineExceeded }

func onLoopGoroutine() bool {
	var pcs [48]uintptr
	n := runtime.Callers(2, pcs[:])
	frames := runtime.CallersFrames(pcs[:n])
	for {
		f, more := frames.Next()
		if strings.Contains(f.Function, "taskloop.(*Loop).runLoop") {
			return true
		}
		if !more {
			return false
		}
	}
}

func (c *fconn) state() (closed, dl bool) {
	c.mu.Lock()
	defer c.mu.Unlock()

	return c.closed, c.dlSet && c.mode != 1
}

func (c *fconn) WriteTo(p []byte, addr net.Addr) (int, error) {
	closed, dl := c.state()
	if c.side == 0 && c.w.lateMark.Load() {
		c.w.lateWrites.Add(1)
	}
	if closed {
		return 0, net.ErrClosed
	}
	if dl {
		return 0, &net.OpError{Op: "write", Net: "udp", Err: timeoutErr{}}
	}
	if c.blockW.Load() {
		if onLoopGoroutine() {
			c.log("WBl" + c.name())
		} else {
			c.log("WBa" + c.name())
		}
		c.nblocked.Add(1)
		c.blkOnce.Do(func() { close(c.blocked) })
		var err error
		select {
		case <-c.relClose():
			err = net.ErrClosed
		case <-c.relDeadline():
			err = &net.OpError{Op: "write", Net: "udp", Err: timeoutErr{}}
		case <-c.w.caseDone:
			err = net.ErrClosed
		}
		c.nblocked.Add(-1)
		c.log("WR" + c.name())

		return 0, err
	}
	c.w.deliver(c, p, addr)

	return len(p), nil
}

func (w *world) deliver(from *fconn, p []byte, addr net.Addr) {
	if w.silent[from.side].Load() {
		return
	}
	w.mu.Lock()
	dst := w.conns[addr.String()]
	w.mu.Unlock()
	if dst == nil {
		return
	}
	if closed, _ := dst.state(); closed {
		return
	}
	select {
	case dst.inbox <- pkt{append([]byte(nil), p...), from.laddr}:
	default:
	}
}

func (c *fconn) ReadFrom(p []byte) (int, net.Addr, error) {
	c.rdOnce.Do(func() { c.log("RD" + c.name()) })
	closed, dl := c.state()
	if closed {
		c.log("RX" + c.name())

		return 0, nil, net.ErrClosed
	}
	if dl {
		c.log("RX" + c.name())

		return 0, nil, &net.OpError{Op: "read", Net: "udp", Err: timeoutErr{}}
	}
	select {
	case pk := <-c.inbox:
		n := copy(p, pk.data)

		return n, pk.from, nil
	case <-c.relClose():
		c.log("RX" + c.name())

		return 0, nil, net.ErrClosed
	case <-c.relDeadline():
		c.log("RX" + c.name())

		return 0, nil, &net.OpError{Op: "read", Net: "udp", Err: timeoutErr{}}
	case <-c.w.caseDone:
		return 0, nil, net.ErrClosed
	}
}

func (c *fconn) Close() error {
	c.mu.Lock()
	c.closes++
	if c.closed {
		c.mu.Unlock()

		return net.ErrClosed
	}
	c.closed = true
	first := !c.aborted
	c.aborted = true
	// the stamps are taken before the release so that they precede the released calls' stamps
	if first {
		c.log("AB" + c.name())
	}
	c.log("CC" + c.name())
	close(c.closedCh)
	c.mu.Unlock()
	if c.closeErr {
		return errors.New("fake: close failed")
	}

	return nil
}

func (c *fconn) SetDeadline(t time.Time) error {
	if c.mode == 1 {
		return errors.New("fake: deadlines not supported")
	}
	c.mu.Lock()
	defer c.mu.Unlock()
	if c.closed {
		return net.ErrClosed
	}
	if !t.IsZero() && !t.After(time.Now()) {
		if !c.dlSet {
			c.dlSet = true
			if !c.aborted {
				c.aborted = true
				c.log("AB" + c.name())
			}
			close(c.dlCh)
		}
	} else if c.dlSet {
		c.dlSet = false
		c.dlCh = make(chan struct{})
	}

	return nil
}

func (c *fconn) SetReadDeadline(t time.Time) error  { return c.SetDeadline(t) }
func (c *fconn) SetWriteDeadline(t time.Time) error { return c.SetDeadline(t) }
func (c *fconn) LocalAddr() net.Addr                { return c.laddr }
func (c *fconn) RemoteAddr() net.Addr {
	if c.raddr != nil {
		return c.raddr
	}

	return nil
}
func (c *fconn) SetReadBuffer(int) error  { return nil }
func (c *fconn) SetWriteBuffer(int) error { return nil }
func (c *fconn) Read(b []byte) (int, error) {
	n, _, err := c.ReadFrom(b)

	return n, err
}
func (c *fconn) Write(b []byte) (int, error) {
	if c.raddr == nil {
		return 0, errors.New("fake: not connected")
	}

	return c.WriteTo(b, c.raddr)
}
func (c *fconn) ReadFromUDP(b []byte) (int, *net.UDPAddr, error) {
	n, a, err := c.ReadFrom(b)
	ua, _ := a.(*net.UDPAddr)

	return n, ua, err
}
func (c *fconn) ReadMsgUDP(b, _ []byte) (int, int, int, *net.UDPAddr, error) {
	n, a, err := c.ReadFromUDP(b)

	return n, 0, 0, a, err
}
func (c *fconn) WriteToUDP(b []byte, addr *net.UDPAddr) (int, error) { return c.WriteTo(b, addr) }
func (c *fconn) WriteMsgUDP(b, _ []byte, addr *net.UDPAddr) (int, int, error) {
	n, err := c.WriteTo(b, addr)

	return n, 0, err
}

func (c *fconn) isClosed() bool {
	closed, _ := c.state()

	return closed
}

// ---- transport.Net of one side --------------------------------------------------------------

type fnet struct {
	w             *world
	side          int
	ip            net.IP
	ifaces        []*transport.Interface
	gate          chan struct{} // when non-nil, Interfaces() parks until it is closed (a slow OS call)
	tcpDialBlocks bool
	modes         []int // fault modes of the sockets handed out by ListenUDP, by order of creation
	closeErr      []bool
	mu            sync.Mutex
	listened      []*fconn
}

var errNotSupported = errors.New("fake: not supported")

func newFnet(w *world, side int, ip net.IP) *fnet {
	fl := net.FlagUp
	ifc := transport.NewInterface(net.Interface{Index: 1, MTU: 1500, Name: "eth0", Flags: fl})
	ifc.AddAddress(&net.IPNet{IP: ip, Mask: net.CIDRMask(24, 32)})

	return &fnet{w: w, side: side, ip: ip, ifaces: []*transport.Interface{ifc}}
}

func (n *fnet) Interfaces() ([]*transport.Interface, error) {
	n.mu.Lock()
	g := n.gate
	n.mu.Unlock()
	if g != nil {
		select {
		case <-g:
		case <-n.w.caseDone:
		}
	}

	return n.ifaces, nil
}

func (n *fnet) InterfaceByIndex(index int) (*transport.Interface, error) {
	for _, i := range n.ifaces {
		if i.Index == index {
			return i, nil
		}
	}

	return nil, transport.ErrInterfaceNotFound
}

func (n *fnet) InterfaceByName(name string) (*transport.Interface, error) {
	for _, i := range n.ifaces {
		if i.Name == name {
			return i, nil
		}
	}

	return nil, transport.ErrInterfaceNotFound
}

func (n *fnet) ListenPacket(network string, address string) (net.PacketConn, error) {
	a, err := net.ResolveUDPAddr(network, address)
	if err != nil {
		return nil, err
	}

	return n.ListenUDP(network, a)
}

func (n *fnet) ListenUDP(_ string, locAddr *net.UDPAddr) (transport.UDPConn, error) {
	ip := n.ip
	port := 0
	if locAddr != nil {
		if len(locAddr.IP) != 0 && !locAddr.IP.IsUnspecified() {
			ip = locAddr.IP
		}
		port = locAddr.Port
	}
	n.mu.Lock()
	k := len(n.listened)
	mode, ce := 0, false
	if k < len(n.modes) {
		mode, ce = n.modes[k], n.closeErr[k]
	}
	n.mu.Unlock()
	c := n.w.newConn(n.side, ip, port, mode, ce)
	c.log("SA" + c.name()) // the agent owns what it listens on
	n.mu.Lock()
	n.listened = append(n.listened, c)
	n.mu.Unlock()

	return c, nil
}

func (n *fnet) ListenTCP(string, *net.TCPAddr) (transport.TCPListener, error) {
	return nil, errNotSupported
}
func (n *fnet) Dial(string, string) (net.Conn, error) { return nil, errNotSupported }

// DialUDP hands out a connected UDP socket towards a server that never answers.
func (n *fnet) DialUDP(_ string, _ *net.UDPAddr, raddr *net.UDPAddr) (transport.UDPConn, error) {
	c := n.w.newConn(n.side, n.ip, 0, 0, false)
	c.raddr = raddr
	c.log("SA" + c.name())
	n.mu.Lock()
	n.listened = append(n.listened, c)
	n.mu.Unlock()

	return c, nil
}

// DialTCP: tcpDial 0 connects at once to a server that accepts and then stays silent; tcpDial 1 is
// a connect that never completes (it returns when the case is over).
func (n *fnet) DialTCP(_ string, _ *net.TCPAddr, raddr *net.TCPAddr) (transport.TCPConn, error) {
	if n.tcpDialBlocks {
		n.w.ev.add("TD")
		<-n.w.caseDone

		return nil, errors.New("fake: connect timed out")
	}
	n.w.mu.Lock()
	n.w.nextPort++
	port := n.w.nextPort
	n.w.mu.Unlock()
	c := &ftcp{w: n.w, laddr: &net.TCPAddr{IP: n.ip, Port: port}, raddr: raddr, closedCh: make(chan struct{}), dlCh: make(chan struct{})}
	n.w.ev.add("TC")

	return c, nil
}

// ftcp is a TCP connection to a silent server: writes succeed, reads block until Close or a
// deadline in the past.
type ftcp struct {
	w        *world
	laddr    *net.TCPAddr
	raddr    *net.TCPAddr
	mu       sync.Mutex
	closed   bool
	closedCh chan struct{}
	dlSet    bool
	dlCh     chan struct{}
}

func (c *ftcp) Read([]byte) (int, error) {
	c.mu.Lock()
	dl := c.dlCh
	c.mu.Unlock()
	select {
	case <-c.closedCh:
		return 0, net.ErrClosed
	case <-dl:
		return 0, &net.OpError{Op: "read", Net: "tcp", Err: timeoutErr{}}
	case <-c.w.caseDone:
		return 0, net.ErrClosed
	}
}

func (c *ftcp) Write(b []byte) (int, error) {
	c.mu.Lock()
	defer c.mu.Unlock()
	if c.closed {
		return 0, net.ErrClosed
	}

	return len(b), nil
}

func (c *ftcp) Close() error {
	c.mu.Lock()
	defer c.mu.Unlock()
	if c.closed {
		return net.ErrClosed
	}
	c.closed = true
	c.w.ev.add("TX")
	close(c.closedCh)

	return nil
}

func (c *ftcp) SetDeadline(t time.Time) error {
	c.mu.Lock()
	defer c.mu.Unlock()
	if !t.IsZero() && !t.After(time.Now()) {
		if !c.dlSet {
			c.dlSet = true
			close(c.dlCh)
		}
	} else if c.dlSet {
		c.dlSet = false
		c.dlCh = make(chan struct{})
	}

	return nil
}
func (c *ftcp) SetReadDeadline(t time.Time) error      { return c.SetDeadline(t) }
func (c *ftcp) SetWriteDeadline(time.Time) error       { return nil }
func (c *ftcp) LocalAddr() net.Addr                    { return c.laddr }
func (c *ftcp) RemoteAddr() net.Addr                   { return c.raddr }
func (c *ftcp) CloseRead() error                       { return nil }
func (c *ftcp) CloseWrite() error                      { return nil }
func (c *ftcp) ReadFrom(io.Reader) (int64, error)      { return 0, errNotSupported }
func (c *ftcp) SetLinger(int) error                    { return nil }
func (c *ftcp) SetKeepAlive(bool) error                { return nil }
func (c *ftcp) SetKeepAlivePeriod(time.Duration) error { return nil }
func (c *ftcp) SetNoDelay(bool) error                  { return nil }
func (c *ftcp) SetWriteBuffer(int) error               { return nil }
func (c *ftcp) SetReadBuffer(int) error                { return nil }
func (n *fnet) ResolveIPAddr(network, address string) (*net.IPAddr, error) {
	return net.ResolveIPAddr(network, address)
}
func (n *fnet) ResolveUDPAddr(network, address string) (*net.UDPAddr, error) {
	return net.ResolveUDPAddr(network, address) // IP literals only
}
func (n *fnet) ResolveTCPAddr(network, address string) (*net.TCPAddr, error) {
	return net.ResolveTCPAddr(network, address)
}
func (n *fnet) CreateDialer(*net.Dialer) transport.Dialer                   { return nil }
func (n *fnet) CreateListenConfig(*net.ListenConfig) transport.ListenConfig { return nil }
