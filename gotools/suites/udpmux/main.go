package main

// suite "udpmux" (C12): histories of GetConn / WriteTo / inbound datagram / read error /
// RemoveConnByUfrag / handle Close / mux Close / Read on the real UDPMuxDefault over a
// harness-owned net.PacketConn.  One history = one observation line:
//
//   cfg <unspec> <removeCloses> <flavour> ; op ; op ; ...  =>  res snap ; res snap ; ...
//
// The fake's ReadFrom hands out the next datagram only when connWorker asks for it, so after
// injecting datagram k the harness waits until the worker asks for k+1: the dispatch of k is then
// complete.  The watcher goroutines started by GetConn (<-CloseChannel(); RemoveConnByUfrag) are
// waited for by counting goroutines (base + worker + one per open muxed connection).
//
// op tokens:   G <ufrag> <is6> <addrOK>          GetConn
//              W <h> <via> A <addr> <len> | W <h> <via> P|I|N <len>   WriteTo / WriteToAddrPort(via=1)
//              I <addr> <kind R|U|N|B> <username> <bytes>             inbound datagram
//              E <k>     read error: 0 timeout, 1 EOF, 2 other, 3 non-UDP address, 4 invalid address
//              X <ufrag> RemoveConnByUfrag      C <h> handle Close      M mux Close
//              R <h> <buflen> <via>              SetReadDeadline(past); ReadFrom / ReadFromAddrPort(via=1)
// addr token:  <is6>-<ip>-<zone>-<port>          (ip decimal: 32 or 128 bit; zone 0 = none)

import (
	"encoding/binary"
	"errors"
	"fmt"
	"io"
	"math/big"
	"net"
	"net/netip"
	"os"
	"runtime"
	"sort"
	"strconv"
	"strings"
	"sync"
	"time"

	ice "github.com/pion/ice/v4"
	"github.com/pion/stun/v3"
	"github.com/pion/transport/v4/stdnet"

	. "verif/gotools/hlib"
)

func main() { Main("udpmux", runMux) }

// ---------------------------------------------------------------------------------------------
type nopLogger struct{}

func (nopLogger) Trace(string)          {}
func (nopLogger) Tracef(string, ...any) {}
func (nopLogger) Debug(string)          {}
func (nopLogger) Debugf(string, ...any) {}
func (nopLogger) Info(string)           {}
func (nopLogger) Infof(string, ...any)  {}
func (nopLogger) Warn(string)           {}
func (nopLogger) Warnf(string, ...any)  {}
func (nopLogger) Error(string)          {}
func (nopLogger) Errorf(string, ...any) {}

// ---------------------------------------------------------------------------------------------
// addresses
type addrT struct {
	is6  bool
	ip   *big.Int
	zone int
	port int
}

var zoneNames = []string{"", "z1", "z2", "z3"}

func zoneIdx(z string) int {
	for i, n := range zoneNames {
		if n == z {
			return i
		}
	}
	return 99
}

func (a addrT) tok() string {
	return fmt.Sprintf("%s-%s-%d-%d", B(a.is6), a.ip.String(), a.zone, a.port)
}

func parseAddrTok(t string) addrT {
	p := strings.Split(t, "-")
	if len(p) != 4 {
		panic("bad addr token " + t)
	}
	ip, ok := new(big.Int).SetString(p[1], 10)
	if !ok {
		panic("bad addr token " + t)
	}
	z, _ := strconv.Atoi(p[2])
	port, _ := strconv.Atoi(p[3])
	return addrT{is6: p[0] == "1", ip: ip, zone: z, port: port}
}

func (a addrT) udp() *net.UDPAddr {
	n := 4
	if a.is6 {
		n = 16
	}
	ip := make([]byte, n)
	a.ip.FillBytes(ip)
	return &net.UDPAddr{IP: ip, Port: a.port, Zone: zoneNames[a.zone]}
}

func fromUDP(u *net.UDPAddr) string {
	if u == nil {
		return "nil"
	}
	switch len(u.IP) {
	case 4:
		return addrT{false, new(big.Int).SetBytes(u.IP), zoneIdx(u.Zone), u.Port}.tok()
	case 16:
		return addrT{true, new(big.Int).SetBytes(u.IP), zoneIdx(u.Zone), u.Port}.tok()
	}
	return "badlen" + strconv.Itoa(len(u.IP))
}

func fromAddrPort(ap netip.AddrPort) string {
	if !ap.IsValid() {
		return "invalid"
	}
	a := ap.Addr()
	if a.Is4() {
		b := a.As4()
		return addrT{false, new(big.Int).SetBytes(b[:]), zoneIdx(a.Zone()), int(ap.Port())}.tok()
	}
	b := a.As16()
	return addrT{true, new(big.Int).SetBytes(b[:]), zoneIdx(a.Zone()), int(ap.Port())}.tok()
}

func mappedOf(v4 *big.Int) *big.Int {
	m := new(big.Int).Lsh(big.NewInt(0xffff), 32)
	return m.Or(m, v4)
}

func isMapped(a addrT) bool {
	return a.is6 && new(big.Int).Rsh(a.ip, 32).Cmp(big.NewInt(0xffff)) == 0
}

// ---------------------------------------------------------------------------------------------
// the fake socket
type item struct {
	data    []byte
	addr    *net.UDPAddr
	err     error
	notUDP  bool
	invalid bool
}

type fake struct {
	local  *net.UDPAddr
	mu     sync.Mutex
	asked  int
	data   chan item
	closed chan struct{}
	once   sync.Once
}

func newFake(local *net.UDPAddr) *fake {
	return &fake{local: local, data: make(chan item), closed: make(chan struct{})}
}

func (f *fake) next() (item, bool) {
	f.mu.Lock()
	f.asked++
	f.mu.Unlock()
	select {
	case it := <-f.data:
		return it, true
	case <-f.closed:
		return item{}, false
	}
}

func (f *fake) isClosed() bool {
	select {
	case <-f.closed:
		return true
	default:
		return false
	}
}

func (f *fake) ReadFrom(b []byte) (int, net.Addr, error) {
	it, ok := f.next()
	if !ok {
		return 0, nil, net.ErrClosed
	}
	if it.err != nil {
		return 0, nil, it.err
	}
	if it.notUDP {
		return copy(b, it.data), &net.TCPAddr{IP: net.IPv4(10, 1, 1, 1), Port: 9}, nil
	}
	if it.invalid {
		return copy(b, it.data), &net.UDPAddr{IP: []byte{1, 2, 3, 4, 5}, Port: 9}, nil
	}
	return copy(b, it.data), it.addr, nil
}

func (f *fake) WriteTo(b []byte, _ net.Addr) (int, error) {
	if f.isClosed() {
		return 0, net.ErrClosed
	}
	return len(b), nil
}
func (f *fake) Close() error                     { f.once.Do(func() { close(f.closed) }); return nil }
func (f *fake) LocalAddr() net.Addr              { return f.local }
func (f *fake) SetDeadline(time.Time) error      { return nil }
func (f *fake) SetReadDeadline(time.Time) error  { return nil }
func (f *fake) SetWriteDeadline(time.Time) error { return nil }

// fakeAP additionally implements ice.AddrPortReaderWriter (the mux then never calls ReadFrom)
type fakeAP struct{ *fake }

func (f fakeAP) ReadFromAddrPort(b []byte) (int, netip.AddrPort, error) {
	it, ok := f.next()
	if !ok {
		return 0, netip.AddrPort{}, net.ErrClosed
	}
	if it.err != nil {
		return 0, netip.AddrPort{}, it.err
	}
	if it.notUDP {
		return 0, netip.AddrPort{}, errors.New("scripted read failure")
	}
	if it.invalid {
		return copy(b, it.data), netip.AddrPort{}, nil
	}
	return copy(b, it.data), it.addr.AddrPort(), nil
}

func (f fakeAP) WriteToAddrPort(b []byte, _ netip.AddrPort) (int, error) {
	if f.isClosed() {
		return 0, net.ErrClosed
	}
	return len(b), nil
}

type timeoutErr struct{}

func (timeoutErr) Error() string   { return "i/o timeout (scripted)" }
func (timeoutErr) Timeout() bool   { return true }
func (timeoutErr) Temporary() bool { return true }

// ---------------------------------------------------------------------------------------------
var theNet *stdnet.Net

type hist struct {
	c       *Ctx
	unspec  bool
	local6  bool
	flavour int
	mux     *ice.UDPMuxDefault
	f       *fake
	handles []net.PacketConn
	hopen   []bool
	hconn   []int
	conns   []any
	connIdx map[any]int
	base    int
	tags    map[string]bool
	caseT   []string
	obsT    []string
	// statistics for the non-trivial rule
	byAddr, byUfrag, dropped, disturb int
	written                           []addrT
	nops                              int
}

func newHist(c *Ctx, unspec, local6 bool, flavour int) *hist {
	h := &hist{c: c, unspec: unspec, local6: local6, flavour: flavour, connIdx: map[any]int{}, tags: map[string]bool{}}
	runtime.Gosched()
	h.base = runtime.NumGoroutine()
	var local *net.UDPAddr
	switch {
	case unspec && !local6:
		local = &net.UDPAddr{IP: net.IPv4zero.To4(), Port: 7000}
	case unspec:
		local = &net.UDPAddr{IP: net.IPv6unspecified, Port: 7000}
	case !local6:
		local = &net.UDPAddr{IP: net.IP{10, 9, 8, 7}, Port: 7000}
	default:
		local = &net.UDPAddr{IP: net.ParseIP("2001:db8::7"), Port: 7000}
	}
	h.f = newFake(local)
	var pc net.PacketConn = h.f
	if flavour == 1 {
		pc = fakeAP{h.f}
	}
	h.mux = ice.NewUDPMuxDefault(ice.UDPMuxParams{Logger: nopLogger{}, UDPConn: pc, Net: theNet})
	h.waitAsked(1)
	return h
}

func (h *hist) waitAsked(n int) bool {
	deadline := time.Now().Add(5 * time.Second)
	for i := 0; ; i++ {
		h.f.mu.Lock()
		a := h.f.asked
		h.f.mu.Unlock()
		if a >= n || h.f.isClosed() {
			return true
		}
		if time.Now().After(deadline) {
			return false
		}
		if i < 200 {
			runtime.Gosched()
		} else {
			time.Sleep(20 * time.Microsecond)
		}
	}
}

var muxStackBuf = make([]byte, 1<<16)

// muxGoroutines counts the goroutines that are inside UDPMuxDefault code (connWorker, the GetConn watchers).
func muxGoroutines() int {
	for {
		n := runtime.Stack(muxStackBuf, true)
		if n < len(muxStackBuf) {
			cnt := 0
			for _, blk := range strings.Split(string(muxStackBuf[:n]), "\n\n") {
				if k := strings.Index(blk, "created by "); k >= 0 {
					blk = blk[:k]
				}
				// (the goroutine taking the dump -- the harness itself, possibly inside a mux call -- is "running")
				if strings.Contains(blk, "(*UDPMuxDefault)") && !strings.Contains(strings.SplitN(blk, "\n", 2)[0], "[running]") {
					cnt++
				}
			}
			return cnt
		}
		muxStackBuf = make([]byte, 2*len(muxStackBuf))
	}
}

// quiesce waits until the worker and the watcher goroutines have settled.
func (h *hist) quiesce() bool {
	deadline := time.Now().Add(5 * time.Second)
	for i := 0; ; i++ {
		expected := h.base
		if !h.mux.IsClosed() {
			expected++
		}
		for _, id := range h.conns {
			if !ice.VerifUDPMuxConnSnapshot(id).Closed {
				expected++
			}
		}
		if runtime.NumGoroutine() == expected && muxGoroutines() == expected-h.base {
			// the process-wide count alone can match by coincidence (a runtime helper goroutine that was part
			// of the base has exited while a watcher is still running): the mux's own goroutines are counted
			// from their stacks as well
			return true
		}
		if time.Now().After(deadline) {
			return false
		}
		if i < 200 {
			runtime.Gosched()
		} else {
			time.Sleep(20 * time.Microsecond)
		}
	}
}

func (h *hist) cid(id any) string {
	if i, ok := h.connIdx[id]; ok {
		return strconv.Itoa(i)
	}
	return "?"
}

func (h *hist) snapshot() string {
	closed, m4, m6, am := ice.VerifUDPMuxSnapshot(h.mux)
	var e4, e6, ea, ec []string
	for k, v := range m4 {
		e4 = append(e4, Hex(k)+"="+h.cid(v))
	}
	for k, v := range m6 {
		e6 = append(e6, Hex(k)+"="+h.cid(v))
	}
	for k, v := range am {
		ea = append(ea, fromAddrPort(k)+"="+h.cid(v))
	}
	sort.Strings(e4)
	sort.Strings(e6)
	sort.Strings(ea)
	for _, id := range h.conns {
		st := ice.VerifUDPMuxConnSnapshot(id)
		var as []string
		for _, a := range st.Addresses {
			as = append(as, fromAddrPort(a))
		}
		ec = append(ec, B(st.Closed)+"_"+strconv.Itoa(st.QueueLen)+"_"+strings.Join(as, "+"))
	}
	return "S" + B(closed) + "/4:" + strings.Join(e4, ",") + "/6:" + strings.Join(e6, ",") + "/A:" + strings.Join(ea, ",") + "/C:" + strings.Join(ec, ",")
}

func (h *hist) registeredConn(ci int) bool {
	_, m4, m6, _ := ice.VerifUDPMuxSnapshot(h.mux)
	for _, v := range m4 {
		if v == h.conns[ci] {
			return true
		}
	}
	for _, v := range m6 {
		if v == h.conns[ci] {
			return true
		}
	}
	return false
}

func errTok(err error) string {
	switch {
	case errors.Is(err, io.ErrClosedPipe):
		return "ECLOSED"
	case errors.Is(err, ice.ErrPort):
		return "EPORT"
	case errors.Is(err, os.ErrDeadlineExceeded):
		return "TIMEOUT"
	case errors.Is(err, io.EOF):
		return "EOF"
	case errors.Is(err, io.ErrShortBuffer):
		return "SHORT"
	case errors.Is(err, net.ErrClosed):
		return "WERR"
	}
	switch err.Error() {
	case "invalid address":
		return "EINVADDR"
	case "invalid ip address":
		return "EIP"
	case "failed to cast net.Addr to net.UDPAddr":
		return "ECAST"
	}
	return "ERR:" + Hex(err.Error())
}

func totalQ(h *hist) (int, []int) {
	t := 0
	var l []int
	for _, id := range h.conns {
		q := ice.VerifUDPMuxConnSnapshot(id).QueueLen
		t += q
		l = append(l, q)
	}
	return t, l
}

// exec runs one operation on the implementation and records case and observation tokens.
func (h *hist) exec(t []string) {
	res := "-"
	func() {
		defer func() {
			if r := recover(); r != nil {
				res = "PANIC:" + Hex(fmt.Sprint(r))
			}
		}()
		switch t[0] {
		case "G":
			ufrag, is6, ok := Unhex(t[1]), t[2] == "1", t[3] == "1"
			var addr *net.UDPAddr
			switch {
			case h.unspec && is6:
				addr = &net.UDPAddr{IP: net.ParseIP("2001:db8::99"), Port: 7000}
			case h.unspec:
				addr = &net.UDPAddr{IP: net.IP{192, 0, 2, 1}, Port: 7000}
			case ok:
				addr = &net.UDPAddr{IP: append(net.IP{}, h.f.local.IP...), Port: 7000}
			case is6:
				addr = &net.UDPAddr{IP: net.ParseIP("2001:db8::7"), Port: 7001}
			default:
				addr = &net.UDPAddr{IP: net.IP{10, 9, 8, 7}, Port: 7001}
			}
			pc, err := h.mux.GetConn(ufrag, addr)
			if err != nil {
				res = errTok(err)
				return
			}
			id, okU := ice.VerifUDPMuxUnderlying(pc)
			if !okU {
				res = "NOUNDERLYING"
				return
			}
			ci, seen := h.connIdx[id]
			if !seen {
				ci = len(h.conns)
				h.connIdx[id] = ci
				h.conns = append(h.conns, id)
			}
			h.handles = append(h.handles, pc)
			h.hopen = append(h.hopen, true)
			h.hconn = append(h.hconn, ci)
			res = fmt.Sprintf("H%dc%d", len(h.handles)-1, ci)
		case "W":
			hi, _ := strconv.Atoi(t[1])
			if hi < 0 || hi >= len(h.handles) {
				res = "BADH"
				return
			}
			via := t[2]
			var n int
			var err error
			ln, _ := strconv.Atoi(t[len(t)-1])
			buf := make([]byte, ln)
			if t[3] == "A" {
				// input class (= not clean_op of Proofs/UdpMuxMonitor.v): a write through an open handle of a
				// connection that is open but no longer registered (removed by RemoveConnByUfrag, not closed)
				ci := h.hconn[hi]
				if h.hopen[hi] && !ice.VerifUDPMuxConnSnapshot(h.conns[ci]).Closed && !h.registeredConn(ci) {
					h.tags["removed_conn_rewrites"] = true
				}
			}
			if via == "1" {
				apc, ok := h.handles[hi].(ice.AddrPortReaderWriter)
				if !ok {
					res = "NOADDRPORT"
					return
				}
				var ap netip.AddrPort
				if t[3] == "A" {
					ap = parseAddrTok(t[4]).udp().AddrPort()
				}
				n, err = apc.WriteToAddrPort(buf, ap)
			} else {
				var dst net.Addr
				switch t[3] {
				case "A":
					a := parseAddrTok(t[4])
					dst = a.udp()
				case "P":
					dst = &net.UDPAddr{IP: net.IP{10, 0, 0, 1}, Port: 65536 + ln}
				case "I":
					dst = &net.UDPAddr{IP: []byte{1, 2, 3}, Port: 5}
				case "N":
					dst = &net.TCPAddr{IP: net.IP{10, 0, 0, 1}, Port: 5}
				}
				n, err = h.handles[hi].WriteTo(buf, dst)
			}
			if err != nil {
				res = errTok(err)
			} else {
				res = "N" + strconv.Itoa(n)
				if t[3] == "A" {
					h.written = append(h.written, parseAddrTok(t[4]))
				}
			}
		case "I":
			if h.mux.IsClosed() {
				return // nobody reads the socket any more
			}
			a := parseAddrTok(t[1])
			data := []byte(Unhex(t[4]))
			before, _ := totalQ(h)
			h.f.mu.Lock()
			asked := h.f.asked
			h.f.mu.Unlock()
			_, _, _, am := ice.VerifUDPMuxSnapshot(h.mux)
			h.f.data <- item{data: data, addr: a.udp()}
			if !h.waitAsked(asked + 1) {
				res = "SYNCTIMEOUT"
			}
			after, _ := totalQ(h)
			switch {
			case after == before:
				h.dropped++
				h.c.Count("routed:dropped")
			default:
				owned := false
				ca := canonTok(a)
				for k := range am {
					if fromAddrPort(k) == ca {
						owned = true
					}
				}
				if owned {
					h.byAddr++
					h.c.Count("routed:by_address")
				} else {
					h.byUfrag++
					h.c.Count("routed:by_ufrag")
				}
			}
		case "E":
			if h.mux.IsClosed() {
				return
			}
			h.f.mu.Lock()
			asked := h.f.asked
			h.f.mu.Unlock()
			var it item
			switch t[1] {
			case "0":
				it.err = timeoutErr{}
			case "1":
				it.err = io.EOF
			case "2":
				it.err = errors.New("scripted read failure")
			case "3":
				it.notUDP = true
			default:
				it.invalid = true
			}
			h.f.data <- it
			if !h.waitAsked(asked + 1) {
				res = "SYNCTIMEOUT"
			}
			if t[1] != "0" {
				h.disturb++
			}
		case "X":
			h.mux.RemoveConnByUfrag(Unhex(t[1]))
			h.disturb++
		case "C":
			hi, _ := strconv.Atoi(t[1])
			if hi < 0 || hi >= len(h.handles) {
				res = "BADH"
				return
			}
			ci := h.hconn[hi]
			// input class (= not clean_op): Close of an open handle of an open, no longer registered connection
			if h.hopen[hi] && !ice.VerifUDPMuxConnSnapshot(h.conns[ci]).Closed && !h.registeredConn(ci) {
				h.tags["removed_conn_closes"] = true
			}
			h.hopen[hi] = false
			if err := h.handles[hi].Close(); err != nil {
				res = errTok(err)
			}
			h.disturb++
		case "M":
			if err := h.mux.Close(); err != nil {
				res = errTok(err)
			}
			h.disturb++
		case "R":
			hi, _ := strconv.Atoi(t[1])
			if hi < 0 || hi >= len(h.handles) {
				res = "BADH"
				return
			}
			bl, _ := strconv.Atoi(t[2])
			buf := make([]byte, bl)
			_ = h.handles[hi].SetReadDeadline(time.Unix(1, 0))
			if t[3] == "1" {
				apc, ok := h.handles[hi].(ice.AddrPortReaderWriter)
				if !ok {
					res = "NOADDRPORT"
					return
				}
				n, ap, err := apc.ReadFromAddrPort(buf)
				if err != nil {
					res = errTok(err)
				} else {
					res = "D" + Hex(string(buf[:n])) + "@" + fromAddrPort(ap)
				}
			} else {
				n, addr, err := h.handles[hi].ReadFrom(buf)
				if err != nil {
					res = errTok(err)
				} else {
					u, _ := addr.(*net.UDPAddr)
					res = "D" + Hex(string(buf[:n])) + "@" + fromUDP(u)
				}
			}
		default:
			panic("unknown op " + t[0])
		}
	}()
	if !h.quiesce() {
		res += "!SYNCTIMEOUT"
	}
	h.c.Count("op:" + t[0])
	h.nops++
	h.caseT = append(h.caseT, ";")
	h.caseT = append(h.caseT, t...)
	if len(h.obsT) > 0 {
		h.obsT = append(h.obsT, ";")
	}
	h.obsT = append(h.obsT, res, h.snapshot())
}

// canonical form of an address token, computed with the harness's own arithmetic (statistics only)
func canonTok(a addrT) string {
	if isMapped(a) {
		return addrT{false, new(big.Int).And(a.ip, big.NewInt(0xffffffff)), 0, a.port}.tok()
	}
	u := a.udp()
	ap := u.AddrPort()
	ad := ap.Addr().Unmap()
	if !(ad.Is6() && (ad.IsLinkLocalUnicast() || ad.IsLinkLocalMulticast())) {
		ad = ad.WithZone("")
	}
	return fromAddrPort(netip.AddrPortFrom(ad, ap.Port()))
}

func (h *hist) drain() {
	for hi := range h.handles {
		for k := 0; k < 1000; k++ {
			via := "0"
			if h.flavour == 1 && (hi+k)%2 == 1 {
				via = "1"
			}
			h.exec([]string{"R", strconv.Itoa(hi), "9000", via})
			last := h.obsT[len(h.obsT)-2]
			if !strings.HasPrefix(last, "D") && last != "SHORT" {
				break
			}
		}
	}
}

func (h *hist) finish(profile string, rc bool) {
	// tear down: nothing of this history may survive into the next one
	_ = h.mux.Close()
	for i, pc := range h.handles {
		if h.hopen[i] {
			_ = pc.Close()
			h.hopen[i] = false
		}
	}
	deadline := time.Now().Add(5 * time.Second)
	for runtime.NumGoroutine() > h.base && time.Now().Before(deadline) {
		time.Sleep(20 * time.Microsecond)
	}
	var tg []string
	for k := range h.tags {
		tg = append(tg, k)
	}
	sort.Strings(tg)
	tag := "plain"
	if len(tg) > 0 {
		tag = strings.Join(tg, "+")
	}
	head := []string{"cfg", B(h.unspec), B(rc), strconv.Itoa(h.flavour), B(h.local6)}
	h.c.Count("profile:" + profile)
	h.c.Count("tag:" + tag)
	h.c.Count(fmt.Sprintf("flavour:%d,unspec:%s", h.flavour, B(h.unspec)))
	nontrivial := h.byAddr > 0 && h.byUfrag > 0 && h.disturb > 0
	h.c.Emit(tag, append(head, h.caseT...), h.obsT, nontrivial)
}

// ---------------------------------------------------------------------------------------------
// does RemoveConnByUfrag close the connection it removes? (selects the model variant)
func probeRemoveCloses() bool {
	f := newFake(&net.UDPAddr{IP: net.IP{10, 9, 8, 7}, Port: 7000})
	mux := ice.NewUDPMuxDefault(ice.UDPMuxParams{Logger: nopLogger{}, UDPConn: f})
	pc, err := mux.GetConn("probe", f.local)
	if err != nil {
		panic(err)
	}
	id, _ := ice.VerifUDPMuxUnderlying(pc)
	mux.RemoveConnByUfrag("probe")
	closed := ice.VerifUDPMuxConnSnapshot(id).Closed
	_ = pc.Close()
	_ = mux.Close()
	time.Sleep(2 * time.Millisecond)
	return closed
}

func runMux(c *Ctx) error {
	c.Rule = "one case = one history (8-90 operations) on a fresh UDPMuxDefault over a scripted socket, 1-4 ufrags (incl. empty, prefix-related and colon-containing ones), address pools with IPv4 / IPv4-mapped / IPv6 / zoned link-local aliases and collisions, both socket flavours (ReadFrom / ReadFromAddrPort); profiles mixed, takeover, reregister, closes, malformed; every handle is drained at the end; plus race cases (200 trials each of WriteTo racing with RemoveConnByUfrag, quiescent state inspected). Non-trivial = at least one datagram routed by address AND one by ufrag AND at least one Remove/Close/fatal read error in the history. Distinct = distinct case lines."
	var err error
	if theNet, err = stdnet.NewNet(); err != nil {
		return err
	}
	rc := probeRemoveCloses()
	c.Count("probe:remove_closes=" + B(rc))
	if c.Replay != "" {
		for _, t := range c.ReplayLines() {
			replayLine(c, t, rc)
		}
		return nil
	}
	n := 1500
	if c.Tier != "quick" {
		n = 80000
	}
	// scripted corpus first (the design-time probe and its relatives)
	for _, s := range corpus() {
		replayLine(c, strings.Fields(s), rc)
	}
	profiles := []string{"mixed", "mixed", "mixed", "takeover", "reregister", "reregister", "closes", "malformed"}
	for i := 0; i < n; i++ {
		genHistory(c, profiles[c.Rng.Intn(len(profiles))], rc)
	}
	// concurrent probe: WriteTo racing with RemoveConnByUfrag (the schedules part of the property;
	// a search on the implementation, not backed by a theorem)
	races := 15
	if c.Tier != "quick" {
		races = 300
	}
	for i := 0; i < races; i++ {
		raceCase(c, []string{"race", "200", strconv.Itoa(4 + c.Rng.Intn(8)), strconv.Itoa(20 + c.Rng.Intn(200))}, rc)
	}
	return nil
}

// raceCase: `trials` times: one goroutine writes to `writes` fresh addresses through a connection while
// another calls RemoveConnByUfrag for its ufrag (after a short spin); when both are done and the
// watcher goroutines have finished, count the address bindings whose owner is registered nowhere.
func raceCase(c *Ctx, t []string, rc bool) {
	trials, writes, spin := atoi(t[1]), atoi(t[2]), atoi(t[3])
	stale := 0
	for i := 0; i < trials; i++ {
		runtime.Gosched()
		base := runtime.NumGoroutine()
		f := newFake(&net.UDPAddr{IP: net.IP{10, 9, 8, 7}, Port: 7000})
		mux := ice.NewUDPMuxDefault(ice.UDPMuxParams{Logger: nopLogger{}, UDPConn: f})
		pc, err := mux.GetConn("u", f.local)
		if err != nil {
			panic(err)
		}
		var wg sync.WaitGroup
		wg.Add(2)
		start := make(chan struct{})
		go func() {
			defer wg.Done()
			<-start
			for k := 0; k < writes; k++ {
				_, _ = pc.WriteTo([]byte{1}, &net.UDPAddr{IP: net.IP{10, 0, byte(k), 1}, Port: 5000})
			}
		}()
		go func() {
			defer wg.Done()
			<-start
			x := 0
			for k := 0; k < (i*7)%(spin+1); k++ {
				x += k
			}
			_ = x
			mux.RemoveConnByUfrag("u")
		}()
		close(start)
		wg.Wait()
		// quiescence: worker + (watcher of the connection unless it has been closed)
		id, _ := ice.VerifUDPMuxUnderlying(pc)
		deadline := time.Now().Add(2 * time.Second)
		for time.Now().Before(deadline) {
			exp := base + 1
			if !ice.VerifUDPMuxConnSnapshot(id).Closed {
				exp++
			}
			if runtime.NumGoroutine() == exp && muxGoroutines() == exp-base {
				break
			}
			time.Sleep(10 * time.Microsecond)
		}
		_, m4, m6, am := ice.VerifUDPMuxSnapshot(mux)
		for _, owner := range am {
			reg := false
			for _, v := range m4 {
				reg = reg || v == owner
			}
			for _, v := range m6 {
				reg = reg || v == owner
			}
			if !reg {
				stale++
			}
		}
		_ = pc.Close()
		_ = mux.Close()
		for runtime.NumGoroutine() > base && time.Now().Before(deadline) {
			time.Sleep(10 * time.Microsecond)
		}
	}
	tag := "concurrent_remove_write"
	if !rc {
		// RemoveConnByUfrag leaves the connection open: the writer simply goes on binding addresses
		tag = "removed_conn_rewrites_concurrent"
	}
	c.Count("race_trials:" + strconv.Itoa(trials))
	c.Emit(tag, t, []string{strconv.Itoa(stale)}, true)
}

func replayLine(c *Ctx, t []string, rc bool) {
	if len(t) == 4 && t[0] == "race" {
		raceCase(c, t, rc)
		return
	}
	if len(t) < 5 || t[0] != "cfg" {
		panic(fmt.Sprint("udpmux: bad case ", t))
	}
	h := newHist(c, t[1] == "1", t[4] == "1", atoi(t[3]))
	var cur []string
	flush := func() {
		if len(cur) > 0 {
			h.exec(cur)
		}
		cur = nil
	}
	for _, x := range t[5:] {
		if x == ";" {
			flush()
		} else {
			cur = append(cur, x)
		}
	}
	flush()
	h.finish("replay", rc)
}

func atoi(s string) int {
	v, err := strconv.Atoi(s)
	if err != nil {
		panic(err)
	}
	return v
}

// the design-time probe P10 and relatives, as fixed cases
func corpus() []string {
	x := "0-167772417-0-5000" // 10.0.1.1:5000
	y := "0-167772418-0-5001" // 10.0.1.2:5001
	u, v := Hex("uA"), Hex("uB")
	raw := Hex("\x01hello")
	return []string{
		// removed connection writes to a new address and receives from it
		"cfg 1 0 0 0 ; G " + u + " 0 1 ; X " + u + " ; W 0 0 A " + x + " 3 ; I " + x + " R x " + raw + " ; R 0 9000 0",
		// ... also after the ufrag was registered again by somebody else
		"cfg 1 0 0 0 ; G " + u + " 0 1 ; X " + u + " ; G " + u + " 0 1 ; W 0 0 A " + x + " 3 ; I " + x + " R x " + raw + " ; R 0 9000 0 ; R 1 9000 0",
		// a removed connection closed later: its watcher removes whoever holds the ufrag now
		"cfg 1 0 0 0 ; G " + u + " 0 1 ; X " + u + " ; G " + u + " 0 1 ; C 0 ; I " + y + " U " + Hex("uA:r") + " " + stunHex("uA:r", 7) + " ; R 1 9000 0",
		// plain routing: by ufrag, then by address after a write, takeover by a second connection
		"cfg 1 0 1 0 ; G " + u + " 0 1 ; G " + v + " 0 1 ; I " + x + " U " + Hex("uA:r") + " " + stunHex("uA:r", 1) + " ; W 0 0 A " + x + " 3 ; I " + x + " R x " + raw + " ; W 1 1 A " + x + " 3 ; I " + x + " R x " + raw + " ; X " + v + " ; I " + x + " R x " + raw + " ; R 0 9000 0 ; R 0 9000 1 ; R 1 9000 0",
	}
}

func stunHex(username string, seq int) string {
	var tid [stun.TransactionIDSize]byte
	binary.BigEndian.PutUint32(tid[:4], uint32(seq))
	m, err := stun.Build(stun.BindingRequest, stun.NewTransactionIDSetter(tid), stun.NewUsername(username))
	if err != nil {
		panic(err)
	}
	return Hex(string(m.Raw))
}

// ---------------------------------------------------------------------------------------------
// generators
func classify(b []byte) (string, string) {
	if !stun.IsMessage(b) {
		return "R", ""
	}
	m := &stun.Message{Raw: append([]byte{}, b...)}
	if err := m.Decode(); err != nil {
		return "B", ""
	}
	v, err := m.Get(stun.AttrUsername)
	if err != nil {
		return "N", ""
	}
	return "U", string(v)
}

type gen struct {
	c      *Ctx
	h      *hist
	ufrags []string
	pool   []addrT
	seq    int
}

func (g *gen) pickUfrag() string { return g.ufrags[g.c.Rng.Intn(len(g.ufrags))] }

func (g *gen) username() string {
	r := g.c.Rng
	u := g.pickUfrag()
	switch r.Intn(24) {
	case 0:
		return u // no colon: the whole username is the ufrag
	case 1:
		return "nobody:" + u // unknown ufrag
	case 2:
		return u + "x:remote" // a longer ufrag with a registered one as prefix
	case 3:
		return ":" + u // empty ufrag
	case 4:
		return u + ":a:b" // several colons
	case 5:
		return ""
	default:
		return u + ":remote" + strconv.Itoa(r.Intn(3))
	}
}

func (g *gen) payload() []byte {
	r := g.c.Rng
	g.seq++
	var tid [stun.TransactionIDSize]byte
	r.Read(tid[:])
	binary.BigEndian.PutUint32(tid[:4], uint32(g.seq))
	types := []stun.MessageType{stun.BindingRequest, stun.BindingSuccess, stun.NewType(stun.MethodBinding, stun.ClassIndication)}
	switch k := r.Intn(20); {
	case k < 11: // STUN with USERNAME
		setters := []stun.Setter{types[r.Intn(len(types))], stun.NewTransactionIDSetter(tid), stun.NewUsername(g.username())}
		if r.Intn(3) == 0 {
			setters = append(setters, stun.NewSoftware("verif"))
		}
		m, err := stun.Build(setters...)
		if err != nil {
			panic(err)
		}
		b := append([]byte{}, m.Raw...)
		if r.Intn(8) == 0 {
			b = append(b, 1, 2, 3) // trailing bytes after the declared length: still decodes
		}
		return b
	case k < 13: // STUN without USERNAME
		m, err := stun.Build(types[r.Intn(len(types))], stun.NewTransactionIDSetter(tid))
		if err != nil {
			panic(err)
		}
		return append([]byte{}, m.Raw...)
	case k < 15: // looks like STUN, does not decode
		m, err := stun.Build(stun.BindingRequest, stun.NewTransactionIDSetter(tid), stun.NewUsername(g.username()))
		if err != nil {
			panic(err)
		}
		b := append([]byte{}, m.Raw...)
		if r.Intn(2) == 0 {
			binary.BigEndian.PutUint16(b[2:4], binary.BigEndian.Uint16(b[2:4])+4)
		} else {
			b = b[:len(b)-1-r.Intn(3)]
		}
		return b
	default: // not STUN
		var n int
		switch r.Intn(60) {
		case 0, 1, 2:
			n = 0
		case 3:
			n = 1200 + r.Intn(300)
		case 4:
			n = 8192 - r.Intn(2) // receiveMTU and receiveMTU-1
		case 5, 6, 7:
			n = 19 + r.Intn(3) // around the STUN header size
		default:
			n = 1 + r.Intn(40)
		}
		b := make([]byte, n)
		r.Read(b)
		if n >= 4 {
			binary.BigEndian.PutUint32(b[:4], uint32(g.seq))
		}
		if n >= 8 && stun.IsMessage(b) {
			b[4] ^= 0xff
		}
		return b
	}
}

func (g *gen) alias(a addrT) addrT {
	switch {
	case !a.is6:
		return addrT{true, mappedOf(a.ip), 0, a.port}
	case isMapped(a):
		if g.c.Rng.Intn(2) == 0 {
			return addrT{true, a.ip, 1 + g.c.Rng.Intn(2), a.port} // a zone on a mapped address is dropped by Unmap
		}
		return addrT{false, new(big.Int).And(a.ip, big.NewInt(0xffffffff)), 0, a.port}
	default:
		// same IPv6 address with another zone: an alias unless the address is link-local
		return addrT{true, a.ip, (a.zone + 1) % 3, a.port}
	}
}

func (g *gen) source() addrT {
	r := g.c.Rng
	w := g.h.written
	switch k := r.Intn(10); {
	case k < 3 && len(w) > 0:
		return w[r.Intn(len(w))]
	case k < 5 && len(w) > 0:
		return g.alias(w[r.Intn(len(w))])
	default:
		a := g.pool[r.Intn(len(g.pool))]
		if r.Intn(4) == 0 {
			a = g.alias(a)
		}
		return a
	}
}

func (g *gen) dest() addrT {
	a := g.pool[g.c.Rng.Intn(len(g.pool))]
	if g.c.Rng.Intn(5) == 0 {
		a = g.alias(a)
	}
	return a
}

func (g *gen) opGet() []string {
	r := g.c.Rng
	is6 := g.h.local6
	ok := true
	if g.h.unspec {
		is6 = r.Intn(3) == 0
		ok = r.Intn(2) == 0 // ignored by an unspecified mux
	} else if r.Intn(8) == 0 {
		ok = false
	}
	return []string{"G", Hex(g.pickUfrag()), B(is6), B(ok)}
}

func (g *gen) handle() int {
	n := len(g.h.handles)
	if n == 0 || g.c.Rng.Intn(60) == 0 {
		return n + g.c.Rng.Intn(2) // out of range
	}
	return g.c.Rng.Intn(n)
}

func (g *gen) via() string {
	if g.h.flavour == 1 && g.c.Rng.Intn(2) == 0 {
		return "1"
	}
	return "0"
}

func (g *gen) opWrite(h int) []string {
	r := g.c.Rng
	via := g.via()
	ln := strconv.Itoa(r.Intn(50))
	if r.Intn(25) == 0 {
		kinds := []string{"P", "I", "N"}
		k := kinds[r.Intn(3)]
		if via == "1" {
			k = "I"
		}
		return []string{"W", strconv.Itoa(h), via, k, ln}
	}
	return []string{"W", strconv.Itoa(h), via, "A", g.dest().tok(), ln}
}

// a datagram aimed at a ufrag that is registered right now, from a source of the matching
// family that nobody owns (if the pool has one): exercises the by-ufrag route
func (g *gen) targeted() ([]byte, addrT, bool) {
	r := g.c.Rng
	_, m4, m6, am := ice.VerifUDPMuxSnapshot(g.h.mux)
	type reg struct {
		u  string
		v6 bool
	}
	var regs []reg
	for u := range m4 {
		regs = append(regs, reg{u, false})
	}
	for u := range m6 {
		regs = append(regs, reg{u, true})
	}
	if len(regs) == 0 {
		return nil, addrT{}, false
	}
	sort.Slice(regs, func(i, j int) bool {
		if regs[i].u != regs[j].u {
			return regs[i].u < regs[j].u
		}
		return !regs[i].v6 && regs[j].v6
	})
	t := regs[r.Intn(len(regs))]
	owned := map[string]bool{}
	for k := range am {
		owned[fromAddrPort(k)] = true
	}
	var cands []addrT
	for _, a := range g.pool {
		for _, x := range []addrT{a, g.alias(a)} {
			v6 := x.is6 && !isMapped(x)
			if v6 == t.v6 && !owned[canonTok(x)] {
				cands = append(cands, x)
			}
		}
	}
	if len(cands) == 0 {
		return nil, addrT{}, false
	}
	g.seq++
	var tid [stun.TransactionIDSize]byte
	r.Read(tid[:])
	binary.BigEndian.PutUint32(tid[:4], uint32(g.seq))
	m, err := stun.Build(stun.BindingRequest, stun.NewTransactionIDSetter(tid), stun.NewUsername(t.u+":peer"))
	if err != nil {
		panic(err)
	}
	return append([]byte{}, m.Raw...), cands[r.Intn(len(cands))], true
}

func (g *gen) opInbound() []string {
	b := g.payload()
	src := g.source()
	if g.c.Rng.Intn(3) == 0 {
		if tb, ts, ok := g.targeted(); ok {
			b, src = tb, ts
		}
	}
	k, un := classify(b)
	g.c.Count("payload:" + k)
	form := "v4"
	switch {
	case isMapped(src):
		form = "mapped"
	case src.is6 && src.zone > 0:
		form = "v6zone"
	case src.is6:
		form = "v6"
	}
	g.c.Count("source:" + form)
	return []string{"I", src.tok(), k, Hex(un), Hex(string(b))}
}

func (g *gen) opRead(h int) []string {
	bl := "9000"
	switch g.c.Rng.Intn(12) {
	case 0:
		bl = strconv.Itoa(g.c.Rng.Intn(30)) // may be too short: the datagram is then lost (io.ErrShortBuffer)
	case 1:
		bl = "8192"
	}
	return []string{"R", strconv.Itoa(h), bl, g.via()}
}

func genHistory(c *Ctx, profile string, rc bool) {
	r := c.Rng
	unspec := r.Intn(5) != 0
	local6 := r.Intn(3) == 0
	h := newHist(c, unspec, local6, r.Intn(2))
	g := &gen{c: c, h: h}
	all := []string{"u1", "u2", "uA", "", "u", "u1x", "a:b", "\xff\x00z"}
	r.Shuffle(len(all), func(i, j int) { all[i], all[j] = all[j], all[i] })
	g.ufrags = all[:1+r.Intn(4)]
	// address pool: few IPs and ports, so that collisions and aliases are frequent
	v4s := []int64{0x0a000101, 0x0a000102, 0xc0a80001}
	ports := []int{5000, 5001}
	g6, _ := new(big.Int).SetString("20010db8000000000000000000000001", 16)
	ll, _ := new(big.Int).SetString("fe800000000000000000000000000001", 16)
	mc, _ := new(big.Int).SetString("ff020000000000000000000000000001", 16)
	var cand []addrT
	for _, ip := range v4s {
		for _, p := range ports {
			cand = append(cand, addrT{false, big.NewInt(ip), 0, p})
		}
	}
	for _, p := range ports {
		cand = append(cand, addrT{true, g6, 0, p}, addrT{true, ll, 1, p}, addrT{true, ll, 2, p}, addrT{true, ll, 0, p},
			addrT{true, mappedOf(big.NewInt(0x0a000101)), 0, p})
	}
	cand = append(cand, addrT{true, mc, 1, 5000}, addrT{false, big.NewInt(0), 0, 0}, addrT{false, big.NewInt(0xffffffff), 0, 65535})
	r.Shuffle(len(cand), func(i, j int) { cand[i], cand[j] = cand[j], cand[i] })
	g.pool = cand[:2+r.Intn(5)]

	nops := 8 + r.Intn(40)
	if profile == "malformed" {
		nops = 8 + r.Intn(80)
	}
	type w struct{ g, wr, in, x, cl, m, rd, e int }
	weights := map[string]w{
		"mixed":      {12, 22, 36, 5, 6, 1, 14, 3},
		"takeover":   {6, 34, 38, 3, 3, 0, 12, 2},
		"reregister": {14, 22, 30, 14, 8, 0, 10, 2},
		"closes":     {16, 16, 30, 4, 20, 2, 10, 2},
		"malformed":  {10, 20, 30, 8, 10, 2, 15, 5},
	}[profile]
	// preambles
	switch profile {
	case "takeover":
		h.exec(g.opGet())
		h.exec(g.opGet())
		if len(h.handles) >= 2 {
			a := g.dest()
			h.exec([]string{"W", "0", "0", "A", a.tok(), "1"})
			h.exec(g.opInbound())
			h.exec([]string{"W", "1", "0", "A", g.alias(a).tok(), "1"})
		}
	case "reregister":
		h.exec(g.opGet())
		if len(h.handles) >= 1 {
			h.exec(g.opWrite(0))
			h.exec(g.opInbound())
			h.exec([]string{"X", Hex(Unhex(h.caseT[2]))})
			if r.Intn(2) == 0 {
				h.exec([]string{"G", h.caseT[2], h.caseT[3], h.caseT[4]})
			}
		}
	default:
		h.exec(g.opGet())
	}
	total := weights.g + weights.wr + weights.in + weights.x + weights.cl + weights.m + weights.rd + weights.e
	for h.nops < nops {
		k := r.Intn(total)
		switch {
		case k < weights.g:
			h.exec(g.opGet())
		case k < weights.g+weights.wr:
			h.exec(g.opWrite(g.handle()))
		case k < weights.g+weights.wr+weights.in:
			h.exec(g.opInbound())
		case k < weights.g+weights.wr+weights.in+weights.x:
			u := g.pickUfrag()
			if r.Intn(10) == 0 {
				u = "never-registered"
			}
			h.exec([]string{"X", Hex(u)})
		case k < weights.g+weights.wr+weights.in+weights.x+weights.cl:
			h.exec([]string{"C", strconv.Itoa(g.handle())})
		case k < weights.g+weights.wr+weights.in+weights.x+weights.cl+weights.m:
			if h.nops > nops/2 {
				h.exec([]string{"M"})
			}
		case k < weights.g+weights.wr+weights.in+weights.x+weights.cl+weights.m+weights.rd:
			h.exec(g.opRead(g.handle()))
		default:
			e := 0
			if r.Intn(6) == 0 && h.nops > nops/2 {
				e = 1 + r.Intn(4)
			}
			h.exec([]string{"E", strconv.Itoa(e)})
		}
	}
	h.drain()
	h.finish(profile, rc)
}
