package main

import (
	"errors"
	"fmt"
	"net"
	"strconv"
	"strings"
	"sync"
	"time"

	ice "github.com/pion/ice/v4"
	"github.com/pion/stun/v3"
	"github.com/pion/turn/v5"

	gf "verif/gotools/gatherfake"
	. "verif/gotools/hlib"
)

// suite "gatherledger" (C09): fault enumeration over the gatherers of gather.go on a real Agent
// (public API) with counting fakes.  One case is a SCRIPT the harness forces on the agent by means
// of trap points inside the fakes (listen, STUN write/read, LocalAddr, TURN client factory):
//
//	led V SITE DUP ; A pre acq steps a1 a2 ; ... ; T op ...
//	SITE  0 host (own UDP sockets)  1 tcpmux  2 srflx  3 relay
//	A     one gatherer attempt: pre/a1/a2 = action placed before the acquisition / after it /
//	      between the last step and addCandidate (0 none 1 Restart 2 Close 3 Failed 4 Restart then Close);
//	      acq = 1 socket granted, 0 refused; steps: srflx "1" reply "0" timeout "2" closed by the
//	      loop-done watcher (a1 = Close); relay: factory, Listen, Allocate, relayed-address outcomes e.g. "1111", "10", "1110" (address of a family not configured), "1112" (location-tracked address), "1113" (accepted; closing the allocation later reports an error)
//	T     after the cycle: R Restart, F Failed, G a second plain cycle, C Close; a checkpoint
//	      (per-resource open/close-call tallies + number of local candidates) follows each
//
// Observation: checkpoints "P<phase> n<cands> open:calls ..." separated by ";".
func main() { Main("gatherledger", run) }

type attempt struct {
	pre, acq, a1, a2 int
	steps            string
}

type lcase struct {
	variant string
	site    int
	dup     bool
	atts    []attempt
	tail    []string
}

func (l lcase) toks() []string {
	t := []string{"led", l.variant, strconv.Itoa(l.site), B(l.dup)}
	for _, a := range l.atts {
		t = append(t, ";", "A", strconv.Itoa(a.pre), strconv.Itoa(a.acq), a.steps, strconv.Itoa(a.a1), strconv.Itoa(a.a2))
	}
	t = append(t, ";", "T")
	t = append(t, l.tail...)

	return t
}

func parseCase(t []string) lcase {
	var gs [][]string
	cur := []string{}
	for _, x := range t {
		if x == ";" {
			gs = append(gs, cur)
			cur = []string{}
		} else {
			cur = append(cur, x)
		}
	}
	gs = append(gs, cur)
	at := func(s string) int { v, _ := strconv.Atoi(s); return v }
	l := lcase{variant: gs[0][1], site: at(gs[0][2]), dup: gs[0][3] == "1"}
	for _, g := range gs[1:] {
		switch g[0] {
		case "A":
			l.atts = append(l.atts, attempt{pre: at(g[1]), acq: at(g[2]), steps: g[3], a1: at(g[4]), a2: at(g[5])})
		case "T":
			l.tail = g[1:]
		}
	}

	return l
}

// ------------------------------------------------------------------ resources

type resource interface {
	IsOpen() bool
	Calls() int
}

type sockRes struct{ s *gf.Sock }

func (r sockRes) IsOpen() bool { return !r.s.IsClosed() }
func (r sockRes) Calls() int   { return r.s.Calls() }

type borrowedRes struct{ b *gf.Borrowed }

func (r borrowedRes) IsOpen() bool { return !r.b.IsClosed() }
func (r borrowedRes) Calls() int   { return r.b.Calls() }

type clientRes struct{ c *gf.TURNClient }

func (r clientRes) IsOpen() bool { return r.c.Calls() == 0 }
func (r clientRes) Calls() int   { return r.c.Calls() }

type world struct {
	mu        sync.Mutex
	ledger    []resource
	agent     *ice.Agent
	closeWG   sync.WaitGroup
	closed    bool
	restarted bool // a Restart happened since the last GatherCandidates
	script    []attempt
	next      int  // index of the next attempt to start
	armed     bool // traps active (first cycle only)
	trapped   map[interface{}]bool
	pub       int
	cpAtClose string // checkpoint taken by the goroutine of a scripted Close at the moment Close returned
	// gate is closed (the channel, i.e. opened for the gatherers) once the harness holds the done
	// channel of the cycle it just started: no gatherer attempt -- hence no scripted Close -- runs
	// before that, so the harness never misses the end of the cycle and never disarms the traps
	// while the gather goroutine is still working through the script.
	gate chan struct{}
}

func (w *world) add(r resource) {
	w.mu.Lock()
	w.ledger = append(w.ledger, r)
	w.mu.Unlock()
}

// act performs a scripted action from inside a trap (i.e. on a gatherer's stack).
func (w *world) act(code int) {
	if w.closed {
		return // the agent refuses everything once closed
	}
	switch code {
	case 1:
		w.restarted = true
		_ = w.agent.Restart("", "")
	case 2:
		w.closed = true
		w.closeWG.Add(1)
		go func() {
			defer w.closeWG.Done()
			_ = w.agent.Close()
			// the ledger as it is when Close returns: nothing may be released only later
			cp := w.checkpoint(3)
			w.mu.Lock()
			w.cpAtClose = cp
			w.mu.Unlock()
		}()
		// Close has "happened" once the loop is done
		for i := 0; i < 20000; i++ {
			if _, err := w.agent.GetGatheringState(); errors.Is(err, ice.ErrClosed) {
				return
			}
			time.Sleep(50 * time.Microsecond)
		}
	case 3:
		_ = ice.VerifSetConnectionStateFailed(w.agent)
	case 4: // Restart, then Close while the gatherers cancelled by the Restart are still winding down
		w.act(1)
		w.act(2)
	}
}

func (w *world) cur() (attempt, bool) {
	w.mu.Lock()
	defer w.mu.Unlock()
	if !w.armed || w.next == 0 || w.next > len(w.script) {
		return attempt{}, false
	}

	return w.script[w.next-1], true
}

// begin starts the next attempt: its pre action, then its acquisition verdict.
func (w *world) begin() (attempt, bool) {
	w.mu.Lock()
	gate := w.gate
	w.mu.Unlock()
	if gate != nil {
		<-gate
	}
	w.mu.Lock()
	if !w.armed || w.next >= len(w.script) {
		w.next++
		w.mu.Unlock()

		return attempt{acq: 1}, false
	}
	a := w.script[w.next]
	w.next++
	w.mu.Unlock()
	w.act(a.pre)

	return a, true
}

func (w *world) once(key interface{}) bool {
	w.mu.Lock()
	defer w.mu.Unlock()
	if w.trapped[key] {
		return false
	}
	w.trapped[key] = true

	return true
}

const turnHost = "203.0.113.99"

func build(l lcase) (*world, *gf.Net, error) {
	w := &world{script: l.atts, armed: true, trapped: map[interface{}]bool{}}
	n := gf.New()
	naddr := len(l.atts)
	if l.site >= 2 {
		naddr = 1
	}
	var addrs []net.Addr
	for i := 0; i < naddr; i++ {
		last := byte(1 + i)
		if l.dup {
			last = 1 // the same address again: with the single-port range the candidates are Equal
		}
		addrs = append(addrs, &net.IPNet{IP: net.IPv4(10, 9, 0, last).To4(), Mask: net.CIDRMask(24, 32)})
	}
	n.Ifaces = append(n.Ifaces, gf.MakeInterface(1, "eth0", true, false, addrs))
	n.OnOpen = func(s *gf.Sock) {
		if s.Laddr.Port != 5353 {
			w.add(sockRes{s})
		}
	}
	opts := []ice.AgentOption{ice.WithNet(n), ice.WithSTUNGatherTimeout(30 * time.Millisecond), ice.WithMulticastDNSHostName("verif-c09.local")}
	opts = append(opts, ice.WithMulticastDNSMode(ice.MulticastDNSModeDisabled))
	if l.dup {
		opts = append(opts, ice.WithPortRange(6000, 6000)) // the same port for every attempt
	}
	listenTrap := func(_ string, _ net.IP, port int) gf.ListenVerdict {
		if port == 5353 {
			return gf.ListenOK
		}
		a, _ := w.begin()
		if a.acq == 0 {
			return gf.ListenBusy
		}

		return gf.ListenOK
	}
	switch l.site {
	case 0:
		opts = append(opts, ice.WithCandidateTypes([]ice.CandidateType{ice.CandidateTypeHost}),
			ice.WithNetworkTypes([]ice.NetworkType{ice.NetworkTypeUDP4}))
		n.Listen = listenTrap
		n.OnLocalAddr = func(s *gf.Sock) {
			if a, ok := w.cur(); ok && w.once(s) {
				w.act(a.a1)
			}
		}
	case 1:
		opts = append(opts, ice.WithCandidateTypes([]ice.CandidateType{ice.CandidateTypeHost}),
			ice.WithNetworkTypes([]ice.NetworkType{ice.NetworkTypeTCP4}))
		mux := gf.NewTCPMux(7443)
		mux.Fail = func(string, net.IP) bool {
			a, _ := w.begin()

			return a.acq == 0
		}
		mux.OnNew = func(b *gf.Borrowed) {
			w.add(borrowedRes{b})
			b.OnLocalAddr = func(b *gf.Borrowed) {
				if a, ok := w.cur(); ok && w.once(b) {
					w.act(a.a1)
				}
			}
		}
		opts = append(opts, ice.WithTCPMux(mux))
	case 2:
		urls := []*stun.URI{{Scheme: stun.SchemeTypeSTUN, Host: turnHost, Port: 3478, Proto: stun.ProtoTypeUDP}}
		if l.dup {
			urls = append(urls, &stun.URI{Scheme: stun.SchemeTypeTURN, Host: turnHost, Port: 3479, Proto: stun.ProtoTypeUDP, Username: "u", Password: "p"})
		}
		opts = append(opts, ice.WithCandidateTypes([]ice.CandidateType{ice.CandidateTypeServerReflexive}),
			ice.WithNetworkTypes([]ice.NetworkType{ice.NetworkTypeUDP4}), ice.WithUrls(urls))
		n.Listen = listenTrap
		n.OnWrite = func(s *gf.Sock, b []byte, to net.Addr) {
			a, ok := w.cur()
			if ok && w.once([2]interface{}{s, "w"}) {
				w.act(a.a1)
			}
			if ok && a.steps != "1" {
				return // silence: timeout, or the watcher closes the socket
			}
			if raw := gf.BindingReply(b, &net.UDPAddr{IP: net.IPv4(198, 51, 100, 77), Port: 40000}); raw != nil {
				s.Deliver(raw, to)
			}
		}
		n.OnLocalAddr = func(s *gf.Sock) {
			if a, ok := w.cur(); ok && w.once(s) {
				w.act(a.a2)
			}
		}
	case 3:
		urls := []*stun.URI{{Scheme: stun.SchemeTypeTURN, Host: turnHost, Port: 3478, Proto: stun.ProtoTypeUDP, Username: "u", Password: "p"}}
		opts = append(opts, ice.WithCandidateTypes([]ice.CandidateType{ice.CandidateTypeRelay}),
			ice.WithNetworkTypes([]ice.NetworkType{ice.NetworkTypeUDP4}), ice.WithUrls(urls))
		n.Listen = listenTrap
		nclient := 0
		opts = append(opts, ice.VerifWithTURNClientFactory(func(cfg *turn.ClientConfig) (ice.VerifTURNClient, error) {
			a, ok := w.cur()
			steps := "1111"
			if ok {
				w.act(a.a1)
				steps = a.steps
			}
			at := func(i int) byte {
				if i < len(steps) {
					return steps[i]
				}

				return '1'
			}
			if at(0) == '0' {
				return nil, errors.New("factory refused")
			}
			nclient++
			cl := &gf.TURNClient{ID: nclient, Conn: cfg.Conn, Relayed: &net.UDPAddr{IP: net.IPv4(192, 0, 2, 60).To4(), Port: 50000 + nclient}}
			switch at(3) { // the relayed address the server hands out: accepted, or refused after the allocation exists
			case '0': // a family that is not configured (the agent is udp4-only)
				cl.Relayed = &net.UDPAddr{IP: net.ParseIP("2001:db8::60"), Port: 50000 + nclient}
			case '2': // a location-tracked (link-local IPv6) address
				cl.Relayed = &net.UDPAddr{IP: net.ParseIP("fe80::60"), Port: 50000 + nclient}
			}
			if at(1) == '0' {
				cl.ListenErr = errors.New("listen refused")
			}
			if at(2) == '0' {
				cl.AllocErr = errors.New("allocation refused")
			}
			closeFault := at(3) == '3' // the relayed address is accepted; closing the allocation will report an error
			cl.OnAlloc = func(b *gf.Borrowed) {
				if closeFault {
					b.CloseErr = errors.New("fake: closing the allocation failed")
				}
				w.add(borrowedRes{b})
				b.OnLocalAddr = func(b *gf.Borrowed) {
					if a, ok := w.cur(); ok && w.once(b) {
						w.act(a.a2)
					}
				}
			}
			w.add(clientRes{cl})

			return cl, nil
		}))
	}
	a, err := ice.NewAgentWithOptions(opts...)
	if err != nil {
		return nil, nil, err
	}
	w.agent = a

	return w, n, nil
}

func (w *world) checkpoint(phase int) string {
	time.Sleep(2 * time.Millisecond) // watcher goroutines and notifiers drain
	nc := 0
	if !w.closed {
		l, _ := w.agent.GetLocalCandidates()
		nc = len(l)
	}
	w.mu.Lock()
	defer w.mu.Unlock()
	out := []string{"P" + strconv.Itoa(phase), "n" + strconv.Itoa(nc)}
	for _, r := range w.ledger {
		out = append(out, B(r.IsOpen())+":"+strconv.Itoa(r.Calls()))
	}

	return strings.Join(out, " ")
}

func (w *world) gather() bool {
	w.restarted = false
	gate := make(chan struct{})
	w.mu.Lock()
	w.gate = gate
	w.mu.Unlock()
	if err := w.agent.GatherCandidates(); err != nil {
		close(gate)

		return false
	}
	// taken while every gatherer attempt of the new cycle is still held at the gate
	d := ice.VerifGatherDone(w.agent)
	close(gate)
	if d == nil {
		return false
	}
	select {
	case <-d:
	case <-time.After(20 * time.Second):
		return false
	}

	return true
}

func runCase(c *Ctx, t []string) {
	l := parseCase(t)
	tag := []string{"host", "tcpmux", "srflx", "relay"}[l.site]
	hasAct := false
	for _, a := range l.atts {
		if a.pre+a.a1+a.a2 > 0 {
			hasAct = true
		}
		cancels := func(x int) bool { return x == 1 || x == 2 }
		if l.site == 2 && a.acq == 1 && a.steps == "1" && (cancels(a.pre) || cancels(a.a1) || cancels(a.a2)) &&
			!strings.Contains(tag, ",") {
			tag += ",add_fails_after_reply"
		}
	}
	c.Count("site:" + []string{"host", "tcpmux", "srflx", "relay"}[l.site])
	obs, ok := func() (obs []string, ok bool) {
		defer func() {
			if r := recover(); r != nil {
				obs, ok = []string{"PANIC", Hex(fmt.Sprint(r))}, false
			}
		}()
		w, _, err := build(l)
		if err != nil {
			return []string{"NEWERR", Hex(err.Error())}, false
		}
		_ = w.agent.OnCandidate(func(cd ice.Candidate) {
			if cd != nil {
				w.mu.Lock()
				w.pub++
				w.mu.Unlock()
			}
		})
		var cps []string
		if !w.gather() {
			return []string{"GATHERERR"}, false
		}
		w.mu.Lock()
		w.armed = false
		w.mu.Unlock()
		w.closeWG.Wait()
		switch {
		case w.closed:
			w.mu.Lock()
			cp := w.cpAtClose
			w.mu.Unlock()
			if cp == "" {
				cp = w.checkpoint(3)
			}
			cps = append(cps, cp)
		case w.restarted:
			cps = append(cps, w.checkpoint(2))
		default:
			cps = append(cps, w.checkpoint(1))
		}
		for _, op := range l.tail {
			if w.closed {
				break
			}
			switch op {
			case "R":
				_ = w.agent.Restart("", "")
				cps = append(cps, w.checkpoint(2))
			case "F":
				_ = ice.VerifSetConnectionStateFailed(w.agent)
				cps = append(cps, w.checkpoint(2))
			case "G":
				if !w.gather() {
					cps = append(cps, "GATHERERR")
				} else {
					cps = append(cps, w.checkpoint(1))
				}
			case "C":
				_ = w.agent.Close()
				w.closed = true
				cps = append(cps, w.checkpoint(3))
			}
		}
		if !w.closed {
			_ = w.agent.Close()
		}

		return []string{strings.Join(cps, " ; ")}, true
	}()
	var toks []string
	for _, o := range obs {
		toks = append(toks, strings.Fields(o)...)
	}
	c.Emit(tag, t, toks, ok && hasAct)
}

// ------------------------------------------------------------------ generation

func detectVariant() string {
	// srflx: Restart between the STUN reply and addCandidate; is the socket closed afterwards?
	l := lcase{variant: "00", site: 2, atts: []attempt{{acq: 1, steps: "1", a2: 1}}, tail: []string{"C"}}
	w, _, err := build(l)
	if err != nil {
		return "00"
	}
	_ = w.agent.OnCandidate(func(ice.Candidate) {})
	w.gather()
	time.Sleep(2 * time.Millisecond)
	open := 0
	for _, r := range w.ledger {
		if r.IsOpen() {
			open++
		}
	}
	_ = w.agent.Close()

	return B(open == 0) + "0"
}

func stepsFor(site int, c *Ctx, fault bool) string {
	switch site {
	case 2:
		if fault {
			return "0"
		}

		return "1"
	case 3:
		if fault {
			return []string{"0", "10", "110", "1110", "1112"}[c.Rng.Intn(5)]
		}
		if c.Rng.Intn(4) == 0 {
			return "1113" // accepted, but closing the allocation later reports an error
		}

		return "1111"
	}

	return "-"
}

func run(c *Ctx) error {
	c.Rule = "one case = one scripted gathering history on a real Agent (public API) with counting fakes; enumeration: every site x every single fault (listen refused, STUN timeout, TURN factory/Listen/Allocate error, duplicate candidate) x every cancel point (Restart / Close / Failed before the acquisition, after it, between the last step and addCandidate) x tail (Restart, Failed, second cycle, Close), then seeded combinations over several attempts; non-trivial = at least one action placed inside the cycle"
	if c.Replay != "" {
		for _, t := range c.ReplayLines() {
			runCase(c, t)
		}

		return nil
	}
	variant := detectVariant()
	c.Count("variant:" + variant)
	tails := [][]string{{"C"}, {"R", "C"}, {"F", "C"}, {"R", "G", "C"}, {"R", "G", "R", "C"}, {"F", "R", "G", "C"}}
	emit := func(l lcase) {
		l.variant = variant
		runCase(c, l.toks())
	}
	// ---- enumeration: single attempt, every fault x every cancel point
	for site := 0; site < 4; site++ {
		var stepAlts []string
		switch site {
		case 2:
			stepAlts = []string{"1", "0"}
		case 3:
			stepAlts = []string{"1111", "0", "10", "110", "1110", "1112", "1113"}
		default:
			stepAlts = []string{"-"}
		}
		for _, acq := range []int{1, 0} {
			for _, steps := range stepAlts {
				if acq == 0 && steps != stepAlts[0] {
					continue
				}
				for point := 0; point < 4; point++ { // 0 none 1 pre 2 a1 3 a2
					for action := 1; action <= 4; action++ {
						if point == 0 && action > 1 {
							continue
						}
						if action == 4 && (point != 2 || acq == 0) {
							continue // Restart followed by Close: after the acquisition only
						}
						a := attempt{acq: acq, steps: steps}
						switch point {
						case 1:
							a.pre = action
						case 2:
							a.a1 = action
						case 3:
							a.a2 = action
						}
						if point == 3 && site <= 1 {
							continue // host/tcpmux have no step between acquisition and add
						}
						if site == 2 && action == 4 {
							if steps != "1" {
								continue
							}
							a.steps = "2"
						}
						if site == 2 && action == 2 {
							// Close on the srflx site: only where the watcher's outcome is determined
							if point == 1 {
								continue
							}
							if point == 2 {
								if steps != "1" {
									continue
								}
								a.steps = "2"
							}
						}
						for ti, tail := range tails {
							if c.Tier == "quick" && ti > 2 && (site+point+action+ti)%3 != 0 {
								continue
							}
							emit(lcase{site: site, atts: []attempt{a}, tail: tail})
						}
					}
				}
			}
		}
	}
	// ---- duplicates
	for _, site := range []int{0, 2} {
		for _, tail := range tails[:4] {
			l := lcase{site: site, dup: true, tail: tail}
			for i := 0; i < 2+c.Rng.Intn(2); i++ {
				l.atts = append(l.atts, attempt{acq: 1, steps: stepsFor(site, c, false)})
			}
			if site == 2 {
				l.atts = l.atts[:2]
			}
			emit(l)
		}
	}
	// ---- seeded combinations: several attempts (host, tcpmux), faults and actions at random points
	n := 600
	if c.Tier != "quick" {
		n = 30000
	}
	for i := 0; i < n; i++ {
		site := c.Rng.Intn(4)
		l := lcase{site: site, tail: tails[c.Rng.Intn(len(tails))]}
		natt := 1
		if site <= 1 {
			natt = 1 + c.Rng.Intn(4)
			l.dup = site == 0 && c.Rng.Intn(6) == 0
		}
		closed := false
		for j := 0; j < natt; j++ {
			fault := c.Rng.Intn(4) == 0
			a := attempt{acq: 1, steps: stepsFor(site, c, fault)}
			if c.Rng.Intn(5) == 0 {
				a.acq = 0
			}
			pick := func() int {
				if c.Rng.Intn(3) != 0 {
					return 0
				}
				x := 1 + c.Rng.Intn(3)
				if x == 2 {
					if closed || site == 2 {
						return 0
					}
					closed = true
				}

				return x
			}
			a.pre = pick()
			a.a1 = pick()
			if site >= 2 {
				a.a2 = pick()
			}
			l.atts = append(l.atts, a)
		}
		emit(l)
	}

	return nil
}
