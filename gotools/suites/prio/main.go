package main

import (
	"fmt"
	"strconv"

	ice "github.com/pion/ice/v4"

	. "verif/gotools/hlib"
)

// suite "prio" (C17): candidate priorities over configuration sweeps, pair priorities at
// boundaries and random interior points, cross-agent mirror symmetry, foundations.
func main() { Main("prio", runPrio) }

func prioHostWith(prio uint32) ice.Candidate {
	// a candidate whose Priority() is exactly prio (0 cannot be expressed as an override:
	// relay over TLS with component 256 computes 0)
	if prio == 0 {
		c, err := ice.NewCandidateRelay(&ice.CandidateRelayConfig{Network: "udp", Address: "10.0.0.9", Port: 9, Component: 256, RelAddr: "10.0.0.8", RelPort: 8, RelayProtocol: "tls"})
		if err != nil {
			panic(err)
		}
		return c
	}
	c, err := ice.NewCandidateHost(&ice.CandidateHostConfig{Network: "udp", Address: "10.0.0.1", Port: 1000, Component: 1, Priority: prio})
	if err != nil {
		panic(err)
	}
	return c
}

func runPrio(c *Ctx) error {
	c.Rule = "cand: type x network x tcptype x relay protocol x agent/no agent x offset x component (offsets 0..130 + boundaries + random; thorough: all 65536 offsets); non-trivial = TCP network type with an agent offset (the offset takes part) or a relay/TCP local preference; pair: boundary and random uint32 pairs, both roles; mirror: same pair seen by both roles; found: foundation strings; candx: the three values read once, then the component set and the agent attached, then read again (they must follow the current configuration). Distinct = distinct case token lines."
	if c.Replay != "" {
		for _, t := range c.ReplayLines() {
			if err := prioCase(c, t); err != nil {
				return err
			}
		}
		return nil
	}
	protos := []string{"udp", "tcp", "tls", "dtls"}
	var offsets []int
	if c.Tier == "quick" {
		for o := 0; o <= 130; o++ {
			offsets = append(offsets, o)
		}
		offsets = append(offsets, 131, 255, 256, 257, 32767, 32768, 65409, 65410, 65535)
		for i := 0; i < 20; i++ {
			offsets = append(offsets, c.Rng.Intn(65536))
		}
	} else {
		for o := 0; o < 65536; o++ {
			offsets = append(offsets, o)
		}
	}
	comps := []int{0, 1, 2, 255, 256, 257, 65535}
	for ty := 0; ty <= 4; ty++ {
		for nt := 1; nt <= 4; nt++ {
			for tcp := 0; tcp <= 3; tcp++ {
				for pi, proto := range protos {
					for ha := 0; ha <= 1; ha++ {
						offs := offsets
						if c.Tier != "quick" {
							// thorough: the full offset sweep for every (type, network) once
							// (tcp type / relay protocol do not enter the type preference)
							if !(ha == 1 && tcp == (ty+nt)%4 && pi == (ty+nt)%4) {
								offs = offsets[:0:0]
								for i := 0; i < 64; i++ {
									offs = append(offs, c.Rng.Intn(65536))
								}
								offs = append(offs, 0, 27, 99, 100, 101, 110, 111, 126, 127, 65535)
							}
						}
						for _, off := range offs {
							cs := comps
							if c.Tier != "quick" && len(offs) > 1000 {
								cs = []int{1, 256}
							}
							for _, comp := range cs {
								if err := prioCase(c, []string{"cand", strconv.Itoa(ty), strconv.Itoa(nt), strconv.Itoa(tcp), Hex(proto), strconv.Itoa(ha), strconv.Itoa(off), strconv.Itoa(comp)}); err != nil {
									return err
								}
							}
							rc := c.Rng.Intn(65536)
							if err := prioCase(c, []string{"cand", strconv.Itoa(ty), strconv.Itoa(nt), strconv.Itoa(tcp), Hex(proto), strconv.Itoa(ha), strconv.Itoa(off), strconv.Itoa(rc)}); err != nil {
								return err
							}
						}
					}
				}
			}
		}
	}
	// the same values re-read after the candidate's configuration changed (component set later, agent attached
	// later): they must follow the current configuration
	for ty := 0; ty <= 4; ty++ {
		for nt := 1; nt <= 4; nt++ {
			for _, ha := range []int{0, 1} {
				for _, off := range []int{0, 5, 27, 99, 127, 65535} {
					for _, cc := range [][2]int{{1, 2}, {2, 1}, {255, 1}, {1, 256}, {0, 7}} {
						tcp, pi := (ty+nt)%4, (ty+off)%4
						if err := prioCase(c, []string{"candx", strconv.Itoa(ty), strconv.Itoa(nt), strconv.Itoa(tcp), Hex(protos[pi]), strconv.Itoa(ha), strconv.Itoa(off), strconv.Itoa(cc[1]), strconv.Itoa(cc[0])}); err != nil {
							return err
						}
					}
				}
			}
		}
	}
	// pair priorities
	bounds := []uint32{0, 1, 2, 255, 256, 1 << 16, 1<<24 - 1, 1 << 24, 1<<31 - 1, 1 << 31, 1<<32 - 2, 1<<32 - 1, 2130706431, 1694498815, 16777215}
	var pts []uint32
	pts = append(pts, bounds...)
	n := 200
	if c.Tier != "quick" {
		n = 2000
	}
	for i := 0; i < n; i++ {
		pts = append(pts, c.Rng.Uint32())
	}
	for i, l := range pts {
		for j, r := range pts {
			if i >= len(bounds) && j >= len(bounds) && (i+j)%17 != 0 {
				continue
			}
			for _, ctl := range []bool{true, false} {
				if err := prioCase(c, []string{"pair", B(ctl), fmt.Sprint(l), fmt.Sprint(r)}); err != nil {
					return err
				}
			}
			if err := prioCase(c, []string{"mirror", fmt.Sprint(l), fmt.Sprint(r)}); err != nil {
				return err
			}
		}
	}
	// foundations
	addrs := []string{"10.0.0.1", "192.168.1.1", "::1", "fe80::1", "2001:db8::1", "a.local", "", "host", "4udp"}
	for ty := 1; ty <= 4; ty++ {
		for nt := 1; nt <= 4; nt++ {
			for _, a := range addrs {
				if err := prioCase(c, []string{"found", strconv.Itoa(ty), Hex(a), strconv.Itoa(nt)}); err != nil {
					return err
				}
			}
		}
	}
	return nil
}

func atoi(s string) int {
	v, err := strconv.Atoi(s)
	if err != nil {
		panic(err)
	}
	return v
}

func prioCase(c *Ctx, t []string) error {
	switch t[0] {
	case "cand":
		ty, nt, tcp, proto, ha, off, comp := atoi(t[1]), atoi(t[2]), atoi(t[3]), Unhex(t[4]), t[5] == "1", atoi(t[6]), atoi(t[7])
		tp, lp, pr := ice.VerifPriority(ice.CandidateType(ty), ice.NetworkType(nt), ice.TCPType(tcp), proto, ha, uint16(off), uint16(comp), 0)
		isTCP := nt >= 3
		tag := "udp"
		if isTCP {
			tag = "tcp"
			pref := map[int]int{1: 126, 2: 100, 3: 110}[ty]
			eff := off
			if !ha {
				eff = 27
			}
			switch {
			case pref == 0:
				tag += ",pref0"
			case eff > pref:
				tag += ",off>pref"
			default:
				tag += ",off<=pref"
			}
		}
		if comp > 256 {
			tag += ",comp>256"
		}
		c.Count("cand:" + tag)
		c.Emit(tag, t, []string{fmt.Sprint(tp), fmt.Sprint(lp), fmt.Sprint(pr)}, (isTCP && ha) || ty == 4)
	case "candx":
		ty, nt, tcp, proto, ha, off, comp, comp0 := atoi(t[1]), atoi(t[2]), atoi(t[3]), Unhex(t[4]), t[5] == "1", atoi(t[6]), atoi(t[7]), atoi(t[8])
		tp, lp, pr := ice.VerifPriorityRestated(ice.CandidateType(ty), ice.NetworkType(nt), ice.TCPType(tcp), proto, ha, uint16(off), uint16(comp), uint16(comp0))
		c.Count("candx")
		c.Emit("candx", t, []string{fmt.Sprint(tp), fmt.Sprint(lp), fmt.Sprint(pr)}, true)
	case "pair":
		ctl := t[1] == "1"
		l64, _ := strconv.ParseUint(t[2], 10, 32)
		r64, _ := strconv.ParseUint(t[3], 10, 32)
		p := ice.VerifPairPriority(prioHostWith(uint32(l64)), prioHostWith(uint32(r64)), ctl)
		c.Count("pair")
		c.Emit("pair", t, []string{fmt.Sprint(p)}, l64 != r64)
	case "mirror":
		l64, _ := strconv.ParseUint(t[1], 10, 32)
		r64, _ := strconv.ParseUint(t[2], 10, 32)
		a, b := prioHostWith(uint32(l64)), prioHostWith(uint32(r64))
		pa := ice.VerifPairPriority(a, b, true)  // controlling agent: local a, remote b
		pb := ice.VerifPairPriority(b, a, false) // controlled agent: local b, remote a
		c.Count("mirror")
		c.Emit("mirror", t, []string{fmt.Sprint(pa), fmt.Sprint(pb)}, l64 != r64)
	case "found":
		ty, addr, nt := atoi(t[1]), Unhex(t[2]), atoi(t[3])
		f := ice.VerifFoundation(ice.CandidateType(ty), addr, ice.NetworkType(nt))
		c.Count("found")
		c.Emit("found", t, []string{Hex(f)}, true)
	default:
		return fmt.Errorf("prio: unknown case %v", t)
	}
	return nil
}
