// suite "core": histories of one real agent (C02-C07, C20 and the shared agent-core correspondence).
package main

import (
	"fmt"
	"math/rand"
	"strings"
	"time"

	"verif/gotools/agenth"
	. "verif/gotools/hlib"
)

func main() { Main("core", run) }

func run(c *Ctx) error {
	c.Rule = "one case = one history of 12..60 operations on a real Agent (random configuration; local/remote candidates incl. duplicates, peer-reflexive sources, blocked and TCP candidates; Start; ticks; virtual-time advances; answers to the agent's own requests; peer requests incl. nominations/renominations/role conflicts; ~25% deliberately invalid injections: wrong/absent username or integrity, stale generation, wrong source, wrong local candidate, unknown or duplicate transaction, error class, non-Binding method; data in/out; Restart; Close); half of the histories start with a scripted scenario (agenth/scenario.go: connect, silence past the disconnected/failed timeouts, restart with unchanged peer credentials + answers to requests of the ended generation, restart while Disconnected, failure by the checking deadline then restart, late responses, two transports on one remote address, nominations on a second pair before it is valid, superseded peer-reflexive candidate, zero failed timeout, non-Binding indications) and continue randomly. Non-trivial = the history reached a selected pair or contained at least one deliberately invalid injection; distinct = distinct case lines."
	if c.Replay != "" {
		for _, toks := range c.ReplayLines() {
			if err := replayHistory(c, toks); err != nil {
				return err
			}
		}
		return nil
	}
	n := 400
	if c.Tier == "thorough" {
		n = 8000
	}
	for i := 0; i < n; i++ {
		seed := c.Rng.Int63()
		ok := false
		for attempt := 0; attempt < 4 && !ok; attempt++ {
			var err error
			if ok, err = oneHistory(c, seed); err != nil {
				return err
			}
			if !ok {
				c.Count("history:rerun_timing_unreliable")
			}
		}
		if !ok {
			c.Count("history:discarded_timing_unreliable")
		}
	}
	return nil
}

// oneHistory returns false (and emits nothing) when the machine was too slow for the virtual clock to be trusted.
func oneHistory(c *Ctx, seed int64) (bool, error) {
	r := rand.New(rand.NewSource(seed))
	cfg := agenth.RandomConfig(r)
	scen := ""
	if r.Intn(2) == 0 {
		scen = agenth.Scenarios[1+r.Intn(len(agenth.Scenarios)-1)]
	}
	if scen == "stale_deferred" || scen == "supersede_renom" || scen == "deferred_then_plain" || (scen == "multi_pair" && r.Intn(2) == 0) {
		cfg.Renomination = true
	}
	if scen == "zero_failed_timeout" { // failed timeout disabled, disconnected timeout not
		cfg.Failed, cfg.Disc = 0, []time.Duration{-1, 10 * agenth.Grid, 20 * agenth.Grid}[r.Intn(3)]
	}
	sim, err := agenth.NewSim(cfg)
	if err != nil {
		return false, err
	}
	defer sim.Close()
	g := agenth.NewGen(r, sim)
	if scen != "" {
		g.Plan(scen, r.Intn(2) == 0)
	}
	caseT := append([]string{}, sim.CfgToks()...)
	var obsT []string
	nops := 12 + r.Intn(49)
	if scen != "" {
		nops += 12
	}
	tags := map[string]bool{}
	afterClose := 0
	for i := 0; i < nops; i++ {
		if g.Closed {
			if afterClose++; afterClose > 6 {
				break
			}
		}
		op, tag := g.Next()
		ct, ot := sim.Do(op)
		g.After(op, ot)
		caseT = append(caseT, ";")
		caseT = append(caseT, ct...)
		if i > 0 {
			obsT = append(obsT, ";")
		}
		obsT = append(obsT, ot...)
		c.Count("op:" + tag)
		tags[tag] = true
	}
	if sim.MaxOp > agenth.MaxOpTime {
		c.Count("slow_op:" + sim.SlowOp)
		return false, nil
	}
	if g.ReachedSelected {
		c.Count("history:reached_selected")
	}
	if g.Mutated > 0 {
		c.Count("history:with_invalid_injection")
	}
	if g.OffFamily > 0 {
		c.Count("history:off_family_source(not judged by monitors)")
	}
	c.Count(fmt.Sprintf("history:lite=%v", cfg.Lite))
	tag := "h"
	if cfg.Lite {
		tag += ",lite"
	}
	if cfg.Renomination {
		tag += ",renom"
	}
	if scen != "" {
		tag += ",s:" + scen
		c.Count("scenario:" + scen)
	}
	_ = strings.Join
	c.Emit(tag, caseT, obsT, g.ReachedSelected || g.Mutated > 0)
	return true, nil
}

func replayHistory(c *Ctx, toks []string) error {
	cfg, ops := agenth.ParseCase(toks)
	sim, err := agenth.NewSim(cfg)
	if err != nil {
		return err
	}
	defer sim.Close()
	caseT := append([]string{}, sim.CfgToks()...)
	var obsT []string
	for i, op := range ops {
		ct, ot := sim.Do(op)
		caseT = append(caseT, ";")
		caseT = append(caseT, ct...)
		if i > 0 {
			obsT = append(obsT, ";")
		}
		obsT = append(obsT, ot...)
	}
	c.Emit("replay", caseT, obsT, true)
	return nil
}
