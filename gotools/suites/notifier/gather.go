package main

import (
	"context"
	"fmt"
	"net"
	"strconv"
	"strings"
	"sync"
	"time"

	ice "github.com/pion/ice/v4"

	. "verif/gotools/hlib"
)

// "gather" cases of suite notifier (C11, gathering-cycle part): a script of
//
//	G      a gather cycle starts (the cycle context is created exactly as GatherCandidates does,
//	       through the hook; gatheringState := Gathering with that context)
//	A<id>  the cycle's gather goroutine adds a local candidate: Agent.addCandidate(cycleCtx, ...)
//	T<id>  the same, but with a harness-owned "trap" context wrapping the cycle context whose
//	       first Err() call (the pre-check of addCandidate) is followed, synchronously, by
//	       Agent.Restart: the cancellation lands exactly between the ctx.Err() check and
//	       loop.Run's select
//	R      Agent.Restart
//	F      the cycle finishes: setGatheringState(cycleCtx, Complete)
//
// runs on a live agent; the OnCandidate handler records what the candidate stream delivers.
// Observation: the per-operation results (added / applied), then "|", then the stream:
// c<id>y<cycle>g<generation of the ufrag extension the candidate carries> and n (the nil).

type parkedConn struct {
	once   sync.Once
	closed chan struct{}
	addr   net.Addr
}

func newParkedConn(port int) *parkedConn {
	return &parkedConn{closed: make(chan struct{}), addr: &net.UDPAddr{IP: net.IPv4(10, 0, 0, 1), Port: port}}
}
func (p *parkedConn) ReadFrom([]byte) (int, net.Addr, error) {
	<-p.closed
	return 0, nil, net.ErrClosed
}
func (p *parkedConn) WriteTo(b []byte, _ net.Addr) (int, error) { return len(b), nil }
func (p *parkedConn) Close() error                              { p.once.Do(func() { close(p.closed) }); return nil }
func (p *parkedConn) LocalAddr() net.Addr                       { return p.addr }
func (p *parkedConn) SetDeadline(time.Time) error               { return nil }
func (p *parkedConn) SetReadDeadline(time.Time) error           { return nil }
func (p *parkedConn) SetWriteDeadline(time.Time) error          { return nil }

type trapCtx struct {
	context.Context
	once sync.Once
	f    func()
}

func (t *trapCtx) Err() error {
	err := t.Context.Err()
	t.once.Do(t.f)
	return err
}

func gatherCase(c *Ctx, ops []string) error {
	a, err := ice.NewAgentWithOptions(
		ice.WithMulticastDNSMode(ice.MulticastDNSModeDisabled),
		ice.WithNetworkTypes([]ice.NetworkType{ice.NetworkTypeUDP4}),
	)
	if err != nil {
		return err
	}
	var mu sync.Mutex
	var stream []ice.Candidate
	if err := a.OnCandidate(func(cand ice.Candidate) {
		mu.Lock()
		stream = append(stream, cand)
		mu.Unlock()
	}); err != nil {
		return err
	}
	gens := map[string]int{}
	curGen := 0
	noteGen := func() error {
		u, err := ice.VerifNotifLocalUfrag(a)
		if err != nil {
			return err
		}
		if _, ok := gens[u]; !ok {
			gens[u] = curGen
		}
		return nil
	}
	if err := noteGen(); err != nil {
		return err
	}
	var cycCtx context.Context
	cyc := 0
	candCycle := map[int]int{}
	var res []string
	hasTrap, hasRestart := false, false
	mkCand := func(id int) (ice.Candidate, error) {
		return ice.NewCandidateHost(&ice.CandidateHostConfig{Network: "udp", Address: "10.0.0.1", Port: 10000 + id, Component: 1})
	}
	restart := func() error {
		curGen++
		if err := a.Restart("", ""); err != nil {
			return err
		}
		return noteGen()
	}
	for _, op := range ops[1:] {
		switch {
		case op == "G":
			cyc++
			ctx, err := ice.VerifNotifGatherContext(a)
			if err != nil {
				return err
			}
			cycCtx = ctx
			if _, err := ice.VerifNotifSetGatheringState(cycCtx, a, ice.GatheringStateGathering); err != nil {
				return err
			}
			res = append(res, "-")
		case op == "R":
			hasRestart = true
			if err := restart(); err != nil {
				return err
			}
			res = append(res, "-")
		case op == "F":
			applied, err := ice.VerifNotifSetGatheringState(cycCtx, a, ice.GatheringStateComplete)
			if err != nil {
				return err
			}
			res = append(res, "f"+B(applied))
		case strings.HasPrefix(op, "A"), strings.HasPrefix(op, "T"):
			id, err := strconv.Atoi(op[1:])
			if err != nil {
				return err
			}
			cand, err := mkCand(id)
			if err != nil {
				return err
			}
			candCycle[id] = cyc
			conn := newParkedConn(10000 + id)
			var ctx context.Context = cycCtx
			var trapErr error
			if op[0] == 'T' {
				hasTrap = true
				ctx = &trapCtx{Context: cycCtx, f: func() {
					trapErr = restart()
					// let the loop goroutine get back to its select, so that both the send branch
					// and <-ctx.Done() are ready when loop.Run's select is evaluated
					time.Sleep(200 * time.Microsecond)
				}}
			}
			addErr := ice.VerifNotifAddCandidate(ctx, a, cand, conn)
			if trapErr != nil {
				return trapErr
			}
			if addErr != nil {
				_ = conn.Close()
			}
			res = append(res, "a"+B(addErr == nil))
		default:
			return fmt.Errorf("gather: unknown op %q", op)
		}
	}
	if err := a.GracefulClose(); err != nil {
		return err
	}
	obs := append(res, "|")
	mu.Lock()
	for _, cand := range stream {
		if cand == nil {
			obs = append(obs, "n")
			continue
		}
		id := cand.Port() - 10000
		g := -1
		if ext, ok := cand.GetExtension("ufrag"); ok {
			if gg, known := gens[ext.Value]; known {
				g = gg
			}
		}
		obs = append(obs, fmt.Sprintf("c%dy%dg%d", id, candCycle[id], g))
	}
	mu.Unlock()
	tag := "gather"
	if hasTrap {
		tag += ",trap"
	}
	if hasRestart {
		tag += ",restart"
	}
	c.Count("gather:" + tag)
	c.Emit(tag, ops, obs, hasTrap || hasRestart)
	return nil
}

// runGather generates scripts that respect what the public API allows: a cycle starts only
// when the gathering state is New (initially and after a Restart); adds and the finish
// belong to a started cycle; the adds of a cycle precede its finish (gatherCandidatesInternal
// waits for its goroutines before setGatheringState(Complete)).
func runGather(c *Ctx, n int) error {
	for k := 0; k < n; k++ {
		ops := []string{"gather"}
		id := 0
		state := "new" // new | gathering | complete
		started := false
		live := false
		steps := 2 + c.Rng.Intn(12)
		trapBias := c.Rng.Intn(3) // 0: no traps, 1: some, 2: many
		for s := 0; s < steps; s++ {
			var choices []string
			if state == "new" {
				choices = append(choices, "G", "G", "G")
			}
			if started && state != "complete" {
				choices = append(choices, "A", "A", "A", "F")
				if live && trapBias > 0 {
					choices = append(choices, "T")
					if trapBias > 1 {
						choices = append(choices, "T", "T")
					}
				}
			}
			if started && state == "complete" && c.Rng.Intn(4) == 0 {
				choices = append(choices, "F") // a second Complete of the same cycle must not emit a second nil
			}
			choices = append(choices, "R")
			op := choices[c.Rng.Intn(len(choices))]
			switch op {
			case "G":
				started, live, state = true, true, "gathering"
				ops = append(ops, "G")
			case "A":
				ops = append(ops, "A"+strconv.Itoa(id))
				id++
			case "T":
				ops = append(ops, "T"+strconv.Itoa(id))
				id++
				live, state = false, "new"
			case "F":
				ops = append(ops, "F")
				if live {
					state = "complete"
				}
			case "R":
				ops = append(ops, "R")
				live, state = false, "new"
			}
		}
		if err := gatherCase(c, ops); err != nil {
			return err
		}
	}
	return nil
}
