package main

import (
	"fmt"
	"math/rand"
	"runtime"
	"strconv"
	"strings"
	"sync"
	"sync/atomic"
	"time"

	ice "github.com/pion/ice/v4"

	. "verif/gotools/hlib"
)

// suite "notifier" (C11): drives real handlerNotifier values (through verif_export_notifier.go)
// with bursts of events on the three streams from several producers, handlers of all kinds
// (fast, yielding, sleeping, blocking until released, re-entrant: enqueueing more events, and
// closing the notifier) and Close / GracefulClose at random times, and logs sound stamps:
//
//	QC<v>s<st>   stamp right before Enqueue of value v on stream st
//	QR<v>        stamp right after it returned
//	HS<v> HE<v>  first / last action of the handler invocation for value v
//	KC<k>g KC<k>u   stamp right before Close(true) / Close(false)
//	KR<k>        stamp right after it returned
//
// plus the "gather" cases (gather.go): the nil-candidate / stale-candidate part of C11 on a
// live agent.
func main() { Main("notifier", runNotifier) }

type evlog struct {
	n    int64
	toks []string
}

func (l *evlog) add(tok string) {
	i := atomic.AddInt64(&l.n, 1) - 1
	if int(i) < len(l.toks) {
		l.toks[i] = tok
	}
}

type pert struct {
	r     *rand.Rand
	level int
}

func (p *pert) hit() {
	if p.level == 0 {
		return
	}
	switch p.r.Intn(8) {
	case 0, 1:
	case 2:
		runtime.Gosched()
	case 3:
		for k := p.r.Intn(4); k >= 0; k-- {
			runtime.Gosched()
		}
	case 4:
		t := time.Now()
		d := time.Duration(1+p.r.Intn(20)) * time.Microsecond
		for time.Since(t) < d {
		}
	case 5, 6:
		if p.level >= 2 {
			time.Sleep(time.Duration(1+p.r.Intn(60)) * time.Microsecond)
		} else {
			runtime.Gosched()
		}
	case 7:
		if p.level >= 3 {
			time.Sleep(time.Duration(100+p.r.Intn(300)) * time.Microsecond)
		}
	}
}

const (
	hFast = iota
	hYield
	hSleep
	hBlock   // waits for the releaser
	hReenter // enqueues one more value from inside the handler
	hClose   // calls Close(false) from inside the handler
)

type valPlan struct {
	stream int
	kind   int
	work   int
	gap    int // perturbation hits before the enqueue
}

type closePlan struct {
	graceful bool
	delay    int
}

type scenario struct {
	seed      int64
	level     int
	producers [][]int // value ids per producer, in order
	vals      []valPlan
	closers   []closePlan
	release   int // perturbation hits before blocked handlers are released
}

func genScenario(seed int64, tier string) *scenario {
	r := rand.New(rand.NewSource(seed))
	sc := &scenario{seed: seed, level: r.Intn(4)}
	maxVals := 16
	if tier != "quick" {
		maxVals = 40
	}
	n := 1 + r.Intn(maxVals)
	nProd := 1 + r.Intn(3)
	sc.producers = make([][]int, nProd)
	streams := 1 + r.Intn(3) // how many of the three streams this scenario uses
	// handler mix: plain / slow / adversarial
	mix := r.Intn(3)
	for v := 0; v < n; v++ {
		var kind int
		switch mix {
		case 0:
			kind = []int{hFast, hFast, hYield}[r.Intn(3)]
		case 1:
			kind = []int{hFast, hYield, hSleep, hSleep, hBlock}[r.Intn(5)]
		default:
			kind = []int{hFast, hYield, hSleep, hBlock, hReenter, hReenter, hClose}[r.Intn(7)]
		}
		sc.vals = append(sc.vals, valPlan{stream: r.Intn(streams), kind: kind, work: r.Intn(4), gap: r.Intn(3)})
		p := r.Intn(nProd)
		sc.producers[p] = append(sc.producers[p], v)
	}
	nCl := []int{0, 0, 1, 1, 1, 2, 3}[r.Intn(7)]
	for k := 0; k < nCl; k++ {
		sc.closers = append(sc.closers, closePlan{graceful: r.Intn(2) == 0, delay: r.Intn(3 * n)})
	}
	sc.release = r.Intn(20)
	return sc
}

func (sc *scenario) tag() string {
	var grace, re, blk, hcl bool
	for _, c := range sc.closers {
		if c.graceful {
			grace = true
		}
	}
	for _, v := range sc.vals {
		switch v.kind {
		case hReenter:
			re = true
		case hBlock:
			blk = true
		case hClose:
			hcl = true
		}
	}
	t := fmt.Sprintf("closers%d", len(sc.closers))
	if grace {
		t += ",graceful"
	}
	if re {
		t += ",reentrant"
	}
	if blk {
		t += ",blocking"
	}
	if hcl {
		t += ",handlerclose"
	}
	return t
}

func (sc *scenario) run() (toks []string, timedOut bool) {
	n := len(sc.vals)
	lg := &evlog{toks: make([]string, 16*n+8*len(sc.closers)+64)}
	mk := func(id int64) *pert { return &pert{r: rand.New(rand.NewSource(sc.seed*7919 + id)), level: sc.level} }
	gate := make(chan struct{})
	var nextVal, nextCloser int64 = int64(n), int64(len(sc.closers) + 1)
	var nf *ice.VerifNotifier
	var hp sync.Map // per value perturbation source (handlers of distinct values may run concurrently)
	// a panic raised by the implementation in a harness-owned call (Enqueue / Close, also when
	// called from inside a handler) is logged as an observation, it never crashes the harness
	guard := func() {
		if r := recover(); r != nil {
			lg.add("PANIC")
		}
	}
	handler := func(_ int, v int) {
		defer guard()
		lg.add("HS" + strconv.Itoa(v))
		kind, work, stream := hFast, 0, 0
		if v < n {
			kind, work, stream = sc.vals[v].kind, sc.vals[v].work, sc.vals[v].stream
		}
		pi, _ := hp.LoadOrStore(v, mk(int64(5000+v)))
		p, _ := pi.(*pert)
		switch kind {
		case hYield:
			for k := 0; k <= work; k++ {
				runtime.Gosched()
			}
		case hSleep:
			for k := 0; k <= work; k++ {
				p.hit()
			}
		case hBlock:
			<-gate
		case hReenter:
			w := int(atomic.AddInt64(&nextVal, 1) - 1)
			st := (stream + work) % 3
			if work == 0 {
				st = stream // the handler's own stream: the new value must queue behind the running handler
			}
			lg.add("QC" + strconv.Itoa(w) + "s" + strconv.Itoa(st))
			nf.Enqueue(st, w)
			lg.add("QR" + strconv.Itoa(w))
		case hClose:
			k := int(atomic.AddInt64(&nextCloser, 1) - 1)
			lg.add("KC" + strconv.Itoa(k) + "u")
			nf.Close(false)
			lg.add("KR" + strconv.Itoa(k))
		}
		lg.add("HE" + strconv.Itoa(v))
	}
	nf = ice.VerifNewNotifier(handler)
	var wg sync.WaitGroup
	start := make(chan struct{})
	for pi, vals := range sc.producers {
		pi, vals := pi, vals
		wg.Add(1)
		go func() {
			defer wg.Done()
			defer guard()
			p := mk(int64(100 + pi))
			<-start
			for _, v := range vals {
				for k := 0; k < sc.vals[v].gap; k++ {
					p.hit()
				}
				lg.add("QC" + strconv.Itoa(v) + "s" + strconv.Itoa(sc.vals[v].stream))
				nf.Enqueue(sc.vals[v].stream, v)
				lg.add("QR" + strconv.Itoa(v))
			}
		}()
	}
	for k, cp := range sc.closers {
		k, cp := k, cp
		wg.Add(1)
		go func() {
			defer wg.Done()
			defer guard()
			p := mk(int64(200 + k))
			<-start
			for j := 0; j < cp.delay; j++ {
				p.hit()
			}
			g := "u"
			if cp.graceful {
				g = "g"
			}
			lg.add("KC" + strconv.Itoa(k) + g)
			nf.Close(cp.graceful)
			lg.add("KR" + strconv.Itoa(k))
		}()
	}
	wg.Add(1)
	go func() {
		defer wg.Done()
		p := mk(300)
		<-start
		for j := 0; j < sc.release; j++ {
			p.hit()
		}
		close(gate)
	}()
	close(start)
	finished := make(chan struct{})
	go func() {
		defer close(finished)
		defer guard()
		wg.Wait()
		// quiescence: a final graceful Close waits for every drainer, which completes the log
		k := len(sc.closers)
		lg.add("KC" + strconv.Itoa(k) + "g")
		nf.Close(true)
		lg.add("KR" + strconv.Itoa(k))
	}()
	select {
	case <-finished:
	case <-time.After(20 * time.Second):
		return nil, true
	}
	cnt := int(atomic.LoadInt64(&lg.n))
	if cnt > len(lg.toks) {
		cnt = len(lg.toks)
	}
	return lg.toks[:cnt], false
}

func runNotifier(c *Ctx) error {
	c.Rule = "nf: one case = one scenario on one real handlerNotifier (1..16 values, thorough 1..40, on 1..3 of the three streams, 1..3 producer goroutines; handler kinds fast / yielding / sleeping / blocking until released / re-entrant (enqueues one more value, on its own or another stream) / closing the notifier; 0..3 racing Close(graceful or not) plus a final graceful Close at quiescence; perturbation level 0..3), everything derived from the scenario seed. Non-trivial = a Close raced with the producers (its call stamp precedes some Enqueue return) or some stream carried at least two values. gather: see gather.go."
	emit := func(seed int64) {
		sc := genScenario(seed, c.Tier)
		toks, to := sc.run()
		caseToks := []string{"nf", strconv.FormatInt(seed, 10), strconv.Itoa(len(sc.vals)), strconv.Itoa(len(sc.closers))}
		c.Count("scenario:" + sc.tag())
		if to {
			c.Count("outcome:TIMEOUT")
			c.Emit(sc.tag(), caseToks, []string{"TIMEOUT"}, true)
			return
		}
		firstClose, lastRet := -1, -1
		perStream := map[string]int{}
		var hs int
		for i, t := range toks {
			switch {
			case strings.HasPrefix(t, "KC") && firstClose < 0 && i < len(toks)-2:
				firstClose = i
			case strings.HasPrefix(t, "QR"):
				lastRet = i
			case strings.HasPrefix(t, "QC"):
				perStream[t[strings.Index(t, "s"):]]++
			case strings.HasPrefix(t, "HS"):
				hs++
			}
		}
		raced := firstClose >= 0 && firstClose < lastRet
		multi := false
		for _, k := range perStream {
			if k >= 2 {
				multi = true
			}
		}
		if raced {
			c.Count("outcome:close-raced-with-enqueue")
		}
		enq := 0
		for _, k := range perStream {
			enq += k
		}
		if hs < enq {
			c.Count("outcome:some-values-dropped")
		} else {
			c.Count("outcome:all-delivered")
		}
		c.Count(fmt.Sprintf("log-length:%d0s", len(toks)/10))
		c.Emit(sc.tag(), caseToks, toks, raced || multi)
	}
	if c.Replay != "" {
		for _, t := range c.ReplayLines() {
			switch {
			case len(t) >= 2 && t[0] == "nf":
				seed, err := strconv.ParseInt(t[1], 10, 64)
				if err != nil {
					return err
				}
				for k := 0; k < 200; k++ {
					emit(seed)
				}
			case len(t) >= 1 && t[0] == "gather":
				if err := gatherCase(c, t); err != nil {
					return err
				}
			default:
				return fmt.Errorf("notifier: unknown case %v", t)
			}
		}
		return nil
	}
	n, g := 15000, 60
	if c.Tier != "quick" {
		n, g = 120000, 600
	}
	if err := runGather(c, g); err != nil {
		return err
	}
	for k := 0; k < n; k++ {
		emit(c.Rng.Int63n(1 << 40))
	}
	return nil
}
