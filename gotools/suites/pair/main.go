// suite "pair": two real agents over a harness-owned network (C01, C05 convergence, C20 agreement).
// Each agent's half of a run is an ordinary core history (same token language, same model, same
// monitors); a third line per run carries the pair-level summary judged by the C01 monitor.
package main

import (
	"fmt"
	"strconv"
	"math/rand"
	"time"

	ice "github.com/pion/ice/v4"

	"verif/gotools/agenth"
	. "verif/gotools/hlib"
)

func main() { Main("pair", run) }

func run(c *Ctx) error {
	c.Rule = "one case = one two-agent run: random topology (1..3 endpoints per side, host or NATed, reachability matrix incl. one-way links and no connectivity), candidates trickled in random order, both agents started (15% in the same role), a lossy phase of 0..3 rounds (each in-flight datagram delivered / dropped / duplicated / delayed at random), then a fair loss-free suffix; a third with late signalling to B (peer-reflexive candidates, later superseded); 40% with renomination enabled, half of those with selective loss of B's checks on one reachable endpoint pair (valid on A first) which is then renominated; 20% with a restart of both sides and re-signalling. Emits the two agents' core histories (judged step by step by the core model), the whole run as a schedule of the two-agent system model (@sys: in-flight count after every operation and both final snapshots compared with Model/TwoAgents.sys_step) and a pair summary. Non-trivial = a bidirectionally reachable pair exists and both agents reached Connected, or no such pair exists (negative case); distinct = distinct summary lines."
	if c.Replay != "" {
		// each agent's half of a run is a core history and replays on its own; the summary line is
		// a function of the two and is not re-run separately
		for _, toks := range c.ReplayLines() {
			if len(toks) > 2 && toks[0] == "PS" && toks[len(toks)-2] == "seed" {
				// a pair summary replays the whole two-agent run it came from (its generator seed is recorded)
				if sd, err := strconv.ParseInt(toks[len(toks)-1], 10, 64); err == nil {
					if _, err := oneRun(c, sd); err != nil {
						return err
					}
				}
				continue
			}
			if len(toks) == 0 || toks[0] != "CFG" {
				continue
			}
			if err := replayHistory(c, toks); err != nil {
				return err
			}
		}
		return nil
	}
	n := 120
	if c.Tier == "thorough" {
		n = 3000
	}
	for i := 0; i < n; i++ {
		seed := c.Rng.Int63()
		if i%12 == 5 {
			seed = -seed - 1 // a negative seed is the scripted run "lite peer, application renominates an unvalidated pair"
		}
		ok := false
		for attempt := 0; attempt < 4 && !ok; attempt++ {
			var err error
			if ok, err = oneRun(c, seed); err != nil {
				return err
			}
		}
		if !ok {
			c.Count("run:discarded_timing_unreliable")
		}
	}
	return nil
}

func oneRun(c *Ctx, seed int64) (bool, error) {
	r := rand.New(rand.NewSource(seed))
	topo := agenth.RandomTopology(r)
	renom := r.Intn(10) < 4
	sameRole := r.Intn(100) < 15
	// scripted run: A full and controlling with renomination, B lite; B can be reached from A but not the reverse; the
	// application on A renominates a pair that never became valid
	special := seed < 0
	if special {
		renom, sameRole = true, false
		for i := range topo.Reach {
			for j := range topo.Reach[i] {
				topo.Reach[i][j], topo.Back[j][i] = true, false
			}
		}
	}
	mk := func(lu int, tb uint64, ren bool) agenth.Config {
		return agenth.Config{MaxReq: -1, Disc: -1, Failed: -1, Keepalive: -1, WaitHost: 0, WaitSrflx: 0, WaitPrflx: 0, WaitRelay: 0,
			TCPPrioOffset: -1, LUfrag: lu, LPwd: lu, TieBreaker: tb, Renomination: ren, Lite: special && lu == 2}
	}
	tbA, tbB := r.Uint64(), r.Uint64()
	switch r.Intn(6) {
	case 0:
		tbB = tbA + 1
	case 1:
		tbA, tbB = 0, ^uint64(0)
	}
	if tbA == tbB {
		tbB++
	}
	sa, err := agenth.NewSim(mk(1, tbA, renom))
	if err != nil {
		return false, err
	}
	defer sa.Close()
	sb, err := agenth.NewSim(mk(2, tbB, renom))
	if err != nil {
		return false, err
	}
	defer sb.Close()
	p := agenth.NewPair(r, sa, sb, topo)
	victim := false
	if renom && !special && r.Intn(2) == 0 {
		// B's first few checks towards one bidirectionally reachable endpoint pair are lost
		var cand [][2]int
		for i := range topo.Reach {
			for j := range topo.Reach[i] {
				if topo.Reach[i][j] && topo.Back[j][i] {
					cand = append(cand, [2]int{i, j})
				}
			}
		}
		if len(cand) > 0 {
			ij := cand[r.Intn(len(cand))]
			p.SetVictim(1, ij[1], ij[0], 2+r.Intn(4)) // at most 5 lost: inside the retry budget of 7
			victim = true
		}
	}
	roleA, roleB := true, false
	if sameRole {
		roleB = true
		if r.Intn(2) == 0 {
			roleA, roleB = false, false
		}
	}
	p.AddLocals(0)
	p.AddLocals(1)
	if r.Intn(2) == 0 {
		p.Signal(0, 101)
	}
	p.Do(0, agenth.Op{Kind: "ST", Ctl: roleA, A: 2, B: 2})
	p.Do(1, agenth.Op{Kind: "ST", Ctl: roleB, A: 1, B: 1})
	p.Signal(0, 201)
	// trickle: B may learn A's candidates only after A's first checks have arrived (peer-reflexive
	// candidates on B, later superseded by the signalled ones)
	lateSignal := r.Intn(3) == 0 && !special
	if lateSignal {
		for k := 0; k < 1+r.Intn(3); k++ {
			p.Do(0, agenth.Op{Kind: "TK"})
			p.DeliverAll()
			p.Do(1, agenth.Op{Kind: "TK"})
			if r.Intn(2) == 0 {
				p.DeliverAll()
			} else {
				p.Lossy()
			}
		}
		c.Count("run:late_signalling_to_B")
	}
	p.Signal(1, 201)
	if special {
		c.Count("run:lite_peer_renominate_unvalidated")
		for k := 0; k < 2; k++ {
			p.Do(0, agenth.Op{Kind: "TK"})
			p.DeliverAll()
			p.Do(1, agenth.Op{Kind: "TK"})
			p.DeliverAll()
		}
		// the application renominates the pair of A's first local and first signalled remote candidate
		p.Do(0, agenth.Op{Kind: "RN", A: topo.A[0].H, B: 201, V: 1})
		p.DeliverAll()
	}
	lossy := r.Intn(4)
	if special {
		lossy = 0
	}
	for k := 0; k < lossy; k++ {
		p.Do(0, agenth.Op{Kind: "TK"})
		p.Do(1, agenth.Op{Kind: "TK"})
		p.Lossy()
	}
	needQuiet := 2
	converge := func(rounds int) {
		quiet := 0
		for k := 0; k < rounds && quiet < needQuiet; k++ {
			p.Do(0, agenth.Op{Kind: "TK"})
			p.DeliverAll()
			p.Do(1, agenth.Op{Kind: "TK"})
			p.DeliverAll()
			if p.BothConnected() && p.InFlight() == 0 {
				quiet++
			} else {
				quiet = 0
			}
		}
	}
	if victim && r.Intn(2) == 0 {
		needQuiet = 1 // renominate as soon as both are connected: the victim pair is then still not valid on B
	}
	converge(30)
	needQuiet = 2
	lastNomLH, lastNomAddr, lastNomSide := -1, agenth.Addr{}, 0
	nRenom := 0
	if renom && r.Intn(4) != 0 {
		for k := 0; k < 1+r.Intn(3); k++ {
			if side, lh, addr, ok := p.Renominate(); ok {
				lastNomLH, lastNomAddr, lastNomSide = lh, addr, side
				nRenom++
				if r.Intn(2) == 0 {
					p.Lossy()
				}
				converge(6)
			}
		}
		converge(8)
	}
	// application data across the pair: writes on either side, the datagrams delivered, dropped or duplicated at random,
	// then everything queued is read (each side's half is judged by the core model and the C07 monitors; the whole by
	// the data-carrying system model)
	if r.Intn(3) != 0 {
		c.Count("run:data_phase")
		nw := 1 + r.Intn(5)
		for k := 0; k < nw; k++ {
			side := r.Intn(2)
			p.Do(side, agenth.Op{Kind: "WR", Payload: agenth.Payload{ID: 10 + k, Len: []int{1, 40, 500, 1200}[r.Intn(4)]}})
			if r.Intn(2) == 0 {
				for p.DataInFlight() > 0 && r.Intn(3) != 0 {
					i := r.Intn(p.DataInFlight())
					switch r.Intn(6) {
					case 0:
						p.DropData(i)
					case 1:
						p.DeliverData(i, true)
					default:
						p.DeliverData(i, false)
					}
				}
			}
		}
		for p.DataInFlight() > 0 {
			p.DeliverData(0, false)
		}
		for side := 0; side < 2; side++ {
			for k := 0; k < 2*nw+2; k++ {
				p.Do(side, agenth.Op{Kind: "RD"})
			}
		}
	}
	restarted := false
	if r.Intn(5) == 0 {
		restarted = true
		p.RestartBoth(3, 4)
		converge(30)
		lastNomLH = -1
	}
	if p.MaxOp() > agenth.MaxOpTime {
		return false, nil
	}
	for side := 0; side < 2; side++ {
		tag := "pair,A"
		if side == 1 {
			tag = "pair,B"
		}
		c.Emit(tag, p.Case[side], p.Obs[side], true)
	}
	// the whole run as a schedule of the two-agent system model (until a restart, which re-creates the sockets)
	p.FreezeSys()
	if len(p.SysFinal[0]) > 0 && len(p.SysFinal[1]) > 0 {
		sc := []string{"SY"}
		sc = append(sc, sa.CfgToks()...)
		sc = append(sc, ";")
		sc = append(sc, sb.CfgToks()...)
		sc = append(sc, ";")
		sc = append(sc, p.SysTopo...)
		sc = append(sc, ";")
		sc = append(sc, p.SysToks()...)
		so := append([]string{}, p.SysFinal[0]...)
		so = append(so, "|")
		so = append(so, p.SysFinal[1]...)
		so = append(so, "|", fmt.Sprint(p.SysNet), fmt.Sprint(p.SysDNet))
		c.Emit("sys", sc, so, true)
	}
	sum := []string{"PS"}
	sum = append(sum, topo.Toks()...)
	sum = append(sum, B(renom), B(restarted), B(sameRole), fmt.Sprint(tbA), fmt.Sprint(tbB), fmt.Sprint(lossy), fmt.Sprint(nRenom))
	if lastNomLH >= 0 {
		sum = append(sum, "1", B(lastNomSide == 0), fmt.Sprint(lastNomLH))
		sum = append(sum, lastNomAddr.Toks()...)
	} else {
		sum = append(sum, "0")
	}
	sum = append(sum, "seed", fmt.Sprint(seed))
	obs := append([]string{}, p.SelToks(0)...)
	obs = append(obs, p.SelToks(1)...)
	obs = append(obs, B(p.EverConnected[0]), B(p.EverSelected[0]), B(p.EverConnected[1]), B(p.EverSelected[1]), fmt.Sprint(p.InFlight()))
	bidir := topo.Bidirectional()
	tag := "pairsum"
	if !bidir {
		tag += ",no_bidirectional_pair"
	}
	if sameRole {
		tag += ",same_role_start"
	}
	if renom && nRenom > 0 {
		tag += ",renominated"
	}
	if restarted {
		tag += ",restarted"
	}
	if p.RenomLost {
		tag += ",renom_lost"
	}
	if victim {
		tag += ",victim"
		c.Count("run:selective_loss_of_B_requests_on_one_pair")
	}
	c.Count("run:" + tag)
	c.Count(fmt.Sprintf("run:lossy_rounds=%d", lossy))
	c.Emit(tag, sum, obs, !bidir || p.BothConnected())
	_ = ice.ConnectionStateConnected
	_ = time.Second
	return true, nil
}

func replayHistory(c *Ctx, toks []string) error {
	cfg, ops := agenth.ParseCase(toks)
	sim, err := agenth.NewSim(cfg)
	if err != nil {
		return err
	}
	defer sim.Close()
	caseT := append([]string{}, sim.CfgToks()...)
	var obsT []string
	for i, op := range ops {
		ct, ot := sim.Do(op)
		caseT = append(caseT, ";")
		caseT = append(caseT, ct...)
		if i > 0 {
			obsT = append(obsT, ";")
		}
		obsT = append(obsT, ot...)
	}
	c.Emit("replay", caseT, obsT, true)
	return nil
}
