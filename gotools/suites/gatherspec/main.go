package main

import (
	"bytes"
	"context"
	"encoding/hex"
	"errors"
	"fmt"
	"net"
	"net/netip"
	"sort"
	"strconv"
	"strings"
	"sync"
	"time"

	ice "github.com/pion/ice/v4"
	"github.com/pion/stun/v3"
	"github.com/pion/turn/v5"

	gf "verif/gotools/gatherfake"
	. "verif/gotools/hlib"
)

// suite "gatherspec" (C18).  Case kinds (see ocaml/gatherspec_main.ml for the token grammar):
//   v6ok   isSupportedIPv6Partial on a byte string
//   lif    localInterfaces on a generated interface table x filters x network types x loopback
//   scan   listenUDPInPortRange: the sequence of ports tried and the result
//   gather a real Agent (public API) on the fake Net: OnCandidate stream, GetLocalCandidates,
//          own sockets, GatherCandidates result, gathering state
//   cycle  scripted GatherCandidates/Restart/GetGatheringState/Close schedules with the gather
//          goroutines parked at a gate inside the fake Net
func main() { Main("gatherspec", run) }

const mdnsName = "verif-c18.local"
const stunHost = "stun.verif.test"

// ---------------------------------------------------------------- tokens

func hx(b []byte) string { return "x" + hex.EncodeToString(b) }
func unhx(t string) []byte {
	b, err := hex.DecodeString(strings.TrimPrefix(t, "x"))
	if err != nil {
		panic(err)
	}

	return b
}
func joinOr(l []string) string {
	if len(l) == 0 {
		return "-"
	}

	return strings.Join(l, ",")
}
func splitOr(t string) []string {
	if t == "-" || t == "" {
		return nil
	}

	return strings.Split(t, ",")
}
func ints(l []int) string {
	s := make([]string, len(l))
	for i, v := range l {
		s[i] = strconv.Itoa(v)
	}

	return joinOr(s)
}
func unints(t string) []int {
	var out []int
	for _, s := range splitOr(t) {
		v, err := strconv.Atoi(s)
		if err != nil {
			panic(err)
		}
		out = append(out, v)
	}

	return out
}
func hexes(l [][]byte) string {
	s := make([]string, len(l))
	for i, v := range l {
		s[i] = hx(v)
	}

	return joinOr(s)
}
func unhexes(t string) [][]byte {
	var out [][]byte
	for _, s := range splitOr(t) {
		out = append(out, unhx(s))
	}

	return out
}
func optHex(b []byte) string {
	if b == nil {
		return "-"
	}

	return hx(b)
}
func unoptHex(t string) []byte {
	if t == "-" {
		return nil
	}

	return unhx(t)
}

// canonical bytes of an IP: 4 bytes for IPv4 (incl. v4-mapped), 16 otherwise
func canon(ip net.IP) []byte {
	if a, ok := netip.AddrFromSlice(ip); ok {
		return a.Unmap().AsSlice()
	}

	return append([]byte{}, ip...)
}

type ifRow struct {
	name   string
	up, lo bool
	addrs  [][]byte
}

func (r ifRow) toks() []string {
	return []string{";", hx([]byte(r.name)), B(r.up), B(r.lo), hexes(r.addrs)}
}

// split a token list at ";" tokens
func groups(t []string) [][]string {
	var out [][]string
	cur := []string{}
	for _, x := range t {
		if x == ";" {
			out = append(out, cur)
			cur = []string{}
		} else {
			cur = append(cur, x)
		}
	}

	return append(out, cur)
}

func parseIfs(gs [][]string) []ifRow {
	var out []ifRow
	for _, g := range gs {
		if len(g) != 4 {
			panic(fmt.Sprintf("bad interface group %v", g))
		}
		out = append(out, ifRow{string(unhx(g[0])), g[1] == "1", g[2] == "1", unhexes(g[3])})
	}

	return out
}

func buildIfaces(rows []ifRow) *gf.Net {
	n := gf.New()
	for i, r := range rows {
		var addrs []net.Addr
		for j, a := range r.addrs {
			ones := 8 * len(a)
			if j%3 == 2 && (len(a) == 4 || len(a) == 16) {
				addrs = append(addrs, &net.IPAddr{IP: net.IP(a)})
			} else {
				addrs = append(addrs, &net.IPNet{IP: net.IP(a), Mask: net.CIDRMask(ones/2, ones)})
			}
		}
		n.Ifaces = append(n.Ifaces, gf.MakeInterface(i+1, r.name, r.up, r.lo, addrs))
	}

	return n
}

// filters: "-" none; "a:<names>" accept list (interface filter); "d:<addrs>" deny list (IP filter)
func ifaceFilter(t string) func(string) bool {
	if t == "-" {
		return nil
	}
	acc := map[string]bool{}
	for _, s := range splitOr(strings.TrimPrefix(t, "a:")) {
		acc[string(unhx(s))] = true
	}

	return func(name string) bool { return acc[name] }
}
func ipFilter(t string) func(net.IP) bool {
	if t == "-" {
		return nil
	}
	deny := unhexes(strings.TrimPrefix(t, "d:"))

	return func(ip net.IP) bool {
		c := canon(ip)
		for _, d := range deny {
			if bytes.Equal(c, d) {
				return false
			}
		}

		return true
	}
}

func ntypes(l []int) []ice.NetworkType {
	out := []ice.NetworkType{}
	for _, v := range l {
		out = append(out, ice.NetworkType(v))
	}

	return out
}

// ---------------------------------------------------------------- address pools

type pool struct {
	c *Ctx
}

func ip4(a, b, c, d byte) []byte { return []byte{a, b, c, d} }
func ip6(s string) []byte        { return []byte(net.ParseIP(s).To16()) }

func (p pool) addr() ([]byte, string) {
	r := p.c.Rng
	b := byte(1 + r.Intn(250))
	switch k := r.Intn(100); {
	case k < 22:
		return ip4(10, byte(r.Intn(4)), byte(r.Intn(3)), b), "v4"
	case k < 30:
		return ip4(192, 168, byte(r.Intn(3)), b), "v4"
	case k < 34:
		return ip4(169, 254, byte(r.Intn(3)), b), "v4ll"
	case k < 40:
		return ip4(127, byte(r.Intn(2)), 0, b), "v4lo"
	case k < 44: // IPv4 in its 16-byte (v4-mapped) form, as net.ParseIP returns it
		return []byte(net.IPv4(172, 16, byte(r.Intn(3)), b).To16()), "v4mapped"
	case k < 62:
		return ip6(fmt.Sprintf("2001:db8:%x::%x", r.Intn(4), int(b))), "v6"
	case k < 68:
		return ip6(fmt.Sprintf("fd00:%x::%x", r.Intn(4), int(b))), "v6ula"
	case k < 76:
		return ip6(fmt.Sprintf("fe80::%x:%x", r.Intn(3), int(b))), "v6ll"
	case k < 79:
		return ip6(fmt.Sprintf("febf:ffff::%x", int(b))), "v6ll"
	case k < 84:
		return ip6(fmt.Sprintf("fec0::%x", int(b))), "v6site"
	case k < 86:
		return ip6(fmt.Sprintf("feff:1::%x", int(b))), "v6site"
	case k < 90:
		return ip6(fmt.Sprintf("::%d.%d.%d.%d", 10, r.Intn(3), r.Intn(3), b)), "v6compat"
	case k < 93:
		return ip6("::1"), "v6lo"
	case k < 94:
		return ip6("::"), "v6unspec"
	case k < 96:
		return ip6(fmt.Sprintf("ff02::%x", int(b))), "v6llmc"
	case k < 97:
		return ip6(fmt.Sprintf("fe00::%x", int(b))), "v6fe00"
	default:
		n := []int{0, 1, 3, 5, 15, 17, 32}[r.Intn(7)]
		x := make([]byte, n)
		for i := range x {
			x[i] = byte(r.Intn(256))
		}

		return x, "malformed"
	}
}

var ifNames = []string{"eth0", "eth1", "wlan0", "lo", "docker0", "tun0", "en0", "br-1"}

func (p pool) table() []ifRow {
	r := p.c.Rng
	n := 1 + r.Intn(4)
	if r.Intn(12) == 0 {
		n = 0
	}
	perm := r.Perm(len(ifNames))
	var rows []ifRow
	seen := map[string]bool{}
	for i := 0; i < n; i++ {
		row := ifRow{name: ifNames[perm[i]], up: r.Intn(6) != 0, lo: false}
		if row.name == "lo" {
			row.lo = r.Intn(5) != 0
		} else if r.Intn(15) == 0 {
			row.lo = true
		}
		k := r.Intn(5)
		for j := 0; j < k; j++ {
			a, cls := p.addr()
			if row.lo && r.Intn(2) == 0 {
				if r.Intn(2) == 0 {
					a, cls = ip4(127, 0, 0, byte(1+r.Intn(3))), "v4lo"
				} else {
					a, cls = ip6("::1"), "v6lo"
				}
			}
			key := string(canon(a))
			if seen[key] && r.Intn(10) != 0 {
				continue
			}
			seen[key] = true
			p.c.Count("addr:" + cls)
			row.addrs = append(row.addrs, a)
		}
		rows = append(rows, row)
	}

	return rows
}

func subset(c *Ctx, all []int) []int {
	var out []int
	for _, v := range all {
		if c.Rng.Intn(2) == 0 {
			out = append(out, v)
		}
	}
	c.Rng.Shuffle(len(out), func(i, j int) { out[i], out[j] = out[j], out[i] })

	return out
}

func (p pool) filters(rows []ifRow) (string, string) {
	r := p.c.Rng
	iff, ipf := "-", "-"
	if r.Intn(3) == 0 {
		var acc []string
		for _, row := range rows {
			if r.Intn(3) != 0 {
				acc = append(acc, hx([]byte(row.name)))
			}
		}
		iff = "a:" + strings.Join(acc, ",")
	}
	if r.Intn(3) == 0 {
		var deny []string
		for _, row := range rows {
			for _, a := range row.addrs {
				if r.Intn(4) == 0 && (len(a) == 4 || len(a) == 16) {
					deny = append(deny, hx(canon(a)))
				}
			}
		}
		ipf = "d:" + strings.Join(deny, ",")
	}

	return iff, ipf
}

// ---------------------------------------------------------------- run

func run(c *Ctx) error {
	c.Rule = "v6ok: byte strings of length 0..17 with class-boundary prefixes; lif: localInterfaces on generated tables; scan: port-range scans with busy/unavailable ports; gather: one real Agent per case on the fake Net (non-trivial = at least one candidate published); cycle: scripted GatherCandidates/Restart/Close schedules with parked gather goroutines (non-trivial = at least one accepted GatherCandidates and one Restart or second GatherCandidates)"
	if c.Replay != "" {
		for _, t := range c.ReplayLines() {
			if err := runCase(c, t); err != nil {
				return err
			}
		}

		return nil
	}
	variant := detectVariant()
	c.Count("variant:" + variant)
	p := pool{c}
	quick := c.Tier == "quick"
	nV6, nLif, nScan, nGather, nCycle := 600, 4000, 600, 3000, 500
	if !quick {
		nV6, nLif, nScan, nGather, nCycle = 20000, 100000, 20000, 70000, 12000
	}
	// ---- v6ok
	for i := 0; i < nV6; i++ {
		var b []byte
		switch i % 4 {
		case 0:
			b, _ = p.addr()
		case 1:
			b = make([]byte, 16)
			b[0] = []byte{0xfe, 0xfe, 0xfe, 0xfe, 0xff, 0xfd, 0x00, 0xfe}[c.Rng.Intn(8)]
			b[1] = []byte{0x00, 0x3f, 0x40, 0x7f, 0x80, 0xbf, 0xc0, 0xff}[c.Rng.Intn(8)]
			b[15] = byte(c.Rng.Intn(3))
		case 2:
			b = make([]byte, 16)
			b[c.Rng.Intn(16)] = byte(1 + c.Rng.Intn(255))
		default:
			b = make([]byte, c.Rng.Intn(18))
			c.Rng.Read(b)
		}
		if err := runCase(c, []string{"v6ok", hx(b)}); err != nil {
			return err
		}
	}
	// ---- lif
	for i := 0; i < nLif; i++ {
		rows := p.table()
		iff, ipf := p.filters(rows)
		t := []string{"lif", ints(subset(c, []int{1, 2, 3, 4})), B(c.Rng.Intn(3) == 0), iff, ipf}
		for _, r := range rows {
			t = append(t, r.toks()...)
		}
		if err := runCase(c, t); err != nil {
			return err
		}
	}
	// ---- scan
	for i := 0; i < nScan; i++ {
		pmin, pmax := 0, 0
		switch c.Rng.Intn(8) {
		case 0:
		case 1:
			pmin = 1024 + c.Rng.Intn(60000)
			pmax = pmin
		case 2:
			pmin = 65530 + c.Rng.Intn(6)
			pmax = 0
		case 3:
			pmin, pmax = 0, 1024+c.Rng.Intn(8)
		case 4:
			pmin, pmax = 0, c.Rng.Intn(1024)
		case 5:
			pmin = 2000 + c.Rng.Intn(100)
			pmax = pmin - 1 - c.Rng.Intn(5)
		default:
			pmin = 1 + c.Rng.Intn(65000)
			pmax = pmin + c.Rng.Intn(12)
			if pmax > 65535 {
				pmax = 65535
			}
		}
		var busy []int
		lo, hi := pmin, pmax
		if lo == 0 {
			lo = 1024
		}
		if hi == 0 {
			hi = 65535
		}
		mode := c.Rng.Intn(4)
		for q := lo; q <= hi && q < lo+40; q++ {
			if mode == 0 || (mode == 1 && c.Rng.Intn(2) == 0) || (mode == 2 && c.Rng.Intn(5) != 0) {
				busy = append(busy, q)
			}
		}
		if pmin == 0 && pmax == 0 && c.Rng.Intn(4) == 0 {
			busy = append(busy, 0)
		}
		if err := runCase(c, []string{"scan", strconv.Itoa(pmin), strconv.Itoa(pmax), B(c.Rng.Intn(10) == 0), ints(busy)}); err != nil {
			return err
		}
	}
	// ---- gather
	for i := 0; i < nGather; i++ {
		if err := runCase(c, genGather(c, p, variant, i)); err != nil {
			return err
		}
	}
	// ---- gmapped: the mapped server-reflexive gatherer alone (srflx rewrite rules, no URLs)
	nMapped := 40
	if !quick {
		nMapped = 1500
	}
	sk, _ := variantFlags()
	c.Count("mapped-variant:skip_unspecified=" + B(sk))
	for i := 0; i < nMapped; i++ {
		if err := runCase(c, genMapped(c, p, sk)); err != nil {
			return err
		}
	}
	// ---- gudpmux: host candidates from a UDP mux
	nMux := 30
	if !quick {
		nMux = 1000
	}
	_, fx := variantFlags()
	c.Count("udpmux-variant:family_gate=" + B(fx))
	for i := 0; i < nMux; i++ {
		if err := runCase(c, genUDPMux(c, fx)); err != nil {
			return err
		}
	}
	// ---- stale: a Restart placed exactly between addCandidate's ctx.Err() check and loop.Run's select
	nStale := 3
	if !quick {
		nStale = 40
	}
	for i := 0; i < nStale; i++ {
		if err := runCase(c, []string{"stale", "50"}); err != nil {
			return err
		}
	}
	// ---- cycle
	for i := 0; i < nCycle; i++ {
		if err := runCase(c, genCycle(c, i)); err != nil {
			return err
		}
	}

	return nil
}

func runCase(c *Ctx, t []string) error {
	switch t[0] {
	case "v6ok":
		c.Count("v6ok")
		b := unhx(t[1])
		c.Emit("v6ok", t, []string{B(ice.VerifIsSupportedIPv6Partial(net.IP(b)))}, len(b) == 16)
	case "lif":
		runLif(c, t)
	case "scan":
		runScan(c, t)
	case "gather":
		runGather(c, t)
	case "gmapped":
		runMapped(c, t)
	case "gudpmux":
		runUDPMux(c, t)
	case "cycle":
		runCycle(c, t)
	case "stale":
		runStale(c, t)
	default:
		return fmt.Errorf("gatherspec: unknown case %v", t)
	}

	return nil
}

// ---------------------------------------------------------------- lif

func runLif(c *Ctx, t []string) {
	gs := groups(t)
	h := gs[0]
	rows := parseIfs(gs[1:])
	n := buildIfaces(rows)
	names, addrs, err := ice.VerifLocalInterfaces(n, ifaceFilter(h[3]), ipFilter(h[4]), ntypes(unints(h[1])), h[2] == "1")
	obs := []string{}
	if err != nil {
		obs = append(obs, "ERR")
	}
	for _, nm := range names {
		obs = append(obs, hx([]byte(nm)))
	}
	obs = append(obs, "|")
	for _, a := range addrs {
		obs = append(obs, hx(a.IP)+"@"+hx([]byte(a.Iface)))
	}
	c.Count("lif")
	c.Emit("lif", t, obs, len(addrs) > 0)
}

// ---------------------------------------------------------------- scan

func runScan(c *Ctx, t []string) {
	pmin, _ := strconv.Atoi(t[1])
	pmax, _ := strconv.Atoi(t[2])
	unavail := t[3] == "1"
	busy := map[int]bool{}
	for _, b := range unints(t[4]) {
		busy[b] = true
	}
	n := gf.New()
	var attempts []int
	n.Listen = func(_ string, _ net.IP, port int) gf.ListenVerdict {
		attempts = append(attempts, port)
		switch {
		case unavail:
			return gf.ListenUnavail
		case busy[port]:
			return gf.ListenBusy
		default:
			return gf.ListenOK
		}
	}
	conn, err := ice.VerifListenUDPInPortRange(n, pmax, pmin, "udp4", &net.UDPAddr{IP: net.IPv4(10, 0, 0, 1).To4()})
	res := "f"
	if err == nil {
		port := conn.LocalAddr().(*net.UDPAddr).Port //nolint:forcetypeassert
		if len(attempts) == 1 && attempts[0] == 0 {
			res = "e"
		} else {
			res = "p" + strconv.Itoa(port)
		}
		_ = conn.Close()
	}
	c.Count("scan:" + res[:1])
	c.Emit("scan", t, []string{res, ints(attempts)}, len(attempts) > 1)
}

// ---------------------------------------------------------------- gather

type gcase struct {
	variant, api         string
	ct, nt               []int
	pmin, pmax           int
	lo, mdns, tcpmux     bool
	iff, ipf             string
	urls                 []int
	unavail              [][]byte
	busy                 []int
	srv4, srv6           []byte
	rep4, rep6, relayed  []byte
	muxport              int
	rows                 []ifRow
	rules                []ice.AddressRewriteRule // only in "gmapped" cases
	udpmux               []net.Addr               // only in "gudpmux" cases: listen addresses of a (fake) UDP mux
}

func (g gcase) toks() []string {
	t := []string{"gather", g.variant, g.api, ints(g.ct), ints(g.nt), strconv.Itoa(g.pmin), strconv.Itoa(g.pmax),
		B(g.lo), B(g.mdns), hx([]byte(mdnsName)), g.iff, g.ipf, B(g.tcpmux), ints(g.urls), hexes(g.unavail), ints(g.busy),
		optHex(g.srv4), optHex(g.srv6), optHex(g.rep4), optHex(g.rep6), optHex(g.relayed), strconv.Itoa(g.muxport)}
	for _, r := range g.rows {
		t = append(t, r.toks()...)
	}

	return t
}

func parseGather(t []string) gcase {
	gs := groups(t)
	h := gs[0]
	if len(h) != 22 {
		panic(fmt.Sprintf("bad gather case header (%d tokens)", len(h)))
	}
	at := func(s string) int { v, _ := strconv.Atoi(s); return v }

	return gcase{variant: h[1], api: h[2], ct: unints(h[3]), nt: unints(h[4]), pmin: at(h[5]), pmax: at(h[6]),
		lo: h[7] == "1", mdns: h[8] == "1", iff: h[10], ipf: h[11], tcpmux: h[12] == "1", urls: unints(h[13]),
		unavail: unhexes(h[14]), busy: unints(h[15]), srv4: unoptHex(h[16]), srv6: unoptHex(h[17]),
		rep4: unoptHex(h[18]), rep6: unoptHex(h[19]), relayed: unoptHex(h[20]), muxport: at(h[21]), rows: parseIfs(gs[1:])}
}

var (
	defSrv4    = ip4(198, 51, 100, 1)
	defSrv6    = ip6("2001:db8:5::1")
	defRep4    = ip4(203, 0, 113, 7)
	defRep6    = ip6("2001:db8:ffff::7")
	defRelayed = ip4(192, 0, 2, 50)
)

func genGather(c *Ctx, p pool, variant string, i int) []string {
	r := c.Rng
	g := gcase{variant: variant, api: "o", muxport: 7000 + r.Intn(100)}
	g.rows = p.table()
	// candidate types
	switch k := r.Intn(20); {
	case k < 7:
		g.ct = []int{1}
	case k < 10:
		g.ct = []int{1, 2}
	case k < 12:
		g.ct = []int{2, 1, 4}
	case k < 13:
		g.ct = []int{}
	case k < 14:
		g.ct = []int{3, 1, 0}
	default:
		g.ct = subset(c, []int{1, 2, 4})
	}
	hasType := func(t int) bool {
		for _, x := range g.ct {
			if x == t {
				return true
			}
		}

		return false
	}
	// network types: every subset (in a random order), the empty one included
	g.nt = subset(c, []int{1, 2, 3, 4})
	if i%16 == 0 {
		g.nt = nil
	}
	// port range
	switch r.Intn(9) {
	case 0, 1, 2:
	case 3:
		g.pmin = 5400 + r.Intn(1000)
		g.pmax = g.pmin
	case 4:
		g.pmin, g.pmax = 0, 1024+r.Intn(20)
	case 5:
		g.pmin, g.pmax = 65500+r.Intn(30), 0
	case 6:
		g.pmin = 3000 + r.Intn(100)
		g.pmax = g.pmin - 1 - r.Intn(3)
	default:
		g.pmin = 1024 + r.Intn(50000)
		if g.pmin >= 5340 && g.pmin <= 5360 { // 5353 marks the mDNS sockets in the fake's table
			g.pmin += 100
		}
		g.pmax = g.pmin + r.Intn(6)
	}
	if g.pmin != 0 || g.pmax != 0 {
		lo, hi := g.pmin, g.pmax
		if lo == 0 {
			lo = 1024
		}
		if hi == 0 {
			hi = 65535
		}
		switch r.Intn(5) {
		case 0: // exhausted range
			for q := lo; q <= hi; q++ {
				g.busy = append(g.busy, q)
			}
		case 1:
			for q := lo; q <= hi; q++ {
				if r.Intn(2) == 0 {
					g.busy = append(g.busy, q)
				}
			}
		}
	} else if r.Intn(15) == 0 {
		g.busy = []int{0}
	}
	g.lo = r.Intn(3) == 0
	g.mdns = r.Intn(4) == 0
	g.tcpmux = r.Intn(3) == 0
	g.iff, g.ipf = p.filters(g.rows)
	for _, row := range g.rows {
		for _, a := range row.addrs {
			if r.Intn(12) == 0 && (len(a) == 4 || len(a) == 16) {
				g.unavail = append(g.unavail, canon(a))
			}
		}
	}
	if r.Intn(20) == 0 {
		g.unavail = append(g.unavail, ip4(0, 0, 0, 0))
	}
	if hasType(2) || hasType(4) {
		switch r.Intn(6) {
		case 0:
			g.urls = []int{0}
		case 1:
			g.urls = []int{2}
		case 2:
			g.urls = []int{0, 2}
		case 3:
			g.urls = []int{1, 0}
		case 4:
			g.urls = []int{3, 5, 0}
		default:
			g.urls = subset(c, []int{0, 1, 2, 3})
		}
		if r.Intn(8) != 0 {
			g.srv4 = defSrv4
		}
		if r.Intn(3) != 0 {
			g.srv6 = defSrv6
		}
		if r.Intn(12) != 0 {
			g.rep4 = defRep4
		}
		if r.Intn(6) != 0 {
			g.rep6 = defRep6
		}
		if r.Intn(6) != 0 {
			g.relayed = defRelayed
		}
	}
	if len(g.ct) > 0 && !hasType(4) && r.Intn(8) == 0 && g.pmax >= g.pmin {
		g.api = "c"
	}

	return g.toks()
}

func productSet(nt []int) bool {
	has := map[int]bool{}
	for _, v := range nt {
		has[v] = true
	}
	udp, tcp := has[1] || has[2], has[3] || has[4]
	v4, v6 := has[1] || has[3], has[2] || has[4]
	for _, tr := range []struct {
		on     bool
		t4, t6 int
	}{{udp, 1, 2}, {tcp, 3, 4}} {
		if !tr.on {
			continue
		}
		if v4 && !has[tr.t4] || v6 && !has[tr.t6] {
			return false
		}
	}

	return true
}

type published struct {
	mu    sync.Mutex
	cands []ice.Candidate
	nils  int
	nilCh chan struct{}
}

func (p *published) handler(cand ice.Candidate) {
	p.mu.Lock()
	defer p.mu.Unlock()
	if cand == nil {
		p.nils++
		select {
		case p.nilCh <- struct{}{}:
		default:
		}

		return
	}
	p.cands = append(p.cands, cand)
}

func candTok(cd ice.Candidate) string {
	disp := ""
	if a, err := netip.ParseAddr(cd.Address()); err == nil {
		disp = "i" + hex.EncodeToString(a.WithZone("").Unmap().AsSlice())
	} else {
		disp = "n" + hex.EncodeToString([]byte(cd.Address()))
	}
	base := "-"
	if ra := cd.RelatedAddress(); ra != nil {
		if a, err := netip.ParseAddr(ra.Address); err == nil {
			base = hex.EncodeToString(a.Unmap().AsSlice()) + ":" + strconv.Itoa(ra.Port)
		} else {
			base = "bad:" + strconv.Itoa(ra.Port)
		}
	}

	return fmt.Sprintf("%d/%d/%s/%d/%s", int(cd.Type()), int(cd.NetworkType()), disp, cd.Port(), base)
}

func candToks(l []ice.Candidate) []string {
	out := make([]string, 0, len(l))
	for _, cd := range l {
		out = append(out, candTok(cd))
	}
	sort.Strings(out)

	return out
}

func errCode(err error) string {
	switch {
	case err == nil:
		return "0"
	case errors.Is(err, ice.ErrMultipleGatherAttempted):
		return "1"
	case errors.Is(err, ice.ErrNoOnCandidateHandler):
		return "2"
	case errors.Is(err, ice.ErrClosed):
		return "3"
	default:
		return "9"
	}
}

func isMDNSSock(s *gf.Sock) bool { return s.Laddr.Port == 5353 }

// env wiring shared by gather and cycle cases
func wireEnv(n *gf.Net, g gcase) {
	unavail := map[string]bool{}
	for _, u := range g.unavail {
		unavail[string(u)] = true
	}
	busy := map[int]bool{}
	for _, b := range g.busy {
		busy[b] = true
	}
	n.Listen = func(network string, ip net.IP, port int) gf.ListenVerdict {
		if port == 5353 {
			return gf.ListenOK
		}
		key := canon(ip)
		if len(ip) == 0 {
			key = ip4(0, 0, 0, 0)
			if network == "udp6" {
				key = ip6("::")
			}
		}
		switch {
		case unavail[string(key)]:
			return gf.ListenUnavail
		case busy[port]:
			return gf.ListenBusy
		default:
			return gf.ListenOK
		}
	}
	n.Resolve = func(network, address string) (*net.UDPAddr, error) {
		host, port, err := net.SplitHostPort(address)
		if err != nil {
			return nil, err
		}
		if host != stunHost {
			return net.ResolveUDPAddr(network, address)
		}
		pn, _ := strconv.Atoi(port)
		var ip []byte
		switch network {
		case "udp4":
			ip = g.srv4
		case "udp6":
			ip = g.srv6
		default:
			ip = g.srv4
			if ip == nil {
				ip = g.srv6
			}
		}
		if ip == nil {
			return nil, &net.DNSError{Err: "no such host", Name: host, IsNotFound: true}
		}

		return &net.UDPAddr{IP: net.IP(ip), Port: pn}, nil
	}
	n.OnWrite = func(s *gf.Sock, b []byte, to net.Addr) {
		rep := g.rep4
		if s.Network == "udp6" {
			rep = g.rep6
		}
		if rep == nil {
			return
		}
		if raw := gf.BindingReply(b, &net.UDPAddr{IP: net.IP(rep), Port: 20000 + s.Laddr.Port%30000}); raw != nil {
			s.Deliver(raw, to)
		}
	}
}

func urlsOf(kinds []int) []*stun.URI {
	var out []*stun.URI
	for _, k := range kinds {
		u := &stun.URI{Host: stunHost, Port: 3478}
		switch k {
		case 0:
			u.Scheme, u.Proto = stun.SchemeTypeSTUN, stun.ProtoTypeUDP
		case 1:
			u.Scheme, u.Proto = stun.SchemeTypeSTUNS, stun.ProtoTypeTCP
		case 2:
			u.Scheme, u.Proto = stun.SchemeTypeTURN, stun.ProtoTypeUDP
		case 3:
			u.Scheme, u.Proto = stun.SchemeTypeTURN, stun.ProtoTypeTCP
		case 4:
			u.Scheme, u.Proto = stun.SchemeTypeTURNS, stun.ProtoTypeUDP
		default:
			u.Scheme, u.Proto = stun.SchemeTypeTURNS, stun.ProtoTypeTCP
		}
		if k >= 2 {
			u.Username, u.Password = "user", "pass"
		}
		out = append(out, u)
	}

	return out
}

type agentEnv struct {
	net   *gf.Net
	tcp   *gf.TCPMux
	turns []*gf.TURNClient
	mu    sync.Mutex
}

func newAgent(g gcase) (*ice.Agent, *agentEnv, error) {
	n := buildIfaces(g.rows)
	wireEnv(n, g)
	env := &agentEnv{net: n}
	cts := []ice.CandidateType{}
	for _, v := range g.ct {
		cts = append(cts, ice.CandidateType(v))
	}
	mode := ice.MulticastDNSModeDisabled
	if g.mdns {
		mode = ice.MulticastDNSModeQueryAndGather
	}
	timeout := 40 * time.Millisecond
	factory := func(cfg *turn.ClientConfig) (ice.VerifTURNClient, error) {
		env.mu.Lock()
		defer env.mu.Unlock()
		cl := &gf.TURNClient{ID: len(env.turns), Conn: cfg.Conn}
		if g.relayed == nil {
			cl.AllocErr = errors.New("allocation refused")
		} else {
			cl.Relayed = &net.UDPAddr{IP: net.IP(g.relayed), Port: 50000 + len(env.turns)}
		}
		env.turns = append(env.turns, cl)

		return cl, nil
	}
	if g.tcpmux {
		env.tcp = gf.NewTCPMux(g.muxport)
	}
	if g.api == "c" {
		cfg := &ice.AgentConfig{
			Net: n, CandidateTypes: cts, NetworkTypes: ntypes(g.nt), PortMin: uint16(g.pmin), PortMax: uint16(g.pmax),
			IncludeLoopback: g.lo, MulticastDNSMode: mode, MulticastDNSHostName: mdnsName,
			InterfaceFilter: ifaceFilter(g.iff), IPFilter: ipFilter(g.ipf), Urls: urlsOf(g.urls), STUNGatherTimeout: &timeout,
		}
		if env.tcp != nil {
			cfg.TCPMux = env.tcp
		}
		a, err := ice.NewAgent(cfg)

		return a, env, err
	}
	opts := []ice.AgentOption{
		ice.WithNet(n), ice.WithCandidateTypes(cts), ice.WithNetworkTypes(ntypes(g.nt)),
		ice.WithPortRange(uint16(g.pmin), uint16(g.pmax)), ice.WithMulticastDNSMode(mode), ice.WithMulticastDNSHostName(mdnsName),
		ice.WithSTUNGatherTimeout(timeout), ice.VerifWithTURNClientFactory(factory),
	}
	if g.lo {
		opts = append(opts, ice.WithIncludeLoopback())
	}
	if f := ifaceFilter(g.iff); f != nil {
		opts = append(opts, ice.WithInterfaceFilter(f))
	}
	if f := ipFilter(g.ipf); f != nil {
		opts = append(opts, ice.WithIPFilter(f))
	}
	if env.tcp != nil {
		opts = append(opts, ice.WithTCPMux(env.tcp))
	}
	if len(g.urls) > 0 {
		opts = append(opts, ice.WithUrls(urlsOf(g.urls)))
	}
	if len(g.rules) > 0 {
		opts = append(opts, ice.WithAddressRewriteRules(g.rules...))
	}
	if len(g.udpmux) > 0 {
		opts = append(opts, ice.WithUDPMux(gf.NewUDPMux(g.udpmux)))
	}
	a, err := ice.NewAgentWithOptions(opts...)

	return a, env, err
}

func ownSocks(n *gf.Net) []string {
	var out []string
	for _, s := range n.Snapshot() {
		if isMDNSSock(s) || s.IsClosed() {
			continue
		}
		out = append(out, hex.EncodeToString(canon(s.Laddr.IP))+":"+strconv.Itoa(s.Laddr.Port))
	}
	sort.Strings(out)

	return out
}

func gatherTag(g gcase) string {
	hasHostOrSrflx := false
	for _, t := range g.ct {
		if t == 1 || t == 2 {
			hasHostOrSrflx = true
		}
	}
	var cls []string
	switch {
	case len(g.nt) == 0 && hasHostOrSrflx:
		cls = append(cls, "empty_network_types")
	case len(g.nt) > 0 && !productSet(g.nt):
		cls = append(cls, "nonproduct_network_types")
	}
	// relay over udp4 TURN yields a relayed address of the server's choosing (IPv4 here)
	hasRelay, hasTurn, udp4 := false, false, len(g.nt) == 0
	for _, t := range g.ct {
		hasRelay = hasRelay || t == 4
	}
	for _, u := range g.urls {
		hasTurn = hasTurn || u == 2
	}
	for _, t := range g.nt {
		udp4 = udp4 || t == 1
	}
	if hasRelay && hasTurn && g.relayed != nil && !udp4 {
		cls = append(cls, "relay_family_disabled")
	}
	if len(cls) == 0 {
		return "gather,plain"
	}

	return "gather," + strings.Join(cls, "+")
}

func runGather(c *Ctx, t []string) {
	g := parseGather(t)
	tag := gatherTag(g)
	c.Count(tag)
	if g.mdns {
		c.Count("gather:mdns")
	}
	if g.iff != "-" || g.ipf != "-" {
		c.Count("gather:filters")
	}
	if len(g.urls) > 0 {
		c.Count("gather:urls")
	}
	obs, nontrivial := func() (obs []string, nontrivial bool) {
		defer func() {
			if r := recover(); r != nil {
				obs, nontrivial = []string{"PANIC", hx([]byte(fmt.Sprint(r)))}, false
			}
		}()
		a, env, err := newAgent(g)
		if err != nil {
			return []string{"NEWERR", hx([]byte(err.Error()))}, false
		}
		pub := &published{nilCh: make(chan struct{}, 4)}
		if err := a.OnCandidate(pub.handler); err != nil {
			return []string{"ONCANDERR"}, false
		}
		ret := a.GatherCandidates()
		timedOut := false
		if ret == nil {
			select {
			case <-pub.nilCh:
			case <-time.After(15 * time.Second):
				timedOut = true
			}
		}
		st, _ := a.GetGatheringState()
		loc, _ := a.GetLocalCandidates()
		pub.mu.Lock()
		pl := append([]ice.Candidate{}, pub.cands...)
		nils := pub.nils
		pub.mu.Unlock()
		socks := ownSocks(env.net)
		_ = a.Close()
		obs = []string{errCode(ret), strconv.Itoa(int(st)), strconv.Itoa(nils)}
		if timedOut {
			obs[0] = "TIMEOUT"
		}
		obs = append(obs, ";", "P")
		obs = append(obs, candToks(pl)...)
		obs = append(obs, ";", "L")
		obs = append(obs, candToks(loc)...)
		obs = append(obs, ";", "S")
		obs = append(obs, socks...)

		return obs, len(pl) > 0
	}()
	c.Emit(tag, t, obs, nontrivial)
}

// which code variant is in /repo: decided by two probes on the real code
func detectVariant() string {
	probe := func(ct, nt []int, rows []ifRow, wantNT int) bool {
		g := gcase{variant: "000", api: "o", ct: ct, nt: nt, iff: "-", ipf: "-", rows: rows}
		if ct[0] == 4 {
			g.urls, g.srv4, g.relayed = []int{2}, defSrv4, defRelayed
		}
		a, _, err := newAgent(g)
		if err != nil {
			return false
		}
		pub := &published{nilCh: make(chan struct{}, 4)}
		_ = a.OnCandidate(pub.handler)
		if a.GatherCandidates() == nil {
			select {
			case <-pub.nilCh:
			case <-time.After(10 * time.Second):
			}
		}
		pub.mu.Lock()
		defer pub.mu.Unlock()
		defer a.Close() //nolint:errcheck
		for _, cd := range pub.cands {
			if int(cd.NetworkType()) == wantNT {
				return true
			}
		}

		return false
	}
	rows := []ifRow{{"eth0", true, false, [][]byte{ip4(10, 9, 9, 9), ip6("2001:db8:9::9")}}}
	eff := probe([]int{1}, nil, rows, 1)
	leak := probe([]int{1}, []int{1, 4}, rows, 2)
	relayLeak := probe([]int{4}, []int{2}, rows, 1)

	return B(eff) + B(!leak) + B(!relayLeak)
}

// ---------------------------------------------------------------- stale

// trapCtx stands for a gather cycle's context: its first Err() call (the check at the top of
// addCandidate) reports "not cancelled" and, before returning, lets the harness restart the agent,
// which cancels the cycle.
type trapCtx struct {
	context.Context
	once   sync.Once
	onTrap func()
}

func (t *trapCtx) Err() error {
	fired := false
	t.once.Do(func() {
		fired = true
		t.onTrap()
	})
	if fired {
		return nil
	}

	return t.Context.Err()
}

// stale <n>: n times: publish a host candidate through addCandidate with a Restart in the window;
// observation: how often the candidate of the cancelled cycle ended up in the new generation.
func runStale(c *Ctx, t []string) {
	n, _ := strconv.Atoi(t[1])
	stale, errs := 0, 0
	for i := 0; i < n; i++ {
		g := gcase{variant: "000", api: "o", ct: []int{1}, nt: []int{1}, iff: "-", ipf: "-"}
		a, _, err := newAgent(g)
		if err != nil {
			errs++

			continue
		}
		_ = a.OnCandidate(func(ice.Candidate) {})
		cand, err := ice.NewCandidateHost(&ice.CandidateHostConfig{Network: "udp", Address: "10.1.1.1", Port: 4000 + i, Component: 1})
		if err != nil {
			errs++
			_ = a.Close()

			continue
		}
		conn := gf.NewBorrowed("stale", "", &net.UDPAddr{IP: net.IPv4(10, 1, 1, 1).To4(), Port: 4000 + i})
		inner, cancel := context.WithCancel(context.Background())
		ctx := &trapCtx{Context: inner, onTrap: func() {
			_ = a.Restart("", "") // cancels the gather cycle ...
			cancel()              // ... whose context this is
		}}
		_ = ice.VerifAddCandidate(ctx, a, cand, conn)
		if l, _ := a.GetLocalCandidates(); len(l) > 0 {
			stale++
		}
		_ = a.Close()
	}
	c.Count("stale")
	c.Emit("stale,addcandidate_after_restart", t, []string{strconv.Itoa(stale), strconv.Itoa(errs)}, true)
}

// ---------------------------------------------------------------- cycle

// cycle <naddr> ; op ; op ...   ops: 0 OnCandidate 1 Gather 2 Restart 3 GetState 4 settle
// 5 release+settle 6 Close.  Observations per op, separated by ";".
func genCycle(c *Ctx, i int) []string {
	r := c.Rng
	n := 1 + r.Intn(3)
	t := []string{"cycle", strconv.Itoa(n)}
	var ops []int
	if r.Intn(10) != 0 {
		ops = append(ops, 0)
	}
	k := 3 + r.Intn(10)
	for j := 0; j < k; j++ {
		switch x := r.Intn(20); {
		case x < 7:
			ops = append(ops, 1)
		case x < 10:
			ops = append(ops, 2)
		case x < 13:
			ops = append(ops, 3)
		case x < 16:
			ops = append(ops, 4)
		case x < 19:
			ops = append(ops, 5)
		default:
			ops = append(ops, 0)
		}
		if i%3 == 0 && ops[len(ops)-1] == 1 && r.Intn(2) == 0 {
			ops = append(ops, 1) // back-to-back calls
		}
	}
	ops = append(ops, 5)
	if r.Intn(3) == 0 {
		ops = append(ops, 6, 1, 5)
	}
	for _, o := range ops {
		t = append(t, ";", strconv.Itoa(o))
	}

	return t
}

func runCycle(c *Ctx, t []string) {
	gs := groups(t)
	naddr, _ := strconv.Atoi(gs[0][1])
	var ops []int
	for _, g := range gs[1:] {
		v, _ := strconv.Atoi(g[0])
		ops = append(ops, v)
	}
	var row ifRow
	row = ifRow{name: "eth0", up: true}
	for i := 0; i < naddr; i++ {
		row.addrs = append(row.addrs, ip4(10, 7, 0, byte(1+i)))
	}
	g := gcase{variant: "000", api: "o", ct: []int{1}, nt: []int{1}, iff: "-", ipf: "-", rows: []ifRow{row}}
	obs, nontrivial := func() (obs []string, nontrivial bool) {
		defer func() {
			if r := recover(); r != nil {
				obs, nontrivial = []string{"PANIC", hx([]byte(fmt.Sprint(r)))}, false
			}
		}()
		a, env, err := newAgent(g)
		if err != nil {
			return []string{"NEWERR"}, false
		}
		// the gate: Interfaces() calls made by gather goroutines park while it is closed
		var mu sync.Mutex
		cond := sync.NewCond(&mu)
		open := true
		parked := 0
		env.net.OnInterfaces = func() {
			mu.Lock()
			parked++
			for !open {
				cond.Wait()
			}
			parked--
			mu.Unlock()
		}
		setGate := func(o bool) {
			mu.Lock()
			open = o
			mu.Unlock()
			cond.Broadcast()
		}
		pub := &published{nilCh: make(chan struct{}, 64)}
		var dones []<-chan struct{}
		closed := false
		awaitNil, nilsAtAccept := false, 0
		settle := func(gateOpen bool) []string {
			deadline := time.Now().Add(10 * time.Second)
			count := func() (int, int) {
				live := 0
				for _, d := range dones {
					select {
					case <-d:
					default:
						live++
					}
				}
				mu.Lock()
				defer mu.Unlock()

				return live, parked
			}
			pk := 0
			for {
				live, p1 := count()
				if live == p1 && (!gateOpen || live == 0) {
					time.Sleep(200 * time.Microsecond)
					live2, p2 := count()
					if live2 == p2 && p2 == p1 && (!gateOpen || live2 == 0) {
						pk = p1

						break
					}
				}
				if time.Now().After(deadline) {
					return []string{"TIMEOUT"}
				}
				time.Sleep(100 * time.Microsecond)
			}
			st := 0
			lc := 0
			if !closed {
				s, err := a.GetGatheringState()
				if err == nil {
					st = int(s)
				}
				l, _ := a.GetLocalCandidates()
				lc = len(l)
			}
			// the nil candidate of a cycle that completed is delivered by the notifier goroutine:
			// wait for it (bounded) instead of sampling too early
			nils := func() int {
				pub.mu.Lock()
				defer pub.mu.Unlock()

				return pub.nils
			}
			if st == 3 && awaitNil {
				for i := 0; i < 40000 && nils() <= nilsAtAccept; i++ {
					time.Sleep(50 * time.Microsecond)
				}
				awaitNil = false
			}
			time.Sleep(300 * time.Microsecond)
			nl := nils()

			return []string{strconv.Itoa(st), strconv.Itoa(nl), strconv.Itoa(pk), strconv.Itoa(lc)}
		}
		accepted, restarts := 0, 0
		for i, o := range ops {
			if i > 0 {
				obs = append(obs, ";")
			}
			switch o {
			case 0:
				obs = append(obs, errCode(a.OnCandidate(pub.handler)))
			case 1:
				err := a.GatherCandidates()
				if err == nil {
					accepted++
					pub.mu.Lock()
					awaitNil, nilsAtAccept = true, pub.nils
					pub.mu.Unlock()
					if d := ice.VerifGatherDone(a); d != nil {
						dones = append(dones, d)
					}
				}
				obs = append(obs, errCode(err))
			case 2:
				restarts++
				obs = append(obs, errCode(a.Restart("", "")))
			case 3:
				s, err := a.GetGatheringState()
				if err != nil {
					obs = append(obs, "0")
				} else {
					obs = append(obs, strconv.Itoa(int(s)))
				}
			case 4:
				setGate(false)
				obs = append(obs, settle(false)...)
			case 5:
				setGate(true)
				obs = append(obs, settle(true)...)
			case 6:
				setGate(true)
				obs = append(obs, errCode(a.Close()))
				closed = true
			}
		}
		setGate(true)
		if !closed {
			_ = a.Close()
		}

		return obs, accepted > 0 && (restarts > 0 || accepted > 1)
	}()
	c.Count("cycle")
	c.Emit("cycle", t, obs, nontrivial)
}

// ---------------------------------------------------------------- gmapped

// gmapped SK NT PMIN PMAX LO IFF IPF RULES {; iface}  =>  RET STATE NILS ; P cand* ; L cand* ; S sock* ; R r4 r6
// RULES: comma separated "mode|local|ext+ext" (mode 0 default, 1 replace, 2 append; local "-" = catch-all);
// r4 / r6: what resolveSrflxAddresses answers for the wildcard address of the family: "!" not ok, else the addresses.
type mrule struct {
	mode  int
	local string
	ext   []string
}

func rulesTok(rs []mrule) string {
	if len(rs) == 0 {
		return "-"
	}
	var out []string
	for _, r := range rs {
		e := strings.Join(r.ext, "+")
		if e == "" {
			e = "-"
		}
		out = append(out, strconv.Itoa(r.mode)+"|"+r.local+"|"+e)
	}

	return strings.Join(out, ",")
}

func parseRules(t string) []mrule {
	if t == "-" {
		return nil
	}
	var out []mrule
	for _, x := range strings.Split(t, ",") {
		f := strings.Split(x, "|")
		m, _ := strconv.Atoi(f[0])
		r := mrule{mode: m, local: f[1]}
		if f[2] != "-" {
			r.ext = strings.Split(f[2], "+")
		}
		out = append(out, r)
	}

	return out
}

func iceRules(rs []mrule) []ice.AddressRewriteRule {
	var out []ice.AddressRewriteRule
	for _, r := range rs {
		x := ice.AddressRewriteRule{External: r.ext, AsCandidateType: ice.CandidateTypeServerReflexive, Mode: ice.AddressRewriteMode(r.mode)}
		if r.local != "-" {
			x.Local = r.local
		}
		out = append(out, x)
	}

	return out
}

func genMapped(c *Ctx, p pool, sk bool) []string {
	r := c.Rng
	g := gcase{rows: p.table()}
	g.nt = subset(c, []int{1, 2, 3, 4})
	if r.Intn(6) == 0 {
		g.nt = nil
	}
	switch r.Intn(6) {
	case 0, 1:
	case 2:
		g.pmin = 20000 + r.Intn(1000)
		g.pmax = g.pmin + 3 + r.Intn(20)
	case 3:
		g.pmin = 30000 + r.Intn(30000)
	case 4:
		g.pmax = 1100 + r.Intn(3000)
	default:
		g.pmin = 40000 + r.Intn(100)
		g.pmax = g.pmin + 6
	}
	g.lo = r.Intn(3) == 0
	g.iff, g.ipf = "-", "-"
	if r.Intn(3) == 0 {
		g.iff, g.ipf = p.filters(g.rows)
	}
	v4 := []string{"203.0.113.9", "203.0.113.10", "198.51.100.77"}
	v6 := []string{"2001:db8:77::9", "2001:db8:77::a"}
	var rs []mrule
	pick := func(pool []string, n int) []string {
		var out []string
		for _, i := range r.Perm(len(pool)) {
			if len(out) < n {
				out = append(out, pool[i])
			}
		}

		return out
	}
	switch r.Intn(8) {
	case 0: // a rule pinned to a local address: never matches the wildcard listen address
		rs = append(rs, mrule{local: "10.99.99.99", ext: pick(v4, 1)})
	case 1: // both: the pinned one and a catch-all
		rs = append(rs, mrule{local: "10.99.99.99", ext: pick(v4, 1)}, mrule{local: "-", ext: pick(v4, 1+r.Intn(3))})
	case 2: // IPv6 catch-all only
		rs = append(rs, mrule{local: "-", ext: pick(v6, 1+r.Intn(2))})
	case 3: // one catch-all per family
		rs = append(rs, mrule{local: "-", ext: pick(v4, 1+r.Intn(3))}, mrule{local: "-", ext: pick(v6, 1+r.Intn(2))})
	case 4: // append mode
		rs = append(rs, mrule{mode: 2, local: "-", ext: pick(v4, 1+r.Intn(3))})
	case 5: // a link-local (location tracked) external among others
		rs = append(rs, mrule{local: "-", ext: []string{"fe80::77", v6[0]}})
	default:
		rs = append(rs, mrule{local: "-", ext: pick(v4, 1+r.Intn(3))})
	}
	t := []string{"gmapped", B(sk), ints(g.nt), strconv.Itoa(g.pmin), strconv.Itoa(g.pmax), B(g.lo), g.iff, g.ipf, rulesTok(rs)}
	for _, row := range g.rows {
		t = append(t, row.toks()...)
	}

	return t
}

func mappedCase(t []string) (gcase, []mrule) {
	gs := groups(t)
	h := gs[0]
	if len(h) != 9 {
		panic(fmt.Sprintf("bad gmapped case header (%d tokens)", len(h)))
	}
	at := func(s string) int { v, _ := strconv.Atoi(s); return v }
	rs := parseRules(h[8])
	g := gcase{variant: "000", api: "o", ct: []int{2}, nt: unints(h[2]), pmin: at(h[3]), pmax: at(h[4]), lo: h[5] == "1",
		iff: h[6], ipf: h[7], rows: parseIfs(gs[1:]), rules: iceRules(rs)}

	return g, rs
}

func resolvedTok(a *ice.Agent, wild net.IP) string {
	ips, ok := ice.VerifResolveSrflxAddresses(a, wild, "")
	if !ok {
		return "!"
	}
	if len(ips) == 0 {
		return "-"
	}
	var out []string
	for _, ip := range ips {
		out = append(out, hex.EncodeToString(canon(ip)))
	}

	return strings.Join(out, ",")
}

var (
	probeOnce             sync.Once
	probedSkip, probedMux bool
)

// the variant flags are facts about the implementation, not inputs: they are (re)written into every case, also when a
// recorded case is replayed against a tree that has changed since
func variantFlags() (bool, bool) {
	probeOnce.Do(func() { probedSkip, probedMux = detectSkipUnspec(), detectUDPMuxFixed() })

	return probedSkip, probedMux
}

func runMapped(c *Ctx, t []string) {
	sk, _ := variantFlags()
	t = append([]string{}, t...)
	t[1] = B(sk)
	g, rs := mappedCase(t)
	c.Count("gmapped")
	if g.iff != "-" || g.ipf != "-" {
		c.Count("gmapped:filters")
	}
	if g.pmin != 0 || g.pmax != 0 {
		c.Count("gmapped:port_range")
	}
	c.Count(fmt.Sprintf("gmapped:rules=%d", len(rs)))
	obs, nontrivial := func() (obs []string, nontrivial bool) {
		defer func() {
			if r := recover(); r != nil {
				obs, nontrivial = []string{"PANIC", hx([]byte(fmt.Sprint(r)))}, false
			}
		}()
		a, env, err := newAgent(g)
		if err != nil {
			return []string{"NEWERR", hx([]byte(err.Error()))}, false
		}
		r4 := resolvedTok(a, net.IPv4zero)
		r6 := resolvedTok(a, net.IPv6unspecified)
		pub := &published{nilCh: make(chan struct{}, 4)}
		if err := a.OnCandidate(pub.handler); err != nil {
			return []string{"ONCANDERR"}, false
		}
		ret := a.GatherCandidates()
		timedOut := false
		if ret == nil {
			select {
			case <-pub.nilCh:
			case <-time.After(15 * time.Second):
				timedOut = true
			}
		}
		st, _ := a.GetGatheringState()
		loc, _ := a.GetLocalCandidates()
		pub.mu.Lock()
		pl := append([]ice.Candidate{}, pub.cands...)
		nils := pub.nils
		pub.mu.Unlock()
		socks := ownSocks(env.net)
		_ = a.Close()
		obs = []string{errCode(ret), strconv.Itoa(int(st)), strconv.Itoa(nils)}
		if timedOut {
			obs[0] = "TIMEOUT"
		}
		obs = append(obs, ";", "P")
		obs = append(obs, candToks(pl)...)
		obs = append(obs, ";", "L")
		obs = append(obs, candToks(loc)...)
		obs = append(obs, ";", "S")
		obs = append(obs, socks...)
		obs = append(obs, ";", "R", r4, r6)

		return obs, len(pl) > 0
	}()
	tag := "gmapped"
	if g.iff != "-" || g.ipf != "-" {
		tag += ",filters"
	}
	c.Emit(tag, t, obs, nontrivial)
}

// does the mapped gatherer skip an unspecified address (the repaired code) or publish it?
func detectSkipUnspec() bool {
	rows := []ifRow{{"eth0", true, false, [][]byte{ip4(10, 9, 9, 9)}}}
	g := gcase{variant: "000", api: "o", ct: []int{2}, nt: []int{1}, iff: "-", ipf: "-", rows: rows,
		rules: iceRules([]mrule{{local: "10.99.99.99", ext: []string{"203.0.113.9"}}})}
	a, _, err := newAgent(g)
	if err != nil {
		return true
	}
	pub := &published{nilCh: make(chan struct{}, 4)}
	_ = a.OnCandidate(pub.handler)
	if a.GatherCandidates() == nil {
		select {
		case <-pub.nilCh:
		case <-time.After(10 * time.Second):
		}
	}
	pub.mu.Lock()
	defer pub.mu.Unlock()
	defer a.Close() //nolint:errcheck

	return len(pub.cands) == 0
}

// ---------------------------------------------------------------- gudpmux

// gudpmux FIX NT LO MDNS MNAME ADDRS  =>  RET STATE NILS ; P cand* ; L cand* ; S sock*
// ADDRS: comma separated <hex ip>:<port>, the listen addresses of the UDP mux, in order
func muxAddrsTok(as []net.Addr) string {
	var out []string
	for _, a := range as {
		u := a.(*net.UDPAddr) //nolint:forcetypeassert
		out = append(out, hex.EncodeToString(canon(u.IP))+":"+strconv.Itoa(u.Port))
	}

	return strings.Join(out, ",")
}

func parseMuxAddrs(t string) []net.Addr {
	var out []net.Addr
	for _, x := range strings.Split(t, ",") {
		f := strings.Split(x, ":")
		b, _ := hex.DecodeString(f[0])
		p, _ := strconv.Atoi(f[1])
		out = append(out, &net.UDPAddr{IP: net.IP(b), Port: p})
	}

	return out
}

func genUDPMux(c *Ctx, fixed bool) []string {
	r := c.Rng
	nt := subset(c, []int{1, 2, 3, 4})
	if r.Intn(6) == 0 {
		nt = nil
	}
	pool := [][]byte{ip4(10, 0, 0, 5), ip4(192, 168, 7, 9), ip4(127, 0, 0, 1), ip6("2001:db8:5::5"), ip6("2001:db8:5::6"),
		ip6("::1"), ip6("fd00::17"), ip6("fe80::55"), ip6("fec0::9")}
	n := 1 + r.Intn(4)
	var addrs []net.Addr
	for k := 0; k < n; k++ {
		ip := pool[r.Intn(len(pool))]
		port := 7000 + r.Intn(3)
		addrs = append(addrs, &net.UDPAddr{IP: net.IP(ip), Port: port})
	}
	mdns := r.Intn(4) == 0

	return []string{"gudpmux", B(fixed), ints(nt), B(r.Intn(2) == 0), B(mdns), hx([]byte(mdnsName)), muxAddrsTok(addrs)}
}

func udpmuxCase(t []string) gcase {
	if len(t) != 7 {
		panic(fmt.Sprintf("bad gudpmux case (%d tokens)", len(t)))
	}

	return gcase{variant: "000", api: "o", ct: []int{1}, nt: unints(t[2]), lo: t[3] == "1", mdns: t[4] == "1",
		iff: "-", ipf: "-", udpmux: parseMuxAddrs(t[6])}
}

func runUDPMux(c *Ctx, t []string) {
	_, fx := variantFlags()
	t = append([]string{}, t...)
	t[1] = B(fx)
	g := udpmuxCase(t)
	c.Count("gudpmux")
	if g.mdns {
		c.Count("gudpmux:mdns")
	}
	obs, nontrivial := func() (obs []string, nontrivial bool) {
		defer func() {
			if r := recover(); r != nil {
				obs, nontrivial = []string{"PANIC", hx([]byte(fmt.Sprint(r)))}, false
			}
		}()
		a, env, err := newAgent(g)
		if err != nil {
			return []string{"NEWERR", hx([]byte(err.Error()))}, false
		}
		pub := &published{nilCh: make(chan struct{}, 4)}
		if err := a.OnCandidate(pub.handler); err != nil {
			return []string{"ONCANDERR"}, false
		}
		ret := a.GatherCandidates()
		timedOut := false
		if ret == nil {
			select {
			case <-pub.nilCh:
			case <-time.After(15 * time.Second):
				timedOut = true
			}
		}
		st, _ := a.GetGatheringState()
		loc, _ := a.GetLocalCandidates()
		pub.mu.Lock()
		pl := append([]ice.Candidate{}, pub.cands...)
		nils := pub.nils
		pub.mu.Unlock()
		socks := ownSocks(env.net)
		_ = a.Close()
		obs = []string{errCode(ret), strconv.Itoa(int(st)), strconv.Itoa(nils)}
		if timedOut {
			obs[0] = "TIMEOUT"
		}
		obs = append(obs, ";", "P")
		obs = append(obs, candToks(pl)...)
		obs = append(obs, ";", "L")
		obs = append(obs, candToks(loc)...)
		obs = append(obs, ";", "S")
		obs = append(obs, socks...)

		return obs, len(pl) > 0
	}()
	tag := "gudpmux"
	if g.mdns {
		tag += ",mdns"
	}
	c.Emit(tag, t, obs, nontrivial)
}

// does the UDP-mux host gatherer skip listen addresses of a network type that is not enabled (the repaired code)?
func detectUDPMuxFixed() bool {
	g := gcase{variant: "000", api: "o", ct: []int{1}, nt: []int{1}, iff: "-", ipf: "-",
		udpmux: []net.Addr{&net.UDPAddr{IP: net.IP(ip6("2001:db8:5::5")), Port: 7000}}}
	a, _, err := newAgent(g)
	if err != nil {
		return true
	}
	pub := &published{nilCh: make(chan struct{}, 4)}
	_ = a.OnCandidate(pub.handler)
	if a.GatherCandidates() == nil {
		select {
		case <-pub.nilCh:
		case <-time.After(10 * time.Second):
		}
	}
	pub.mu.Lock()
	defer pub.mu.Unlock()
	defer a.Close() //nolint:errcheck

	return len(pub.cands) == 0
}
