package main

import (
	"errors"
	"fmt"
	"strconv"

	ice "github.com/pion/ice/v4"
	"github.com/pion/stun/v3"

	. "verif/gotools/hlib"
)

// suite "attrs" (C16): the ICE STUN attribute codecs, through real stun.Message values.
//
// case:  a <kind> [<attrtype>] <n> (<type> <value>)*n  D            decode only
//        a <kind> [<attrtype>] <n> (<type> <value>)*n  E <args...>  AddTo(args) then decode
//   kind = prio | controlling | controlled | control | usec | nom <attrtype> | dtls | ack
//   args = prio: v   controlling/controlled: v   control: role v   usec: -   nom: v   dtls: <bytes>   ack: k v1..vk
// The message is built with Message.Add for the n given attributes, then the codec's AddTo,
// then encoded (WriteHeader) and DECODED from its bytes into a fresh message on which GetFrom runs.
// observation:  PANIC | EERR <class> | M <n> (<type> <value>)* (OK <k> v1..vk | ERR <class>)
func main() { Main("attrs", run) }

type rawAttr struct {
	t uint16
	v []byte
}

type acase struct {
	kind  string
	atype uint16 // nom only
	pre   []rawAttr
	enc   bool
	args  []uint64
	data  []byte // dtls
}

func (a *acase) tokens() []string {
	t := []string{"a", a.kind}
	if a.kind == "nom" {
		t = append(t, fmt.Sprint(a.atype))
	}
	t = append(t, strconv.Itoa(len(a.pre)))
	for _, p := range a.pre {
		t = append(t, fmt.Sprint(p.t), Hex(string(p.v)))
	}
	if !a.enc {
		return append(t, "D")
	}
	t = append(t, "E")
	if a.kind == "dtls" {
		return append(t, Hex(string(a.data)))
	}
	if a.kind == "ack" {
		t = append(t, strconv.Itoa(len(a.args)))
	}
	for _, v := range a.args {
		t = append(t, fmt.Sprint(v))
	}
	return t
}

func parseCase(t []string) (*acase, error) {
	if len(t) < 3 || t[0] != "a" {
		return nil, fmt.Errorf("attrs: bad case %v", t)
	}
	a := &acase{kind: t[1]}
	t = t[2:]
	if a.kind == "nom" {
		v, _ := strconv.ParseUint(t[0], 10, 16)
		a.atype = uint16(v)
		t = t[1:]
	}
	n, _ := strconv.Atoi(t[0])
	t = t[1:]
	for i := 0; i < n; i++ {
		v, _ := strconv.ParseUint(t[0], 10, 16)
		a.pre = append(a.pre, rawAttr{uint16(v), []byte(Unhex(t[1]))})
		t = t[2:]
	}
	if t[0] == "D" {
		return a, nil
	}
	a.enc = true
	t = t[1:]
	if a.kind == "dtls" {
		a.data = []byte(Unhex(t[0]))
		return a, nil
	}
	if a.kind == "ack" {
		t = t[1:]
	}
	for _, s := range t {
		v, _ := strconv.ParseUint(s, 10, 64)
		a.args = append(a.args, v)
	}
	return a, nil
}

func errClass(err error) string {
	switch {
	case errors.Is(err, stun.ErrAttributeNotFound):
		return "notfound"
	case errors.Is(err, stun.ErrAttributeSizeInvalid):
		return "size"
	default:
		return "other"
	}
}

func observe(a *acase) (obs []string) {
	defer func() {
		if r := recover(); r != nil {
			obs = []string{"PANIC"}
		}
	}()
	m := new(stun.Message)
	m.Type = stun.BindingRequest
	m.TransactionID = [stun.TransactionIDSize]byte{1, 2, 3, 4, 5, 6, 7, 8, 9, 10, 11, 12}
	m.WriteHeader()
	for _, p := range a.pre {
		m.Add(stun.AttrType(p.t), p.v)
	}
	if a.enc {
		var err error
		switch a.kind {
		case "prio":
			err = ice.PriorityAttr(uint32(a.args[0])).AddTo(m)
		case "controlling":
			err = ice.AttrControlling(a.args[0]).AddTo(m)
		case "controlled":
			err = ice.AttrControlled(a.args[0]).AddTo(m)
		case "control":
			err = ice.AttrControl{Role: ice.Role(a.args[0]), Tiebreaker: a.args[1]}.AddTo(m)
		case "usec":
			err = ice.UseCandidate().AddTo(m)
		case "nom":
			if stun.AttrType(a.atype) == ice.DefaultNominationAttribute {
				err = ice.Nomination(uint32(a.args[0])).AddTo(m)
			} else {
				err = ice.NominationSetter{Value: uint32(a.args[0]), AttrType: stun.AttrType(a.atype)}.AddTo(m)
			}
		case "dtls":
			err = ice.DtlsInStunAttribute(a.data).AddTo(m)
		case "ack":
			var l []uint32
			for _, v := range a.args {
				l = append(l, uint32(v))
			}
			err = ice.DtlsInStunAckAttribute(l).AddTo(m)
		}
		if err != nil {
			return []string{"EERR", errClass(err)}
		}
	}
	m.WriteHeader()
	d := new(stun.Message)
	d.Raw = append(d.Raw[:0], m.Raw...)
	if err := d.Decode(); err != nil {
		return []string{"DECODE-FAILED"}
	}
	obs = []string{"M", strconv.Itoa(len(d.Attributes))}
	for _, x := range d.Attributes {
		obs = append(obs, fmt.Sprint(uint16(x.Type)), Hex(string(x.Value)))
	}
	ok := func(vals ...uint64) {
		obs = append(obs, "OK", strconv.Itoa(len(vals)))
		for _, v := range vals {
			obs = append(obs, fmt.Sprint(v))
		}
	}
	fail := func(err error) { obs = append(obs, "ERR", errClass(err)) }
	switch a.kind {
	case "prio":
		var p ice.PriorityAttr
		if err := p.GetFrom(d); err != nil {
			fail(err)
		} else {
			ok(uint64(p))
		}
	case "controlling":
		var p ice.AttrControlling
		if err := p.GetFrom(d); err != nil {
			fail(err)
		} else {
			ok(uint64(p))
		}
	case "controlled":
		var p ice.AttrControlled
		if err := p.GetFrom(d); err != nil {
			fail(err)
		} else {
			ok(uint64(p))
		}
	case "control":
		var p ice.AttrControl
		if err := p.GetFrom(d); err != nil {
			fail(err)
		} else {
			ok(uint64(p.Role), p.Tiebreaker)
		}
	case "usec":
		if ice.UseCandidate().IsSet(d) {
			ok(1)
		} else {
			ok(0)
		}
	case "nom":
		var p ice.NominationAttribute
		var err error
		if stun.AttrType(a.atype) == ice.DefaultNominationAttribute {
			err = p.GetFrom(d)
		} else {
			err = p.GetFromWithType(d, stun.AttrType(a.atype))
		}
		if err != nil {
			fail(err)
		} else {
			ok(uint64(p.Value))
		}
	case "dtls":
		var p ice.DtlsInStunAttribute
		if err := p.GetFrom(d); err != nil {
			fail(err)
		} else {
			var vals []uint64
			for _, b := range p {
				vals = append(vals, uint64(b))
			}
			ok(vals...)
		}
	case "ack":
		var p ice.DtlsInStunAckAttribute
		if err := p.GetFrom(d); err != nil {
			fail(err)
		} else {
			var vals []uint64
			for _, b := range p {
				vals = append(vals, uint64(b))
			}
			ok(vals...)
		}
	}
	return obs
}

var kindType = map[string]uint16{"prio": 0x24, "controlling": 0x802A, "controlled": 0x8029, "control": 0x802A,
	"usec": 0x25, "nom": 0xC001, "dtls": 0xC070, "ack": 0xC071}

func emit(c *Ctx, a *acase) {
	obs := observe(a)
	// tag: kind, decode-only or encode, and the size of the attribute GetFrom reads
	tag := a.kind
	if a.enc {
		tag += ",enc"
	} else {
		tag += ",dec"
	}
	want := kindType[a.kind]
	if a.kind == "nom" {
		want = a.atype
	}
	size := -1
	for _, p := range a.pre {
		if p.t == want || (a.kind == "control" && p.t == 0x8029 && !hasType(a.pre, 0x802A)) {
			size = len(p.v)
			break
		}
	}
	if size > 4 && a.kind == "nom" {
		tag += ",size>4"
	} else if size >= 0 {
		tag += fmt.Sprintf(",size%d", size)
	} else if !a.enc {
		tag += ",absent"
	}
	c.Count(tag)
	c.Emit(tag, a.tokens(), obs, size >= 0 || a.enc)
}

func hasType(l []rawAttr, t uint16) bool {
	for _, p := range l {
		if p.t == t {
			return true
		}
	}
	return false
}

func run(c *Ctx) error {
	c.Rule = "a message with 0-3 raw attributes (the kind's own type with every size 0..12 and 15..20, other ICE types as decoys, " +
		"duplicates), optionally the codec's AddTo (boundary and random values), encoded and decoded through stun.Message, then " +
		"GetFrom; non-trivial = the attribute GetFrom reads is present (raw, any size) or was encoded. Distinct = distinct case lines."
	if c.Replay != "" {
		for _, t := range c.ReplayLines() {
			a, err := parseCase(t)
			if err != nil {
				return err
			}
			emit(c, a)
		}
		return nil
	}
	r := c.Rng
	kinds := []string{"prio", "controlling", "controlled", "control", "usec", "nom", "dtls", "ack"}
	randBytes := func(n int) []byte {
		b := make([]byte, n)
		for i := range b {
			switch r.Intn(4) {
			case 0:
				b[i] = 0
			case 1:
				b[i] = 0xff
			default:
				b[i] = byte(r.Intn(256))
			}
		}
		return b
	}
	allTypes := []uint16{0x24, 0x25, 0x8029, 0x802A, 0xC001, 0xC070, 0xC071, 0x0006, 0xC002}
	nomTypes := []uint16{0xC001, 0xC001, 0xC001, 0xC002, 0x0030, 0xFFFF}
	value := func(bits uint) uint64 {
		switch r.Intn(6) {
		case 0:
			return 0
		case 1:
			return 1
		case 2:
			return 1<<bits - 1
		case 3:
			return 1 << (bits - 1)
		case 4:
			return []uint64{1<<24 - 1, 1 << 24, 1<<24 + 1, 0xABCDEF, 0x1ABCDEF, 255, 256, 65535, 65536}[r.Intn(9)] & (1<<bits - 1)
		default:
			if bits == 64 {
				return r.Uint64()
			}
			return r.Uint64() & (1<<bits - 1)
		}
	}
	encArgs := func(a *acase) {
		a.enc = true
		switch a.kind {
		case "prio", "nom":
			a.args = []uint64{value(32)}
		case "controlling", "controlled":
			a.args = []uint64{value(64)}
		case "control":
			a.args = []uint64{uint64(r.Intn(2)), value(64)}
		case "dtls":
			a.data = randBytes(r.Intn(40))
		case "ack":
			n := r.Intn(7)
			for i := 0; i < n; i++ {
				a.args = append(a.args, value(32))
			}
		}
	}
	// every size 0..20 of the kind's own attribute, alone, for every kind
	for _, k := range kinds {
		for size := 0; size <= 20; size++ {
			for rep := 0; rep < 3; rep++ {
				a := &acase{kind: k, atype: 0xC001}
				t := kindType[k]
				if k == "control" && rep == 1 {
					t = 0x8029
				}
				a.pre = []rawAttr{{t, randBytes(size)}}
				emit(c, a)
			}
		}
	}
	n := 6000
	if c.Tier != "quick" {
		n = 600000
	}
	for i := 0; i < n; i++ {
		a := &acase{kind: kinds[r.Intn(len(kinds))], atype: 0xC001}
		if a.kind == "nom" {
			a.atype = nomTypes[r.Intn(len(nomTypes))]
		}
		np := 0
		switch r.Intn(4) {
		case 0:
			np = 0
		case 1, 2:
			np = 1
		case 3:
			np = 2 + r.Intn(2)
		}
		for j := 0; j < np; j++ {
			var t uint16
			if r.Intn(3) > 0 {
				t = kindType[a.kind]
				if a.kind == "nom" {
					t = a.atype
				}
				if a.kind == "control" && r.Intn(2) == 0 {
					t = 0x8029
				}
			} else {
				t = allTypes[r.Intn(len(allTypes))]
			}
			size := r.Intn(13)
			if r.Intn(5) == 0 {
				size = 15 + r.Intn(6)
			}
			a.pre = append(a.pre, rawAttr{t, randBytes(size)})
		}
		if r.Intn(2) == 0 {
			encArgs(a)
		}
		emit(c, a)
	}
	return nil
}
