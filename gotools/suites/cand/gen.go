package main

import (
	"fmt"
	"math/rand"
	"strings"
)

// generators; every choice comes from the suite's seeded PRNG.
type gen struct {
	r      *rand.Rand
	origin string // how the last text line was made (counted, not part of the tag)
}

func (g *gen) pick(l []string) string { return l[g.r.Intn(len(l))] }
func (g *gen) chance(p float64) bool  { return g.r.Float64() < p }

var corpus = []string{
	"750 1 udp 500 fcd9:e3b8:12ce:9fc5:74a5:c6bb:d8b:e08a 53987 typ host",
	"4273957277 1 udp 2130706431 10.0.75.1 53634 typ host",
	"1052353102 1 tcp 2128609279 192.168.0.196 0 typ host tcptype active",
	"1380287402 1 udp 2130706431 e2494022-4d9a-4c1e-a750-cc48d4f8d6ee.local 60542 typ host",
	"647372371 1 udp 1694498815 191.228.238.68 53991 typ srflx raddr 192.168.0.274 rport 53991",
	"4207374052 1 tcp 1685790463 192.0.2.15 50000 typ prflx raddr 10.0.0.1 rport 12345 generation 0 network-id 2 network-cost 10",
	"848194626 1 udp 16777215 50.0.0.1 5000 typ relay raddr 192.168.0.1 rport 5001",
	"candidate:750 1 udp 500 127.0.0.1 80 typ host",
	" 1 udp 500 127.0.0.1 80 typ host",
	"1052353102 1 tcp 2128609279 192.168.0.196 0 typ host tcptype passive",
	"1052353102 1 tcp 2128609279 192.168.0.196 0 typ host tcptype so",
	"750 1 udp 500 10.0.0.1 0 typ host",
	"750 1 udp 500 10.0.0.1 65535 typ host",
	"1380287402 1 udp 2130706431 redacted-ip.invalid 60542 typ host",
	"848194626 1 udp 16777215 50.0.0.1 5000 typ relay raddr 192.168.0.1 rport 5001 generation 0 network-id 1 network-cost 20 ufrag frag42abcdef password abc123exp123",
	"842163049 1 udp 1677729535 203.0.113.7 40000 typ srflx raddr 0.0.0.0 rport 0 generation 0 ufrag abcd network-cost 999",
	"1 1 udp 1 1.2.3.4 5 typ srflx raddr  rport 7",
	"1 1 udp 1 1.2.3.4 5 typ srflx tcptype active  v",
	"1 1 udp 1 1.2.3.4 5 typ host tcptype   v",
	"1 1 udp 1 1.2.3.4 5 typ host tcptype ACTIVE tcptype ",
	"1 1 udp 1 1.2.3.4 5 typ host a b a b c d",
	"1 1 udp 1 1.2.3.4 5 typ host raddr 9.9.9.9 rport 9 raddr x",
	"1 1 udp 1 1.2.3.4 5 typ relay raddr 0.0.0.0 rport 0 raddr x y z",
	"1 70000 udp 9999999999 1.2.3.4 5 typ host",
	"1 1 UDPx 0 ::ffff:1.2.3.4 5 typ prflx raddr x rport 65535 k\xc3\xa9 v\xc2\x80",
	"1 1 tcp 0 fe80::1%eth0 5 typ host tcptype so x ",
	"1 1 udp 1 1.2.3.4 5 typ host k \xe2\x82\xac",
	"",
	"candidate:",
	"typ",
}

var (
	v4pool     = []string{"10.0.0.1", "192.168.1.7", "0.0.0.0", "255.255.255.255", "1.2.3.4", "127.0.0.1", "203.0.113.9"}
	v6pool     = []string{"::1", "fe80::1", "2001:db8::1", "::", "2001:DB8::1", "2001:db8:0:0:0:0:0:1", "fcd9:e3b8:12ce:9fc5:74a5:c6bb:d8b:e08a", "ff02::1"}
	mappedpool = []string{"::ffff:1.2.3.4", "::ffff:10.0.0.1", "::ffff:a00:1", "::FFFF:192.168.1.7", "0:0:0:0:0:ffff:1.2.3.4"}
	mdnspool   = []string{"abc.local", "e2494022-4d9a-4c1e-a750-cc48d4f8d6ee.local", "x.invalid", ".local", "redacted-ip.invalid", "1.2.3.4.local", "t\tab.local"}
	zonedpool  = []string{"fe80::1%eth0", "fe80::1%", "::1%lo", "ff02::1%3", "abc%d.local"}
	badaddr    = []string{"", "not-an-ip", "1.2.3", "1.2.3.4.5", "UPPER.LOCAL", "1.2.3.4 ", "a b.local", "01.2.3.4", "::g"}
	networks   = []string{"udp", "tcp", "udp", "tcp", "UDP", "TCP", "udp4", "tcp6", "Udp", "tcp4", "udp6", "tcpx"}
	badnets    = []string{"", "sctp", "ud", "xudp", "\xffudp"}
	extkeys    = []string{"generation", "ufrag", "network-id", "network-cost", "password", "k", "caf\xc3\xa9", "x\x7f", "t\tb", "rport", "typ", "host"}
	extvals    = []string{"0", "1", "abc", "", "frag42abcdef", "999", "v\xc2\x80", "a+/b", "raddr", "tcptype"}
	relayprotos = []string{"udp", "tcp", "tls", "dtls", ""}
)

const iceChars = "ABCDEFGHIJKLMNOPQRSTUVWXYZabcdefghijklmnopqrstuvwxyz0123456789+/"

func (g *gen) iceToken(n int) string {
	b := make([]byte, n)
	for i := range b {
		b[i] = iceChars[g.r.Intn(len(iceChars))]
	}
	return string(b)
}

func (g *gen) randV4() string {
	return fmt.Sprintf("%d.%d.%d.%d", g.r.Intn(256), g.r.Intn(256), g.r.Intn(256), g.r.Intn(256))
}

func (g *gen) randV6() string {
	var p []string
	for i := 0; i < 8; i++ {
		p = append(p, fmt.Sprintf("%x", g.r.Intn(65536)))
	}
	return strings.Join(p, ":")
}

// an address token and whether it is expected to be usable by the non-host constructors
func (g *gen) address(host bool) string {
	x := g.r.Float64()
	switch {
	case x < 0.22:
		return g.pick(v4pool)
	case x < 0.30:
		return g.randV4()
	case x < 0.48:
		return g.pick(v6pool)
	case x < 0.54:
		return g.randV6()
	case x < 0.68:
		return g.pick(mappedpool)
	case x < 0.86:
		if host || g.chance(0.15) {
			return g.pick(mdnspool)
		}
		return g.pick(v4pool)
	case x < 0.93:
		return g.pick(zonedpool)
	default:
		return g.pick(badaddr)
	}
}

func (g *gen) port() int {
	x := g.r.Float64()
	switch {
	case x < 0.25:
		return []int{0, 1, 1023, 1024, 65534, 65535, 9, 80}[g.r.Intn(8)]
	case x < 0.95:
		return g.r.Intn(65536)
	default:
		return []int{-1, 65536, 99999, 100000, -65535}[g.r.Intn(5)]
	}
}

func (g *gen) validBS(allowEmpty bool) string {
	n := g.r.Intn(6)
	if !allowEmpty {
		n++
	}
	var b []byte
	for i := 0; i < n; i++ {
		x := g.r.Float64()
		switch {
		case x < 0.8:
			b = append(b, byte(33+g.r.Intn(94))) // printable, no space
		case x < 0.9:
			b = append(b, []byte{1, 9, 11, 12, 14, 31, 127}[g.r.Intn(7)])
		default:
			b = append(b, byte(0xC2+g.r.Intn(2)), byte(0x80+g.r.Intn(64)))
		}
	}
	return string(b)
}

func (g *gen) adds() []ext {
	n := 0
	if g.chance(0.6) {
		n = 1 + g.r.Intn(4)
	}
	var out []ext
	for i := 0; i < n; i++ {
		var e ext
		if g.chance(0.7) {
			e.k = g.pick(extkeys)
		} else {
			e.k = g.validBS(false)
		}
		if g.chance(0.7) {
			e.v = g.pick(extvals)
		} else {
			e.v = g.validBS(true)
		}
		if g.chance(0.04) { // out of the domain of the round-trip law
			switch g.r.Intn(7) {
			case 0:
				e = ext{"tcptype", g.pick([]string{"active", "passive", "so", "ACTIVE", "bogus", ""})}
			case 1:
				e.k = "raddr"
			case 2:
				e.k = ""
			case 3:
				e.v = "a b"
			case 4:
				e.v = "x\ny"
			case 5:
				e.k = "k\x00"
			case 6:
				e.v = "\xe2\x82\xac"
			}
		}
		out = append(out, e)
	}
	return out
}

func (g *gen) ctor() *src {
	s := &src{ctor: true}
	s.ty = 1 + g.r.Intn(4)
	if g.chance(0.95) {
		s.network = g.pick(networks)
	} else {
		s.network = g.pick(badnets)
	}
	s.address = g.address(s.ty == 1)
	s.port = g.port()
	switch x := g.r.Float64(); {
	case x < 0.5:
		s.comp = []uint16{0, 1, 1, 1, 2, 255, 256, 257, 65535}[g.r.Intn(9)]
	default:
		s.comp = uint16(g.r.Intn(65536))
	}
	switch x := g.r.Float64(); {
	case x < 0.4:
		s.prio = 0
	case x < 0.6:
		s.prio = []uint32{1, 1<<31 - 1, 1 << 31, 1<<32 - 1, 2130706431, 16777215, 999999999, 1000000000}[g.r.Intn(8)]
	default:
		s.prio = g.r.Uint32()
	}
	switch x := g.r.Float64(); {
	case x < 0.4:
		s.found = ""
	case x < 0.45:
		s.found = " "
	case x < 0.55:
		s.found = g.iceToken([]int{1, 31, 32}[g.r.Intn(3)])
	case x < 0.96:
		s.found = g.iceToken(1 + g.r.Intn(32))
	default:
		s.found = g.pick([]string{g.iceToken(33), "a-b", "a b", "caf\xc3\xa9", "  ", "x "})
	}
	if s.ty == 1 {
		if strings.HasPrefix(strings.ToLower(s.network), "tcp") || g.chance(0.3) {
			s.tcp = g.r.Intn(4)
		}
	} else if g.chance(0.05) {
		s.tcp = g.r.Intn(4) // ignored by these constructors
	}
	if s.ty != 1 {
		switch x := g.r.Float64(); {
		case x < 0.45:
			s.reladdr, s.relport = g.pick(v4pool), 1+g.r.Intn(65535)
		case x < 0.55:
			s.reladdr, s.relport = g.pick(v6pool), 1+g.r.Intn(65535)
		case x < 0.65:
			s.reladdr, s.relport = "0.0.0.0", 0
		case x < 0.72:
			s.reladdr, s.relport = g.pick(v4pool), 0
		case x < 0.80:
			s.reladdr, s.relport = "", 0
		case x < 0.86:
			s.reladdr, s.relport = g.pick(mdnspool[:5]), g.port()
		case x < 0.90:
			s.reladdr, s.relport = "::", 65535
		case x < 0.94:
			s.reladdr, s.relport = g.pick([]string{"raddr", "rport", "typ", "x%y"}), 7
		default:
			s.reladdr, s.relport = g.pick([]string{"", "", "a b", "1.2.3.4"}), []int{5, 65536, -1, 70000}[g.r.Intn(4)]
		}
		s.relayproto = g.pick(relayprotos)
	}
	s.adds = g.adds()
	// keep the (rare) computed-priority-0 relay apart from the other finding classes
	if s.ty == 4 && s.relayproto == "tls" && s.comp == 256 && s.prio == 0 {
		s.reladdr, s.relport = "10.0.0.1", 3478
	}
	return s
}

// candidates covering every type x transport x tcp type and the named corner cases, independent of the PRNG
func fixedCtor() []*src {
	var out []*src
	for ty := 1; ty <= 4; ty++ {
		for _, nw := range []string{"udp", "tcp"} {
			for _, ad := range []string{"10.0.0.1", "2001:db8::1", "::ffff:1.2.3.4", "abc.local"} {
				for tcp := 0; tcp <= 3; tcp++ {
					if ty != 1 && tcp != 0 {
						continue
					}
					s := &src{ctor: true, ty: ty, network: nw, address: ad, port: 5000, comp: 1, tcp: tcp}
					if ty != 1 {
						s.reladdr, s.relport = "192.168.0.1", 5001
					}
					out = append(out, s)
					t := *s
					t.adds = []ext{{"generation", "0"}, {"network-id", "2"}, {"ufrag", ""}}
					t.found, t.prio = "abc+/XYZ", 12345
					out = append(out, &t)
				}
			}
		}
	}
	for ty := 2; ty <= 4; ty++ {
		out = append(out, &src{ctor: true, ty: ty, network: "udp", address: "1.2.3.4", port: 9, comp: 1, reladdr: "0.0.0.0", relport: 0})
		out = append(out, &src{ctor: true, ty: ty, network: "udp", address: "1.2.3.4", port: 9, comp: 1, reladdr: "10.0.0.1", relport: 0})
		out = append(out, &src{ctor: true, ty: ty, network: "udp", address: "1.2.3.4", port: 9, comp: 1, reladdr: "", relport: 0})
	}
	for _, p := range relayprotos {
		for _, comp := range []uint16{1, 256, 257} {
			out = append(out, &src{ctor: true, ty: 4, network: "udp", address: "1.2.3.4", port: 9, comp: comp, reladdr: "10.0.0.1", relport: 7, relayproto: p})
		}
	}
	return out
}

// ---------------------------------------------------------------- text stream

func (g *gen) validLine() string {
	// a line as a peer would send it (not necessarily what Marshal prints)
	f := g.iceToken(1 + g.r.Intn(12))
	if g.chance(0.1) {
		f = ""
	}
	comp := fmt.Sprint(1 + g.r.Intn(3))
	nw := g.pick([]string{"udp", "tcp", "UDP", "TCP", "udp", "tcp"})
	prio := fmt.Sprint(g.r.Uint32())
	typ := g.pick([]string{"host", "srflx", "prflx", "relay"})
	addr := g.address(typ == "host")
	port := fmt.Sprint(g.r.Intn(65536))
	l := []string{f, comp, nw, prio, addr, port, "typ", typ}
	if typ != "host" || g.chance(0.1) {
		switch x := g.r.Float64(); {
		case x < 0.7:
			l = append(l, "raddr", g.pick(v4pool), "rport", fmt.Sprint(1+g.r.Intn(65535)))
		case x < 0.85:
			l = append(l, "raddr", "0.0.0.0", "rport", "0")
		case x < 0.9:
			l = append(l, "raddr", g.pick(v6pool), "rport", "0")
		}
	}
	if strings.EqualFold(nw, "tcp") && g.chance(0.7) || g.chance(0.1) {
		l = append(l, "tcptype", g.pick([]string{"active", "passive", "so", "Active", "SO", "bogus"}))
	}
	n := g.r.Intn(4)
	for i := 0; i < n; i++ {
		k := g.pick(extkeys)
		if g.chance(0.2) {
			k = g.validBS(false)
		}
		v := g.pick(extvals)
		if g.chance(0.2) {
			v = g.validBS(false)
		}
		if v == "" {
			v = "0"
		}
		l = append(l, k, v)
	}
	if g.chance(0.1) {
		l = append(l, "tcptype", g.pick([]string{"active", "passive", "so", ""}))
	}
	return strings.Join(l, " ")
}

func (g *gen) mutate(line string) string {
	toks := strings.Split(line, " ")
	switch g.r.Intn(22) {
	case 0: // delete a token
		if len(toks) > 1 {
			i := g.r.Intn(len(toks))
			toks = append(toks[:i], toks[i+1:]...)
		}
	case 1: // duplicate a token
		i := g.r.Intn(len(toks))
		toks = append(toks[:i+1], toks[i:]...)
	case 2: // swap two tokens
		i, j := g.r.Intn(len(toks)), g.r.Intn(len(toks))
		toks[i], toks[j] = toks[j], toks[i]
	case 3: // empty a token (double space)
		toks[g.r.Intn(len(toks))] = ""
	case 4: // digits overflow
		i := g.r.Intn(len(toks))
		toks[i] = g.pick([]string{"65535", "65536", "99999", "100000", "70000", "4294967295", "4294967296", "9999999999", "10000000000", "00000", "000001", "0", "18446744073709551616", "-1", "+1", "1e3", "\xef\xbc\x91"})
	case 5: // long foundation
		toks[0] = g.iceToken([]int{31, 32, 33, 40}[g.r.Intn(4)])
	case 6: // tab somewhere
		i := g.r.Intn(len(toks))
		toks[i] = toks[i] + "\t"
	case 7:
		return line + " "
	case 8:
		return " " + line
	case 9:
		return g.pick([]string{"candidate:", "candidate: ", "Candidate:", "candidate:candidate:", "a=candidate:"}) + line
	case 10: // random byte replaced
		if len(line) > 0 {
			b := []byte(line)
			b[g.r.Intn(len(b))] = byte(g.r.Intn(256))
			return string(b)
		}
	case 11: // special byte inserted
		b := []byte(line)
		i := g.r.Intn(len(b) + 1)
		ins := [][]byte{{0}, {10}, {13}, {0x80}, {0xff}, {0xc3, 0xa9}, {0xc2}, {0xe2, 0x82, 0xac}, {'%'}, {0xc4, 0xb0}, {0x7f}}[g.r.Intn(11)]
		return string(b[:i]) + string(ins) + string(b[i:])
	case 12: // truncate
		if len(line) > 0 {
			return line[:g.r.Intn(len(line))]
		}
	case 13: // upper-case a token
		i := g.r.Intn(len(toks))
		toks[i] = strings.ToUpper(toks[i])
	case 14: // extension pairs appended
		toks = append(toks, g.pick(extkeys), g.pick(extvals))
	case 15: // tcptype somewhere in the extensions
		toks = append(toks, "tcptype", g.pick([]string{"active", "passive", "so", "PASSIVE", "bogus", ""}))
	case 16: // dangling key
		toks = append(toks, g.pick([]string{"raddr", "rport", "tcptype", "k", "raddr 1.2.3.4", "raddr 1.2.3.4 rport"}))
	case 17: // zone in a token
		i := g.r.Intn(len(toks))
		toks[i] = toks[i] + g.pick([]string{"%eth0", "%", "%%"})
	case 18: // change the type
		for i := range toks {
			if toks[i] == "typ" && i+1 < len(toks) {
				toks[i+1] = g.pick([]string{"host", "srflx", "prflx", "relay", "HOST", "unknown", ""})
			}
		}
	case 19: // related-address forms
		toks = append(toks, "raddr", g.pick([]string{"0.0.0.0", "", "1.2.3.4", "::"}), "rport", g.pick([]string{"0", "5", "65535", "65536", ""}))
	case 20: // duplicate extension pairs
		if len(toks) >= 2 {
			toks = append(toks, toks[len(toks)-2], toks[len(toks)-1])
		}
	case 21: // replace a token by a random address
		toks[g.r.Intn(len(toks))] = g.address(true)
	}
	return strings.Join(toks, " ")
}

func (g *gen) text() *src {
	x := g.r.Float64()
	var line string
	switch {
	case x < 0.15:
		g.origin = "valid-line"
		line = g.validLine()
	case x < 0.25:
		g.origin = "marshalled"
		line = g.marshalled()
	case x < 0.60:
		g.origin = "mutated1"
		line = g.mutate(g.base())
	case x < 0.85:
		g.origin = "mutated2-3"
		line = g.base()
		for i := 0; i < 2+g.r.Intn(2); i++ {
			line = g.mutate(line)
		}
	case x < 0.93:
		g.origin = "corpus-mutated"
		line = g.mutate(g.pick(corpus))
	default:
		g.origin = "random-bytes"
		b := make([]byte, g.r.Intn(60))
		for i := range b {
			if g.chance(0.3) {
				b[i] = ' '
			} else {
				b[i] = byte(g.r.Intn(256))
			}
		}
		line = string(b)
	}
	return &src{raw: line}
}

func (g *gen) base() string {
	if g.chance(0.5) {
		return g.validLine()
	}
	return g.marshalled()
}

// text printed by Marshal for a generated candidate (falls back to a valid line)
func (g *gen) marshalled() string {
	for i := 0; i < 5; i++ {
		s := g.ctor()
		var out string
		func() {
			defer func() { recover() }()
			if c, err := s.build(); err == nil {
				out = c.Marshal()
			}
		}()
		if out != "" {
			return out
		}
	}
	return g.validLine()
}

// ---------------------------------------------------------------- pairs

func (g *gen) pair() (*src, *src, string) {
	if g.chance(0.6) {
		a := g.ctor()
		b := *a
		b.adds = append([]ext(nil), a.adds...)
		kind := "ctor:"
		switch g.r.Intn(12) {
		case 0:
			kind += "same"
		case 1:
			kind += "port"
			b.port = g.port()
		case 2:
			kind += "address"
			b.address = g.address(b.ty == 1)
		case 3:
			kind += "type"
			b.ty = 1 + g.r.Intn(4)
		case 4:
			kind += "tcptype"
			b.tcp = g.r.Intn(4)
		case 5:
			kind += "rel"
			b.reladdr, b.relport = g.pick(v4pool), g.port()
		case 6:
			kind += "network"
			b.network = g.pick(networks)
		case 7:
			kind += "ext-order"
			g.r.Shuffle(len(b.adds), func(i, j int) { b.adds[i], b.adds[j] = b.adds[j], b.adds[i] })
		case 8:
			kind += "ext-value"
			if len(b.adds) > 0 {
				b.adds[g.r.Intn(len(b.adds))].v = g.pick(extvals)
			}
		case 9:
			kind += "ext-more"
			b.adds = append(b.adds, ext{g.pick(extkeys), g.pick(extvals)})
		case 10:
			kind += "prio-found-comp"
			b.prio, b.found, b.comp = g.r.Uint32(), g.iceToken(4), uint16(g.r.Intn(65536))
		case 11:
			kind += "address-spelling"
			b.address = g.pick([]string{strings.ToUpper(a.address), "::ffff:" + a.address, strings.TrimPrefix(a.address, "::ffff:")})
		}
		return a, &b, kind
	}
	// parsed lines (the only way to get duplicate extension keys)
	base := g.base()
	kind := "text:"
	other := base
	switch g.r.Intn(6) {
	case 0:
		kind += "same"
	case 1:
		kind += "mutated"
		other = g.mutate(base)
	case 2:
		kind += "exts-permuted"
		e := g.extTail()
		base, other = base+e[0], base+e[1]
	case 3:
		kind += "exts-dup"
		base, other = base+" a 1 a 1 b 2", base+g.pick([]string{" a 1 b 2 b 2", " b 2 a 1 a 1", " a 1 a 1 a 1", " a 1 a 1 b 3"})
	case 4:
		kind += "other"
		other = g.base()
	case 5:
		kind += "vs-ctor"
		a := &src{raw: base}
		return a, g.ctor(), kind
	}
	return &src{raw: base}, &src{raw: other}, kind
}

func (g *gen) extTail() [2]string {
	n := 2 + g.r.Intn(3)
	var ps []string
	for i := 0; i < n; i++ {
		ps = append(ps, g.pick(extkeys)+" "+g.pick([]string{"0", "1", "x"}))
	}
	a := " " + strings.Join(ps, " ")
	g.r.Shuffle(len(ps), func(i, j int) { ps[i], ps[j] = ps[j], ps[i] })
	return [2]string{a, " " + strings.Join(ps, " ")}
}
