package main

import (
	"fmt"
	"strconv"
	"strings"

	ice "github.com/pion/ice/v4"

	. "verif/gotools/hlib"
)

// suite "cand" (C16): candidate text codec and candidate equality.
//
// case lines
//   rt   <src> T <n> (<tok> <ok> <is4> <key>)*        round trip of one candidate
//   pair <src> <src> T <n> (...)*                     equality laws on two candidates
// <src> = C <type> <network> <address> <port> <component> <priority> <foundation> <tcptype>
//           <reladdr> <relport> <relayproto> <n> (<key> <value>)*        public constructor + AddExtension calls
//       | U <raw>                                                       UnmarshalCandidate(raw)
// The table after T tells the model what netip.ParseAddr (not modelled) makes of every address
// token that can reach it: ok, IPv4-after-Unmap, identity of the address (VerifAddrInfo).
//
// observations
//   rt:   PANIC | ERR <class> | RERR <getters> <marshal> <class>
//         | OK <getters c> <marshal c> <getters c'> <8 flags> <marshal c'>
//   pair: PANIC | NONE | P <Equal(a,b)> <Equal(b,a)> <DeepEqual(a,b)> <DeepEqual(b,a)>
// <getters> = foundation component networktype priority address port type hasrel reladdr relport tcptype n (key value)*
func main() { Main("cand", run) }

type ext struct{ k, v string }

type src struct {
	ctor                                bool
	ty                                  int
	network, address                    string
	port                                int
	comp                                uint16
	prio                                uint32
	found                               string
	tcp                                 int
	reladdr                             string
	relport                             int
	relayproto                          string
	adds                                []ext
	raw                                 string
	tags                                []string // class markers contributed by the generator
}

func (s *src) tokens() []string {
	if !s.ctor {
		return []string{"U", Hex(s.raw)}
	}
	t := []string{"C", strconv.Itoa(s.ty), Hex(s.network), Hex(s.address), strconv.Itoa(s.port), strconv.Itoa(int(s.comp)),
		fmt.Sprint(s.prio), Hex(s.found), strconv.Itoa(s.tcp), Hex(s.reladdr), strconv.Itoa(s.relport), Hex(s.relayproto),
		strconv.Itoa(len(s.adds))}
	for _, e := range s.adds {
		t = append(t, Hex(e.k), Hex(e.v))
	}
	return t
}

func parseSrc(t []string) (*src, []string, error) {
	if len(t) < 2 {
		return nil, nil, fmt.Errorf("short source")
	}
	if t[0] == "U" {
		return &src{raw: Unhex(t[1])}, t[2:], nil
	}
	if t[0] != "C" || len(t) < 13 {
		return nil, nil, fmt.Errorf("bad source %v", t)
	}
	ai := func(s string) int { v, _ := strconv.Atoi(s); return v }
	p, _ := strconv.ParseUint(t[6], 10, 32)
	s := &src{ctor: true, ty: ai(t[1]), network: Unhex(t[2]), address: Unhex(t[3]), port: ai(t[4]), comp: uint16(ai(t[5])),
		prio: uint32(p), found: Unhex(t[7]), tcp: ai(t[8]), reladdr: Unhex(t[9]), relport: ai(t[10]), relayproto: Unhex(t[11])}
	n := ai(t[12])
	t = t[13:]
	if len(t) < 2*n {
		return nil, nil, fmt.Errorf("short extension list")
	}
	for i := 0; i < n; i++ {
		s.adds = append(s.adds, ext{Unhex(t[2*i]), Unhex(t[2*i+1])})
	}
	return s, t[2*n:], nil
}

func (s *src) build() (ice.Candidate, error) {
	if !s.ctor {
		return ice.UnmarshalCandidate(s.raw)
	}
	var c ice.Candidate
	var err error
	switch s.ty {
	case 1:
		c, err = nilIfErr(ice.NewCandidateHost(&ice.CandidateHostConfig{Network: s.network, Address: s.address, Port: s.port,
			Component: s.comp, Priority: s.prio, Foundation: s.found, TCPType: ice.TCPType(s.tcp)}))
	case 2:
		c, err = nilIfErr(ice.NewCandidateServerReflexive(&ice.CandidateServerReflexiveConfig{Network: s.network, Address: s.address,
			Port: s.port, Component: s.comp, Priority: s.prio, Foundation: s.found, RelAddr: s.reladdr, RelPort: s.relport}))
	case 3:
		c, err = nilIfErr(ice.NewCandidatePeerReflexive(&ice.CandidatePeerReflexiveConfig{Network: s.network, Address: s.address,
			Port: s.port, Component: s.comp, Priority: s.prio, Foundation: s.found, RelAddr: s.reladdr, RelPort: s.relport}))
	case 4:
		c, err = nilIfErr(ice.NewCandidateRelay(&ice.CandidateRelayConfig{Network: s.network, Address: s.address, Port: s.port,
			Component: s.comp, Priority: s.prio, Foundation: s.found, RelAddr: s.reladdr, RelPort: s.relport, RelayProtocol: s.relayproto}))
	default:
		return nil, fmt.Errorf("bad type %d", s.ty)
	}
	if err != nil {
		return nil, err
	}
	for _, e := range s.adds {
		if err := c.AddExtension(ice.CandidateExtension{Key: e.k, Value: e.v}); err != nil {
			return nil, err
		}
	}
	return c, nil
}

func nilIfErr[T ice.Candidate](c T, err error) (ice.Candidate, error) {
	if err != nil {
		return nil, err
	}
	return c, nil
}

func stripZone(a string) string {
	if i := strings.IndexByte(a, '%'); i >= 0 {
		return a[:i]
	}
	return a
}

// address table for the model
type table struct {
	seen map[string]bool
	toks []string
}

func (t *table) add(a string) {
	if t.seen == nil {
		t.seen = map[string]bool{}
	}
	if t.seen[a] {
		return
	}
	t.seen[a] = true
	ok, is4, key := ice.VerifAddrInfo(a)
	t.toks = append(t.toks, Hex(a), B(ok), B(is4), Hex(key))
}

// addLine describes the address field of a candidate line: the parser takes the fifth
// space-separated field (whatever precedes it) and strips the zone.
func (t *table) addLine(raw string) {
	f := strings.Split(raw, " ")
	if len(f) > 4 {
		t.add(stripZone(f[4]))
	}
}

func (t *table) addSrc(s *src) {
	if s.ctor {
		t.add(s.address)
		t.add(stripZone(s.address))
	} else {
		t.addLine(s.raw)
	}
}

func (t *table) tokens() []string {
	return append([]string{"T", strconv.Itoa(len(t.toks) / 4)}, t.toks...)
}

func getters(c ice.Candidate) []string {
	rel := c.RelatedAddress()
	t := []string{Hex(c.Foundation()), fmt.Sprint(c.Component()), fmt.Sprint(int(c.NetworkType())), fmt.Sprint(c.Priority()),
		Hex(c.Address()), fmt.Sprint(c.Port()), fmt.Sprint(int(c.Type()))}
	if rel == nil {
		t = append(t, "0", "x", "0")
	} else {
		t = append(t, "1", Hex(rel.Address), fmt.Sprint(rel.Port))
	}
	t = append(t, fmt.Sprint(int(c.TCPType())))
	es := c.Extensions()
	t = append(t, strconv.Itoa(len(es)))
	for _, e := range es {
		t = append(t, Hex(e.Key), Hex(e.Value))
	}
	return t
}

func rtObserve(s *src, tb *table) (obs []string, c ice.Candidate) {
	defer func() {
		if r := recover(); r != nil {
			obs = []string{"PANIC"}
		}
	}()
	c, err := s.build()
	if err != nil {
		return []string{"ERR", ice.VerifCandErrClass(err)}, nil
	}
	g := getters(c)
	m := c.Marshal()
	tb.addLine(m)
	c2, err := ice.UnmarshalCandidate(m)
	if err != nil {
		return append(append([]string{"RERR"}, g...), Hex(m), ice.VerifCandErrClass(err)), c
	}
	obs = append([]string{"OK"}, g...)
	obs = append(obs, Hex(m))
	obs = append(obs, getters(c2)...)
	obs = append(obs, B(c.Equal(c2)), B(c2.Equal(c)), B(c.DeepEqual(c2)), B(c2.DeepEqual(c)),
		B(c.Equal(c)), B(c.DeepEqual(c)), B(c2.Equal(c2)), B(c2.DeepEqual(c2)))
	obs = append(obs, Hex(c2.Marshal()))
	return obs, c
}

// classify names the input class of a round-trip case: the source kind and the features known
// to matter for C16 (computed from the case and the built candidate only, so that a replay gets
// the same tag).  The second result is a finer key for the input-distribution counters.
func classify(s *src, obs []string, c ice.Candidate) (string, string) {
	tag := "text"
	if s.ctor {
		tag = "ctor"
		if strings.Contains(s.address, "%") {
			tag += ",zone"
		}
		if s.port < 0 || s.port > 65535 || (s.ty != 1 && (s.relport < 0 || s.relport > 65535)) {
			tag += ",port-out"
		}
	}
	switch obs[0] {
	case "PANIC":
		return tag + ",panic", tag + ",panic"
	case "ERR":
		return tag + ",unbuilt", tag + ",err:" + obs[1]
	}
	fine := tag + ":" + c.Type().String()
	if strings.HasSuffix(c.Address(), ".local") || strings.HasSuffix(c.Address(), ".invalid") {
		fine += ",mdns"
	}
	mark := ""
	if c.TCPType() != ice.TCPTypeUnspecified {
		mark += ",tcptype"
	}
	if r := c.RelatedAddress(); r != nil && (r.Address == "") != (r.Port == 0) {
		if r.Port == 0 {
			mark += ",rel-port0"
		} else {
			mark += ",rel-noaddr"
		}
	}
	if s.ctor && s.ty == 4 && s.prio == 0 && c.Priority() == 0 {
		mark += ",computed-prio0"
	}
	if es := c.Extensions(); len(es) > 0 {
		// the first printed extension key (tcptype comes first when set)
		switch es[0].Key {
		case "":
			mark += ",ext-emptykey-first"
		case "raddr":
			mark += ",ext-raddr-first"
		}
	}
	if obs[0] == "RERR" {
		fine += ",rerr:" + obs[len(obs)-1]
	}
	return tag + mark, fine + mark
}

func pairObserve(a, b *src) (obs []string) {
	defer func() {
		if r := recover(); r != nil {
			obs = []string{"PANIC"}
		}
	}()
	ca, err := a.build()
	if err != nil {
		return []string{"NONE"}
	}
	cb, err := b.build()
	if err != nil {
		return []string{"NONE"}
	}
	return []string{"P", B(ca.Equal(cb)), B(cb.Equal(ca)), B(ca.DeepEqual(cb)), B(cb.DeepEqual(ca))}
}

func emitRT(c *Ctx, s *src) {
	tb := &table{}
	tb.addSrc(s)
	obs, cand := rtObserve(s, tb)
	toks := append([]string{"rt"}, s.tokens()...)
	toks = append(toks, tb.tokens()...)
	tag, fine := classify(s, obs, cand)
	c.Count(fine)
	c.Emit(tag, toks, obs, obs[0] == "OK")
}

func emitPair(c *Ctx, a, b *src, kind string) {
	tb := &table{}
	tb.addSrc(a)
	tb.addSrc(b)
	obs := pairObserve(a, b)
	toks := append([]string{"pair"}, a.tokens()...)
	toks = append(toks, b.tokens()...)
	toks = append(toks, tb.tokens()...)
	c.Count("pairkind:" + kind)
	tag := "pair:" + map[bool]string{true: "C", false: "U"}[a.ctor] + map[bool]string{true: "C", false: "U"}[b.ctor]
	if len(obs) == 5 {
		tag += fmt.Sprintf(",eq%s,deep%s", obs[1], obs[3])
	} else {
		tag += ",unbuilt"
	}
	c.Count(tag)
	c.Emit(tag, toks, obs, len(obs) == 5)
}

func run(c *Ctx) error {
	c.Rule = "rt: one candidate (C = public constructor + AddExtension calls over types x networks x tcp types x address pool " +
		"(IPv4, IPv6, IPv4-mapped, mDNS, zoned, invalid) x related-address forms x extension lists; U = a text line: corpus, " +
		"marshalled candidates and their mutations, random bytes) is built, marshalled, re-parsed, compared; non-trivial = the " +
		"candidate was built AND its text re-parsed (observation OK). pair: two related candidates, Equal/DeepEqual both ways; " +
		"non-trivial = both built. Distinct = distinct case token lines."
	if c.Replay != "" {
		for _, t := range c.ReplayLines() {
			if err := replayCase(c, t); err != nil {
				return err
			}
		}
		return nil
	}
	g := &gen{r: c.Rng}
	nCtor, nText, nPair := 12000, 20000, 6000
	if c.Tier != "quick" {
		nCtor, nText, nPair = 800000, 1400000, 300000
	}
	// fixed corpus first
	for _, l := range corpus {
		emitRT(c, &src{raw: l})
	}
	for _, s := range fixedCtor() {
		emitRT(c, s)
	}
	for i := 0; i < nCtor; i++ {
		emitRT(c, g.ctor())
	}
	for i := 0; i < nText; i++ {
		s := g.text()
		c.Count("origin:" + g.origin)
		emitRT(c, s)
	}
	for i := 0; i < nPair; i++ {
		a, b, kind := g.pair()
		emitPair(c, a, b, kind)
	}
	return nil
}

func replayCase(c *Ctx, t []string) error {
	switch t[0] {
	case "rt":
		s, _, err := parseSrc(t[1:])
		if err != nil {
			return err
		}
		emitRT(c, s)
	case "pair":
		a, rest, err := parseSrc(t[1:])
		if err != nil {
			return err
		}
		b, _, err := parseSrc(rest)
		if err != nil {
			return err
		}
		emitPair(c, a, b, "replay")
	default:
		return fmt.Errorf("cand: unknown case %v", t[0])
	}
	return nil
}
