package main

import (
	"fmt"
	"math/big"
	"net"
	"net/netip"
	"strconv"
	"strings"

	ice "github.com/pion/ice/v4"

	. "verif/gotools/hlib"
)

// suite "rewrite" (C19): address rewrite rule lists x lookup keys against
// newAddressRewriteMapper / findExternalIPs / the application functions of gather.go,
// WithAddressRewriteRules' sanitizer and the legacy NAT1To1IPs translation.
//
// Every textual value (IP, CIDR, legacy entry) is drawn from a small pool. A case token has the
// form <pool index>~<abstract form>; the model driver reads only the abstract form (family and
// numeric value, or the class empty / slash / bad), the harness realises the pool text. Replays
// therefore need the pools to be append-only.
func main() { Main("rewrite", runRewrite) }

// ---------------------------------------------------------------- pools

type sEntry struct {
	text string
	cls  string // class of strings.TrimSpace(text): g(ood) b(ad) s(lash) e(mpty)
}

var extPool = []sEntry{
	{"203.0.113.1", "g"}, {"203.0.113.2", "g"}, {"198.51.100.7", "g"}, {"2001:db8::1", "g"}, {"2001:db8::2", "g"},
	{" 203.0.113.1 ", "g"}, {"2001:DB8::1", "g"}, {"::ffff:192.0.2.9", "g"}, {"bad.ip", "b"},
	{"203.0.113.1/10.0.0.1", "s"}, {"", "e"}, {"  ", "e"}, {"1.2.3", "b"}, {"fe80::1%eth0", "b"}, {"10.0.0.300", "b"},
	{"192.0.2.9", "g"}, {"2001:db8::/32", "s"},
}

// local addresses: rule.Local (trimmed by the code) and lookup keys (not trimmed)
var locPool = []sEntry{
	{"", "e"}, {"10.0.0.5", "g"}, {"10.0.0.77", "g"}, {"10.0.1.5", "g"}, {"192.168.1.5", "g"},
	{"2001:db8:1::5", "g"}, {"2001:db8:2::9", "g"}, {"fe80::1", "g"}, {"::ffff:10.0.0.5", "g"},
	{"0.0.0.0", "g"}, {"::", "g"}, {" 10.0.0.5 ", "g"}, {"not-an-ip", "b"}, {"10.0.0.5/24", "s"}, {"   ", "e"},
	{"2001:db8:1::77", "g"}, {"10.0.0.256", "b"},
}

type cEntry struct {
	text string
	ok   bool
}

var cidrPool = []cEntry{
	{"", true}, {"10.0.0.0/24", true}, {"10.0.0.0/8", true}, {"10.0.0.7/24", true}, {"192.168.0.0/16", true},
	{"0.0.0.0/0", true}, {"2001:db8:1::/64", true}, {"::/0", true}, {"10.0.0.5/32", true},
	{"not-a-cidr", false}, {"10.0.0.0/33", false}, {"10.0.0.0", false}, {" 10.0.0.0/24", false},
	{"2001:db8::/32", true}, {"10.0.0.0/16", true},
}

// legacy NAT1To1IPs entries with their abstract form (hand-written)
type lEntry struct {
	text string
	tok  string // e | m | o<text to classify> | t<raw>|<trim>|<loc>   (filled by init from the parts)
}

var legPool []lEntry

var ifacePool = []string{"", "eth0", "wlan0", "lo"}
var netsPool = [][]int{nil, {}, {1}, {2}, {3}, {4}, {1, 2}, {1, 3}, {2, 4}, {0}, {9}, {0, 2}, {1, 2, 3, 4}}
var typePool = []int{0, 1, 2, 3, 4, 5}
var modePool = []int{0, 1, 2, 7}

// ---------------------------------------------------------------- abstract forms

func addrTok(ip net.IP) string {
	if ip == nil {
		return "z"
	}
	if v4 := ip.To4(); v4 != nil {
		return "4." + new(big.Int).SetBytes(v4).String()
	}
	return "6." + new(big.Int).SetBytes(ip.To16()).String()
}

func netipTok(a netip.Addr) string {
	if a.Is4() {
		b := a.As4()
		return "4." + new(big.Int).SetBytes(b[:]).String()
	}
	b := a.As16()
	return "6." + new(big.Int).SetBytes(b[:]).String()
}

// class token of a pool string after trimming (rule fields) or as is (lookup keys)
func strTok(e sEntry, trimmed bool) string {
	t := strings.TrimSpace(e.text)
	if !trimmed && t != e.text {
		return "b" // the lookup key is not trimmed: padded text does not parse
	}
	if e.cls != "g" {
		if !trimmed && e.cls == "e" {
			return "e"
		}
		return e.cls
	}
	return addrTok(net.ParseIP(t))
}

func cidrTok(e cEntry) string {
	if e.text == "" {
		return "n"
	}
	if !e.ok {
		return "b"
	}
	_, n, err := net.ParseCIDR(e.text)
	if err != nil {
		panic("cidr pool: " + e.text)
	}
	ones, _ := n.Mask.Size()
	if v4 := n.IP.To4(); v4 != nil {
		return fmt.Sprintf("4.%s.%d", new(big.Int).SetBytes(v4).String(), ones)
	}
	return fmt.Sprintf("6.%s.%d", new(big.Int).SetBytes(n.IP.To16()).String(), ones)
}

// identity of the trimmed text of an external entry = index of the first pool entry with that text
func extTextID(i int) int {
	t := strings.TrimSpace(extPool[i].text)
	for j := range extPool {
		if strings.TrimSpace(extPool[j].text) == t {
			return j
		}
	}
	return i
}

func checkPools() {
	for _, p := range [][]sEntry{extPool, locPool} {
		for _, e := range p {
			t := strings.TrimSpace(e.text)
			ip := net.ParseIP(t)
			switch e.cls {
			case "g":
				if ip == nil {
					panic("pool: not an IP: " + e.text)
				}
			case "e":
				if t != "" {
					panic("pool: not empty: " + e.text)
				}
			case "s":
				if !strings.Contains(t, "/") {
					panic("pool: no slash: " + e.text)
				}
			case "b":
				if ip != nil || t == "" || strings.Contains(t, "/") {
					panic("pool: not bad: " + e.text)
				}
			}
		}
	}
	for _, e := range cidrPool {
		_, _, err := net.ParseCIDR(e.text)
		if e.text != "" && (err == nil) != e.ok {
			panic("cidr pool: " + e.text)
		}
	}
}

func lookupCls(text string) string { // class of an arbitrary text, for the hand-built legacy pool
	if text == "" {
		return "e"
	}
	if strings.Contains(text, "/") {
		return "s"
	}
	if ip := net.ParseIP(text); ip != nil {
		return addrTok(ip)
	}
	return "b"
}

func init() {
	// text, then the parts as the code sees them: whole entry trimmed, split at "/"
	mk := func(text string) lEntry {
		t := strings.TrimSpace(text)
		if t == "" {
			return lEntry{text, "e"}
		}
		parts := strings.Split(t, "/")
		switch len(parts) {
		case 1:
			return lEntry{text, "o" + lookupCls(parts[0])}
		case 2:
			return lEntry{text, "t" + lookupCls(parts[0]) + "|" + lookupCls(strings.TrimSpace(parts[0])) + "|" + lookupCls(strings.TrimSpace(parts[1]))}
		default:
			return lEntry{text, "m"}
		}
	}
	for _, t := range []string{
		"203.0.113.1", "203.0.113.2", "2001:db8::1", "2001:db8::2", " 198.51.100.7 ", "", "  ",
		"203.0.113.9/10.0.0.5", "203.0.113.10/10.0.0.77", "2001:db8::9/2001:db8:1::5", "203.0.113.11/2001:db8:1::5",
		"203.0.113.9 /10.0.0.5", "203.0.113.9/ 10.0.0.5", "bad.ip", "203.0.113.9/bad", "bad/10.0.0.5", "203.0.113.9/",
		"/10.0.0.5", "1.2.3.4/5.6.7.8/9.9.9.9", "::ffff:192.0.2.9",
	} {
		legPool = append(legPool, mk(t))
	}
}

// ---------------------------------------------------------------- rules

type hrule struct {
	ext   []int // indices into extPool
	local int   // index into locPool
	iface string
	cidr  int // index into cidrPool
	typ   int
	mode  int
	nets  int // index into netsPool
}

func (r hrule) tokens() []string {
	items := make([]string, len(r.ext))
	for i, e := range r.ext {
		items[i] = fmt.Sprintf("%d~%d:%s", e, extTextID(e), strTok(extPool[e], true))
	}
	nets := make([]string, len(netsPool[r.nets]))
	for i, n := range netsPool[r.nets] {
		nets[i] = strconv.Itoa(n)
	}
	return []string{
		"R", "E" + strings.Join(items, ","), fmt.Sprintf("%d~%s", r.local, strTok(locPool[r.local], true)),
		Hex(r.iface), fmt.Sprintf("%d~%s", r.cidr, cidrTok(cidrPool[r.cidr])),
		strconv.Itoa(r.typ), strconv.Itoa(r.mode), fmt.Sprintf("%d~N%s", r.nets, strings.Join(nets, ",")),
	}
}

func (r hrule) real() ice.AddressRewriteRule {
	out := ice.AddressRewriteRule{
		Local: locPool[r.local].text, Iface: r.iface, CIDR: cidrPool[r.cidr].text,
		AsCandidateType: ice.CandidateType(r.typ), Mode: ice.AddressRewriteMode(r.mode),
	}
	if r.ext != nil {
		out.External = make([]string, len(r.ext))
		for i, e := range r.ext {
			out.External[i] = extPool[e].text
		}
	}
	if n := netsPool[r.nets]; n != nil {
		out.Networks = make([]ice.NetworkType, len(n))
		for i, v := range n {
			out.Networks[i] = ice.NetworkType(v)
		}
	}
	return out
}

func poolIdx(tok string) (int, string) {
	i := strings.Index(tok, "~")
	if i < 0 {
		panic("token without pool index: " + tok)
	}
	v, err := strconv.Atoi(tok[:i])
	if err != nil {
		panic(err)
	}
	return v, tok[i+1:]
}

// parseRule is the inverse of tokens() (replay)
func parseRule(t []string) hrule {
	var r hrule
	if t[0] != "R" {
		panic("rule expected")
	}
	if body := strings.TrimPrefix(t[1], "E"); body != "" {
		for _, it := range strings.Split(body, ",") {
			i, _ := poolIdx(it)
			r.ext = append(r.ext, i)
		}
	}
	r.local, _ = poolIdx(t[2])
	r.iface = Unhex(t[3])
	r.cidr, _ = poolIdx(t[4])
	r.typ, _ = strconv.Atoi(t[5])
	r.mode, _ = strconv.Atoi(t[6])
	r.nets, _ = poolIdx(t[7])
	return r
}

// abstract form of a rule produced by the implementation (sanitizer / legacy translation)
func realRuleTokens(r ice.AddressRewriteRule) []string {
	items := make([]string, len(r.External))
	for i, e := range r.External {
		items[i] = "0:" + lookupCls(strings.TrimSpace(e))
	}
	nets := make([]string, len(r.Networks))
	for i, n := range r.Networks {
		nets[i] = strconv.Itoa(int(n))
	}
	cidr := "n"
	if r.CIDR != "" {
		cidr = "b"
		for _, e := range cidrPool {
			if e.text == r.CIDR {
				cidr = cidrTok(e)
			}
		}
	}
	return []string{"R", "E" + strings.Join(items, ","), lookupCls(strings.TrimSpace(r.Local)), Hex(r.Iface), cidr,
		strconv.Itoa(int(r.AsCandidateType)), strconv.Itoa(int(r.Mode)), "N" + strings.Join(nets, ",")}
}

// ---------------------------------------------------------------- ops

type op struct {
	kind  byte // 'K' lookup, 'A' application functions
	ty    int
	loc   int // locPool index: K key (raw), A self address (must be good, unpadded)
	iface string
	orig  int // A: locPool index of the relay address (good)
	rel   int // A: locPool index of the relay base address text (raw)
}

func (o op) tokens() []string {
	if o.kind == 'K' {
		return []string{"K", strconv.Itoa(o.ty), fmt.Sprintf("%d~%s", o.loc, strTok(locPool[o.loc], false)), Hex(o.iface)}
	}
	return []string{"A", fmt.Sprintf("%d~%s", o.loc, strTok(locPool[o.loc], false)), Hex(o.iface),
		fmt.Sprintf("%d~%s", o.orig, strTok(locPool[o.orig], false)), fmt.Sprintf("%d~%s", o.rel, strTok(locPool[o.rel], false))}
}

func listTok(ips []net.IP) string {
	if len(ips) == 0 {
		return "-"
	}
	s := make([]string, len(ips))
	for i, ip := range ips {
		s[i] = addrTok(ip)
	}
	return strings.Join(s, "+")
}

func findTok(m *ice.VerifRewriteMapper, ty int, local, iface string) string {
	ips, matched, mode, isErr := m.Find(ice.CandidateType(ty), local, iface)
	if isErr {
		return "x"
	}
	return fmt.Sprintf("%s:%d:%s", B(matched), mode, listTok(ips))
}

func resTok(ips []net.IP, ok bool) string { return B(ok) + ":" + listTok(ips) }

// ---------------------------------------------------------------- input classes (tags)

// scope-level applicability of a catch-all rule to a key, computed from the pool metadata only
func (r hrule) catchAllApplies(ty int, loc net.IP, iface string) bool {
	et := r.typ
	if et == 0 {
		et = 1
	}
	if et != ty || strings.TrimSpace(locPool[r.local].text) != "" {
		return false
	}
	if r.iface != "" && r.iface != iface {
		return false
	}
	ce := cidrPool[r.cidr]
	if ce.text != "" {
		if !ce.ok {
			return false
		}
		_, n, _ := net.ParseCIDR(ce.text)
		if !n.Contains(loc) {
			return false
		}
	}
	if nets := netsPool[r.nets]; len(nets) > 0 {
		is4 := loc.To4() != nil
		ok := false
		for _, n := range nets {
			if (is4 && (n == 1 || n == 3)) || (!is4 && (n == 2 || n == 4)) {
				ok = true
			}
		}
		if !ok {
			return false
		}
	}
	return true
}

// classOf names the known-finding input classes a lookup key falls into ("" = none):
//
//	cidr_only_vs_global,iface_set : non-empty lookup interface, a CIDR-only catch-all and a global
//	                                catch-all both apply
//	cidr_cross_family             : an applicable catch-all with a CIDR carries an External of the
//	                                other family than its CIDR
func classOf(rules []hrule, ty int, key sEntry, iface string) string {
	if key.cls != "g" || strings.TrimSpace(key.text) != key.text {
		return ""
	}
	loc := net.ParseIP(key.text)
	cidrOnly, global, cross := false, false, false
	for _, r := range rules {
		if !r.catchAllApplies(ty, loc, iface) {
			continue
		}
		hasCIDR := cidrPool[r.cidr].text != ""
		if r.iface == "" && hasCIDR {
			cidrOnly = true
		}
		if r.iface == "" && !hasCIDR {
			global = true
		}
		if hasCIDR {
			for _, e := range r.ext {
				if extPool[e].cls == "g" {
					ip := net.ParseIP(strings.TrimSpace(extPool[e].text))
					if (ip.To4() != nil) != (loc.To4() != nil) {
						cross = true
					}
				}
			}
		}
	}
	var parts []string
	if cross {
		parts = append(parts, "cidr_cross_family")
	}
	if iface != "" && cidrOnly && global {
		parts = append(parts, "cidr_only_vs_global,iface_set")
	}
	return strings.Join(parts, "+")
}

// ---------------------------------------------------------------- running a rule-list case

func runRW(c *Ctx, rules []hrule, ops []op, origin string) {
	real := make([]ice.AddressRewriteRule, len(rules))
	var ruleToks []string
	for i, r := range rules {
		real[i] = r.real()
		ruleToks = append(ruleToks, r.tokens()...)
	}
	var m *ice.VerifRewriteMapper
	var code int
	panicked := ""
	func() {
		defer func() {
			if p := recover(); p != nil {
				panicked = fmt.Sprint(p)
			}
		}()
		m, code = ice.VerifNewRewriteMapper(real)
	}()
	c.Count(fmt.Sprintf("rw:%s:rules=%d", origin, len(rules)))
	emit := func(tag string, opToks, obs []string, nontrivial bool) {
		caseToks := append(append([]string{"rw"}, ruleToks...), opToks...)
		c.Emit(tag, caseToks, obs, nontrivial)
	}
	switch {
	case panicked != "":
		emit("plain", nil, []string{"PANIC"}, false)
		return
	case code != 0:
		c.Count("rw:result=rejected")
		var ot []string
		for _, o := range ops {
			ot = append(ot, o.tokens()...)
		}
		emit("plain", ot, []string{"err", strconv.Itoa(code)}, len(rules) >= 2)
		return
	}
	// group the ops by input class so that each line has one tag
	type group struct {
		toks, obs  []string
		nontrivial bool
	}
	groups := map[string]*group{}
	var order []string
	get := func(tag string) *group {
		g, ok := groups[tag]
		if !ok {
			g = &group{}
			groups[tag] = g
			order = append(order, tag)
		}
		return g
	}
	get("plain")
	for _, o := range ops {
		tag := "plain"
		if o.kind == 'K' {
			if cl := classOf(rules, o.ty, locPool[o.loc], o.iface); cl != "" {
				tag = cl
			}
		}
		g := get(tag)
		g.toks = append(g.toks, o.tokens()...)
		if m == nil {
			continue
		}
		func() {
			defer func() {
				if p := recover(); p != nil {
					g.obs = append(g.obs, "PANIC")
				}
			}()
			if o.kind == 'K' {
				f := findTok(m, o.ty, locPool[o.loc].text, o.iface)
				g.obs = append(g.obs, "F", f)
				if strings.HasPrefix(f, "1:") {
					g.nontrivial = true
					c.Count("rw:lookup=matched")
				} else {
					c.Count("rw:lookup=" + map[bool]string{true: "error", false: "unmatched"}[f == "x"])
				}
				return
			}
			self := net.ParseIP(locPool[o.loc].text)
			na, _ := netip.AddrFromSlice(self)
			na = na.Unmap()
			orig := net.ParseIP(locPool[o.orig].text)
			flags := B(m.HasCandidateType(ice.CandidateTypeHost)) + B(m.HasCandidateType(ice.CandidateTypeServerReflexive)) +
				B(m.HasCandidateType(ice.CandidateTypeRelay)) + B(m.ShouldReplace(ice.CandidateTypeServerReflexive))
			hAddrs, hOK := m.HostAddresses(na, o.iface)
			hIPs := make([]net.IP, len(hAddrs))
			for i, a := range hAddrs {
				hIPs[i] = net.IP(a.AsSlice())
			}
			uIPs, uOK := m.UDPMuxAddresses(&net.UDPAddr{IP: self, Port: 4000})
			sIPs, sOK := m.ResolveSrflx(self, o.iface)
			rIPs, rOK := m.ResolveRelay(orig, locPool[o.rel].text, o.iface)
			g.obs = append(g.obs, "A", flags,
				findTok(m, 1, self.String(), o.iface), resTok(hIPs, hOK),
				findTok(m, 1, self.String(), ""), resTok(uIPs, uOK),
				findTok(m, 2, self.String(), o.iface), resTok(sIPs, sOK),
				findTok(m, 4, locPool[o.rel].text, o.iface), resTok(rIPs, rOK))
			g.nontrivial = true
			c.Count("rw:apply")
		}()
	}
	if m == nil {
		c.Count("rw:result=nil-mapper")
	} else {
		c.Count("rw:result=mapper")
	}
	for _, tag := range order {
		g := groups[tag]
		if tag != "plain" && len(g.toks) == 0 {
			continue
		}
		if tag != "plain" {
			c.Count("rw:class=" + tag)
		}
		if m == nil {
			emit(tag, g.toks, []string{"nil"}, false)
		} else {
			emit(tag, g.toks, append([]string{"ok"}, g.obs...), g.nontrivial)
		}
	}
}

// ---------------------------------------------------------------- sanitizer and legacy cases

// whether WithAddressRewriteRules rejects a rule without External entries (true in the pinned
// code): probed on the real code so that the model follows it; no monitor judges it
var optionRejectsEmpty = func() bool {
	_, code := ice.VerifOptionRewriteRules(ice.AddressRewriteRule{Local: "10.0.0.1", Mode: ice.AddressRewriteReplace})
	return code != 0
}()

func runSan(c *Ctx, r hrule) {
	out, code := ice.VerifOptionRewriteRules(r.real())
	tag := "option"
	hasGood, hasBad := false, false
	for _, e := range r.ext {
		switch extPool[e].cls {
		case "g":
			hasGood = true
		case "b", "s":
			hasBad = true
		}
	}
	lc := locPool[r.local].cls
	if !hasGood && !hasBad && (lc == "g" || lc == "e") && r.mode <= 2 {
		tag = "option,empty_external" // a rule without any External entry: not judged by the monitor (input class only)
	}
	c.Count("san:" + tag)
	obs := []string{"err", strconv.Itoa(code)}
	if code == 0 {
		obs = []string{"ok"}
		for _, o := range out {
			obs = append(obs, realRuleTokens(o)...)
		}
		c.Count("san:accepted")
	}
	c.Emit(tag, append([]string{"san", B(optionRejectsEmpty)}, r.tokens()...), obs, code == 0 || hasBad)
}

func runLeg(c *Ctx, ty int, entries []int) {
	ips := make([]string, len(entries))
	toks := []string{"leg", strconv.Itoa(ty)}
	for i, e := range entries {
		ips[i] = legPool[e].text
		toks = append(toks, fmt.Sprintf("%d~%s", e, legPool[e].tok))
	}
	rules, code := ice.VerifLegacyRewriteRules(ips, ice.CandidateType(ty))
	obs := []string{"err", strconv.Itoa(code)}
	if code == 0 {
		m, ccode := ice.VerifNewRewriteMapper(rules)
		cs := "c:ok"
		if ccode != 0 {
			cs = fmt.Sprintf("c:err%d", ccode)
		} else if m == nil {
			cs = "c:nil"
		}
		obs = []string{"ok", cs}
		for _, r := range rules {
			obs = append(obs, realRuleTokens(r)...)
		}
		c.Count("leg:accepted")
	} else {
		c.Count("leg:rejected")
	}
	c.Emit("legacy", toks, obs, len(entries) >= 2)
}

func runFn(c *Ctx, t []string) {
	b := func(s string) bool { return s == "1" }
	switch t[1] {
	case "spec":
		ri, li := "", "eth0"
		if b(t[2]) {
			ri = "eth0"
		}
		if b(t[4]) {
			li = ""
		}
		c.Emit("fn", t, []string{strconv.Itoa(ice.VerifCatchAllSpecificity(ri, b(t[3]), li))}, true)
	case "dmode":
		ty, _ := strconv.Atoi(t[2])
		c.Emit("fn", t, []string{strconv.Itoa(ice.VerifDefaultAddressRewriteMode(ice.CandidateType(ty)))}, true)
	case "flags":
		hm, fa := ice.VerifRewriteFlags(b(t[2]), b(t[3]), b(t[4]), b(t[5]), b(t[6]))
		c.Emit("fn", t, []string{B(hm), B(fa)}, true)
	}
	c.Count("fn")
}

// ---------------------------------------------------------------- replay

func replayCase(c *Ctx, t []string) error {
	switch t[0] {
	case "rw":
		var rules []hrule
		i := 1
		for i < len(t) && t[i] == "R" {
			rules = append(rules, parseRule(t[i:i+8]))
			i += 8
		}
		var ops []op
		for i < len(t) {
			switch t[i] {
			case "K":
				ty, _ := strconv.Atoi(t[i+1])
				loc, _ := poolIdx(t[i+2])
				ops = append(ops, op{kind: 'K', ty: ty, loc: loc, iface: Unhex(t[i+3])})
				i += 4
			case "A":
				loc, _ := poolIdx(t[i+1])
				orig, _ := poolIdx(t[i+3])
				rel, _ := poolIdx(t[i+4])
				ops = append(ops, op{kind: 'A', loc: loc, iface: Unhex(t[i+2]), orig: orig, rel: rel})
				i += 5
			default:
				return fmt.Errorf("rewrite: bad op %q", t[i])
			}
		}
		runRW(c, rules, ops, "replay")
	case "san":
		runSan(c, parseRule(t[2:10]))
	case "leg":
		ty, _ := strconv.Atoi(t[1])
		var es []int
		for _, e := range t[2:] {
			i, _ := poolIdx(e)
			es = append(es, i)
		}
		runLeg(c, ty, es)
	case "fn":
		runFn(c, t)
	default:
		return fmt.Errorf("rewrite: unknown case %v", t)
	}
	return nil
}

// ---------------------------------------------------------------- generators

func idxOf(pool []sEntry, text string) int {
	for i, e := range pool {
		if e.text == text {
			return i
		}
	}
	panic("not in pool: " + text)
}

func cidrIdx(text string) int {
	for i, e := range cidrPool {
		if e.text == text {
			return i
		}
	}
	panic("not in cidr pool: " + text)
}

func netsIdx(want []int) int {
	for i, n := range netsPool {
		if (n == nil) != (want == nil) || len(n) != len(want) {
			continue
		}
		same := true
		for j := range n {
			if n[j] != want[j] {
				same = false
			}
		}
		if same {
			return i
		}
	}
	panic("not in nets pool")
}

var goodKeys []int // indices of locPool usable as address objects (good, unpadded)

func randomOps(c *Ctx, nK, nA int) []op {
	var ops []op
	for i := 0; i < nK; i++ {
		loc := goodKeys[c.Rng.Intn(len(goodKeys))]
		if c.Rng.Intn(12) == 0 {
			loc = c.Rng.Intn(len(locPool)) // sometimes an unparseable key
		}
		ty := []int{1, 1, 1, 2, 4, 0, 3, 5}[c.Rng.Intn(8)]
		ops = append(ops, op{kind: 'K', ty: ty, loc: loc, iface: ifacePool[c.Rng.Intn(len(ifacePool))]})
	}
	for i := 0; i < nA; i++ {
		self := goodKeys[c.Rng.Intn(len(goodKeys))]
		rel := self
		if c.Rng.Intn(6) == 0 {
			rel = c.Rng.Intn(len(locPool))
		}
		ops = append(ops, op{kind: 'A', loc: self, iface: ifacePool[c.Rng.Intn(len(ifacePool))],
			orig: goodKeys[c.Rng.Intn(len(goodKeys))], rel: rel})
	}
	return ops
}

// a random rule: mostly valid values, occasionally a malformed one
func randomRule(c *Ctx, malformed bool) hrule {
	r := c.Rng
	pickGoodExt := func() int {
		for {
			i := r.Intn(len(extPool))
			if extPool[i].cls == "g" {
				return i
			}
		}
	}
	var h hrule
	n := []int{0, 1, 1, 1, 2, 2, 3}[r.Intn(7)]
	if n > 0 {
		h.ext = []int{}
	}
	for i := 0; i < n; i++ {
		if malformed && r.Intn(3) == 0 {
			h.ext = append(h.ext, r.Intn(len(extPool)))
		} else {
			h.ext = append(h.ext, pickGoodExt())
		}
	}
	if n == 0 && r.Intn(2) == 0 {
		h.ext = []int{} // empty but non-nil slice
	}
	switch {
	case r.Intn(3) == 0:
		h.local = goodKeys[r.Intn(len(goodKeys))]
		if r.Intn(8) == 0 {
			h.local = idxOf(locPool, " 10.0.0.5 ")
		}
	case malformed && r.Intn(4) == 0:
		h.local = r.Intn(len(locPool))
	}
	h.iface = ifacePool[[]int{0, 0, 1, 1, 2}[r.Intn(5)]]
	if r.Intn(2) == 0 {
		for {
			h.cidr = r.Intn(len(cidrPool))
			if cidrPool[h.cidr].ok || (malformed && r.Intn(3) == 0) {
				break
			}
		}
		// a pinned rule needs its Local inside the CIDR to be valid: bias towards that
		if locPool[h.local].cls == "g" && cidrPool[h.cidr].ok && cidrPool[h.cidr].text != "" && r.Intn(4) != 0 {
			_, nn, _ := net.ParseCIDR(cidrPool[h.cidr].text)
			if !nn.Contains(net.ParseIP(strings.TrimSpace(locPool[h.local].text))) {
				h.cidr = 0
			}
		}
	}
	h.typ = []int{1, 1, 1, 0, 2, 4, 2, 4}[r.Intn(8)]
	if malformed && r.Intn(5) == 0 {
		h.typ = typePool[r.Intn(len(typePool))]
	}
	h.mode = []int{0, 0, 1, 2}[r.Intn(4)]
	if malformed && r.Intn(8) == 0 {
		h.mode = modePool[r.Intn(len(modePool))]
	}
	if r.Intn(3) == 0 {
		h.nets = r.Intn(len(netsPool))
		if !malformed {
			for len(netsPool[h.nets]) > 0 && (netsPool[h.nets][0] == 0 || netsPool[h.nets][0] == 9) {
				h.nets = r.Intn(len(netsPool))
			}
		}
	}
	return h
}

// the reduced pools of the exhaustive part: every rule over
//
//	externals {[], [v4], [v6], [v4, v6]} x Local {none, 10.0.0.5, 2001:db8:1::5} x Iface {"", eth0, wlan0}
//	x CIDR {none, 10.0.0.0/24, 2001:db8:1::/64} x Networks {nil, [udp4], [udp6]} x Mode {replace, append}
//
// (648 rules); the first rule of a pair uses externals 203.0.113.1 / 2001:db8::1 and type
// unspecified, the second 203.0.113.2 / 2001:db8::2 and type host, so that the winner is visible.
func reducedRule(k int, second bool) hrule {
	e4, e6, ty := idxOf(extPool, "203.0.113.1"), idxOf(extPool, "2001:db8::1"), 0
	if second {
		e4, e6, ty = idxOf(extPool, "203.0.113.2"), idxOf(extPool, "2001:db8::2"), 1
	}
	var h hrule
	h.ext = [][]int{{}, {e4}, {e6}, {e4, e6}}[k%4]
	k /= 4
	h.local = []int{0, idxOf(locPool, "10.0.0.5"), idxOf(locPool, "2001:db8:1::5")}[k%3]
	k /= 3
	h.iface = []string{"", "eth0", "wlan0"}[k%3]
	k /= 3
	h.cidr = []int{0, cidrIdx("10.0.0.0/24"), cidrIdx("2001:db8:1::/64")}[k%3]
	k /= 3
	h.nets = []int{0, netsIdx([]int{1}), netsIdx([]int{2})}[k%3]
	k /= 3
	h.mode = []int{1, 2}[k%2]
	h.typ = ty
	return h
}

const reducedCount = 4 * 3 * 3 * 3 * 3 * 2

// the tiny pool of the 3- and 4-rule exhaustive part (order x specificity x pinning x mode):
// Local {none, 10.0.0.5} x Iface {"", eth0} x CIDR {none, 10.0.0.0/24} x Mode {replace, append},
// host type, one IPv4 external that identifies the position of the rule in the list.
func tinyRule(k, pos int) hrule {
	var h hrule
	h.ext = []int{idxOf(extPool, []string{"203.0.113.1", "203.0.113.2", "198.51.100.7", "192.0.2.9"}[pos])}
	h.local = []int{0, idxOf(locPool, "10.0.0.5")}[k%2]
	k /= 2
	h.iface = []string{"", "eth0"}[k%2]
	k /= 2
	h.cidr = []int{0, cidrIdx("10.0.0.0/24")}[k%2]
	k /= 2
	h.mode = []int{1, 2}[k%2]
	h.typ = 1
	return h
}

const tinyCount = 16

func tinyOps() []op {
	var ops []op
	for _, l := range []string{"10.0.0.5", "10.0.0.77", "10.0.1.5"} {
		for _, ifc := range []string{"", "eth0", "wlan0"} {
			ops = append(ops, op{kind: 'K', ty: 1, loc: idxOf(locPool, l), iface: ifc})
		}
	}
	return ops
}

func runTiny(c *Ctx, n int) {
	total := 1
	for i := 0; i < n; i++ {
		total *= tinyCount
	}
	for code := 0; code < total; code++ {
		rules := make([]hrule, n)
		k := code
		for i := range rules {
			rules[i] = tinyRule(k%tinyCount, i)
			k /= tinyCount
		}
		runRW(c, rules, tinyOps(), fmt.Sprintf("exh%d-tiny", n))
	}
}

func reducedOps(c *Ctx) []op {
	var ops []op
	for _, l := range []string{"10.0.0.5", "10.0.1.5", "2001:db8:1::5", "2001:db8:2::9"} {
		for _, ifc := range []string{"", "eth0", "wlan0"} {
			ops = append(ops, op{kind: 'K', ty: 1, loc: idxOf(locPool, l), iface: ifc})
		}
	}
	self := goodKeys[c.Rng.Intn(len(goodKeys))]
	ops = append(ops, op{kind: 'A', loc: self, iface: ifacePool[c.Rng.Intn(3)], orig: goodKeys[c.Rng.Intn(len(goodKeys))], rel: self})
	return ops
}

func runRewrite(c *Ctx) error {
	checkPools()
	for i, e := range locPool {
		if e.cls == "g" && strings.TrimSpace(e.text) == e.text {
			goodKeys = append(goodKeys, i)
		}
	}
	c.Rule = "rw: rule lists x ops. Exhaustive part over REDUCED pools (externals {[],[v4],[v6],[v4,v6]} x Local {none,10.0.0.5,2001:db8:1::5} x Iface {\"\",eth0,wlan0} x CIDR {none,10.0.0.0/24,2001:db8:1::/64} x Networks {nil,[udp4],[udp6]} x Mode {replace,append} = 648 rules): all single rules in both tiers, a seeded sample of the 648^2 ordered pairs (30000 quick, 100000 thorough; NOT exhaustive), each with the 12 host lookup keys {10.0.0.5,10.0.1.5,2001:db8:1::5,2001:db8:2::9} x {\"\",eth0,wlan0} and one application op; all lists of 3 (thorough: also 4) rules over a TINY pool (Local {none,10.0.0.5} x Iface {\"\",eth0} x CIDR {none,10.0.0.0/24} x Mode {replace,append}, 16 rules) with 9 keys. Random part: lists of 0..6 rules over the full pools (17 external texts incl. padded/upper-case/IPv4-mapped/bad, 17 locals, 15 CIDRs incl. non-canonical and bad, 4 interfaces, 6 types, 4 modes, 13 network restrictions), 1/4 of the lists from a malformed stream, with random keys (1/12 unparseable) and application ops. Regression corpus: the rule sets of the repository's precedence tests. san: single rules through WithAddressRewriteRules; leg: NAT1To1IPs lists of 0..4 entries over 20 texts; fn: the four generated functions on their whole domain. Non-trivial: a lookup matched, an application op ran, a rejected list had >= 2 rules, a sanitized rule was accepted or had a bad entry, a legacy list had >= 2 entries."
	if c.Replay != "" {
		for _, t := range c.ReplayLines() {
			if err := replayCase(c, t); err != nil {
				return err
			}
		}
		return nil
	}
	// generated functions on their whole domain
	for a := 0; a < 2; a++ {
		for b := 0; b < 2; b++ {
			for d := 0; d < 2; d++ {
				runFn(c, []string{"fn", "spec", strconv.Itoa(a), strconv.Itoa(b), strconv.Itoa(d)})
				for e := 0; e < 4; e++ {
					runFn(c, []string{"fn", "flags", strconv.Itoa(a), strconv.Itoa(b), strconv.Itoa(d), strconv.Itoa(e / 2), strconv.Itoa(e % 2)})
				}
			}
		}
	}
	for ty := 0; ty <= 6; ty++ {
		runFn(c, []string{"fn", "dmode", strconv.Itoa(ty)})
	}
	// regression corpus: rule sets of the repository's precedence tests
	e := func(t string) int { return idxOf(extPool, t) }
	corpus := [][]hrule{
		{ // TestAddressRewriteRuleOrdering
			{ext: []int{e("203.0.113.1")}, typ: 1},
			{ext: []int{e("203.0.113.2")}, typ: 1, cidr: cidrIdx("10.0.0.0/24")},
			{ext: []int{e("198.51.100.7")}, typ: 1, iface: "eth0"},
		},
		{ // TestAddressRewritePrecedenceMatrix
			{ext: []int{e("203.0.113.1")}, typ: 1, cidr: cidrIdx("10.0.0.0/24")},
			{ext: []int{e("203.0.113.2")}, typ: 1},
			{ext: []int{e("198.51.100.7")}, typ: 1, local: idxOf(locPool, "10.0.0.5")},
		},
		{ // "cidr family mismatch with external"
			{ext: []int{e("2001:db8::1")}, typ: 1, cidr: cidrIdx("10.0.0.0/24")},
		},
		{ // mixed externals, no scope
			{ext: []int{e("203.0.113.1"), e("2001:db8::1")}, typ: 1},
		},
		{ // pinned cross-family pair and an append catch-all
			{ext: []int{e("2001:db8::2")}, typ: 1, local: idxOf(locPool, "10.0.0.5")},
			{ext: []int{e("203.0.113.2")}, typ: 1, mode: 2},
		},
	}
	allKeys := func() []op {
		var ops []op
		for _, k := range goodKeys {
			for _, ifc := range ifacePool {
				ops = append(ops, op{kind: 'K', ty: 1, loc: k, iface: ifc})
			}
		}
		return append(ops, randomOps(c, 0, 3)...)
	}
	for _, rs := range corpus {
		runRW(c, rs, allKeys(), "corpus")
	}
	runRW(c, nil, allKeys(), "corpus")
	// exhaustive over the reduced pools
	for k := 0; k < reducedCount; k++ {
		runRW(c, []hrule{reducedRule(k, false)}, reducedOps(c), "exh1")
		runRW(c, []hrule{reducedRule(k, true)}, reducedOps(c), "exh1")
	}
	runTiny(c, 3)
	if c.Tier == "quick" {
		for i := 0; i < 30000; i++ {
			runRW(c, []hrule{reducedRule(c.Rng.Intn(reducedCount), false), reducedRule(c.Rng.Intn(reducedCount), true)}, reducedOps(c), "exh2-sample")
		}
	} else {
		runTiny(c, 4)
		for i := 0; i < 100000; i++ {
			runRW(c, []hrule{reducedRule(c.Rng.Intn(reducedCount), false), reducedRule(c.Rng.Intn(reducedCount), true)}, reducedOps(c), "exh2-sample")
		}
	}
	// random lists of 0..6 rules over the full pools
	nRandom := 40000
	if c.Tier != "quick" {
		nRandom = 150000
	}
	for i := 0; i < nRandom; i++ {
		malformed := i%4 == 3
		n := c.Rng.Intn(7)
		rules := make([]hrule, n)
		for j := range rules {
			rules[j] = randomRule(c, malformed && c.Rng.Intn(2) == 0)
		}
		origin := "random"
		if malformed {
			origin = "malformed"
		}
		runRW(c, rules, randomOps(c, 6, 2), origin)
	}
	// the option's sanitizer
	nSan := 10000
	if c.Tier != "quick" {
		nSan = 50000
	}
	for i := 0; i < nSan; i++ {
		runSan(c, randomRule(c, i%3 == 0))
	}
	// legacy lists
	nLeg := 10000
	if c.Tier != "quick" {
		nLeg = 50000
	}
	for i := 0; i < nLeg; i++ {
		n := c.Rng.Intn(5)
		es := make([]int, n)
		for j := range es {
			es[j] = c.Rng.Intn(len(legPool))
			if c.Rng.Intn(3) != 0 { // bias towards well-formed entries
				es[j] = c.Rng.Intn(12)
			}
		}
		runLeg(c, typePool[c.Rng.Intn(len(typePool))], es)
	}
	return nil
}
