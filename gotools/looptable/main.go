// looptable: computes, from the AST and the static call graph inside package ice, for every
// exported method of *Agent and *Conn the set of loop-owned Agent fields it reads or writes
// OUTSIDE of a closure handed to a.loop.Run (transitively through the package functions and
// methods it calls outside such closures), and writes the table as coq/Gen/LoopDiscipline.v
// (C10_api_goes_through_loop_partial is proved by computation over it).
//
// What is inside the loop: the function literal (or method value) passed as 2nd argument of a
// call  <expr>.loop.Run(ctx, f)  where <expr>.loop is the Agent field `loop`.  Everything else
// in a function body (including other function literals, go statements, deferred calls) counts
// as outside.  Calls are resolved statically (go/types); calls through interfaces declared in
// the package are resolved to every method of that name on a package type implementing the
// interface (over-approximation); calls through func values are not followed.
//
// usage (cwd = /verif/gotools):  go run ./looptable [-repo /repo] [-out ../coq/Gen]
package main

import (
	"bytes"
	"flag"
	"fmt"
	"go/ast"
	"go/types"
	"os"
	"path/filepath"
	"sort"
	"strings"

	"golang.org/x/tools/go/packages"
)

// Agent fields owned by the task loop: mutated after construction, with no lock or atomic of
// their own (the comment on Agent.loop and the mechanism named in property C10).
var loopOwned = []string{
	"checklist", "pairsByID", "nextPairID", "pendingBindingRequests",
	"localCandidates", "remoteCandidates",
	"connectionState", "gatheringState",
	"localUfrag", "localPwd", "remoteUfrag", "remotePwd",
	"gatherCandidateCancel", "gatherCandidateDone",
	"lastRenominationTime",
}

type fnInfo struct {
	name    string              // Recv.Name or Name
	direct  map[string]bool     // loop-owned fields touched outside Run closures
	calls   map[*types.Func]bool // static callees outside Run closures
	usesRun bool                // contains a loop.Run call (anywhere)
	inside  map[string]bool     // loop-owned fields touched inside Run closures (directly)
}

func main() {
	repo := flag.String("repo", envOr("VERIF_REPO", "/repo"), "path of pion/ice working tree")
	out := flag.String("out", "../coq/Gen", "output directory")
	flag.Parse()
	cfg := &packages.Config{Mode: packages.NeedTypes | packages.NeedSyntax | packages.NeedTypesInfo | packages.NeedName | packages.NeedFiles | packages.NeedImports | packages.NeedDeps, Dir: *repo}
	pkgs, err := packages.Load(cfg, "github.com/pion/ice/v4")
	if err != nil || len(pkgs) != 1 || len(pkgs[0].Errors) > 0 {
		fmt.Fprintln(os.Stderr, "looptable: cannot load package:", err)
		if len(pkgs) > 0 {
			for _, e := range pkgs[0].Errors {
				fmt.Fprintln(os.Stderr, e)
			}
		}
		os.Exit(2)
	}
	pkg := pkgs[0]
	info := pkg.TypesInfo

	agentObj := pkg.Types.Scope().Lookup("Agent")
	if agentObj == nil {
		fmt.Fprintln(os.Stderr, "looptable: type Agent not found")
		os.Exit(2)
	}
	agentStruct, ok := agentObj.Type().Underlying().(*types.Struct)
	if !ok {
		fmt.Fprintln(os.Stderr, "looptable: Agent is not a struct")
		os.Exit(2)
	}
	owned := map[*types.Var]string{}
	var loopField *types.Var
	var missing []string
	for _, n := range loopOwned {
		found := false
		for i := 0; i < agentStruct.NumFields(); i++ {
			if agentStruct.Field(i).Name() == n {
				owned[agentStruct.Field(i)] = n
				found = true
			}
		}
		if !found {
			missing = append(missing, n)
		}
	}
	for i := 0; i < agentStruct.NumFields(); i++ {
		if agentStruct.Field(i).Name() == "loop" {
			loopField = agentStruct.Field(i)
		}
	}
	if loopField == nil {
		fmt.Fprintln(os.Stderr, "looptable: Agent.loop not found")
		os.Exit(2)
	}

	// all methods of package types, by name (for interface dispatch)
	methodsByName := map[string][]*types.Func{}
	for _, n := range pkg.Types.Scope().Names() {
		tn, ok := pkg.Types.Scope().Lookup(n).(*types.TypeName)
		if !ok {
			continue
		}
		named, ok := tn.Type().(*types.Named)
		if !ok {
			continue
		}
		for i := 0; i < named.NumMethods(); i++ {
			m := named.Method(i)
			methodsByName[m.Name()] = append(methodsByName[m.Name()], m)
		}
	}

	isLoopRun := func(call *ast.CallExpr) bool {
		sel, ok := call.Fun.(*ast.SelectorExpr)
		if !ok || sel.Sel.Name != "Run" {
			return false
		}
		inner, ok := sel.X.(*ast.SelectorExpr)
		if !ok {
			return false
		}
		if s, ok := info.Selections[inner]; ok && s.Obj() == loopField {
			return true
		}
		return false
	}

	fns := map[*types.Func]*fnInfo{}
	type goEntry struct {
		name string
		fi   *fnInfo
	}
	var goEntries []goEntry
	var analyse func(fi *fnInfo, n ast.Node, inLoop bool)
	analyse = func(fi *fnInfo, n ast.Node, inLoop bool) {
		ast.Inspect(n, func(x ast.Node) bool {
			switch e := x.(type) {
			case *ast.GoStmt:
				// a goroutine started here does not run on the loop, wherever it is started from:
				// it is an entry point of its own (goroutine_table); its arguments are evaluated here
				g := &fnInfo{direct: map[string]bool{}, calls: map[*types.Func]bool{}, inside: map[string]bool{}}
				pos := pkg.Fset.Position(e.Pos())
				g.name = fmt.Sprintf("go@%s:%s", filepath.Base(pos.Filename), fi.name)
				if lit, ok := e.Call.Fun.(*ast.FuncLit); ok {
					analyse(g, lit.Body, false)
				} else {
					// go f(args): only the callee matters
					var obj types.Object
					switch f := e.Call.Fun.(type) {
					case *ast.Ident:
						obj = info.Uses[f]
					case *ast.SelectorExpr:
						if sel, ok := info.Selections[f]; ok {
							obj = sel.Obj()
						} else {
							obj = info.Uses[f.Sel]
						}
						analyse(fi, f.X, inLoop)
					}
					if fn, ok := obj.(*types.Func); ok && fn.Pkg() == pkg.Types {
						g.calls[fn] = true
						g.name += "->" + fn.Name()
					}
				}
				for _, a := range e.Call.Args {
					analyse(fi, a, inLoop)
				}
				goEntries = append(goEntries, goEntry{g.name, g})
				return false
			case *ast.CallExpr:
				if isLoopRun(e) {
					fi.usesRun = true
					// receiver expression and ctx argument are outside; the task is inside
					analyse(fi, e.Fun, inLoop)
					for i, a := range e.Args {
						analyse(fi, a, inLoop || i == 1)
					}
					return false
				}
				if inLoop {
					return true
				}
				// static callee
				var obj types.Object
				switch f := e.Fun.(type) {
				case *ast.Ident:
					obj = info.Uses[f]
				case *ast.SelectorExpr:
					if s, ok := info.Selections[f]; ok {
						obj = s.Obj()
						if fn, ok := obj.(*types.Func); ok {
							if _, isIface := s.Recv().Underlying().(*types.Interface); isIface && fn.Pkg() == pkg.Types {
								iface := s.Recv().Underlying().(*types.Interface)
								for _, m := range methodsByName[fn.Name()] {
									recv := m.Type().(*types.Signature).Recv().Type()
									if types.Implements(recv, iface) || types.Implements(types.NewPointer(recv), iface) {
										fi.calls[m] = true
									}
								}
								return true
							}
						}
					} else {
						obj = info.Uses[f.Sel]
					}
				}
				if fn, ok := obj.(*types.Func); ok && fn.Pkg() == pkg.Types {
					fi.calls[fn] = true
				}
			case *ast.SelectorExpr:
				if s, ok := info.Selections[e]; ok {
					if v, ok := s.Obj().(*types.Var); ok {
						if name, ok := owned[v]; ok {
							if inLoop {
								fi.inside[name] = true
							} else {
								fi.direct[name] = true
							}
						}
					}
				}
			}
			return true
		})
	}

	type entry struct {
		recv, name string
		fn         *types.Func
	}
	var entries []entry
	for _, f := range pkg.Syntax {
		fname := filepath.Base(pkg.Fset.File(f.Pos()).Name())
		if strings.HasPrefix(fname, "verif_") || strings.HasSuffix(fname, "_test.go") {
			continue
		}
		for _, d := range f.Decls {
			fd, ok := d.(*ast.FuncDecl)
			if !ok || fd.Body == nil {
				continue
			}
			obj, ok := info.Defs[fd.Name].(*types.Func)
			if !ok {
				continue
			}
			fi := &fnInfo{name: fd.Name.Name, direct: map[string]bool{}, calls: map[*types.Func]bool{}, inside: map[string]bool{}}
			recv := ""
			if fd.Recv != nil && len(fd.Recv.List) == 1 {
				t := fd.Recv.List[0].Type
				if st, ok := t.(*ast.StarExpr); ok {
					t = st.X
				}
				if id, ok := t.(*ast.Ident); ok {
					recv = id.Name
					fi.name = recv + "." + fd.Name.Name
				}
			}
			analyse(fi, fd.Body, false)
			fns[obj] = fi
			if (recv == "Agent" || recv == "Conn") && fd.Name.IsExported() {
				if _, isPtr := fd.Recv.List[0].Type.(*ast.StarExpr); isPtr {
					entries = append(entries, entry{recv, fd.Name.Name, obj})
				}
			}
		}
	}
	sort.Slice(entries, func(i, j int) bool {
		if entries[i].recv != entries[j].recv {
			return entries[i].recv < entries[j].recv
		}
		return entries[i].name < entries[j].name
	})

	// transitive closure from each entry point, remembering one witness path per field
	type row struct {
		recv, name string
		outside    []string
		witness    map[string]string
		usesRun    bool
	}
	var rows []row
	closure := func(root *fnInfo, rootName string) (map[string]string, bool) {
		seen := map[*fnInfo]bool{}
		wit := map[string]string{}
		uses := false
		var visit func(fi *fnInfo, path string)
		visit = func(fi *fnInfo, path string) {
			if fi == nil || seen[fi] {
				return
			}
			seen[fi] = true
			if fi.usesRun {
				uses = true
			}
			for f := range fi.direct {
				if _, ok := wit[f]; !ok {
					wit[f] = path
				}
			}
			var cs []*types.Func
			for c := range fi.calls {
				cs = append(cs, c)
			}
			sort.Slice(cs, func(i, j int) bool { return cs[i].FullName() < cs[j].FullName() })
			for _, c := range cs {
				if fns[c] != nil {
					visit(fns[c], path+" -> "+fns[c].name)
				}
			}
		}
		visit(root, rootName)
		return wit, uses
	}
	keys := func(m map[string]string) []string {
		var fields []string
		for f := range m {
			fields = append(fields, f)
		}
		sort.Strings(fields)
		return fields
	}
	for _, e := range entries {
		wit, uses := closure(fns[e.fn], e.recv+"."+e.name)
		rows = append(rows, row{e.recv, e.name, keys(wit), wit, uses})
	}
	var grows []row
	sort.SliceStable(goEntries, func(i, j int) bool { return goEntries[i].name < goEntries[j].name })
	cnt := map[string]int{}
	for _, g := range goEntries {
		cnt[g.name]++
		name := g.name
		if cnt[g.name] > 1 {
			name = fmt.Sprintf("%s#%d", g.name, cnt[g.name])
		}
		wit, uses := closure(g.fi, name)
		grows = append(grows, row{"go", name, keys(wit), wit, uses})
	}

	var b bytes.Buffer
	b.WriteString("(* GENERATED by gotools/looptable from /repo's working tree. Do not edit.\n")
	b.WriteString("   api_table: every exported method of *Agent / *Conn with\n")
	b.WriteString("     - the loop-owned Agent fields it reads or writes OUTSIDE a closure handed to a.loop.Run,\n")
	b.WriteString("       transitively through the package functions it calls outside such closures;\n")
	b.WriteString("     - whether it (transitively) submits work to the loop at all. *)\n")
	b.WriteString("From Coq Require Import String List Bool.\nImport ListNotations.\nLocal Open Scope string_scope.\n\n")
	b.WriteString("Definition loop_owned_fields : list string :=\n  [" + quoteList(loopOwned) + "].\n\n")
	if len(missing) > 0 {
		b.WriteString("(* loop-owned field names no longer present in the Agent struct: " + strings.Join(missing, ", ") + " *)\n")
	}
	b.WriteString("Definition loop_owned_missing : list string :=\n  [" + quoteList(missing) + "].\n\n")
	b.WriteString("Record api_row := mk_row { r_recv : string; r_name : string; r_outside : list string; r_uses_loop : bool }.\n\n")
	b.WriteString("Definition api_table : list api_row :=\n  [ ")
	for i, r := range rows {
		if i > 0 {
			b.WriteString(";\n    ")
		}
		fmt.Fprintf(&b, "mk_row \"%s\" \"%s\" [%s] %v", r.recv, r.name, quoteList(r.outside), r.usesRun)
	}
	b.WriteString(" ].\n\n")
	b.WriteString("(* every goroutine the package starts (go statements outside verif_/test files): the same analysis\n   of the goroutine's body *)\n")
	b.WriteString("Definition goroutine_table : list api_row :=\n  [ ")
	for i, r := range grows {
		if i > 0 {
			b.WriteString(";\n    ")
		}
		fmt.Fprintf(&b, "mk_row \"%s\" \"%s\" [%s] %v", r.recv, r.name, quoteList(r.outside), r.usesRun)
	}
	b.WriteString(" ].\n\n")
	for _, r := range append(append([]row{}, rows...), grows...) {
		for _, f := range r.outside {
			fmt.Fprintf(&b, "(* witness: %s touches %s outside the loop via  %s *)\n", r.recv+"."+r.name, f, r.witness[f])
		}
	}
	path := filepath.Join(*out, "LoopDiscipline.v")
	old, err := os.ReadFile(path)
	if err == nil && bytes.Equal(old, b.Bytes()) {
		return
	}
	if err := os.WriteFile(path, b.Bytes(), 0o644); err != nil {
		fmt.Fprintln(os.Stderr, err)
		os.Exit(2)
	}
	fmt.Println("looptable: wrote", path)
}

func quoteList(l []string) string {
	var q []string
	for _, s := range l {
		q = append(q, `"`+s+`"`)
	}
	return strings.Join(q, "; ")
}

func envOr(k, d string) string {
	if v := os.Getenv(k); v != "" {
		return v
	}
	return d
}
