package main

// Translation targets of the address-rewrite area (C19), in addition to catchAllSpecificity and
// defaultAddressRewriteMode (targets_core.go).  The remaining functions of external_ip_mapper.go
// work on slices, maps and net.IP and are hand-modelled in coq/Model/Rewrite.v.
func init() {
	targets = append(targets, []target{
		{File: "RewriteFns", Recv: "addressRewriteRuleMapping", Func: "hasMappings", Coq: "hasMappings", Ret: "bool",
			Params: []param{{"v4_valid", "bool"}, {"v6_valid", "bool"}},
			Access: map[string]string{
				"m.ipv4Mapping.valid": "v4_valid",
				"m.ipv6Mapping.valid": "v6_valid",
			}},
		{File: "RewriteFns", Recv: "addressRewriteRuleMapping", Func: "isFamilyAllowed", Coq: "isFamilyAllowed", Ret: "bool",
			Params: []param{{"allowIPv4", "bool"}, {"allowIPv6", "bool"}, {"isLocalIPv4", "bool"}},
			Access: map[string]string{
				"m.allowIPv4":  "allowIPv4",
				"m.allowIPv6":  "allowIPv6",
				"isLocalIPv4": "isLocalIPv4",
			}},
	}...)
}
