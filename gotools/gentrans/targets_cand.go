package main

// Translation targets of area Cand (C16): the equality predicates of candidates and the
// TCP-type name table.  Pointer/nil tests and calls of untranslated helpers are access paths
// (parameters); the model (coq/Model/Cand.v) supplies them.
func init() {
	targets = append(targets, []target{
		{File: "CandEq", Recv: "CandidateRelatedAddress", Func: "Equal", Coq: "RelatedAddress_Equal", Ret: "bool",
			Params: []param{{"c_nil", "bool"}, {"o_nil", "bool"}, {"c_addr", "string"}, {"o_addr", "string"}, {"c_port", "Z"}, {"o_port", "Z"}},
			Access: map[string]string{
				"c == nil": "c_nil", "other == nil": "o_nil", "c != nil": "(negb c_nil)", "other != nil": "(negb o_nil)",
				"c.Address": "c_addr", "other.Address": "o_addr", "c.Port": "c_port", "other.Port": "o_port",
			}},
		{File: "CandEq", Recv: "candidateBase", Func: "transportAddressEqual", Coq: "transportAddressEqual", Ret: "bool",
			Params: []param{{"same_addr_value", "bool"}, {"c_addr_nil", "bool"}, {"o_addr_nil", "bool"}, {"addr_equal", "bool"},
				{"c_nt", "Z"}, {"o_nt", "Z"}, {"c_address", "string"}, {"o_address", "string"}, {"c_port", "Z"}, {"o_port", "Z"}, {"c_tcp", "Z"}, {"o_tcp", "Z"}},
			Access: map[string]string{
				"c.addr() != other.addr()":          "(negb same_addr_value)",
				"c.addr() == nil":                   "c_addr_nil",
				"other.addr() == nil":               "o_addr_nil",
				"addrEqual(c.addr(), other.addr())": "addr_equal",
				"c.NetworkType()":                   "c_nt", "other.NetworkType()": "o_nt",
				"c.Address()": "c_address", "other.Address()": "o_address",
				"c.Port()": "c_port", "other.Port()": "o_port",
				"c.TCPType()": "c_tcp", "other.TCPType()": "o_tcp",
			}},
		{File: "CandEq", Recv: "candidateBase", Func: "Equal", Coq: "Candidate_Equal", Ret: "bool",
			Params: []param{{"transport_equal", "bool"}, {"c_type", "Z"}, {"o_type", "Z"}, {"related_equal", "bool"}},
			Access: map[string]string{
				"c.transportAddressEqual(other)": "transport_equal",
				"c.Type()":                       "c_type", "other.Type()": "o_type",
				"c.RelatedAddress().Equal(other.RelatedAddress())": "related_equal",
			}},
		{File: "CandEq", Recv: "candidateBase", Func: "DeepEqual", Coq: "Candidate_DeepEqual", Ret: "bool",
			Params: []param{{"equal", "bool"}, {"extensions_equal", "bool"}},
			Access: map[string]string{
				"c.Equal(other)": "equal",
				"c.extensionsEqual(other.Extensions())": "extensions_equal",
			}},
		{File: "CandEq", Recv: "", Func: "NewTCPType", Coq: "NewTCPType_lowered", Ret: "Z",
			Params: []param{{"lowered", "string"}},
			Access: map[string]string{"strings.ToLower(value)": "lowered"}},
	}...)
}
