// gentrans: translator from a small subset of Go (pure integer / boolean /
// string-switch functions of pion/ice) to Gallina.  It loads /repo's working tree
// with go/packages (exact types and constant values from go/types) and writes
// coq/Gen/*.v.  Files are only rewritten when their content changes.
//
// Subset: if / switch (tagged and tagless, no fallthrough) / return / := / = /
// op= / var decls / closure literals (bound to a local or immediately invoked);
// expressions: constants (folded by go/types), locals, + - * with the Go type's
// wrap-around made explicit for unsigned types of width < 64 and for uint64,
// comparisons, && || !, integer conversions (narrowing wraps), and the *access
// paths* declared per target (receiver fields and method calls become parameters
// or calls of other generated functions).
//
// A target that leaves the subset is reported in Gen/Status.v (and on stdout) and
// its definition is taken from fallback/<name>.v (hand-written, committed); the
// harness then validates it by differential execution like every other target.
package main

import (
	"bytes"
	"flag"
	"fmt"
	"go/ast"
	"go/constant"
	"go/token"
	"go/types"
	"os"
	"path/filepath"
	"sort"
	"strings"

	"golang.org/x/tools/go/packages"
)

type param struct{ Name, Type string }

type target struct {
	File   string // Gen file (without .v)
	Recv   string // receiver type name ("" for plain function)
	Func   string
	Coq    string
	Params []param
	// Access maps printed Go expressions to Gallina expressions.
	Access map[string]string
	Ret    string // Gallina return type
	// Effects lists assignments (printed left-hand sides) that update state outside the function's result:
	// they are skipped by the translation and modelled by hand next to the use of the generated decision.
	Effects []string
}

var targets []target

// Constants exported to Gen/Consts.v (package-level constants of pion/ice, by name).
var constNames = []string{
	"CandidateTypeUnspecified", "CandidateTypeHost", "CandidateTypeServerReflexive", "CandidateTypePeerReflexive", "CandidateTypeRelay",
	"NetworkTypeUDP4", "NetworkTypeUDP6", "NetworkTypeTCP4", "NetworkTypeTCP6",
	"TCPTypeUnspecified", "TCPTypeActive", "TCPTypePassive", "TCPTypeSimultaneousOpen",
	"ConnectionStateUnknown", "ConnectionStateNew", "ConnectionStateChecking", "ConnectionStateConnected", "ConnectionStateCompleted",
	"ConnectionStateFailed", "ConnectionStateDisconnected", "ConnectionStateClosed",
	"GatheringStateUnknown", "GatheringStateNew", "GatheringStateGathering", "GatheringStateComplete",
	"CandidatePairStateWaiting", "CandidatePairStateInProgress", "CandidatePairStateFailed", "CandidatePairStateSucceeded",
	"Controlling", "Controlled",
	"AddressRewriteReplace", "AddressRewriteAppend",
	"defaultLocalPreference", "defaultTCPPriorityOffset", "receiveMTU", "streamingPacketHeaderLen",
	"preferenceRelayTLS", "preferenceRelayTCP", "preferenceRelayDTLS", "preferenceRelayUDP",
	"defaultCheckInterval", "defaultKeepaliveInterval", "defaultDisconnectedTimeout", "defaultFailedTimeout",
	"defaultHostAcceptanceMinWait", "defaultSrflxAcceptanceMinWait", "defaultPrflxAcceptanceMinWait", "defaultRelayAcceptanceMinWait",
	"defaultMaxBindingRequests", "maxBindingRequestTimeout", "defaultSTUNGatherTimeout",
	"maxBufferSize", "maxBindingRequestTimeout",
	"udpMuxWriteBlockedBit", "udpMuxWriteDeadlineBit", "udpMuxWriteCountMask",
	"DefaultNominationAttribute",
}

type gen struct {
	pkg    *packages.Package
	info   *types.Info
	t      *target
	locals map[string]string // Go local name -> Gallina name
	n      int
	err    error
}

type outOfSubset struct{ msg string }

func (g *gen) fail(node ast.Node, format string, a ...interface{}) {
	pos := g.pkg.Fset.Position(node.Pos())
	panic(outOfSubset{fmt.Sprintf("%s:%d: ", filepath.Base(pos.Filename), pos.Line) + fmt.Sprintf(format, a...)})
}

func (g *gen) fresh(base string) string {
	g.n++
	return fmt.Sprintf("v_%s_%d", base, g.n)
}

func zlit(s string) string {
	if strings.HasPrefix(s, "-") {
		return "(" + s + ")"
	}
	return s
}

// width returns (bits, unsigned) for an integer type; bits=0 for non-integers.
func width(t types.Type) (int, bool, bool) {
	b, ok := t.Underlying().(*types.Basic)
	if !ok {
		return 0, false, false
	}
	switch b.Kind() {
	case types.Uint8:
		return 8, true, true
	case types.Uint16:
		return 16, true, true
	case types.Uint32:
		return 32, true, true
	case types.Uint64, types.Uint, types.Uintptr:
		return 64, true, true
	case types.Int8:
		return 8, false, true
	case types.Int16:
		return 16, false, true
	case types.Int32:
		return 32, false, true
	case types.Int64, types.Int:
		return 64, false, true
	case types.UntypedInt:
		return 0, false, true
	}
	return 0, false, false
}

func isBool(t types.Type) bool {
	b, ok := t.Underlying().(*types.Basic)
	return ok && (b.Kind() == types.Bool || b.Kind() == types.UntypedBool)
}
func isString(t types.Type) bool {
	b, ok := t.Underlying().(*types.Basic)
	return ok && (b.Kind() == types.String || b.Kind() == types.UntypedString)
}

func (g *gen) wrap(e string, t types.Type, node ast.Node) string {
	bits, uns, isInt := width(t)
	if !isInt {
		g.fail(node, "arithmetic on non-integer type %s", t)
	}
	if bits == 0 {
		return e // untyped constant arithmetic (already folded normally)
	}
	if uns {
		return fmt.Sprintf("(wrap %d %s)", bits, e)
	}
	if bits == 64 {
		// signed 64-bit (int, int64, time.Duration): modelled without overflow
		// (stated in the trusted base; no property is about int64 overflow).
		return e
	}
	return fmt.Sprintf("(swrap %d %s)", bits, e)
}

func coqString(s string) string {
	return "\"" + strings.ReplaceAll(s, "\"", "\"\"") + "\"%string"
}

func (g *gen) constVal(tv types.TypeAndValue, node ast.Node) string {
	switch tv.Value.Kind() {
	case constant.Int:
		return zlit(tv.Value.ExactString())
	case constant.Bool:
		if constant.BoolVal(tv.Value) {
			return "true"
		}
		return "false"
	case constant.String:
		return coqString(constant.StringVal(tv.Value))
	}
	g.fail(node, "constant kind %v", tv.Value.Kind())
	return ""
}

func (g *gen) expr(e ast.Expr) string {
	key := types.ExprString(e)
	if v, ok := g.t.Access[key]; ok {
		// a local shadowing an access path is not supported: locals get fresh names
		if id, isId := e.(*ast.Ident); isId {
			if l, shadow := g.locals[id.Name]; shadow {
				return l
			}
		}
		return v
	}
	if tv, ok := g.info.Types[e]; ok && tv.Value != nil {
		return g.constVal(tv, e)
	}
	switch x := e.(type) {
	case *ast.ParenExpr:
		return g.expr(x.X)
	case *ast.Ident:
		if l, ok := g.locals[x.Name]; ok {
			return l
		}
		g.fail(e, "identifier %s is neither local, constant nor declared access path", x.Name)
	case *ast.UnaryExpr:
		switch x.Op {
		case token.NOT:
			return "(negb " + g.expr(x.X) + ")"
		case token.SUB:
			return g.wrap("(- "+g.expr(x.X)+")", g.info.TypeOf(e), e)
		}
		g.fail(e, "unary operator %s", x.Op)
	case *ast.BinaryExpr:
		a, b := g.expr(x.X), g.expr(x.Y)
		tx := g.info.TypeOf(x.X)
		switch x.Op {
		case token.ADD, token.SUB, token.MUL:
			op := map[token.Token]string{token.ADD: "+", token.SUB: "-", token.MUL: "*"}[x.Op]
			return g.wrap(fmt.Sprintf("(%s %s %s)", a, op, b), g.info.TypeOf(e), e)
		case token.LAND:
			return fmt.Sprintf("(andb %s %s)", a, b)
		case token.LOR:
			return fmt.Sprintf("(orb %s %s)", a, b)
		case token.EQL, token.NEQ:
			var eq string
			switch {
			case isBool(tx):
				eq = fmt.Sprintf("(Bool.eqb %s %s)", a, b)
			case isString(tx):
				eq = fmt.Sprintf("(String.eqb %s %s)", a, b)
			default:
				if _, _, isInt := width(tx); !isInt {
					g.fail(e, "== on type %s", tx)
				}
				eq = fmt.Sprintf("(Z.eqb %s %s)", a, b)
			}
			if x.Op == token.NEQ {
				return "(negb " + eq + ")"
			}
			return eq
		case token.LSS:
			return fmt.Sprintf("(Z.ltb %s %s)", a, b)
		case token.GTR:
			return fmt.Sprintf("(Z.ltb %s %s)", b, a)
		case token.LEQ:
			return fmt.Sprintf("(Z.leb %s %s)", a, b)
		case token.GEQ:
			return fmt.Sprintf("(Z.leb %s %s)", b, a)
		}
		g.fail(e, "binary operator %s", x.Op)
	case *ast.CallExpr:
		// conversion?
		if tv, ok := g.info.Types[x.Fun]; ok && tv.IsType() {
			if len(x.Args) != 1 {
				g.fail(e, "conversion arity")
			}
			from, to := g.info.TypeOf(x.Args[0]), tv.Type
			fb, fu, fi := width(from)
			tb, tu, ti := width(to)
			if !fi || !ti {
				g.fail(e, "conversion %s -> %s", from, to)
			}
			inner := g.expr(x.Args[0])
			if fu && tu && tb >= fb && fb != 0 {
				return inner // widening unsigned: identity
			}
			if !fu && !tu && tb >= fb && fb != 0 {
				return inner
			}
			if tu {
				return fmt.Sprintf("(wrap %d %s)", tb, inner)
			}
			if tb == 64 && fu && fb < 64 {
				return inner
			}
			g.fail(e, "conversion %s -> %s not in subset", from, to)
		}
		// immediately invoked closure
		if fl, ok := x.Fun.(*ast.FuncLit); ok {
			if len(x.Args) != 0 || fl.Type.Params.NumFields() != 0 {
				g.fail(e, "immediately-invoked closure with parameters")
			}
			return "(" + g.stmts(fl.Body.List) + ")"
		}
		// call of a local closure
		if id, ok := x.Fun.(*ast.Ident); ok {
			if l, ok := g.locals[id.Name]; ok {
				parts := []string{l}
				for _, a := range x.Args {
					parts = append(parts, g.expr(a))
				}
				return "(" + strings.Join(parts, " ") + ")"
			}
		}
		g.fail(e, "call %s is not a declared access path", key)
	case *ast.FuncLit:
		saved := g.locals
		g.locals = map[string]string{}
		for k, v := range saved {
			g.locals[k] = v
		}
		var ps []string
		for _, f := range x.Type.Params.List {
			for _, n := range f.Names {
				c := g.fresh(n.Name)
				g.locals[n.Name] = c
				ps = append(ps, c)
			}
		}
		body := g.stmts(x.Body.List)
		g.locals = saved
		if len(ps) == 0 {
			g.fail(e, "parameterless closure value")
		}
		return fmt.Sprintf("(fun %s => %s)", strings.Join(ps, " "), body)
	case *ast.SelectorExpr:
		g.fail(e, "selector %s is not a declared access path", key)
	}
	g.fail(e, "expression %T (%s)", e, key)
	return ""
}

func zero(t types.Type) string {
	if isBool(t) {
		return "false"
	}
	if isString(t) {
		return "\"\"%string"
	}
	return "0"
}

// stmts translates a statement list that must end in a return on every path.
func (g *gen) stmts(list []ast.Stmt) string {
	if len(list) == 0 {
		panic(outOfSubset{"control reaches end of function without return"})
	}
	s, rest := list[0], list[1:]
	switch x := s.(type) {
	case *ast.ReturnStmt:
		if len(x.Results) != 1 {
			g.fail(s, "return with %d results", len(x.Results))
		}
		return g.expr(x.Results[0])
	case *ast.BlockStmt:
		return g.stmts(append(append([]ast.Stmt{}, x.List...), rest...))
	case *ast.IfStmt:
		if x.Init != nil {
			g.fail(s, "if with init statement")
		}
		c := g.expr(x.Cond)
		saved := g.copyLocals()
		th := g.stmts(append(append([]ast.Stmt{}, x.Body.List...), rest...))
		g.locals = saved
		var el string
		saved = g.copyLocals()
		if x.Else != nil {
			el = g.stmts(append([]ast.Stmt{x.Else}, rest...))
		} else {
			el = g.stmts(rest)
		}
		g.locals = saved
		return fmt.Sprintf("(if %s then %s else %s)", c, th, el)
	case *ast.SwitchStmt:
		if x.Init != nil {
			g.fail(s, "switch with init statement")
		}
		var tag, tagName string
		var tagT types.Type
		pre := ""
		if x.Tag != nil {
			tag = g.expr(x.Tag)
			tagT = g.info.TypeOf(x.Tag)
			tagName = g.fresh("tag")
			pre = fmt.Sprintf("let %s := %s in ", tagName, tag)
		}
		type clause struct {
			cond string
			body []ast.Stmt
		}
		var clauses []clause
		var def []ast.Stmt
		hasDef := false
		for _, cs := range x.Body.List {
			cc := cs.(*ast.CaseClause)
			for _, b := range cc.Body {
				if br, ok := b.(*ast.BranchStmt); ok {
					g.fail(br, "branch statement %s in switch", br.Tok)
				}
			}
			if cc.List == nil {
				def, hasDef = cc.Body, true
				continue
			}
			var conds []string
			for _, ce := range cc.List {
				v := g.expr(ce)
				if x.Tag != nil {
					switch {
					case isString(tagT):
						v = fmt.Sprintf("(String.eqb %s %s)", tagName, v)
					case isBool(tagT):
						v = fmt.Sprintf("(Bool.eqb %s %s)", tagName, v)
					default:
						v = fmt.Sprintf("(Z.eqb %s %s)", tagName, v)
					}
				}
				conds = append(conds, v)
			}
			c := conds[0]
			for _, o := range conds[1:] {
				c = fmt.Sprintf("(orb %s %s)", c, o)
			}
			clauses = append(clauses, clause{c, cc.Body})
		}
		// Go evaluates cases top to bottom, default last regardless of position.
		var tail string
		saved := g.copyLocals()
		if hasDef {
			tail = g.stmts(append(append([]ast.Stmt{}, def...), rest...))
		} else {
			tail = g.stmts(rest)
		}
		g.locals = saved
		for i := len(clauses) - 1; i >= 0; i-- {
			saved := g.copyLocals()
			b := g.stmts(append(append([]ast.Stmt{}, clauses[i].body...), rest...))
			g.locals = saved
			tail = fmt.Sprintf("(if %s then %s else %s)", clauses[i].cond, b, tail)
		}
		return "(" + pre + tail + ")"
	case *ast.AssignStmt:
		if len(x.Lhs) != 1 || len(x.Rhs) != 1 {
			g.fail(s, "multi-assignment")
		}
		id, ok := x.Lhs[0].(*ast.Ident)
		if !ok {
			for _, e := range g.t.Effects {
				if types.ExprString(x.Lhs[0]) == e {
					return g.stmts(rest)
				}
			}
			g.fail(s, "assignment to non-identifier")
		}
		var rhs string
		switch x.Tok {
		case token.DEFINE, token.ASSIGN:
			rhs = g.expr(x.Rhs[0])
		case token.ADD_ASSIGN, token.SUB_ASSIGN, token.MUL_ASSIGN:
			op := map[token.Token]string{token.ADD_ASSIGN: "+", token.SUB_ASSIGN: "-", token.MUL_ASSIGN: "*"}[x.Tok]
			cur, ok := g.locals[id.Name]
			if !ok {
				g.fail(s, "op-assign to non-local %s", id.Name)
			}
			rhs = g.wrap(fmt.Sprintf("(%s %s %s)", cur, op, g.expr(x.Rhs[0])), g.info.TypeOf(id), s)
		default:
			g.fail(s, "assignment operator %s", x.Tok)
		}
		if x.Tok != token.DEFINE {
			if _, ok := g.locals[id.Name]; !ok {
				g.fail(s, "assignment to non-local %s", id.Name)
			}
		}
		name := g.fresh(id.Name)
		g.locals[id.Name] = name
		return fmt.Sprintf("(let %s := %s in %s)", name, rhs, g.stmts(rest))
	case *ast.IncDecStmt:
		id, ok := x.X.(*ast.Ident)
		if !ok {
			g.fail(s, "inc/dec of non-identifier")
		}
		cur, ok := g.locals[id.Name]
		if !ok {
			g.fail(s, "inc/dec of non-local")
		}
		op := "+"
		if x.Tok == token.DEC {
			op = "-"
		}
		rhs := g.wrap(fmt.Sprintf("(%s %s 1)", cur, op), g.info.TypeOf(id), s)
		name := g.fresh(id.Name)
		g.locals[id.Name] = name
		return fmt.Sprintf("(let %s := %s in %s)", name, rhs, g.stmts(rest))
	case *ast.DeclStmt:
		gd, ok := x.Decl.(*ast.GenDecl)
		if !ok || gd.Tok != token.VAR {
			g.fail(s, "declaration")
		}
		out := ""
		closers := ""
		for _, sp := range gd.Specs {
			vs := sp.(*ast.ValueSpec)
			for i, n := range vs.Names {
				var rhs string
				if len(vs.Values) > i {
					rhs = g.expr(vs.Values[i])
				} else {
					rhs = zero(g.info.TypeOf(n))
				}
				name := g.fresh(n.Name)
				g.locals[n.Name] = name
				out += fmt.Sprintf("(let %s := %s in ", name, rhs)
				closers += ")"
			}
		}
		return out + g.stmts(rest) + closers
	case *ast.ExprStmt:
		// logging calls have no effect on the result
		if ce, ok := x.X.(*ast.CallExpr); ok {
			if se, ok := ce.Fun.(*ast.SelectorExpr); ok {
				if strings.Contains(types.ExprString(se.X), "log") {
					return g.stmts(rest)
				}
			}
		}
		g.fail(s, "expression statement")
	}
	g.fail(s, "statement %T", s)
	return ""
}

func (g *gen) copyLocals() map[string]string {
	m := map[string]string{}
	for k, v := range g.locals {
		m[k] = v
	}
	return m
}

func findFunc(pkg *packages.Package, recv, name string) *ast.FuncDecl {
	for _, f := range pkg.Syntax {
		for _, d := range f.Decls {
			fd, ok := d.(*ast.FuncDecl)
			if !ok || fd.Name.Name != name || fd.Body == nil {
				continue
			}
			if recv == "" {
				if fd.Recv == nil {
					return fd
				}
				continue
			}
			if fd.Recv == nil || len(fd.Recv.List) != 1 {
				continue
			}
			t := fd.Recv.List[0].Type
			if st, ok := t.(*ast.StarExpr); ok {
				t = st.X
			}
			if id, ok := t.(*ast.Ident); ok && id.Name == recv {
				return fd
			}
		}
	}
	return nil
}

func translate(pkg *packages.Package, t *target) (def string, err error) {
	defer func() {
		if r := recover(); r != nil {
			if o, ok := r.(outOfSubset); ok {
				err = fmt.Errorf("%s", o.msg)
				return
			}
			panic(r)
		}
	}()
	fd := findFunc(pkg, t.Recv, t.Func)
	if fd == nil {
		return "", fmt.Errorf("function %s.%s not found", t.Recv, t.Func)
	}
	g := &gen{pkg: pkg, info: pkg.TypesInfo, t: t, locals: map[string]string{}}
	body := g.stmts(fd.Body.List)
	var ps []string
	for _, p := range t.Params {
		ps = append(ps, fmt.Sprintf("(%s : %s)", p.Name, p.Type))
	}
	return fmt.Sprintf("Definition %s %s : %s :=\n  %s.\n", t.Coq, strings.Join(ps, " "), t.Ret, body), nil
}

func writeIfChanged(path string, content []byte) {
	old, err := os.ReadFile(path)
	if err == nil && bytes.Equal(old, content) {
		return
	}
	if err := os.WriteFile(path, content, 0o644); err != nil {
		fmt.Fprintln(os.Stderr, err)
		os.Exit(2)
	}
	fmt.Println("gentrans: wrote", path)
}

const header = `(* GENERATED by gotools/gentrans from /repo's working tree. Do not edit. *)
From Coq Require Import ZArith Bool String.
From Ice Require Import Model.Wrap.
Local Open Scope Z_scope.
`

func main() {
	repo := flag.String("repo", "/repo", "path of pion/ice working tree")
	out := flag.String("out", "/verif/coq/Gen", "output directory")
	fallback := flag.String("fallback", "/verif/coq/GenFallback", "hand-written fallback definitions")
	flag.Parse()
	cfg := &packages.Config{Mode: packages.NeedTypes | packages.NeedSyntax | packages.NeedTypesInfo | packages.NeedName | packages.NeedFiles | packages.NeedImports | packages.NeedDeps, Dir: *repo}
	pkgs, err := packages.Load(cfg, "github.com/pion/ice/v4")
	if err != nil || len(pkgs) != 1 || len(pkgs[0].Errors) > 0 {
		fmt.Fprintln(os.Stderr, "gentrans: cannot load package:", err)
		if len(pkgs) > 0 {
			for _, e := range pkgs[0].Errors {
				fmt.Fprintln(os.Stderr, e)
			}
		}
		os.Exit(2)
	}
	pkg := pkgs[0]
	os.MkdirAll(*out, 0o755)

	// Consts.v
	var cb bytes.Buffer
	cb.WriteString("(* GENERATED by gotools/gentrans from /repo's working tree. Do not edit. *)\nFrom Coq Require Import ZArith String.\nLocal Open Scope Z_scope.\n")
	seen := map[string]bool{}
	var missing []string
	for _, n := range constNames {
		if seen[n] {
			continue
		}
		seen[n] = true
		obj := pkg.Types.Scope().Lookup(n)
		c, ok := obj.(*types.Const)
		if !ok {
			missing = append(missing, n)
			continue
		}
		switch c.Val().Kind() {
		case constant.Int:
			fmt.Fprintf(&cb, "Definition %s : Z := %s.\n", n, zlit(c.Val().ExactString()))
		case constant.String:
			fmt.Fprintf(&cb, "Definition %s : string := %s.\n", n, coqString(constant.StringVal(c.Val())))
		default:
			missing = append(missing, n)
		}
	}
	writeIfChanged(filepath.Join(*out, "Consts.v"), cb.Bytes())

	files := map[string]*bytes.Buffer{}
	var order []string
	status := map[string]string{}
	for i := range targets {
		t := &targets[i]
		b, ok := files[t.File]
		if !ok {
			b = &bytes.Buffer{}
			b.WriteString(header)
			files[t.File] = b
			order = append(order, t.File)
		}
		def, err := translate(pkg, t)
		if err != nil {
			status[t.Coq] = "fallback: " + err.Error()
			fb, ferr := os.ReadFile(filepath.Join(*fallback, t.Coq+".v"))
			if ferr != nil {
				fmt.Fprintf(os.Stderr, "gentrans: %s out of subset (%v) and no fallback\n", t.Coq, err)
				os.Exit(3)
			}
			fmt.Printf("gentrans: FALLBACK %s: %v\n", t.Coq, err)
			fmt.Fprintf(b, "(* %s: OUT OF SUBSET (%s); hand-written fallback, correspondence-only *)\n%s\n", t.Coq, err, fb)
			continue
		}
		status[t.Coq] = "generated"
		fmt.Fprintf(b, "(* from %s.%s *)\n%s\n", t.Recv, t.Func, def)
	}
	for _, f := range order {
		writeIfChanged(filepath.Join(*out, f+".v"), files[f].Bytes())
	}
	var sb bytes.Buffer
	sb.WriteString("# target status (generated|fallback)\n")
	var keys []string
	for k := range status {
		keys = append(keys, k)
	}
	sort.Strings(keys)
	for _, k := range keys {
		fmt.Fprintf(&sb, "%s\t%s\n", k, status[k])
	}
	for _, m := range missing {
		fmt.Fprintf(&sb, "CONST-MISSING\t%s\n", m)
	}
	writeIfChanged(filepath.Join(*out, "STATUS.txt"), sb.Bytes())
	if len(missing) > 0 {
		fmt.Println("gentrans: missing constants:", missing)
	}
}
