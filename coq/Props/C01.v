(* C01: two agents converge on the same, working candidate pair.
   PARTIAL.  Proved here (single-agent half, every state): a pair BECOMES selected only while an
   inbound STUN datagram is handled -- every other operation keeps the selection or drops it; with
   C02 (only authenticated traffic with a live, address-matched transaction has any effect) and C03
   (who may nominate) this is what the two-agent safety argument rests on.  The two-agent statements
   themselves (no bidirectionally reachable pair => never Connected / never a selected pair; mirror
   images at quiescence; both Connected after a fair loss-free suffix) are decided by the extracted
   monitor C01.* on runs of two REAL agents over a harness-owned network (suite "pair": random
   topologies with NATed endpoints and one-way links, loss / duplication / reordering, restarts), each
   agent's half being simultaneously checked against the core model.  Not proved: the composed
   (two-agent + network) invariant and the liveness part. *)
From Coq Require Import ZArith Bool List.
From Ice Require Import Model.AgentTypes Model.AgentCore Model.PairMonitor Gen.Consts Proofs.AgentFrame Proofs.AgentC01.
Import ListNotations.
Local Open Scope Z_scope.

Theorem C01_selection_set_only_by_inbound_stun_partial : forall cfg o,
  match o with InStun _ _ _ => True | _ => sat keeps_or_drops_selection (step_m cfg o) end.
Proof. exact selection_set_only_by_inbound_stun. Qed.
Print Assumptions C01_selection_set_only_by_inbound_stun_partial.

(* the pair monitor's mirror check is symmetric in the two sides' views of one (A endpoint, B endpoint) pair *)
Example C01_example_mirror :
  let a := [mkEndpoint 1 (mkAddr false 167837697 5000)] in
  let b := [mkEndpoint 1 (mkAddr false 3405803777 16000)] in
  let su := mkPairSummary a b [[(true, true)]] false false false 1 2 0 0 None in
  let fa := mkSideFinal 3 true (Some (1, mkAddr false 3405803777 16000)) in
  let fb := mkSideFinal 3 false (Some (1, mkAddr false 167837697 5000)) in
  forallb snd (C01_checks su fa fb true true true true) = true.
Proof. vm_compute. reflexivity. Qed.
