(* C01: two agents converge on the same, working candidate pair.
   PARTIAL.  Proved here:
   (1) two-agent SAFETY, for the composition of two agent-core state machines and a network that may
       deliver, drop, duplicate and reorder every datagram (Model/TwoAgents.v): if no pair of
       endpoints is reachable in both directions, then after EVERY schedule neither full agent holds
       a Succeeded pair, neither has a selected pair, and neither is Connected or Disconnected;
   (2) two-agent REACHABILITY of valid pairs, same composed model, ANY topology: under every admissible
       schedule (sys_run_ok: the remote candidates handed to an agent are fresh objects, and a datagram
       arrives on a socket of its own address family -- signalled candidates may supersede peer-reflexive
       ones), every valid (Succeeded) pair of either full agent -- in particular the selected pair -- joins
       a local socket and a remote address whose endpoints reach each other in BOTH directions;
   (3) single agent, every state: a pair BECOMES selected only while an inbound STUN datagram is
       handled -- every other operation keeps the selection or drops it.
   Decided by the extracted monitor C01.* on runs of two REAL agents over a harness-owned network
   (suite "pair": random topologies with NATed endpoints and one-way links, loss / duplication /
   reordering, restarts), each agent's half being simultaneously checked against the core model:
   mirror images at quiescence and both Connected after a fair loss-free suffix.  Not proved: the
   mirror-image and liveness parts, and (2) for lite agents ((1) holds for lite agents too:
   C01_never_connected_without_bidirectional_path_any). *)
From Coq Require Import ZArith Bool List.
From Ice Require Import Model.AgentTypes Model.AgentCore Model.PairMonitor Model.TwoAgents Gen.Consts Proofs.AgentFrame Proofs.AgentC01 Proofs.TwoAgentsProofs Proofs.TwoAgentsReach Proofs.TwoAgentsLite.
From Ice Require Import Model.TwoAgentsData Proofs.AgentEnds Proofs.TwoAgentsDataProofs Proofs.TwoAgentsProjection.
From Ice Require Import Proofs.AgentC06 Proofs.AgentRem Proofs.AgentSingleNom Proofs.AgentNomInv Proofs.TwoAgentsWire.
Import ListNotations.
Local Open Scope Z_scope.

Theorem C01_selection_set_only_by_inbound_stun_partial : forall cfg o,
  match o with InStun _ _ _ => True | _ => sat keeps_or_drops_selection (step_m cfg o) end.
Proof. exact selection_set_only_by_inbound_stun. Qed.
Print Assumptions C01_selection_set_only_by_inbound_stun_partial.

Theorem C01_never_connected_without_bidirectional_path_partial : forall cfga cfgb t lua lpa lub lpb ops,
  cf_lite cfga = false -> cf_lite cfgb = false -> topo_wf t -> topo_bidirectional t = false ->
  let sy := sys_run cfga cfgb t (sys_init lua lpa lub lpb) ops in
  (s_selected (sy_a sy) = None /\ s_selected (sy_b sy) = None) /\
  (Forall (fun p => p_state p <> CandidatePairStateSucceeded) (s_checklist (sy_a sy)) /\
   Forall (fun p => p_state p <> CandidatePairStateSucceeded) (s_checklist (sy_b sy))) /\
  (s_closed (sy_a sy) = false -> s_conn (sy_a sy) <> ConnectionStateConnected /\ s_conn (sy_a sy) <> ConnectionStateDisconnected) /\
  (s_closed (sy_b sy) = false -> s_conn (sy_b sy) <> ConnectionStateConnected /\ s_conn (sy_b sy) <> ConnectionStateDisconnected).
Proof. exact never_connected_without_bidirectional_path. Qed.
Print Assumptions C01_never_connected_without_bidirectional_path_partial.

Theorem C01_valid_pairs_reachable_both_ways_partial : forall cfga cfgb t lua lpa lub lpb ops,
  cf_lite cfga = false -> cf_lite cfgb = false -> topo_wf t ->
  sys_run_ok cfga cfgb t (sys_init lua lpa lub lpb) ops ->
  let sy := sys_run cfga cfgb t (sys_init lua lpa lub lpb) ops in
  Forall (fun p => p_state p = CandidatePairStateSucceeded -> KA t (c_h (p_loc p)) (c_addr (p_rem p))) (s_checklist (sy_a sy)) /\
  Forall (fun p => p_state p = CandidatePairStateSucceeded -> KB t (c_h (p_loc p)) (c_addr (p_rem p))) (s_checklist (sy_b sy)) /\
  (forall id, s_selected (sy_a sy) = Some id ->
     exists p, In p (s_checklist (sy_a sy)) /\ p_id p = id /\ KA t (c_h (p_loc p)) (c_addr (p_rem p))) /\
  (forall id, s_selected (sy_b sy) = Some id ->
     exists p, In p (s_checklist (sy_b sy)) /\ p_id p = id /\ KB t (c_h (p_loc p)) (c_addr (p_rem p))).
Proof. exact valid_pairs_reachable_both_ways. Qed.
Print Assumptions C01_valid_pairs_reachable_both_ways_partial.

(* non-vacuity, and the hypothesis is needed: one host candidate each; the same schedule leaves both
   agents Checking with nothing selected when the link carries only A->B, and brings both to
   Connected on the same pair when it carries both directions *)
(* (1) for full AND lite agents, any mix: a lite agent selects on a nomination alone, so the invariant also says that
   nobody nominates -- no agent has a nomination under way and no Binding request in flight carries USE-CANDIDATE or a
   nomination value (nominations are only sent for valid pairs; since the repair afd0894 also by RenominateCandidate,
   which before it connected a lite peer over a one-way path: fixed finding) *)
Theorem C01_never_connected_without_bidirectional_path_any : forall cfga cfgb t lua lpa lub lpb ops,
  topo_wf t -> topo_bidirectional t = false ->
  let sy := sys_run cfga cfgb t (sys_init lua lpa lub lpb) ops in
  (s_selected (sy_a sy) = None /\ s_selected (sy_b sy) = None) /\
  (Forall (fun p => p_state p <> CandidatePairStateSucceeded) (s_checklist (sy_a sy)) /\
   Forall (fun p => p_state p <> CandidatePairStateSucceeded) (s_checklist (sy_b sy))) /\
  (s_closed (sy_a sy) = false -> s_conn (sy_a sy) <> ConnectionStateConnected /\ s_conn (sy_a sy) <> ConnectionStateDisconnected) /\
  (s_closed (sy_b sy) = false -> s_conn (sy_b sy) <> ConnectionStateConnected /\ s_conn (sy_b sy) <> ConnectionStateDisconnected).
Proof. exact never_connected_without_bidirectional_path_any. Qed.
Print Assumptions C01_never_connected_without_bidirectional_path_any.

Module C01_example_two_agents.
  Definition cfg t := mkConfig false t 7 5000000000 false 25000000000 0 0 0 0 0 [] false false 1.
  Definition aA := mkAddr false 167772161 5000.
  Definition aB := mkAddr false 3232235777 6000.
  Definition la := mkCand 1 1 1 aA 0 2130706431 1 None.
  Definition lb := mkCand 1 1 1 aB 0 2130706431 1 None.
  Definition topo lk := mkTopology [mkEndpoint 1 aA] [mkEndpoint 1 aB] [[lk]].
  Definition sched :=
    [SApi true (AddLocal la); SApi false (AddLocal lb); SApi true (Start true 3 4); SApi false (Start false 1 2);
     SApi true (AddRemote (set_c_h 2 lb)); SApi false (AddRemote (set_c_h 2 la));
     SApi true Tick; SDeliver 0; SDeliver 0; SApi false Tick; SDeliver 0; SDeliver 0;
     SApi true (Advance 200000000); SApi true Tick; SDeliver 0; SDeliver 0; SDeliver 0; SDeliver 0;
     SApi true (Advance 200000000); SApi true Tick; SDeliver 0; SDeliver 0; SDeliver 0; SDeliver 0].
  Definition fin lk := sys_run (cfg 5) (cfg 6) (topo lk) (sys_init 1 2 3 4) sched.
  Definition view lk := let s := fin lk in (s_conn (sy_a s), s_selected (sy_a s), s_conn (sy_b s), s_selected (sy_b s)).
  Example hypotheses_hold : topo_wf (topo (true, false)) /\ topo_bidirectional (topo (true, false)) = false.
  Proof.
    split; [|reflexivity]. split; intros i Hi; (destruct i as [|i]; [split; reflexivity|cbn in Hi; exfalso; inversion Hi as [|? Hi']; inversion Hi']).
  Qed.
  Example one_way : view (true, false) = (ConnectionStateChecking, None, ConnectionStateChecking, None).
  Proof. vm_compute. reflexivity. Qed.
  Example both_ways : view (true, true) = (ConnectionStateConnected, Some 1, ConnectionStateConnected, Some 1).
  Proof. vm_compute. reflexivity. Qed.
  (* the schedule is admissible for the reachability theorem *)
  Example schedule_admissible : sys_run_ok (cfg 5) (cfg 6) (topo (true, true)) (sys_init 1 2 3 4) sched.
  Proof.
    vm_compute. repeat split; try (intros [] ; discriminate); try (intros l El; injection El as <-; reflexivity);
      try (intros l El; discriminate El); try (intros H; destruct H as [H|[]]; discriminate H); try (intros []).
  Qed.
End C01_example_two_agents.

(* the pair monitor's mirror check is symmetric in the two sides' views of one (A endpoint, B endpoint) pair *)
Example C01_example_mirror :
  let a := [mkEndpoint 1 (mkAddr false 167837697 5000)] in
  let b := [mkEndpoint 1 (mkAddr false 3405803777 16000)] in
  let su := mkPairSummary a b [[(true, true)]] false false false 1 2 0 0 None in
  let fa := mkSideFinal 3 true (Some (1, mkAddr false 3405803777 16000)) in
  let fb := mkSideFinal 3 false (Some (1, mkAddr false 167837697 5000)) in
  forallb snd (C01_checks su fa fb true true true true) = true.
Proof. vm_compute. reflexivity. Qed.

(* ---- projection (Proofs/TwoAgentsProjection.v): inside the composed system -- any topology, any schedule of API calls,
   ticks, STUN and data deliveries, drops and duplications -- the state of each agent is the state the single-agent
   machine reaches on that agent's own operations, in order ([history_of]: its API calls and ticks, the datagrams
   delivered to it).  So every theorem about "every history of one agent" (C02 - C07, C20) holds for each agent of the
   system; the network only chooses WHICH history each agent sees. *)
Theorem C01_agent_state_is_own_history : forall cfga cfgb t a ops d,
  agent_of a (d_sys (dsys_run cfga cfgb t d ops)) =
  runs (cfg_of cfga cfgb a) (agent_of a (d_sys d)) (history_of cfga cfgb t a d ops).
Proof. exact agent_state_is_own_history. Qed.
Print Assumptions C01_agent_state_is_own_history.

Theorem C01_system_states_are_single_agent_states : forall cfga cfgb t a lua lpa lub lpb ops,
  let d0 := dsys_init lua lpa lub lpb in
  agent_of a (d_sys (dsys_run cfga cfgb t d0 ops)) =
  fst (run (cfg_of cfga cfgb a) (if a then lua else lub) (if a then lpa else lpb) (history_of cfga cfgb t a d0 ops)).
Proof. exact system_states_are_single_agent_states. Qed.
Print Assumptions C01_system_states_are_single_agent_states.

(* e.g. C03's invariant for both agents of the system *)
Theorem C01_system_selected_is_validated_and_nominated : forall cfga cfgb t a lua lpa lub lpb ops id,
  let s := agent_of a (d_sys (dsys_run cfga cfgb t (dsys_init lua lpa lub lpb) ops)) in
  s_selected s = Some id ->
  exists p, In p (s_checklist s) /\ p_id p = id /\ p_state p = CandidatePairStateSucceeded /\ p_nominated p = true.
Proof. exact system_selected_is_validated_and_nominated. Qed.
Print Assumptions C01_system_selected_is_validated_and_nominated.

(* non-vacuity: the schedule of C01_example_two_agents (24 system operations) splits into 14 operations of A and 10 of B,
   and replaying A's 14 on a single agent gives A's state in the system *)
Example C01_example_projection :
  let E := C01_example_two_agents.cfg in
  let t := C01_example_two_agents.topo (true, true) in
  let ops := map DSys C01_example_two_agents.sched in
  let d0 := dsys_init 1 2 3 4 in
  (length (history_of (E 5) (E 6) t true d0 ops), length (history_of (E 5) (E 6) t false d0 ops)) = (14%nat, 10%nat) /\
  s_selected (runs (E 5) (init 1 2) (history_of (E 5) (E 6) t true d0 ops)) = Some 1.
Proof. vm_compute. split; reflexivity. Qed.

(* ---- single nomination on the wire (Proofs/TwoAgentsWire.v; the nomination mechanism of C01).  [XInv t x sy]: agent x's
   bookkeeping invariants (unique pair IDs, consistent remote candidates, nominated record agreeing with the checklist)
   and "every USE-CANDIDATE request of x in flight is the routed image of a send on x's recorded nominated pair";
   [wire_run_ok]: every operation x itself performs along the schedule is admissible (fresh candidate objects, own-family
   datagrams) and neither restarts x's selector nor is an application renomination.  Then, whatever is delivered,
   dropped or duplicated, all of x's USE-CANDIDATE requests in flight reach ONE socket of the peer from ONE address. *)
Theorem C01_use_candidate_flights_share_one_path : forall cfga cfgb t x sy ops f1 f2,
  XInv t x sy -> wire_run_ok cfga cfgb t x sy ops ->
  let net := sy_net (sys_run cfga cfgb t sy ops) in
  In f1 net -> use_flight x f1 -> In f2 net -> use_flight x f2 ->
  f_lh f1 = f_lh f2 /\ f_src f1 = f_src f2.
Proof. exact use_candidate_flights_share_one_path. Qed.
Print Assumptions C01_use_candidate_flights_share_one_path.

Theorem C01_wire_invariant_initially : forall t x lua lpa lub lpb, XInv t x (sys_init lua lpa lub lpb).
Proof. exact XInv_init. Qed.
Print Assumptions C01_wire_invariant_initially.

Module C01_example_wire.
  Definition cfg t := mkConfig false t 7 5000000000 false 25000000000 0 0 0 0 0 [] false false 1.
  Definition aA := mkAddr false 167772161 5000.
  Definition aB := mkAddr false 3232235777 6000.
  Definition la := mkCand 1 1 1 aA 0 2130706431 1 None.
  Definition lb := mkCand 1 1 1 aB 0 2130706431 1 None.
  Definition topo := mkTopology [mkEndpoint 1 aA] [mkEndpoint 1 aB] [[(true, true)]].
  Definition setup := [SApi true (AddLocal la); SApi false (AddLocal lb); SApi true (Start true 3 4); SApi false (Start false 1 2)].
  Definition sy1 := sys_run (cfg 5) (cfg 6) topo (sys_init 1 2 3 4) setup.
  (* checks, then two nominations of A in a row (the first one's answer is dropped), one of them duplicated *)
  Definition sched :=
    [SApi true (AddRemote (set_c_h 2 lb)); SApi false (AddRemote (set_c_h 2 la));
     SApi true Tick; SDeliver 0; SDeliver 0; SApi false Tick; SDeliver 0; SDeliver 0;
     SApi true (Advance 200000000); SApi true Tick; SDup 0; SApi true (Advance 200000000); SApi true Tick].
  Definition uses := filter (fun f => negb (f_to_a f) && (m_class (f_msg f) =? 0) && m_use (f_msg f)) (sy_net (sys_run (cfg 5) (cfg 6) topo sy1 sched)).
  Example hypotheses_hold : XInv topo true sy1 /\ wire_run_ok (cfg 5) (cfg 6) topo true sy1 sched.
  Proof.
    split.
    - unfold XInv, ag. split; [|split; [|split]].
      + unfold InvU. vm_compute. repeat split; try constructor; discriminate.
      + right. apply Rm_empty; vm_compute; try reflexivity; intros H; discriminate H.
      + vm_compute. exact I.
      + unfold WireInv. vm_compute. constructor.
    - vm_compute. repeat split;
        try (intros [] ; discriminate); try (intros l El; injection El as <-; reflexivity);
        try (intros l El; discriminate El); try (intros H; destruct H as [H|[]]; discriminate H); try (intros []);
        try (intros [tb H]; discriminate H).
  Qed.
End C01_example_wire.
