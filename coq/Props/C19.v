(* C19: address rewrite rules map addresses as documented.
   Only theorem statements, each closed by [exact <lemma>], with Print Assumptions.

   Model/Rewrite.v: [compile] = newAddressRewriteMapper, [lookup] = findExternalIPs /
   evaluateRewriteRules, the four application functions of gather.go, the legacy NAT1To1IPs parser
   and WithAddressRewriteRules' sanitizer.  catchAllSpecificity, defaultAddressRewriteMode,
   hasMappings, isFamilyAllowed, NetworkType.IsIPv4/IsIPv6 are GENERATED from the Go source on
   every run (coq/Gen/) and called by the model.  [spec_lookup] is the documented precedence,
   written independently of the compiled structures. *)
From Coq Require Import ZArith Bool String List.
From Ice Require Import Model.PrioSpec Model.Rewrite Gen.Names Gen.RewriteFns Proofs.RewriteProofs.
Import ListNotations.
Local Open Scope Z_scope.

(* FULL, for every rule list and key: the lookup over the compiled structures is the precedence
   statement "first pinned rule, else the catch-all of highest specificity, earliest among equals"
   with the specificity catchAllSpecificity computes. *)
Theorem C19_lookup_code_precedence : forall rs m ty loc iface,
  compile rs = COk m -> lookup m ty loc iface = code_precedence_lookup rs ty loc iface.
Proof. exact lookup_code_precedence. Qed.
Print Assumptions C19_lookup_code_precedence.

(* The property's statement is  C19_lookup_spec : compile rs = COk m -> lookup m ty loc iface =
   spec_lookup rs ty loc iface  with the DOCUMENTED specificity (iface+CIDR > iface > CIDR > global).
   It is REFUTED by the model and by the code (Findings/F_C19_cidr_only_vs_global.v): with a
   non-empty lookup interface a CIDR-only catch-all ranks like a global one.  PARTIAL: everything
   except the keys for which [cidr_only_vs_global] holds (non-empty lookup interface, no pinned and
   no interface-scoped rule applies, and a global catch-all precedes the applicable CIDR-only
   ones). *)
Theorem C19_lookup_spec_partial : forall rs m ty loc iface,
  compile rs = COk m -> cidr_only_vs_global rs ty loc iface = false ->
  lookup m ty loc iface = spec_lookup rs ty loc iface.
Proof. exact lookup_spec_partial. Qed.
Print Assumptions C19_lookup_spec_partial.

(* a nil mapper (no rule left after compilation) matches nothing *)
Theorem C19_nil_mapper : forall rs ty loc iface,
  compile rs = COk [] -> code_precedence_lookup rs ty loc iface = ([], false, 0).
Proof. exact nil_mapper_unmatched. Qed.
Print Assumptions C19_nil_mapper.

(* FULL: replace substitutes (an empty list drops: ok = false), append adds (an empty list is a
   no-op), no match leaves the address alone -- for the four application functions.  For srflx the
   function returns only the additions in append mode: the STUN-derived candidates are produced by
   a separate gathering path (kept iff no srflx rule is in replace mode: [stun_srflx_gathered]). *)
Theorem C19_modes : forall m self orig iface,
  mode_sem true self (lookup m 1 self iface) (apply_host m (SGood self) [self] iface) /\
  mode_sem true self (lookup m 1 self "") (apply_udpmux m (SGood self) [self]) /\
  (has_candidate_type m 2 = false -> resolve_srflx m (SGood self) self iface = ([self], true)) /\
  (has_candidate_type m 2 = true ->
     mode_sem false self (lookup m 2 self iface) (resolve_srflx m (SGood self) self iface)) /\
  (has_candidate_type m 4 = false -> resolve_relay m (SGood self) orig iface = ([orig], true)) /\
  (has_candidate_type m 4 = true ->
     mode_sem true orig (lookup m 4 self iface) (resolve_relay m (SGood self) orig iface)).
Proof.
  intros m self orig iface.
  exact (conj (modes_host m self iface) (conj (modes_udpmux m self)
        (conj (proj1 (modes_srflx m self iface)) (conj (proj2 (modes_srflx m self iface))
        (conj (proj1 (modes_relay m self orig iface)) (proj2 (modes_relay m self orig iface))))))).
Qed.
Print Assumptions C19_modes.

(* The property says: IPv4 and IPv6 mappings never cross families unless pinned by Local.
   PARTIAL: an external of the other family than the local address comes from a rule pinned to
   that address OR from a catch-all whose CIDR (of the local address' family) contains it -- the
   second alternative is what the property excludes and the code (and the documentation of
   AddressRewriteRule.Local) allows: Findings/F_C19_cidr_cross_family.v. *)
Theorem C19_families_partial : forall rs m ty loc iface ips matched mode e,
  compile rs = COk m -> lookup m ty loc iface = (ips, matched, mode) -> In e ips -> fst e <> fst loc ->
  (exists r, In r rs /\ eff_type r = ty /\ r_local r = SGood loc /\ In e (exts r)) \/
  (exists r c, In r rs /\ eff_type r = ty /\ r_local r = SEmpty /\ cidr_of r = Some c /\
               cidr_v4 c = fst loc /\ cidr_contains c loc = true /\ In e (exts r)).
Proof. exact families_partial. Qed.
Print Assumptions C19_families_partial.

(* the property's statement, for rule lists without such a CIDR catch-all *)
Theorem C19_families_no_cidr_cross_partial : forall rs m ty loc iface ips matched mode e,
  (forall r, In r rs -> cidr_cross_rule r = false) ->
  compile rs = COk m -> lookup m ty loc iface = (ips, matched, mode) -> In e ips -> fst e <> fst loc ->
  exists r, In r rs /\ eff_type r = ty /\ r_local r = SGood loc /\ In e (exts r).
Proof. exact families_clean. Qed.
Print Assumptions C19_families_no_cidr_cross_partial.

(* FULL: compile rejects exactly the rule sets containing an invalid rule: unsupported
   (peer-reflexive) type, or -- unless the rule is restricted to networks of no family, in which
   case newAddressRewriteMapper skips it before looking at it -- a bad CIDR, a bad Local, a Local
   outside the CIDR, or a bad External entry. *)
Theorem C19_validation : forall rs, is_err (compile rs) = existsb rule_invalid rs.
Proof. exact compile_rejects_iff. Qed.
Print Assumptions C19_validation.

Theorem C19_validation_unsupported_type : forall rs r, In r rs -> eff_type r = 3 -> is_err (compile rs) = true.
Proof. exact rejects_unsupported_type. Qed.
Print Assumptions C19_validation_unsupported_type.

Theorem C19_validation_bad_ip : forall rs r x, In r rs -> rule_ignored r = false -> eff_type r <> 3 ->
  (In x (r_external r) /\ is_good (snd x) = false) \/ r_local r = SBad \/ r_local r = SSlash \/ r_cidr r = CBad ->
  is_err (compile rs) = true.
Proof. exact rejects_bad_ip. Qed.
Print Assumptions C19_validation_bad_ip.

Theorem C19_validation_local_outside_cidr : forall rs r l c, In r rs -> rule_ignored r = false ->
  r_local r = SGood l -> r_cidr r = CGood c -> cidr_contains c l = false -> is_err (compile rs) = true.
Proof. exact rejects_local_outside_cidr. Qed.
Print Assumptions C19_validation_local_outside_cidr.

(* FULL: the legacy NAT1To1IPs list is accepted iff every entry is well formed and there is at
   most one catch-all per family; duplicates are rejected; an accepted list translates to rules
   that compile. *)
Theorem C19_validation_legacy : forall es, legacy_validate es = legacy_valid es.
Proof. exact legacy_validate_spec. Qed.
Print Assumptions C19_validation_legacy.

Theorem C19_validation_legacy_duplicates : forall es v4, 2 <= count_catch v4 es -> legacy_validate es = false.
Proof. exact legacy_rejects_duplicates. Qed.
Print Assumptions C19_validation_legacy_duplicates.

Theorem C19_legacy_accepted : forall es cfg_ty,
  legacy_validate es = true -> Forall lentry_coherent es -> cfg_ty <> 3 ->
  exists rs m, legacy_config_rules es cfg_ty = Some rs /\ compile rs = COk m.
Proof. exact legacy_accepted. Qed.
Print Assumptions C19_legacy_accepted.

(* WithAddressRewriteRules ([sanitize_rule reject_empty]): what passes the sanitizer has only
   parseable External/Local entries.  OBSERVATION (not part of property C19, not judged by the
   monitor): the pinned option (reject_empty = true) never lets a rule without External entries
   pass, although the documentation of AddressRewriteRule.External calls empty External rules
   intentional; [reject_empty] is kept only so that the correspondence follows whichever behaviour
   the code has (probed by the harness). *)
Theorem C19_option_output : forall re r r', sanitize_rule re r = Some r' ->
  all_good (r_external r') = true /\ (re = true -> r_external r' <> []) /\
  (r_local r' = SEmpty \/ exists l, r_local r' = SGood l) /\ r_mode r' <> 0 /\
  r_iface r' = r_iface r /\ r_cidr r' = r_cidr r /\ r_type r' = r_type r /\ r_networks r' = r_networks r.
Proof. exact sanitize_output. Qed.
Print Assumptions C19_option_output.

Theorem C19_option_rejects_no_external : forall r, good_addrs (r_external r) = [] -> sanitize_rule true r = None.
Proof. exact sanitize_rejects_no_external. Qed.
Print Assumptions C19_option_rejects_no_external.

Theorem C19_option_repaired_accepts_empty : forall r,
  forallb (fun x : xstr => match snd x with SEmpty => true | _ => false end) (r_external r) = true ->
  (r_local r = SEmpty \/ exists l, r_local r = SGood l) -> (r_mode r = 1 \/ r_mode r = 2) ->
  sanitize_rule false r = Some (mkRule [] (r_local r) (r_iface r) (r_cidr r) (r_type r) (r_mode r) (r_networks r)).
Proof. exact sanitize_repaired_accepts_empty. Qed.
Print Assumptions C19_option_repaired_accepts_empty.

(* the executable monitors (evaluated by bin/check on the implementation's observations) accept
   what the model computes; the lookup monitor states the DOCUMENTED behaviour, hence partial *)
Theorem C19_lookup_monitor_sound_partial : forall rs m ty loc iface,
  compile rs = COk m -> cidr_only_vs_global rs ty loc iface = false ->
  (forall r, In r rs -> cidr_cross_rule r = false) ->
  all_ok (C19_lookup_checks rs ty loc iface (lookup m ty loc iface)) = true.
Proof. exact lookup_monitor_sound_partial. Qed.
Print Assumptions C19_lookup_monitor_sound_partial.

Theorem C19_apply_monitor_sound : forall m self orig iface,
  all_ok (C19_apply_checks (has_candidate_type m 1) (has_candidate_type m 2) (has_candidate_type m 4) self orig
            (lookup m 1 self iface) (lookup m 1 self "") (lookup m 2 self iface) (lookup m 4 self iface)
            (host_addresses m self iface) (udpmux_addresses m self)
            (resolve_srflx m (SGood self) self iface) (resolve_relay m (SGood self) orig iface)) = true.
Proof. exact apply_monitor_sound. Qed.
Print Assumptions C19_apply_monitor_sound.

Theorem C19_validation_monitor_sound : forall rs, all_ok (C19_validation_checks rs (is_err (compile rs))) = true.
Proof. exact validation_monitor_sound. Qed.
Print Assumptions C19_validation_monitor_sound.

Theorem C19_legacy_monitor_sound : forall es, all_ok (C19_legacy_checks es (negb (legacy_validate es))) = true.
Proof. exact legacy_monitor_sound. Qed.
Print Assumptions C19_legacy_monitor_sound.

(* non-vacuity: a rule list with a global, a CIDR-only, an interface and a pinned (append,
   cross-family) rule compiles; the hypotheses of the partial theorems hold for some keys and the
   excluded situation arises for another *)
Example C19_example :
  exists m, compile ex_rules = COk m /\
    lookup m 1 (ex_a 167772165) "" = ([ex_a 200], true, 1) /\
    lookup m 1 (ex_a 167772165) "eth0" = ([ex_a 300], true, 1) /\
    lookup m 1 (ex_a 3232235777) "" = ([ex_a 100], true, 1) /\
    lookup m 1 (ex_a 167772170) "eth0" = ([ex_a 400; (false, 9)], true, 2) /\
    cidr_only_vs_global ex_rules 1 (ex_a 167772165) "" = false /\
    cidr_only_vs_global ex_rules 1 (ex_a 167772165) "wlan0" = true /\
    (forall r, In r ex_rules -> cidr_cross_rule r = false).
Proof. exact example_lookups. Qed.
