(* C17: candidate and pair priorities follow the RFC formulas for every configuration.
   Only theorem statements, each closed by [exact <lemma>], with Print Assumptions.
   The functions TypePreference, LocalPreference, Priority, PairPriority,
   relayProtocolPreference, CandidateType_String, NetworkType_String are GENERATED
   from the Go source on every run (coq/Gen/). *)
From Coq Require Import ZArith Bool String List.
From Ice Require Import Model.Wrap Model.PrioSpec Model.PrioModel Model.Foundation Gen.Consts Gen.Prio Gen.Names
     Proofs.PrioProofs Proofs.PrioInjective Proofs.PrioLex Proofs.FoundationProofs.
Local Open Scope Z_scope.

(* priority = 2^24*tp + 2^8*lp + (256 - component) with the stated tp / lp tables *)
Theorem C17_formula : forall ty nt tcp rp has_agent off comp,
  In ty cand_types -> In nt net_types -> In tcp tcp_types -> 0 <= off < 65536 -> 0 <= comp <= 256 ->
  candidate_priority ty nt tcp rp has_agent off comp =
    spec_priority (spec_type_pref ty nt has_agent off) (spec_local_pref ty nt tcp (spec_relay_pref rp)) comp.
Proof. exact candidate_priority_formula. Qed.
Print Assumptions C17_formula.

Theorem C17_type_pref : forall ty nt has_agent off,
  In ty cand_types -> In nt net_types -> 0 <= off < 65536 ->
  TypePreference ty nt has_agent off = spec_type_pref ty nt has_agent off.
Proof. exact type_pref_spec. Qed.
Print Assumptions C17_type_pref.

(* every configuration: type preference in 0..126, priority in 0..2^31-1, >= 1 for components 1..255 *)
Theorem C17_range : forall ty nt tcp rp has_agent off comp,
  In ty cand_types -> In nt net_types -> In tcp tcp_types -> 0 <= off < 65536 -> 0 <= comp <= 65535 ->
  0 <= TypePreference ty nt has_agent off <= 126 /\
  0 <= candidate_priority ty nt tcp rp has_agent off comp <= 2147483647 /\
  (1 <= comp <= 255 -> 1 <= candidate_priority ty nt tcp rp has_agent off comp).
Proof. exact candidate_priority_range. Qed.
Print Assumptions C17_range.

Theorem C17_priority_override : forall ov tp lp comp, ov <> 0 -> Priority ov tp lp comp = ov.
Proof. exact priority_override. Qed.
Print Assumptions C17_priority_override.

(* the formula read as an order: candidates are ordered lexicographically by (type preference,
   local preference, lower component first), and the priority determines the three of them,
   for every type preference 0..126, local preference 0..65535 and component 1..256 *)
Theorem C17_priority_lexicographic : forall tp lp comp tp' lp' comp',
  0 <= tp <= 126 -> 0 <= lp <= 65535 -> 1 <= comp <= 256 ->
  0 <= tp' <= 126 -> 0 <= lp' <= 65535 -> 1 <= comp' <= 256 ->
  (Priority 0 tp lp comp < Priority 0 tp' lp' comp' <->
   tp < tp' \/ (tp = tp' /\ (lp < lp' \/ (lp = lp' /\ comp' < comp)))).
Proof. exact priority_lexicographic. Qed.
Print Assumptions C17_priority_lexicographic.

Theorem C17_priority_injective : forall tp lp comp tp' lp' comp',
  0 <= tp <= 126 -> 0 <= lp <= 65535 -> 1 <= comp <= 256 ->
  0 <= tp' <= 126 -> 0 <= lp' <= 65535 -> 1 <= comp' <= 256 ->
  Priority 0 tp lp comp = Priority 0 tp' lp' comp' -> tp = tp' /\ lp = lp' /\ comp = comp'.
Proof. exact priority_injective. Qed.
Print Assumptions C17_priority_injective.

(* whole candidates: the candidate with the greater computed type preference has the greater
   priority, whatever the local preferences and components -- for every configuration *)
Theorem C17_type_preference_dominates : forall ty nt tcp rp ha off comp ty' nt' tcp' rp' ha' off' comp',
  In ty cand_types -> In nt net_types -> In tcp tcp_types -> 0 <= off < 65536 -> 1 <= comp <= 256 ->
  In ty' cand_types -> In nt' net_types -> In tcp' tcp_types -> 0 <= off' < 65536 -> 1 <= comp' <= 256 ->
  TypePreference ty nt ha off < TypePreference ty' nt' ha' off' ->
  candidate_priority ty nt tcp rp ha off comp < candidate_priority ty' nt' tcp' rp' ha' off' comp'.
Proof. exact candidate_priority_type_dominates. Qed.
Print Assumptions C17_type_preference_dominates.

(* min*(2^32-1) + 2*max + (g > d), no overflow of uint64 *)
Theorem C17_pair_no_overflow : forall ctl l r,
  0 <= l < 2 ^ 32 -> 0 <= r < 2 ^ 32 ->
  PairPriority false 0 ctl l r = (if ctl then spec_pair_priority l r else spec_pair_priority r l)
  /\ 0 <= PairPriority false 0 ctl l r < 2 ^ 64.
Proof. exact pair_priority_spec. Qed.
Print Assumptions C17_pair_no_overflow.

Theorem C17_pair_monotone : forall ctl l l' r r',
  0 <= l -> l <= l' -> l' < 2 ^ 32 -> 0 <= r -> r <= r' -> r' < 2 ^ 32 ->
  PairPriority false 0 ctl l r <= PairPriority false 0 ctl l' r'.
Proof. exact pair_priority_monotone. Qed.
Print Assumptions C17_pair_monotone.

(* the same number on both agents for mirrored pairs, hence the same strict order *)
Theorem C17_pair_mirror : forall l r,
  0 <= l < 2 ^ 32 -> 0 <= r < 2 ^ 32 ->
  PairPriority false 0 true l r = PairPriority false 0 false r l.
Proof. exact pair_priority_mirror. Qed.
Print Assumptions C17_pair_mirror.

Theorem C17_pair_order_agrees : forall l1 r1 l2 r2,
  0 <= l1 < 2 ^ 32 -> 0 <= r1 < 2 ^ 32 -> 0 <= l2 < 2 ^ 32 -> 0 <= r2 < 2 ^ 32 ->
  (PairPriority false 0 true l1 r1 <? PairPriority false 0 true l2 r2) =
  (PairPriority false 0 false r1 l1 <? PairPriority false 0 false r2 l2).
Proof. exact pair_order_agrees. Qed.
Print Assumptions C17_pair_order_agrees.

(* "both sides order pairs identically" is a STRICT order on distinct priority combinations:
   with both candidate priorities in the valid range 0..2^31-1 (C17_range) the pair priority
   determines the local and the remote priority, so two pairs tie only when both coincide ... *)
Theorem C17_pair_priority_injective_on_valid_range : forall ctl l r l' r',
  0 <= l < 2 ^ 31 -> 0 <= r < 2 ^ 31 -> 0 <= l' < 2 ^ 31 -> 0 <= r' < 2 ^ 31 ->
  PairPriority false 0 ctl l r = PairPriority false 0 ctl l' r' -> l = l' /\ r = r'.
Proof. exact pair_priority_injective. Qed.
Print Assumptions C17_pair_priority_injective_on_valid_range.

Theorem C17_pair_priority_no_ties : forall ctl l r l' r',
  0 <= l < 2 ^ 31 -> 0 <= r < 2 ^ 31 -> 0 <= l' < 2 ^ 31 -> 0 <= r' < 2 ^ 31 ->
  (l, r) <> (l', r') ->
  PairPriority false 0 ctl l r < PairPriority false 0 ctl l' r' \/
  PairPriority false 0 ctl l' r' < PairPriority false 0 ctl l r.
Proof. exact pair_priority_no_ties. Qed.
Print Assumptions C17_pair_priority_no_ties.

(* both agents sort any two distinct pairs the same way, and strictly *)
Theorem C17_pair_order_strict_and_agreed : forall l1 r1 l2 r2,
  0 <= l1 < 2 ^ 31 -> 0 <= r1 < 2 ^ 31 -> 0 <= l2 < 2 ^ 31 -> 0 <= r2 < 2 ^ 31 ->
  (l1, r1) <> (l2, r2) ->
  (PairPriority false 0 true l1 r1 <? PairPriority false 0 true l2 r2) =
    negb (PairPriority false 0 true l2 r2 <? PairPriority false 0 true l1 r1) /\
  (PairPriority false 0 true l1 r1 <? PairPriority false 0 true l2 r2) =
    (PairPriority false 0 false r1 l1 <? PairPriority false 0 false r2 l2).
Proof. exact pair_order_strict_and_agreed. Qed.
Print Assumptions C17_pair_order_strict_and_agreed.

(* ... and the range is needed: as plain uint32 values (2^31, 0) and (1, 1) collide.  This is why
   C17_range (priority <= 2^31-1 for every configuration) matters for the pair order. *)
Theorem C17_pair_priority_collision_outside_range :
  PairPriority false 0 true (2 ^ 31) 0 = PairPriority false 0 true 1 1 /\ (2 ^ 31, 0) <> (1, 1).
Proof. exact pair_priority_collision_outside_range. Qed.
Print Assumptions C17_pair_priority_collision_outside_range.

(* foundations coincide exactly, up to checksum collisions, for equal (type, address, network type) *)
Theorem C17_foundation : forall (checksum : string -> N) ty ty' addr addr' nt nt',
  In ty cand_types -> In ty' cand_types -> ty <> 0 -> ty' <> 0 ->
  In nt net_types -> In nt' net_types ->
  foundation_with checksum "" ty addr nt = foundation_with checksum "" ty' addr' nt' ->
  (ty = ty' /\ addr = addr' /\ nt = nt') \/
  (foundation_input ty addr nt <> foundation_input ty' addr' nt' /\
   checksum (foundation_input ty addr nt) = checksum (foundation_input ty' addr' nt')).
Proof. exact foundation_eq_inv. Qed.
Print Assumptions C17_foundation.

(* the executable monitors (run on the implementation's observed values by bin/check) accept
   everything the generated code computes *)
Theorem C17_cand_monitor_sound : forall ty nt tcp rp has_agent off comp,
  C17_cand_monitor ty nt tcp rp has_agent off comp
    (TypePreference ty nt has_agent off)
    (LocalPreference ty nt tcp (relayProtocolPreference rp))
    (candidate_priority ty nt tcp rp has_agent off comp) = true.
Proof. exact cand_monitor_model. Qed.
Print Assumptions C17_cand_monitor_sound.

Theorem C17_pair_monitor_sound : forall ctl l r,
  C17_pair_monitor ctl l r (PairPriority false 0 ctl l r) = true.
Proof. exact pair_monitor_model. Qed.
Print Assumptions C17_pair_monitor_sound.

(* non-vacuity: a concrete non-trivial configuration meets the hypotheses *)
Example C17_example :
  candidate_priority 2 3 1 "udp" true 101 1 = 2 ^ 8 * (8192 * 4 + 8191) + 255 /\
  candidate_priority 1 1 0 "udp" true 27 1 = 2130706431.
Proof. split; vm_compute; reflexivity. Qed.
