(* C06: candidate and pair bookkeeping stays consistent; Restart leaves no residue.
   Statements only; proofs in Proofs/AgentC06.v.  PARTIAL: pair identifiers (unique, bounded by the
   counter, never reused -- also across Restart) and the wipes are theorems for every operation; the
   remaining clauses (no duplicate (local, remote) pair, pairs formed from current candidates, remote
   deduplication and filtering, peer-reflexive supersession) are decided by the extracted monitor
   C06.* on the implementation's observations and by the model/implementation correspondence.  The
   clause "no (local, remote) pair is listed twice" is refuted by one exotic history (known finding
   C06.no_duplicate_pairs.two_prflx_superseded; witness on the model: Findings/F_C06_two_prflx.v). *)
From Coq Require Import ZArith Bool List.
From Ice Require Import Model.AgentTypes Model.AgentCore Gen.Consts Proofs.AgentFrame Proofs.AgentC06 Proofs.AgentC03Sel Proofs.AgentLoc Proofs.AgentRem Proofs.AgentRemOK Proofs.AgentSupersede Proofs.AgentEnds.
Import ListNotations.
Local Open Scope Z_scope.

(* pair IDs are unique and bounded by the counter: an invariant of every operation, true initially *)
Theorem C06_pair_ids_unique : forall cfg o, sat (preserves InvU) (step_m cfg o).
Proof. exact step_preserves_InvU. Qed.
Print Assumptions C06_pair_ids_unique.

Theorem C06_pair_ids_unique_init : forall lu lp, InvU (init lu lp).
Proof. exact InvU_init. Qed.

(* the counter never decreases, not even across Restart or failure *)
Theorem C06_pair_counter_monotone : forall cfg o, sat (monotone s_next_pair) (step_m cfg o).
Proof. exact next_pair_id_monotone. Qed.
Print Assumptions C06_pair_counter_monotone.

(* every pair listed after an operation either carries the identifier of a pair listed before, or an
   identifier above every identifier handed out before: identifiers are never reused *)
Theorem C06_pair_ids_never_reused : forall cfg o, sat fresh_ids (step_m cfg o).
Proof. exact pair_ids_never_reused. Qed.
Print Assumptions C06_pair_ids_never_reused.

(* Restart and the Failed state leave no pairs, candidates, selection or outstanding transactions *)
Theorem C06_restart_leaves_no_residue : forall cfg lu lp s,
  s_closed s = false -> no_residue (fst (step cfg s (Restart lu lp))).
Proof. exact restart_leaves_no_residue. Qed.
Print Assumptions C06_restart_leaves_no_residue.

Theorem C06_failed_leaves_no_residue : forall s,
  s_conn s <> ConnectionStateFailed -> no_residue (fst (update_conn ConnectionStateFailed s)).
Proof. exact failed_leaves_no_residue. Qed.
Print Assumptions C06_failed_leaves_no_residue.

Theorem C06_restart_resets_credentials : forall cfg lu lp s,
  s_closed s = false ->
  let s' := fst (step cfg s (Restart lu lp)) in
  s_lufrag s' = lu /\ s_lpwd s' = lp /\ s_rufrag s' = 0 /\ s_rpwd s' = 0.
Proof. exact restart_resets_credentials. Qed.
Print Assumptions C06_restart_resets_credentials.

Example C06_example :
  let cfg := mkConfig false 5 7 5000000000 false 25000000000 0 0 0 0 0 [] false false 1 in
  let l := mkCand 1 1 1 (mkAddr false 167772161 5000) 0 2130706431 1 None in
  let r := mkCand 101 1 1 (mkAddr false 3232235777 6000) 0 2130706431 1 None in
  let s := fst (run cfg 1 1 [AddLocal l; AddRemote r; Start false 3 4; Restart 5 6; AddLocal l; AddRemote r]) in
  map p_id (s_checklist s) = [2] /\ s_next_pair s = 2.
Proof. vm_compute. split; reflexivity. Qed.

(* For every history: pair identifiers are unique and bounded by the counter, and the selected pair (if any)
   is one of the listed pairs *)
Theorem C06_ids_unique_and_selected_listed_all_histories : forall cfg lu lp ops,
  let s := fst (run cfg lu lp ops) in
  InvU s /\ (forall id, s_selected s = Some id -> exists p, In p (s_checklist s) /\ p_id p = id).
Proof. exact ids_unique_and_selected_listed. Qed.
Print Assumptions C06_ids_unique_and_selected_listed_all_histories.

(* For every history, while the agent is open: local candidates are pairwise different (a duplicate is refused)
   and every listed pair was formed from a CURRENT local candidate (the local half of "pairs are formed from
   the current candidate sets"; the remote half is monitored) *)
Theorem C06_pairs_from_current_locals_partial : forall cfg lu lp ops,
  let s := fst (run cfg lu lp ops) in
  s_closed s = false ->
  (forall a b, In a (s_locals s) -> In b (s_locals s) -> cand_equal a b = true -> a = b) /\
  Forall (fun p => In (p_loc p) (s_locals s)) (s_checklist s).
Proof. exact locals_distinct_and_pairs_from_locals. Qed.
Print Assumptions C06_pairs_from_current_locals_partial.

(* The remote half, per operation: while the agent is open, remote candidates keep distinct identities (handles)
   below the agent's own counter and every listed pair's remote candidate is a current one -- preserved by every
   operation that hands the agent a fresh candidate object / delivers a datagram of the socket's own family *)
Theorem C06_pairs_from_current_remotes_step : forall cfg s o, op_ok o s -> Rc s -> Rc (fst (step cfg s o)).
Proof. exact step_Rc. Qed.
Print Assumptions C06_pairs_from_current_remotes_step.

(* "Remote candidates are deduplicated, never include TCP-active candidates or addresses rejected by the remote IP
   filter (peer-reflexive discoveries included)": for EVERY history of the agent core, with no side condition. *)
Theorem C06_remotes_acceptable_and_deduplicated_all_histories : forall cfg lu lp ops,
  let s := fst (run cfg lu lp ops) in
  Forall (fun c => accepts_remote cfg c = true /\ c_tcp c <> TCPTypeActive) (s_remotes s) /\
  ForallOrdPairs (fun a b => cand_equal a b = false) (s_remotes s).
Proof. exact remotes_acceptable_and_deduplicated. Qed.
Print Assumptions C06_remotes_acceptable_and_deduplicated_all_histories.

(* the same, as an invariant of one operation from ANY state satisfying it *)
Theorem C06_remotes_invariant_step : forall cfg o s, RK cfg s -> RK cfg (fst (step cfg s o)).
Proof. intros cfg o s H. exact (proj2 (step_RK cfg o s H)). Qed.
Print Assumptions C06_remotes_invariant_step.

(* non-vacuity: a TCP-active candidate, a filtered address, a duplicate and a filtered peer-reflexive source are all
   refused; the accepted ones are there *)
Example C06_example_remote_filtering :
  let cfg := mkConfig false 5 7 5000000000 false 25000000000 2000000000 0 0 0 0 [3232235778] false false 1 in
  let l := mkCand 1 CandidateTypeHost NetworkTypeUDP4 (mkAddr false 167772161 5000) TCPTypeUnspecified 2130706431 1 None in
  let r h ip tcp := mkCand h CandidateTypeHost NetworkTypeUDP4 (mkAddr false ip 6000) tcp 2130706431 1 None in
  let req := mkMsg 0 1 77 (Some (1, 3)) (Some 2) false (Some (true, 9)) (Some 100) None None None in
  let s := fst (run cfg 1 2 [AddLocal l; Start false 3 4; AddRemote (r 2 3232235777 TCPTypeUnspecified);
                             AddRemote (r 3 3232235777 TCPTypeUnspecified); AddRemote (r 4 3232235778 TCPTypeUnspecified);
                             AddRemote (r 5 3232235779 TCPTypeActive);
                             InStun 1 (mkAddr false 3232235778 7000) req; InStun 1 (mkAddr false 3232235780 7000) req]) in
  map (fun c => a_ip (c_addr c)) (s_remotes s) = [3232235777; 3232235780].
Proof. vm_compute. reflexivity. Qed.

(* "when a signalled candidate supersedes a peer-reflexive one with the same transport address the affected pairs
   keep their ID, state, priority, statistics and selection": AddRemoteCandidate from EVERY state satisfying the two
   bookkeeping invariants (unique pair ids: every history, theorem above; remote handles distinct and every pair's
   remote a current one: C06_pairs_from_current_remotes_step).  The checklist afterwards is the old one, position by
   position, followed by fresh pairs (Waiting, not nominated, no counters) with the new candidate; each old pair keeps id, local candidate, role, state,
   nomination data, retransmission count, priority and all eight counters; its remote candidate is unchanged or -- only
   if it was peer-reflexive with the new candidate's transport address -- the new candidate; the selection is unchanged. *)
Theorem C06_supersede_keeps_pairs : forall cfg c s,
  InvU s -> Rm s ->
  let s' := fst (step cfg s (AddRemote c)) in
  s_selected s' = s_selected s /\
  exists keptl new, s_checklist s' = keptl ++ new /\ Forall2 (kept c) (s_checklist s) keptl /\
                    Forall (fun p => exists id l ctl, p = new_pair id l c ctl) new.
Proof. exact add_remote_keeps_pairs. Qed.
Print Assumptions C06_supersede_keeps_pairs.

(* non-vacuity: a peer-reflexive pair carrying a deferred nomination is superseded; id, flag and priority stay *)
Module C06_example_supersede.
  Definition cfg := mkConfig false 5 7 5000000000 false 25000000000 2000000000 0 0 0 0 [] false false 1.
  Definition l := mkCand 1 CandidateTypeHost NetworkTypeUDP4 (mkAddr false 167772161 5000) TCPTypeUnspecified 2130706431 1 None.
  Definition src := mkAddr false 3232235777 6000.
  Definition c := mkCand 2 CandidateTypeHost NetworkTypeUDP4 src TCPTypeUnspecified 2130706431 1 None.
  Definition req := mkMsg 0 1 77 (Some (1, 3)) (Some 2) true (Some (true, 9)) (Some 100) None None None.
  Definition s1 := fst (step cfg (init 1 2) (AddLocal l)).
  Definition s2 := fst (step cfg s1 (Start false 3 4)).
  Definition s := fst (step cfg s2 (InStun 1 src req)).
  Definition s' := fst (step cfg s (AddRemote c)).
  Example premises_hold : InvU s /\ Rm s.
  Proof.
    split.
    - unfold s, s2, s1, step. apply (C06_pair_ids_unique cfg (InStun 1 src req)). apply (C06_pair_ids_unique cfg (Start false 3 4)).
      apply (C06_pair_ids_unique cfg (AddLocal l)). apply C06_pair_ids_unique_init.
    - assert (H : Rc s).
      { unfold s, s2, s1. apply step_Rc; [intros l0 E; vm_compute in E; injection E as <-; reflexivity|].
        apply step_Rc; [exact I|]. apply step_Rc; [exact I|]. apply Rc_init. }
      destruct H as [H|H]; [vm_compute in H; discriminate H|exact H].
  Qed.
  Example superseded :
    map (fun p => (p_id p, c_typ (p_rem p), p_nom_on_succ p)) (s_checklist s) = [(1, CandidateTypePeerReflexive, true)] /\
    map (fun p => (p_id p, c_typ (p_rem p), p_nom_on_succ p)) (s_checklist s') = [(1, CandidateTypeHost, true)] /\
    map pair_priority (s_checklist s') = map pair_priority (s_checklist s).
  Proof. vm_compute. repeat split. Qed.
End C06_example_supersede.

(* "pair IDs ... keep addressing the same transport-address pair" and are "never reused": for every history that hands
   the agent fresh candidate objects and datagrams of the socket's own address family ([ops_ok]), and any two points
   of it: the pair listed under an ID at the later point has the same local candidate and the same remote network type
   and address as the pair listed under that ID at the earlier point -- across supersession, failure and Restart. *)
Theorem C06_pair_id_keeps_its_ends_all_histories : forall cfg lu lp ops1 ops2,
  ops_ok cfg (init lu lp) (ops1 ++ ops2) ->
  let s1 := fst (run cfg lu lp ops1) in
  let s2 := fst (run cfg lu lp (ops1 ++ ops2)) in
  forall p p', In p (s_checklist s1) -> In p' (s_checklist s2) -> p_id p' = p_id p ->
    p_loc p' = p_loc p /\ c_net (p_rem p') = c_net (p_rem p) /\ c_addr (p_rem p') = c_addr (p_rem p).
Proof. exact pair_id_keeps_its_ends. Qed.
Print Assumptions C06_pair_id_keeps_its_ends_all_histories.

(* one operation, from any state with unique pair ids (and, for AddRemoteCandidate, consistent remote bookkeeping) *)
Theorem C06_pair_id_keeps_its_ends_step : forall cfg s o,
  InvU s -> (match o with AddRemote _ => Rm s | _ => True end) ->
  let s' := fst (step cfg s o) in
  s_next_pair s <= s_next_pair s' /\
  forall p', In p' (s_checklist s') ->
    s_next_pair s < p_id p' \/ exists p, In p (s_checklist s) /\ p_id p = p_id p' /\ same_ends p p'.
Proof. exact step_E. Qed.
Print Assumptions C06_pair_id_keeps_its_ends_step.

(* non-vacuity: the supersession history above is admissible, and pair 1 exists before and after *)
Example C06_example_ends_admissible :
  ops_ok C06_example_supersede.cfg (init 1 2)
    [AddLocal C06_example_supersede.l; Start false 3 4; InStun 1 C06_example_supersede.src C06_example_supersede.req;
     AddRemote C06_example_supersede.c].
Proof.
  cbn [ops_ok op_ok]. repeat split;
    first [ intros l0 E; vm_compute in E; injection E as <-; reflexivity
          | vm_compute; reflexivity
          | vm_compute; intros [H|[]]; discriminate H
          | vm_compute; intros [] ].
Qed.
