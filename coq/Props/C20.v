(* C20: renomination -- the latest nomination wins on both sides.
   Statements only; proofs in Proofs/AgentC20.v (and C16 for the 24-bit codec).  Every theorem
   holds for EVERY agent state.  The quiescent two-agent agreement is checked on the two-agent
   harness (suite "pair") and stated for the two-agent model in Props/C01.v. *)
From Coq Require Import ZArith Bool List.
From Ice Require Import Model.AgentTypes Model.AgentCore Gen.Consts Proofs.AgentFrame Proofs.AgentC02 Proofs.AgentC20 Proofs.AgentEnds Proofs.AgentC20Hist Model.TwoAgents Model.TwoAgentsData Proofs.TwoAgentsDataProofs Proofs.TwoAgentsProjection Proofs.TwoAgentsC20.
Import ListNotations.
Local Open Scope Z_scope.

(* a controlled agent accepts a nomination value only if it is greater than the value accepted last
   (hence, by induction, than every value accepted before); an accepted value is recorded *)
Theorem C20_acceptance_rule : forall v k s,
  accept_nomination (Some v) k s =
  if nomination_fresh s v then (modify (set_s_last_nom (Some v)) ;; k true) s else k false s.
Proof. exact accept_nomination_spec. Qed.
Print Assumptions C20_acceptance_rule.

(* smaller or equal values never change the selection (nor the state, nor the recorded value) *)
Theorem C20_stale_value_never_switches : forall cfg m l r v s,
  m_nom m = Some v -> nomination_fresh s v = false ->
  let res := handle_request_controlled cfg m l r s in
  selection_view (fst res) = selection_view s /\ Forall no_selection_event (snd res).
Proof. exact stale_nomination_never_switches. Qed.
Print Assumptions C20_stale_value_never_switches.

(* an accepted value on an already valid pair selects that pair regardless of pair priorities *)
Theorem C20_switch_when_valid : forall cfg m l r v s p0,
  m_nom m = Some v -> nomination_fresh s v = true ->
  find_pair l r s = Some p0 -> pair_by_id (p_id p0) s = Some p0 ->
  p_state p0 = CandidatePairStateSucceeded ->
  s_selected (fst (handle_request_controlled cfg m l r s)) = Some (p_id p0).
Proof. exact fresh_nomination_on_valid_pair_selects. Qed.
Print Assumptions C20_switch_when_valid.

(* a nomination accepted before the pair was valid (deferred) wins, when the pair's own check
   succeeds, as long as its value is still the latest accepted one *)
Theorem C20_deferred_latest_nomination_wins : forall cfg m l r src s q rest p0 v,
  take_pending (m_tx m) (filter (fun q => since cfg s (q_ts q) <? maxBindingRequestTimeout) (s_pending s)) = Some (q, rest) ->
  response_symmetric q l src = true ->
  find_pair l r s = Some p0 -> pair_by_id (p_id p0) s = Some p0 ->
  p_nom_on_succ p0 = true -> p_nom_value p0 = Some v -> s_last_nom s = Some v ->
  s_selected (fst (handle_success_controlled cfg m l r src s)) = Some (p_id p0).
Proof. exact deferred_latest_nomination_wins. Qed.
Print Assumptions C20_deferred_latest_nomination_wins.

(* only a controlling agent with the feature enabled can renominate: otherwise nothing changes and
   nothing is sent *)
(* A deferred nomination is consumed when its pair becomes valid: whatever the outcome, afterwards no pair
   with that identifier still carries a pending nomination, so a later response on it cannot replay an older
   nomination against a newer one (the pinned code never reset the flag: repaired, see known_findings.json) *)
Theorem C20_deferred_nomination_consumed : forall cfg m l r src s q rest p0,
  take_pending (m_tx m) (filter (fun q => since cfg s (q_ts q) <? maxBindingRequestTimeout) (s_pending s)) = Some (q, rest) ->
  response_symmetric q l src = true ->
  find_pair l r s = Some p0 -> p_nom_on_succ p0 = true ->
  Forall (consumed (p_id p0)) (s_checklist (fst (handle_success_controlled cfg m l r src s))).
Proof. exact deferred_nomination_consumed. Qed.
Print Assumptions C20_deferred_nomination_consumed.

Theorem C20_only_controlling_with_feature : forall cfg l r v s,
  s_ctl s = false \/ cf_renomination cfg = false ->
  do_renominate cfg l r v s = (s, [ORet (if s_ctl s then RErrRenominationOff else RErrNotControlling)]).
Proof. exact renominate_needs_controlling_and_feature. Qed.
Print Assumptions C20_only_controlling_with_feature.

Theorem C20_renomination_request : forall cfg l r v s p,
  s_ctl s = true -> cf_renomination cfg = true -> find_pair l r s = Some p -> p_state p = CandidatePairStateSucceeded ->
  snd (do_renominate cfg l r v s) =
    [OSend (c_h (p_loc p)) (c_addr (p_rem p))
       (mkMsg 0 1 (s_next_tx s) (Some (s_rufrag s, s_lufrag s)) (Some (s_rpwd s)) true
              (Some (true, cf_tiebreaker cfg)) (Some (c_prio (p_loc p))) (if 0 <? v then Some v else None) None None);
     ORet ROk].
Proof. exact renominate_sends_value. Qed.
Print Assumptions C20_renomination_request.

(* a pair whose own check has not been answered cannot be (re)nominated through the API (repaired: afd0894) *)
Theorem C20_renomination_needs_valid_pair : forall cfg l r v s p,
  s_ctl s = true -> cf_renomination cfg = true -> find_pair l r s = Some p -> p_state p <> CandidatePairStateSucceeded ->
  do_renominate cfg l r v s = (s, [ORet RErrPairNotSucceeded]).
Proof. exact renominate_needs_valid_pair. Qed.
Print Assumptions C20_renomination_needs_valid_pair.

(* non-vacuity: a controlled agent on a valid low-priority pair, selected pair of higher priority:
   value 2 after 1 switches to the low-priority pair; value 1 again does not *)
Example C20_example :
  let cfg := mkConfig false 5 7 5000000000 false 25000000000 0 0 0 0 0 [] true false 1 in
  let l := mkCand 1 1 1 (mkAddr false 167772161 5000) 0 2130706431 1 None in
  let hi := mkAddr false 3232235777 6000 in
  let lo := mkAddr false 3232235778 6001 in
  let req tx src use nom prio := InStun 1 src (mkMsg 0 1 tx (Some (1, 3)) (Some 1) use (Some (true, 9)) (Some prio) nom None None) in
  let resp tx src := InStun 1 src (mkMsg 2 1 tx None (Some 4) false None None None None None) in
  let s := fst (run cfg 1 1 [AddLocal l; Start false 3 4;
                 req 2000001 hi false None 2000; resp 1 hi; req 2000002 lo false None 1000; resp 2 lo;
                 req 2000003 hi true (Some 1) 2000]) in
  s_selected s = Some 1 /\
  s_selected (fst (step cfg s (req 2000004 lo true (Some 2) 1000))) = Some 2 /\
  s_selected (fst (step cfg s (req 2000004 lo true (Some 1) 1000))) = Some 1.
Proof. vm_compute. repeat split. Qed.

(* ---- over histories ("in whatever order the requests arrive") --------------------------------------------------------
   [nom_rel R C s s']: the remembered value is unchanged, or it is now a value v, strictly greater than the one
   remembered in s (any value when none was), with C v -- or R.  One operation, from EVERY state: R = the operation
   (re)starts the selector (Start, Restart, a request carrying the receiver's own role, which may make it switch role);
   C v = the operation delivered a Binding request carrying nomination value v, authentic, to a controlled agent.
   No API call, tick, response, indication or data packet changes the value. *)
Theorem C20_nomination_value_step : forall cfg s o,
  nom_rel (restarts_selector s o) (accepted_value s o) s (fst (step cfg s o)).
Proof. exact step_nomination_value. Qed.
Print Assumptions C20_nomination_value_step.

(* any stretch of any history without a selector restart: the remembered value is what it was at the start of the
   stretch or a strictly greater value that one of the delivered Binding requests carried ... *)
Theorem C20_accepted_values_only_increase : forall cfg ops s, no_restart cfg s ops ->
  s_last_nom (runs cfg s ops) = s_last_nom s \/
  exists v, s_last_nom (runs cfg s ops) = Some v /\ nomination_fresh s v = true /\ value_of_request_in ops v.
Proof. exact accepted_values_only_increase. Qed.
Print Assumptions C20_accepted_values_only_increase.

(* ... hence a later state never remembers a smaller value than an earlier one (so, with C20_acceptance_rule, a value
   is accepted only if it exceeds EVERY value accepted before it in the stretch) *)
Theorem C20_last_nomination_monotone : forall cfg a b s,
  no_restart cfg s (a ++ b) -> nom_le (s_last_nom (runs cfg s a)) (s_last_nom (runs cfg s (a ++ b))).
Proof. exact last_nomination_monotone. Qed.
Print Assumptions C20_last_nomination_monotone.

(* ... and inside the two-agent system (projection, Props/C01.v): along any schedule of the composed system, over any stretch
   in which agent a's own operations do not restart its selector, the value a remembers never decreases -- whatever the
   network delivers, drops, duplicates or reorders *)
Theorem C20_system_last_nomination_monotone : forall cfga cfgb t a d ops1 ops2,
  let d1 := dsys_run cfga cfgb t d ops1 in
  no_restart (cfg_of cfga cfgb a) (agent_of a (d_sys d1)) (history_of cfga cfgb t a d1 ops2) ->
  nom_le (s_last_nom (agent_of a (d_sys d1)))
         (s_last_nom (agent_of a (d_sys (dsys_run cfga cfgb t d (ops1 ++ ops2))))).
Proof. exact system_last_nomination_monotone. Qed.
Print Assumptions C20_system_last_nomination_monotone.

(* non-vacuity: from the state of C20_example (value 1 accepted), values 3, 2, a tick, 7, 7 arrive: accepted 3, -, -, 7, - *)
Module C20_example_history.
  Definition cfg := mkConfig false 5 7 5000000000 false 25000000000 0 0 0 0 0 [] true false 1.
  Definition l := mkCand 1 1 1 (mkAddr false 167772161 5000) 0 2130706431 1 None.
  Definition hi := mkAddr false 3232235777 6000.
  Definition lo := mkAddr false 3232235778 6001.
  Definition req tx src use nom prio := InStun 1 src (mkMsg 0 1 tx (Some (1, 3)) (Some 1) use (Some (true, 9)) (Some prio) nom None None).
  Definition resp tx src := InStun 1 src (mkMsg 2 1 tx None (Some 4) false None None None None None).
  Definition s := fst (run cfg 1 1 [AddLocal l; Start false 3 4;
                 req 2000001 hi false None 2000; resp 1 hi; req 2000002 lo false None 1000; resp 2 lo;
                 req 2000003 hi true (Some 1) 2000]).
  Definition ops := [req 2000004 lo true (Some 3) 1000; req 2000005 hi true (Some 2) 2000; Tick; req 2000006 hi true (Some 7) 2000; req 2000007 lo true (Some 7) 1000].
  Example hypotheses_hold : no_restart cfg s ops.
  Proof.
    unfold ops, req; cbn [no_restart restarts_selector]. repeat split; match goal with |- ~ False => intros [] | |- _ => intros [tb H]; vm_compute in H; discriminate H end.
  Qed.
  Example values : (s_last_nom s, map (fun n => (s_last_nom (runs cfg s (firstn n ops)), s_selected (runs cfg s (firstn n ops)))) [1; 2; 3; 4; 5]%nat)
                   = (Some 1, [(Some 3, Some 2); (Some 3, Some 2); (Some 3, Some 2); (Some 7, Some 1); (Some 7, Some 1)]).
  Proof. vm_compute. reflexivity. Qed.
End C20_example_history.
