(* C04: connection state follows the documented lifecycle and liveness timing.
   Statements only; proofs in Proofs/AgentC04.v.  A history is WELL-FORMED (run_wf) when no inbound
   datagram is delivered before Start -- candidate sockets are not read before the agent is started
   (candidateBase.recvLoop waits for it). *)
From Coq Require Import ZArith Bool List.
From Ice Require Import Model.AgentTypes Model.AgentCore Model.AgentObs Model.AgentMonitors Gen.Consts Proofs.AgentC04 Proofs.AgentC04Hist.
Import ListNotations.
Local Open Scope Z_scope.

(* The states delivered to the callback are exactly the agent's transitions, in order, without
   consecutive repeats: for EVERY state and EVERY operation. *)
Theorem C04_notifications_are_transitions : forall cfg s o,
  let '(s', outs) := step cfg s o in
  chain_ok (fun x y => negb (x =? y)) (s_conn s) (outs_states outs) = true
  /\ last (outs_states outs) (s_conn s) = s_conn s'.
Proof. exact notifications_are_transitions. Qed.
Print Assumptions C04_notifications_are_transitions.

(* Every notified transition of every well-formed history is an edge of the documented graph
   (edge_ok): New->Checking; Checking->Connected|Failed; Connected<->Disconnected; Disconnected->Failed;
   Connected->Failed only when the disconnected timeout is 0; Connected|Disconnected|Failed->Checking only
   by Restart; anything->Closed; nothing after Closed. *)
Theorem C04_lifecycle_graph : forall cfg lufrag lpwd ops,
  0 <= cf_disc_timeout cfg -> 0 <= cf_failed_timeout cfg ->
  run_wf cfg (init lufrag lpwd) ops -> lifecycle_ok cfg (init lufrag lpwd) ops.
Proof.
  intros cfg lu lp ops Htd Htf H.
  exact (lifecycle_all_histories cfg ops Htd Htf (init lu lp) (InvL_init lu lp) (init_valid lu lp) H).
Qed.
Print Assumptions C04_lifecycle_graph.

(* one step from any state satisfying the lifecycle invariant (which every step preserves) *)
Theorem C04_lifecycle_step : forall cfg s o,
  InvL s -> valid_conn (s_conn s) -> wf_op s o ->
  0 <= cf_disc_timeout cfg -> 0 <= cf_failed_timeout cfg ->
  chain_ok (edge_ok cfg o) (s_conn s) (outs_states (snd (step cfg s o))) = true
  /\ InvL (fst (step cfg s o)) /\ valid_conn (s_conn (fst (step cfg s o))).
Proof.
  intros cfg s o HI Hv Hwf Htd Htf. split; [apply lifecycle_edges; assumption|].
  split; [apply step_preserves_InvL; assumption|apply step_valid_conn; assumption].
Qed.
Print Assumptions C04_lifecycle_step.

(* Connected / Disconnected are reported only while a selected pair exists: an invariant of every
   operation from every state (no well-formedness needed) that holds initially *)
Theorem C04_connected_needs_selection : forall cfg s o,
  InvSel s -> InvSel (fst (step cfg s o)).
Proof. exact step_preserves_InvSel. Qed.
Print Assumptions C04_connected_needs_selection.

Theorem C04_connected_needs_selection_init : forall lu lp, InvSel (init lu lp).
Proof. exact InvSel_init. Qed.

(* ... hence, with C03's invariant, for EVERY history: an open agent that is Connected or Disconnected has a selected
   pair, and that pair is listed, validated and nominated *)
Theorem C04_connected_means_validated_nominated_selection : forall cfg lu lp ops,
  let s := fst (run cfg lu lp ops) in
  s_closed s = false ->
  (s_conn s = ConnectionStateConnected \/ s_conn s = ConnectionStateDisconnected) ->
  exists id p, s_selected s = Some id /\ In p (s_checklist s) /\ p_id p = id /\
               p_state p = CandidatePairStateSucceeded /\ p_nominated p = true.
Proof. exact connected_means_validated_nominated_selection. Qed.
Print Assumptions C04_connected_means_validated_nominated_selection.

(* Failed is reported only after selection, pairs, transactions and candidates were released *)
Theorem C04_failed_after_release : forall cfg s,
  In ConnectionStateFailed (outs_states (snd (step cfg s Tick))) -> released (fst (step cfg s Tick)).
Proof. exact failed_after_release. Qed.
Print Assumptions C04_failed_after_release.

(* After each check tick the state is determined by how long the selected remote has been silent:
   Connected up to the disconnected timeout, Disconnected beyond it, Failed beyond disconnected+failed
   (zero disables either), Disconnected being reported before Failed.  [silence] is the time since the
   selected pair's remote was last heard from, for all durations. *)
Theorem C04_timing_selected_silence : forall cfg s sp,
  s_started s = true -> s_closed s = false ->
  selected_pair s = Some sp ->
  (s_conn s = ConnectionStateConnected \/ s_conn s = ConnectionStateDisconnected) ->
  0 <= cf_disc_timeout cfg -> 0 <= cf_failed_timeout cfg ->
  s_conn (fst (step cfg s Tick)) =
  spec_silence_state (cf_disc_timeout cfg) (cf_failed_timeout cfg) (s_conn s) (silence cfg s sp).
Proof. exact tick_selected_silence. Qed.
Print Assumptions C04_timing_selected_silence.

(* An agent that never selects a pair fails at the first tick later than the initial checking deadline *)
Theorem C04_timing_initial_deadline : forall cfg s,
  s_started s = true -> s_closed s = false ->
  selected_pair s = None -> s_conn s = ConnectionStateChecking ->
  let since_first_tick :=
      since cfg s (if s_tick_last s =? ConnectionStateChecking then s_tick_start s else s_now s) in
  s_conn (fst (step cfg s Tick)) =
  if negb (s_tick_timeout s =? 0) && (s_tick_timeout s <? since_first_tick)
  then ConnectionStateFailed else ConnectionStateChecking.
Proof. exact tick_initial_deadline. Qed.
Print Assumptions C04_timing_initial_deadline.

Theorem C04_checking_deadline_value : forall cfg,
  initial_checking_timeout cfg = spec_checking_deadline cfg.
Proof. exact checking_deadline_spec. Qed.
Print Assumptions C04_checking_deadline_value.

(* the generated Agent.connectionStateForDisconnection is the documented rule *)
Theorem C04_silence_rule_is_generated_code : forall td tf cur d,
  0 <= td -> 0 <= tf ->
  Gen.Lifecycle.connectionStateForDisconnection td cur d (if tf =? 0 then 0 else tf + td)
  = spec_silence_state td tf cur d.
Proof. exact silence_state_spec. Qed.
Print Assumptions C04_silence_rule_is_generated_code.

(* non-vacuity: a well-formed history that walks New -> Checking -> Connected -> Disconnected -> Failed,
   Restart -> Checking, Close -> Closed *)
Example C04_example_path :
  let cfg := mkConfig false 5 7 1000000000 true 2000000000 0 0 0 0 0 [] false false 1 in
  let l := mkCand 1 1 1 (mkAddr false 167772161 5000) 0 2130706431 1 None in
  let src := mkAddr false 3232235777 6000 in
  let req := mkMsg 0 1 2000001 (Some (1, 3)) (Some 1) true (Some (true, 9)) (Some 100) None None None in
  let resp := mkMsg 2 1 1 None (Some 4) false None None None None None in
  let ops := [AddLocal l; Start false 3 4; InStun 1 src req; InStun 1 src resp;
              Advance 1500000000; Tick; Advance 2000000000; Tick; Restart 7 8; Close] in
  run_wf cfg (init 1 1) ops /\
  flat_map (fun o => outs_states o) (snd (run cfg 1 1 ops)) = [2; 3; 6; 5; 2; 7].
Proof. vm_compute. repeat split. Qed.
