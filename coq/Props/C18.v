(* C18: gathering produces exactly the candidates the configuration allows.
   Only theorem statements, each closed by [exact <lemma>], with Print Assumptions.

   Model/GatherSpec.v   gather_model VARIANT cfg interfaces env  : the candidate descriptions
                        gatherCandidatesInternal produces (ports abstracted to specifications);
                        [pinned] models /repo as pinned, [repaired] the three proposed repairs
                        (findings/proposed/C18-*.diff).  Which variant /repo is, is decided on the
                        real code by the harness on every run and then checked case by case.
   Model/GatherStateCycle.v  the gathering-state machine as an interleaving system ([reach]).
   wf hypotheses        nts_ok: network types are the four known ones (sanitizeTransportNetworkTypes);
                        ifs_bytes_ok: address bytes are bytes; env_ok: the environment's STUN/TURN
                        servers report addresses of the family they were asked on and no link-local /
                        site-local / IPv4-compatible ones. *)
From Coq Require Import ZArith Bool String List.
From Ice Require Import Model.PrioSpec Model.GatherSpec Model.GatherStateCycle Gen.Names Gen.Prio
     Proofs.GatherSpecProofs Proofs.GatherStateCycleProofs Model.GatherMapped Proofs.GatherMappedProofs.
Import ListNotations.
Local Open Scope Z_scope.

(* ---- the interface pipeline (net.go localInterfaces) is sound and complete w.r.t. acceptance *)
Theorem C18_local_addrs_sound : forall c nts ifs a n,
  In (a, n) (local_addrs c nts ifs) -> accepted_addr c ifs a = true /\ fam_ok nts a = true.
Proof. intros; split; [eapply local_addrs_accepted | eapply local_addrs_family]; eauto. Qed.
Print Assumptions C18_local_addrs_sound.

Theorem C18_local_addrs_no_excluded_class : forall c nts ifs a n, ifs_bytes_ok ifs ->
  In (a, n) (local_addrs c nts ifs) -> v6_sitelocal a = false /\ v6_v4compatible a = false.
Proof. exact local_addrs_class. Qed.
Print Assumptions C18_local_addrs_no_excluded_class.

Theorem C18_local_addrs_complete : forall c nts ifs a,
  accepted_addr c ifs a = true -> fam_ok nts a = true ->
  (a6 a = true -> supported_v6_partial (ab a) = true) -> exists n, In (a, n) (local_addrs c nts ifs).
Proof. exact accepted_in_local_addrs. Qed.
Print Assumptions C18_local_addrs_complete.

(* isSupportedIPv6Partial = "not site-local and not IPv4-compatible" on 16-byte addresses *)
Theorem C18_supported_v6 : forall a, a6 a = true -> length (ab a) = 16%nat -> bytes_ok (ab a) ->
  supported_v6_partial (ab a) = negb (v6_sitelocal a) && negb (v6_v4compatible a).
Proof. exact supported_v6_classes. Qed.
Print Assumptions C18_supported_v6.

(* ---- the port scan (net.go listenUDPInPortRange), for EVERY random starting port: it returns a
   free port of the configured range whenever one exists, and fails otherwise *)
Theorem C18_port_scan : forall e b pmin pmax start,
  (let '(lo, hi) := eff_range pmin pmax in lo <= start <= hi) ->
  match snd (listen_in_range (look_of e b) pmin pmax start), listen_spec e b pmin pmax with
  | LEphemeral, Some PAny => True
  | LPort p, Some ps => port_ok ps p = true /\ e_busy e b p = false /\ ps = PRange (fst (eff_range pmin pmax)) (snd (eff_range pmin pmax))
  | LFail, None => True
  | _, _ => False
  end.
Proof. exact listen_refines. Qed.
Print Assumptions C18_port_scan.

(* ---- C18_sound, clause by clause, for every variant, configuration, interface table, environment *)
Theorem C18_sound_type : forall v c ifs e d, In d (gather_model v c ifs e) -> In (d_type d) (c_ctypes c).
Proof. exact model_type_enabled. Qed.
Print Assumptions C18_sound_type.

(* network type enabled (an empty list meaning all): FULL for the repaired variant ... *)
Theorem C18_sound_nettype_repaired : forall c ifs e d, nts_ok c -> env_ok e ->
  In d (gather_model repaired c ifs e) -> In (d_nt d) (eff_nts (c_ntypes c)).
Proof. intros c ifs e d Hc He. apply model_nettype_enabled; auto. Qed.
Print Assumptions C18_sound_nettype_repaired.

(* ... and PARTIAL for the pinned code: it needs the configured list to be a product
   families x transports (else gatherCandidatesLocal pairs an address of one entry's family with
   the transport of another entry: Findings/F_C18.v, cross_family_refuted) and the TURN server to
   allocate a relayed address of an enabled family (relay_family_refuted). *)
Theorem C18_sound_nettype_partial : forall c ifs e d, nts_ok c -> env_ok e ->
  product_nts (c_ntypes c) ->
  (forall r, e_relayed e = Some r -> In (nt_of TUdp (a6 r)) (eff_nts (c_ntypes c))) ->
  In d (gather_model pinned c ifs e) -> In (d_nt d) (eff_nts (c_ntypes c)).
Proof. intros c ifs e d Hc He Hp Hr. apply model_nettype_enabled; auto. Qed.
Print Assumptions C18_sound_nettype_partial.

Theorem C18_sound_addr_class : forall v c ifs e d a, ifs_bytes_ok ifs -> env_ok e ->
  In d (gather_model v c ifs e) -> d_pub d = true -> d_disp d = DIP a -> bad_class a = false.
Proof. exact model_addr_class. Qed.
Print Assumptions C18_sound_addr_class.

Theorem C18_sound_mdns : forall v c ifs e d, In d (gather_model v c ifs e) -> d_type d = 1 ->
  if c_mdns c then d_disp d = DName (c_mdns_name c) else exists a, d_disp d = DIP a.
Proof. exact model_mdns. Qed.
Print Assumptions C18_sound_mdns.

(* own sockets: accepted interface and address, port inside the configured range *)
Theorem C18_sound_host_socket : forall v c ifs e d,
  In d (gather_model v c ifs e) -> d_type d = 1 -> is_udp_nt (d_nt d) = true ->
  exists a, d_sock d = Some a /\ d_base d = None /\ accepted_addr c ifs a = true /\ a6 a = nt_is6 (d_nt d) /\
            (forall p, port_ok (d_port d) p = true -> in_cfg_range c p = true) /\
            (forall a', d_disp d = DIP a' -> a' = a).
Proof. exact model_host_socket. Qed.
Print Assumptions C18_sound_host_socket.

Theorem C18_sound_srflx_base : forall v c ifs e d,
  In d (gather_model v c ifs e) -> d_type d = 2 ->
  exists b ps, d_base d = Some (b, ps) /\ d_sock d = Some b /\
    (accepted_addr c ifs b = true \/ (is_unspec b = true /\ has_filters c = false)) /\
    (forall p, port_ok ps p = true -> in_cfg_range c p = true).
Proof. exact model_srflx_base. Qed.
Print Assumptions C18_sound_srflx_base.

(* ---- C18_complete: FULL for every variant that hands the effective network types to the host
   gatherer (the repaired one) ... *)
Theorem C18_complete_repaired : forall c ifs e a t, ifs_bytes_ok ifs ->
  In 1 (c_ctypes c) -> In a (all_addrs ifs) -> eligible c ifs a = true ->
  In (nt_of t (a6 a)) (eff_nts (c_ntypes c)) -> has_listener c e a t = true ->
  exists d, In d (gather_model repaired c ifs e) /\ d_type d = 1 /\ d_nt d = nt_of t (a6 a) /\
            d_disp d = host_disp c a /\ d_pub d = true.
Proof. intros c ifs e a t Hb. apply model_complete; auto. Qed.
Print Assumptions C18_complete_repaired.

(* ... and PARTIAL for the pinned code: only for a non-empty network-type list.  With the empty
   list (documented as "all") the pinned host gatherer produces nothing:
   Findings/F_C18.v, empty_network_types_refuted. *)
Theorem C18_complete_partial : forall c ifs e a t, ifs_bytes_ok ifs ->
  c_ntypes c <> [] ->
  In 1 (c_ctypes c) -> In a (all_addrs ifs) -> eligible c ifs a = true ->
  In (nt_of t (a6 a)) (eff_nts (c_ntypes c)) -> has_listener c e a t = true ->
  exists d, In d (gather_model pinned c ifs e) /\ d_type d = 1 /\ d_nt d = nt_of t (a6 a) /\
            d_disp d = host_disp c a /\ d_pub d = true.
Proof. intros c ifs e a t Hb Hne. apply model_complete; auto. Qed.
Print Assumptions C18_complete_partial.

(* ---- the monitor evaluated by bin/check on the implementation's observations accepts every
   observation that corresponds to the repaired model *)
Theorem C18_monitor_sound : forall c ifs e pub socks, nts_ok c -> env_ok e -> ifs_bytes_ok ifs ->
  corresponds (gather_model repaired c ifs e) pub socks = true ->
  all_ok (C18_gather_checks c ifs e pub socks) = true.
Proof. exact gather_monitor_sound. Qed.
Print Assumptions C18_monitor_sound.

(* ---- C18_cycle: every interleaving of API calls and gather goroutines (any number of either).
   [rc] = whether the addCandidate task re-checks its context (false in the pinned code). *)
Theorem C18_cycle_state_moves : forall rc s a s' r,
  reach rc s -> apply rc a s = Some (s', r) -> y_state s' <> y_state s ->
  (y_state s = 1 /\ y_state s' = 2 /\ exists k, a = ASetGathering k) \/
  (y_state s = 2 /\ y_state s' = 3 /\ exists k, a = ASetComplete k) \/
  (y_state s' = 1 /\ a = ARestart).
Proof. exact cycle_state_moves. Qed.
Print Assumptions C18_cycle_state_moves.

Theorem C18_cycle_refused : forall rc s s' r,
  y_state s <> 1 -> apply rc AGather s = Some (s', r) -> s' = s /\ (r = 1 \/ r = 3).
Proof. exact cycle_refused. Qed.
Print Assumptions C18_cycle_refused.

Theorem C18_cycle_no_overlap : forall rc s j k gj gk,
  reach rc s -> nth_error (y_gors s) j = Some gj -> nth_error (y_gors s) k = Some gk ->
  (g_cancelled gj = false -> g_cancelled gk = false -> j = k) /\
  (g_gen gj = g_gen gk -> (1 <= g_sets gj)%nat -> (1 <= g_sets gk)%nat -> j = k).
Proof. exact cycle_no_overlap. Qed.
Print Assumptions C18_cycle_no_overlap.

Theorem C18_cycle_one_nil : forall rc s j k gj gk,
  reach rc s -> nth_error (y_gors s) j = Some gj -> nth_error (y_gors s) k = Some gk ->
  (g_nils gj <= 1)%nat /\ (g_nils gj = 1%nat -> g_pc gj = 3%nat /\ g_sets gj = 2%nat) /\
  (g_gen gj = g_gen gk -> g_nils gj = 1%nat -> g_nils gk = 1%nat -> j = k).
Proof. exact cycle_one_nil. Qed.
Print Assumptions C18_cycle_one_nil.

Theorem C18_cycle_complete_has_nil : forall rc s, reach rc s -> y_state s = 3 ->
  exists k g, nth_error (y_gors s) k = Some g /\ g_gen g = y_gen s /\ g_nils g = 1%nat.
Proof. exact cycle_complete_has_nil. Qed.
Print Assumptions C18_cycle_complete_has_nil.

Theorem C18_cycle_restart : forall rc s s', apply rc ARestart s = Some (s', 0) ->
  y_state s' = 1 /\ y_gen s' = S (y_gen s) /\
  forall k g, nth_error (y_gors s') k = Some g -> g_cancelled g = true.
Proof. exact cycle_restart. Qed.
Print Assumptions C18_cycle_restart.

Theorem C18_cycle_cancelled_writes_dropped : forall rc s k g s' r,
  nth_error (y_gors s) k = Some g -> g_cancelled g = true ->
  (apply rc (ASetGathering k) s = Some (s', r) \/ apply rc (ASetComplete k) s = Some (s', r)) ->
  y_state s' = y_state s /\ y_gors s' = upd_gor (y_gors s) k (set_pc 3).
Proof. exact cycle_cancelled_writes_dropped. Qed.
Print Assumptions C18_cycle_cancelled_writes_dropped.

(* "a fresh cycle whose results are not mixed with the old one": PARTIAL.  Proved for the system
   in which the addCandidate task re-checks the gather context on the loop (rc = true), as
   setGatheringState does.  The pinned addCandidate checks ctx.Err() only before loop.Run, whose
   select may still take the send branch after a Restart: Findings/F_C18.v, stale_candidate_refuted
   (a candidate of the cancelled cycle lands in the new generation). *)
Theorem C18_cycle_not_mixed_partial : forall s, reach true s ->
  forall k gen, In (k, gen) (y_pubs s) -> exists g, nth_error (y_gors s) k = Some g /\ g_gen g = gen.
Proof. exact cycle_not_mixed. Qed.
Print Assumptions C18_cycle_not_mixed_partial.

(* the acceptor used for the scripted schedules only ever explores reachable states *)
Theorem C18_acceptor_sound : forall rc n op obs l, all_reach rc l -> all_reach rc (accept_op rc n op obs l).
Proof. exact accept_op_reach. Qed.
Print Assumptions C18_acceptor_sound.

(* non-vacuity *)
Example C18_example_gather :
  map (fun d => (d_nt d, d_pub d)) (gather_model repaired ex_cfg ex_ifs ex_env) = [(1, true); (2, true); (2, false)]
  /\ gather_model pinned ex_cfg ex_ifs ex_env = [].
Proof. exact example_repaired. Qed.
Example C18_example_cycle :
  exists s, reach true s /\ y_state s = 3 /\ y_gen s = 1%nat /\ y_pubs s = [(1%nat, 1%nat)] /\
            map g_nils (y_gors s) = [0%nat; 1%nat].
Proof. exact example_cycle. Qed.

(* ---- the mapped server-reflexive gatherer (address-rewrite rules of type server reflexive; Model/GatherMapped.v).
   The theorems above are about agents without such rules (the harness' gather cases configure none); this gatherer
   is modelled and exercised on its own (cases "gmapped": server-reflexive candidates only, no STUN/TURN URLs). *)

(* every candidate it produces: server reflexive with that type enabled, published, on a socket the agent opened on
   the wildcard address of an enabled UDP family, port and related port inside the configured range, not
   location-tracked *)
Theorem C18_mapped_sound : forall sk c e res d, nts_ok c ->
  In d (mapped_model sk c e res) ->
  d_type d = 2 /\ In 2 (c_ctypes c) /\ d_pub d = true /\
  exists is6 ps a, d_base d = Some (wild is6, ps) /\ d_sock d = Some (wild is6) /\ d_port d = ps /\ d_disp d = DIP a /\
    In (nt_of TUdp is6) (eff_nts (c_ntypes c)) /\ location_tracked a = false /\
    (res is6 <> None) /\ (forall p, port_ok ps p = true -> in_cfg_range c p = true).
Proof. exact mapped_sound. Qed.
Print Assumptions C18_mapped_sound.

(* a repaired gatherer (model parameter true) never publishes the unspecified address ... *)
Theorem C18_mapped_not_unspecified : forall c e res d a,
  In d (mapped_model true c e res) -> d_disp d = DIP a -> is_unspec a = false.
Proof. exact mapped_not_unspecified. Qed.
Print Assumptions C18_mapped_not_unspecified.

(* ... the pinned code does: when no server-reflexive rule matches the wildcard listen address the mapper answers with
   that address itself, and it is published as "0.0.0.0 <port> typ srflx" (known finding; not repaired because the
   repository's own TestGatherCandidatesSrflxMappedMissingExternalIPs asserts that candidate) *)
Theorem C18_mapped_unspecified_published_refuted :
  exists d, In d (mapped_model false (mex_cfg None) mex_env (fun _ => Some [wild false])) /\ d_pub d = true /\ d_disp d = DIP (wild false).
Proof. exact mapped_unspecified_published_refuted. Qed.
Print Assumptions C18_mapped_unspecified_published_refuted.

(* "sits on an interface and address accepted by the interface/IP filters": REFUTED for this gatherer -- its socket is
   bound to the wildcard address whatever the filters say (known finding; the STUN server-reflexive gatherer binds to
   the accepted addresses when filters are set: C18_sound_srflx_base) *)
Theorem C18_mapped_base_ignores_filters_refuted :
  let c := mex_cfg (Some (fun _ => false)) in
  exists d b ps, In d (mapped_model true c mex_env (fun _ => Some [mex_ext])) /\ has_filters c = true /\
                 d_base d = Some (b, ps) /\ is_unspec b = true /\ accepted_addr c [] b = false.
Proof. exact mapped_base_ignores_filters_refuted. Qed.
Print Assumptions C18_mapped_base_ignores_filters_refuted.

(* the monitor accepts whatever corresponds to the repaired model, for the checks named in [sound_checks] (the filter
   clause is violated by design; equality of port and related port is not recorded by the correspondence relation) *)
Theorem C18_mapped_monitor_sound_partial : forall c ifs e res pub socks, nts_ok c ->
  corresponds (mapped_model true c e res) pub socks = true ->
  forall n, In n sound_checks -> ~ In n (failed (C18_mapped_checks c ifs pub socks)).
Proof. exact mapped_monitor_sound_partial. Qed.
Print Assumptions C18_mapped_monitor_sound_partial.

(* ---- the UDP-mux host gatherer (gatherCandidatesLocalUDPMux; cases "gudpmux": host candidates only, a UDP mux) *)

(* repaired gatherer (66d9e78, bc8bb76): every candidate is a host candidate (that type enabled) of an ENABLED UDP
   network type -- the family of the mux's listen address, also behind an mDNS name -- on a connection borrowed from
   the mux, with the port of the listen address *)
Theorem C18_udpmux_sound : forall c addrs d,
  In d (udpmux_model true c addrs) ->
  d_type d = 1 /\ In 1 (c_ctypes c) /\ In (d_nt d) (eff_nts (c_ntypes c)) /\ d_sock d = None /\ d_base d = None /\
  exists a port, In (a, port) addrs /\ d_port d = PExact port /\ d_disp d = host_disp c a /\ d_nt d = nt_of TUdp (a6 a).
Proof. exact udpmux_sound. Qed.
Print Assumptions C18_udpmux_sound.

(* the pinned gatherer published candidates of a network type that is not enabled (finding, repaired) *)
Theorem C18_udpmux_disabled_family_refuted :
  let c := mkCfg [1] [1] 0 0 true false EmptyString None None false [] in
  let v6 := mkAddr true [0;0;0;0;0;0;0;0;0;0;0;0;0;0;0;1] in
  exists d, In d (udpmux_model false c [(v6, 7000)]) /\ d_pub d = true /\ ~ In (d_nt d) (eff_nts (c_ntypes c)).
Proof. exact udpmux_disabled_family_refuted. Qed.
Print Assumptions C18_udpmux_disabled_family_refuted.
