(* C07: application data travels only over validated pairs and only from known peers.
   Statements only; proofs in Proofs/AgentC07.v.  Payloads are opaque tokens (identity, length,
   STUN-shaped or not): "unmodified" is identity of the token; packetio.Buffer is assumed FIFO. *)
From Coq Require Import ZArith Bool List.
From Ice Require Import Model.AgentTypes Model.AgentCore Model.AgentObs Model.AgentMonitors Gen.Consts
     Proofs.AgentFrame Proofs.AgentC07 Proofs.AgentC06 Proofs.AgentC03Sel Proofs.AgentRem Proofs.AgentEnds Proofs.AgentSentStats Proofs.AgentRecvStats Model.PairMonitor Model.TwoAgents Model.TwoAgentsData Proofs.TwoAgentsDataProofs Proofs.AgentC07Valid Proofs.TwoAgentsProofs Proofs.TwoAgentsReach Proofs.TwoAgentsDataReach.
Import ListNotations.
Local Open Scope Z_scope.

(* Conn.Write, for every state: one datagram on the selected pair's local socket to that pair's remote
   address (before selection: the best validated pair; none: error, nothing sent); STUN refused.
   [write_result pr p cc s] = the datagram [OData (socket of pr) (remote address of pr) p], the counters of
   [wrote], result nil -- or, when the socket refuses the send ([pl_refused p], an injected fault), no
   datagram, no counter change, result nil *)
Theorem C07_write_path : forall p s,
  conn_write p s =
  if s_closed s then (s, [ORet RErrClosed])
  else if pl_stun p then (s, [ORet RErrStunPayload])
  else match write_target s with
       | Some pr => write_result pr p true s
       | None => (s, [ORet RErrNoPairs])
       end.
Proof. exact conn_write_spec. Qed.
Print Assumptions C07_write_path.

Theorem C07_best_validated_pair : forall s r,
  best_valid s = Some r ->
  In r (s_checklist s) /\ p_state r = CandidatePairStateSucceeded /\
  forall q, In q (s_checklist s) -> p_state q = CandidatePairStateSucceeded -> pair_priority q <= pair_priority r.
Proof. exact best_valid_spec. Qed.
Print Assumptions C07_best_validated_pair.

Theorem C07_write_to_pair : forall id p s,
  conn_write_to_pair id p s =
  if s_closed s then (s, [ORet RErrClosed])
  else if pl_stun p then (s, [ORet RErrStunPayload])
  else match pair_by_id id s with
       | None => (s, [ORet RErrPairNotFound])
       | Some pr => if p_state pr =? CandidatePairStateSucceeded
                    then write_result pr p false s
                    else (s, [ORet RErrPairNotSucceeded])
       end.
Proof. exact conn_write_to_pair_spec. Qed.
Print Assumptions C07_write_to_pair.

(* inbound non-STUN data reaches the reader only from a validated source / known remote candidate of
   the receiving candidate's transport; everything else is discarded without any effect *)
Theorem C07_unknown_source_discarded : forall l src p s,
  data_accepted l src p s = false -> inbound_data l src p s = (s, []).
Proof. exact inbound_data_discarded. Qed.
Print Assumptions C07_unknown_source_discarded.

Theorem C07_accepted_queued_once_unmodified : forall l src p s,
  data_accepted l src p s = true ->
  s_buf (fst (inbound_data l src p s)) = s_buf s ++ [p] /\ snd (inbound_data l src p s) = [].
Proof. exact inbound_data_accepted. Qed.
Print Assumptions C07_accepted_queued_once_unmodified.

Theorem C07_read_fifo : forall s,
  conn_read s =
  if s_closed s then (s, [ORet RErrClosed])
  else match s_buf s with
       | [] => (s, [ORet RWouldBlock])
       | p :: t => (set_s_bytes_recv (s_bytes_recv s + pl_len p) (set_s_buf t s), [ODeliver p])
       end.
Proof. exact conn_read_spec. Qed.
Print Assumptions C07_read_fifo.

(* the reader never yields STUN traffic: an invariant of every operation, true initially *)
Theorem C07_queue_never_holds_stun : forall cfg o, sat (preserves InvBuf) (step_m cfg o).
Proof. exact step_preserves_InvBuf. Qed.
Print Assumptions C07_queue_never_holds_stun.

Theorem C07_reader_never_yields_stun : forall cfg s,
  InvBuf s -> forall p, In (ODeliver p) (snd (step cfg s Read)) -> pl_stun p = false.
Proof. exact read_never_yields_stun. Qed.
Print Assumptions C07_reader_never_yields_stun.

(* byte counters: only Write and Read move them, by exactly the payload bytes accepted / returned *)
Theorem C07_counters_only_by_write_and_read : forall cfg o,
  match o with Write _ | Read => True | _ => sat (frame counters) (step_m cfg o) end.
Proof. exact counters_only_by_write_and_read. Qed.
Print Assumptions C07_counters_only_by_write_and_read.

Theorem C07_write_counts_payload_bytes : forall cfg p s,
  let '(s', outs) := step cfg s (Write p) in
  s_bytes_recv s' = s_bytes_recv s /\
  s_bytes_sent s' = s_bytes_sent s + (if existsb (fun o => match o with OData _ _ _ => true | _ => false end) outs
                                       then Z.max 0 (pl_len p) else 0).
Proof. exact write_counts_payload_bytes. Qed.
Print Assumptions C07_write_counts_payload_bytes.

Theorem C07_read_counts_returned_bytes : forall cfg s,
  let '(s', outs) := step cfg s Read in
  s_bytes_sent s' = s_bytes_sent s /\
  s_bytes_recv s' = s_bytes_recv s + fold_left (fun a p => a + pl_len p) (outs_delivered outs) 0.
Proof. exact read_counts_returned_bytes. Qed.
Print Assumptions C07_read_counts_returned_bytes.

Example C07_example :
  let cfg := mkConfig false 5 7 1000000000 true 2000000000 0 0 0 0 0 [] false false 1 in
  let l := mkCand 1 1 1 (mkAddr false 167772161 5000) 0 2130706431 1 None in
  let r := mkCand 101 1 1 (mkAddr false 3232235777 6000) 0 2130706431 1 None in
  let src := mkAddr false 3232235777 6000 in
  let other := mkAddr false 3232235999 6000 in
  let s := fst (run cfg 1 1 [AddLocal l; AddRemote r; Start false 3 4]) in
  data_accepted l src (mkPayload 1 100 false) s = true /\
  data_accepted l other (mkPayload 1 100 false) s = false /\
  data_accepted l src (mkPayload 1 100 true) s = false.
Proof. vm_compute. repeat split. Qed.

(* "while one pair stays selected that pair's packet and byte counters equal the same tallies" (sending side).
   One operation (any but WriteToPair, which by design does not count on the connection), from any state with unique
   pair ids whose selected pair p is listed: if a pair is still listed under that id afterwards, the connection's
   sent-byte counter and the pair's moved by the same amount, and the pair's packet counter by one exactly when that
   amount is positive. *)
Theorem C07_selected_pair_counters_step : forall cfg s o id p,
  InvU s -> (match o with AddRemote _ => Rm s | _ => True end) -> not_write_to_pair o ->
  s_selected s = Some id -> In p (s_checklist s) -> p_id p = id ->
  let s' := fst (step cfg s o) in
  forall p', In p' (s_checklist s') -> p_id p' = id ->
    s_bytes_sent s' - s_bytes_sent s = p_bytes_sent p' - p_bytes_sent p /\
    p_pkts_sent p' - p_pkts_sent p = (if 0 <? s_bytes_sent s' - s_bytes_sent s then 1 else 0).
Proof. exact step_sent_sync. Qed.
Print Assumptions C07_selected_pair_counters_step.

(* Over any stretch of an admissible history during which one pair stays selected (checked after every operation)
   and only Conn.Write sends: bytes counted by the connection = bytes counted on that pair. *)
Theorem C07_selected_pair_sent_bytes_track : forall cfg ops s id p,
  G s -> Rc s -> ops_ok cfg s ops -> Forall not_write_to_pair ops -> sel_always cfg s ops id ->
  In p (s_checklist s) -> p_id p = id ->
  exists p', In p' (s_checklist (runs cfg s ops)) /\ p_id p' = id /\
             s_bytes_sent (runs cfg s ops) - s_bytes_sent s = p_bytes_sent p' - p_bytes_sent p.
Proof. exact selected_pair_sent_bytes_track. Qed.
Print Assumptions C07_selected_pair_sent_bytes_track.

(* non-vacuity: a controlled agent with a validated, nominated, selected pair; two writes and a tick in between *)
Module C07_example_selected_pair.
  Definition cfg := mkConfig false 5 7 5000000000 false 25000000000 2000000000 0 0 0 0 [] false false 1.
  Definition l := mkCand 1 CandidateTypeHost NetworkTypeUDP4 (mkAddr false 167772161 5000) TCPTypeUnspecified 2130706431 1 None.
  Definition src := mkAddr false 3232235777 6000.
  Definition r := mkCand 2 CandidateTypeHost NetworkTypeUDP4 src TCPTypeUnspecified 2130706431 1 None.
  Definition req := mkMsg 0 1 77 (Some (1, 3)) (Some 2) true (Some (true, 9)) (Some 100) None None None.
  Definition resp := mkMsg 2 1 1 None (Some 4) false None None None None (Some (mkAddr false 167772161 5000)).
  Definition setup := [AddLocal l; AddRemote r; Start false 3 4; InStun 1 src req; InStun 1 src resp].
  Definition s := runs cfg (init 1 2) setup.
  Definition ops := [Write (mkPayload 1 100 false); Tick; Write (mkPayload 2 50 false)].
  Example setup_admissible : ops_ok cfg (init 1 2) (setup ++ ops).
  Proof.
    cbn [ops_ok op_ok setup ops app]. repeat split;
      first [ intros l0 E; vm_compute in E; injection E as <-; reflexivity
            | vm_compute; reflexivity
            | vm_compute; intros [H|[]]; discriminate H
            | vm_compute; intros [] ].
  Qed.
  Example hypotheses_hold :
    G s /\ Rc s /\ ops_ok cfg s ops /\ Forall not_write_to_pair ops /\ sel_always cfg s ops 1 /\
    exists p, In p (s_checklist s) /\ p_id p = 1.
  Proof.
    destruct (ops_ok_app cfg setup (init 1 2) ops setup_admissible) as [H1 H2].
    destruct (runs_E cfg setup (init 1 2) (AgentC06.InvU_init 1 2) (Rc_init 1 2) H1) as [_ [HU HR]].
    split; [|split; [exact HR|split; [exact H2|split; [repeat constructor|split]]]].
    - unfold s, runs, setup. cbn [fold_left]. repeat apply step_G. apply G_init.
    - vm_compute. repeat split.
    - vm_compute. eexists. split; [left; reflexivity|reflexivity].
  Qed.
  Example counters_after : (s_bytes_sent (runs cfg s ops), map (fun p => (p_id p, p_bytes_sent p, p_pkts_sent p)) (s_checklist (runs cfg s ops))) = (150, [(1, 150, 2)]).
  Proof. vm_compute. reflexivity. Qed.
End C07_example_selected_pair.

(* ---- the receiving side of the pair counters.  [taken s] = bytes handed to Conn.Read so far + bytes waiting in the
   reader's queue: what the connection has taken in.  One operation from a state whose selected pair is listed: the
   intake and that pair's received bytes move by the same amount (the length of an accepted datagram, else 0), one
   received packet per non-empty accepted datagram; payload lengths are not negative ([payload_ok]). *)
Theorem C07_selected_pair_recv_step : forall cfg s o id p,
  InvU s -> (match o with AddRemote _ => AgentRem.Rm s | _ => True end) -> payload_ok o ->
  s_selected s = Some id -> In p (s_checklist s) -> p_id p = id ->
  let s' := fst (step cfg s o) in
  forall p', In p' (s_checklist s') -> p_id p' = id ->
    taken s' - taken s = p_bytes_recv p' - p_bytes_recv p /\
    p_pkts_recv p' - p_pkts_recv p = (if 0 <? taken s' - taken s then 1 else 0).
Proof. exact step_recv_sync. Qed.
Print Assumptions C07_selected_pair_recv_step.

(* over any stretch of an admissible history during which one pair stays selected *)
Theorem C07_selected_pair_recv_bytes_track : forall cfg ops s id p,
  G s -> Rc s -> ops_ok cfg s ops -> Forall payload_ok ops -> sel_always cfg s ops id ->
  In p (s_checklist s) -> p_id p = id ->
  exists p', In p' (s_checklist (runs cfg s ops)) /\ p_id p' = id /\
             taken (runs cfg s ops) - taken s = p_bytes_recv p' - p_bytes_recv p.
Proof. exact selected_pair_recv_bytes_track. Qed.
Print Assumptions C07_selected_pair_recv_bytes_track.

(* non-vacuity: the state of C07_example_selected_pair; three datagrams arrive (100 bytes, empty, 50 bytes from the
   peer; 70 bytes from a stranger are discarded), one is read in between *)
Module C07_example_received.
  Import C07_example_selected_pair.
  Definition stranger := mkAddr false 3232235999 7000.
  Definition rops := [InData 1 src (mkPayload 1 100 false); InData 1 src (mkPayload 2 0 false); Read;
                      InData 1 stranger (mkPayload 3 70 false); InData 1 src (mkPayload 4 50 false)].
  Example hypotheses_hold :
    ops_ok cfg s rops /\ Forall payload_ok rops /\ sel_always cfg s rops 1.
  Proof.
    split; [cbn [ops_ok op_ok rops]; repeat split|]. split; [repeat constructor; cbn; discriminate|]. vm_compute. repeat split.
  Qed.
  Example counters_after :
    (taken (runs cfg s rops) - taken s, s_bytes_recv (runs cfg s rops), map pl_id (s_buf (runs cfg s rops)),
     map (fun p => (p_id p, p_bytes_recv p, p_pkts_recv p)) (s_checklist (runs cfg s rops))) = (150, 100, [2; 4], [(1, 150, 2)]).
  Proof. vm_compute. reflexivity. Qed.
End C07_example_received.

(* "Application data travels only over validated pairs", for EVERY history: whatever datagram the next operation
   writes goes from the local socket of a listed, validated (Succeeded) pair to that pair's remote address. *)
Theorem C07_data_only_over_validated_pairs_all_histories : forall cfg lu lp ops o lh dst q,
  let s := fst (run cfg lu lp ops) in
  In (OData lh dst q) (snd (step cfg s o)) ->
  exists pr, In pr (s_checklist s) /\ p_state pr = CandidatePairStateSucceeded /\
             lh = c_h (p_loc pr) /\ dst = c_addr (p_rem pr).
Proof. exact data_only_over_validated_pairs. Qed.
Print Assumptions C07_data_only_over_validated_pairs_all_histories.

(* ---- across two agents (Model/TwoAgentsData.v: the two-agent system of C01 with application datagrams routed like
   STUN ones and delivered, dropped or duplicated at will): "arrives unmodified ... at the peer's reader" and nothing
   else does.  After ANY schedule every payload in a reader's queue -- hence whatever Conn.Read yields next
   (C07_read_fifo) -- and every application datagram in flight is a payload the peer handed to Write / WriteToPair. *)
Theorem C07_reader_only_holds_what_the_peer_wrote : forall cfga cfgb t lua lpa lub lpb ops,
  let d := dsys_run cfga cfgb t (dsys_init lua lpa lub lpb) ops in
  (forall p, In p (s_buf (sy_a (d_sys d))) -> In p (written_by false ops)) /\
  (forall p, In p (s_buf (sy_b (d_sys d))) -> In p (written_by true ops)) /\
  (forall f, In f (d_net d) -> In (d_pl f) (written_by (negb (d_to_a f)) ops)).
Proof. exact reader_only_holds_what_the_peer_wrote. Qed.
Print Assumptions C07_reader_only_holds_what_the_peer_wrote.

(* ... and it travels only where connectivity was verified: between two full agents, over any topology and under every
   admissible schedule (remote candidates handed over are fresh objects; API calls, ticks, STUN and data deliveries,
   drops and duplications in any order), every application datagram in flight -- hence every datagram a reader is ever
   handed -- goes to a socket from an address that reach each other in BOTH directions
   ([dflight_ok t f]: receiver socket [d_lh f] and sender address [d_src f] are the two ends of a link of [t] that
   is up both ways) *)
Theorem C07_data_travels_only_between_bidirectionally_reachable_endpoints : forall cfga cfgb t lua lpa lub lpb ops,
  cf_lite cfga = false -> cf_lite cfgb = false -> topo_wf t ->
  dsys_run_ok cfga cfgb t (dsys_init lua lpa lub lpb) ops ->
  Forall (dflight_ok t) (d_net (dsys_run cfga cfgb t (dsys_init lua lpa lub lpb) ops)).
Proof. exact data_travels_only_between_bidirectionally_reachable_endpoints. Qed.
Print Assumptions C07_data_travels_only_between_bidirectionally_reachable_endpoints.

(* single operations: a written datagram carries exactly the payload given to Write; the reader's queue grows only by
   the datagram just delivered; only Read delivers, and from the queue *)
Theorem C07_writes_are_unmodified : forall cfg o s,
  Forall (fun x => match x with OData _ _ q => data_of_op o = Some q | _ => True end) (snd (step cfg s o)).
Proof. intros cfg o s. exact (writes_are_unmodified cfg o s). Qed.
Print Assumptions C07_writes_are_unmodified.

Theorem C07_queue_and_read : forall cfg s o,
  incl (s_buf (fst (step cfg s o))) (s_buf s ++ extra_of o) /\
  (forall p, In (ODeliver p) (snd (step cfg s o)) -> In p (s_buf s)).
Proof. exact step_queue. Qed.
Print Assumptions C07_queue_and_read.

(* non-vacuity: the two agents of the C01 example connect; A writes, the datagram is duplicated in the network and both
   copies arrive: B's reader holds the payload twice ("once per delivered datagram") and nothing else *)
Module C07_example_pair.
  Definition cfg t := mkConfig false t 7 5000000000 false 25000000000 0 0 0 0 0 [] false false 1.
  Definition aA := mkAddr false 167772161 5000.
  Definition aB := mkAddr false 3232235777 6000.
  Definition la := mkCand 1 1 1 aA 0 2130706431 1 None.
  Definition lb := mkCand 1 1 1 aB 0 2130706431 1 None.
  Definition topo := mkTopology [mkEndpoint 1 aA] [mkEndpoint 1 aB] [[(true, true)]].
  Definition connect :=
    map DSys [SApi true (AddLocal la); SApi false (AddLocal lb); SApi true (Start true 3 4); SApi false (Start false 1 2);
     SApi true (AddRemote (set_c_h 2 lb)); SApi false (AddRemote (set_c_h 2 la));
     SApi true Tick; SDeliver 0; SDeliver 0; SApi false Tick; SDeliver 0; SDeliver 0;
     SApi true (Advance 200000000); SApi true Tick; SDeliver 0; SDeliver 0; SDeliver 0; SDeliver 0;
     SApi true (Advance 200000000); SApi true Tick; SDeliver 0; SDeliver 0; SDeliver 0; SDeliver 0].
  Definition pl := mkPayload 1 100 false.
  Definition ops := connect ++ [DSys (SApi true (Write pl)); DDup 0; DDeliver 0; DDeliver 0].
  Example delivered_twice :
    let d := dsys_run (cfg 5) (cfg 6) topo (dsys_init 1 2 3 4) ops in
    s_buf (sy_b (d_sys d)) = [pl; pl] /\ d_net d = [] /\ written_by true ops = [pl].
  Proof. vm_compute. repeat split. Qed.
  (* the reachability theorem's hypotheses hold on this run, and two datagrams are in flight when it applies *)
  Definition ops_flight := connect ++ [DSys (SApi true (Write pl)); DDup 0].
  Example flight_hypotheses_hold :
    topo_wf topo /\ dsys_run_ok (cfg 5) (cfg 6) topo (dsys_init 1 2 3 4) ops_flight /\
    length (d_net (dsys_run (cfg 5) (cfg 6) topo (dsys_init 1 2 3 4) ops_flight)) = 2%nat.
  Proof.
    split; [split; intros i Hi; (destruct i as [|i]; [split; reflexivity|cbn in Hi; exfalso; inversion Hi as [|? Hi']; inversion Hi'])|].
    split; [|vm_compute; reflexivity].
    vm_compute. repeat split; try (intros [] ; discriminate); try (intros l El; injection El as <-; reflexivity);
      try (intros l El; discriminate El); try (intros H; destruct H as [H|[]]; discriminate H); try (intros []).
  Qed.
End C07_example_pair.
