(* C07: application data travels only over validated pairs and only from known peers.
   Statements only; proofs in Proofs/AgentC07.v.  Payloads are opaque tokens (identity, length,
   STUN-shaped or not): "unmodified" is identity of the token; packetio.Buffer is assumed FIFO. *)
From Coq Require Import ZArith Bool List.
From Ice Require Import Model.AgentTypes Model.AgentCore Model.AgentObs Model.AgentMonitors Gen.Consts
     Proofs.AgentFrame Proofs.AgentC07.
Import ListNotations.
Local Open Scope Z_scope.

(* Conn.Write, for every state: one datagram on the selected pair's local socket to that pair's remote
   address (before selection: the best validated pair; none: error, nothing sent); STUN refused.
   [write_result pr p cc s] = the datagram [OData (socket of pr) (remote address of pr) p], the counters of
   [wrote], result nil -- or, when the socket refuses the send ([pl_refused p], an injected fault), no
   datagram, no counter change, result nil *)
Theorem C07_write_path : forall p s,
  conn_write p s =
  if s_closed s then (s, [ORet RErrClosed])
  else if pl_stun p then (s, [ORet RErrStunPayload])
  else match write_target s with
       | Some pr => write_result pr p true s
       | None => (s, [ORet RErrNoPairs])
       end.
Proof. exact conn_write_spec. Qed.
Print Assumptions C07_write_path.

Theorem C07_best_validated_pair : forall s r,
  best_valid s = Some r ->
  In r (s_checklist s) /\ p_state r = CandidatePairStateSucceeded /\
  forall q, In q (s_checklist s) -> p_state q = CandidatePairStateSucceeded -> pair_priority q <= pair_priority r.
Proof. exact best_valid_spec. Qed.
Print Assumptions C07_best_validated_pair.

Theorem C07_write_to_pair : forall id p s,
  conn_write_to_pair id p s =
  if s_closed s then (s, [ORet RErrClosed])
  else if pl_stun p then (s, [ORet RErrStunPayload])
  else match pair_by_id id s with
       | None => (s, [ORet RErrPairNotFound])
       | Some pr => if p_state pr =? CandidatePairStateSucceeded
                    then write_result pr p false s
                    else (s, [ORet RErrPairNotSucceeded])
       end.
Proof. exact conn_write_to_pair_spec. Qed.
Print Assumptions C07_write_to_pair.

(* inbound non-STUN data reaches the reader only from a validated source / known remote candidate of
   the receiving candidate's transport; everything else is discarded without any effect *)
Theorem C07_unknown_source_discarded : forall l src p s,
  data_accepted l src p s = false -> inbound_data l src p s = (s, []).
Proof. exact inbound_data_discarded. Qed.
Print Assumptions C07_unknown_source_discarded.

Theorem C07_accepted_queued_once_unmodified : forall l src p s,
  data_accepted l src p s = true ->
  s_buf (fst (inbound_data l src p s)) = s_buf s ++ [p] /\ snd (inbound_data l src p s) = [].
Proof. exact inbound_data_accepted. Qed.
Print Assumptions C07_accepted_queued_once_unmodified.

Theorem C07_read_fifo : forall s,
  conn_read s =
  if s_closed s then (s, [ORet RErrClosed])
  else match s_buf s with
       | [] => (s, [ORet RWouldBlock])
       | p :: t => (set_s_bytes_recv (s_bytes_recv s + pl_len p) (set_s_buf t s), [ODeliver p])
       end.
Proof. exact conn_read_spec. Qed.
Print Assumptions C07_read_fifo.

(* the reader never yields STUN traffic: an invariant of every operation, true initially *)
Theorem C07_queue_never_holds_stun : forall cfg o, sat (preserves InvBuf) (step_m cfg o).
Proof. exact step_preserves_InvBuf. Qed.
Print Assumptions C07_queue_never_holds_stun.

Theorem C07_reader_never_yields_stun : forall cfg s,
  InvBuf s -> forall p, In (ODeliver p) (snd (step cfg s Read)) -> pl_stun p = false.
Proof. exact read_never_yields_stun. Qed.
Print Assumptions C07_reader_never_yields_stun.

(* byte counters: only Write and Read move them, by exactly the payload bytes accepted / returned *)
Theorem C07_counters_only_by_write_and_read : forall cfg o,
  match o with Write _ | Read => True | _ => sat (frame counters) (step_m cfg o) end.
Proof. exact counters_only_by_write_and_read. Qed.
Print Assumptions C07_counters_only_by_write_and_read.

Theorem C07_write_counts_payload_bytes : forall cfg p s,
  let '(s', outs) := step cfg s (Write p) in
  s_bytes_recv s' = s_bytes_recv s /\
  s_bytes_sent s' = s_bytes_sent s + (if existsb (fun o => match o with OData _ _ _ => true | _ => false end) outs
                                       then Z.max 0 (pl_len p) else 0).
Proof. exact write_counts_payload_bytes. Qed.
Print Assumptions C07_write_counts_payload_bytes.

Theorem C07_read_counts_returned_bytes : forall cfg s,
  let '(s', outs) := step cfg s Read in
  s_bytes_sent s' = s_bytes_sent s /\
  s_bytes_recv s' = s_bytes_recv s + fold_left (fun a p => a + pl_len p) (outs_delivered outs) 0.
Proof. exact read_counts_returned_bytes. Qed.
Print Assumptions C07_read_counts_returned_bytes.

Example C07_example :
  let cfg := mkConfig false 5 7 1000000000 true 2000000000 0 0 0 0 0 [] false false 1 in
  let l := mkCand 1 1 1 (mkAddr false 167772161 5000) 0 2130706431 1 None in
  let r := mkCand 101 1 1 (mkAddr false 3232235777 6000) 0 2130706431 1 None in
  let src := mkAddr false 3232235777 6000 in
  let other := mkAddr false 3232235999 6000 in
  let s := fst (run cfg 1 1 [AddLocal l; AddRemote r; Start false 3 4]) in
  data_accepted l src (mkPayload 1 100 false) s = true /\
  data_accepted l other (mkPayload 1 100 false) s = false /\
  data_accepted l src (mkPayload 1 100 true) s = false.
Proof. vm_compute. repeat split. Qed.
