(* C08 "Close always terminates, unblocks everyone, and is final".  Statements only.
   Part A (this block): finality in the agent core, for every state and every history.
   Proofs in Proofs/CloseFinalProofs.v. *)
From Coq Require Import ZArith Bool List.
From Ice Require Import Model.AgentTypes Model.AgentCore Model.AgentMonitors Gen.Consts
     Proofs.AgentFrame Proofs.CloseFinalProofs.
Import ListNotations.
Local Open Scope Z_scope.

(* In a closed state EVERY operation leaves the agent state unchanged (Advance only moves the
   harness clock) and outputs exactly the closed error / the argument validation result / nothing
   (inbound traffic, ticks) / nil for a repeated Close: no send, no notification, no delivery. *)
Theorem C08_closed_state_is_final : forall cfg s o,
  s_closed s = true ->
  step cfg s o = (closed_next o s, closed_outs o)
  /\ agent_view (closed_next o s) = agent_view s
  /\ Forall is_ret (closed_outs o).
Proof. exact closed_state_is_final. Qed.
Print Assumptions C08_closed_state_is_final.

Theorem C08_closed_agent_is_quiet : forall cfg s o,
  s_closed s = true ->
  s_closed (fst (step cfg s o)) = true /\
  Forall quiet_out (snd (step cfg s o)) /\
  agent_view (fst (step cfg s o)) = agent_view s.
Proof. exact closed_step_quiet. Qed.
Print Assumptions C08_closed_agent_is_quiet.

(* Close from any non-closed state closes, releases the candidates, and (on reachable states,
   where Closed is entered by Close only) notifies Closed right before returning nil. *)
Theorem C08_close_closes : forall cfg s,
  InvC s -> s_closed s = false ->
  step cfg s Close = (closed_state s, [OState ConnectionStateClosed; ORet ROk]).
Proof. exact close_notifies_closed. Qed.
Print Assumptions C08_close_closes.

Theorem C08_lifecycle_invariant : forall cfg lu lp ops, InvC (fst (run cfg lu lp ops)).
Proof. exact InvC_run. Qed.
Print Assumptions C08_lifecycle_invariant.

(* a second Close is a no-op returning nil *)
Theorem C08_close_twice : forall cfg s,
  let s1 := fst (step cfg s Close) in step cfg s1 Close = (s1, [ORet ROk]).
Proof. exact close_twice. Qed.
Print Assumptions C08_close_twice.

(* Close injected at ANY position of ANY history: the agent ends closed whatever follows, Closed is
   notified exactly once, and it is the LAST state notification of the whole history. *)
Theorem C08_close_is_final : forall cfg lu lp pre post,
  let s1 := fst (run cfg lu lp pre) in
  s_closed s1 = false ->
  let r := run cfg lu lp (pre ++ Close :: post) in
  s_closed (fst r) = true /\
  trace_states (snd r) = trace_states (snd (run cfg lu lp pre)) ++ [ConnectionStateClosed] /\
  ~ In ConnectionStateClosed (trace_states (snd (run cfg lu lp pre))).
Proof. exact close_is_final_run. Qed.
Print Assumptions C08_close_is_final.

(* once closed, the rest of any history is quiet, the agent state is frozen and every output is
   the fixed closed answer *)
Theorem C08_closed_forever : forall cfg ops s,
  s_closed s = true ->
  s_closed (fst (run_from cfg s ops)) = true /\
  Forall (Forall quiet_out) (snd (run_from cfg s ops)) /\
  agent_view (fst (run_from cfg s ops)) = agent_view s /\
  snd (run_from cfg s ops) = map closed_outs ops.
Proof. exact closed_forever. Qed.
Print Assumptions C08_closed_forever.

Theorem C08_after_close_results : forall cfg lu lp pre post o,
  In Close pre ->
  let s := fst (run cfg lu lp (pre ++ post)) in
  s_closed s = true /\ step cfg s o = (closed_next o s, closed_outs o).
Proof. exact after_close_results. Qed.
Print Assumptions C08_after_close_results.

(* non-vacuity: a session that connects nothing but has a pair, closed in the middle *)
Example C08_final_example :
  let pre := [AddLocal demo_cL; AddRemote demo_cR; Start true 7 8] in
  s_closed (fst (run demo_cfg 1 2 pre)) = false /\
  snd (run demo_cfg 1 2 (pre ++ Close :: [Write (mkPayload 1 10 false); Read; Restart 3 4; Renominate demo_cL demo_cR 5; Close; Tick])) =
  snd (run demo_cfg 1 2 pre) ++
  [[OState ConnectionStateClosed; ORet ROk]; [ORet RErrClosed]; [ORet RErrClosed]; [ORet RErrClosed];
   [ORet RErrClosed]; [ORet ROk]; []].
Proof. vm_compute. split; reflexivity. Qed.
