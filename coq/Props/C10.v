(* C10: agent state is only touched serially; the public API is thread-safe.
   Only theorem statements, each closed by [exact <lemma>], with Print Assumptions.

   Model (Model/TaskLoop.v): the interleaving transition system of internal/taskloop/taskloop.go,
   any number of submitters (each with its own cancellable context) and closers (with or without
   preStop) and the loop goroutine; one label per atomic action; Go's select takes ANY ready
   branch.  [reach s] = s is reachable from [init] under some schedule, so every statement below
   holds for all interleavings.  The table of Gen/LoopDiscipline.v is regenerated from /repo's
   source by gotools/looptable on every run.

   NOT a Coq theorem (named, unmodelled runtime part): freedom from data races in Go's memory
   model.  It is the paper consequence of C10_serial (tasks never overlap, and channel
   hand-over / close give happens-before edges) and C10_api_goes_through_loop_partial (the API
   touches loop-owned fields only inside tasks); the Go race detector is not part of this check. *)
From Coq Require Import Arith Bool List String.
Import ListNotations.
From Ice Require Import Model.PrioSpec Model.TaskLoop Gen.LoopDiscipline
     Proofs.TaskLoopInv Proofs.TaskLoopProofs Proofs.LoopDisciplineProofs
     Proofs.TaskLoopMonA Proofs.TaskLoopMonB Proofs.TaskLoopMonC Model.ApiSeq Proofs.ApiSeqProofs.

(* at most one task body is executing in any reachable state *)
Theorem C10_serial : forall s, reach s ->
  forall i j, ts s i = TRunning -> ts s j = TRunning -> i = j.
Proof. exact serial. Qed.
Print Assumptions C10_serial.

(* ... and it is the task the loop goroutine is inside of, whose submitter is still blocked in Run *)
Theorem C10_running_task_is_the_loops : forall s, reach s ->
  forall i, ts s i = TRunning -> lp s = LRun i /\ sp s i = SWait.
Proof. exact running_is_loops. Qed.
Print Assumptions C10_running_task_is_the_loops.

(* Run returned nil  => its task ran exactly once and had completed (already in the state where
                        Run returns: "before the return");
   Run returned an error => its task never ran and never will, in any continuation;
   no task ever runs twice; a task that ran belongs to a submission that is still waiting or
   returned nil (never to one that returned an error).  Since a returned Run returned nil or an
   error, the two implications are the two "exactly when" of the property. *)
Theorem C10_ok_iff_ran_once : forall s i, reach s ->
  (sp s i = SRetOk -> runs s i = 1 /\ ts s i = TCompleted) /\
  (is_err (sp s i) ->
     runs s i = 0 /\ ts s i = TNot /\
     forall s', steps s s' -> sp s' i = sp s i /\ runs s' i = 0 /\ ts s' i = TNot) /\
  runs s i <= 1 /\
  (ts s i <> TNot -> sp s i = SWait \/ sp s i = SRetOk).
Proof. exact ok_iff_ran_once. Qed.
Print Assumptions C10_ok_iff_ran_once.

(* once some Close / CloseWithPreStop has returned the loop goroutine has exited, no task is
   running, and in every continuation no task starts or changes status *)
Theorem C10_none_after_close : forall s k, reach s -> cp s k = CRet ->
  lp s = LExited /\ (forall i, ts s i <> TRunning) /\
  forall s', steps s s' -> lp s' = LExited /\ forall i, runs s' i = runs s i /\ ts s' i = ts s i.
Proof. exact none_after_close. Qed.
Print Assumptions C10_none_after_close.

(* onClose starts at most once; when it has started no task is running and none ever starts
   afterwards (it runs after the last task); every Close that returned did so after onClose ran *)
Theorem C10_onclose_once_after_last : forall s, reach s ->
  oncloses s <= 1 /\
  (oncloses s = 1 ->
     (forall i, ts s i <> TRunning) /\
     forall s', steps s s' -> oncloses s' = 1 /\ forall i, runs s' i = runs s i /\ ts s' i = ts s i) /\
  (forall k, cp s k = CRet -> oncloses s = 1 /\ lp s = LExited).
Proof. exact onclose_once_after_last. Qed.
Print Assumptions C10_onclose_once_after_last.

(* no channel is closed twice (close(l.done), close(t.done), close(l.taskLoopDone) never panic) *)
Theorem C10_no_double_close : forall s, reach s ->
  (forall k, cp s k = COnce1 -> done s = false) /\
  (forall i, lp s = LFin i -> tdone s i = false) /\
  (lp s = LOnCloseDone -> tld s = false).
Proof. exact no_double_close. Qed.
Print Assumptions C10_no_double_close.

(* the extracted acceptor used by the correspondence check is sound: a log it accepts is the
   observable projection of a run of this model *)
Theorem C10_explains_sound : forall sids cids evs, explains sids cids evs = true ->
  exists ls s, run ls init = Some s /\ observe ls = evs /\ reach s.
Proof. exact explains_sound. Qed.
Print Assumptions C10_explains_sound.

(* the extracted monitor (C10_checks: serial, ok-ran-once-before-return, error-never-ran,
   ran-implies-ok, at-most-once, none-after-close-returned, onclose-once, onclose-after-last-task,
   close-returns-after-onclose, prestop-at-most-once) is true on the observable trace of EVERY run
   of the model that is complete (every Run that was called has returned).  With
   C10_explains_sound: a complete log on which the monitor fails cannot be explained by the model. *)
Theorem C10_monitor_holds_on_every_run : forall ls s,
  run ls init = Some s -> complete s -> C10_monitor (observe ls) = true.
Proof. exact monitor_holds. Qed.
Print Assumptions C10_monitor_holds_on_every_run.

(* PARTIAL.  Every exported method of *Agent / *Conn touches the loop-owned Agent fields
   (loop_owned_fields) only inside a closure handed to a.loop.Run, transitively through the
   package functions it calls -- with ONE exception, Agent.RenominateCandidate, which reads
   checklist / remoteUfrag / remotePwd / localUfrag and appends to pendingBindingRequests on the
   caller's goroutine (finding; demonstrated on the real agent by the "api" cases of suite
   taskloop).  Partial because: (a) it is a statement about a table computed from the AST and the
   static call graph (calls through func values are not followed; interface calls are resolved by
   name), not about executions; (b) the exception; (c) race freedom in Go's memory model does not
   follow inside Coq. *)
Theorem C10_api_goes_through_loop_partial : forall r, In r api_table ->
  r_outside r = [] \/ (r_recv r = "Agent"%string /\ r_name r = "RenominateCandidate"%string).
Proof. exact api_goes_through_loop. Qed.
Print Assumptions C10_api_goes_through_loop_partial.

(* PARTIAL, same table technique for every goroutine the package starts: off the loop they read
   at most the field localUfrag (gather goroutines; that read races with Restart's write). *)
Theorem C10_goroutines_go_through_loop_partial : forall r f,
  In r goroutine_table -> In f (r_outside r) -> f = "localUfrag"%string.
Proof. exact goroutines_go_through_loop. Qed.
Print Assumptions C10_goroutines_go_through_loop_partial.

(* Pairs of overlapping public calls are judged against the sequential semantics Model/ApiSeq.v
   (monitor C10_api2_checks: the observed results, and final state, are those of SOME serial order
   of the two calls).  What that monitor accepts for two overlapping starts -- any mix of
   StartDial / Dial / StartAccept / Accept -- is exactly "one succeeded, the other got
   ErrMultipleStart"; a getter overlapping a mutator returns a whole credential pair.
   PARTIAL: these are statements about the sequential spec and the monitor; that the real methods
   are linearizable is checked on the implementation by the api2 cases, not proved. *)
Theorem C10_concurrent_starts_one_wins_partial : forall ctl1 c1 ctl2 c2 r1 r2,
  results_of_some_order (AStart ctl1 c1) (AStart ctl2 c2) r1 r2 = true <->
  (r1 = AOk /\ r2 = AMulti) \/ (r1 = AMulti /\ r2 = AOk).
Proof. exact starts_one_wins. Qed.
Print Assumptions C10_concurrent_starts_one_wins_partial.

Theorem C10_getter_sees_whole_state_partial : forall c r1 r2,
  results_of_some_order AGetRemote (ASetRemote c) r1 r2 = true ->
  r2 = AOk /\ (r1 = ACred 0 \/ r1 = ACred c).
Proof. exact getter_sees_whole_state. Qed.
Print Assumptions C10_getter_sees_whole_state_partial.

(* ---- non-vacuity --------------------------------------------------------------------------- *)
(* a schedule in which submission 0 runs and returns nil, submission 1 is refused with ErrClosed,
   submission 2 returns its context's error, submission 3 is accepted AFTER l.done was closed
   (select took the send branch) and still runs to completion before Close returns *)
Definition C10_witness : list label :=
  [ Obs (ECall 0); Tau (TErrCheck 0); Tau (TSend 0); Obs (EStart 0);
    Obs (ECall 3); Tau (TErrCheck 3);
    Obs (ECall 2); Tau (TErrCheck 2); Obs (ECancel 2); Tau (TCancelEff 2); Obs (ERet 2 RCtx);
    Obs (ECloseCall 0 true); Tau (TOnceEnter 0); Tau (TCloseDone 0);
    Obs (ECall 1); Obs (ERet 1 RClosed);
    Obs (EEnd 0); Tau TCloseTaskDone; Obs (ERet 0 ROk);
    Tau (TSend 3); Obs (EStart 3); Obs (EPreStart 0); Obs (EEnd 3); Tau TCloseTaskDone;
    Obs (EPreEnd 0); Tau (TOnceLeave 0);
    Tau TSeeDone; Obs EOnCloseStart; Obs EOnCloseEnd; Tau TCloseTLD;
    Obs (ERet 3 ROk); Obs (ECloseRet 0) ].

Example C10_hypotheses_satisfiable :
  exists s, reach s /\ sp s 0 = SRetOk /\ sp s 1 = SRetClosed /\ sp s 2 = SRetCtx /\
            sp s 3 = SRetOk /\ cp s 0 = CRet /\ oncloses s = 1 /\
            explains [0; 1; 2; 3] [0] (observe C10_witness) = true /\
            C10_monitor (observe C10_witness) = true.
Proof.
  destruct (run C10_witness init) as [s|] eqn:E; [|vm_compute in E; discriminate].
  exists s. split; [eapply run_reach; eauto|].
  vm_compute in E. inversion E; subst; clear E. vm_compute. repeat split; reflexivity.
Qed.

Example C10_table_nonvacuous :
  In (mk_row "Agent" "Restart" [] true) api_table /\
  In (mk_row "Agent" "GetLocalCandidates" [] true) api_table /\
  In (mk_row "Conn" "Write" [] true) api_table /\
  api_table <> [].
Proof. exact api_table_nonvacuous. Qed.
