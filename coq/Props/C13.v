(* C13: users of a shared mux cannot disturb each other.
   Only theorem statements, each closed by [exact <lemma>], with Print Assumptions.

   Two interleaving models (any number of threads, every schedule):
     SC = Model/SharedConn.v  reference-counted handles on one underlying connection
     WA = Model/WriteAbort.v  the writeState word of UDPMuxDefault, writers and aborters
   Theorems named ..._partial carry only part of the property; the comment says what is missing.
   What the faithful model REFUTES is in Findings/F_C13_stale_clearer.v. *)
From Coq Require Import ZArith Bool List Arith.
From Ice Require Model.SharedConn Model.WriteAbort Proofs.SharedConnProofs Proofs.WriteAbortProofs.
From Ice Require Import Model.PrioSpec Gen.Consts.
Import ListNotations.
Module SC := Ice.Model.SharedConn.
Module WA := Ice.Model.WriteAbort.
Module SCP := Ice.Proofs.SharedConnProofs.
Module WAP := Ice.Proofs.WriteAbortProofs.

(* ================================ reference-counted handles ================================= *)

(* The underlying per-ufrag connection is closed exactly once, in the step in which the last
   handle is released: never more than once; not while any handle still holds its reference; it
   HAS been closed once every handed-out handle finished its Close; and the only step that closes
   it is the underlying.Close() inside the Close of the handle whose decrement reached zero, at a
   moment when no other handle holds a reference.  For all numbers of handles and readers and all
   interleavings of the atomic actions of Close / newSharedPacketConn / ReadFrom. *)
Theorem C13_underlying_closed_once : forall s, SC.reach s ->
  (SC.ucloses s <= 1)%nat /\
  (forall h, SC.holds_ref (SC.hpcs s h) = true -> SC.ucloses s = O) /\
  (SC.created s <> O -> (forall h, SC.settled (SC.hpcs s h) = true) -> SC.ucloses s = 1%nat) /\
  (forall l s', SC.step s l s' -> SC.ucloses s' <> SC.ucloses s ->
     exists h, l = SC.LUClose h /\ SC.ucloses s = O /\ SC.ucloses s' = 1%nat /\
               (forall h', SC.holds_ref (SC.hpcs s' h') = false) /\
               (forall h' v, SC.hpcs s h' = SC.HDecd v -> (v <= 0)%Z -> h' = h)).
Proof. exact SCP.underlying_closed_once. Qed.
Print Assumptions C13_underlying_closed_once.

(* A handle's Close changes only that handle's context / closed flag, and a handle that is still
   open is fully usable in EVERY reachable state (whatever its siblings did): its writes reach the
   underlying connection, which is open, and a read on it never returns an error other than the
   expiry of its own read deadline. *)
Theorem C13_sibling_unaffected : forall s, SC.reach s ->
  (forall l s' h', SC.step s l s' -> SC.actor l <> Some h' ->
     SC.hpcs s' h' = SC.hpcs s h' /\ SC.cancelled s' h' = SC.cancelled s h') /\
  (forall h, SC.hpcs s h = SC.HOpen ->
     SC.write_outcome s h = SC.WOk /\
     (forall k r, SC.rds s k = SC.RRet h r -> r = SC.ROk \/ r = SC.RTimeout)).
Proof. exact SCP.sibling_unaffected. Qed.
Print Assumptions C13_sibling_unaffected.

(* ... where a timeout is the handle's OWN read deadline: a read returns os.ErrDeadlineExceeded
   only if it was started while that handle's deadline was already in the past; a read started with
   no deadline or with one far in the future parks with (a context derived from) the handle's
   context - so that handle's Close fails it (C13_closed_handle_io_fails applies to every RWait). *)
Theorem C13_timeout_only_own_deadline : forall s l s' k h, SC.step s l s' ->
  (l = SC.LReadRet k h SC.RTimeout -> SC.rds s k = SC.RWaitPast h) /\
  (SC.rds s' k = SC.RWaitPast h ->
     SC.rds s k = SC.RWaitPast h \/ (SC.rds s k = SC.RIdle /\ SC.rdl s h = SC.DPast /\ SC.cancelled s h = false)) /\
  (SC.rds s' k = SC.RWait h ->
     SC.rds s k = SC.RWait h \/ (SC.rds s k = SC.RIdle /\ SC.rdl s h <> SC.DPast /\ SC.cancelled s h = false)).
Proof. exact SCP.timeout_only_own_deadline. Qed.
Print Assumptions C13_timeout_only_own_deadline.

(* Closing a handle fails that handle's own pending and future I/O: from the cancel step on its
   writes return ErrClosedPipe, a read blocked on it can return ErrClosedPipe, a new read fails at
   once, and this never reverts. *)
Theorem C13_closed_handle_io_fails : forall s h, SC.reach s -> SC.past_cancel (SC.hpcs s h) = true ->
  SC.write_outcome s h = SC.WClosedPipe /\
  (forall k, SC.rds s k = SC.RWait h -> exists s', SC.step s (SC.LReadRet k h SC.RClosedPipe) s') /\
  (forall k s', SC.rds s k = SC.RIdle -> SC.step s (SC.LRead k h) s' -> SC.rds s' k = SC.RRet h SC.RClosedPipe) /\
  (forall l s', SC.step s l s' -> SC.cancelled s' h = true).
Proof. exact SCP.closed_handle_io_fails. Qed.
Print Assumptions C13_closed_handle_io_fails.

(* a read on h returns ErrClosedPipe only if h itself was closed *)
Theorem C13_read_fails_only_own : forall s k h, SC.reach s ->
  SC.rds s k = SC.RRet h SC.RClosedPipe -> SC.past_cancel (SC.hpcs s h) = true.
Proof. exact SCP.read_fails_only_own. Qed.
Print Assumptions C13_read_fails_only_own.

(* The extracted monitor of suite sharedconn accepts every history of the sequential view of the
   model that the implementation is compared with (all operation lists, malformed ones included). *)
Theorem C13_sc_monitor_sound : forall ops, SC.C13_sc_monitor ops (SC.sc_run SC.finit ops) = true.
Proof. exact SCP.sc_monitor_sound. Qed.
Print Assumptions C13_sc_monitor_sound.

Example C13_handles_example :
  exists s, SC.reach s /\ SC.hpcs s 0%nat = SC.HClosed /\ SC.hpcs s 1%nat = SC.HClosed /\
            SC.ucloses s = 1%nat /\ SC.created s = 2%nat.
Proof. exact SCP.example_run. Qed.

(* ================================== the write-abort word ====================================
   WA.step / WA.reach / WA.trace take the variant of clearWriteAbortState as first argument:
   false = the code as it is, true = the code with findings/proposed/C13-stale-deadline-clearer.diff.
   The harness determines which variant /repo contains and runs the acceptor for that one. *)

(* In every reachable state with no writer and no aborter in flight, writeState = 0 and the
   socket's write deadline is cleared (or the last SetWriteDeadline(time.Time{}) itself failed) -
   for every number of writers and aborters and every interleaving of the atomic actions,
   SetWriteDeadline(time.Time{}) allowed to fail.
   PARTIAL for the code as it is: only for histories in which no SetWriteDeadline(time.Now()) call
   failed.  The property also quantifies over that fault, and there the faithful model refutes the
   statement (Findings/F_C13_stale_clearer.v: C13_quiescent_clean_refuted; reproduced on the real
   code by suite writeabort). *)
Theorem C13_quiescent_clean_partial : forall ls s,
  WA.trace false ls s -> ~ In (WA.LArm false) ls -> WA.quiescent s ->
  WA.ws s = WA.w0 /\ (WA.armed s = false \/ WA.clrfailed s = true).
Proof. exact WAP.quiescent_clean_current. Qed.
Print Assumptions C13_quiescent_clean_partial.

(* ... at full strength (arming failures included) for the code with the proposed fix *)
Theorem C13_quiescent_clean_with_fix : forall ls s,
  WA.trace true ls s -> WA.quiescent s ->
  WA.ws s = WA.w0 /\ (WA.armed s = false \/ WA.clrfailed s = true).
Proof. exact WAP.quiescent_clean_fixed. Qed.
Print Assumptions C13_quiescent_clean_with_fix.

(* with no failing SetWriteDeadline(time.Time{}) call the deadline IS cleared *)
Theorem C13_quiescent_clean_nofail_partial : forall ls s,
  WA.trace false ls s -> ~ In (WA.LArm false) ls -> ~ In (WA.LClear false) ls -> WA.quiescent s ->
  WA.ws s = WA.w0 /\ WA.armed s = false.
Proof. exact WAP.quiescent_clean_nofail_current. Qed.
Print Assumptions C13_quiescent_clean_nofail_partial.

Theorem C13_quiescent_clean_nofail_with_fix : forall ls s,
  WA.trace true ls s -> ~ In (WA.LClear false) ls -> WA.quiescent s ->
  WA.ws s = WA.w0 /\ WA.armed s = false.
Proof. exact WAP.quiescent_clean_nofail_fixed. Qed.
Print Assumptions C13_quiescent_clean_nofail_with_fix.

(* The count field equals the number of writers between their increment and their decrement.
   PARTIAL for the code as it is, for the same reason (refuted with a failed arming:
   C13_count_exact_refuted); full for the code with the proposed fix. *)
Theorem C13_count_exact_partial : forall s, WA.reach false s -> WA.armfails s = O ->
  exists l, NoDup l /\ (forall i, In i l <-> WA.inflight (WA.wpcs s i) = true) /\ WA.cnt (WA.ws s) = length l.
Proof. exact WAP.count_exact_current. Qed.
Print Assumptions C13_count_exact_partial.

Theorem C13_count_exact_with_fix : forall s, WA.reach true s ->
  exists l, NoDup l /\ (forall i, In i l <-> WA.inflight (WA.wpcs s i) = true) /\ WA.cnt (WA.ws s) = length l.
Proof. exact WAP.count_exact_fixed. Qed.
Print Assumptions C13_count_exact_with_fix.

(* Liveness, PARTIAL (both variants; for the code as it is only without a failed arming).
   Both wait loops spin only while blocked is set; whenever blocked is set some thread of the
   running abort that does NOT spin is enabled, and its step advances its own program counter:
   the aborter that owns blocked (until the deadline bit is set or blocked is released),
   afterwards an in-flight writer or, once the count is zero, the writer clearing the deadline.
   Missing for "nobody spins forever": (a) a fairness assumption (every continuously enabled
   thread eventually takes a step; the Go scheduler is not modelled), (b) termination of the
   helper's own CAS retry loops under that assumption (a variant over count / owner / writers is
   not proved), (c) the socket returning from WriteTo once its deadline is armed. *)
Theorem C13_no_stuck_spin_partial : forall hv s, WA.reach hv s -> (hv = true \/ WA.armfails s = O) ->
  (forall i, WA.w_spins s i -> WA.blk (WA.ws s) = true) /\
  (WA.blk (WA.ws s) = true ->
   (WA.dl (WA.ws s) = false /\ exists j l s', WA.own s = Some j /\ WA.owning (WA.apcs s j) = true /\
                                              WA.step hv s l s' /\ WA.apcs s' j <> WA.apcs s j) \/
   (WA.dl (WA.ws s) = true /\ exists i l s', (WA.inflight (WA.wpcs s i) = true \/ WA.clearing (WA.wpcs s i) = true) /\
                                             ~ WA.w_spins s i /\ WA.step hv s l s' /\ WA.wpcs s' i <> WA.wpcs s i)).
Proof. exact WAP.no_stuck_spin. Qed.
Print Assumptions C13_no_stuck_spin_partial.

(* The extracted monitor (run on the implementation's logs by bin/check) accepts every quiescent
   run of the model for which the property is claimed: no false alarm on behaviour the model has. *)
Theorem C13_wa_monitor_sound : forall hv ls s,
  WA.trace hv ls s -> (hv = true \/ ~ In (WA.LArm false) ls) -> WA.quiescent s ->
  WA.C13_wa_monitor (map WA.EV ls) (WA.ws s) (WA.armed s) true false = true.
Proof. exact WAP.wa_monitor_sound. Qed.
Print Assumptions C13_wa_monitor_sound.

(* The executable successor functions the extracted acceptor is built from produce exactly the
   steps of the relation (soundness for writers and aborters, completeness for all rules). *)
Theorem C13_successors_sound : forall hv s,
  (forall i l w' a' p', In (l, w', a', p') (WA.wnext i (WA.ws s) (WA.armed s) (WA.wpcs s i)) ->
     exists s', WA.step hv s l s' /\ WA.ws s' = w' /\ WA.armed s' = a' /\ WA.wpcs s' i = p' /\
                (forall k, k <> i -> WA.wpcs s' k = WA.wpcs s k) /\ WA.apcs s' = WA.apcs s) /\
  (forall j l w' a' p', In (l, w', a', p') (WA.anext hv j (WA.ws s) (WA.armed s) (WA.apcs s j)) ->
     exists s', WA.step hv s l s' /\ WA.ws s' = w' /\ WA.armed s' = a' /\ WA.apcs s' j = p' /\
                (forall k, k <> j -> WA.apcs s' k = WA.apcs s k) /\ WA.wpcs s' = WA.wpcs s).
Proof. exact WAP.successors_sound. Qed.
Print Assumptions C13_successors_sound.

Theorem C13_successors_complete : forall hv s l s', WA.step hv s l s' ->
  (exists i, In (l, WA.ws s', WA.armed s', WA.wpcs s' i) (WA.wnext i (WA.ws s) (WA.armed s) (WA.wpcs s i))) \/
  (exists j, In (l, WA.ws s', WA.armed s', WA.apcs s' j) (WA.anext hv j (WA.ws s) (WA.armed s) (WA.apcs s j))).
Proof. exact WAP.step_enumerated. Qed.
Print Assumptions C13_successors_complete.

(* The record (count, blocked, deadline) is the uint64 of the code: the masks are the generated /
   declared constants, the fields are read back exactly by the tests the code uses, +1 / -1 do not
   carry into the flags while fewer than 2^62-1 writers are in flight, and the encoding is injective. *)
Theorem C13_word_encoding : forall w, WAP.word_ok w ->
  (Z.land (WA.encode w) udpMuxWriteCountMask = Z.of_nat (WA.cnt w) /\
   (Z.land (WA.encode w) udpMuxWriteBlockedBit <> 0%Z <-> WA.blk w = true) /\
   (Z.land (WA.encode w) udpMuxWriteDeadlineBit <> 0%Z <-> WA.dl w = true)) /\
  (WA.encode (WA.winc w) = (WA.encode w + 1)%Z /\
   (WA.cnt w <> O -> WA.encode (WA.wdec w) = (WA.encode w - 1)%Z) /\
   WA.encode WA.w0 = 0%Z /\ (0 <= WA.encode w < 2 ^ 64)%Z /\
   (forall w', WAP.word_ok w' -> WA.encode w = WA.encode w' -> w = w')).
Proof. exact WAP.word_encoding. Qed.
Print Assumptions C13_word_encoding.

(* non-vacuity: a complete abort of a blocked write (armed, timed out, cleared) without failures,
   in either variant *)
Example C13_abort_example : forall hv,
  exists ls s, WA.trace hv ls s /\ ~ In (WA.LArm false) ls /\ ~ In (WA.LClear false) ls /\ WA.quiescent s /\
               In (WA.LArm true) ls /\ In (WA.LSockOut 0 false) ls /\ In (WA.LClear true) ls.
Proof. exact WAP.example_abort_cycle. Qed.
