(* C11: callbacks are delivered in order, one at a time, exactly once.
   Only theorem statements, each closed by [exact <lemma>], with Print Assumptions.

   Model/Notifier.v: the interleaving transition system of handlerNotifier (agent_handlers.go):
   any number of streams, enqueuers, drainer goroutines and closers; one label per atomic action
   (a mutex-delimited section, a handler call / return, notifiers.Done / Wait); handlers have
   arbitrary latency; what a handler does to the notifier (enqueue, Close) is covered by the
   unbounded enqueuer / closer threads, Close(true) from inside a handler is modelled explicitly.
   [reach s]: s is reachable under some schedule, so the statements hold for all interleavings,
   bursts, handler latencies and Close timings.
   Model/GatherCycle.v: executable spec of the loop tasks that feed the candidate stream
   (GatherCandidates, addCandidate, Restart, setGatheringState), all histories. *)
From Coq Require Import Arith Bool List String.
Import ListNotations.
From Ice Require Import Model.PrioSpec Model.Notifier Model.GatherCycle
     Proofs.NotifierInv Proofs.NotifierProofs Proofs.GatherCycleProofs.

(* Per stream, in every reachable state: the handler invocations started so far are a prefix of
   the values accepted (appended to the queue, i.e. enqueued before the notifier was closed) in
   acceptance order; no value is accepted or invoked twice; and in a quiescent state (no Enqueue
   mid-call, no drainer goroutine alive) every accepted value has been invoked. *)
Theorem C11_fifo_exactly_once : forall s st, reach s ->
  (exists rest, accepted s st = invoked s st ++ rest) /\
  NoDup (accepted s st) /\ NoDup (invoked s st) /\
  (quiescent s -> invoked s st = accepted s st).
Proof. exact fifo_exactly_once. Qed.
Print Assumptions C11_fifo_exactly_once.

(* only accepted values are ever delivered (a dropped event never reaches the handler) *)
Theorem C11_only_accepted_delivered : forall s st v, reach s -> In v (invoked s st) -> In v (accepted s st).
Proof. exact invoked_accepted. Qed.
Print Assumptions C11_only_accepted_delivered.

(* at most one drainer per stream is between "owns the running flag" and "gave it up"; in
   particular at most one is inside the stream's handler: the handler never runs concurrently
   with itself *)
Theorem C11_no_self_overlap : forall s d d', reach s ->
  active (dp s d) -> active (dp s d') -> dstream s d = dstream s d' -> d = d'.
Proof. exact no_self_overlap. Qed.
Print Assumptions C11_no_self_overlap.

(* once a Close(graceful=true) has returned, no drainer goroutine is alive (so no handler is
   running) and in every continuation none is, and no handler is ever invoked again *)
Theorem C11_after_graceful_close : forall s k, reach s -> kp s k = KRet -> kgrace s k = true ->
  (forall d, dp s d = DNone \/ dp s d = DExited) /\
  forall s', steps s s' ->
    (forall d, dp s' d = DNone \/ dp s' d = DExited) /\ (forall st, invoked s' st = invoked s st).
Proof. exact after_graceful_close. Qed.
Print Assumptions C11_after_graceful_close.

(* a closed notifier accepts nothing more; it is closed once any Close has returned *)
Theorem C11_closed_drops : forall s s', steps s s' -> closed s = true ->
  closed s' = true /\ forall st, accepted s' st = accepted s st.
Proof. exact closed_drops. Qed.
Print Assumptions C11_closed_drops.

Theorem C11_close_returned_closed : forall s k, reach s -> kp s k = KRet -> closed s = true.
Proof. exact close_returned_closed. Qed.
Print Assumptions C11_close_returned_closed.

(* GracefulClose from inside a handler waits for itself (documented as unsafe by the code):
   its Wait() is never enabled *)
Theorem C11_graceful_close_inside_handler_blocks : forall s d v, reach s -> dp s d = DInGrace v ->
  wg s <> 0 /\ lstep (LNestedGraceRet d) s = None.
Proof. exact grace_inside_handler_blocks. Qed.
Print Assumptions C11_graceful_close_inside_handler_blocks.

(* the extracted acceptor is sound: a log it accepts is the observable trace of a model run *)
Theorem C11_explains_sound : forall evs, explains evs = true ->
  exists ls s, run ls init = Some (s, evs) /\ reach s.
Proof. exact explains_sound. Qed.
Print Assumptions C11_explains_sound.

(* PARTIAL (gathering cycles).  For every history of gather-cycle operations that the API
   allows (gwf), in which the adds of a cycle precede its finish (gordered: gather.go waits for
   its goroutines before setGatheringState(Complete)), and in which no stale add wins the select
   -- guaranteed by the re-check inside the addCandidate task, recheck = true, /repo's code --
   the monitor holds on the candidate stream: every candidate carries the ufrag of the
   generation its cycle started in; a cycle whose Complete was applied emits exactly one nil,
   after all its candidates; a cycle cancelled by Restart (or never finished) emits none.
   Partial because the spec covers the loop tasks only (atomic by C10_serial); the gather
   goroutines themselves (sockets, STUN, TURN, the wait before Complete) are hypotheses, and
   continual gathering (which never completes) is outside. *)
Theorem C11_nil_candidate_partial : forall recheck ops,
  stale_free recheck ops -> gwf g_init ops = true -> gordered g_init ops = true ->
  let s := fst (fst (grun recheck g_init ops)) in
  let rs := snd (fst (grun recheck g_init ops)) in
  let tr := snd (grun recheck g_init ops) in
  all_ok (C11_gather_checks (g_cycgen s) (g_cyc s) (dedup_nat (completed_cycles g_init ops rs)) tr) = true.
Proof. exact gather_monitor_holds. Qed.
Print Assumptions C11_nil_candidate_partial.

Theorem C11_nil_candidate_props_partial : forall recheck ops,
  stale_free recheck ops -> gwf g_init ops = true -> gordered g_init ops = true ->
  let s := fst (fst (grun recheck g_init ops)) in
  let rs := snd (fst (grun recheck g_init ops)) in
  let tr := snd (grun recheck g_init ops) in
  (forall id c g, In (GCand id c g) tr -> g = g_cycgen s c) /\
  (forall c, In c (completed_cycles g_init ops rs) -> gcount (is_nil_of c) tr = 1) /\
  (forall c, ~ In c (completed_cycles g_init ops rs) -> gcount (is_nil_of c) tr = 0) /\
  (forall c, gcount (is_cand_of c) (after_first (is_nil_of c) tr) = 0).
Proof. exact gather_props. Qed.
Print Assumptions C11_nil_candidate_props_partial.

(* ---- non-vacuity ------------------------------------------------------------------------------ *)
(* two values on stream 0 and one on stream 1, a Close(false) racing, a value dropped, then a
   graceful Close that returns; the log is explained and the monitor accepts it *)
Definition C11_witness : list label :=
  [ LEnqCall 0 0; LEnqSection 0 0; LEnqRet 0; LDrain 0; LHStart 0;
    LEnqCall 1 0; LEnqSection 1 9; LEnqRet 1;
    LEnqCall 2 1; LEnqSection 2 1; LEnqRet 2; LDrain 1; LHStart 1;
    LCloseCall 0 false; LCloseSection 0; LCloseRet 0;
    LEnqCall 3 0; LEnqSection 3 9; LEnqRet 3;
    LHEnd 0; LDrain 0; LHStart 0; LHEnd 1; LDrain 1; LDone 1;
    LCloseCall 1 true; LCloseSection 1;
    LHEnd 0; LDrain 0; LDone 0; LCloseRet 1 ].

Example C11_hypotheses_satisfiable :
  exists s evs, run C11_witness init = Some (s, evs) /\ reach s /\
     kp s 1 = KRet /\ kgrace s 1 = true /\ quiescent s /\
     invoked s 0 = [0; 1] /\ accepted s 0 = [0; 1] /\ invoked s 1 = [2] /\
     explains evs = true /\ C11_monitor evs = true.
Proof.
  destruct (run C11_witness init) as [[s evs]|] eqn:E; [|vm_compute in E; discriminate].
  exists s, evs. split; auto. split; [eapply run_reach; eauto|].
  vm_compute in E. inversion E; subst; clear E.
  repeat split; try reflexivity.
  - intros e. vm_compute. destruct e as [|[|[|[|e]]]]; discriminate.
  - intros d. vm_compute. destruct d as [|[|d]]; auto.
Qed.

Definition C11_gather_witness : list gop :=
  [GStart; GAdd 0; GAdd 1; GFinish; GFinish; GRestart; GStart; GAdd 2; GTrap 3 true; GAdd 4; GFinish;
   GStart; GAdd 5; GFinish].

Example C11_gather_hypotheses_satisfiable :
  stale_free true C11_gather_witness /\ gwf g_init C11_gather_witness = true /\
  gordered g_init C11_gather_witness = true /\
  snd (grun true g_init C11_gather_witness) =
    [GCand 0 1 0; GCand 1 1 0; GNil 1; GCand 2 2 1; GCand 5 3 2; GNil 3].
Proof. split; [left; reflexivity|]. vm_compute. auto. Qed.
