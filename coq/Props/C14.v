(* C14: ICE-TCP framing (RFC 4571) preserves packet boundaries.
   Only theorem statements, each closed by [exact <lemma>], with Print Assumptions.

   Model (Model/Framing.v): a TCP stream as the reader sees it is a list of non-empty chunks
   (a Read returns at most the head chunk, at most the requested size; asking for less leaves the
   remainder as the new head: every behaviour "Read returns between 1 and min(requested, available)
   bytes" is some chunk list, and all chunk lists are quantified over), followed by a final error,
   optionally with bytes delivered together with that error.  [wf s]: no empty chunk (a (0, nil) Read
   is outside the io.Reader contract of a net.Conn).  [content s]: the bytes the stream can deliver
   without the error.  [read_packet] = readStreamingPacket, [read_all] = the reader loops that call
   it until the first error, [write_streaming_packet] = writeStreamingPacket, [pc_*] = tcpPacketConn.
   [receiveMTU] and [streamingPacketHeaderLen] come from Gen/Consts.v (regenerated from the Go
   source on every run).

   Where the pinned code departs from the property, the model has a [variant] switch; theorems that
   need the repaired behaviour carry it as a hypothesis ([v_reject_oversize v = true],
   [delivers v wbuf]); the pinned behaviour [current] refutes them: Findings/F_C14.v. *)
From Coq Require Import ZArith NArith Bool String Ascii List Arith.
From Ice Require Import Model.PrioSpec Model.Framing Gen.Consts Proofs.FramingProofs Proofs.FrameUnique.
Import ListNotations.
Local Open Scope nat_scope.

(* frame: two-byte big-endian length, then the packet; none above 65535 *)
Theorem C14_frame_def : forall p : bytes,
  ((N.of_nat (length p) <= max_uint16)%N -> frame p = Some (frame_raw p)) /\
  ((max_uint16 < N.of_nat (length p))%N -> frame p = None).
Proof. exact frame_def. Qed.
Print Assumptions C14_frame_def.

(* For ALL packet lists (every length <= 65535 and <= the buffer capacity) and ALL chunkings of the
   concatenated frames into non-empty chunks, reading repeatedly yields exactly those packets, in
   order, then the stream's final error (EOF), with the stream exhausted.  Unbounded: induction over
   packets and chunks.  The fuel of the reader loop is S(number of bytes of the stream). *)
Theorem C14_roundtrip : forall (ps : list bytes) (cap : nat) (cs : list bytes) (e : Z),
  Forall (fits_in cap) ps ->
  Forall (fun c => c <> []) cs ->
  concat cs = concat (map frame_raw ps) ->
  exists s', read_all (read_fuel (mkStream cs [] e [])) cap (mkStream cs [] e []) = (ps, PErr e, s')
             /\ dead s'.
Proof. exact roundtrip. Qed.
Print Assumptions C14_roundtrip.

(* the framing is uniquely decodable: two packet lists (each packet at most 65535 bytes and at most
   cap) whose frames concatenate to the same byte stream are the same list -- packet boundaries are
   a function of the bytes alone, which is what "however the stream is segmented or coalesced" needs *)
Theorem C14_frames_uniquely_decodable : forall (cap : nat) (ps qs : list bytes),
  Forall (fits_in cap) ps -> Forall (fits_in cap) qs ->
  concat (map frame_raw ps) = concat (map frame_raw qs) -> ps = qs.
Proof. exact frames_uniquely_decodable. Qed.
Print Assumptions C14_frames_uniquely_decodable.

(* For EVERY well-formed stream (any bytes, any chunking, any final error, with or without bytes
   delivered together with the error) and every capacity, one readStreamingPacket:
   - a returned packet is exactly the len bytes that follow its two-byte header, len <= cap, exactly
     2+len bytes are consumed (never merged, split or fabricated; its frame is header ++ packet);
   - a header announcing more than cap gives ShortBuffer with exactly the 2 header bytes consumed;
   - an error is the stream's error, the stream is then dead, and it happens only on truncation
     (fewer than 2 bytes, or fewer than the announced <= cap bytes);
   - it never gets stuck (out of fuel);
   - every Read asks for between 1 and max(2, cap) bytes and there are at most consumed+1 Reads. *)
Theorem C14_arbitrary_stream_safe : forall cap s r s',
  wf s -> read_packet cap s = (r, s') ->
  wf s' /\ ferr s' = ferr s /\
  reqs_ext s s' (fun k => 1 <= k <= Nat.max 2 cap) (stream_len s - stream_len s' + 1) /\
  match r with
  | POk d => exists h, length h = 2 /\ content s = h ++ d ++ content s' /\
                       length d = N.to_nat (get_uint16 h) /\ length d <= cap /\
                       frame d = Some (h ++ d) /\ stream_len s - stream_len s' = 2 + length d
  | PShort len => exists h, length h = 2 /\ content s = h ++ content s' /\
                            len = N.to_nat (get_uint16 h) /\ cap < len /\
                            stream_len s - stream_len s' = 2
  | PErr e => e = ferr s /\ dead s' /\
              (length (content s) < 2 \/
               (length (content s) - 2 < N.to_nat (get_uint16 (firstn 2 (content s))) /\
                N.to_nat (get_uint16 (firstn 2 (content s))) <= cap))
  | PStuck => False
  end.
Proof. exact read_packet_safe. Qed.
Print Assumptions C14_arbitrary_stream_safe.

(* A whole reader loop (tcpPacketConn.startReading, activeTCPConn's reader, handleConn's first read)
   on EVERY well-formed stream: the deliverable bytes are exactly the frames of the returned packets
   followed by a remainder that is no complete frame (truncated: error) or whose header announces
   more than the buffer (ShortBuffer); the loop stops there.  Reads bounded as above. *)
Theorem C14_reader_loop_safe : forall cap s ps fin s',
  wf s -> read_all (read_fuel s) cap s = (ps, fin, s') ->
  exists rest,
    content s = concat (map frame_raw ps) ++ rest /\
    bad_rest cap fin (ferr s) rest /\
    Forall (fits_in cap) ps /\
    (match fin with PErr _ => dead s' | _ => content s' = skipn 2 rest end) /\
    reqs_ext s s' (fun k => 1 <= k <= Nat.max 2 cap) (stream_len s - stream_len s' + 1).
Proof. exact read_all_safe. Qed.
Print Assumptions C14_reader_loop_safe.

(* the reader is the chunk-free RFC 4571 parser applied to the deliverable bytes *)
Theorem C14_reader_refines_parser : forall cap s,
  wf s ->
  fst (read_all (read_fuel s) cap s) = fst (parse_all (read_fuel s) cap (content s) (ferr s)).
Proof. exact reader_refines_parser. Qed.
Print Assumptions C14_reader_refines_parser.

(* however the byte stream is segmented or coalesced in transit: same packets, same final result *)
Theorem C14_chunking_irrelevant : forall cap s1 s2,
  wf s1 -> wf s2 -> content s1 = content s2 -> ferr s1 = ferr s2 ->
  fst (read_all (read_fuel s1) cap s1) = fst (read_all (read_fuel s2) cap s2).
Proof. exact chunking_irrelevant. Qed.
Print Assumptions C14_chunking_irrelevant.

(* the fuel (S (stream length) for the loop, the number of missing bytes for the inner loops) is never
   exhausted on a well-formed stream *)
Theorem C14_never_stuck : forall cap s, wf s -> snd (fst (read_all (read_fuel s) cap s)) <> PStuck.
Proof. exact read_all_not_stuck. Qed.
Print Assumptions C14_never_stuck.

(* writeStreamingPacket, lengths 0..65535: exactly one Write of header ++ packet; n = len; a conn error
   is returned with n = 0 (both for the pinned and the repaired variant) *)
Theorem C14_write_frames : forall v (p : bytes),
  (N.of_nat (length p) <= 65535)%N ->
  write_streaming_packet v None p = ([frame_raw p], length p, None) /\
  forall e, write_streaming_packet v (Some e) p = ([frame_raw p], 0, Some e).
Proof. exact write_frames. Qed.
Print Assumptions C14_write_frames.

(* packets too long for the 16-bit length field: an error and nothing written - for the repaired
   semantics (reject before writing).  The pinned code refutes it: Findings/F_C14.v,
   C14_oversize_write_refuted; the harness demonstrates it on the implementation. *)
Theorem C14_oversize_write : forall v werr (p : bytes),
  v_reject_oversize v = true -> (65535 < N.of_nat (length p))%N ->
  write_streaming_packet v werr p = ([], 0, Some err_other).
Proof. exact oversize_write. Qed.
Print Assumptions C14_oversize_write.

(* write/read composition over tcpPacketConn: for ALL packet sequences with every packet <= receiveMTU
   and <= the caller's buffer, and ALL segmentations of what WriteTo wrote, ReadFrom returns exactly
   those packets, in order, then the stream's final error; every WriteTo returned (len, nil).
   Hypothesis [delivers]: no write buffering, or a writeProcess buffer that holds the frame of an
   MTU-sized packet (the pinned code has receiveMTU: Findings/F_C14.v, C14_buffered_mtu_packet_refuted). *)
Theorem C14_write_read_composition : forall v wbuf ps blen bcap cs e,
  delivers v wbuf ->
  Forall (fun p => length p <= mtu /\ length p <= blen) ps -> blen <= bcap ->
  Forall (fun c => c <> []) cs ->
  concat cs = concat (fst (pc_write_all v wbuf ps)) ->
  fst (pc_read_all v blen bcap (mkStream cs [] e [])) = map (fun p : bytes => RFOk (length p) p) ps ++ [RFErr e]
  /\ snd (pc_write_all v wbuf ps) = map (fun p : bytes => (length p, @None Z)) ps.
Proof. exact write_read_composition. Qed.
Print Assumptions C14_write_read_composition.

(* the extracted monitors (evaluated on the implementation's observations by bin/check) accept every
   run of the model: read side, for all streams, chunkings, capacities *)
Theorem C14_read_monitor_sound : forall cap cs tl e,
  Forall (fun c => c <> []) cs ->
  let s := mkStream cs tl e [] in
  let '(pkts, fin, s') := read_all (read_fuel s) cap s in
  all_ok (C14_read_checks cap (concat cs) tl e false pkts fin
            (stream_len s - stream_len s') (length (reqs s')) (list_max (reqs s'))) = true.
Proof. exact read_monitor_sound. Qed.
Print Assumptions C14_read_monitor_sound.

(* write side: accepted exactly for the repaired semantics ... *)
Theorem C14_write_monitor_sound : forall v werr p,
  v_reject_oversize v = true ->
  let '(ws, n, err) := write_streaming_packet v werr p in
  all_ok (C14_write_checks p werr false n err ws) = true.
Proof. exact write_monitor_sound. Qed.
Print Assumptions C14_write_monitor_sound.

(* ... and the monitor rejects what the pinned code does with an oversize packet, with these checks *)
Theorem C14_write_monitor_rejects_pinned : forall p,
  (65535 < N.of_nat (length p))%N ->
  let '(ws, n, err) := write_streaming_packet current None p in
  failed (C14_write_checks p None false n err ws)
  = ["oversize_is_error"; "oversize_writes_nothing"; "oversize_n_zero"]%string.
Proof. exact write_monitor_rejects_current. Qed.
Print Assumptions C14_write_monitor_rejects_pinned.

(* ... and the composition monitor accepts the model's write/read composition for every sequence of
   fitting packets, every segmentation and every delivering variant.  _partial: the tcpPacketConn
   monitors (pc_read, pc_write, pipe) are not proved sound on sequences containing packets that do not
   fit (> receiveMTU, > caller's buffer, > 65535) nor on damaged streams; there they are exercised
   differentially only. *)
Theorem C14_pipe_monitor_sound_partial : forall v wbuf ps bcap cs,
  delivers v wbuf ->
  Forall (fun p => length p <= mtu /\ length p <= bcap) ps ->
  Forall (fun c => c <> []) cs ->
  concat cs = concat (fst (pc_write_all v wbuf ps)) ->
  all_ok (C14_pipe_checks bcap ps false (snd (pc_write_all v wbuf ps))
            (fst (pc_read_all v bcap bcap (mkStream cs [] err_eof [])))) = true.
Proof. exact pipe_monitor_sound. Qed.
Print Assumptions C14_pipe_monitor_sound_partial.

(* non-vacuity: packets "AB", "" and "C" framed, cut into 1-byte chunks, satisfy the hypotheses of
   C14_roundtrip (capacity 2) and come back; a repaired variant satisfies [delivers] and
   [v_reject_oversize]; a 3-byte stream whose header announces 5 bytes is a truncation *)
Example C14_example :
  let ps := [["A"; "B"]; []; ["C"]]%char in
  let cs := map (fun b => [b]) (concat (map frame_raw ps)) in
  Forall (fits_in 2) ps /\ Forall (fun c : bytes => c <> []) cs /\ concat cs = concat (map frame_raw ps) /\
  fst (read_all (read_fuel (mkStream cs [] 0%Z [])) 2 (mkStream cs [] 0%Z [])) = (ps, PErr 0%Z) /\
  (let v := mkVariant true (mtu + 2) true true in delivers v 1 /\ v_reject_oversize v = true) /\
  fst (read_packet 8 (mkStream [["000"; "005"; "x"]%char] [] 0%Z [])) = PErr 0%Z.
Proof. exact framing_example. Qed.
