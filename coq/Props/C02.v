(* C02: unauthenticated or mismatched STUN never influences the agent.
   Statements only; proofs are in Proofs/AgentC02.v.  All theorems quantify over EVERY state s
   (a fortiori every state reachable by any history, including after Restart), every local
   candidate, source address and message record.  "= (s, [])" is equality of the whole state
   record (pairs, candidates, selection, liveness timestamps, pending list, counters) with no output. *)
From Coq Require Import ZArith Bool List.
From Ice Require Import Model.AgentTypes Model.AgentCore Gen.Consts Proofs.AgentC02 Proofs.AgentC02Hist.
From Ice Require Import Gen.Lifecycle Proofs.AgentGenRules.
Import ListNotations.
Local Open Scope Z_scope.

Theorem C02_bad_request_inert : forall cfg s l src m,
  m_class m = 0 -> request_authentic s m = false ->
  handle_inbound cfg l src m s = (s, []).
Proof. exact handle_inbound_bad_request. Qed.
Print Assumptions C02_bad_request_inert.

Theorem C02_bad_response_inert : forall cfg s l src m,
  m_class m = 2 ->
  (response_authentic s m = false \/ find_remote (c_net l) src s = None) ->
  handle_inbound cfg l src m s = (s, []).
Proof. exact handle_inbound_bad_response. Qed.
Print Assumptions C02_bad_response_inert.

Theorem C02_response_needs_live_matching_tx : forall cfg s l src m,
  m_class m = 2 ->
  live_matching_tx cfg s l src (m_tx m) = false ->
  exists s', handle_inbound cfg l src m s = (s', []) /\ (s' = s \/ only_pending_and_liveness s s').
Proof. exact handle_inbound_response_needs_tx. Qed.
Print Assumptions C02_response_needs_live_matching_tx.

Theorem C02_other_classes_inert : forall cfg s l src m,
  (m_class m = 3 \/ m_method m <> 1) ->
  handle_inbound cfg l src m s = (s, []).
Proof. exact handle_inbound_unhandled. Qed.
Print Assumptions C02_other_classes_inert.

Theorem C02_indication_refreshes_at_most_liveness : forall cfg s l src m,
  m_class m = 1 ->
  handle_inbound cfg l src m s = (s, []) \/
  exists rc, find_remote (c_net l) src s = Some rc /\
             handle_inbound cfg l src m s = (set_s_lastrecv (assoc_set (c_h rc) (s_now s) (s_lastrecv s)) s, []).
Proof. exact handle_inbound_indication. Qed.
Print Assumptions C02_indication_refreshes_at_most_liveness.

(* the whole operation: a datagram that is inert for the message handler is inert for the agent *)
Theorem C02_step_inert : forall cfg s lh src m,
  (forall l, handle_inbound cfg l src m s = (s, [])) ->
  step cfg s (InStun lh src m) = (s, []).
Proof. exact step_instun_inert. Qed.
Print Assumptions C02_step_inert.

(* stale generation: after Restart the credentials are the new ones and the remote ones are empty, so
   a message valid only under the ended generation's credentials falls under the theorems above *)
Theorem C02_stale_generation : forall lu lp s,
  s_closed s = false ->
  let s' := fst (do_restart lu lp s) in
  s_lufrag s' = lu /\ s_lpwd s' = lp /\ s_rufrag s' = 0 /\ s_rpwd s' = 0.
Proof. exact restart_creds. Qed.
Print Assumptions C02_stale_generation.

(* non-vacuity: a state in which a well-signed request is accepted, and the same request with a wrong
   password is inert *)
Example C02_example :
  let cfg := mkConfig false 5 7 5000000000 false 25000000000 2000000000 0 0 0 0 [] false false 1 in
  let l := mkCand 1 1 1 (mkAddr false 167772161 5000) 0 2130706431 1 None in
  let s := fst (step cfg (fst (step cfg (init 1 1) (AddLocal l))) (Start false 3 4)) in
  let src := mkAddr false 3232235777 6000 in
  let good := mkMsg 0 1 2000001 (Some (1, 3)) (Some 1) false (Some (true, 9)) (Some 100) None None None in
  let bad := set_m_key (Some 4) good in
  snd (step cfg s (InStun 1 src good)) <> [] /\ step cfg s (InStun 1 src bad) = (s, []).
Proof. vm_compute. split; [discriminate|reflexivity]. Qed.

(* Over histories: every datagram that is rejected where it arrives -- a request whose USERNAME / MESSAGE-INTEGRITY do
   not verify, a success response whose MESSAGE-INTEGRITY does not verify, an error response, a non-Binding method;
   under the credentials in force at that moment, so messages of a generation ended by Restart included -- can be
   erased from ANY history, wherever and however often it occurs, without changing the final state or anything the
   agent emitted (sends, notifications, deliveries, results), in order. *)
Theorem C02_rejected_datagrams_can_be_erased : forall cfg ops s,
  exec cfg s (erase cfg s ops) = exec cfg s ops.
Proof. exact rejected_datagrams_can_be_erased. Qed.
Print Assumptions C02_rejected_datagrams_can_be_erased.

Example C02_example_erase :
  let cfg := mkConfig false 5 7 5000000000 false 25000000000 2000000000 0 0 0 0 [] false false 1 in
  let l := mkCand 1 1 1 (mkAddr false 167772161 5000) 0 2130706431 1 None in
  let src := mkAddr false 3232235777 6000 in
  let r := mkCand 2 1 1 src 0 2130706431 1 None in
  let good := mkMsg 0 1 77 (Some (1, 3)) (Some 2) true (Some (true, 9)) (Some 100) None None None in
  let badkey := mkMsg 0 1 78 (Some (1, 3)) (Some 99) true (Some (true, 9)) (Some 100) None None None in
  let err := mkMsg 3 1 1 None (Some 4) false None None None (Some 487) None in
  let ops := [AddLocal l; AddRemote r; Start false 3 4; InStun 1 src badkey; InStun 1 src good; InStun 1 src err; Tick; InStun 1 src badkey] in
  erase cfg (init 1 2) ops = [AddLocal l; AddRemote r; Start false 3 4; InStun 1 src good; Tick].
Proof. vm_compute. reflexivity. Qed.

(* ---- the two decision functions of this property that the model takes from the code (regenerated from /repo on every
   run): what they compute is pinned here, so an edit of the Go function that changes the rule breaks these proofs *)
Theorem C02_response_symmetry_rule : forall q l src,
  response_symmetric q l src = true <-> (q_net q = c_net l /\ q_dst q = src).
Proof. exact response_symmetry_rule. Qed.
Print Assumptions C02_response_symmetry_rule.

Theorem C02_inbound_filter_rule : forall method class,
  canHandleInbound method class = (method =? 1) && ((class =? 2) || (class =? 0) || (class =? 1)).
Proof. exact inbound_filter_rule. Qed.
Print Assumptions C02_inbound_filter_rule.
