(* C15: TCP mux routes connections by ufrag and cleans up after itself.
   Only theorem statements, each closed by [exact <lemma>], with Print Assumptions.

   The machine (Model/TcpMux.v) is a deterministic step function over LABELS: API calls, client
   behaviour, timers firing and every atomic action of the mux's own goroutines (handleConn's two
   critical sections, each reader iteration, the watcher goroutine of createConn, the accept loop's
   exit, wg.Wait returning).  [run cf init ops] for ALL label lists [ops] therefore covers all
   interleavings of well-behaved and hostile clients with GetConnByUfrag / RemoveConnByUfrag / Close,
   any number of connections, any packets.  [cf] (which timeouts are positive, write buffering, the
   listener address type) is universally quantified too.

   What is full and what is partial:
   - C15_rejects, C15_routing_* (lookup, attach, order, delivery, fixed route), C15_provisional_expiry,
     C15_close_complete_safety are full statements over all histories.
   - C15_routing_write_partial: WriteTo goes out on the peer's own TCP connection EXCEPT with write
     buffering on and a frame longer than receiveMTU (the faithful model drops it, as the code does:
     Findings/F_C15.v, F_C15_buffered_large_write_refuted).
   - C15_route_stable_partial / C15_get_returns_open_partial: "the packet conn handed out for a ufrag
     stays THE packet conn of that ufrag until Remove/last Close/MuxClose" holds, for the pinned code
     (cf_byid = false), only while no closed packet conn still has its watcher goroutine pending; the
     faithful model refutes the unconditional statement (Findings/F_C15.v,
     F_C15_stale_watcher_*_refuted) and so does the code.  For the repaired code (cf_byid = true:
     removal by identity, getConn ignores closed conns; the harness probes which one the
     implementation is) the premise is not needed: the same two theorems are then full.
   - C15_close_terminates_partial: termination is a variant argument over the model's goroutine set
     (no label increases the measure after Close, some timer/goroutine label decreases it while it
     is positive, at zero Close returns); it needs positive timeouts.  Real goroutine scheduling,
     the tail of a reader after its packet conn closed, time.AfterFunc's goroutine and
     bufferedConn.writeProcess (not in any WaitGroup) are not in the model: the harness's goroutine
     census covers them by polling.
   - The monitor (Model/TcpMuxSpec.v) is validated by execution only (it accepts every observation of
     the implementation except the two findings, and rejects the seeded mutants); a general theorem
     "the monitor accepts every quiescent run of the machine under prompt watchers" is NOT proved. *)
From Coq Require Import ZArith Bool String List Arith.
From Ice Require Import Gen.Consts Model.PrioSpec Model.TcpMux Model.TcpMuxSpec Proofs.TcpMuxProofs.
Import ListNotations.

(* ---------------- routing ---------------- *)

(* handleConn's lookup: a pending connection whose first frame is a Binding message with USERNAME
   "u:..." is routed to the packet conn registered under (u, family of the remote, local IP); when
   there is none a provisional one is created (alive timer armed iff the alive duration is positive) *)
Theorem C15_routing_lookup : forall cf s cid m u b,
  In cid (cids s) -> c_phase (conn s cid) = PPending -> classify m = FOk u b -> c_addr_ok (conn s cid) = true ->
  let c := conn s cid in
  let s' := next cf s (OFirst cid m) in
  match lookup cf s u (c_is6 c) (c_lip c) with
  | Some p => c_phase (conn s' cid) = PRouted p b /\ c_route (conn s' cid) = Some p /\
              c_msgs (conn s' cid) = [b] /\ c_got (conn s' cid) = [] /\ npc s' = npc s /\ pc s' = pc s /\ mp s' = mp s
  | None => cf_addr_ok cf = true ->
      c_phase (conn s' cid) = PRouted (npc s) b /\ c_route (conn s' cid) = Some (npc s) /\
      c_msgs (conn s' cid) = [b] /\ c_got (conn s' cid) = [] /\ npc s' = S (npc s) /\
      pc s' (npc s) = mkP u (c_is6 c) (c_lip c) false (cf_alive cf) true 0 true /\
      mp s' u (c_is6 c) (c_lip c) = Some (npc s)
  end.
Proof. exact first_ok_routes. Qed.
Print Assumptions C15_routing_lookup.

(* AddConn: the routed connection enters that packet conn's table and its reader starts with the
   first message in hand *)
Theorem C15_routing_attach : forall cf s cid p b,
  In cid (cids s) -> c_phase (conn s cid) = PRouted p b ->
  p_closed (pc s p) = false -> find_att s p (c_raddr (conn s cid)) = None ->
  let s' := next cf s (OAttach cid) in
  c_att (conn s' cid) = Some p /\ c_reader (conn s' cid) = Some p /\ c_hold (conn s' cid) = Some (IData b) /\
  c_srv_closed (conn s' cid) = false /\ c_msgs (conn s' cid) = c_msgs (conn s cid) /\ c_route (conn s' cid) = c_route (conn s cid).
Proof. exact attach_effect. Qed.
Print Assumptions C15_routing_attach.

(* ... and when the packet conn was closed in between, or the remote address is already present,
   the TCP connection is closed instead (never left half-attached) *)
Theorem C15_routing_attach_failure : forall cf s cid p b,
  In cid (cids s) -> c_phase (conn s cid) = PRouted p b ->
  (p_closed (pc s p) = true \/ find_att s p (c_raddr (conn s cid)) <> None) ->
  let s' := next cf s (OAttach cid) in
  c_srv_closed (conn s' cid) = true /\ c_att (conn s' cid) = None /\ c_reader (conn s' cid) = None.
Proof. exact attach_failure_closes. Qed.
Print Assumptions C15_routing_attach_failure.

(* the packet conn chosen for a connection never changes afterwards, and neither does that packet
   conn's (ufrag, family, local IP) *)
Theorem C15_routing_route_fixed : forall cf ops ops2 k p,
  let s := run cf init ops in
  c_route (conn s k) = Some p ->
  let s' := run cf s ops2 in
  c_route (conn s' k) = Some p /\ p < npc s /\
  p_ufrag (pc s' p) = p_ufrag (pc s p) /\ p_is6 (pc s' p) = p_is6 (pc s p) /\ p_ip (pc s' p) = p_ip (pc s p).
Proof. exact route_fixed. Qed.
Print Assumptions C15_routing_route_fixed.

(* every packet ReadFrom returns, in every history: it comes from a connection routed to the packet
   conn behind that handle, never rejected, carries that connection's remote address, and is exactly
   the next undelivered message of what that client sent (first message first): in order, no
   duplicate, no loss in the middle *)
Theorem C15_routing_delivery : forall cf ops h cid a b s',
  let s := run cf init ops in
  step cf s (ORead h cid) = (s', XPkt a b) ->
  exists p rest,
    hnd s h = Some (p, false) /\ p_closed (pc s p) = false /\
    c_route (conn s cid) = Some p /\ c_reader (conn s cid) = Some p /\
    a = c_raddr (conn s cid) /\
    c_msgs (conn s cid) = c_got (conn s cid) ++ b :: rest /\
    c_got (conn s' cid) = c_got (conn s cid) ++ [b] /\
    c_rejected (conn s cid) = false.
Proof. exact delivery_sound. Qed.
Print Assumptions C15_routing_delivery.

Theorem C15_routing_in_order : forall cf ops k,
  let s := run cf init ops in exists rest, c_msgs (conn s k) = c_got (conn s k) ++ rest.
Proof. exact delivered_prefix. Qed.
Print Assumptions C15_routing_in_order.

(* nothing is withheld: while a connection's reader is alive and has not hit an error, what remains
   to be delivered is exactly what the client sent and was not delivered yet; what the reader holds
   is handed to the next ReadFrom that picks it, and the reader then takes the next frame *)
Theorem C15_routing_nothing_withheld : forall cf ops k p,
  let s := run cf init ops in
  c_reader (conn s k) = Some p ->
  (forall e, c_hold (conn s k) <> Some (IErr e)) ->
  c_route (conn s k) = Some p /\ p_closed (pc s p) = false /\
  c_msgs (conn s k) = c_got (conn s k) ++ held (conn s k) ++ c_stream (conn s k).
Proof. exact next_delivery_exact. Qed.
Print Assumptions C15_routing_nothing_withheld.

Theorem C15_routing_read_enabled : forall cf s h p cid b,
  hnd s h = Some (p, false) -> p_closed (pc s p) = false -> In cid (cids s) ->
  c_reader (conn s cid) = Some p -> c_hold (conn s cid) = Some (IData b) ->
  snd (step cf s (ORead h cid)) = XPkt (c_raddr (conn s cid)) b.
Proof. exact read_delivers. Qed.
Print Assumptions C15_routing_read_enabled.

Theorem C15_routing_reader_progress : forall cf s cid p b rest,
  In cid (cids s) -> c_reader (conn s cid) = Some p -> c_hold (conn s cid) = None ->
  c_stream (conn s cid) = b :: rest -> (slen b <= receiveMTU)%Z ->
  let s' := next cf s (OPull cid) in
  c_hold (conn s' cid) = Some (IData b) /\ c_stream (conn s' cid) = rest /\ c_reader (conn s' cid) = Some p.
Proof. exact pull_progress. Qed.
Print Assumptions C15_routing_reader_progress.

(* WriteTo(peer) appends to the out-queue of the ONE connection attached under that address to the
   packet conn behind the handle -- the connection whose messages are delivered on that same packet
   conn -- and to no other.  PARTIAL: excludes write buffering with a frame longer than receiveMTU. *)
Theorem C15_routing_write_partial : forall cf ops h p r b k,
  let s := run cf init ops in
  hnd s h = Some (p, false) -> find_att s p r = Some k -> c_cli_closed (conn s k) = false ->
  (cf_wbuf cf = false \/ cf_wdrop cf = false \/ (slen b + streamingPacketHeaderLen <= receiveMTU)%Z) ->
  let s' := next cf s (OWrite h r b) in
  snd (step cf s (OWrite h r b)) = XN (slen b) /\
  c_out (conn s' k) = c_out (conn s k) ++ [b] /\
  (forall k', k' <> k -> conn s' k' = conn s k') /\
  c_route (conn s k) = Some p /\ c_raddr (conn s k) = r /\
  (forall k', c_att (conn s k') = Some p -> c_raddr (conn s k') = r -> k' = k).
Proof. exact write_same_conn_hist. Qed.
Print Assumptions C15_routing_write_partial.

(* an open packet conn is the one registered under its key (so C15_routing_lookup sends every client
   naming its ufrag to it) ... *)
Theorem C15_route_registered : forall cf ops p,
  let s := run cf init ops in
  p_closed (pc s p) = false ->
  mp s (p_ufrag (pc s p)) (p_is6 (pc s p)) (p_ip (pc s p)) = Some p.
Proof. exact open_pc_registered_hist. Qed.
Print Assumptions C15_route_registered.

(* ... it is closed only by: RemoveConnByUfrag of its ufrag, the Close of its last handle, its alive
   timer, TCPMuxDefault.Close -- or by the watcher goroutine of ANOTHER, already closed packet conn
   that was registered under the same (ufrag, local IP) (removal by key).  All interleavings. *)
Theorem C15_closed_only_by : forall cf ops o p,
  let s := run cf init ops in
  p_closed (pc s p) = false -> p_closed (pc (next cf s o) p) = true ->
  match o with
  | ORemove u => u = p_ufrag (pc s p)
  | OHClose h => hnd s h = Some (p, false) /\ (p_refs (pc s p) - 1 <= 0)%Z
  | OExpire u f i => mp s u f i = Some p /\ p_timer (pc s p) = true
  | OMuxClose => mclosed s = false
  | OWatcher q => cf_byid cf = false /\ q <> p /\ p_closed (pc s q) = true /\ p_watcher (pc s q) = true /\
                  p_ufrag (pc s q) = p_ufrag (pc s p) /\ p_ip (pc s q) = p_ip (pc s p)
  | _ => False
  end.
Proof. exact closed_only_by_hist. Qed.
Print Assumptions C15_closed_only_by.

(* PARTIAL for the pinned code (what is missing: the premise about stale watchers cannot be discharged
   for cf_byid = false); FULL for the repaired code (left disjunct): a packet conn is closed only
   with a cause in the history *)
Theorem C15_route_stable_partial : forall cf ops o p,
  let s := run cf init ops in
  (cf_byid cf = true \/
   forall q, q <> p -> p_closed (pc s q) = true -> p_watcher (pc s q) = true ->
             ~ (p_ufrag (pc s q) = p_ufrag (pc s p) /\ p_ip (pc s q) = p_ip (pc s p))) ->
  p_closed (pc s p) = false -> p_closed (pc (next cf s o) p) = true ->
  match o with
  | ORemove u => u = p_ufrag (pc s p)
  | OHClose h => hnd s h = Some (p, false) /\ (p_refs (pc s p) - 1 <= 0)%Z
  | OExpire u f i => mp s u f i = Some p /\ p_timer (pc s p) = true
  | OMuxClose => mclosed s = false
  | _ => False
  end.
Proof. exact no_spurious_close_hist. Qed.
Print Assumptions C15_route_stable_partial.

(* PARTIAL for the pinned code, FULL for the repaired code (same disjunction): GetConnByUfrag hands
   out an OPEN packet conn registered under the key, with its alive timer stopped *)
Theorem C15_get_returns_open_partial : forall cf ops h u is6 ip,
  let s := run cf init ops in
  (cf_byid cf = true \/ no_pending_watcher s) -> mclosed s = false -> cf_addr_ok cf = true ->
  let s' := next cf s (OGet h u is6 ip) in
  exists p, hnd s' h = Some (p, false) /\ p_closed (pc s' p) = false /\ mp s' u is6 ip = Some p /\
            p_ufrag (pc s' p) = u /\ p_is6 (pc s' p) = is6 /\ p_ip (pc s' p) = ip /\ p_timer (pc s' p) = false.
Proof. exact get_returns_open_hist. Qed.
Print Assumptions C15_get_returns_open_partial.

(* ---------------- rejects ---------------- *)

(* the bad first-frame classes: oversized (> 512), not STUN Binding (does not decode, or another
   method), no USERNAME [bad_class]; late (the read deadline fires, when a positive timeout is
   configured); early close.  Such a connection is closed and, whatever happens afterwards, is never
   attached, never has a reader, never delivers anything, is never routed. *)
Theorem C15_rejects : forall cf ops1 cid o ops2,
  let s1 := run cf init ops1 in
  In cid (cids s1) -> c_phase (conn s1 cid) = PPending -> reject_label cf s1 cid o ->
  let s := run cf (next cf s1 o) ops2 in
  c_srv_closed (conn s cid) = true /\ c_att (conn s cid) = None /\ c_reader (conn s cid) = None /\
  c_got (conn s cid) = [] /\ c_route (conn s cid) = None /\ c_phase (conn s cid) = PDone.
Proof. exact rejects_all. Qed.
Print Assumptions C15_rejects.

(* ---------------- provisional expiry ---------------- *)

(* (a provisional packet conn is created with its timer armed: C15_routing_lookup, None branch.)
   When the timer of the packet conn registered under a key fires it is closed together with every
   TCP connection in its table and every reader; if GetConnByUfrag claims it first (before Close) the
   timer is off for the rest of every history and its firing is a no-op. *)
Theorem C15_provisional_expiry : forall cf ops u is6 ip p,
  let s := run cf init ops in
  mp s u is6 ip = Some p ->
  (p_timer (pc s p) = true ->
     let s' := next cf s (OExpire u is6 ip) in
     p_closed (pc s' p) = true /\ p_timer (pc s' p) = false /\
     (forall k, c_att (conn s k) = Some p ->
                c_srv_closed (conn s' k) = true /\ c_att (conn s' k) = None /\ c_reader (conn s' k) = None) /\
     (forall k, c_reader (conn s k) = Some p -> c_reader (conn s' k) = None)) /\
  (mclosed s = false -> lookup cf s u is6 ip = Some p -> forall h ops2,
     let s1 := next cf s (OGet h u is6 ip) in
     let s2 := run cf s1 ops2 in
     hnd s1 h = Some (p, false) /\ p_timer (pc s2 p) = false /\
     (mp s2 u is6 ip = Some p -> next cf s2 (OExpire u is6 ip) = s2)).
Proof. exact expiry_hist. Qed.
Print Assumptions C15_provisional_expiry.

(* ---------------- Close ---------------- *)

(* in every history, once Close has returned: the listener is closed, every TCP connection ever
   accepted is closed, detached and without reader or handleConn, every packet conn is closed with
   its watcher goroutine gone and its timer off, the accept loop has exited *)
Theorem C15_close_complete_safety : forall cf ops,
  let s := run cf init ops in
  creturned s = true ->
  lopen s = false /\ mclosed s = true /\ acc_alive s = false /\
  (forall k, c_srv_closed (conn s k) = true /\ c_phase (conn s k) = PDone /\ c_att (conn s k) = None /\
             c_reader (conn s k) = None) /\
  (forall p, p_closed (pc s p) = true /\ p_watcher (pc s p) = false /\ p_timer (pc s p) = false).
Proof. exact close_complete_safety_hist. Qed.
Print Assumptions C15_close_complete_safety.

(* Close returns only by the label that needs the WaitGroup at zero *)
Theorem C15_close_returns_only_at_zero : forall cf s o,
  creturned s = false -> creturned (next cf s o) = true ->
  o = OMuxCloseReturn /\ wg_zero s = true /\ closing s = true.
Proof. exact return_needs_wg_zero. Qed.
Print Assumptions C15_close_returns_only_at_zero.

(* PARTIAL (model goroutines, positive timeouts): after Close no label increases the measure [mu];
   from any state at most [mu] timer / goroutine labels (deadline, attach, expiry, watcher, accept
   exit) lead to a state where the WaitGroup is at zero, and there Close returns *)
Theorem C15_close_terminates_partial : forall cf ops,
  let s := run cf init ops in
  mclosed s = true -> cf_first_timeout cf = true -> cf_alive cf = true ->
  (forall o, mu (next cf s o) <= mu s) /\
  exists ops2, Forall internal ops2 /\ length ops2 <= mu s /\ wg_zero (run cf s ops2) = true /\
               (closing (run cf s ops2) = true -> creturned (run cf s ops2) = false ->
                creturned (next cf (run cf s ops2) OMuxCloseReturn) = true).
Proof. exact close_terminates_hist. Qed.
Print Assumptions C15_close_terminates_partial.

(* ---------------- non-vacuity ---------------- *)

(* a history in which every hypothesis above is met: an agent's GetConnByUfrag, a client for that
   ufrag (routed, attached, delivered in order with its address, answered on its own connection), a
   client for an unknown ufrag (provisional conn, expires), an oversized first frame (rejected), a
   slow-loris client across Close (Close blocks until its deadline), Close returning with nothing left *)
Example C15_example :
  let ops :=
    [ OGet 0 "u1" false "10.0.0.1"; OAccept 0 "192.0.2.1:5001" false "10.0.0.1" true; OFirst 0 (ex_first "u1");
      OAttach 0; OSend 0 "p1"; OSend 0 "p2" ] in
  let s := run ex_cfg init ops in
  snd (step ex_cfg s (ORead 0 0)) = XPkt "192.0.2.1:5001" "BIND" /\
  (let s1 := run ex_cfg s [ORead 0 0; OPull 0] in snd (step ex_cfg s1 (ORead 0 0)) = XPkt "192.0.2.1:5001" "p1") /\
  (let s2 := run ex_cfg s [ORead 0 0; OPull 0; ORead 0 0; OPull 0] in
   snd (step ex_cfg s2 (ORead 0 0)) = XPkt "192.0.2.1:5001" "p2" /\
   snd (step ex_cfg s2 (OWrite 0 "192.0.2.1:5001" "reply")) = XN 5) /\
  (let s3 := run ex_cfg s [OAccept 1 "192.0.2.2:5002" false "10.0.0.1" true; OFirst 1 (ex_first "zz"); OAttach 1] in
   mp s3 "zz" false "10.0.0.1" = Some 1 /\ p_timer (pc s3 1) = true /\
   c_srv_closed (conn (next ex_cfg s3 (OExpire "zz" false "10.0.0.1")) 1) = true) /\
  (let s4 := run ex_cfg s [OAccept 2 "192.0.2.3:5003" false "10.0.0.1" true; OFirst 2 ex_bad] in
   c_rejected (conn s4 2) = true /\ c_srv_closed (conn s4 2) = true) /\
  (let s5 := run ex_cfg s [OAccept 3 "192.0.2.4:5004" false "10.0.0.1" true; OMuxClose; OAcceptExit; OWatcher 0; OMuxCloseReturn] in
   creturned s5 = false /\ mu s5 = 4 /\
   creturned (run ex_cfg s5 [ODeadline 3; OMuxCloseReturn]) = true).
Proof. vm_compute. repeat split; reflexivity. Qed.
