(* C12: the UDP mux delivers each datagram to the right connection and to no other.
   Statements only, each closed by [exact <lemma>] (Proofs/UdpMuxProofs.v), with Print Assumptions.

   The model (Model/UdpMux.v) is the sequential core of UDPMuxDefault / udpMuxedConn / the handle
   GetConn returns; [reach cf s] = s is the state after some history of GetConn / WriteTo /
   inbound datagram / read error / RemoveConnByUfrag / handle Close / mux Close / Read, of any
   length, over any ufrags, addresses and payloads.  [cf] carries the two things the code's behaviour
   depends on: whether the mux listens on an unspecified address, and [remove_closes] = whether
   RemoveConnByUfrag closes what it removes (false: the pinned code; true: the proposed repair
   findings/proposed/C12-remove-closes-conn.diff).  Theorems that need the repair say so;
   the [_partial] ones say what the pinned code still guarantees. *)
From Coq Require Import ZArith NArith Bool String List.
From Ice Require Import Model.PrioSpec Model.UdpMux Proofs.UdpMuxProofs Proofs.UdpMuxMonitor.
Import ListNotations.

(* ---- routing: at most one connection, and which one (either semantics, every state) ---- *)
(* [recipient s src k c] = connection c is handed the datagram.  The queue of every connection
   grows by exactly that datagram if it is the recipient and is otherwise untouched; there is at
   most one recipient; it is the owner of the canonical source address if there is one, else the
   connection registered, for the family of the canonical source, under the ufrag before ':' of
   the STUN USERNAME; nothing else in the mux changes. *)
Theorem C12_routing : forall cf s src k b,
  let s' := fst (step cf s (OInbound src k b)) in
  (forall c, c_queue (conns s' c) = c_queue (conns s c) ++ (if recipient s src k c then [(b, src)] else [])) /\
  (forall c, c_key (conns s' c) = c_key (conns s c) /\ c_addrs (conns s' c) = c_addrs (conns s c) /\
             c_closed (conns s' c) = c_closed (conns s c) /\ c_refs (conns s' c) = c_refs (conns s c)) /\
  (forall c1 c2, recipient s src k c1 = true -> recipient s src k c2 = true -> c1 = c2) /\
  (forall c, recipient s src k c = true <->
             mclosed s = false /\ c_closed (conns s c) = false /\
             (amap s (canon src) = Some c \/
              (amap s (canon src) = None /\
               exists un, k = KStunUser un /\ mfam s (a_is6 (canon src)) (ufrag_of un) = Some c))) /\
  nconns s' = nconns s /\ handles s' = handles s /\ nhandles s' = nhandles s /\
  m4 s' = m4 s /\ m6 s' = m6 s /\ amap s' = amap s /\ mclosed s' = mclosed s.
Proof. exact routing_thm. Qed.
Print Assumptions C12_routing.

(* who "owns" an address: a write by a registered open connection binds the canonical form of the
   destination to the writer (last writer wins) ... *)
Theorem C12_write_binds : forall cf s h x len c,
  reach cf s -> writer_ok s h c -> mclosed s = false -> is_reg s c ->
  amap (fst (step cf s (OWrite h (WAddr x) len))) (canon x) = Some c /\
  snd (step cf s (OWrite h (WAddr x) len)) = RWrote len.
Proof. exact write_binds_thm. Qed.
Print Assumptions C12_write_binds.

(* ... and no binding appears in any other way: a binding a |-> c present after an operation was
   there before, or the operation is a successful write by c to an address whose canonical form is a *)
Theorem C12_binding_origin : forall cf s o a c,
  reach cf s -> amap (fst (step cf s o)) a = Some c ->
  amap s a = Some c \/
  (exists h x len, o = OWrite h (WAddr x) len /\ writer_ok s h c /\ a = canon x /\ mclosed s = false).
Proof. exact binding_origin_thm. Qed.
Print Assumptions C12_binding_origin.

(* address forms: IPv4 and IPv4-mapped IPv6 (with or without a zone) are one source; a zone
   separates sources only on link-local IPv6; canonicalisation is idempotent *)
Theorem C12_canon_alias : forall v zone port,
  (v < 2 ^ 32)%N ->
  canon (mkAddr true (N.lor (N.shiftl 65535 32) v) zone port) = canon (mkAddr false v 0 port).
Proof. exact canon_mapped_alias. Qed.
Print Assumptions C12_canon_alias.

Theorem C12_canon_zone : forall ip z1 z2 port,
  mapped_prefix ip = false ->
  (ll6 ip = false -> canon (mkAddr true ip z1 port) = canon (mkAddr true ip z2 port)) /\
  (ll6 ip = true -> z1 <> z2 -> canon (mkAddr true ip z1 port) <> canon (mkAddr true ip z2 port)).
Proof. exact canon_zone_thm. Qed.
Print Assumptions C12_canon_zone.

Theorem C12_canon_idempotent : forall a, canon (canon a) = canon a.
Proof. exact canon_idem. Qed.
Print Assumptions C12_canon_idempotent.

(* ---- identity and order (either semantics, every history, every connection) ---- *)
(* [delivered cf init ops c] = the datagrams (bytes, source as received) of the inbound operations
   of the history whose recipient was c, in arrival order.  [taken cf init ops c] = what left c's
   queue, in order: one datagram per Read on a handle of c (see C12_read_returns_head), or the
   whole remaining queue when c gets closed.  What was delivered is exactly what was taken followed
   by what is still queued: nothing is altered, duplicated, reordered or invented. *)
Theorem C12_identity_order : forall cf ops c,
  delivered cf init ops c = taken cf init ops c ++ c_queue (conns (run cf ops) c).
Proof. exact identity_order_thm. Qed.
Print Assumptions C12_identity_order.

(* a Read returns the head of the queue (bytes and source unchanged) if the buffer is large
   enough, drops it with io.ErrShortBuffer if not, and reports timeout / EOF only on an empty queue *)
Theorem C12_read_returns_head : forall cf s h bl,
  let c := h_conn (handles s h) in
  match snd (step cf s (ORead h bl)) with
  | RData b src => tkn cf s (ORead h bl) c = [(b, src)] /\ (N.of_nat (String.length b) <= bl)%N
  | RShort => exists b src, tkn cf s (ORead h bl) c = [(b, src)] /\ (bl < N.of_nat (String.length b))%N
  | RTimeout => tkn cf s (ORead h bl) c = [] /\ c_queue (conns s c) = [] /\ c_closed (conns s c) = false
  | REOF => tkn cf s (ORead h bl) c = [] /\ c_queue (conns s c) = [] /\ c_closed (conns s c) = true
  | _ => forall c', tkn cf s (ORead h bl) c' = []
  end.
Proof. exact read_result. Qed.
Print Assumptions C12_read_returns_head.

(* ---- never traffic of a different ufrag ---- *)
(* from a source nobody owns, a connection receives only STUN whose USERNAME ufrag is the very
   ufrag it was created under (and is still registered under, for the source's family) *)
Theorem C12_no_foreign_ufrag : forall cf s src k c,
  reach cf s -> recipient s src k c = true -> amap s (canon src) = None ->
  exists un, k = KStunUser un /\ c_key (conns s c) = ufrag_of un /\
             mfam s (a_is6 (canon src)) (ufrag_of un) = Some c.
Proof. exact no_foreign_ufrag_thm. Qed.
Print Assumptions C12_no_foreign_ufrag.

(* ---- after close ---- *)
(* either semantics: a closed connection has an empty queue, is nobody's recipient, is registered
   under no ufrag, and all of that stays so whatever happens next *)
Theorem C12_after_close_receives_nothing : forall cf s c,
  reach cf s -> c < nconns s -> c_closed (conns s c) = true ->
  c_queue (conns s c) = [] /\ (forall src k, recipient s src k c = false) /\ unreg s c /\
  forall ops, c_closed (conns (run_from cf s ops) c) = true /\ c_queue (conns (run_from cf s ops) c) = [] /\
              delivered cf s ops c = [].
Proof. exact closed_forever_thm. Qed.
Print Assumptions C12_after_close_receives_nothing.

(* repaired semantics: ... and it owns no address, now and later, as long as the mux is open
   (mux Close itself leaves addressMap as it is; nothing is dispatched after it) *)
Theorem C12_after_close : forall cf s c,
  remove_closes cf = true -> reach cf s -> c < nconns s -> c_closed (conns s c) = true ->
  (mclosed s = false -> unbound s c) /\
  forall ops, mclosed (run_from cf s ops) = false -> unbound (run_from cf s ops) c.
Proof. exact after_close_fixed_thm. Qed.
Print Assumptions C12_after_close.

(* pinned semantics (holds for both): the bindings are gone for a connection that was still
   registered when its last handle was closed.  MISSING for the pinned code: a connection that was
   removed by RemoveConnByUfrag, wrote to a new address and was closed afterwards keeps that
   binding (its watcher's RemoveConnByUfrag no longer finds it) - Findings/F_C12.v *)
Theorem C12_after_close_partial : forall cf s h ops,
  reach cf s -> h < nhandles s -> h_closed (handles s h) = false ->
  let c := h_conn (handles s h) in
  is_reg s c -> c_closed (conns s c) = false -> (c_refs (conns s c) - 1 <= 0)%Z ->
  let s' := run_from cf (fst (step cf s (OCloseH h))) ops in
  Dead s' c /\ c_closed (conns s' c) = true /\ c_queue (conns s' c) = [] /\
  delivered cf (fst (step cf s (OCloseH h))) ops c = [].
Proof. exact after_close_partial_thm. Qed.
Print Assumptions C12_after_close_partial.

(* ---- after RemoveConnByUfrag ---- *)
(* repaired semantics: whatever was registered under the removed ufrag is from then on closed,
   empty, owns no address, is registered nowhere and is nobody's recipient - for every
   continuation, writes through its old handles included *)
Theorem C12_after_remove : forall cf s u c ops,
  remove_closes cf = true -> reach cf s -> reg_under s u c ->
  let s1 := fst (step cf s (ORemove u)) in
  let s' := run_from cf s1 ops in
  Dead s' c /\ c_closed (conns s' c) = true /\ c_queue (conns s' c) = [] /\ delivered cf s1 ops c = [] /\
  (forall src k, recipient s' src k c = false).
Proof. exact after_remove_fixed_thm. Qed.
Print Assumptions C12_after_remove.

(* either semantics, in particular the pinned code: the same UNTIL THE REMOVED CONNECTION WRITES
   AGAIN ([quiet]: no WriteTo through one of its handles).  It then owns nothing, is registered
   nowhere, is handed nothing; its queue only loses what Read takes.  MISSING for the pinned code:
   the unconditional statement - it is false, see Findings/F_C12.v (C12_after_remove_refuted) and the
   replay in the check's report. *)
Theorem C12_after_remove_partial : forall cf s u c ops,
  reach cf s -> reg_under s u c ->
  let s1 := fst (step cf s (ORemove u)) in
  quiet cf s1 ops c ->
  let s' := run_from cf s1 ops in
  Dead s' c /\ delivered cf s1 ops c = [] /\ (forall src k, recipient s' src k c = false) /\
  c_queue (conns s1 c) = taken cf s1 ops c ++ c_queue (conns s' c).
Proof. exact after_remove_partial_thm. Qed.
Print Assumptions C12_after_remove_partial.

(* ---- structural invariant behind the above (either semantics, every reachable state) ---- *)
Theorem C12_invariant : forall cf s, reach cf s -> Inv s.
Proof. exact reach_inv. Qed.
Print Assumptions C12_invariant.

Theorem C12_invariant_repaired : forall cf s, remove_closes cf = true -> reach cf s -> InvFix s.
Proof. exact reach_invfix. Qed.
Print Assumptions C12_invariant_repaired.

(* ---- the executable monitor (what bin/check evaluates on the implementation's observations) ---- *)
(* The monitor keeps a reference routing table of its own (registered ufrags, last LIVE writer per
   canonical address, Live/Removed/Closed status, expected read sequence per connection) and checks
   every observed result, queue length and address binding against it.  With the repaired
   RemoveConnByUfrag it accepts every run of the model, of any length: *)
Theorem C12_monitor_sound : forall cf ops,
  remove_closes cf = true -> C12_monitor (observe cf init ops) = true.
Proof. exact monitor_sound_fixed_thm. Qed.
Print Assumptions C12_monitor_sound.

(* with the pinned semantics it accepts every run in which no connection that is open but no
   longer registered (i.e. removed by RemoveConnByUfrag and left open) is written through or
   closed ([clean]).  MISSING: the runs that are not clean - there the pinned model, like the pinned
   code, is rejected (Findings/F_C12.v, C12_monitor_rejects_pinned). *)
Theorem C12_monitor_sound_partial : forall cf ops,
  clean cf init ops -> C12_monitor (observe cf init ops) = true.
Proof. exact monitor_sound_clean_thm. Qed.
Print Assumptions C12_monitor_sound_partial.

(* non-vacuity: a history in which all the hypotheses above are met - two connections, a takeover
   of an address (IPv4 then its IPv4-mapped form), a datagram routed by address, one by ufrag, a
   removal - evaluated on the model *)
Example C12_example :
  let cf := mkCfg true true in
  let x := mkAddr false 167772417 0 5000 in
  let xm := mkAddr true (N.lor (N.shiftl 65535 32) 167772417) 0 5000 in
  let y := mkAddr false 167772418 0 5001 in
  let ops := [OGetConn "uA" false true; OGetConn "uB" false true;
              OWrite 0 (WAddr x) 3; OWrite 1 (WAddr xm) 3;
              OInbound x KRaw "p1"; OInbound y (KStunUser "uA:r") "p2"; ORemove "uB";
              OInbound xm KRaw "p3"] in
  let s := run cf ops in
  reach cf s /\ c_queue (conns s 0) = [("p2"%string, y)] /\ c_queue (conns s 1) = [] /\
  c_closed (conns s 1) = true /\ reg_under (run cf (firstn 6 ops)) "uB" 1 /\
  recipient (run cf (firstn 4 ops)) x KRaw 1 = true /\
  delivered cf init ops 1 = [("p1"%string, x)] /\ taken cf init ops 1 = [("p1"%string, x)].
Proof.
  cbv zeta. split; [apply reach_run|]. vm_compute. repeat split; auto.
Qed.
