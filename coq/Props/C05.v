(* C05: role conflicts resolve by tie-breaker into opposite roles (RFC 8445 7.3.1.1).
   Statements only; proofs in Proofs/AgentC05.v.  Every theorem holds for EVERY agent state. *)
From Coq Require Import ZArith Bool List.
From Ice Require Import Model.AgentTypes Model.AgentCore Model.PairMonitor Model.TwoAgents Gen.Consts Proofs.AgentFrame Proofs.AgentC02 Proofs.AgentC05
  Proofs.TwoAgentsRoles.
Import ListNotations.
Local Open Scope Z_scope.

(* An authenticated Binding request from a known remote that carries the receiver's own role:
   a controlling receiver with tie-breaker >= the sender's, and a controlled receiver with a smaller
   one, keep their role and answer exactly one 487 (same transaction id, signed with the local
   password), the whole state being unchanged; otherwise the receiver switches role (only the role and
   the re-started selector change) and sends nothing.  In neither case is there a success response, a
   nomination, a change of a pair or of the selection: the request is not treated as a check. *)
Theorem C05_decision_known_remote : forall cfg s l src m rc tb,
  m_class m = 0 -> m_method m = 1 -> request_authentic s m = true ->
  find_remote (c_net l) src s = Some rc ->
  m_ctl m = Some (s_ctl s, tb) ->
  handle_inbound cfg l src m s =
  if keeps_role cfg s tb then (s, [OSend (c_h l) (c_addr rc) (role_conflict_error s m)])
  else (switched_role s, []).
Proof. exact request_with_own_role_known. Qed.
Print Assumptions C05_decision_known_remote.

(* From an unknown source the peer-reflexive candidate is learnt first (nothing sent; role, credentials,
   selection, state, transactions unchanged; the checklist only extended by fresh Waiting pairs), unless
   the agent has failed or the remote IP filter rejects it (then the request is dropped); the same
   decision then applies. *)
Theorem C05_decision_unknown_source : forall cfg s l src m tb,
  m_class m = 0 -> m_method m = 1 -> request_authentic s m = true ->
  find_remote (c_net l) src s = None ->
  m_ctl m = Some (s_ctl s, tb) ->
  let rc := learn_prflx cfg l src m s in
  let s0 := set_s_next_h (s_next_h s + 1) s in
  let set := filter (fun e => c_net e =? c_net rc) (s_remotes s) in
  (((s_conn s =? ConnectionStateFailed) || negb (accepts_remote cfg rc)) = true ->
     handle_inbound cfg l src m s = (s0, [])) /\
  (((s_conn s =? ConnectionStateFailed) || negb (accepts_remote cfg rc)) = false ->
     exists s1, (s1 = s0 \/ s1 = fst (add_remote_body rc set s0)) /\
       core_view s1 = core_view s /\
       (exists ext, s_checklist s1 = s_checklist s ++ ext /\ Forall fresh_pair ext) /\
       handle_inbound cfg l src m s =
         if keeps_role cfg s1 tb then (s1, [OSend (c_h l) (c_addr rc) (role_conflict_error s1 m)])
         else (switched_role s1, [])).
Proof. exact request_with_own_role_unknown. Qed.
Print Assumptions C05_decision_unknown_source.

Theorem C05_switch_touches_only_role : forall s,
  s_checklist (switched_role s) = s_checklist s /\ s_selected (switched_role s) = s_selected s /\
  s_conn (switched_role s) = s_conn s /\ s_remotes (switched_role s) = s_remotes s /\
  s_locals (switched_role s) = s_locals s /\ s_pending (switched_role s) = s_pending s /\
  s_ctl (switched_role s) = negb (s_ctl s).
Proof. exact switched_role_frame. Qed.
Print Assumptions C05_switch_touches_only_role.

(* two agents in the same role with distinct tie-breakers take opposite decisions, for all pairs of values *)
Theorem C05_opposite_decisions : forall (ctl : bool) (tb_a tb_b : Z),
  tb_a <> tb_b ->
  let keeps (own their : Z) := (ctl && (their <=? own)) || (negb ctl && (own <? their)) in
  keeps tb_a tb_b = negb (keeps tb_b tb_a).
Proof. exact keeps_role_antisymmetric. Qed.
Print Assumptions C05_opposite_decisions.

(* non-vacuity: the boundary cases own = theirs, for both roles *)
Example C05_example_boundaries :
  let cfg tb := mkConfig false tb 7 5000000000 false 25000000000 2000000000 0 0 0 0 [] false false 1 in
  let s ctl := set_s_ctl ctl (init 1 1) in
  keeps_role (cfg 5) (s true) 5 = true /\ keeps_role (cfg 5) (s false) 5 = false /\
  keeps_role (cfg 5) (s true) 6 = false /\ keeps_role (cfg 5) (s false) 6 = true /\
  keeps_role (cfg 18446744073709551615) (s true) 0 = true /\ keeps_role (cfg 0) (s false) 18446744073709551615 = true.
Proof. vm_compute. repeat split. Qed.

(* ---- "two agents started in the same role with distinct tie-breakers end in opposite roles under every
   message ordering": the two-agent system of Model/TwoAgents.v (each side the full agent core; the network
   delivers, drops, duplicates and reorders at will).  For every topology, every pair of configurations with
   distinct tie-breakers, every state in which both agents have been started in role r and nothing is in
   flight, and every schedule [ops] of API calls, ticks, deliveries, losses and duplications from there:
   - the agent the rule lets keep its role (A iff [keeps r tbA tbB]) still has role r;
   - if the other agent has role (not r), both roles stay as they are under every continuation [more];
   - if it still has role r, delivering ANY in-flight check of the keeper that it accepts (open agent, known
     local candidate, authentic, carrying a role attribute, source known or learnable) switches it.
   So the roles can only be equal while no check of the keeper has got through, and never again afterwards.
   What is not a theorem here: that such a check is eventually delivered (a liveness property of the network
   and of the timers; the pair suite exercises it, monitor C05.opposite_roles at quiescence). *)
Theorem C05_same_role_conflict_resolves : forall cfga cfgb t r sy0,
  cf_tiebreaker cfga <> cf_tiebreaker cfgb -> started_in_same_role r sy0 ->
  let ka := keeps r (cf_tiebreaker cfga) (cf_tiebreaker cfgb) in
  forall ops, let sy := sys_run cfga cfgb t sy0 ops in
  s_ctl (agent_of ka sy) = r /\
  (s_ctl (agent_of (negb ka) sy) = negb r ->
   forall more, s_ctl (agent_of (negb ka) (sys_run cfga cfgb t sy more)) = negb r /\
                s_ctl (agent_of ka (sys_run cfga cfgb t sy more)) = r) /\
  (s_ctl (agent_of (negb ka) sy) = r ->
   forall n f, nth_error (sy_net sy) n = Some f -> f_to_a f = negb ka ->
     accepted_check (cfg_of cfga cfgb (negb ka)) (agent_of (negb ka) sy) f ->
     s_ctl (agent_of (negb ka) (sys_step cfga cfgb t sy (SDeliver n))) = negb r).
Proof. exact same_role_conflict_resolves. Qed.
Print Assumptions C05_same_role_conflict_resolves.

(* the invariant behind it, for one step of the system from ANY state satisfying it (not only reachable ones) *)
Theorem C05_role_invariant_step : forall cfga cfgb t r ka sy o,
  keeps r (tbK cfga cfgb ka) (tbO cfga cfgb ka) = true ->
  RoleInv cfga cfgb r ka sy -> RoleInv cfga cfgb r ka (sys_step cfga cfgb t sy o).
Proof. exact sys_step_preserves_RoleInv. Qed.
Print Assumptions C05_role_invariant_step.

(* non-vacuity: both sides started controlling (resp. controlled); before any delivery the roles are equal,
   the first check that gets through makes them opposite, and the loser is the one the rule names *)
Module C05_example_two_agents.
  Definition cfg t := mkConfig false t 7 5000000000 false 25000000000 0 0 0 0 0 [] false false 1.
  Definition aA := mkAddr false 167772161 5000.
  Definition aB := mkAddr false 3232235777 6000.
  Definition la := mkCand 1 1 1 aA 0 2130706431 1 None.
  Definition lb := mkCand 1 1 1 aB 0 2130706431 1 None.
  Definition topo := mkTopology [mkEndpoint 1 aA] [mkEndpoint 1 aB] [[(true, true)]].
  Definition setup r :=
    [SApi true (AddLocal la); SApi false (AddLocal lb); SApi true (AddRemote (set_c_h 2 lb)); SApi false (AddRemote (set_c_h 2 la));
     SApi true (Start r 3 4); SApi false (Start r 1 2)].
  Definition sy0 r := sys_run (cfg 5) (cfg 6) topo (sys_init 1 2 3 4) (setup r).
  Definition roles sy := (s_ctl (sy_a sy), s_ctl (sy_b sy)).
  Example hypothesis_holds : started_in_same_role true (sy0 true) /\ started_in_same_role false (sy0 false).
  Proof. vm_compute. repeat split. Qed.
  (* both controlling: B (tie-breaker 6) keeps; A's check reaches B first and is answered 487; B's check switches A *)
  Example both_controlling :
    keeps true 5 6 = false /\
    roles (sys_run (cfg 5) (cfg 6) topo (sy0 true) [SApi true Tick; SApi false Tick]) = (true, true) /\
    roles (sys_run (cfg 5) (cfg 6) topo (sy0 true) [SApi true Tick; SApi false Tick; SDeliver 0]) = (true, true) /\
    roles (sys_run (cfg 5) (cfg 6) topo (sy0 true) [SApi true Tick; SApi false Tick; SDeliver 0; SDeliver 0]) = (false, true).
  Proof. vm_compute. repeat split. Qed.
  (* both controlled: A (the smaller tie-breaker) keeps *)
  Example both_controlled :
    keeps false 5 6 = true /\
    roles (sys_run (cfg 5) (cfg 6) topo (sy0 false) [SApi true Tick; SApi false Tick; SDeliver 1]) = (false, false) /\
    roles (sys_run (cfg 5) (cfg 6) topo (sy0 false) [SApi true Tick; SApi false Tick; SDeliver 1; SDeliver 0]) = (false, true).
  Proof. vm_compute. repeat split. Qed.
End C05_example_two_agents.
