(* C05: role conflicts resolve by tie-breaker into opposite roles (RFC 8445 7.3.1.1).
   Statements only; proofs in Proofs/AgentC05.v.  Every theorem holds for EVERY agent state. *)
From Coq Require Import ZArith Bool List.
From Ice Require Import Model.AgentTypes Model.AgentCore Gen.Consts Proofs.AgentFrame Proofs.AgentC02 Proofs.AgentC05.
Import ListNotations.
Local Open Scope Z_scope.

(* An authenticated Binding request from a known remote that carries the receiver's own role:
   a controlling receiver with tie-breaker >= the sender's, and a controlled receiver with a smaller
   one, keep their role and answer exactly one 487 (same transaction id, signed with the local
   password), the whole state being unchanged; otherwise the receiver switches role (only the role and
   the re-started selector change) and sends nothing.  In neither case is there a success response, a
   nomination, a change of a pair or of the selection: the request is not treated as a check. *)
Theorem C05_decision_known_remote : forall cfg s l src m rc tb,
  m_class m = 0 -> m_method m = 1 -> request_authentic s m = true ->
  find_remote (c_net l) src s = Some rc ->
  m_ctl m = Some (s_ctl s, tb) ->
  handle_inbound cfg l src m s =
  if keeps_role cfg s tb then (s, [OSend (c_h l) (c_addr rc) (role_conflict_error s m)])
  else (switched_role s, []).
Proof. exact request_with_own_role_known. Qed.
Print Assumptions C05_decision_known_remote.

(* From an unknown source the peer-reflexive candidate is learnt first (nothing sent; role, credentials,
   selection, state, transactions unchanged; the checklist only extended by fresh Waiting pairs), unless
   the agent has failed or the remote IP filter rejects it (then the request is dropped); the same
   decision then applies. *)
Theorem C05_decision_unknown_source : forall cfg s l src m tb,
  m_class m = 0 -> m_method m = 1 -> request_authentic s m = true ->
  find_remote (c_net l) src s = None ->
  m_ctl m = Some (s_ctl s, tb) ->
  let rc := learn_prflx cfg l src m s in
  let s0 := set_s_next_h (s_next_h s + 1) s in
  let set := filter (fun e => c_net e =? c_net rc) (s_remotes s) in
  (((s_conn s =? ConnectionStateFailed) || negb (accepts_remote cfg rc)) = true ->
     handle_inbound cfg l src m s = (s0, [])) /\
  (((s_conn s =? ConnectionStateFailed) || negb (accepts_remote cfg rc)) = false ->
     exists s1, (s1 = s0 \/ s1 = fst (add_remote_body rc set s0)) /\
       core_view s1 = core_view s /\
       (exists ext, s_checklist s1 = s_checklist s ++ ext /\ Forall fresh_pair ext) /\
       handle_inbound cfg l src m s =
         if keeps_role cfg s1 tb then (s1, [OSend (c_h l) (c_addr rc) (role_conflict_error s1 m)])
         else (switched_role s1, [])).
Proof. exact request_with_own_role_unknown. Qed.
Print Assumptions C05_decision_unknown_source.

Theorem C05_switch_touches_only_role : forall s,
  s_checklist (switched_role s) = s_checklist s /\ s_selected (switched_role s) = s_selected s /\
  s_conn (switched_role s) = s_conn s /\ s_remotes (switched_role s) = s_remotes s /\
  s_locals (switched_role s) = s_locals s /\ s_pending (switched_role s) = s_pending s /\
  s_ctl (switched_role s) = negb (s_ctl s).
Proof. exact switched_role_frame. Qed.
Print Assumptions C05_switch_touches_only_role.

(* two agents in the same role with distinct tie-breakers take opposite decisions, for all pairs of values *)
Theorem C05_opposite_decisions : forall (ctl : bool) (tb_a tb_b : Z),
  tb_a <> tb_b ->
  let keeps (own their : Z) := (ctl && (their <=? own)) || (negb ctl && (own <? their)) in
  keeps tb_a tb_b = negb (keeps tb_b tb_a).
Proof. exact keeps_role_antisymmetric. Qed.
Print Assumptions C05_opposite_decisions.

(* non-vacuity: the boundary cases own = theirs, for both roles *)
Example C05_example_boundaries :
  let cfg tb := mkConfig false tb 7 5000000000 false 25000000000 2000000000 0 0 0 0 [] false false 1 in
  let s ctl := set_s_ctl ctl (init 1 1) in
  keeps_role (cfg 5) (s true) 5 = true /\ keeps_role (cfg 5) (s false) 5 = false /\
  keeps_role (cfg 5) (s true) 6 = false /\ keeps_role (cfg 5) (s false) 6 = true /\
  keeps_role (cfg 18446744073709551615) (s true) 0 = true /\ keeps_role (cfg 0) (s false) 18446744073709551615 = true.
Proof. vm_compute. repeat split. Qed.
