(* C09: every socket / mux connection / TURN client / relay allocation the agent acquires while
   gathering is released, at most once, and nothing is open at quiescence after Close (or, for an
   ended generation, after Restart once the superseded cycles wound down).
   Only theorem statements, each closed by [exact <lemma>], with Print Assumptions.

   Model/GatherLedger.v: the ledger as an interleaving transition system ([reach VARIANT]): any
   number of gatherer attempts (host / TCP-mux / server-reflexive / relay), each with the
   cancel/error exit of every step, interleaved arbitrarily with Restart, Failed, Close and with
   each other.  [pinned] models /repo as pinned, [repaired] the proposed repairs. *)
From Coq Require Import ZArith Bool String List.
From Ice Require Import Model.PrioSpec Model.GatherLedger Proofs.GatherLedgerProofs.
Import ListNotations.

(* ---- FULL, for the variant that closes the server-reflexive socket when addCandidate fails
   (findings/proposed/C09-srflx-socket-leak.diff): for every interleaving and every cancel/error
   point, at quiescence after Close has returned every resource is closed and released *)
Theorem C09_released_after_close : forall v s,
  reach v s -> v_srflx_close v = true -> quiescent s = true -> l_close_done s = true ->
  forall id r, nth_error (l_res s) id = Some r -> r_open r = false /\ r_status r = RReleased.
Proof. exact no_leak_after_close. Qed.
Print Assumptions C09_released_after_close.

(* ---- PARTIAL, for the pinned code: the same for every resource that is not a server-reflexive
   socket; whatever is still open is a server-reflexive socket whose attempt ended in a failing
   addCandidate.  Missing: the server-reflexive site (refuted: C09_srflx_leak_refuted below and
   coq/Findings/F_C09.v; reproduced on the real code by the monitor). *)
Theorem C09_released_exactly_once_partial : forall v s,
  reach v s -> quiescent s = true -> l_close_done s = true ->
  forall id r, nth_error (l_res s) id = Some r ->
    (r_kind r <> KSrflx -> r_open r = false /\ r_status r = RReleased) /\
    (r_open r = true -> r_status r = RLeaked /\ r_kind r = KSrflx /\ v_srflx_close v = false).
Proof. exact no_leak_after_close_partial. Qed.
Print Assumptions C09_released_exactly_once_partial.

(* ---- after Restart, once the superseded cycles have wound down, nothing of an ended generation
   is open.  PARTIAL w.r.t. the pinned code: needs both repairs (the srflx close and the context
   re-check in the addCandidate task; without the latter a socket of the old generation can end
   up owned by a candidate of the new one, see C18_cycle_not_mixed_partial). *)
Theorem C09_released_after_restart_partial : forall v s,
  reach v s -> v_srflx_close v = true -> v_recheck v = true -> old_quiescent s = true ->
  forall id r, nth_error (l_res s) id = Some r -> r_gen r <> l_gen s -> r_open r = false /\ r_status r = RReleased.
Proof. exact no_leak_after_restart. Qed.
Print Assumptions C09_released_after_restart_partial.

(* ---- at most once: along every step a resource never re-opens, its Close-call count only grows,
   a released resource stays released, generation and kind never change (both variants) *)
Theorem C09_released_at_most_once : forall v s x s' id r,
  reach v s -> apply v x s = Some s' -> nth_error (l_res s) id = Some r ->
  exists r', nth_error (l_res s') id = Some r' /\ res_step r r'.
Proof. exact released_at_most_once. Qed.
Print Assumptions C09_released_at_most_once.

(* ---- nothing is released early or forgotten silently: every open resource is held by an
   in-flight attempt, owned by a live candidate, or (pinned code only) a leaked srflx socket *)
Theorem C09_open_is_accounted : forall v s id r,
  reach v s -> nth_error (l_res s) id = Some r -> r_open r = true ->
  (exists k a, r_status r = RHeld k /\ nth_error (l_atts s) k = Some a /\ a_pc a <> pc_done) \/
  (exists c cd, r_status r = ROwned c /\ nth_error (l_cands s) c = Some cd /\ c_live cd = true) \/
  (r_status r = RLeaked /\ r_kind r = KSrflx /\ v_srflx_close v = false).
Proof. exact accounted. Qed.
Print Assumptions C09_open_is_accounted.

(* ---- the monitor's decisive check holds on the model's own checkpoint after Close *)
Theorem C09_monitor_after_close : forall v s prev per_cand,
  reach v s -> v_srflx_close v = true -> quiescent s = true -> l_close_done s = true ->
  In ("zero_open_after_close"%string, true)
     (C09_checkpoint_checks 3 per_cand prev (fst (checkpoint s)) (snd (checkpoint s))).
Proof. exact checkpoint_phase3_checks. Qed.
Print Assumptions C09_monitor_after_close.

(* ---- scripted scenarios replayed by the correspondence check stay inside the transition system *)
Theorem C09_script_events_reach : forall v s e s', reach v s -> run_ev v s e = Some s' -> reach v s'.
Proof. exact run_ev_reach. Qed.
Print Assumptions C09_script_events_reach.

(* ---- the full statement is refuted for the pinned variant: Restart between the STUN reply and
   addCandidate, then Close: one socket stays open for ever *)
Theorem C09_srflx_leak_refuted :
  exists s, reach pinned s /\ quiescent s = true /\ l_close_done s = true /\ open_count s = 1.
Proof. exact srflx_leak_witness. Qed.
Print Assumptions C09_srflx_leak_refuted.

(* non-vacuity: the same schedule on the repaired variant *)
Example C09_example :
  exists s, reach repaired s /\ quiescent s = true /\ l_close_done s = true /\ open_count s = 0 /\ length (l_res s) = 1.
Proof. exact repaired_run_example. Qed.
