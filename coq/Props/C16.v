(* C16: candidate and attribute wire formats round-trip; equality is lawful.
   Only theorem statements, each closed by [exact <lemma>], with Print Assumptions.

   The model (Model/Cand.v, Model/Attrs.v) follows candidate_base.go, the four candidate
   constructors, networktype.go, tcptype.go, priority.go, icecontrol.go, usecandidate.go,
   renomination.go and sped.go function by function; Equal / DeepEqual / transportAddressEqual /
   CandidateRelatedAddress.Equal / NewTCPType and the priority functions are GENERATED from the Go
   source on every run (Gen/CandEq.v, Gen/Prio.v, Gen/Names.v).
   [parse_addr] (netip.ParseAddr) and [checksum] (crc32.ChecksumIEEE) are universally quantified:
   the theorems hold for every function in their place.

   The flags of Model/CandVariant.v select the pinned code (false) or the code with the proposed
   repair (true); every statement below is proved for both values.  With the pinned code
   (all flags false) the hypotheses read:
     rel_ok c         the related address is printed by Marshal (address text non-empty AND port
                      non-zero) or is the zero value ("", 0) the parser reconstructs    [finding: rport 0]
     ~ prio_zero_class c   not (relay, relay local preference 0 = TLS, component 256, no priority
                      override): the one candidate whose Priority() is 0               [finding]
     fix_deep_equal = true \/ c_tcp c = 0     no tcptype                                [finding: DeepEqual]
     first_ok c       the first printed extension key is non-empty, and is not "raddr" unless
                      the related address is printed                                   [findings, text only]
   "Never panics" is not a theorem about Go: it is the check no_panic of the monitors, evaluated
   on the implementation by the differential fuzz (suites cand, attrs). *)
From Coq Require Import ZArith NArith Bool String List.
From Ice Require Import Model.Wrap Model.PrioSpec Model.Crc32 Model.Foundation Model.CandVariant Model.Cand Model.Attrs
     Proofs.CandStrings Proofs.CandEqProofs Proofs.CandProofs Proofs.CandMonitor Proofs.CandCrc Proofs.AttrsProofs Proofs.NomCollide.
Import ListNotations.
Local Open Scope Z_scope.

(* ---- candidates built by the public constructors + AddExtension from grammar-valid,
        zone-free fields ([in_domain]): the text parses back to a candidate with identical
        getters that is Equal (both ways) and, outside the DeepEqual finding, DeepEqual.
        _partial: the three finding classes named above are excluded by hypotheses. *)
Theorem C16_roundtrip_partial :
  forall (parse_addr : string -> option ipinfo) (checksum : string -> N) g adds c,
  (forall s, (checksum s < 2 ^ 32)%N) ->
  in_domain (SrcCtor g adds) = true -> build parse_addr (SrcCtor g adds) = Ok c ->
  rel_ok c -> ~ prio_zero_class c ->
  exists c', unmarshal parse_addr (marshal checksum c) = Ok c' /\
    observe checksum c' = observe checksum c /\ equal c c' = true /\ equal c' c = true /\
    (fix_deep_equal = true \/ c_tcp c = 0 -> deep_equal c c' = true /\ deep_equal c' c = true).
Proof. exact ctor_roundtrip. Qed.
Print Assumptions C16_roundtrip_partial.

(* ---- whatever UnmarshalCandidate accepts re-marshals to text that parses to an Equal candidate
        (with identical getters).  _partial: rel_ok and first_ok exclude the finding classes. *)
Theorem C16_reparse_stable_partial :
  forall (parse_addr : string -> option ipinfo) (checksum : string -> N) raw c,
  (forall s, (checksum s < 2 ^ 32)%N) ->
  unmarshal parse_addr raw = Ok c -> rel_ok c -> first_ok c ->
  exists c', unmarshal parse_addr (marshal checksum c) = Ok c' /\
    observe checksum c' = observe checksum c /\ equal c c' = true /\ equal c' c = true /\
    (fix_deep_equal = true \/ c_tcp c = 0 -> deep_equal c c' = true /\ deep_equal c' c = true).
Proof. exact text_roundtrip. Qed.
Print Assumptions C16_reparse_stable_partial.

(* the only candidate with Priority() = 0 *)
Theorem C16_priority_zero_class : forall c,
  (c_type c = 1 \/ c_type c = 2 \/ c_type c = 3 \/ c_type c = 4) ->
  (c_net c = 1 \/ c_net c = 2 \/ c_net c = 3 \/ c_net c = 4) -> 0 <= c_tcp c <= 3 ->
  0 <= c_relay_pref c <= 65535 -> 0 <= c_comp c < 65536 ->
  ~ (c_type c = 4 /\ c_relay_pref c = 0 /\ c_comp c = 256 /\ c_prio_ov c = 0) ->
  priority c <> 0.
Proof. exact priority_nonzero. Qed.
Print Assumptions C16_priority_zero_class.

(* ---- equality laws, for ALL candidate records *)
Theorem C16_equal_refl : forall c, equal c c = true.
Proof. exact equal_refl. Qed.
Print Assumptions C16_equal_refl.

Theorem C16_equal_sym : forall a b, equal a b = equal b a.
Proof. exact equal_sym. Qed.
Print Assumptions C16_equal_sym.

(* _partial: in the pinned code DeepEqual(c, c) is false for every candidate with a tcptype *)
Theorem C16_deep_refl_partial : forall c, fix_deep_equal = true \/ c_tcp c = 0 -> deep_equal c c = true.
Proof. exact deep_equal_refl. Qed.
Print Assumptions C16_deep_refl_partial.

Theorem C16_deep_sym_partial : forall a b,
  fix_deep_equal = true \/ c_tcp a = 0 \/ c_tcp b = 0 -> deep_equal a b = deep_equal b a.
Proof. exact deep_equal_sym. Qed.
Print Assumptions C16_deep_sym_partial.

Theorem C16_deep_implies_equal : forall a b, deep_equal a b = true -> equal a b = true.
Proof. exact deep_implies_equal. Qed.
Print Assumptions C16_deep_implies_equal.

(* extensionsEqual decides equality of the extension multisets *)
Theorem C16_extensions_equal_multiset : forall l1 l2,
  extensions_equal l1 l2 = true <-> Permutation.Permutation l1 l2.
Proof. exact extensions_equal_perm. Qed.
Print Assumptions C16_extensions_equal_multiset.

(* ---- STUN attributes: what AddTo encoded is what GetFrom decodes (nomination: the low 24 bits,
        i.e. exact below 2^24), for every kind, any message without an earlier attribute of the type *)
Theorem C16_attr_roundtrip : forall k pre args m,
  in_range_args k args = true ->
  contains pre (kind_type k m) = false ->
  (k = K_control -> contains pre AttrICEControlling = false /\ contains pre AttrICEControlled = false) ->
  encode k args pre = AOk m ->
  decode k m = AOk (expected k args).
Proof. exact encode_decode. Qed.
Print Assumptions C16_attr_roundtrip.

Theorem C16_attr_nomination_exact : forall m t v,
  contains m t = false -> 0 <= v < 16777216 -> nomination_get t (nomination_add t v m) = AOk v.
Proof. exact nomination_roundtrip_exact. Qed.
Print Assumptions C16_attr_nomination_exact.

(* ... and ONLY those: for every value the decoded number is the low 24 bits (the attribute has three
   value bytes), so v and v + 2^24 are indistinguishable on the wire; this is the bound in C20's
   "nomination values below 2^24 survive the attribute encoding" *)
Theorem C16_attr_nomination_low_24_bits : forall m t v,
  contains m t = false -> 0 <= v -> nomination_get t (nomination_add t v m) = AOk (v mod 16777216).
Proof. exact nomination_roundtrip. Qed.
Print Assumptions C16_attr_nomination_low_24_bits.

(* hence two values 2^24 apart are one and the same attribute on the wire *)
Theorem C16_attr_nomination_wire_collision : forall m t v,
  contains m t = false -> 0 <= v ->
  nomination_get t (nomination_add t (v + 16777216) m) = nomination_get t (nomination_add t v m).
Proof. exact nomination_wire_collision. Qed.
Print Assumptions C16_attr_nomination_wire_collision.

(* ---- sizes: a present attribute of a wrong size is rejected.  _partial: in the pinned code a
        nomination attribute longer than 4 bytes is accepted. *)
Theorem C16_attr_sizes_partial : forall k m v,
  get m (kind_type k m) = Some v -> size_valid k (len v) = false ->
  (is_nom k = false \/ fix_nomination_size = true \/ len v < 4) ->
  decode k m = AErr A_size.
Proof. exact decode_wrong_size. Qed.
Print Assumptions C16_attr_sizes_partial.

Theorem C16_attr_valid_sizes : forall k m v,
  get m (kind_type k m) = Some v -> size_valid k (len v) = true -> decode k m = AOk (denoted k m v).
Proof. exact decode_valid_size. Qed.
Print Assumptions C16_attr_valid_sizes.

Theorem C16_attr_ack_too_many : forall m a, (4 < List.length a)%nat -> ack_add a m = AErr A_size.
Proof. exact ack_too_many. Qed.
Print Assumptions C16_attr_ack_too_many.

(* ---- the extracted monitors (evaluated by bin/check on the implementation's observations)
        accept everything the model computes outside the finding classes *)
Theorem C16_rt_monitor_sound_partial :
  forall (parse_addr : string -> option ipinfo) (checksum : string -> N),
  (forall s, (checksum s < 2 ^ 32)%N) -> forall s,
  (in_domain s = true \/ exists raw, s = SrcText raw) ->
  (forall c, build parse_addr s = Ok c -> lawful c) ->
  all_ok (C16_rt_checks s (rt_observe parse_addr checksum s)) = true.
Proof. exact rt_monitor_sound. Qed.
Print Assumptions C16_rt_monitor_sound_partial.

Theorem C16_pair_monitor_sound_partial : forall (parse_addr : string -> option ipinfo) sa sb,
  (forall a b, build parse_addr sa = Ok a -> build parse_addr sb = Ok b ->
               fix_deep_equal = true \/ c_tcp a = 0 \/ c_tcp b = 0) ->
  all_ok (C16_pair_checks (pair_observe parse_addr sa sb)) = true.
Proof. exact pair_monitor_sound. Qed.
Print Assumptions C16_pair_monitor_sound_partial.

Theorem C16_attr_monitor_sound_partial : forall k pre enc,
  (forall m r, attr_observe k pre enc = AO_dec m r -> nom_ok k m) ->
  all_ok (C16_attr_checks k pre enc (attr_observe k pre enc)) = true.
Proof. exact attr_monitor_sound. Qed.
Print Assumptions C16_attr_monitor_sound_partial.

(* the executable CRC-32 of Model/Crc32.v satisfies the checksum hypothesis *)
Theorem C16_crc32_bound : forall s, (crc32 s < 2 ^ 32)%N.
Proof. exact crc32_bound. Qed.
Print Assumptions C16_crc32_bound.

(* ---- non-vacuity: concrete candidates meet the hypotheses of the round-trip theorems
        (a relay over TCP with a related address and three extensions; a TCP host with a tcptype) *)
Definition ex_parse (s : string) : option ipinfo := Some {| ip_is4 := true; ip_key := s |}.
Definition ex_relay : source :=
  SrcCtor {| g_type := 4; g_network := "tcp"; g_address := "50.0.0.1"; g_port := 5000; g_comp := 1; g_prio := 0;
             g_found := ""; g_tcp := 0; g_reladdr := "192.168.0.1"; g_relport := 5001; g_relayproto := "tls" |}
          [("generation", "0"); ("ufrag", "frag42"); ("network-cost", "")]%string.
Definition ex_host : source :=
  SrcCtor {| g_type := 1; g_network := "tcp"; g_address := "10.0.0.1"; g_port := 0; g_comp := 256; g_prio := 7;
             g_found := "abc+/"; g_tcp := 1; g_reladdr := ""; g_relport := 0; g_relayproto := "" |} [].

Example C16_example :
  in_domain ex_relay = true /\ in_domain ex_host = true /\
  (exists c, build ex_parse ex_relay = Ok c /\ rel_ok c /\ ~ prio_zero_class c /\ c_tcp c = 0 /\
     marshal crc32 c = "2407341474 1 tcp 255 50.0.0.1 5000 typ relay raddr 192.168.0.1 rport 5001 generation 0 ufrag frag42 network-cost "%string) /\
  (exists c, build ex_parse ex_host = Ok c /\ rel_ok c /\ ~ prio_zero_class c /\
     marshal crc32 c = "abc+/ 256 tcp 7 10.0.0.1 0 typ host tcptype active"%string) /\
  all_ok (C16_rt_checks ex_relay (rt_observe ex_parse crc32 ex_relay)) = true.
Proof.
  split; [vm_compute; reflexivity|]. split; [vm_compute; reflexivity|].
  split.
  - eexists. split; [vm_compute; reflexivity|].
    split; [left; vm_compute; destruct fix_marshal_rport0; reflexivity|].
    split; [intros [_ [_ [H _]]]; vm_compute in H; discriminate|].
    split; vm_compute; reflexivity.
  - split.
    + eexists. split; [vm_compute; reflexivity|].
      split; [exact I|]. split; [intros [H _]; vm_compute in H; discriminate|vm_compute; reflexivity].
    + vm_compute. reflexivity.
Qed.
