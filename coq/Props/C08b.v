(* C08 "Close always terminates, unblocks everyone, and is final", part B.  Statements only. *)
From Coq Require Import Arith Bool List.
Import ListNotations.
(* ==== Part B: the close protocol as an interleaving model (Model/CloseProto.v) =====================
   Every theorem is about every reachable state of the model: every schedule, any number of
   callers, closers and candidates ([NC] candidates, [wfree] says which sockets accept writes,
   [fix_reg] switches the proposed repair of registerStartedCandidate on).  Proofs in
   Proofs/CloseProto*.v. *)
From Ice Require Import Model.CloseProto Proofs.CloseProtoMeasure Proofs.CloseProtoInv Proofs.CloseProtoProgress
     Proofs.CloseProtoProofs Proofs.CloseProtoDeadlocks.

(* safety: a closer is past <-taskLoopDone (in particular: has returned) only when the loop has
   exited, onClose ran exactly once, the buffer is closed, Closed was enqueued, the gather goroutine
   is done, every candidate is unregistered with its recvLoop exited and its socket aborted, no
   caller waits for a task any more and no task is running *)
Theorem C08_closer_returns_after_teardown : forall NC wfree fix_reg g0 s k,
  CloseProto.reach NC wfree fix_reg g0 s -> past_tld (cp s k) = true ->
  tld s = true /\ lp s = LExited /\ done s = true /\ oncloses s = 1 /\
  bufclosed s = true /\ closedq s = true /\ (gp s = GNone \/ gp s = GDone) /\
  (forall c, reg s c = false /\ (rp s c = RNone \/ (rp s c = RExited /\ ioab s c = true))) /\
  (forall i, ap s i = AWait -> tdone s i = true) /\
  (forall i, lp s <> LRun i /\ lp s <> LWrite i).
Proof. exact reach_closer_past_tld. Qed.
Print Assumptions C08_closer_returns_after_teardown.

Theorem C08_onclose_at_most_once : forall NC wfree fix_reg g0 s,
  CloseProto.reach NC wfree fix_reg g0 s -> oncloses s <= 1.
Proof. exact reach_onclose_at_most_once. Qed.
Print Assumptions C08_onclose_at_most_once.

(* once the loop has observed l.done no task starts any more (onClose comes after the last task) *)
Theorem C08_no_task_after_close_observed : forall NC wfree fix_reg g0 s s',
  CloseProto.reach NC wfree fix_reg g0 s -> CloseProto.step NC wfree fix_reg s s' ->
  closing (lp s) = true -> closing (lp s') = true /\ ntasks s' = ntasks s.
Proof. exact reach_no_task_after_close_observed. Qed.
Print Assumptions C08_no_task_after_close_observed.

(* Closed is the last notification enqueued: afterwards the queue only drains *)
Theorem C08_closed_is_last_enqueued : forall NC wfree fix_reg g0 s s',
  CloseProto.reach NC wfree fix_reg g0 s -> CloseProto.step NC wfree fix_reg s s' ->
  closedq s = true -> nq s' <= nq s /\ closedq s' = true.
Proof. exact reach_closed_is_last_enqueued. Qed.
Print Assumptions C08_closed_is_last_enqueued.

(* termination, part 1: every step strictly decreases a natural-number measure, so every run that
   uses callers 0..NA-1 and closers 0..NK-1 has at most [measure (init g0)] steps, whatever the
   scheduler does *)
Theorem C08_every_step_decreases_the_measure : forall NA NK NC wfree fix_reg s s' l,
  Inv NC fix_reg s -> bounded2 NA NK s -> label_ok NA NK l ->
  CloseProto.lstep NC wfree fix_reg l s = Some s' -> measure NA NK NC s' < measure NA NK NC s.
Proof. exact measure_decreases. Qed.
Print Assumptions C08_every_step_decreases_the_measure.

Theorem C08_runs_are_finite : forall NA NK NC wfree fix_reg g0 ls s,
  Forall (label_ok NA NK) ls -> CloseProto.run NC wfree fix_reg ls (init g0) = Some s ->
  length ls + measure NA NK NC s <= measure NA NK NC (init g0).
Proof. exact runs_from_init_are_finite. Qed.
Print Assumptions C08_runs_are_finite.

(* termination, part 2 (no deadlock): once a Close has been called, while a called closer has not
   returned or a caller is inside a call, some step other than a new call is enabled -- under
   ok_hosts (no Close inside a task body, no GracefulClose inside a notifier callback) and late_ok
   (no late-registered candidate with a blocking socket; vacuous with the repair).
   _partial: the environment hypotheses (aborted I/O returns, socket Close returns, callbacks
   return, gather I/O returns) are built into the rules of the model; fairness of the Go scheduler
   is what turns "a step is enabled and every run is finite" into "Close returns". *)
Theorem C08_no_deadlock_partial : forall NC wfree fix_reg g0 s,
  CloseProto.reach NC wfree fix_reg g0 s -> ok_hosts s -> late_ok wfree fix_reg s ->
  (exists k, cp s k <> CIdle) ->
  (exists k, cactive (cp s k) = true) \/ (exists i, active (ap s i) = true) ->
  can_move NC wfree fix_reg s.
Proof. exact no_deadlock. Qed.
Print Assumptions C08_no_deadlock_partial.

(* hence a state in which only new calls are possible is one in which every called closer has
   returned and every caller is out of its call *)
Theorem C08_stuck_is_finished_partial : forall NC wfree fix_reg g0 s,
  CloseProto.reach NC wfree fix_reg g0 s -> ok_hosts s -> late_ok wfree fix_reg s ->
  (exists k, cp s k <> CIdle) -> ~ can_move NC wfree fix_reg s ->
  (forall k, cp s k = CIdle \/ cp s k = CRet) /\ (forall i, active (ap s i) = false).
Proof. exact stuck_is_finished. Qed.
Print Assumptions C08_stuck_is_finished_partial.

(* the two hypotheses of ok_hosts are necessary: these ARE deadlocks (shown on the real agent by
   suite close: known findings C08.close_returns:in_binding_request_handler and
   C08.close_returns:graceful_sync_in_callback) *)
Theorem C08_close_inside_task_never_returns : forall NC wfree fix_reg g0 k i s s',
  CloseProto.reach NC wfree fix_reg g0 s -> in_task k i s -> CloseProto.steps NC wfree fix_reg s s' ->
  cp s' k <> CRet /\ tld s' = false /\ (forall k', cp s' k' <> CRet).
Proof. exact reach_close_in_task_never_returns. Qed.
Print Assumptions C08_close_inside_task_never_returns.

Theorem C08_graceful_close_inside_callback_never_returns : forall NC wfree fix_reg g0 k s s',
  CloseProto.reach NC wfree fix_reg g0 s -> in_callback k s -> CloseProto.steps NC wfree fix_reg s s' ->
  cp s' k <> CRet /\ ndr s' = DBusy.
Proof. exact reach_graceful_in_callback_never_returns. Qed.
Print Assumptions C08_graceful_close_inside_callback_never_returns.

(* non-vacuity: a concrete run (a candidate is started, a task blocks in a socket write, a reader
   is parked, Close aborts the write, tears down and returns; everybody is released) *)
Definition ex_wf (c : nat) : bool := false.
Definition ex_run : list label :=
 [ECall 0 (KRun HApi (BStart 0)); TErrOk 0; TSend 0; TBody 0; TTaskDone; ERet 0 ROk;
  ECall 1 (KRun HApi (BWrite 0)); TErrOk 1; TSend 1; EWriteStart 1;
  ECall 2 KRead; TErrOk 2;
  ECloseCall 0 false HApi; TOnceEnter 0; TCloseDone 0; TSnapshot 0; TAbortIO 0; TAbortEnd 0; TOnceLeave 0;
  EWriteEnd 1; TTaskDone; ERet 1 ROk; TSeeDone; EOnCloseStart; TGatherJoin; TDelAbort; ERecvExit 0; TDelJoin; TDelEnd;
  TBufClose; TEnqClosed; TCloseTLD; TSeeTLD 0; TNotifClose 0; ECloseRet 0; ERet 2 RIo; ENotifyStart; ENotifyEnd; TDrainExit].

Example C08_proto_example :
  exists s, CloseProto.run 1 ex_wf false ex_run (init 0) = Some s /\
            cp s 0 = CRet /\ ap s 1 = ARet ROk /\ ap s 2 = ARet RIo /\ rp s 0 = RExited /\ ndr s = DNone /\
            Forall (label_ok 3 1) ex_run /\ Nat.leb (length ex_run) (measure 3 1 1 (init 0)) = true.
Proof.
  eexists. split; [vm_compute; reflexivity|].
  split; [vm_compute; reflexivity|]. split; [vm_compute; reflexivity|]. split; [vm_compute; reflexivity|].
  split; [vm_compute; reflexivity|]. split; [vm_compute; reflexivity|].
  split; [repeat constructor; cbn; repeat constructor|vm_compute; reflexivity].
Qed.

(* the blocked write above is NOT enabled before the abort (the fault is real in the model) *)
Example C08_blocked_write_example :
  match CloseProto.run 1 ex_wf false (firstn 12 ex_run) (init 0) with
  | Some s => CloseProto.lstep 1 ex_wf false (EWriteEnd 1) s = None
  | None => False
  end.
Proof. vm_compute. reflexivity. Qed.

(* under the Go specification's select semantics and without the repair, a candidate registered
   after the closer's snapshot whose socket blocks wedges the loop; with the repair it does not *)
Example C08_late_registration_example_spec_semantics :
  match CloseProto.run 1 wf_block false (late_run ++ [TSend 1; EWriteStart 1]) (init 0) with
  | Some s => cp s 0 = CWaitTLD /\ lp s = LWrite 1 /\ late s 0 = true /\ ioab s 0 = false /\
              CloseProto.lstep 1 wf_block false (EWriteEnd 1) s = None
  | None => False
  end.
Proof. exact late_run_wedges. Qed.
